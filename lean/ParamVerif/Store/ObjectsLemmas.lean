/-
C12 — definitions used in the statements of Props/C12.lean ("who holds a container") and the helper
lemmas: what one operation can do to the reference structure (`Effect`), proved per operation, and
the generic consequences (invariant preservation, private stays private).
-/
import ParamVerif.Store.Objects

namespace ParamVerif.Objects
open ParamVerif.Store

/-! ## Definitions used in the statements -/

/-- container `c` is referenced by a Parameter object in some class `__dict__` (slot or default) -/
def heldByClass (w : World) (c : CellId) : Prop :=
  ∃ K ∈ w.classes, ∃ xp ∈ K.own, c ∈ xp.2.cells

/-- container `c` is referenced by the instance: one of its values, or a slot / the default of one of
its per-instance Parameter copies -/
def heldByInst (I : Inst) (c : CellId) : Prop :=
  (∃ xv ∈ I.values, c ∈ xv.2.cells) ∨ (∃ xp ∈ I.params, c ∈ xp.2.cells)

/-- container `c` is in a mutable slot (`_objects`, `names`, list `bounds`) of a per-instance Parameter copy -/
def slotCellOf (I : Inst) (c : CellId) : Prop :=
  ∃ xp ∈ I.params, c ∈ xp.2.slotCells

/-- somebody other than instance `i` — a class or another instance — references container `c` -/
def heldOutside (w : World) (i : InstId) (c : CellId) : Prop :=
  heldByClass w c ∨ ∃ (j : InstId) (J : Inst), j ≠ i ∧ w.insts[j]? = some J ∧ heldByInst J c

/-- the invariant of every reachable world: references point into the heap, and the containers in
the slots of a per-instance Parameter copy are referenced by nobody else -/
structure Inv (w : World) : Prop where
  boundedCls : ∀ c : Nat, heldByClass w c → c < w.cells.length
  boundedInst : ∀ (j : Nat) (J : Inst), w.insts[j]? = some J → ∀ c : Nat, heldByInst J c → c < w.cells.length
  slotPriv : ∀ (i : Nat) (I : Inst), w.insts[i]? = some I → ∀ c, slotCellOf I c → ¬ heldOutside w i c

/-- What a step may do to the reference structure.  `h = some i`: containers created by the step
are referenced by instance `i` only; `h = none`: by classes only. -/
structure Effect (w w' : World) (h : Option InstId) : Prop where
  len : w.cells.length ≤ w'.cells.length
  cls : ∀ c : Nat, heldByClass w' c →
    heldByClass w c ∨ (w.cells.length ≤ c ∧ c < w'.cells.length ∧ h = none)
  inst : ∀ (j : Nat) (J' : Inst), w'.insts[j]? = some J' → ∀ c : Nat, heldByInst J' c →
    (∃ J, w.insts[j]? = some J ∧ heldByInst J c) ∨ heldByClass w c ∨
    (w.cells.length ≤ c ∧ c < w'.cells.length ∧ h = some j)
  slot : ∀ (j : Nat) (J' : Inst), w'.insts[j]? = some J' → ∀ c : Nat, slotCellOf J' c →
    (∃ J, w.insts[j]? = some J ∧ slotCellOf J c) ∨
    (w.cells.length ≤ c ∧ c < w'.cells.length ∧ h = some j)

/-! ## Generic consequences -/

theorem slotCellOf_held {I : Inst} {c : CellId} (h : slotCellOf I c) : heldByInst I c := by
  obtain ⟨xp, hm, hc⟩ := h
  exact Or.inr ⟨xp, hm, by simp [PObj.cells, PObj.slotCells] at hc ⊢; exact Or.inr hc⟩

/-- nothing that only instance `i` references becomes referenced by anyone else -/
theorem Effect.private_stays_private {w w' : World} {h : Option InstId} (e : Effect w w' h)
    (i : InstId) (c : Nat) (hc : c < w.cells.length) (hp : ¬ heldOutside w i c) :
    ¬ heldOutside w' i c := by
  intro ho
  rcases ho with hcl | ⟨j, J', hj, hJ', hh⟩
  · rcases e.cls c hcl with h1 | ⟨h1, _, _⟩
    · exact hp (Or.inl h1)
    · omega
  · rcases e.inst j J' hJ' c hh with ⟨J, hJ, h1⟩ | h1 | ⟨h1, _, _⟩
    · exact hp (Or.inr ⟨j, J, hj, hJ, h1⟩)
    · exact hp (Or.inl h1)
    · omega

theorem Effect.preserves_inv {w w' : World} {h : Option InstId} (e : Effect w w' h) (inv : Inv w) :
    Inv w' := by
  refine ⟨?_, ?_, ?_⟩
  · intro c hc
    rcases e.cls c hc with h1 | ⟨_, h1, _⟩
    · have := inv.boundedCls c h1; have := e.len; omega
    · omega
  · intro j J' hJ' c hc
    rcases e.inst j J' hJ' c hc with ⟨J, hJ, h1⟩ | h1 | ⟨_, h1, _⟩
    · have := inv.boundedInst j J hJ c h1; have := e.len; omega
    · have := inv.boundedCls c h1; have := e.len; omega
    · omega
  · intro i I' hI' c hs
    rcases e.slot i I' hI' c hs with ⟨I, hI, h1⟩ | ⟨h1, h2, h3⟩
    · exact e.private_stays_private i c (inv.boundedInst i I hI c (slotCellOf_held h1)) (inv.slotPriv i I hI c h1)
    · -- a container created by this step for instance `i`
      intro ho
      rcases ho with hcl | ⟨j, J', hj, hJ', hh⟩
      · rcases e.cls c hcl with h4 | h4
        · have := inv.boundedCls c h4; omega
        · rw [h3] at h4; simp at h4
      · rcases e.inst j J' hJ' c hh with ⟨J, hJ, h4⟩ | h4 | h4
        · have := inv.boundedInst j J hJ c h4; omega
        · have := inv.boundedCls c h4; omega
        · rw [h3] at h4; simp at h4; exact hj h4.2.2.symm

/-- the identity step -/
theorem Effect.refl (w : World) (h : Option InstId) : Effect w w h :=
  ⟨Nat.le_refl _, fun _ hc => Or.inl hc, fun _ J' hJ' _ hc => Or.inl ⟨J', hJ', hc⟩,
   fun _ J' hJ' _ hc => Or.inl ⟨J', hJ', hc⟩⟩

/-- a step that only changes the contents of containers -/
theorem Effect.of_cells_only {w : World} {cells' : List (List Int)} (h : Option InstId)
    (hl : cells'.length = w.cells.length) : Effect w { w with cells := cells' } h :=
  ⟨by simp [hl], fun _ hc => Or.inl hc, fun _ J' hJ' _ hc => Or.inl ⟨J', hJ', hc⟩,
   fun _ J' hJ' _ hc => Or.inl ⟨J', hJ', hc⟩⟩

/-! ## Association lists, heap helpers -/

theorem mem_aset {κ α : Type} [DecidableEq κ] {d : List (κ × α)} {k : κ} {v : α} {y : κ × α}
    (h : y ∈ aset d k v) : y = (k, v) ∨ y ∈ d := by
  induction d with
  | nil => simp [aset] at h; exact Or.inl h
  | cons kv d ih =>
    obtain ⟨k', v'⟩ := kv
    simp only [aset] at h
    split at h
    · rename_i e
      simp only [List.mem_cons] at h ⊢
      rcases h with h | h
      · left; rw [h, e]
      · right; right; exact h
    · simp only [List.mem_cons] at h ⊢
      rcases h with h | h
      · right; left; exact h
      · rcases ih h with h | h
        · left; exact h
        · right; right; exact h

theorem aget_mem {κ α : Type} [DecidableEq κ] {d : List (κ × α)} {k : κ} {v : α}
    (h : aget d k = some v) : (k, v) ∈ d := by
  induction d with
  | nil => simp [aget] at h
  | cons kv d ih =>
    obtain ⟨k', v'⟩ := kv
    simp only [aget] at h
    split at h
    · rename_i e; simp at h; subst h; subst e; simp
    · exact List.mem_cons_of_mem _ (ih h)

theorem deref_append_lt {cells extra : List (List Int)} {c : Nat} (h : c < cells.length) :
    deref (cells ++ extra) c = deref cells c := by
  simp [deref, List.getElem?_append_left h]

theorem deref_set_ne {cells : List (List Int)} {c c' : CellId} {l : List Int} (h : c ≠ c') :
    deref (cells.set c l) c' = deref cells c' := by
  simp [deref, List.getElem?_set_ne h]

theorem evalLit_spec {cells : List (List Int)} {lit : Lit} {v : Val} {cells' : List (List Int)}
    (h : evalLit cells lit = (v, cells')) :
    (∃ extra, cells' = cells ++ extra) ∧ (∀ c : Nat, c ∈ v.cells → cells.length ≤ c ∧ c < cells'.length) := by
  cases lit with
  | pending => simp [evalLit] at h; obtain ⟨rfl, rfl⟩ := h; exact ⟨⟨[], by simp⟩, by simp [Val.cells]⟩
  | none => simp [evalLit] at h; obtain ⟨rfl, rfl⟩ := h; exact ⟨⟨[], by simp⟩, by simp [Val.cells]⟩
  | int n => simp [evalLit] at h; obtain ⟨rfl, rfl⟩ := h; exact ⟨⟨[], by simp⟩, by simp [Val.cells]⟩
  | list l =>
    simp [evalLit] at h; obtain ⟨rfl, rfl⟩ := h
    exact ⟨⟨[l], rfl⟩, by simp [Val.cells]⟩
  | tup ls =>
    simp [evalLit] at h; obtain ⟨rfl, rfl⟩ := h
    refine ⟨⟨ls, rfl⟩, ?_⟩
    intro c hc
    simp only [Val.cells, List.mem_map, List.mem_range] at hc
    obtain ⟨j, hj, rfl⟩ := hc
    simp; omega

theorem deepcopyVal_spec {cells : List (List Int)} {v0 v : Val} {cells' : List (List Int)}
    (h : deepcopyVal cells v0 = (v, cells')) :
    (∃ extra, cells' = cells ++ extra) ∧ (∀ c : Nat, c ∈ v.cells → cells.length ≤ c ∧ c < cells'.length) := by
  cases v0 with
  | none => simp [deepcopyVal] at h; obtain ⟨rfl, rfl⟩ := h; exact ⟨⟨[], by simp⟩, by simp [Val.cells]⟩
  | int n => simp [deepcopyVal] at h; obtain ⟨rfl, rfl⟩ := h; exact ⟨⟨[], by simp⟩, by simp [Val.cells]⟩
  | ref c0 =>
    simp [deepcopyVal] at h; obtain ⟨rfl, rfl⟩ := h
    exact ⟨⟨[deref cells c0], rfl⟩, by simp [Val.cells]⟩
  | tup cs =>
    simp [deepcopyVal] at h; obtain ⟨rfl, rfl⟩ := h
    refine ⟨⟨cs.map (deref cells), rfl⟩, ?_⟩
    intro c hc
    simp only [Val.cells, List.mem_map, List.mem_range] at hc
    obtain ⟨j, hj, rfl⟩ := hc
    simp; omega

theorem copySlots_spec : ∀ (ms : List (Slot × CellId)) (cells : List (List Int))
    (ms' : List (Slot × CellId)) (cells' : List (List Int)),
    copySlots cells ms = (ms', cells') →
    (∃ extra, cells' = cells ++ extra) ∧
    (∀ (s : Slot) (c : Nat), (s, c) ∈ ms' → cells.length ≤ c ∧ c < cells'.length)
  | [], cells, ms', cells', h => by
    simp [copySlots] at h; obtain ⟨rfl, rfl⟩ := h; exact ⟨⟨[], by simp⟩, by simp⟩
  | (s, c) :: rest, cells, ms', cells', h => by
    simp only [copySlots] at h
    generalize hr : copySlots (cells ++ [deref cells c]) rest = r at h
    obtain ⟨rest', cells2⟩ := r
    simp at h
    obtain ⟨rfl, rfl⟩ := h
    obtain ⟨⟨extra, he⟩, hb⟩ := copySlots_spec rest _ _ _ hr
    refine ⟨⟨[deref cells c] ++ extra, by simp [he]⟩, ?_⟩
    intro s1 c1 hsc
    simp only [List.mem_cons, Prod.mk.injEq] at hsc
    rcases hsc with ⟨rfl, rfl⟩ | hsc
    · simp [he]
    · have := hb s1 c1 hsc
      simp at this
      constructor <;> omega

theorem validate_spec {cells cells' : List (List Int)} {p : PObj} {v : Val}
    (h : validate cells p v = .ok cells') :
    cells'.length = cells.length ∧
    (∀ c : Nat, deref cells' c ≠ deref cells c → c ∈ p.slotCells) := by
  unfold validate at h
  cases hk : p.kind <;> simp only [hk] at h
  · simp at h; subst h; simp
  · cases v with
    | none => simp at h
    | ref c => simp at h
    | tup cs => simp at h
    | int n =>
      simp only at h
      cases hb : boundsOf cells p with
      | error e => simp [hb] at h
      | ok ob =>
        cases ob with
        | none => simp [hb] at h; subst h; simp
        | some lh =>
          obtain ⟨lo, hi⟩ := lh
          simp only [hb] at h
          split at h
          · simp at h
          · simp at h; subst h; simp
  · cases v with
    | none => simp at h
    | ref c => simp at h
    | tup cs => simp at h
    | int n =>
      cases ho : aget p.mslots Slot.objects with
      | none => simp [ho] at h
      | some c =>
        simp only [ho] at h
        split at h
        · simp at h; subst h; simp
        · split at h
          · simp at h
          · simp at h; subst h
            refine ⟨by simp, ?_⟩
            intro c' hne
            by_cases hcc : c = c'
            · subst hcc
              have := aget_mem ho
              simp only [PObj.slotCells, List.mem_map]
              exact ⟨_, this, rfl⟩
            · exact absurd (deref_set_ne hcc) hne

theorem resolveIn_mem {classes : List Cls} {x : Name} : ∀ {mro : List ClsId} {k : ClsId} {p : PObj},
    resolveIn classes x mro = some (k, p) → ∃ K, classes[k]? = some K ∧ (x, p) ∈ K.own
  | [], _, _, h => by simp [resolveIn] at h
  | k0 :: ks, k, p, h => by
    simp only [resolveIn] at h
    split at h
    · rename_i p0 hp0
      simp at h
      obtain ⟨rfl, rfl⟩ := h
      cases hK : classes[k0]? with
      | none => simp [hK] at hp0
      | some K =>
        simp [hK] at hp0
        exact ⟨K, rfl, aget_mem hp0⟩
    · exact resolveIn_mem h

theorem resolve_mem {w : World} {k k' : ClsId} {x : Name} {p : PObj}
    (h : w.resolve k x = some (k', p)) : ∃ K, w.classes[k']? = some K ∧ (x, p) ∈ K.own := by
  unfold World.resolve at h
  split at h
  · exact resolveIn_mem h
  · simp at h

/-- the cells of a Parameter found by class lookup are class-held -/
theorem resolve_held {w : World} {k k' : ClsId} {x : Name} {p : PObj}
    (h : w.resolve k x = some (k', p)) : ∀ c ∈ p.cells, heldByClass w c := by
  obtain ⟨K, hK, hm⟩ := resolve_mem h
  intro c hc
  exact ⟨K, List.mem_of_getElem? hK, (x, p), hm, hc⟩

/-! ## Class-side and instance-side steps -/

/-- a step on the class side: no instance record changes; containers it creates are referenced by
classes only -/
structure ClsEffect (w w' : World) : Prop where
  len : w.cells.length ≤ w'.cells.length
  instsEq : w'.insts = w.insts
  cls : ∀ c : Nat, heldByClass w' c → heldByClass w c ∨ (w.cells.length ≤ c ∧ c < w'.cells.length)

theorem ClsEffect.toEffect {w w' : World} (e : ClsEffect w w') : Effect w w' none :=
  ⟨e.len, fun c hc => (e.cls c hc).imp id (fun h => ⟨h.1, h.2, rfl⟩),
   fun j J' hJ' c hc => Or.inl ⟨J', by rw [← e.instsEq]; exact hJ', hc⟩,
   fun j J' hJ' c hc => Or.inl ⟨J', by rw [← e.instsEq]; exact hJ', hc⟩⟩

theorem ClsEffect.refl (w : World) : ClsEffect w w := ⟨Nat.le_refl _, rfl, fun _ h => Or.inl h⟩

theorem ClsEffect.trans {w w1 w2 : World} (a : ClsEffect w w1) (b : ClsEffect w1 w2) : ClsEffect w w2 := by
  refine ⟨Nat.le_trans a.len b.len, by rw [b.instsEq, a.instsEq], ?_⟩
  intro c hc
  rcases b.cls c hc with h | ⟨h1, h2⟩
  · rcases a.cls c h with h | ⟨h3, h4⟩
    · exact Or.inl h
    · right; have := b.len; constructor <;> omega
  · right; have := a.len; constructor <;> omega

/-- only the heap changed, and it did not shrink -/
theorem ClsEffect.of_cells {w : World} {cells' : List (List Int)}
    (hl : w.cells.length ≤ cells'.length) : ClsEffect w { w with cells := cells' } :=
  ⟨hl, rfl, fun _ h => Or.inl h⟩

/-- a step on behalf of instance `i`, served by a Parameter object of its own: class `__dict__`s and
all other instance records are untouched; containers it creates are referenced by `i` only; the only
old containers whose contents change are in slots of `i`'s own Parameter copies -/
structure InstEffect (w w' : World) (i : InstId) : Prop extends Effect w w' (some i) where
  classesEq : w'.classes = w.classes
  othersEq : ∀ j : Nat, j ≠ i → w'.insts[j]? = w.insts[j]?
  touched : ∀ c : Nat, c < w.cells.length → deref w'.cells c ≠ deref w.cells c →
    ∃ I, w.insts[i]? = some I ∧ slotCellOf I c

theorem Effect.trans {w w1 w2 : World} {i : InstId} (a : Effect w w1 (some i)) (b : Effect w1 w2 (some i)) :
    Effect w w2 (some i) := by
  refine ⟨Nat.le_trans a.len b.len, ?_, ?_, ?_⟩
  · intro c hc
    rcases b.cls c hc with h | ⟨_, _, h⟩
    · rcases a.cls c h with h | ⟨_, _, h⟩
      · exact Or.inl h
      · simp at h
    · simp at h
  · intro j J2 hJ2 c hc
    rcases b.inst j J2 hJ2 c hc with ⟨J1, hJ1, h⟩ | h | ⟨h1, h2, h3⟩
    · rcases a.inst j J1 hJ1 c h with h | h | ⟨h1, h2, h3⟩
      · exact Or.inl h
      · exact Or.inr (Or.inl h)
      · right; right; have := b.len; exact ⟨h1, by omega, h3⟩
    · rcases a.cls c h with h | ⟨_, _, h⟩
      · exact Or.inr (Or.inl h)
      · simp at h
    · right; right; have := a.len; exact ⟨by omega, h2, h3⟩
  · intro j J2 hJ2 c hc
    rcases b.slot j J2 hJ2 c hc with ⟨J1, hJ1, h⟩ | ⟨h1, h2, h3⟩
    · rcases a.slot j J1 hJ1 c h with h | ⟨h1, h2, h3⟩
      · exact Or.inl h
      · right; have := b.len; exact ⟨h1, by omega, h3⟩
    · right; have := a.len; exact ⟨by omega, h2, h3⟩

theorem InstEffect.trans {w w1 w2 : World} {i : InstId} (a : InstEffect w w1 i) (b : InstEffect w1 w2 i) :
    InstEffect w w2 i := by
  refine ⟨a.toEffect.trans b.toEffect, by rw [b.classesEq, a.classesEq],
    fun j hj => by rw [b.othersEq j hj, a.othersEq j hj], ?_⟩
  intro c hc hne
  by_cases h1 : deref w1.cells c = deref w.cells c
  · have hc1 : c < w1.cells.length := Nat.lt_of_lt_of_le hc a.len
    obtain ⟨I1, hI1, hs⟩ := b.touched c hc1 (by rw [h1]; exact hne)
    rcases a.slot i I1 hI1 c hs with h | ⟨h2, _, _⟩
    · exact h
    · omega
  · exact a.touched c hc h1

theorem InstEffect.refl (w : World) (i : InstId) : InstEffect w w i :=
  ⟨Effect.refl w _, rfl, fun _ _ => rfl, fun _ _ h => absurd rfl h⟩

/-- the heap was only extended -/
theorem InstEffect.of_append {w : World} (extra : List (List Int)) (i : InstId) :
    InstEffect w { w with cells := w.cells ++ extra } i :=
  ⟨⟨by simp, fun _ hc => Or.inl hc, fun _ J' hJ' _ hc => Or.inl ⟨J', hJ', hc⟩,
    fun _ J' hJ' _ hc => Or.inl ⟨J', hJ', hc⟩⟩, rfl, fun _ _ => rfl,
   fun c hc h => absurd (deref_append_lt hc) h⟩

/-! ## World updates -/

theorem heldByClass_setOwn {w : World} {k : ClsId} {x : Name} {p : PObj} {c : Nat}
    (h : heldByClass (w.setOwn k x p) c) : heldByClass w c ∨ c ∈ p.cells := by
  unfold World.setOwn at h
  split at h
  · rename_i K hK
    obtain ⟨K', hK', xp, hxp, hc⟩ := h
    rcases List.mem_or_eq_of_mem_set hK' with hm | rfl
    · exact Or.inl ⟨K', hm, xp, hxp, hc⟩
    · rcases mem_aset hxp with rfl | hm
      · exact Or.inr hc
      · exact Or.inl ⟨K, List.mem_of_getElem? hK, xp, hm, hc⟩
  · exact Or.inl h

theorem setOwn_insts (w : World) (k : ClsId) (x : Name) (p : PObj) : (w.setOwn k x p).insts = w.insts := by
  unfold World.setOwn; split <;> rfl

theorem setOwn_cells (w : World) (k : ClsId) (x : Name) (p : PObj) : (w.setOwn k x p).cells = w.cells := by
  unfold World.setOwn; split <;> rfl

/-- installing a Parameter whose containers are class-held or new is a class-side step -/
theorem ClsEffect.setOwn {w0 w : World} {k : ClsId} {x : Name} {p : PObj} (e : ClsEffect w0 w)
    (hp : ∀ c : Nat, c ∈ p.cells → heldByClass w0 c ∨ (w0.cells.length ≤ c ∧ c < w.cells.length)) :
    ClsEffect w0 (w.setOwn k x p) := by
  refine ⟨by rw [setOwn_cells]; exact e.len, by rw [setOwn_insts]; exact e.instsEq, ?_⟩
  intro c hc
  rw [setOwn_cells]
  rcases heldByClass_setOwn hc with h | h
  · exact e.cls c h
  · exact hp c h

theorem getElem?_set_cases {α : Type} {l : List α} {i j : Nat} {a b : α}
    (h : (l.set i a)[j]? = some b) : (j = i ∧ b = a) ∨ (j ≠ i ∧ l[j]? = some b) := by
  by_cases hij : i = j
  · subst hij
    by_cases hl : i < l.length
    · simp [List.getElem?_set_self hl] at h; exact Or.inl ⟨rfl, h.symm⟩
    · simp at hl
      rw [List.getElem?_eq_none (by simp; exact hl)] at h; simp at h
  · rw [List.getElem?_set_ne hij] at h
    exact Or.inr ⟨fun e => hij e.symm, h⟩

/-- replacing the record of instance `i` by one that only adds references to containers created by
the step (or to class-held ones) keeps the step on `i`'s side -/
theorem InstEffect.setRecord {w w2 : World} {i : InstId} {I2 I3 : Inst} (e : InstEffect w w2 i)
    (hI2 : w2.insts[i]? = some I2)
    (hheld : ∀ c : Nat, heldByInst I3 c →
      heldByInst I2 c ∨ heldByClass w c ∨ (w.cells.length ≤ c ∧ c < w2.cells.length))
    (hslot : ∀ c : Nat, slotCellOf I3 c → slotCellOf I2 c ∨ (w.cells.length ≤ c ∧ c < w2.cells.length)) :
    InstEffect w { w2 with insts := w2.insts.set i I3 } i := by
  refine ⟨⟨e.len, e.cls, ?_, ?_⟩, e.classesEq, ?_, e.touched⟩
  · intro j J' hJ' c hc
    rcases getElem?_set_cases hJ' with ⟨rfl, rfl⟩ | ⟨hne, hJ⟩
    · rcases hheld c hc with h | h | h
      · exact e.inst j I2 hI2 c h
      · exact Or.inr (Or.inl h)
      · exact Or.inr (Or.inr ⟨h.1, h.2, rfl⟩)
    · exact e.inst j J' hJ c hc
  · intro j J' hJ' c hc
    rcases getElem?_set_cases hJ' with ⟨rfl, rfl⟩ | ⟨hne, hJ⟩
    · rcases hslot c hc with h | h
      · exact e.slot j I2 hI2 c h
      · exact Or.inr ⟨h.1, h.2, rfl⟩
    · exact e.slot j J' hJ c hc
  · intro j hj
    show (w2.insts.set i I3)[j]? = _
    rw [List.getElem?_set_ne (fun h => hj h.symm)]
    exact e.othersEq j hj

theorem setInst_eq {w : World} {i : InstId} {I : Inst} (f : Inst → Inst) (h : w.insts[i]? = some I) :
    w.setInst i f = { w with insts := w.insts.set i (f I) } := by
  simp [World.setInst, World.inst?, h]

theorem getElem?_set_self' {α : Type} {l : List α} {i : Nat} {a b : α} (h : l[i]? = some b) :
    (l.set i a)[i]? = some a := by
  have : i < l.length := by
    rcases Nat.lt_or_ge i l.length with h1 | h1
    · exact h1
    · rw [List.getElem?_eq_none h1] at h; simp at h
  simp [List.getElem?_set_self this]

/-- `_instantiated_parameter`: either the instance's own Parameter (possibly just created: an
instance-side step), or — `per_instance=False` and no copy — the class Parameter and nothing happened -/
theorem instParam_spec {w w1 : World} {i : InstId} {I : Inst} {x : Name} {P ip : PObj} {own : Bool}
    (hI : w.insts[i]? = some I) (hP : ∀ c : Nat, c ∈ P.cells → heldByClass w c)
    (h : instParam w i I x P = (w1, ip, own)) :
    (own = true → InstEffect w w1 i ∧ ∃ I1, w1.insts[i]? = some I1 ∧ aget I1.params x = some ip ∧
        I1.values = I.values ∧ I1.cls = I.cls) ∧
    (own = false → w1 = w ∧ ip = P ∧ aget I.params x = none ∧ P.perInstance = false) := by
  unfold instParam at h
  split at h
  · rename_i ip0 h0
    simp at h; obtain ⟨rfl, rfl, rfl⟩ := h
    exact ⟨fun _ => ⟨InstEffect.refl w i, I, hI, h0, rfl, rfl⟩, by simp⟩
  · rename_i h0
    split at h
    · rename_i hpi
      generalize hcs : copySlots w.cells P.mslots = r at h
      obtain ⟨ms, cells'⟩ := r
      simp at h; obtain ⟨rfl, rfl, rfl⟩ := h
      obtain ⟨⟨extra, rfl⟩, hfresh⟩ := copySlots_spec _ _ _ _ hcs
      refine ⟨fun _ => ⟨?_, _, getElem?_set_self' hI, aget_aset_self _ _ _, rfl, rfl⟩, by simp⟩
      have e0 : InstEffect w { w with cells := w.cells ++ extra } i := InstEffect.of_append extra i
      refine InstEffect.setRecord e0 hI ?_ ?_
      · intro c hc
        rcases hc with ⟨xv, hm, hc⟩ | ⟨xp, hm, hc⟩
        · exact Or.inl (Or.inl ⟨xv, hm, hc⟩)
        · rcases mem_aset hm with rfl | hm
          · simp only [PObj.cells, List.mem_append, List.mem_map] at hc
            rcases hc with hc | ⟨sc, hsc, rfl⟩
            · exact Or.inr (Or.inl (hP c (by simp [PObj.cells, hc])))
            · exact Or.inr (Or.inr (hfresh sc.1 sc.2 hsc))
          · exact Or.inl (Or.inr ⟨xp, hm, hc⟩)
      · intro c hc
        obtain ⟨xp, hm, hc⟩ := hc
        rcases mem_aset hm with rfl | hm
        · simp only [PObj.slotCells, List.mem_map] at hc
          obtain ⟨sc, hsc, rfl⟩ := hc
          exact Or.inr (hfresh sc.1 sc.2 hsc)
        · exact Or.inl ⟨xp, hm, hc⟩
    · rename_i hpi
      simp at h; obtain ⟨rfl, rfl, rfl⟩ := h
      exact ⟨by simp, fun _ => ⟨rfl, rfl, h0, by simpa using hpi⟩⟩

/-! ## The operations, one by one -/

theorem Effect.of_cells_ext {w : World} {cells' : List (List Int)} (h : Option InstId)
    (hl : w.cells.length ≤ cells'.length) : Effect w { w with cells := cells' } h :=
  ⟨hl, fun _ hc => Or.inl hc, fun _ J' hJ' _ hc => Or.inl ⟨J', hJ', hc⟩,
   fun _ J' hJ' _ hc => Or.inl ⟨J', hJ', hc⟩⟩

theorem Effect.setRecord {w w2 : World} {i : InstId} {I2 I3 : Inst} (e : Effect w w2 (some i))
    (hI2 : w2.insts[i]? = some I2)
    (hheld : ∀ c : Nat, heldByInst I3 c →
      heldByInst I2 c ∨ heldByClass w c ∨ (w.cells.length ≤ c ∧ c < w2.cells.length))
    (hslot : ∀ c : Nat, slotCellOf I3 c → slotCellOf I2 c ∨ (w.cells.length ≤ c ∧ c < w2.cells.length)) :
    Effect w { w2 with insts := w2.insts.set i I3 } (some i) := by
  refine ⟨e.len, e.cls, ?_, ?_⟩
  · intro j J' hJ' c hc
    rcases getElem?_set_cases hJ' with ⟨rfl, rfl⟩ | ⟨hne, hJ⟩
    · rcases hheld c hc with h | h | h
      · exact e.inst j I2 hI2 c h
      · exact Or.inr (Or.inl h)
      · exact Or.inr (Or.inr ⟨h.1, h.2, rfl⟩)
    · exact e.inst j J' hJ c hc
  · intro j J' hJ' c hc
    rcases getElem?_set_cases hJ' with ⟨rfl, rfl⟩ | ⟨hne, hJ⟩
    · rcases hslot c hc with h | h
      · exact e.slot j I2 hI2 c h
      · exact Or.inr ⟨h.1, h.2, rfl⟩
    · exact e.slot j J' hJ c hc

/-- only contents changed, and only of containers in slots of `i`'s own Parameter copies -/
theorem InstEffect.of_cells_touch {w1 : World} {i : InstId} {cells2 : List (List Int)}
    (hl : cells2.length = w1.cells.length)
    (ht : ∀ c : Nat, deref cells2 c ≠ deref w1.cells c → ∃ I, w1.insts[i]? = some I ∧ slotCellOf I c) :
    InstEffect w1 { w1 with cells := cells2 } i :=
  ⟨⟨by simp [hl], fun _ hc => Or.inl hc, fun _ J' hJ' _ hc => Or.inl ⟨J', hJ', hc⟩,
    fun _ J' hJ' _ hc => Or.inl ⟨J', hJ', hc⟩⟩, rfl, fun _ _ => rfl, fun c _ h => ht c h⟩

theorem doSetInstCore_own {w : World} {i : InstId} {x : Name} {lit : Lit} {I : Inst} {k' : ClsId} {P : PObj}
    (hI : w.insts[i]? = some I) (hr : w.resolve I.cls x = some (k', P))
    (hown : (aget I.params x).isSome ∨ P.perInstance = true) :
    InstEffect w (doSetInstCore w i x lit).1 i := by
  simp only [doSetInstCore, World.inst?, hI, hr]
  generalize hev : evalLit w.cells lit = r
  obtain ⟨v, cells1⟩ := r
  obtain ⟨⟨extra, rfl⟩, hv⟩ := evalLit_spec hev
  simp only
  generalize hip : instParam { w with cells := w.cells ++ extra } i I x P = r
  obtain ⟨w1, ip, own⟩ := r
  have hsp := instParam_spec (w := { w with cells := w.cells ++ extra }) hI (resolve_held hr) hip
  cases own with
  | false =>
    obtain ⟨_, _, h1, h2⟩ := hsp.2 rfl
    rcases hown with h | h
    · simp [h1] at h
    · simp [h2] at h
  | true =>
    obtain ⟨e1, I1, hI1, hget, hvals, _⟩ := hsp.1 rfl
    have e01 : InstEffect w w1 i := (InstEffect.of_append extra i).trans e1
    simp only
    cases hval : validate w1.cells ip v with
    | error e => simpa using e01
    | ok cells2 =>
      obtain ⟨hl, ht⟩ := validate_spec hval
      have e12 : InstEffect w1 { w1 with cells := cells2 } i :=
        InstEffect.of_cells_touch hl (fun c hc => ⟨I1, hI1, (x, ip), aget_mem hget, ht c hc⟩)
      have e02 := e01.trans e12
      simp only
      split
      · exact e02
      split
      · split <;> exact e02
      · rw [setInst_eq (w := { w1 with cells := cells2 }) _ hI1]
        refine InstEffect.setRecord e02 hI1 ?_ ?_
        · intro c hc
          rcases hc with ⟨xv, hm, hc⟩ | hc
          · rcases mem_aset hm with rfl | hm
            · have := hv c hc
              have h3 := e1.len
              simp at h3 this
              exact Or.inr (Or.inr ⟨this.1, by simp [hl]; omega⟩)
            · exact Or.inl (Or.inl ⟨xv, hm, hc⟩)
          · exact Or.inl (Or.inr hc)
        · intro c hc; exact Or.inl hc

theorem doSetInstCore_effect (w : World) (i : InstId) (x : Name) (lit : Lit) :
    Effect w (doSetInstCore w i x lit).1 (some i) := by
  cases hI : w.insts[i]? with
  | none => simp [doSetInstCore, World.inst?, hI]; exact Effect.refl _ _
  | some I =>
    cases hr : w.resolve I.cls x with
    | none => simp [doSetInstCore, World.inst?, hI, hr]; exact Effect.refl _ _
    | some kP =>
      obtain ⟨k', P⟩ := kP
      by_cases hown : (aget I.params x).isSome ∨ P.perInstance = true
      · exact (doSetInstCore_own hI hr hown).toEffect
      · have h0 : aget I.params x = none := by
          cases h : aget I.params x with
          | none => rfl
          | some _ => simp [h] at hown
        have hpi : P.perInstance = false := by
          cases h : P.perInstance with
          | false => rfl
          | true => simp [h] at hown
        simp only [doSetInstCore, World.inst?, hI, hr]
        generalize hev : evalLit w.cells lit = r
        obtain ⟨v, cells1⟩ := r
        obtain ⟨⟨extra, rfl⟩, hv⟩ := evalLit_spec hev
        simp only [instParam, h0, hpi]
        simp only [Bool.false_eq_true, if_false]
        cases hval : validate (w.cells ++ extra) P v with
        | error e => simp; exact Effect.of_cells_ext _ (by simp)
        | ok cells2 =>
          obtain ⟨hl, _⟩ := validate_spec hval
          have e02 : Effect w { w with cells := cells2 } (some i) :=
            Effect.of_cells_ext _ (by rw [hl]; simp)
          simp only
          split
          · exact e02
          split
          · split <;> exact e02
          · rw [setInst_eq (w := { w with cells := cells2 }) _ hI]
            refine Effect.setRecord e02 hI ?_ ?_
            · intro c hc
              rcases hc with ⟨xv, hm, hc⟩ | hc
              · rcases mem_aset hm with rfl | hm
                · have := hv c hc
                  simp at this
                  exact Or.inr (Or.inr ⟨this.1, by simp [hl]; omega⟩)
                · exact Or.inl (Or.inl ⟨xv, hm, hc⟩)
              · exact Or.inl (Or.inr hc)
            · intro c hc; exact Or.inl hc

theorem doSetInst_own {w : World} {i : InstId} {x : Name} {lit : Lit} {I : Inst} {k' : ClsId} {P : PObj}
    (hI : w.insts[i]? = some I) (hr : w.resolve I.cls x = some (k', P))
    (hown : (aget I.params x).isSome ∨ P.perInstance = true) :
    InstEffect w (doSetInst w i x lit).1 i := by
  unfold doSetInst
  split
  · exact InstEffect.refl w i
  · exact doSetInstCore_own hI hr hown

theorem doSetInst_effect (w : World) (i : InstId) (x : Name) (lit : Lit) :
    Effect w (doSetInst w i x lit).1 (some i) := by
  unfold doSetInst
  split
  · exact Effect.refl _ _
  · exact doSetInstCore_effect w i x lit

theorem mem_dropSlot {s : Slot} {ms : List (Slot × CellId)} {sc : Slot × CellId}
    (h : sc ∈ dropSlot s ms) : sc ∈ ms := by
  unfold dropSlot at h; exact (List.mem_filter.1 h).1

/-- assignment to a Parameter attribute: the new record references only what the old one did, or
containers created by the assignment -/
theorem applySlotSet_spec {cells cells' : List (List Int)} {p p' : PObj} {s : SlotSet}
    (h : applySlotSet cells p s = .ok (p', cells')) :
    (∃ extra, cells' = cells ++ extra) ∧
    (∀ c : Nat, c ∈ p'.cells → c ∈ p.cells ∨ (cells.length ≤ c ∧ c < cells'.length)) ∧
    (∀ c : Nat, c ∈ p'.slotCells → c ∈ p.slotCells ∨ (cells.length ≤ c ∧ c < cells'.length)) := by
  cases s with
  | boundsTup b =>
    simp only [applySlotSet] at h
    split at h
    · simp at h; obtain ⟨rfl, rfl⟩ := h
      refine ⟨⟨[], by simp⟩, ?_, ?_⟩
      · intro c hc
        simp only [PObj.cells, List.mem_append, List.mem_map] at hc ⊢
        rcases hc with hc | ⟨sc, hsc, rfl⟩
        · exact Or.inl (Or.inl hc)
        · exact Or.inl (Or.inr ⟨sc, mem_dropSlot hsc, rfl⟩)
      · intro c hc
        simp only [PObj.slotCells, List.mem_map] at hc ⊢
        obtain ⟨sc, hsc, rfl⟩ := hc
        exact Or.inl ⟨sc, mem_dropSlot hsc, rfl⟩
    · simp at h
  | boundsList lo hi =>
    simp only [applySlotSet] at h
    split at h
    · simp at h; obtain ⟨rfl, rfl⟩ := h
      refine ⟨⟨[[lo, hi]], rfl⟩, ?_, ?_⟩
      · intro c hc
        simp only [PObj.cells, List.mem_append, List.mem_map, List.mem_singleton] at hc ⊢
        rcases hc with hc | ⟨sc, hsc | rfl, rfl⟩
        · exact Or.inl (Or.inl hc)
        · exact Or.inl (Or.inr ⟨sc, mem_dropSlot hsc, rfl⟩)
        · right; simp
      · intro c hc
        simp only [PObj.slotCells, List.mem_append, List.mem_map, List.mem_singleton] at hc ⊢
        obtain ⟨sc, hsc | rfl, rfl⟩ := hc
        · exact Or.inl ⟨sc, mem_dropSlot hsc, rfl⟩
        · right; simp
    · simp at h
  | objects l =>
    simp only [applySlotSet] at h
    split at h
    · simp at h; obtain ⟨rfl, rfl⟩ := h
      refine ⟨⟨[[], l], rfl⟩, ?_, ?_⟩
      · intro c hc
        simp only [PObj.cells, List.mem_append, List.mem_map, List.mem_cons,
          List.not_mem_nil, or_false] at hc ⊢
        rcases hc with hc | ⟨sc, hsc | rfl | rfl, rfl⟩
        · exact Or.inl (Or.inl hc)
        · exact Or.inl (Or.inr ⟨sc, mem_dropSlot (mem_dropSlot hsc), rfl⟩)
        · right; simp
        · right; simp
      · intro c hc
        simp only [PObj.slotCells, List.mem_append, List.mem_map, List.mem_cons,
          List.not_mem_nil, or_false] at hc ⊢
        obtain ⟨sc, hsc | rfl | rfl, rfl⟩ := hc
        · exact Or.inl ⟨sc, mem_dropSlot (mem_dropSlot hsc), rfl⟩
        · right; simp
        · right; simp
    · simp at h
  | constant b =>
    simp [applySlotSet] at h; obtain ⟨rfl, rfl⟩ := h
    exact ⟨⟨[], by simp⟩, fun c hc => Or.inl hc, fun c hc => Or.inl hc⟩
  | precedence n =>
    simp [applySlotSet] at h; obtain ⟨rfl, rfl⟩ := h
    exact ⟨⟨[], by simp⟩, fun c hc => Or.inl hc, fun c hc => Or.inl hc⟩

/-- in-place mutation of a Parameter attribute touches only containers in that Parameter's slots -/
theorem applySlotMut_spec {cells cells' : List (List Int)} {p : PObj} {m : SlotMut}
    (h : applySlotMut cells p m = .ok cells') :
    cells'.length = cells.length ∧ (∀ c : Nat, deref cells' c ≠ deref cells c → c ∈ p.slotCells) := by
  have key : ∀ (s : Slot) (c : CellId) (l : List Int), aget p.mslots s = some c →
      (cells.set c l).length = cells.length ∧
      (∀ c' : Nat, deref (cells.set c l) c' ≠ deref cells c' → c' ∈ p.slotCells) := by
    intro s c l hs
    refine ⟨by simp, ?_⟩
    intro c' hne
    by_cases hcc : c = c'
    · subst hcc
      simp only [PObj.slotCells, List.mem_map]
      exact ⟨_, aget_mem hs, rfl⟩
    · exact absurd (deref_set_ne hcc) hne
  cases m with
  | objectsAppend n =>
    simp only [applySlotMut] at h
    split at h
    · rename_i c _ hc; simp at h; subst h; exact key _ _ _ hc
    · simp at h
    · simp at h
  | namesInsert n =>
    simp only [applySlotMut] at h
    split at h
    · rename_i c _ hc
      split at h
      · simp at h; subst h; simp
      · simp at h; subst h; exact key _ _ _ hc
    · simp at h
    · simp at h
  | boundsSetHi n =>
    simp only [applySlotMut] at h
    split at h
    · split at h
      · rename_i c hc
        split at h
        · simp at h; subst h; exact key _ _ _ hc
        · simp at h
      · simp at h
    · simp at h


theorem locate_cls_spec {w w1 : World} {k : ClsId} {x : Name} {loc : Loc} {p : PObj}
    (h : locate w (.cls k) x = .ok (w1, loc, p)) :
    ∃ k', w.resolve k x = some (k', p) ∧ loc = .own k' x ∧ w1 = w := by
  simp only [locate] at h
  split at h
  · simp at h
  · rename_i k' P hr
    simp at h; obtain ⟨rfl, rfl, rfl⟩ := h
    exact ⟨k', hr, rfl, rfl⟩

/-- `obj.param.x`: the instance's own Parameter (an instance-side step created it if need be), or the
class Parameter when it opted out of per-instance copies -/
theorem locate_inst_spec {w w1 : World} {i : InstId} {x : Name} {loc : Loc} {p : PObj}
    (h : locate w (.inst i) x = .ok (w1, loc, p)) :
    ∃ I k' P, w.insts[i]? = some I ∧ w.resolve I.cls x = some (k', P) ∧
      ((loc = .copy i x ∧ ((aget I.params x).isSome ∨ P.perInstance = true) ∧ InstEffect w w1 i ∧
          ∃ I1, w1.insts[i]? = some I1 ∧ aget I1.params x = some p ∧ I1.values = I.values ∧ I1.cls = I.cls) ∨
       (loc = .own k' x ∧ w1 = w ∧ p = P ∧ aget I.params x = none ∧ P.perInstance = false)) := by
  simp only [locate, World.inst?] at h
  split at h
  · simp at h
  · rename_i I hI
    split at h
    · simp at h
    · rename_i k' P hr
      generalize hip : instParam w i I x P = r at h
      obtain ⟨w1', ip, own⟩ := r
      simp at h; obtain ⟨rfl, rfl, rfl⟩ := h
      have hsp := instParam_spec hI (resolve_held hr) hip
      refine ⟨I, k', P, hI, hr, ?_⟩
      cases own with
      | true =>
        obtain ⟨e, I1, h1, h2, h3, h4⟩ := hsp.1 rfl
        left
        refine ⟨by simp, ?_, e, I1, h1, h2, h3, h4⟩
        -- own: either a copy existed or one could be made
        unfold instParam at hip
        split at hip
        · rename_i ip0 h0; simp [h0]
        · split at hip
          · rename_i hpi; exact Or.inr hpi
          · simp at hip
      | false =>
        obtain ⟨h1, h2, h3, h4⟩ := hsp.2 rfl
        right; exact ⟨by simp, h1, h2, h3, h4⟩

theorem doAccess_effect (w : World) (i : InstId) (x : Name) :
    InstEffect w (doAccess w i x).1 i := by
  unfold doAccess
  cases hl : locate w (.inst i) x with
  | error e => exact InstEffect.refl w i
  | ok r =>
    obtain ⟨w1, loc, p⟩ := r
    obtain ⟨I, k', P, hI, hr, h | h⟩ := locate_inst_spec hl
    · exact h.2.2.1
    · rw [h.2.1]; exact InstEffect.refl w i

theorem writeP_copy_eq {w : World} {i : InstId} {x : Name} {p : PObj} {I : Inst} (h : w.insts[i]? = some I) :
    w.writeP (.copy i x) p = { w with insts := w.insts.set i { I with params := aset I.params x p } } := by
  simp [World.writeP, setInst_eq _ h]

/-- `obj.param.x.<slot> = v` served by the instance's own Parameter is an instance-side step -/
theorem doSlotSet_own {w : World} {i : InstId} {x : Name} {s : SlotSet} {I : Inst} {k' : ClsId} {P : PObj}
    (hI : w.insts[i]? = some I) (hr : w.resolve I.cls x = some (k', P))
    (hown : (aget I.params x).isSome ∨ P.perInstance = true) :
    InstEffect w (doSlotSet w (.inst i) x s).1 i := by
  unfold doSlotSet
  cases hl : locate w (.inst i) x with
  | error e => exact InstEffect.refl w i
  | ok r =>
    obtain ⟨w1, loc, p⟩ := r
    obtain ⟨I', k'', P', hI', hr', h | h⟩ := locate_inst_spec hl
    · obtain ⟨rfl, _, e, I1, hI1, hget, _, _⟩ := h
      simp only
      cases ha : applySlotSet w1.cells p s with
      | error e' => exact e
      | ok r =>
        obtain ⟨p', cells'⟩ := r
        obtain ⟨⟨extra, rfl⟩, hc1, hc2⟩ := applySlotSet_spec ha
        simp only
        rw [writeP_copy_eq (w := { w1 with cells := w1.cells ++ extra }) hI1]
        have e2 : InstEffect w { w1 with cells := w1.cells ++ extra } i := e.trans (InstEffect.of_append extra i)
        have hlen := e.len
        refine InstEffect.setRecord e2 hI1 ?_ ?_
        · intro c hc
          rcases hc with hc | ⟨xp, hm, hc⟩
          · exact Or.inl (Or.inl hc)
          · rcases mem_aset hm with rfl | hm
            · rcases hc1 c hc with h | h
              · exact Or.inl (Or.inr ⟨(x, p), aget_mem hget, h⟩)
              · right; right; simp at h ⊢; omega
            · exact Or.inl (Or.inr ⟨xp, hm, hc⟩)
        · intro c hc
          obtain ⟨xp, hm, hc⟩ := hc
          rcases mem_aset hm with rfl | hm
          · rcases hc2 c hc with h | h
            · exact Or.inl ⟨(x, p), aget_mem hget, h⟩
            · right; simp at h ⊢; omega
          · exact Or.inl ⟨xp, hm, hc⟩
    · obtain ⟨_, _, _, h1, h2⟩ := h
      rw [hI] at hI'; cases hI'
      rw [hr] at hr'; cases hr'
      rcases hown with h | h
      · simp [h1] at h
      · simp [h2] at h

/-- `obj.param.x.objects.append(v)` .. served by the instance's own Parameter is an instance-side step -/
theorem doSlotMut_own {w : World} {i : InstId} {x : Name} {m : SlotMut} {I : Inst} {k' : ClsId} {P : PObj}
    (hI : w.insts[i]? = some I) (hr : w.resolve I.cls x = some (k', P))
    (hown : (aget I.params x).isSome ∨ P.perInstance = true) :
    InstEffect w (doSlotMut w (.inst i) x m).1 i := by
  unfold doSlotMut
  cases hl : locate w (.inst i) x with
  | error e => exact InstEffect.refl w i
  | ok r =>
    obtain ⟨w1, loc, p⟩ := r
    obtain ⟨I', k'', P', hI', hr', h | h⟩ := locate_inst_spec hl
    · obtain ⟨rfl, _, e, I1, hI1, hget, _, _⟩ := h
      simp only
      cases ha : applySlotMut w1.cells p m with
      | error e' => exact e
      | ok cells' =>
        obtain ⟨hlen, ht⟩ := applySlotMut_spec ha
        exact e.trans (InstEffect.of_cells_touch hlen
          (fun c hc => ⟨I1, hI1, (x, p), aget_mem hget, ht c hc⟩))
    · obtain ⟨_, _, _, h1, h2⟩ := h
      rw [hI] at hI'; cases hI'
      rw [hr] at hr'; cases hr'
      rcases hown with h | h
      · simp [h1] at h
      · simp [h2] at h


/-- a Parameter attribute assigned on a Parameter object that lives in a class `__dict__` -/
theorem slotSet_at_class {w : World} {k0 k' : ClsId} {x : Name} {P : PObj} {s : SlotSet}
    (hr : w.resolve k0 x = some (k', P)) :
    ClsEffect w (match applySlotSet w.cells P s with
      | .error e => (w, some e)
      | .ok (p', cells') => (({ w with cells := cells' }).writeP (.own k' x) p', none)).1 := by
  cases ha : applySlotSet w.cells P s with
  | error e => exact ClsEffect.refl w
  | ok r =>
    obtain ⟨p', cells'⟩ := r
    obtain ⟨⟨extra, rfl⟩, hc1, _⟩ := applySlotSet_spec ha
    simp only [World.writeP]
    refine ClsEffect.setOwn (ClsEffect.of_cells (by simp)) ?_
    intro c hc
    rcases hc1 c hc with h | h
    · exact Or.inl (resolve_held hr c h)
    · exact Or.inr h

theorem slotMut_at_class {w : World} {P : PObj} {m : SlotMut} :
    ClsEffect w (match applySlotMut w.cells P m with
      | .error e => (w, some e)
      | .ok cells' => ({ w with cells := cells' }, none)).1 := by
  cases ha : applySlotMut w.cells P m with
  | error e => exact ClsEffect.refl w
  | ok cells' =>
    obtain ⟨hl, _⟩ := applySlotMut_spec ha
    exact ClsEffect.of_cells (by rw [hl]; exact Nat.le_refl _)

theorem doSlotSet_cls (w : World) (k : ClsId) (x : Name) (s : SlotSet) :
    ClsEffect w (doSlotSet w (.cls k) x s).1 := by
  unfold doSlotSet
  cases hl : locate w (.cls k) x with
  | error e => exact ClsEffect.refl w
  | ok r =>
    obtain ⟨w1, loc, p⟩ := r
    obtain ⟨k', hr, rfl, rfl⟩ := locate_cls_spec hl
    exact slotSet_at_class hr

theorem doSlotMut_cls (w : World) (k : ClsId) (x : Name) (m : SlotMut) :
    ClsEffect w (doSlotMut w (.cls k) x m).1 := by
  unfold doSlotMut
  cases hl : locate w (.cls k) x with
  | error e => exact ClsEffect.refl w
  | ok r =>
    obtain ⟨w1, loc, p⟩ := r
    obtain ⟨k', hr, rfl, rfl⟩ := locate_cls_spec hl
    exact slotMut_at_class

/-- every instance-targeted Parameter-attribute operation is an instance-side step, or — the
Parameter opted out with `per_instance=False` — a class-side step -/
theorem doSlotSet_inst (w : World) (i : InstId) (x : Name) (s : SlotSet) :
    InstEffect w (doSlotSet w (.inst i) x s).1 i ∨ ClsEffect w (doSlotSet w (.inst i) x s).1 := by
  cases hl : locate w (.inst i) x with
  | error e => left; simp [doSlotSet, hl]; exact InstEffect.refl w i
  | ok r =>
    obtain ⟨w1, loc, p⟩ := r
    obtain ⟨I, k', P, hI, hr, h | h⟩ := locate_inst_spec hl
    · exact Or.inl (doSlotSet_own hI hr h.2.1)
    · obtain ⟨rfl, rfl, rfl, _, _⟩ := h
      right
      simp only [doSlotSet, hl]
      exact slotSet_at_class hr

theorem doSlotMut_inst (w : World) (i : InstId) (x : Name) (m : SlotMut) :
    InstEffect w (doSlotMut w (.inst i) x m).1 i ∨ ClsEffect w (doSlotMut w (.inst i) x m).1 := by
  cases hl : locate w (.inst i) x with
  | error e => left; simp [doSlotMut, hl]; exact InstEffect.refl w i
  | ok r =>
    obtain ⟨w1, loc, p⟩ := r
    obtain ⟨I, k', P, hI, hr, h | h⟩ := locate_inst_spec hl
    · exact Or.inl (doSlotMut_own hI hr h.2.1)
    · obtain ⟨rfl, rfl, rfl, _, _⟩ := h
      right
      simp only [doSlotMut, hl]
      exact slotMut_at_class

/-- `K.x = v` is a class-side step -/
theorem doSetClsCore_effect (w : World) (k : ClsId) (x : Name) (lit : Lit) :
    ClsEffect w (doSetClsCore w k x lit).1 := by
  unfold doSetClsCore
  cases hr : w.resolve k x with
  | none => exact ClsEffect.refl w
  | some kP =>
    obtain ⟨k', P⟩ := kP
    simp only
    generalize hev : evalLit w.cells lit = r
    obtain ⟨v, cells1⟩ := r
    obtain ⟨⟨extra, rfl⟩, hv⟩ := evalLit_spec hev
    simp only
    -- the Parameter object that ends up in `K.__dict__` and the heap after making it
    generalize hp : (if k' = k then (P, w.cells ++ extra) else
        ((({ P with owner := Owner.cls k, mslots := (copySlots (w.cells ++ extra) P.mslots).1 } : PObj),
          (copySlots (w.cells ++ extra) P.mslots).2) : PObj × List (List Int))) = r
    obtain ⟨p, cells1'⟩ := r
    have hpp : (∃ e2, cells1' = w.cells ++ extra ++ e2) ∧ p.default = P.default ∧
        (∀ c : Nat, c ∈ p.slotCells → c ∈ P.slotCells ∨ ((w.cells ++ extra).length ≤ c ∧ c < cells1'.length)) := by
      split at hp
      · simp at hp; obtain ⟨rfl, rfl⟩ := hp
        exact ⟨⟨[], by simp⟩, rfl, fun c hc => Or.inl hc⟩
      · generalize hcs : copySlots (w.cells ++ extra) P.mslots = r2 at hp
        obtain ⟨ms, c2⟩ := r2
        simp at hp; obtain ⟨rfl, rfl⟩ := hp
        obtain ⟨⟨e2, rfl⟩, hfresh⟩ := copySlots_spec _ _ _ _ hcs
        refine ⟨⟨e2, rfl⟩, rfl, ?_⟩
        intro c hc
        simp only [PObj.slotCells, List.mem_map] at hc
        obtain ⟨sc, hsc, rfl⟩ := hc
        exact Or.inr (hfresh sc.1 sc.2 hsc)
    obtain ⟨⟨e2, rfl⟩, hdef, hslots⟩ := hpp
    have hcells : ∀ c : Nat, c ∈ p.cells → heldByClass w c ∨ (w.cells.length ≤ c ∧ c < (w.cells ++ extra ++ e2).length) := by
      intro c hc
      simp only [PObj.cells, List.mem_append] at hc
      rcases hc with hc | hc
      · exact Or.inl (resolve_held hr c (by simp [PObj.cells, ← hdef, hc]))
      · rcases hslots c (by simpa [PObj.slotCells] using hc) with h | h
        · exact Or.inl (resolve_held hr c (by simp only [PObj.cells, List.mem_append]; exact Or.inr (by simpa [PObj.slotCells] using h)))
        · right; simp at h ⊢; omega
    have e1 : ClsEffect w (({ w with cells := w.cells ++ extra ++ e2 }).setOwn k x p) :=
      ClsEffect.setOwn (ClsEffect.of_cells (by simp)) hcells
    show ClsEffect w (match validate (({ w with cells := w.cells ++ extra ++ e2 }).setOwn k x p).cells p v with
      | .error e => (({ w with cells := w.cells ++ extra ++ e2 } : World), some e)
      | .ok cells2 =>
        if p.readonly then (({ w with cells := cells2 } : World), some Err.typeError)
        else (({ ({ w with cells := w.cells ++ extra ++ e2 }).setOwn k x p with cells := cells2 }).setOwn k x { p with default := v }, none)).1
    cases hval : validate (({ w with cells := w.cells ++ extra ++ e2 }).setOwn k x p).cells p v with
    | error e => exact ClsEffect.of_cells (by simp)
    | ok cells2 =>
      obtain ⟨hl, _⟩ := validate_spec hval
      simp only
      split
      · refine ClsEffect.of_cells ?_
        rw [hl, setOwn_cells]; simp
      have hlen1 : (({ w with cells := w.cells ++ extra ++ e2 }).setOwn k x p).cells.length = (w.cells ++ extra ++ e2).length := by
        rw [setOwn_cells]
      have e2' : ClsEffect w { ({ w with cells := w.cells ++ extra ++ e2 }).setOwn k x p with cells := cells2 } :=
        e1.trans (ClsEffect.of_cells (by rw [hl]; exact Nat.le_refl _))
      refine ClsEffect.setOwn e2' ?_
      intro c hc
      simp only [PObj.cells, List.mem_append] at hc
      rcases hc with hc | hc
      · right
        have := hv c hc
        simp only [hl, hlen1]
        simp at this ⊢; omega
      · rcases hcells c (by simp only [PObj.cells, List.mem_append]; exact Or.inr hc) with h | h
        · exact Or.inl h
        · right; simp only [hl, hlen1]; exact h

theorem doSetCls_effect (w : World) (k : ClsId) (x : Name) (lit : Lit) :
    ClsEffect w (doSetCls w k x lit).1 := by
  unfold doSetCls
  split
  · exact ClsEffect.refl w
  · exact doSetClsCore_effect w k x lit

theorem doMutVal_cells (w : World) (t : Target) (x : Name) (n : Int) :
    ∃ cells', (doMutVal w t x n).1 = { w with cells := cells' } ∧ cells'.length = w.cells.length := by
  unfold doMutVal
  split
  · exact ⟨w.cells, rfl, rfl⟩
  · exact ⟨w.cells, rfl, rfl⟩
  · exact ⟨w.cells, rfl, rfl⟩
  · exact ⟨w.cells, rfl, rfl⟩
  · exact ⟨_, rfl, by simp⟩

theorem doMutItem_cells (w : World) (t : Target) (x : Name) (i : Nat) (n : Int) :
    ∃ cells', (doMutItem w t x i n).1 = { w with cells := cells' } ∧ cells'.length = w.cells.length := by
  unfold doMutItem
  split
  · split
    · exact ⟨_, rfl, by simp⟩
    · exact ⟨w.cells, rfl, rfl⟩
  · exact ⟨w.cells, rfl, rfl⟩


theorem allocSlots_spec : ∀ (sl : List (Slot × List Int)) (cells : List (List Int))
    (ms : List (Slot × CellId)) (cells' : List (List Int)),
    allocSlots cells sl = (ms, cells') →
    (∃ extra, cells' = cells ++ extra) ∧
    (∀ (s : Slot) (c : Nat), (s, c) ∈ ms → cells.length ≤ c ∧ c < cells'.length)
  | [], cells, ms, cells', h => by
    simp [allocSlots] at h; obtain ⟨rfl, rfl⟩ := h; exact ⟨⟨[], by simp⟩, by simp⟩
  | (s, l) :: rest, cells, ms, cells', h => by
    simp only [allocSlots] at h
    generalize hr : allocSlots (cells ++ [l]) rest = r at h
    obtain ⟨rest', cells2⟩ := r
    simp at h
    obtain ⟨rfl, rfl⟩ := h
    obtain ⟨⟨extra, he⟩, hb⟩ := allocSlots_spec rest _ _ _ hr
    refine ⟨⟨[l] ++ extra, by simp [he]⟩, ?_⟩
    intro s1 c1 hsc
    simp only [List.mem_cons, Prod.mk.injEq] at hsc
    rcases hsc with ⟨rfl, rfl⟩ | hsc
    · simp [he]
    · have := hb s1 c1 hsc
      simp at this
      constructor <;> omega

theorem declare_spec {cells cells' : List (List Int)} {k : ClsId} {d : Decl} {p : PObj}
    (h : declare cells k d = (p, cells')) :
    (∃ extra, cells' = cells ++ extra) ∧ (∀ c : Nat, c ∈ p.cells → cells.length ≤ c ∧ c < cells'.length) := by
  unfold declare at h
  generalize hev : evalLit cells d.default = r at h
  obtain ⟨dv, cells1⟩ := r
  obtain ⟨⟨e1, rfl⟩, hv⟩ := evalLit_spec hev
  simp only at h
  generalize hal : allocSlots (cells ++ e1) (declSlots d) = r at h
  obtain ⟨ms, cells2⟩ := r
  obtain ⟨⟨e2, rfl⟩, hms⟩ := allocSlots_spec _ _ _ _ hal
  simp at h
  obtain ⟨rfl, rfl⟩ := h
  refine ⟨⟨e1 ++ e2, by simp⟩, ?_⟩
  intro c hc
  simp only [PObj.cells, List.mem_append, List.mem_map] at hc
  rcases hc with hc | ⟨sc, hsc, rfl⟩
  · have := hv c hc; simp at this ⊢; omega
  · have := hms sc.1 sc.2 hsc; simp at this ⊢; omega

theorem declareAll_spec {k : ClsId} : ∀ (ds : List Decl) (cells : List (List Int))
    (own : List (Name × PObj)) (cells' : List (List Int)),
    declareAll k cells ds = (own, cells') →
    (∃ extra, cells' = cells ++ extra) ∧
    (∀ xp ∈ own, ∀ c : Nat, c ∈ xp.2.cells → cells.length ≤ c ∧ c < cells'.length)
  | [], cells, own, cells', h => by
    simp [declareAll] at h; obtain ⟨rfl, rfl⟩ := h; exact ⟨⟨[], by simp⟩, by simp⟩
  | d :: ds, cells, own, cells', h => by
    simp only [declareAll] at h
    generalize hd : declare cells k d = r at h
    obtain ⟨p, cells1⟩ := r
    generalize hr : declareAll k cells1 ds = r2 at h
    obtain ⟨rest, cells2⟩ := r2
    simp at h; obtain ⟨rfl, rfl⟩ := h
    obtain ⟨⟨e1, rfl⟩, h1⟩ := declare_spec hd
    obtain ⟨⟨e2, rfl⟩, h2⟩ := declareAll_spec ds _ _ _ hr
    refine ⟨⟨e1 ++ e2, by simp⟩, ?_⟩
    intro xp hxp c hc
    simp only [List.mem_cons] at hxp
    rcases hxp with rfl | hxp
    · have := h1 c hc; simp at this ⊢; omega
    · have := h2 xp hxp c hc; simp at this ⊢; omega

/-- declaring a class is a class-side step -/
theorem doMkClass_effect (w : World) (mro : List ClsId) (decls : List Decl) :
    ClsEffect w (doMkClass w mro decls).1 := by
  unfold doMkClass
  generalize hd : declareAll w.classes.length w.cells decls = r
  obtain ⟨own, cells'⟩ := r
  obtain ⟨⟨extra, rfl⟩, hf⟩ := declareAll_spec _ _ _ _ hd
  simp only [hd]
  refine ⟨by simp, rfl, ?_⟩
  intro c hc
  obtain ⟨K, hK, xp, hxp, hcc⟩ := hc
  simp only [List.mem_append, List.mem_singleton] at hK
  rcases hK with hK | rfl
  · exact Or.inl ⟨K, hK, xp, hxp, hcc⟩
  · exact Or.inr (hf xp hxp c hcc)


/-- every container referenced from `vals` is class-held or was created since the heap had size `base` -/
def GoodVals (w : World) (base : Nat) (cells : List (List Int)) (vals : List (Name × Val)) : Prop :=
  ∀ xv ∈ vals, ∀ c : Nat, c ∈ xv.2.cells → heldByClass w c ∨ (base ≤ c ∧ c < cells.length)

theorem GoodVals.mono {w : World} {base : Nat} {cells extra : List (List Int)} {vals : List (Name × Val)}
    (h : GoodVals w base cells vals) : GoodVals w base (cells ++ extra) vals := by
  intro xv hxv c hc
  rcases h xv hxv c hc with h | h
  · exact Or.inl h
  · right; simp; omega

theorem GoodVals.aset {w : World} {base : Nat} {cells : List (List Int)} {vals : List (Name × Val)}
    {x : Name} {v : Val} (h : GoodVals w base cells vals)
    (hv : ∀ c : Nat, c ∈ v.cells → heldByClass w c ∨ (base ≤ c ∧ c < cells.length)) :
    GoodVals w base cells (aset vals x v) := by
  intro xv hxv c hc
  rcases mem_aset hxv with rfl | hm
  · exact hv c hc
  · exact h xv hm c hc

theorem setupValues_spec (w : World) (k : ClsId) (base : Nat) :
    ∀ (xs : List Name) (cells : List (List Int)) (vals vals' : List (Name × Val)) (cells' : List (List Int)),
    setupValues w k xs cells vals = (vals', cells') → base ≤ cells.length → GoodVals w base cells vals →
    (∃ extra, cells' = cells ++ extra) ∧ GoodVals w base cells' vals'
  | [], cells, vals, vals', cells', h, _, hg => by
    simp [setupValues] at h; obtain ⟨rfl, rfl⟩ := h; exact ⟨⟨[], by simp⟩, hg⟩
  | x :: xs, cells, vals, vals', cells', h, hb, hg => by
    simp only [setupValues] at h
    split at h
    · exact setupValues_spec w k base xs cells vals vals' cells' h hb hg
    · rename_i k' p hr
      split at h
      · generalize hd : deepcopyVal cells p.default = r at h
        obtain ⟨v, cells1⟩ := r
        obtain ⟨⟨e1, rfl⟩, hv⟩ := deepcopyVal_spec hd
        simp only at h
        obtain ⟨⟨e2, rfl⟩, hg2⟩ := setupValues_spec w k base xs _ _ vals' cells' h (by simp; omega)
          (GoodVals.aset hg.mono (fun c hc => Or.inr (by have := hv c hc; omega)))
        exact ⟨⟨e1 ++ e2, by simp⟩, hg2⟩
      · split at h
        · exact setupValues_spec w k base xs cells _ vals' cells' h hb
            (GoodVals.aset hg (fun c hc => Or.inl (resolve_held hr c (by simp [PObj.cells, hc]))))
        · exact setupValues_spec w k base xs cells vals vals' cells' h hb hg

theorem setupKwargs_spec (w : World) (k : ClsId) (base : Nat) :
    ∀ (kw : List (Name × Lit)) (cells : List (List Int)) (vals vals' : List (Name × Val))
      (cells' : List (List Int)) (err : Option Err),
    setupKwargs w k kw cells vals = ((vals', cells'), err) → base ≤ cells.length → GoodVals w base cells vals →
    cells.length ≤ cells'.length ∧ GoodVals w base cells' vals'
  | [], cells, vals, vals', cells', err, h, _, hg => by
    simp [setupKwargs] at h; obtain ⟨⟨rfl, rfl⟩, _⟩ := h; exact ⟨Nat.le_refl _, hg⟩
  | (x, lit) :: rest, cells, vals, vals', cells', err, h, hb, hg => by
    simp only [setupKwargs] at h
    generalize hev : evalLit cells lit = r at h
    obtain ⟨v, cells1⟩ := r
    obtain ⟨⟨e1, rfl⟩, hv⟩ := evalLit_spec hev
    simp only at h
    split at h
    · simp at h; obtain ⟨⟨rfl, rfl⟩, _⟩ := h
      exact ⟨by simp, hg.mono⟩
    · rename_i k' p hr
      split at h
      · split at h
        · obtain ⟨h1, h2⟩ := setupKwargs_spec w k base rest (cells ++ e1) vals vals' cells' err h (by simp; omega) hg.mono
          exact ⟨by simp at h1; omega, h2⟩
        · simp at h; obtain ⟨⟨rfl, rfl⟩, _⟩ := h
          exact ⟨by simp, hg.mono⟩
      · split at h
        · simp at h; obtain ⟨⟨rfl, rfl⟩, _⟩ := h
          exact ⟨by simp, hg.mono⟩
        · rename_i cells2 hval
          obtain ⟨hl, _⟩ := validate_spec hval
          split at h
          · simp at h; obtain ⟨⟨rfl, rfl⟩, _⟩ := h
            refine ⟨by rw [hl]; simp, ?_⟩
            intro xv hxv c hc
            rcases hg xv hxv c hc with h | h
            · exact Or.inl h
            · right; rw [hl]; simp; omega
          have hg1 : GoodVals w base cells2 (aset vals x v) := by
            intro xv hxv c hc
            rcases mem_aset hxv with rfl | hm
            · right; have := hv c hc; simp at this; rw [hl]; simp; omega
            · rcases hg xv hm c hc with h | h
              · exact Or.inl h
              · right; rw [hl]; simp; omega
          obtain ⟨h1, h2⟩ := setupKwargs_spec w k base rest cells2 _ vals' cells' err h (by rw [hl]; simp; omega) hg1
          exact ⟨by rw [hl] at h1; simp at h1; omega, h2⟩

/-- `K(**kwargs)`: containers created by the construction belong to the new instance only; class
`__dict__`s and the records of existing instances are not touched (cell *contents* are another matter) -/
theorem doMkInst_effect (w : World) (k : ClsId) (kwargs : List (Name × Lit)) :
    Effect w (doMkInst w k kwargs).1 (some w.insts.length) ∧
    (doMkInst w k kwargs).1.classes = w.classes ∧
    (∀ j : Nat, j < w.insts.length → (doMkInst w k kwargs).1.insts[j]? = w.insts[j]?) := by
  unfold doMkInst
  split
  · exact ⟨Effect.refl _ _, by simp, by simp⟩
  · generalize hsv : setupValues w k (w.visible k) w.cells [] = r
    obtain ⟨vals0, cells0⟩ := r
    obtain ⟨⟨e0, rfl⟩, hg0⟩ := setupValues_spec w k w.cells.length _ _ _ _ _ hsv (Nat.le_refl _)
      (by intro xv hxv; simp at hxv)
    simp only
    generalize hsk : setupKwargs w k kwargs (w.cells ++ e0) vals0 = r
    obtain ⟨⟨vals1, cells1⟩, err⟩ := r
    obtain ⟨hl, hg1⟩ := setupKwargs_spec w k w.cells.length _ _ _ _ _ _ hsk (by simp) hg0
    simp at hl
    cases err with
    | some e =>
      simp only
      exact ⟨Effect.of_cells_ext _ (by omega), by simp, by simp⟩
    | none =>
      simp only
      refine ⟨⟨by simp; omega, fun c hc => Or.inl hc, ?_, ?_⟩, trivial, ?_⟩
      · intro j J' hJ' c hc
        simp only at hJ'
        by_cases hj : j < w.insts.length
        · rw [List.getElem?_append_left hj] at hJ'
          exact Or.inl ⟨J', hJ', hc⟩
        · have hj' : j = w.insts.length := by
            rcases Nat.lt_or_ge j (w.insts ++ [({ cls := k, values := vals1, params := [] } : Inst)]).length with h | h
            · simp at h; omega
            · rw [List.getElem?_eq_none h] at hJ'; simp at hJ'
          subst hj'
          simp at hJ'
          subst hJ'
          rcases hc with ⟨xv, hm, hc⟩ | ⟨xp, hm, _⟩
          · rcases hg1 xv hm c hc with h | h
            · exact Or.inr (Or.inl h)
            · exact Or.inr (Or.inr ⟨h.1, h.2, rfl⟩)
          · simp at hm
      · intro j J' hJ' c hc
        simp only at hJ'
        by_cases hj : j < w.insts.length
        · rw [List.getElem?_append_left hj] at hJ'
          exact Or.inl ⟨J', hJ', hc⟩
        · have hj' : j = w.insts.length := by
            rcases Nat.lt_or_ge j (w.insts ++ [({ cls := k, values := vals1, params := [] } : Inst)]).length with h | h
            · simp at h; omega
            · rw [List.getElem?_eq_none h] at hJ'; simp at hJ'
          subst hj'
          simp at hJ'
          subst hJ'
          obtain ⟨xp, hm, _⟩ := hc
          simp at hm
      · intro j hj
        rw [List.getElem?_append_left hj]


/-- a keyword value that `_ensure_value_is_in_objects` will not have to add: for a Selector without
`check_on_set` it is already among the objects the class Parameter lists -/
def kwargSafe (w : World) (k : ClsId) (kw : Name × Lit) : Prop :=
  ∀ (k' : ClsId) (P : PObj) (n : Int) (c : CellId), w.resolve k kw.1 = some (k', P) → P.kind = .selector →
    P.checkOnSet = false → kw.2 = .int n → aget P.mslots .objects = some c → n ∈ deref w.cells c

theorem validate_safe {cells cells' : List (List Int)} {p : PObj} {v : Val}
    (h : validate cells p v = .ok cells')
    (hs : p.kind = .selector → p.checkOnSet = false → ∀ (n : Int) (c : CellId), v = .int n →
      aget p.mslots .objects = some c → n ∈ deref cells c) : cells' = cells := by
  unfold validate at h
  cases hk : p.kind <;> simp only [hk] at h
  · simp at h; exact h.symm
  · cases v with
    | none => simp at h
    | ref c => simp at h
    | tup cs => simp at h
    | int n =>
      simp only at h
      cases hb : boundsOf cells p with
      | error e => simp [hb] at h
      | ok ob =>
        cases ob with
        | none => simp [hb] at h; exact h.symm
        | some lh =>
          obtain ⟨lo, hi⟩ := lh
          simp only [hb] at h
          split at h
          · simp at h
          · simp at h; exact h.symm
  · cases v with
    | none => simp at h
    | ref c => simp at h
    | tup cs => simp at h
    | int n =>
      cases ho : aget p.mslots Slot.objects with
      | none => simp [ho] at h
      | some c =>
        simp only [ho] at h
        split at h
        · simp at h; exact h.symm
        · rename_i hn
          split at h
          · simp at h
          · rename_i hcos
            exact absurd (hs hk (by simpa using hcos) n c rfl ho) hn

/-- with safe keyword values the keyword loop of the constructor changes no container that existed before -/
theorem setupKwargs_frame (w : World) (k : ClsId) (hb : ∀ c : Nat, heldByClass w c → c < w.cells.length) :
    ∀ (kw : List (Name × Lit)) (cells : List (List Int)) (vals vals' : List (Name × Val))
      (cells' : List (List Int)) (err : Option Err),
    setupKwargs w k kw cells vals = ((vals', cells'), err) → w.cells.length ≤ cells.length →
    (∀ c : Nat, c < w.cells.length → deref cells c = deref w.cells c) → (∀ e ∈ kw, kwargSafe w k e) →
    (∀ c : Nat, c < w.cells.length → deref cells' c = deref w.cells c)
  | [], cells, vals, vals', cells', err, h, _, hd, _ => by
    simp [setupKwargs] at h; obtain ⟨⟨_, rfl⟩, _⟩ := h; exact hd
  | (x, lit) :: rest, cells, vals, vals', cells', err, h, hl, hd, hs => by
    simp only [setupKwargs] at h
    generalize hev : evalLit cells lit = r at h
    obtain ⟨v, cells1⟩ := r
    obtain ⟨⟨e1, rfl⟩, hv⟩ := evalLit_spec hev
    have hd1 : ∀ c : Nat, c < w.cells.length → deref (cells ++ e1) c = deref w.cells c := by
      intro c hc; rw [deref_append_lt (by omega)]; exact hd c hc
    simp only at h
    split at h
    · simp at h; obtain ⟨⟨_, rfl⟩, _⟩ := h; exact hd1
    · rename_i k' p hr
      split at h
      · split at h
        · exact setupKwargs_frame w k hb rest _ _ vals' cells' err h (by simp; omega) hd1
            (fun e he => hs e (by simp [he]))
        · simp at h; obtain ⟨⟨_, rfl⟩, _⟩ := h; exact hd1
      · split at h
        · simp at h; obtain ⟨⟨_, rfl⟩, _⟩ := h; exact hd1
        · rename_i cells2 hval
          have : cells2 = cells ++ e1 := by
            refine validate_safe hval ?_
            intro hk hcos n c hvn ho
            have hsafe := hs (x, lit) (by simp) k' p n c hr hk hcos
            have hlit : lit = .int n := by
              cases lit with
              | pending => simp [evalLit] at hev; rw [← hev.1] at hvn; simp at hvn
              | none => simp [evalLit] at hev; rw [← hev.1] at hvn; simp at hvn
              | int m => simp [evalLit] at hev; rw [← hev.1] at hvn; simp at hvn; rw [hvn]
              | list l => simp [evalLit] at hev; rw [← hev.1] at hvn; simp at hvn
              | tup ls => simp [evalLit] at hev; rw [← hev.1] at hvn; simp at hvn
            have hc : c < w.cells.length :=
              hb c (resolve_held hr c (by simp [PObj.cells]; exact Or.inr ⟨_, aget_mem ho⟩))
            rw [hd1 c hc]
            exact hsafe hlit ho
          subst this
          split at h
          · simp at h; obtain ⟨⟨_, rfl⟩, _⟩ := h; exact hd1
          exact setupKwargs_frame w k hb rest _ _ vals' cells' err h (by simp; omega) hd1
            (fun e he => hs e (by simp [he]))

/-- the copies `deepcopy` makes of the items of a tuple hold what the items hold -/
theorem deref_copies (cells : List (List Int)) (ds : List CellId) :
    ((List.range ds.length).map (cells.length + ·)).map (deref (cells ++ ds.map (deref cells))) =
      ds.map (deref cells) := by
  apply List.ext_getElem
  · simp
  · intro j h1 h2
    simp at h1
    simp [deref, h1]

/-- `_setup_params` before the keyword loop, for a parameter whose class Parameter is `P` (`ov0`: what
the table held before, i.e. nothing): `instantiate` → an equal but new container (or the same int);
else `constant` → the very object that is the class default; else nothing is stored -/
def InitOK (w : World) (cells' : List (List Int)) (P : PObj) (ov0 ov : Option Val) : Prop :=
  if P.instantiate then
    match P.default with
    | .none => ov = some .none
    | .int n => ov = some (.int n)
    | .ref d => ∃ c' : Nat, ov = some (.ref c') ∧ w.cells.length ≤ c' ∧ c' < cells'.length ∧
        deref cells' c' = deref w.cells d
    | .tup ds => ∃ cs' : List Nat, ov = some (.tup cs') ∧ (∀ c' ∈ cs', w.cells.length ≤ c' ∧ c' < cells'.length) ∧
        cs'.map (deref cells') = ds.map (deref w.cells)
  else if P.constant then ov = some P.default
  else ov = ov0

theorem InitOK.mono {w : World} {cells' extra : List (List Int)} {P : PObj} {ov0 ov : Option Val}
    (h : InitOK w cells' P ov0 ov) : InitOK w (cells' ++ extra) P ov0 ov := by
  unfold InitOK at h ⊢
  split
  · rename_i hi; simp only [hi, if_true] at h
    split
    · rename_i hd; simp only [hd] at h; exact h
    · rename_i n hd; simp only [hd] at h; exact h
    · rename_i d hd; simp only [hd] at h
      obtain ⟨c', h1, h2, h3, h4⟩ := h
      exact ⟨c', h1, h2, by simp; omega, by rw [deref_append_lt h3]; exact h4⟩
    · rename_i ds hd; simp only [hd] at h
      obtain ⟨cs', h1, h2, h3⟩ := h
      refine ⟨cs', h1, fun c' hc' => ⟨(h2 c' hc').1, by have := (h2 c' hc').2; simp; omega⟩, ?_⟩
      rw [← h3]
      exact List.map_congr_left (fun c' hc' => deref_append_lt (h2 c' hc').2)
  · rename_i hi; simp only [hi] at h; exact h

/-- the `ov0` argument only matters in the "nothing stored" case -/
theorem InitOK.change_ov0 {w : World} {cells' : List (List Int)} {P : PObj} {ov0 ov0' ov : Option Val}
    (h : InitOK w cells' P ov0 ov) (he : P.instantiate = false → P.constant = false → ov0 = ov0') :
    InitOK w cells' P ov0' ov := by
  unfold InitOK at h ⊢
  split
  · rename_i hi; simp only [hi, if_true] at h; exact h
  · rename_i hi; simp only [hi] at h
    split
    · rename_i hc; simp only [hc, if_true] at h; exact h
    · rename_i hc; simp only [hc] at h
      rw [← he (by simpa using hi) (by simpa using hc)]; exact h

/-- one iteration of the first loops of `_setup_params` -/
theorem setupValues_step (w : World) (k : ClsId) (x0 : Name) (xs : List Name) (e : List (List Int))
    (vals vals' : List (Name × Val)) (cells' : List (List Int))
    (h : setupValues w k (x0 :: xs) (w.cells ++ e) vals = (vals', cells')) :
    ∃ vals1 e1, setupValues w k xs (w.cells ++ e1) vals1 = (vals', cells') ∧
      (∀ y, y ≠ x0 → aget vals1 y = aget vals y) ∧
      (∀ (k' : ClsId) (P : PObj), w.resolve k x0 = some (k', P) →
        (∀ d : Nat, d ∈ P.default.cells → d < w.cells.length) →
        InitOK w (w.cells ++ e1) P (aget vals x0) (aget vals1 x0) ∧
        (P.instantiate = false → P.constant = false → vals1 = vals)) := by
  simp only [setupValues] at h
  split at h
  · rename_i hr
    exact ⟨vals, e, h, fun _ _ => rfl, fun k' P hr' => by rw [hr] at hr'; simp at hr'⟩
  · rename_i k0 p hr
    split at h
    · rename_i hi
      generalize hd : deepcopyVal (w.cells ++ e) p.default = r at h
      obtain ⟨v, cells1⟩ := r
      simp only at h
      cases hdef : p.default with
      | none =>
        simp [deepcopyVal, hdef] at hd; obtain ⟨rfl, rfl⟩ := hd
        refine ⟨_, e, h, fun y hy => aget_aset_ne _ _ (fun e => hy e.symm), ?_⟩
        intro k' P hr' _
        rw [hr] at hr'; simp at hr'; obtain ⟨_, rfl⟩ := hr'
        exact ⟨by simp [InitOK, hi, hdef, aget_aset_self], by simp [hi]⟩
      | int n =>
        simp [deepcopyVal, hdef] at hd; obtain ⟨rfl, rfl⟩ := hd
        refine ⟨_, e, h, fun y hy => aget_aset_ne _ _ (fun e => hy e.symm), ?_⟩
        intro k' P hr' _
        rw [hr] at hr'; simp at hr'; obtain ⟨_, rfl⟩ := hr'
        exact ⟨by simp [InitOK, hi, hdef, aget_aset_self], by simp [hi]⟩
      | ref d =>
        simp [deepcopyVal, hdef] at hd; obtain ⟨rfl, rfl⟩ := hd
        refine ⟨_, e ++ [deref (w.cells ++ e) d], by simpa using h,
          fun y hy => aget_aset_ne _ _ (fun e => hy e.symm), ?_⟩
        intro k' P hr' hdb
        rw [hr] at hr'; simp at hr'; obtain ⟨_, rfl⟩ := hr'
        have hdl := hdb d (by simp [hdef, Val.cells])
        refine ⟨?_, by simp [hi]⟩
        simp only [InitOK, hi, hdef, aget_aset_self, if_true]
        refine ⟨(w.cells ++ e).length, by simp, by simp, by simp, ?_⟩
        rw [deref_append_lt hdl]
        simp [deref]
      | tup ds =>
        simp [deepcopyVal, hdef] at hd; obtain ⟨rfl, rfl⟩ := hd
        refine ⟨_, e ++ ds.map (deref (w.cells ++ e)), by simpa using h,
          fun y hy => aget_aset_ne _ _ (fun e => hy e.symm), ?_⟩
        intro k' P hr' hdb
        rw [hr] at hr'; simp at hr'; obtain ⟨_, rfl⟩ := hr'
        refine ⟨?_, by simp [hi]⟩
        simp only [InitOK, hi, hdef, aget_aset_self, if_true]
        refine ⟨_, rfl, ?_, ?_⟩
        · intro c' hc'
          simp only [List.mem_map, List.mem_range] at hc'
          obtain ⟨j, hj, rfl⟩ := hc'
          simp; omega
        · have h1 := deref_copies (w.cells ++ e) ds
          simp only [List.length_append] at h1
          rw [← List.append_assoc, h1]
          exact List.map_congr_left (fun d hd => deref_append_lt (hdb d (by simp [hdef, Val.cells, hd])))
    · rename_i hi
      split at h
      · rename_i hc
        refine ⟨_, e, h, fun y hy => aget_aset_ne _ _ (fun e => hy e.symm), ?_⟩
        intro k' P hr' _
        rw [hr] at hr'; simp at hr'; obtain ⟨_, rfl⟩ := hr'
        exact ⟨by simp [InitOK, hi, hc, aget_aset_self], by simp [hc]⟩
      · rename_i hc
        refine ⟨vals, e, h, fun _ _ => rfl, ?_⟩
        intro k' P hr' _
        rw [hr] at hr'; simp at hr'; obtain ⟨_, rfl⟩ := hr'
        exact ⟨by simp [InitOK, hi, hc], fun _ _ => rfl⟩

theorem setupValues_cells (w : World) (k : ClsId) :
    ∀ (xs : List Name) (cells : List (List Int)) (vals vals' : List (Name × Val)) (cells' : List (List Int)),
    setupValues w k xs cells vals = (vals', cells') → ∃ extra, cells' = cells ++ extra
  | [], cells, vals, vals', cells', h => by
    simp [setupValues] at h; obtain ⟨_, rfl⟩ := h; exact ⟨[], by simp⟩
  | x :: xs, cells, vals, vals', cells', h => by
    simp only [setupValues] at h
    split at h
    · exact setupValues_cells w k xs _ _ _ _ h
    · split at h
      · generalize hd : deepcopyVal cells _ = r at h
        obtain ⟨v, cells1⟩ := r
        obtain ⟨⟨e1, rfl⟩, _⟩ := deepcopyVal_spec hd
        obtain ⟨e2, rfl⟩ := setupValues_cells w k xs _ _ _ _ h
        exact ⟨e1 ++ e2, by simp⟩
      · split at h <;> exact setupValues_cells w k xs _ _ _ _ h

theorem setupValues_get (w : World) (k : ClsId) :
    ∀ (xs : List Name) (e : List (List Int)) (vals vals' : List (Name × Val)) (cells' : List (List Int)),
    setupValues w k xs (w.cells ++ e) vals = (vals', cells') →
    ∀ x : Name, (x ∉ xs → aget vals' x = aget vals x) ∧
      (x ∈ xs → ∀ (k' : ClsId) (P : PObj), w.resolve k x = some (k', P) →
        (∀ d : Nat, d ∈ P.default.cells → d < w.cells.length) → InitOK w cells' P (aget vals x) (aget vals' x))
  | [], e, vals, vals', cells', h, x => by
    simp [setupValues] at h; obtain ⟨rfl, rfl⟩ := h; simp
  | x0 :: xs, e, vals, vals', cells', h, x => by
    obtain ⟨vals1, e1, h1, hne, hst⟩ := setupValues_step w k x0 xs e vals vals' cells' h
    obtain ⟨iha, ihb⟩ := setupValues_get w k xs e1 vals1 vals' cells' h1 x
    obtain ⟨extra, hex⟩ := setupValues_cells w k xs _ vals1 vals' cells' h1
    constructor
    · intro hx
      simp only [List.mem_cons, not_or] at hx
      rw [iha hx.2, hne x hx.1]
    · intro hx k' P hr hdb
      by_cases hxs : x ∈ xs
      · have := ihb hxs k' P hr hdb
        refine this.change_ov0 ?_
        intro hi hc
        by_cases hxx : x = x0
        · subst hxx
          rw [(hst k' P hr hdb).2 hi hc]
        · exact hne x hxx
      · have hxx : x = x0 := by
          simp only [List.mem_cons] at hx
          rcases hx with h | h
          · exact h
          · exact absurd h hxs
        subst hxx
        rw [iha hxs, hex]
        exact (hst k' P hr hdb).1.mono

theorem setupKwargs_get (w : World) (k : ClsId) (hb : ∀ c : Nat, heldByClass w c → c < w.cells.length) :
    ∀ (kw : List (Name × Lit)) (cells : List (List Int)) (vals vals' : List (Name × Val))
      (cells' : List (List Int)) (err : Option Err),
    setupKwargs w k kw cells vals = ((vals', cells'), err) →
    (err = none → ∀ x : Name, x ∉ assignedNames kw → aget vals' x = aget vals x) ∧
    (∀ c : Nat, w.cells.length ≤ c → c < cells.length → deref cells' c = deref cells c) ∧
    cells.length ≤ cells'.length
  | [], cells, vals, vals', cells', err, h => by
    simp [setupKwargs] at h; obtain ⟨⟨rfl, rfl⟩, _⟩ := h; simp
  | (x0, lit) :: rest, cells, vals, vals', cells', err, h => by
    simp only [setupKwargs] at h
    generalize hev : evalLit cells lit = r at h
    obtain ⟨v, cells1⟩ := r
    obtain ⟨⟨e1, rfl⟩, hv⟩ := evalLit_spec hev
    simp only at h
    split at h
    · simp at h; obtain ⟨⟨rfl, rfl⟩, rfl⟩ := h
      exact ⟨by simp, fun c _ hc => deref_append_lt hc, by simp⟩
    · rename_i k' p hr
      split at h
      · rename_i hpend
        split at h
        · obtain ⟨ih1, ih2, ih3⟩ := setupKwargs_get w k hb rest (cells ++ e1) vals vals' cells' err h
          refine ⟨?_, ?_, by simp at ih3; omega⟩
          · intro he x hx
            exact ih1 he x (by simpa [assignedNames, hpend] using hx)
          · intro c hc1 hc2
            rw [ih2 c hc1 (by simp; omega)]
            exact deref_append_lt hc2
        · simp at h; obtain ⟨⟨rfl, rfl⟩, rfl⟩ := h
          exact ⟨by simp, fun c _ hc => deref_append_lt hc, by simp⟩
      · rename_i hpend
        split at h
        · simp at h; obtain ⟨⟨rfl, rfl⟩, rfl⟩ := h
          exact ⟨by simp, fun c _ hc => deref_append_lt hc, by simp⟩
        · rename_i cells2 hval
          obtain ⟨hl, ht⟩ := validate_spec hval
          split at h
          · simp at h; obtain ⟨⟨rfl, rfl⟩, rfl⟩ := h
            refine ⟨by simp, ?_, by rw [hl]; simp⟩
            intro c hc1 hc2
            by_cases hne : deref cells2 c = deref (cells ++ e1) c
            · rw [hne]; exact deref_append_lt hc2
            · have hs := ht c hne
              have : c < w.cells.length := hb c (resolve_held hr c (by simp [PObj.cells]; exact Or.inr (by simpa [PObj.slotCells] using hs)))
              omega
          obtain ⟨ih1, ih2, ih3⟩ := setupKwargs_get w k hb rest cells2 _ vals' cells' err h
          refine ⟨?_, ?_, by rw [hl] at ih3; simp at ih3; omega⟩
          · intro he x hx
            have hx' : x ≠ x0 ∧ x ∉ assignedNames rest := by
              simpa [assignedNames, hpend, not_or] using hx
            rw [ih1 he x hx'.2, aget_aset_ne _ _ (fun e => hx'.1 e.symm)]
          · intro c hc1 hc2
            rw [ih2 c hc1 (by rw [hl]; simp; omega)]
            by_cases hne : deref cells2 c = deref (cells ++ e1) c
            · rw [hne]; exact deref_append_lt hc2
            · have hs := ht c hne
              have : c < w.cells.length := hb c (resolve_held hr c (by simp [PObj.cells]; exact Or.inr (by simpa [PObj.slotCells] using hs)))
              omega

/-- what a successful `K(**kwargs)` leaves in the new instance for a parameter not given as keyword -/
theorem doMkInst_values {w : World} {k : ClsId} {kwargs : List (Name × Lit)}
    (hb : ∀ c : Nat, heldByClass w c → c < w.cells.length)
    (hok : (doMkInst w k kwargs).2 = none) :
    ∃ I, (doMkInst w k kwargs).1.insts = w.insts ++ [I] ∧ I.cls = k ∧ I.params = [] ∧
      ∀ x : Name, x ∈ w.visible k → x ∉ assignedNames kwargs → ∀ (k' : ClsId) (P : PObj),
        w.resolve k x = some (k', P) → InitOK w (doMkInst w k kwargs).1.cells P none (aget I.values x) := by
  unfold doMkInst at hok ⊢
  split at hok
  · simp at hok
  · rename_i K hK
    generalize hsv : setupValues w k (w.visible k) w.cells [] = r at hok ⊢
    obtain ⟨vals0, cells0⟩ := r
    simp only at hok ⊢
    generalize hsk : setupKwargs w k kwargs cells0 vals0 = r at hok ⊢
    obtain ⟨⟨vals1, cells1⟩, err⟩ := r
    cases err with
    | some e => simp at hok
    | none =>
      simp only
      refine ⟨_, rfl, rfl, rfl, ?_⟩
      intro x hx hkw k' P hr
      have hsv' : setupValues w k (w.visible k) (w.cells ++ []) [] = (vals0, cells0) := by simpa using hsv
      obtain ⟨_, hget⟩ := setupValues_get w k _ [] [] vals0 cells0 hsv' x
      obtain ⟨e0, he0⟩ := setupValues_cells w k _ _ _ _ _ hsv
      have hinit := hget hx k' P hr (fun d hd => hb d (resolve_held hr d (by simp [PObj.cells, hd])))
      obtain ⟨hk1, hk2, hl⟩ := setupKwargs_get w k hb kwargs cells0 vals0 vals1 cells1 none hsk
      simp only
      rw [hk1 rfl x hkw]
      · -- transport InitOK from cells0 to cells1: the new containers are untouched by the keyword loop
        simp only [aget] at hinit
        unfold InitOK at hinit ⊢
        split
        · rename_i hi; simp only [hi, if_true] at hinit
          split
          · rename_i hd; simp only [hd] at hinit; exact hinit
          · rename_i n hd; simp only [hd] at hinit; exact hinit
          · rename_i d hd; simp only [hd] at hinit
            obtain ⟨c', h1, h2, h3, h4⟩ := hinit
            exact ⟨c', h1, h2, by omega, by rw [hk2 c' h2 h3]; exact h4⟩
          · rename_i ds hd; simp only [hd] at hinit
            obtain ⟨cs', h1, h2, h3⟩ := hinit
            refine ⟨cs', h1, fun c' hc' => ⟨(h2 c' hc').1, by have := (h2 c' hc').2; omega⟩, ?_⟩
            rw [← h3]
            exact List.map_congr_left (fun c' hc' => hk2 c' (h2 c' hc').1 (h2 c' hc').2)
        · rename_i hi; simp only [hi] at hinit; exact hinit


/-- with safe keyword values, constructing an instance changes the contents of no existing container -/
theorem doMkInst_frame {w : World} {k : ClsId} {kwargs : List (Name × Lit)}
    (hb : ∀ c : Nat, heldByClass w c → c < w.cells.length) (hs : ∀ e ∈ kwargs, kwargSafe w k e) :
    ∀ c : Nat, c < w.cells.length → deref (doMkInst w k kwargs).1.cells c = deref w.cells c := by
  unfold doMkInst
  split
  · intro c _; rfl
  · generalize hsv : setupValues w k (w.visible k) w.cells [] = r
    obtain ⟨vals0, cells0⟩ := r
    obtain ⟨e0, rfl⟩ := setupValues_cells w k _ _ _ _ _ hsv
    simp only
    generalize hsk : setupKwargs w k kwargs (w.cells ++ e0) vals0 = r
    obtain ⟨⟨vals1, cells1⟩, err⟩ := r
    have := setupKwargs_frame w k hb kwargs _ _ _ _ _ hsk (by simp)
      (fun c hc => deref_append_lt hc) hs
    cases err <;> exact this

/-- `target.x.append(v)` changes the contents of one container — the one `target.x` evaluates to —
and nothing else -/
theorem doMutVal_frame (w : World) (t : Target) (x : Name) (n : Int) :
    (doMutVal w t x n).1.classes = w.classes ∧ (doMutVal w t x n).1.insts = w.insts ∧
    (doMutVal w t x n).1.cells.length = w.cells.length ∧
    ∀ c : Nat, w.read t x ≠ some (.ref c) → deref (doMutVal w t x n).1.cells c = deref w.cells c := by
  unfold doMutVal
  split
  · exact ⟨rfl, rfl, rfl, fun _ _ => rfl⟩
  · exact ⟨rfl, rfl, rfl, fun _ _ => rfl⟩
  · exact ⟨rfl, rfl, rfl, fun _ _ => rfl⟩
  · exact ⟨rfl, rfl, rfl, fun _ _ => rfl⟩
  · rename_i c0 hr
    refine ⟨rfl, rfl, by simp, ?_⟩
    intro c hc
    exact deref_set_ne (fun e => hc (by rw [hr, e]))

/-- `target.x[i].append(v)` changes the contents of one container — item `i` of the tuple `target.x` evaluates to —
and nothing else -/
theorem doMutItem_frame (w : World) (t : Target) (x : Name) (i : Nat) (n : Int) :
    (doMutItem w t x i n).1.classes = w.classes ∧ (doMutItem w t x i n).1.insts = w.insts ∧
    (doMutItem w t x i n).1.cells.length = w.cells.length ∧
    ∀ c : Nat, (∀ cs, w.read t x = some (.tup cs) → cs[i]? ≠ some c) →
      deref (doMutItem w t x i n).1.cells c = deref w.cells c := by
  unfold doMutItem
  split
  · rename_i cs hr
    split
    · rename_i c0 hc0
      refine ⟨rfl, rfl, by simp, ?_⟩
      intro c hc
      exact deref_set_ne (fun e => hc cs hr (by rw [hc0, e]))
    · exact ⟨rfl, rfl, rfl, fun _ _ => rfl⟩
  · exact ⟨rfl, rfl, rfl, fun _ _ => rfl⟩

/-- every operation is a step on behalf of the classes or of one instance -/
theorem step_effect (w : World) (op : Op) : ∃ h, Effect w (step w op).1 h := by
  cases op with
  | mkClass mro decls => exact ⟨none, (doMkClass_effect w mro decls).toEffect⟩
  | mkInst k kw => exact ⟨_, (doMkInst_effect w k kw).1⟩
  | setVal t x v =>
    cases t with
    | inst i => exact ⟨_, doSetInst_effect w i x v⟩
    | cls k => exact ⟨none, (doSetCls_effect w k x v).toEffect⟩
  | mutVal t x n =>
    obtain ⟨cells', h1, h2⟩ := doMutVal_cells w t x n
    refine ⟨none, ?_⟩
    show Effect w (doMutVal w t x n).1 none
    rw [h1]; exact Effect.of_cells_ext _ (by rw [h2]; exact Nat.le_refl _)
  | mutItem t x i n =>
    obtain ⟨cells', h1, h2⟩ := doMutItem_cells w t x i n
    refine ⟨none, ?_⟩
    show Effect w (doMutItem w t x i n).1 none
    rw [h1]; exact Effect.of_cells_ext _ (by rw [h2]; exact Nat.le_refl _)
  | access i x => exact ⟨_, (doAccess_effect w i x).toEffect⟩
  | slotSet t x s =>
    cases t with
    | inst i =>
      rcases doSlotSet_inst w i x s with h | h
      · exact ⟨_, h.toEffect⟩
      · exact ⟨none, h.toEffect⟩
    | cls k => exact ⟨none, (doSlotSet_cls w k x s).toEffect⟩
  | slotMut t x m =>
    cases t with
    | inst i =>
      rcases doSlotMut_inst w i x m with h | h
      · exact ⟨_, h.toEffect⟩
      · exact ⟨none, h.toEffect⟩
    | cls k => exact ⟨none, (doSlotMut_cls w k x m).toEffect⟩
  | sharedFail => exact ⟨none, Effect.refl _ _⟩

/-- a container created by a step for instance `i` is referenced by nobody else afterwards -/
theorem Effect.fresh_private {w w' : World} {i : InstId} (e : Effect w w' (some i)) (inv : Inv w)
    {c : Nat} (hc : w.cells.length ≤ c) : ¬ heldOutside w' i c := by
  intro ho
  rcases ho with hcl | ⟨j, J', hj, hJ', hh⟩
  · rcases e.cls c hcl with h | ⟨_, _, h⟩
    · have := inv.boundedCls c h; omega
    · simp at h
  · rcases e.inst j J' hJ' c hh with ⟨J, hJ, h⟩ | h | ⟨_, _, h⟩
    · have := inv.boundedInst j J hJ c h; omega
    · have := inv.boundedCls c h; omega
    · simp at h; exact hj h.symm

theorem Inv.empty : Inv World.empty :=
  ⟨by rintro c ⟨K, hK, _⟩; simp [World.empty] at hK,
   by intro j J hJ; simp [World.empty] at hJ,
   by intro i I hI; simp [World.empty] at hI⟩


theorem setOwn_get {w : World} {k : ClsId} {x : Name} {p : PObj} {K0 : Cls} (h : w.classes[k]? = some K0) :
    (w.setOwn k x p).classes[k]? = some { K0 with own := aset K0.own x p } := by
  have hk : k < w.classes.length := by
    rcases Nat.lt_or_ge k w.classes.length with h1 | h1
    · exact h1
    · rw [List.getElem?_eq_none h1] at h; simp at h
  simp [World.setOwn, World.cls?, h, List.getElem?_set_self hk]

end ParamVerif.Objects
