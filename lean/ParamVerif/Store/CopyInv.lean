/-
C17 — the invariant of reachable worlds.

`Store/CopyLemmas.lean` proves what an operation does *relative to a set of objects* (`Good`).  The copy theorems
need two facts about the world that is copied — every reference points into the world (`Closed w (· < |objs|)
(· < |cells|)`, called `WF` in Props/C17.lean) and every watcher sits in the table of its own instance
(`OwnWatchers`).  This file proves that every history whose operations name existing objects (`scoped`) keeps both,
starting from a world without objects: `step_inv`, `run_inv`.

How: object references stay inside the world by `step_good` with the set of all objects; for list references and
watcher tables one relation between the world before and after an operation (`Rel`): an object's record gains only
references to lists created by the operation, and only watchers registered on itself.
-/
import ParamVerif.Store.CopyLemmas

namespace ParamVerif.Copy

/-- the record refers to list `c`: as a parameter value, an ordinary attribute, or a container of a Selector copy -/
def Obj.hasCell (ob : Obj) (c : Nat) : Prop :=
  (∃ kv ∈ ob.values, kv.2 = .cell c) ∨ (∃ kv ∈ ob.attrs, kv.2 = .cell c) ∨
  (∃ kv ∈ ob.pcopies, ∃ s : Nat × Nat, kv.2.slots = some s ∧ (c = s.1 ∨ c = s.2))

def Obj.hasWatcher (ob : Obj) (wt : Watcher) : Prop := ∃ kv ∈ ob.watchers, wt ∈ kv.2

/-- `w → w'` inside one operation that started with `B` lists: no object appears or disappears; a record refers to a
list it referred to before or to one created since the operation started; a watcher in the table of object `i` was
there before or is registered on `i` -/
structure Rel (B : Nat) (w w' : World) : Prop where
  lenC : w.cells.length ≤ w'.cells.length
  lenO : w'.objs.length = w.objs.length
  objs : ∀ (i : Nat) (ob' : Obj), w'.objs[i]? = some ob' → ∃ ob, w.objs[i]? = some ob ∧
    (∀ c, ob'.hasCell c → ob.hasCell c ∨ (B ≤ c ∧ c < w'.cells.length)) ∧
    (∀ wt, ob'.hasWatcher wt → wt.inst = i ∨ ob.hasWatcher wt)

theorem Rel.refl (B : Nat) (w : World) : Rel B w w :=
  ⟨Nat.le_refl _, rfl, fun _ ob h => ⟨ob, h, fun _ hc => Or.inl hc, fun _ hw => Or.inr hw⟩⟩

theorem Rel.trans {B : Nat} {w w1 w2 : World} (a : Rel B w w1) (b : Rel B w1 w2) : Rel B w w2 := by
  refine ⟨Nat.le_trans a.lenC b.lenC, by rw [b.lenO, a.lenO], ?_⟩
  intro i ob2 h2
  obtain ⟨ob1, h1, c1, w1'⟩ := b.objs i ob2 h2
  obtain ⟨ob, h0, c0, w0⟩ := a.objs i ob1 h1
  refine ⟨ob, h0, ?_, ?_⟩
  · intro c hc
    rcases c1 c hc with h | h
    · rcases c0 c h with h | h
      · exact Or.inl h
      · exact Or.inr ⟨h.1, Nat.lt_of_lt_of_le h.2 b.lenC⟩
    · exact Or.inr h
  · intro wt hw
    rcases w1' wt hw with h | h
    · exact Or.inl h
    · exact w0 wt h

theorem Rel.of_objs {B : Nat} {w w' : World} (ho : w'.objs = w.objs) (hl : w.cells.length ≤ w'.cells.length) :
    Rel B w w' :=
  ⟨hl, by rw [ho], fun _ ob h => ⟨ob, by rw [← ho]; exact h, fun _ hc => Or.inl hc, fun _ hw => Or.inr hw⟩⟩

theorem rel_setObj {B : Nat} {w : World} {o : Nat} {f : Obj → Obj}
    (hc : ∀ ob, w.objs[o]? = some ob → ∀ c, (f ob).hasCell c → ob.hasCell c ∨ (B ≤ c ∧ c < w.cells.length))
    (hw : ∀ ob, w.objs[o]? = some ob → ∀ wt, (f ob).hasWatcher wt → wt.inst = o ∨ ob.hasWatcher wt) :
    Rel B w (w.setObj o f) := by
  unfold World.setObj
  split
  · rename_i ob hob
    refine ⟨Nat.le_refl _, by simp, ?_⟩
    intro i ob' h'
    rcases getElem?_set_cases h' with ⟨rfl, rfl⟩ | ⟨_, h⟩
    · exact ⟨ob, hob, hc ob hob, hw ob hob⟩
    · exact ⟨ob', h, fun _ hc => Or.inl hc, fun _ hw => Or.inr hw⟩
  · exact Rel.refl _ _

/-! ### what an update of one field does to `hasCell` / `hasWatcher` -/

theorem hasCell_pcopies_insert {ob : Obj} {p : String} {pc : PCopy} {c : Nat}
    (h : ({ ob with pcopies := insert ob.pcopies p pc } : Obj).hasCell c) :
    ob.hasCell c ∨ ∃ s : Nat × Nat, pc.slots = some s ∧ (c = s.1 ∨ c = s.2) := by
  rcases h with h | h | ⟨kv, hkv, s, hs, hcs⟩
  · exact Or.inl (Or.inl h)
  · exact Or.inl (Or.inr (Or.inl h))
  · rcases mem_insert hkv with rfl | hm
    · exact Or.inr ⟨s, hs, hcs⟩
    · exact Or.inl (Or.inr (Or.inr ⟨kv, hm, s, hs, hcs⟩))

theorem hasCell_values_insert {ob : Obj} {p : String} {v : Val} {c : Nat}
    (h : ({ ob with values := insert ob.values p v } : Obj).hasCell c) : ob.hasCell c ∨ v = .cell c := by
  rcases h with ⟨kv, hkv, hv⟩ | h | h
  · rcases mem_insert hkv with rfl | hm
    · exact Or.inr hv
    · exact Or.inl (Or.inl ⟨kv, hm, hv⟩)
  · exact Or.inl (Or.inr (Or.inl h))
  · exact Or.inl (Or.inr (Or.inr h))

theorem hasCell_attrs_insert {ob : Obj} {p : String} {v : Val} {c : Nat}
    (h : ({ ob with attrs := insert ob.attrs p v } : Obj).hasCell c) : ob.hasCell c ∨ v = .cell c := by
  rcases h with h | ⟨kv, hkv, hv⟩ | h
  · exact Or.inl (Or.inl h)
  · rcases mem_insert hkv with rfl | hm
    · exact Or.inr hv
    · exact Or.inl (Or.inr (Or.inl ⟨kv, hm, hv⟩))
  · exact Or.inl (Or.inr (Or.inr h))

theorem hasWatcher_insert {ob : Obj} {n : String} {l : List Watcher} {wt : Watcher}
    (h : ({ ob with watchers := insert ob.watchers n l } : Obj).hasWatcher wt) : ob.hasWatcher wt ∨ wt ∈ l := by
  obtain ⟨kv, hkv, hw⟩ := h
  rcases mem_insert hkv with rfl | hm
  · exact Or.inr hw
  · exact Or.inl ⟨kv, hm, hw⟩

/-- an update that leaves values, attributes, Parameter copies' containers and the watcher table alone -/
theorem rel_setObj_keep {B : Nat} {w : World} {o : Nat} {f : Obj → Obj}
    (hc : ∀ ob c, (f ob).hasCell c → ob.hasCell c) (hw : ∀ ob wt, (f ob).hasWatcher wt → ob.hasWatcher wt) :
    Rel B w (w.setObj o f) :=
  rel_setObj (fun ob _ c h => Or.inl (hc ob c h)) (fun ob _ wt h => Or.inr (hw ob wt h))

/-! ### the primitives -/

theorem rel_touchParam {B : Nat} {w : World} (o : Nat) (p : String) (hB : B ≤ w.cells.length) :
    Rel B w (w.touchParam o p) := by
  unfold World.touchParam
  split
  · exact Rel.refl _ _
  · split
    · exact Rel.refl _ _
    · split
      · exact Rel.refl _ _
      · rename_i d _
        split
        · refine rel_setObj ?_ (fun ob _ wt hw => Or.inr hw)
          intro ob _ c hc
          rcases hasCell_pcopies_insert hc with h | ⟨s, hs, _⟩
          · exact Or.inl h
          · simp at hs
        · rename_i co cn _
          refine Rel.trans (Rel.of_objs (w' := { w with cells := w.cells ++ [deref w.cells co, deref w.cells cn] }) rfl
            (by simp)) ?_
          refine rel_setObj ?_ (fun ob _ wt hw => Or.inr hw)
          intro ob _ c hc
          rcases hasCell_pcopies_insert hc with h | ⟨s, hs, hcs⟩
          · exact Or.inl h
          · simp at hs; subst hs
            right; simp at hcs ⊢; omega

theorem rel_addWatcher {B : Nat} (wt : Watcher) : ∀ (w : World), Rel B w (w.addWatcher wt) := by
  unfold World.addWatcher
  generalize wt.names = names
  induction names with
  | nil => intro w; exact Rel.refl _ _
  | cons n ns ih =>
    intro w
    simp only [List.foldl_cons]
    refine Rel.trans ?_ (ih _)
    refine rel_setObj (fun ob _ c h => Or.inl h) ?_
    intro ob _ x hx
    rcases hasWatcher_insert hx with h | h
    · exact Or.inr h
    · simp only [List.mem_append, List.mem_singleton] at h
      rcases h with h | rfl
      · cases hl : lookup ob.watchers n with
        | none => simp [hl] at h
        | some l => simp [hl] at h; exact Or.inr ⟨_, lookup_mem hl, h⟩
      · exact Or.inl rfl

theorem rel_unwatch {B : Nat} (wt : Watcher) : ∀ (w : World), Rel B w (w.unwatch wt) := by
  unfold World.unwatch
  generalize wt.names = names
  induction names with
  | nil => intro w; simp only [World.unwatch.go]; exact Rel.refl _ _
  | cons n ns ih =>
    intro w
    simp only [World.unwatch.go]
    split
    · exact Rel.refl _ _
    · rename_i l hl
      split
      · exact Rel.refl _ _
      · rename_i l' hl'
        refine Rel.trans ?_ (ih _)
        refine rel_setObj (fun ob _ c h => Or.inl h) ?_
        intro ob hob x hx
        rcases hasWatcher_insert hx with h | h
        · exact Or.inr h
        · simp only [hob, Option.bind_some] at hl
          exact Or.inr ⟨_, lookup_mem hl, removeFirst_subset hl' x h⟩

theorem rel_touchAll {B : Nat} : ∀ (l : List (Nat × String)) (w : World), B ≤ w.cells.length →
    Rel B w (w.touchAll l)
  | [], w, _ => by simp only [World.touchAll]; exact Rel.refl _ _
  | (o, p) :: rest, w, hB => by
    simp only [World.touchAll]
    have r1 := rel_touchParam (B := B) o p hB
    exact r1.trans (rel_touchAll rest _ (Nat.le_trans hB r1.lenC))

theorem rel_installGroups {B : Nat} {o : Nat} {m : String} {attr : Option String} {cs : List Contribution} :
    ∀ (gs : List Nat) (w w' : World) (ws : List Watcher),
    World.installGroups w o m attr cs gs = (w', ws) → Rel B w w'
  | [], w, w', ws, h => by
    simp [World.installGroups] at h; obtain ⟨rfl, _⟩ := h; exact Rel.refl _ _
  | g :: gs, w, w', ws, h => by
    simp only [World.installGroups, mkCaller] at h
    generalize hr : World.installGroups _ o m attr cs gs = r at h
    obtain ⟨w2, rest⟩ := r
    simp at h; obtain ⟨rfl, _⟩ := h
    have r1 : Rel B w { w with nextPid := w.nextPid + 1 } := Rel.of_objs rfl (Nat.le_refl _)
    exact (r1.trans (rel_addWatcher _ _)).trans (rel_installGroups gs _ _ _ hr)

theorem rel_installDyn {B : Nat} {w w' : World} {o : Nat} {attr : Option String} {md : MethodDef}
    {dynw : List Watcher} (hB : B ≤ w.cells.length) (h : w.installDyn o attr md = (w', dynw)) : Rel B w w' := by
  unfold World.installDyn at h
  exact (rel_touchAll _ w hB).trans (rel_installGroups _ _ _ _ h)

theorem rel_installConst {B : Nat} {w : World} (o : Nat) (md : MethodDef) (hB : B ≤ w.cells.length) :
    Rel B w (w.installConst o md) := by
  unfold World.installConst
  generalize dedupS (ownDeps md.deps) = ps
  simp only [mkCaller]
  split
  · exact Rel.refl _ _
  · have r1 := rel_touchAll (B := B) (ps.map fun p => (o, p)) w hB
    have r2 : Rel B (w.touchAll (ps.map fun p => (o, p)))
        { (w.touchAll (ps.map fun p => (o, p))) with nextPid := (w.touchAll (ps.map fun p => (o, p))).nextPid + 1 } :=
      Rel.of_objs rfl (Nat.le_refl _)
    exact (r1.trans r2).trans (rel_addWatcher _ _)

theorem rel_setDyn {B : Nat} (w : World) (o : Nat) (g : List (String × List Watcher) → List (String × List Watcher)) :
    Rel B w (w.setObj o fun ob => { ob with dyn := g ob.dyn }) :=
  rel_setObj_keep (fun _ _ h => h) (fun _ _ h => h)

theorem rel_initDeps {B : Nat} {o : Nat} : ∀ (mds : List MethodDef) (w : World), B ≤ w.cells.length →
    Rel B w (w.initDeps o mds)
  | [], w, _ => by simp only [World.initDeps]; exact Rel.refl _ _
  | md :: rest, w, hB => by
    simp only [World.initDeps]
    have r0 := rel_installConst (B := B) o md hB
    generalize hi : (w.installConst o md).installDyn o Option.none md = r
    obtain ⟨w1, dynw⟩ := r
    have r1 := rel_installDyn (B := B) (Nat.le_trans hB r0.lenC) hi
    simp only
    have r01 := r0.trans r1
    split
    · exact r01.trans (rel_initDeps rest _ (Nat.le_trans hB r01.lenC))
    · have r2 := rel_setDyn (B := B) w1 o (fun d => insert d md.name dynw)
      exact (r01.trans r2).trans (rel_initDeps rest _ (Nat.le_trans hB (r01.trans r2).lenC))

theorem rel_unwatchAll {B : Nat} : ∀ (old : List Watcher) (w : World),
    Rel B w (old.foldl (fun w wt => w.unwatch wt) w)
  | [], w => Rel.refl _ _
  | wt :: rest, w => by
    simp only [List.foldl_cons]
    exact (rel_unwatch wt w).trans (rel_unwatchAll rest _)

theorem rel_updateDeps {B : Nat} {o : Nat} {attr : Option String} : ∀ (mds : List MethodDef) (w : World),
    B ≤ w.cells.length → Rel B w (w.updateDeps o attr mds)
  | [], w, _ => by simp only [World.updateDeps]; exact Rel.refl _ _
  | md :: rest, w, hB => by
    simp only [World.updateDeps]
    split
    · have r1 := rel_setDyn (B := B) w o (fun d => erase d md.name)
      have r2 := rel_unwatchAll (B := B) (((w.objs[o]?).bind (fun ob => lookup ob.dyn md.name)).getD [])
        (w.setObj o fun ob => { ob with dyn := erase ob.dyn md.name })
      generalize hi : World.installDyn (List.foldl (fun w wt => w.unwatch wt)
        (w.setObj o fun ob => { ob with dyn := erase ob.dyn md.name })
        (((w.objs[o]?).bind (fun ob => lookup ob.dyn md.name)).getD [])) o attr md = r
      obtain ⟨w3, dynw⟩ := r
      have r12 := r1.trans r2
      have r3 := rel_installDyn (B := B) (Nat.le_trans hB r12.lenC) hi
      simp only
      have r123 := r12.trans r3
      split
      · exact r123.trans (rel_updateDeps rest _ (Nat.le_trans hB r123.lenC))
      · have r4 := rel_setDyn (B := B) w3 o (fun d => insert d md.name dynw)
        exact (r123.trans r4).trans (rel_updateDeps rest _ (Nat.le_trans hB (r123.trans r4).lenC))
    · exact rel_updateDeps rest w hB

end ParamVerif.Copy
