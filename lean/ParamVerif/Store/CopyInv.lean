/-
C17 — the invariant of reachable worlds.

`Store/CopyLemmas.lean` proves what an operation does *relative to a set of objects* (`Good`).  The copy theorems
need two facts about the world that is copied — every reference points into the world (`Closed w (· < |objs|)
(· < |cells|)`, called `WF` in Props/C17.lean) and every watcher sits in the table of its own instance
(`OwnWatchers`).  This file proves that every history whose operations name existing objects (`opsInWorld`) keeps both,
starting from a world without objects: `step_inv`, `run_inv`.

How: object references stay inside the world by `step_good` with the set of all objects; for list references and
watcher tables one relation between the world before and after an operation (`Rel`): an object's record gains only
references to lists created by the operation, and only watchers registered on itself.
-/
import ParamVerif.Store.CopyLemmas

namespace ParamVerif.Copy

/-- the record refers to list `c`: as a parameter value, an ordinary attribute, or a container of a Selector copy -/
def Obj.hasCell (ob : Obj) (c : Nat) : Prop :=
  (∃ kv ∈ ob.values, kv.2 = .cell c) ∨ (∃ kv ∈ ob.attrs, kv.2 = .cell c) ∨
  (∃ kv ∈ ob.pcopies, ∃ s : Nat × Nat, kv.2.slots = some s ∧ (c = s.1 ∨ c = s.2))

def Obj.hasWatcher (ob : Obj) (wt : Watcher) : Prop := ∃ kv ∈ ob.watchers, wt ∈ kv.2

/-- `w → w'` inside one operation that started with `B` lists: no object appears or disappears; a record refers to a
list it referred to before or to one created since the operation started; a watcher in the table of object `i` was
there before or is registered on `i` -/
structure Rel (B : Nat) (w w' : World) : Prop where
  lenC : w.cells.length ≤ w'.cells.length
  lenO : w'.objs.length = w.objs.length
  objs : ∀ (i : Nat) (ob' : Obj), w'.objs[i]? = some ob' → ∃ ob, w.objs[i]? = some ob ∧
    (∀ c, ob'.hasCell c → ob.hasCell c ∨ (B ≤ c ∧ c < w'.cells.length)) ∧
    (∀ wt, ob'.hasWatcher wt → wt.inst = i ∨ ob.hasWatcher wt)

theorem Rel.refl (B : Nat) (w : World) : Rel B w w :=
  ⟨Nat.le_refl _, rfl, fun _ ob h => ⟨ob, h, fun _ hc => Or.inl hc, fun _ hw => Or.inr hw⟩⟩

theorem Rel.trans {B : Nat} {w w1 w2 : World} (a : Rel B w w1) (b : Rel B w1 w2) : Rel B w w2 := by
  refine ⟨Nat.le_trans a.lenC b.lenC, by rw [b.lenO, a.lenO], ?_⟩
  intro i ob2 h2
  obtain ⟨ob1, h1, c1, w1'⟩ := b.objs i ob2 h2
  obtain ⟨ob, h0, c0, w0⟩ := a.objs i ob1 h1
  refine ⟨ob, h0, ?_, ?_⟩
  · intro c hc
    rcases c1 c hc with h | h
    · rcases c0 c h with h | h
      · exact Or.inl h
      · exact Or.inr ⟨h.1, Nat.lt_of_lt_of_le h.2 b.lenC⟩
    · exact Or.inr h
  · intro wt hw
    rcases w1' wt hw with h | h
    · exact Or.inl h
    · exact w0 wt h

theorem Rel.of_objs {B : Nat} {w w' : World} (ho : w'.objs = w.objs) (hl : w.cells.length ≤ w'.cells.length) :
    Rel B w w' :=
  ⟨hl, by rw [ho], fun _ ob h => ⟨ob, by rw [← ho]; exact h, fun _ hc => Or.inl hc, fun _ hw => Or.inr hw⟩⟩

theorem rel_setObj {B : Nat} {w : World} {o : Nat} {f : Obj → Obj}
    (hc : ∀ ob, w.objs[o]? = some ob → ∀ c, (f ob).hasCell c → ob.hasCell c ∨ (B ≤ c ∧ c < w.cells.length))
    (hw : ∀ ob, w.objs[o]? = some ob → ∀ wt, (f ob).hasWatcher wt → wt.inst = o ∨ ob.hasWatcher wt) :
    Rel B w (w.setObj o f) := by
  unfold World.setObj
  split
  · rename_i ob hob
    refine ⟨Nat.le_refl _, by simp, ?_⟩
    intro i ob' h'
    rcases getElem?_set_cases h' with ⟨rfl, rfl⟩ | ⟨_, h⟩
    · exact ⟨ob, hob, hc ob hob, hw ob hob⟩
    · exact ⟨ob', h, fun _ hc => Or.inl hc, fun _ hw => Or.inr hw⟩
  · exact Rel.refl _ _

/-! ### what an update of one field does to `hasCell` / `hasWatcher` -/

theorem hasCell_pcopies_insert {ob : Obj} {p : String} {pc : PCopy} {c : Nat}
    (h : ({ ob with pcopies := insert ob.pcopies p pc } : Obj).hasCell c) :
    ob.hasCell c ∨ ∃ s : Nat × Nat, pc.slots = some s ∧ (c = s.1 ∨ c = s.2) := by
  rcases h with h | h | ⟨kv, hkv, s, hs, hcs⟩
  · exact Or.inl (Or.inl h)
  · exact Or.inl (Or.inr (Or.inl h))
  · rcases mem_insert hkv with rfl | hm
    · exact Or.inr ⟨s, hs, hcs⟩
    · exact Or.inl (Or.inr (Or.inr ⟨kv, hm, s, hs, hcs⟩))

theorem hasCell_values_insert {ob : Obj} {p : String} {v : Val} {c : Nat}
    (h : ({ ob with values := insert ob.values p v } : Obj).hasCell c) : ob.hasCell c ∨ v = .cell c := by
  rcases h with ⟨kv, hkv, hv⟩ | h | h
  · rcases mem_insert hkv with rfl | hm
    · exact Or.inr hv
    · exact Or.inl (Or.inl ⟨kv, hm, hv⟩)
  · exact Or.inl (Or.inr (Or.inl h))
  · exact Or.inl (Or.inr (Or.inr h))

theorem hasCell_attrs_insert {ob : Obj} {p : String} {v : Val} {c : Nat}
    (h : ({ ob with attrs := insert ob.attrs p v } : Obj).hasCell c) : ob.hasCell c ∨ v = .cell c := by
  rcases h with h | ⟨kv, hkv, hv⟩ | h
  · exact Or.inl (Or.inl h)
  · rcases mem_insert hkv with rfl | hm
    · exact Or.inr hv
    · exact Or.inl (Or.inr (Or.inl ⟨kv, hm, hv⟩))
  · exact Or.inl (Or.inr (Or.inr h))

theorem hasWatcher_insert {ob : Obj} {n : String} {l : List Watcher} {wt : Watcher}
    (h : ({ ob with watchers := insert ob.watchers n l } : Obj).hasWatcher wt) : ob.hasWatcher wt ∨ wt ∈ l := by
  obtain ⟨kv, hkv, hw⟩ := h
  rcases mem_insert hkv with rfl | hm
  · exact Or.inr hw
  · exact Or.inl ⟨kv, hm, hw⟩

/-- an update that leaves values, attributes, Parameter copies' containers and the watcher table alone -/
theorem rel_setObj_keep {B : Nat} {w : World} {o : Nat} {f : Obj → Obj}
    (hc : ∀ ob c, (f ob).hasCell c → ob.hasCell c) (hw : ∀ ob wt, (f ob).hasWatcher wt → ob.hasWatcher wt) :
    Rel B w (w.setObj o f) :=
  rel_setObj (fun ob _ c h => Or.inl (hc ob c h)) (fun ob _ wt h => Or.inr (hw ob wt h))

/-! ### the primitives -/

theorem rel_touchParam {B : Nat} {w : World} (o : Nat) (p : String) (hB : B ≤ w.cells.length) :
    Rel B w (w.touchParam o p) := by
  unfold World.touchParam
  split
  · exact Rel.refl _ _
  · split
    · exact Rel.refl _ _
    · split
      · exact Rel.refl _ _
      · rename_i d _
        split
        · refine rel_setObj ?_ (fun ob _ wt hw => Or.inr hw)
          intro ob _ c hc
          rcases hasCell_pcopies_insert hc with h | ⟨s, hs, _⟩
          · exact Or.inl h
          · simp at hs
        · rename_i co cn _
          refine Rel.trans (Rel.of_objs (w' := { w with cells := w.cells ++ [deref w.cells co, deref w.cells cn] }) rfl
            (by simp)) ?_
          refine rel_setObj ?_ (fun ob _ wt hw => Or.inr hw)
          intro ob _ c hc
          rcases hasCell_pcopies_insert hc with h | ⟨s, hs, hcs⟩
          · exact Or.inl h
          · simp at hs; subst hs
            right; simp at hcs ⊢; omega

theorem rel_addWatcher {B : Nat} (wt : Watcher) : ∀ (w : World), Rel B w (w.addWatcher wt) := by
  unfold World.addWatcher
  generalize wt.names = names
  induction names with
  | nil => intro w; exact Rel.refl _ _
  | cons n ns ih =>
    intro w
    simp only [List.foldl_cons]
    refine Rel.trans ?_ (ih _)
    refine rel_setObj (fun ob _ c h => Or.inl h) ?_
    intro ob _ x hx
    rcases hasWatcher_insert hx with h | h
    · exact Or.inr h
    · simp only [List.mem_append, List.mem_singleton] at h
      rcases h with h | rfl
      · cases hl : lookup ob.watchers n with
        | none => simp [hl] at h
        | some l => simp [hl] at h; exact Or.inr ⟨_, lookup_mem hl, h⟩
      · exact Or.inl rfl

theorem rel_unwatch {B : Nat} (wt : Watcher) : ∀ (w : World), Rel B w (w.unwatch wt) := by
  unfold World.unwatch
  generalize wt.names = names
  induction names with
  | nil => intro w; simp only [World.unwatch.go]; exact Rel.refl _ _
  | cons n ns ih =>
    intro w
    simp only [World.unwatch.go]
    split
    · exact Rel.refl _ _
    · rename_i l hl
      split
      · exact Rel.refl _ _
      · rename_i l' hl'
        refine Rel.trans ?_ (ih _)
        refine rel_setObj (fun ob _ c h => Or.inl h) ?_
        intro ob hob x hx
        rcases hasWatcher_insert hx with h | h
        · exact Or.inr h
        · simp only [hob, Option.bind_some] at hl
          exact Or.inr ⟨_, lookup_mem hl, removeFirst_subset hl' x h⟩

theorem rel_touchAll {B : Nat} : ∀ (l : List (Nat × String)) (w : World), B ≤ w.cells.length →
    Rel B w (w.touchAll l)
  | [], w, _ => by simp only [World.touchAll]; exact Rel.refl _ _
  | (o, p) :: rest, w, hB => by
    simp only [World.touchAll]
    have r1 := rel_touchParam (B := B) o p hB
    exact r1.trans (rel_touchAll rest _ (Nat.le_trans hB r1.lenC))

theorem rel_installGroups {B : Nat} {o : Nat} {m : String} {attr : Option String} {cs : List Contribution} :
    ∀ (gs : List Nat) (w w' : World) (ws : List Watcher),
    World.installGroups w o m attr cs gs = (w', ws) → Rel B w w'
  | [], w, w', ws, h => by
    simp [World.installGroups] at h; obtain ⟨rfl, _⟩ := h; exact Rel.refl _ _
  | g :: gs, w, w', ws, h => by
    simp only [World.installGroups, mkCaller] at h
    generalize hr : World.installGroups _ o m attr cs gs = r at h
    obtain ⟨w2, rest⟩ := r
    simp at h; obtain ⟨rfl, _⟩ := h
    have r1 : Rel B w { w with nextPid := w.nextPid + 1 } := Rel.of_objs rfl (Nat.le_refl _)
    exact (r1.trans (rel_addWatcher _ _)).trans (rel_installGroups gs _ _ _ hr)

theorem rel_installDyn {B : Nat} {w w' : World} {o : Nat} {attr : Option String} {md : MethodDef}
    {dynw : List Watcher} (hB : B ≤ w.cells.length) (h : w.installDyn o attr md = (w', dynw)) : Rel B w w' := by
  unfold World.installDyn at h
  exact (rel_touchAll _ w hB).trans (rel_installGroups _ _ _ _ h)

theorem rel_installConst {B : Nat} {w : World} (o : Nat) (md : MethodDef) (hB : B ≤ w.cells.length) :
    Rel B w (w.installConst o md) := by
  unfold World.installConst
  generalize dedupS (ownDeps md.deps) = ps
  simp only [mkCaller]
  split
  · exact Rel.refl _ _
  · have r1 := rel_touchAll (B := B) (ps.map fun p => (o, p)) w hB
    have r2 : Rel B (w.touchAll (ps.map fun p => (o, p)))
        { (w.touchAll (ps.map fun p => (o, p))) with nextPid := (w.touchAll (ps.map fun p => (o, p))).nextPid + 1 } :=
      Rel.of_objs rfl (Nat.le_refl _)
    exact (r1.trans r2).trans (rel_addWatcher _ _)

theorem rel_setDyn {B : Nat} (w : World) (o : Nat) (g : List (String × List Watcher) → List (String × List Watcher)) :
    Rel B w (w.setObj o fun ob => { ob with dyn := g ob.dyn }) :=
  rel_setObj_keep (fun _ _ h => h) (fun _ _ h => h)

theorem rel_initDeps {B : Nat} {o : Nat} : ∀ (mds : List MethodDef) (w : World), B ≤ w.cells.length →
    Rel B w (w.initDeps o mds)
  | [], w, _ => by simp only [World.initDeps]; exact Rel.refl _ _
  | md :: rest, w, hB => by
    simp only [World.initDeps]
    have r0 := rel_installConst (B := B) o md hB
    generalize hi : (w.installConst o md).installDyn o Option.none md = r
    obtain ⟨w1, dynw⟩ := r
    have r1 := rel_installDyn (B := B) (Nat.le_trans hB r0.lenC) hi
    simp only
    have r01 := r0.trans r1
    split
    · exact r01.trans (rel_initDeps rest _ (Nat.le_trans hB r01.lenC))
    · have r2 := rel_setDyn (B := B) w1 o (fun d => insert d md.name dynw)
      exact (r01.trans r2).trans (rel_initDeps rest _ (Nat.le_trans hB (r01.trans r2).lenC))

theorem rel_unwatchAll {B : Nat} : ∀ (old : List Watcher) (w : World),
    Rel B w (old.foldl (fun w wt => w.unwatch wt) w)
  | [], w => Rel.refl _ _
  | wt :: rest, w => by
    simp only [List.foldl_cons]
    exact (rel_unwatch wt w).trans (rel_unwatchAll rest _)

theorem rel_updateDeps {B : Nat} {o : Nat} {attr : Option String} : ∀ (mds : List MethodDef) (w : World),
    B ≤ w.cells.length → Rel B w (w.updateDeps o attr mds)
  | [], w, _ => by simp only [World.updateDeps]; exact Rel.refl _ _
  | md :: rest, w, hB => by
    simp only [World.updateDeps]
    split
    · have r1 := rel_setDyn (B := B) w o (fun d => erase d md.name)
      have r2 := rel_unwatchAll (B := B) (((w.objs[o]?).bind (fun ob => lookup ob.dyn md.name)).getD [])
        (w.setObj o fun ob => { ob with dyn := erase ob.dyn md.name })
      generalize hi : World.installDyn (List.foldl (fun w wt => w.unwatch wt)
        (w.setObj o fun ob => { ob with dyn := erase ob.dyn md.name })
        (((w.objs[o]?).bind (fun ob => lookup ob.dyn md.name)).getD [])) o attr md = r
      obtain ⟨w3, dynw⟩ := r
      have r12 := r1.trans r2
      have r3 := rel_installDyn (B := B) (Nat.le_trans hB r12.lenC) hi
      simp only
      have r123 := r12.trans r3
      split
      · exact r123.trans (rel_updateDeps rest _ (Nat.le_trans hB r123.lenC))
      · have r4 := rel_setDyn (B := B) w3 o (fun d => insert d md.name dynw)
        exact (r123.trans r4).trans (rel_updateDeps rest _ (Nat.le_trans hB (r123.trans r4).lenC))
    · exact rel_updateDeps rest w hB

/-! ### dispatch -/

theorem rel_runCallback {B : Nat} {w : World} (cb : Option (Nat × Option String)) (hB : B ≤ w.cells.length) :
    Rel B w (w.runCallback cb) := by
  unfold World.runCallback
  split
  · exact Rel.refl _ _
  · split
    · exact rel_updateDeps _ w hB
    · exact Rel.refl _ _

theorem rel_invoke {B : Nat} {w w' : World} {wt : Watcher} {evs : List (String × Val × Val)}
    {inv : Option (Nat × String)} (hB : B ≤ w.cells.length) (h : invoke w wt evs = (w', inv)) : Rel B w w' := by
  unfold invoke at h
  split at h
  · simp at h; obtain ⟨rfl, _⟩ := h; exact rel_runCallback _ hB
  · simp at h; obtain ⟨rfl, _⟩ := h; exact Rel.refl _ _

theorem rel_logInv {B : Nat} (w : World) (inv : Option (Nat × String)) : Rel B w (w.logInv inv) := by
  cases inv with
  | none => exact Rel.refl _ _
  | some e => exact Rel.of_objs rfl (Nat.le_refl _)

theorem rel_dispatch {B : Nat} {p : String} {old new : Val} : ∀ (ws : List Watcher) (w : World),
    B ≤ w.cells.length → Rel B w (dispatch w p old new ws)
  | [], w, _ => by simp only [dispatch]; exact Rel.refl _ _
  | wt :: rest, w, hB => by
    simp only [dispatch]
    split
    · exact rel_dispatch rest w hB
    · generalize hi : invoke w wt [(p, old, new)] = r
      obtain ⟨w1, inv⟩ := r
      have r1 := rel_invoke (B := B) hB hi
      simp only
      have r12 := r1.trans (rel_logInv w1 inv)
      exact r12.trans (rel_dispatch rest _ (Nat.le_trans hB r12.lenC))

theorem rel_flush {B : Nat} {evs : List (String × Val × Val)} : ∀ (ws : List Watcher) (w : World),
    B ≤ w.cells.length → Rel B w (flush w evs ws)
  | [], w, _ => by simp only [flush]; exact Rel.refl _ _
  | wt :: rest, w, hB => by
    simp only [flush]
    generalize hi : invoke w wt _ = r
    obtain ⟨w1, inv⟩ := r
    have r1 := rel_invoke (B := B) hB hi
    simp only
    have r12 := r1.trans (rel_logInv w1 inv)
    exact r12.trans (rel_flush rest _ (Nat.le_trans hB r12.lenC))

/-! ### the operations -/

theorem rel_evalArg {B : Nat} {w w' : World} {a : Arg} {v : Val} (hB : B ≤ w.cells.length)
    (h : evalArg w a = (v, w')) : Rel B w w' ∧ ∀ c, v = .cell c → B ≤ c ∧ c < w'.cells.length := by
  cases a with
  | none => simp [evalArg] at h; obtain ⟨rfl, rfl⟩ := h; exact ⟨Rel.refl _ _, by simp⟩
  | int n => simp [evalArg] at h; obtain ⟨rfl, rfl⟩ := h; exact ⟨Rel.refl _ _, by simp⟩
  | obj o => simp [evalArg] at h; obtain ⟨rfl, rfl⟩ := h; exact ⟨Rel.refl _ _, by simp⟩
  | newList l =>
    simp [evalArg] at h; obtain ⟨rfl, rfl⟩ := h
    refine ⟨Rel.of_objs rfl (by simp), ?_⟩
    intro c hc
    simp at hc; subst hc
    simp; exact hB

theorem rel_ensureInObjects {B : Nat} {w w' : World} {o : Nat} {p : String} {v : Val}
    (h : w.ensureInObjects o p v = some w') : Rel B w w' := by
  unfold World.ensureInObjects at h
  split at h
  · simp at h
  · split at h
    · simp at h; subst h; exact Rel.refl _ _
    · simp at h
    · split at h
      · split at h
        · simp at h; subst h; exact Rel.refl _ _
        · simp at h; subst h; exact Rel.of_objs rfl (by simp)
      · simp at h

/-- storing a value that is no list, or a list created by this operation -/
theorem rel_setValue {B : Nat} (w : World) (o : Nat) (p : String) {v : Val}
    (hv : ∀ c, v = .cell c → B ≤ c ∧ c < w.cells.length) :
    Rel B w (w.setObj o fun ob => { ob with values := insert ob.values p v }) := by
  refine rel_setObj ?_ (fun ob _ wt hw => Or.inr hw)
  intro ob _ c hc
  rcases hasCell_values_insert hc with h | h
  · exact Or.inl h
  · exact Or.inr (hv c h)

theorem rel_doSet {B : Nat} {w w' : World} {o : Nat} {p : String} {a : Arg} (hB : B ≤ w.cells.length)
    (h : doSet w o p a = .ok w') : Rel B w w' := by
  unfold doSet at h
  split at h
  · simp at h
  · split at h
    · simp at h
    · rename_i c _
      split at h
      · generalize hev : evalArg w a = r at h
        obtain ⟨v, w1⟩ := r
        obtain ⟨r1, hv⟩ := rel_evalArg (B := B) hB hev
        simp only at h
        have r2 := rel_touchParam (B := B) (w := w1) o p (Nat.le_trans hB r1.lenC)
        split at h
        · rename_i old w2 _ hens
          have r2' := rel_ensureInObjects (B := B) hens
          have r012 := (r1.trans r2).trans r2'
          have r3 := rel_setValue (B := B) w2 o p (v := v)
            (fun c hc => ⟨(hv c hc).1, Nat.lt_of_lt_of_le (hv c hc).2 (r2.trans r2').lenC⟩)
          have r0123 := r012.trans r3
          have r4 := rel_updateDeps (B := B) (o := o) (attr := some p) c.methods _ (Nat.le_trans hB r0123.lenC)
          simp at h
          subst h
          exact (r0123.trans r4).trans (rel_dispatch _ _ (Nat.le_trans hB (r0123.trans r4).lenC))
        · simp at h
      · simp at h

theorem rel_updateOne {B : Nat} {w w' : World} {o : Nat} {c : ClassDef} {p : String} {a : Arg}
    {evs evs' : List (String × Val × Val)} {q q' : List Watcher} (hB : B ≤ w.cells.length)
    (h : updateOne w o c p a evs q = some (w', evs', q')) : Rel B w w' := by
  unfold updateOne at h
  split at h
  · generalize hev : evalArg w a = r at h
    obtain ⟨v, w1⟩ := r
    obtain ⟨r1, hv⟩ := rel_evalArg (B := B) hB hev
    simp only at h
    have r2 := rel_touchParam (B := B) (w := w1) o p (Nat.le_trans hB r1.lenC)
    split at h
    · rename_i old w2 _ hens
      have r2' := rel_ensureInObjects (B := B) hens
      have r012 := (r1.trans r2).trans r2'
      have r3 := rel_setValue (B := B) w2 o p (v := v)
        (fun c hc => ⟨(hv c hc).1, Nat.lt_of_lt_of_le (hv c hc).2 (r2.trans r2').lenC⟩)
      have r0123 := r012.trans r3
      have r4 := rel_updateDeps (B := B) (o := o) (attr := some p) c.methods _ (Nat.le_trans hB r0123.lenC)
      split at h
      · simp at h; obtain ⟨rfl, _, _⟩ := h; exact r0123.trans r4
      · simp at h; obtain ⟨rfl, _, _⟩ := h; exact r0123.trans r4
    · simp at h
  · simp at h

theorem rel_updateLoop {B : Nat} {o : Nat} {c : ClassDef} :
    ∀ (kvs : List (String × Arg)) (w w' : World) (evs evs' : List (String × Val × Val)) (q q' : List Watcher),
    B ≤ w.cells.length → updateLoop w o c kvs evs q = some (w', evs', q') → Rel B w w'
  | [], w, w', evs, evs', q, q', _, h => by
    simp [updateLoop] at h; obtain ⟨rfl, _, _⟩ := h; exact Rel.refl _ _
  | (p, a) :: rest, w, w', evs, evs', q, q', hB, h => by
    simp only [updateLoop] at h
    split at h
    · rename_i w1 evs1 q1 h1
      have r1 := rel_updateOne (B := B) hB h1
      exact r1.trans (rel_updateLoop rest w1 w' evs1 evs' q1 q' (Nat.le_trans hB r1.lenC) h)
    · simp at h

theorem rel_doUpdate {B : Nat} {w w' : World} {o : Nat} {kvs : List (String × Arg)} (hB : B ≤ w.cells.length)
    (h : doUpdate w o kvs = .ok w') : Rel B w w' := by
  unfold doUpdate at h
  split at h
  · simp at h
  · rename_i c _
    split at h
    · simp at h
    · rename_i w1 evs queued hl
      simp at h; subst h
      have r1 := rel_updateLoop (B := B) (c := c) kvs w w1 [] evs [] queued hB hl
      exact r1.trans (rel_flush _ _ (Nat.le_trans hB r1.lenC))

theorem rel_doSelAdd {B : Nat} {w w' : World} {o : Nat} {p : String} {n : Int} (hB : B ≤ w.cells.length)
    (h : doSelAdd w o p n = .ok w') : Rel B w w' := by
  unfold doSelAdd at h
  have r1 := rel_touchParam (B := B) o p hB
  cases hl : ((w.touchParam o p).objs[o]?).bind (fun ob => lookup ob.pcopies p) with
  | none => simp [hl] at h
  | some pc =>
    simp only [hl] at h
    split at h
    · split at h
      · split at h
        · simp at h; subst h; exact r1
        · simp at h; subst h
          exact r1.trans (Rel.of_objs rfl (by simp))
      · simp at h
    · simp at h

theorem rel_doMutate {B : Nat} {w w' : World} {o : Nat} {p : String} {n : Int}
    (h : doMutate w o p n = .ok w') : Rel B w w' := by
  unfold doMutate at h
  split at h
  · simp at h; subst h; exact Rel.of_objs rfl (by simp)
  · simp at h

/-- replacing a Parameter copy by one with the same containers -/
theorem rel_setPCopy {B : Nat} (w : World) (o : Nat) (p : String) {pc pc' : PCopy}
    (hl : (w.objs[o]?).bind (fun ob => lookup ob.pcopies p) = some pc) (hs : pc'.slots = pc.slots) :
    Rel B w (w.setObj o fun ob => { ob with pcopies := insert ob.pcopies p pc' }) := by
  refine rel_setObj ?_ (fun ob _ wt hw => Or.inr hw)
  intro ob hob c hc
  rcases hasCell_pcopies_insert hc with h | ⟨s, hs', hcs⟩
  · exact Or.inl h
  · simp only [hob, Option.bind_some] at hl
    exact Or.inl (Or.inr (Or.inr ⟨_, lookup_mem hl, s, by rw [← hs, hs'], hcs⟩))

theorem rel_doPEdit {B : Nat} {w w' : World} {o : Nat} {p : String} {e : PEdit} (hB : B ≤ w.cells.length)
    (h : doPEdit w o p e = .ok w') : Rel B w w' := by
  unfold doPEdit at h
  have r1 := rel_touchParam (B := B) o p hB
  cases hl : ((w.touchParam o p).objs[o]?).bind (fun ob => lookup ob.pcopies p) with
  | none => simp [hl] at h
  | some pc =>
    simp only [hl] at h
    cases e with
    | bounds b =>
      simp only at h
      have r2 := rel_setPCopy (B := B) (w.touchParam o p) o p (pc' := { pc with bounds := b }) hl rfl
      split at h
      · simp at h; subst h; exact r1.trans r2
      · simp at h; subst h
        exact (r1.trans r2).trans (Rel.of_objs rfl (Nat.le_refl _))
    | constant b =>
      simp at h; subst h
      exact r1.trans (rel_setPCopy (B := B) (w.touchParam o p) o p (pc' := { pc with constant := b }) hl rfl)

theorem rel_doSetAttr {B : Nat} {w w' : World} {o : Nat} {name : String} {a : Arg} (hB : B ≤ w.cells.length)
    (h : doSetAttr w o name a = .ok w') : Rel B w w' := by
  unfold doSetAttr at h
  split at h
  · simp at h
  · generalize hev : evalArg w a = r at h
    obtain ⟨v, w1⟩ := r
    obtain ⟨r1, hv⟩ := rel_evalArg (B := B) hB hev
    simp at h; subst h
    refine r1.trans (rel_setObj ?_ (fun ob _ wt hw => Or.inr hw))
    intro ob _ c hc
    rcases hasCell_attrs_insert hc with h | h
    · exact Or.inl h
    · exact Or.inr (hv c h)

theorem rel_doMutAttr {B : Nat} {w w' : World} {o : Nat} {name : String} {n : Int}
    (h : doMutAttr w o name n = .ok w') : Rel B w w' := by
  unfold doMutAttr at h
  split at h
  · simp at h; subst h; exact Rel.of_objs rfl (by simp)
  · simp at h

theorem rel_doWatch {B : Nat} {w w' : World} {o t : Nat} {p : List String} {cb : String}
    (h : doWatch w o p t cb = .ok w') : Rel B w w' := by
  unfold doWatch at h
  split at h
  · split at h
    · simp at h; subst h
      exact (Rel.of_objs (B := B) (w := w) (w' := { w with nextPid := w.nextPid + 1 }) rfl (Nat.le_refl _)).trans (rel_addWatcher _ _)
    · simp at h
  · simp at h

theorem rel_doWatchPartial {B : Nat} {w w' : World} {o t : Nat} {p cb : String}
    (h : doWatchPartial w o p t cb = .ok w') : Rel B w w' := by
  unfold doWatchPartial at h
  split at h
  · split at h
    · simp at h; subst h
      exact (Rel.of_objs (B := B) (w := w) (w' := { w with nextPid := w.nextPid + 1 }) rfl (Nat.le_refl _)).trans (rel_addWatcher _ _)
    · simp at h
  · simp at h

theorem rel_doWatchSlot {B : Nat} {w w' : World} {o t : Nat} {p cb : String} (hB : B ≤ w.cells.length)
    (h : doWatchSlot w o p t cb = .ok w') : Rel B w w' := by
  unfold doWatchSlot at h
  have r1 := rel_touchParam (B := B) o p hB
  simp only at h
  cases hl : ((w.touchParam o p).objs[o]?).bind (fun ob => lookup ob.pcopies p) with
  | none => simp [hl] at h
  | some pc =>
    cases htt : (w.touchParam o p).objs[t]? with
    | none => simp [hl, htt] at h
    | some tt =>
      simp only [hl, htt] at h
      split at h
      · simp at h; subst h
        have r2 : Rel B (w.touchParam o p) { (w.touchParam o p) with nextPid := (w.touchParam o p).nextPid + 1 } :=
          Rel.of_objs rfl (Nat.le_refl _)
        refine (r1.trans r2).trans ?_
        exact rel_setPCopy (B := B) { (w.touchParam o p) with nextPid := (w.touchParam o p).nextPid + 1 } o p hl rfl
      · simp at h

/-- every operation other than a construction -/
theorem rel_step {w w' : World} {op : Op} (hnew : ∀ cls kw, op ≠ .new cls kw) (h : step w op = .ok w') :
    Rel w.cells.length w w' := by
  have hB := Nat.le_refl w.cells.length
  cases op with
  | new cls kw => exact absurd rfl (hnew cls kw)
  | set o p a => exact rel_doSet hB h
  | mutate o p n => exact rel_doMutate h
  | pedit o p e => exact rel_doPEdit hB h
  | setAttr o name a => exact rel_doSetAttr hB h
  | mutAttr o name n => exact rel_doMutAttr h
  | watch o p t cb => exact rel_doWatch h
  | selAdd o p n => exact rel_doSelAdd hB h
  | watchPartial o p t cb => exact rel_doWatchPartial h
  | watchSlot o p t cb => exact rel_doWatchSlot hB h
  | update o kvs => exact rel_doUpdate hB h

/-! ## The invariant -/

/-- every list a record refers to exists -/
def CellsBounded (w : World) : Prop :=
  ∀ (i : Nat) (ob : Obj), w.objs[i]? = some ob → ∀ c, ob.hasCell c → c < w.cells.length

/-- the invariant of the worlds a history reaches: every object reference (values, attributes, watchers, callers,
callbacks) names an existing object, every list reference an existing list, and every watcher sits in the table of
its own instance -/
structure WInv (w : World) : Prop where
  objsIn : Closed w (fun o => o < w.objs.length) (fun _ => True)
  cellsIn : CellsBounded w
  own : OwnWatchers w

theorem Val.inSets_mono {S S' C C' : Nat → Prop} (hS : ∀ o, S o → S' o) (hC : ∀ c, C c → C' c) {v : Val}
    (h : v.inSets S C) : v.inSets S' C' := by
  cases v with
  | none => trivial
  | int n => trivial
  | cell c => exact hC c h
  | obj o => exact hS o h

theorem Watcher.inSet_mono {S S' : Nat → Prop} (hS : ∀ o, S o → S' o) {wt : Watcher} (h : wt.inSet S) :
    wt.inSet S' := ⟨hS _ h.1, hS _ h.2.1, fun cb hcb => hS _ (h.2.2 cb hcb)⟩

theorem Obj.refsIn_mono {S S' C C' : Nat → Prop} (hS : ∀ o, S o → S' o) (hC : ∀ c, C c → C' c) {ob : Obj}
    (h : ob.refsIn S C) : ob.refsIn S' C' :=
  ⟨fun kv hkv => Val.inSets_mono hS hC (h.values kv hkv), fun kv hkv => Val.inSets_mono hS hC (h.attrs kv hkv),
   fun kv hkv wt hwt => Watcher.inSet_mono hS (h.watchers kv hkv wt hwt),
   fun kv hkv wt hwt => Watcher.inSet_mono hS (h.dyn kv hkv wt hwt),
   fun kv hkv => ⟨fun s hs => ⟨hC _ ((h.pcopies kv hkv).1 s hs).1, hC _ ((h.pcopies kv hkv).1 s hs).2⟩,
     fun wt hwt => Watcher.inSet_mono hS ((h.pcopies kv hkv).2 wt hwt)⟩⟩

/-- the invariant gives the well-formedness the copy theorems ask for -/
theorem WInv.wf {w : World} (h : WInv w) :
    Closed w (fun o => o < w.objs.length) (fun c => c < w.cells.length) := by
  intro i ob hi hob
  have r := h.objsIn i ob hi hob
  have hv : ∀ v : Val, v.inSets (fun o => o < w.objs.length) (fun _ => True) →
      (∀ c, v = .cell c → c < w.cells.length) → v.inSets (fun o => o < w.objs.length) (fun c => c < w.cells.length) := by
    intro v h1 h2
    cases v with
    | none => trivial
    | int n => trivial
    | cell c => exact h2 c rfl
    | obj o => exact h1
  refine ⟨fun kv hkv => hv _ (r.values kv hkv) (fun c hc => h.cellsIn i ob hob c (Or.inl ⟨kv, hkv, hc⟩)),
    fun kv hkv => hv _ (r.attrs kv hkv) (fun c hc => h.cellsIn i ob hob c (Or.inr (Or.inl ⟨kv, hkv, hc⟩))),
    r.watchers, r.dyn, fun kv hkv => ⟨fun s hs => ?_, (r.pcopies kv hkv).2⟩⟩
  exact ⟨h.cellsIn i ob hob s.1 (Or.inr (Or.inr ⟨kv, hkv, s, hs, Or.inl rfl⟩)),
         h.cellsIn i ob hob s.2 (Or.inr (Or.inr ⟨kv, hkv, s, hs, Or.inr rfl⟩))⟩

/-- a world without objects satisfies the invariant -/
theorem WInv.empty {w : World} (h : w.objs = []) : WInv w :=
  ⟨fun i ob _ hob => by simp [h] at hob, fun i ob hob => by simp [h] at hob, fun i ob hob => by simp [h] at hob⟩

/-- one operation's worth of `Good` (for the set of all objects) and `Rel` carries the invariant over -/
theorem WInv.carry {w w' : World} (h : WInv w)
    (g : Closed w' (fun o => o < w.objs.length) (fun _ => True)) (r : Rel w.cells.length w w') : WInv w' := by
  refine ⟨?_, ?_, ?_⟩
  · rw [r.lenO]; exact g
  · intro i ob' hob' c hc
    obtain ⟨ob, hob, h1, _⟩ := r.objs i ob' hob'
    rcases h1 c hc with h2 | h2
    · exact Nat.lt_of_lt_of_le (h.cellsIn i ob hob c h2) r.lenC
    · exact h2.2
  · intro i ob' hob' kv hkv wt hwt
    obtain ⟨ob, hob, _, h2⟩ := r.objs i ob' hob'
    rcases h2 wt ⟨kv, hkv, hwt⟩ with h3 | ⟨kv0, hkv0, hwt0⟩
    · exact h3
    · exact h.own i ob hob kv0 hkv0 wt hwt0

/-- an operation names existing objects only -/
def Op.inWorld (w : World) : Op → Prop
  | .new _ kwargs => ∀ kv ∈ kwargs, ∀ o, kv.2 = Arg.obj o → o < w.objs.length
  | op => op.inSets w (fun o => o < w.objs.length) (fun _ => True)

theorem initValues_spec {n : Nat} : ∀ (ds : List ParamDef) (w w1 : World) (vals vals' : List (String × Val)),
    initValues w ds vals = (vals', w1) →
    (∀ kv ∈ vals, kv.2.inSets (fun o => o < n) (fun c => c < w.cells.length)) →
    w1.objs = w.objs ∧ w1.classes = w.classes ∧ w.cells.length ≤ w1.cells.length ∧
    ∀ kv ∈ vals', kv.2.inSets (fun o => o < n) (fun c => c < w1.cells.length)
  | [], w, w1, vals, vals', h, hv => by
    simp [initValues] at h; obtain ⟨rfl, rfl⟩ := h; exact ⟨rfl, rfl, Nat.le_refl _, hv⟩
  | d :: ds, w, w1, vals, vals', h, hv => by
    simp only [initValues] at h
    split at h
    · split at h
      · refine initValues_spec ds w w1 _ vals' h ?_
        intro kv hkv
        rcases mem_insert hkv with rfl | hm
        · trivial
        · exact hv kv hm
      · refine initValues_spec ds w w1 _ vals' h ?_
        intro kv hkv
        rcases mem_insert hkv with rfl | hm
        · trivial
        · exact hv kv hm
      · rename_i l _
        obtain ⟨h1, h2, h3, h4⟩ := initValues_spec ds { w with cells := w.cells ++ [l] } w1 _ vals' h (by
          intro kv hkv
          rcases mem_insert hkv with rfl | hm
          · show w.cells.length < (w.cells ++ [l]).length; simp
          · exact Val.inSets_mono (fun _ h => h) (fun c (hc : c < w.cells.length) => by
              show c < (w.cells ++ [l]).length; simp; omega) (hv kv hm))
        refine ⟨h1, h2, ?_, h4⟩
        have : (w.cells ++ [l]).length ≤ w1.cells.length := h3
        simp at this; omega
    · exact initValues_spec ds w w1 vals vals' h hv

theorem evalKwargs_spec {n : Nat} : ∀ (kws : List (String × Arg)) (w w1 : World) (vals vals' : List (String × Val)),
    evalKwargs w kws vals = (vals', w1) → (∀ kv ∈ kws, ∀ o, kv.2 = Arg.obj o → o < n) →
    (∀ kv ∈ vals, kv.2.inSets (fun o => o < n) (fun c => c < w.cells.length)) →
    w1.objs = w.objs ∧ w1.classes = w.classes ∧ w.cells.length ≤ w1.cells.length ∧
    ∀ kv ∈ vals', kv.2.inSets (fun o => o < n) (fun c => c < w1.cells.length)
  | [], w, w1, vals, vals', h, _, hv => by
    simp [evalKwargs] at h; obtain ⟨rfl, rfl⟩ := h; exact ⟨rfl, rfl, Nat.le_refl _, hv⟩
  | (p, a) :: rest, w, w1, vals, vals', h, hk, hv => by
    simp only [evalKwargs] at h
    have hrest : ∀ kv ∈ rest, ∀ o, kv.2 = Arg.obj o → o < n := fun kv hkv => hk kv (by simp [hkv])
    cases a with
    | none =>
      simp only [evalArg] at h
      exact evalKwargs_spec rest w w1 _ vals' h hrest (fun kv hkv => by
        rcases mem_insert hkv with rfl | hm
        · trivial
        · exact hv kv hm)
    | int m =>
      simp only [evalArg] at h
      exact evalKwargs_spec rest w w1 _ vals' h hrest (fun kv hkv => by
        rcases mem_insert hkv with rfl | hm
        · trivial
        · exact hv kv hm)
    | obj o =>
      simp only [evalArg] at h
      exact evalKwargs_spec rest w w1 _ vals' h hrest (fun kv hkv => by
        rcases mem_insert hkv with rfl | hm
        · exact hk (p, .obj o) (by simp) o rfl
        · exact hv kv hm)
    | newList l =>
      simp only [evalArg] at h
      obtain ⟨h1, h2, h3, h4⟩ := evalKwargs_spec rest { w with cells := w.cells ++ [l] } w1 _ vals' h hrest (by
        intro kv hkv
        rcases mem_insert hkv with rfl | hm
        · show w.cells.length < (w.cells ++ [l]).length; simp
        · exact Val.inSets_mono (fun _ h => h) (fun c (hc : c < w.cells.length) => by
            show c < (w.cells ++ [l]).length; simp; omega) (hv kv hm))
      refine ⟨h1, h2, ?_, h4⟩
      have : (w.cells ++ [l]).length ≤ w1.cells.length := h3
      simp at this; omega

/-- `Cls(**kwargs)` with keyword objects that exist keeps the invariant -/
theorem doNew_inv {w w' : World} {cls : Nat} {kwargs : List (String × Arg)} (hi : WInv w)
    (hk : ∀ kv ∈ kwargs, ∀ o, kv.2 = Arg.obj o → o < w.objs.length) (h : doNew w cls kwargs = .ok w') : WInv w' := by
  unfold doNew at h
  split at h
  · simp at h
  · rename_i c _
    split at h
    · generalize hiv : initValues w c.params [] = r1 at h
      obtain ⟨vals0, w1⟩ := r1
      obtain ⟨ho1, _, hl1, hv1⟩ := initValues_spec (n := w.objs.length) _ _ _ _ _ hiv (by simp)
      simp only at h
      generalize hek : evalKwargs w1 kwargs vals0 = r2 at h
      obtain ⟨vals, w2⟩ := r2
      obtain ⟨ho2, _, hl2, hv2⟩ := evalKwargs_spec (n := w.objs.length) _ _ _ _ _ hek hk hv1
      simp at h
      have hobjs : w2.objs = w.objs := by rw [ho2, ho1]
      have hlen : w.cells.length ≤ w2.cells.length := Nat.le_trans hl1 hl2
      -- the world with the new, still unwatched, object
      have hi3 : WInv { w2 with objs := w2.objs ++ [({ cls := cls, values := vals, pcopies := [], attrs := [], watchers := [], dyn := [] } : Obj)] } := by
        have hcase : ∀ (i : Nat) (ob : Obj), (w2.objs ++ [({ cls := cls, values := vals, pcopies := [], attrs := [], watchers := [], dyn := [] } : Obj)])[i]? = some ob →
            w.objs[i]? = some ob ∨ (i = w.objs.length ∧ ob = { cls := cls, values := vals, pcopies := [], attrs := [], watchers := [], dyn := [] }) := by
          intro i ob hob
          rw [hobjs] at hob
          rcases Nat.lt_or_ge i w.objs.length with hlt | hge
          · rw [List.getElem?_append_left hlt] at hob; exact Or.inl hob
          · rw [List.getElem?_append_right hge] at hob
            cases hd : i - w.objs.length with
            | zero => simp [hd] at hob; exact Or.inr ⟨by omega, hob.symm⟩
            | succ k => simp [hd] at hob
        refine ⟨?_, ?_, ?_⟩
        · intro i ob _ hob
          rcases hcase i ob hob with h1 | ⟨_, rfl⟩
          · have hlt : i < w.objs.length := by
              rcases Nat.lt_or_ge i w.objs.length with h2 | h2
              · exact h2
              · rw [List.getElem?_eq_none h2] at h1; simp at h1
            exact Obj.refsIn_mono (fun o (ho : o < w.objs.length) => by
              show o < (w2.objs ++ [_]).length; simp [hobjs]; omega) (fun _ _ => trivial) (hi.objsIn i ob hlt h1)
          · refine ⟨fun kv hkv => ?_, by simp, by simp, by simp, by simp⟩
            exact Val.inSets_mono (fun o (ho : o < w.objs.length) => by
              show o < (w2.objs ++ [_]).length; simp [hobjs]; omega) (fun _ _ => trivial) (hv2 kv hkv)
        · intro i ob hob c hc
          rcases hcase i ob hob with h1 | ⟨_, rfl⟩
          · exact Nat.lt_of_lt_of_le (hi.cellsIn i ob h1 c hc) hlen
          · rcases hc with ⟨kv, hkv, hcv⟩ | ⟨kv, hkv, _⟩ | ⟨kv, hkv, _⟩
            · have := hv2 kv hkv
              rw [hcv] at this; exact this
            · simp at hkv
            · simp at hkv
        · intro i ob hob kv hkv wt hwt
          rcases hcase i ob hob with h1 | ⟨_, rfl⟩
          · exact hi.own i ob h1 kv hkv wt hwt
          · simp at hkv
      subst h
      have hlen3 : ({ w2 with objs := w2.objs ++ [({ cls := cls, values := vals, pcopies := [], attrs := [], watchers := [], dyn := [] } : Obj)] } : World).objs.length = w2.objs.length + 1 := by
        simp
      have g := initDeps_good (S := fun o => o < ({ w2 with objs := w2.objs ++ [({ cls := cls, values := vals, pcopies := [], attrs := [], watchers := [], dyn := [] } : Obj)] } : World).objs.length)
        (C := fun _ => True) (o := w2.objs.length) (by rw [hlen3]; exact Nat.lt_succ_self _) c.methods _ hi3.objsIn (fun _ _ => trivial)
      exact hi3.carry g.closed (rel_initDeps _ _ (Nat.le_refl _))
    · simp at h

/-- **the invariant is preserved** by every operation that names existing objects -/
theorem step_inv {w w' : World} {op : Op} (hi : WInv w) (hs : op.inWorld w) (h : step w op = .ok w') : WInv w' := by
  by_cases hnew : ∃ cls kw, op = .new cls kw
  · obtain ⟨cls, kw, rfl⟩ := hnew
    exact doNew_inv hi hs h
  · have hn : ∀ cls kw, op ≠ .new cls kw := fun cls kw e => hnew ⟨cls, kw, e⟩
    have hs' : op.inSets w (fun o => o < w.objs.length) (fun _ => True) := by
      cases op with
      | new cls kw => exact absurd rfl (hn cls kw)
      | _ => exact hs
    exact hi.carry (step_good hi.objsIn (fun _ _ => trivial) hs' h).closed (rel_step hn h)

/-- a history every operation of which names objects existing at its time -/
def opsInWorld : World → List Op → Prop
  | _, [] => True
  | w, op :: rest => op.inWorld w ∧ match step w op with
    | .ok w1 => opsInWorld w1 rest
    | .error _ => True

/-- **every world a scoped history reaches satisfies the invariant** -/
theorem run_inv : ∀ (ops : List Op) (w w' : World), WInv w → opsInWorld w ops → runOps w ops = .ok w' → WInv w'
  | [], w, w', hi, _, h => by simp [runOps] at h; subst h; exact hi
  | op :: rest, w, w', hi, hs, h => by
    simp only [runOps] at h
    simp only [opsInWorld] at hs
    cases hst : step w op with
    | error e => simp [hst] at h
    | ok w1 =>
      simp only [hst] at h hs
      exact run_inv rest w1 w' (step_inv hi hs.1 hst) hs.2 h

/-! ## After the copy: two sides that evolve independently, in any interleaving -/

theorem refsIn_hasCell {S C : Nat → Prop} {ob : Obj} {c : Nat} (h : ob.refsIn S C) (hc : ob.hasCell c) : C c := by
  rcases hc with ⟨kv, hkv, hv⟩ | ⟨kv, hkv, hv⟩ | ⟨kv, hkv, s, hs, hcs⟩
  · have := h.values kv hkv; rw [hv] at this; exact this
  · have := h.attrs kv hkv; rw [hv] at this; exact this
  · rcases hcs with rfl | rfl
    · exact ((h.pcopies kv hkv).1 s hs).1
    · exact ((h.pcopies kv hkv).1 s hs).2

theorem WInv.of_wf {w : World} (h : Closed w (fun o => o < w.objs.length) (fun c => c < w.cells.length))
    (ho : OwnWatchers w) : WInv w := by
  refine ⟨fun i ob hi hob => Obj.refsIn_mono (fun _ h => h) (fun _ _ => trivial) (h i ob hi hob), ?_, ho⟩
  intro i ob hob c hc
  have hi : i < w.objs.length := by
    rcases Nat.lt_or_ge i w.objs.length with h1 | h1
    · exact h1
    · rw [List.getElem?_eq_none h1] at hob; simp at hob
  exact refsIn_hasCell (C := fun c => c < w.cells.length) (h i ob hi hob) hc

/-- a set of list references can be cut down to the lists that exist -/
theorem Closed.inter_bounded {w : World} {S C : Nat → Prop} (h : Closed w S C) (hb : CellsBounded w) :
    Closed w S (fun c => C c ∧ c < w.cells.length) := by
  intro i ob hi hob
  have r := h i ob hi hob
  have hv : ∀ v : Val, v.inSets S C → (∀ c, v = .cell c → c < w.cells.length) →
      v.inSets S (fun c => C c ∧ c < w.cells.length) := by
    intro v h1 h2
    cases v with
    | none => trivial
    | int n => trivial
    | cell c => exact ⟨h1, h2 c rfl⟩
    | obj o => exact h1
  refine ⟨fun kv hkv => hv _ (r.values kv hkv) (fun c hc => hb i ob hob c (Or.inl ⟨kv, hkv, hc⟩)),
    fun kv hkv => hv _ (r.attrs kv hkv) (fun c hc => hb i ob hob c (Or.inr (Or.inl ⟨kv, hkv, hc⟩))),
    r.watchers, r.dyn, fun kv hkv => ⟨fun s hs => ?_, (r.pcopies kv hkv).2⟩⟩
  exact ⟨⟨((r.pcopies kv hkv).1 s hs).1, hb i ob hob s.1 (Or.inr (Or.inr ⟨kv, hkv, s, hs, Or.inl rfl⟩))⟩,
         ⟨((r.pcopies kv hkv).1 s hs).2, hb i ob hob s.2 (Or.inr (Or.inr ⟨kv, hkv, s, hs, Or.inr rfl⟩))⟩⟩

theorem Closed.mono {w : World} {S C C' : Nat → Prop} (h : Closed w S C) (hC : ∀ c, C c → C' c) : Closed w S C' :=
  fun i ob hi hob => Obj.refsIn_mono (fun _ h => h) hC (h i ob hi hob)

/-- the image of a set under an offset -/
def shifted (S : Nat → Prop) (k : Nat) : Nat → Prop := fun x => ∃ x0, S x0 ∧ x = k + x0

theorem renWatcher_image {S : Nat → Prop} {no np : Nat} {wt : Watcher} (h : wt.inSet S) :
    (renWatcher no np wt).inSet (shifted S no) := by
  refine ⟨⟨_, h.1, rfl⟩, ⟨_, h.2.1, rfl⟩, ?_⟩
  intro cb hcb
  simp only [renWatcher, renCaller] at hcb
  cases hc : wt.fn.callback with
  | none => simp [hc] at hcb
  | some c => simp [hc] at hcb; rw [← hcb]; exact ⟨_, h.2.2 c hc, rfl⟩

theorem renVal_image {S C : Nat → Prop} {no nc : Nat} {v : Val} (h : v.inSets S C) :
    (renVal no nc v).inSets (shifted S no) (shifted C nc) := by
  cases v with
  | none => trivial
  | int n => trivial
  | cell c => exact ⟨c, h, rfl⟩
  | obj o => exact ⟨o, h, rfl⟩

theorem renObj_image {S C : Nat → Prop} {no nc np : Nat} {ob : Obj} (h : ob.refsIn S C) :
    (renObj no nc np ob).refsIn (shifted S no) (shifted C nc) := by
  refine ⟨?_, ?_, ?_, ?_, ?_⟩
  · intro kv hkv
    simp only [renObj, List.mem_map] at hkv
    obtain ⟨kv0, hkv0, rfl⟩ := hkv
    exact renVal_image (h.values kv0 hkv0)
  · intro kv hkv
    simp only [renObj, List.mem_map] at hkv
    obtain ⟨kv0, hkv0, rfl⟩ := hkv
    exact renVal_image (h.attrs kv0 hkv0)
  · intro kv hkv wt hwt
    simp only [renObj, List.mem_map] at hkv
    obtain ⟨kv0, hkv0, rfl⟩ := hkv
    simp only [List.mem_map] at hwt
    obtain ⟨wt0, hwt0, rfl⟩ := hwt
    exact renWatcher_image (h.watchers kv0 hkv0 wt0 hwt0)
  · intro kv hkv wt hwt
    simp only [renObj, List.mem_map] at hkv
    obtain ⟨kv0, hkv0, rfl⟩ := hkv
    simp only [List.mem_map] at hwt
    obtain ⟨wt0, hwt0, rfl⟩ := hwt
    exact renWatcher_image (h.dyn kv0 hkv0 wt0 hwt0)
  · intro kv hkv
    simp only [renObj, List.mem_map] at hkv
    obtain ⟨kv0, hkv0, rfl⟩ := hkv
    refine ⟨?_, ?_⟩
    · intro s hs
      cases h0 : kv0.2.slots with
      | none => simp [renPCopy, h0] at hs
      | some s0 =>
        simp [renPCopy, h0] at hs; subst hs
        exact ⟨⟨_, ((h.pcopies kv0 hkv0).1 s0 h0).1, rfl⟩, ⟨_, ((h.pcopies kv0 hkv0).1 s0 h0).2, rfl⟩⟩
    · intro wt hwt
      simp only [renPCopy, List.mem_map] at hwt
      obtain ⟨wt0, hwt0, rfl⟩ := hwt
      exact renWatcher_image ((h.pcopies kv0 hkv0).2 wt0 hwt0)

/-- the world after a copy made by the current `__setstate__` (`copyGraph_unbound_eq`) -/
def copyWorld (w : World) : World :=
  { w with objs := w.objs ++ w.objs.map (renObj w.objs.length w.cells.length w.nextPid),
           cells := w.cells ++ w.cells, nextPid := w.nextPid + w.nextPid }

theorem copyWorld_objs {w : World} {i : Nat} {ob' : Obj} (h : (copyWorld w).objs[i]? = some ob') :
    (i < w.objs.length ∧ w.objs[i]? = some ob') ∨
    (∃ ob, w.objs.length ≤ i ∧ w.objs[i - w.objs.length]? = some ob ∧
      ob' = renObj w.objs.length w.cells.length w.nextPid ob) := by
  simp only [copyWorld] at h
  rcases Nat.lt_or_ge i w.objs.length with hlt | hge
  · rw [List.getElem?_append_left hlt] at h; exact Or.inl ⟨hlt, h⟩
  · rw [List.getElem?_append_right hge, List.getElem?_map] at h
    cases ho : w.objs[i - w.objs.length]? with
    | none => simp [ho] at h
    | some ob => simp [ho] at h; exact Or.inr ⟨ob, hge, rfl, h.symm⟩

/-- the separation invariant after a copy of a world with `N` objects: `Hi` are the lists of the copy's side -/
structure Sep (N : Nat) (w : World) (Hi : Nat → Prop) : Prop where
  inv : WInv w
  objs : N ≤ w.objs.length
  lo : Closed w (fun o => o < N) (fun c => ¬ Hi c)
  hi : Closed w (fun o => N ≤ o) Hi
  bnd : ∀ c, Hi c → c < w.cells.length

/-- **the copy of a world satisfying the invariant satisfies it, and its two halves are separated** -/
theorem copyWorld_sep {w : World} (hi : WInv w) :
    Sep w.objs.length (copyWorld w) (fun c => w.cells.length ≤ c ∧ c < w.cells.length + w.cells.length) := by
  have hwf := hi.wf
  have hlenO : (copyWorld w).objs.length = w.objs.length + w.objs.length := by simp [copyWorld]
  have hlenC : (copyWorld w).cells.length = w.cells.length + w.cells.length := by simp [copyWorld]
  have hnew : ∀ (i : Nat) (ob : Obj), w.objs[i - w.objs.length]? = some ob → w.objs.length ≤ i →
      (renObj w.objs.length w.cells.length w.nextPid ob).refsIn
        (fun o => w.objs.length ≤ o ∧ o < w.objs.length + w.objs.length)
        (fun c => w.cells.length ≤ c ∧ c < w.cells.length + w.cells.length) := by
    intro i ob hob _
    have hlt : i - w.objs.length < w.objs.length := by
      rcases Nat.lt_or_ge (i - w.objs.length) w.objs.length with h1 | h1
      · exact h1
      · rw [List.getElem?_eq_none h1] at hob; simp at hob
    refine Obj.refsIn_mono ?_ ?_ (renObj_image (hwf _ ob hlt hob))
    · rintro o ⟨o0, h0, rfl⟩; exact ⟨by omega, by omega⟩
    · rintro c ⟨c0, h0, rfl⟩; exact ⟨by omega, by omega⟩
  refine ⟨WInv.of_wf ?_ ?_, by rw [hlenO]; omega, ?_, ?_, ?_⟩
  · intro i ob' _ hob'
    rw [hlenO, hlenC]
    rcases copyWorld_objs hob' with ⟨hlt, hob⟩ | ⟨ob, hge, hob, rfl⟩
    · exact Obj.refsIn_mono (fun o (h : o < w.objs.length) => by omega) (fun c (h : c < w.cells.length) => by omega)
        (hwf i ob' hlt hob)
    · exact Obj.refsIn_mono (fun o h => h.2) (fun c h => h.2) (hnew i ob hob hge)
  · intro i ob' hob' kv hkv wt hwt
    rcases copyWorld_objs hob' with ⟨_, hob⟩ | ⟨ob, hge, hob, rfl⟩
    · exact hi.own i ob' hob kv hkv wt hwt
    · simp only [renObj, List.mem_map] at hkv
      obtain ⟨kv0, hkv0, rfl⟩ := hkv
      simp only [List.mem_map] at hwt
      obtain ⟨wt0, hwt0, rfl⟩ := hwt
      have := hi.own _ ob hob kv0 hkv0 wt0 hwt0
      simp only [renWatcher, this]; omega
  · intro i ob' hlt hob'
    rcases copyWorld_objs hob' with ⟨_, hob⟩ | ⟨ob, hge, _, _⟩
    · exact Obj.refsIn_mono (fun _ h => h) (fun c (h : c < w.cells.length) => by omega) (hwf i ob' hlt hob)
    · omega
  · intro i ob' hge hob'
    rcases copyWorld_objs hob' with ⟨hlt, _⟩ | ⟨ob, _, hob, rfl⟩
    · omega
    · exact Obj.refsIn_mono (fun o h => h.1) (fun _ h => h) (hnew i ob hob hge)
  · intro c hc; rw [hlenC]; exact hc.2

theorem Arg.inSets_mono {w : World} {S S' C C' : Nat → Prop} (hS : ∀ o, S o → S' o)
    (hC : C w.cells.length → C' w.cells.length) {a : Arg} (h : a.inSets w S C) : a.inSets w S' C' := by
  cases a with
  | none => trivial
  | int n => trivial
  | newList l => exact hC h
  | obj o => exact hS o h

theorem kvsIn_mono {S S' C C' : Nat → Prop} (hS : ∀ o, S o → S' o) : ∀ {kvs : List (String × Arg)},
    kvsIn S C kvs → kvsIn S' C' kvs
  | [], _ => trivial
  | (p, a) :: rest, h => by
    refine ⟨?_, kvsIn_mono hS h.2⟩
    have h1 := h.1
    cases a with
    | obj o => exact hS o h1
    | none => trivial
    | int n => trivial
    | newList l => trivial

theorem Op.inSets_mono {w : World} {S S' C C' : Nat → Prop} (hS : ∀ o, S o → S' o)
    (hC : C w.cells.length → C' w.cells.length) {op : Op} (h : op.inSets w S C) : op.inSets w S' C' := by
  cases op with
  | new cls kw => exact h
  | set o p a => exact ⟨hS o h.1, Arg.inSets_mono hS hC h.2⟩
  | mutate o p n => exact hS o h
  | pedit o p e => exact hS o h
  | setAttr o name a => exact ⟨hS o h.1, Arg.inSets_mono hS hC h.2⟩
  | mutAttr o name n => exact hS o h
  | watch o p t cb => exact ⟨hS o h.1, hS t h.2⟩
  | selAdd o p n => exact hS o h
  | watchPartial o p t cb => exact ⟨hS o h.1, hS t h.2⟩
  | watchSlot o p t cb => exact ⟨hS o h.1, hS t h.2⟩
  | update o kvs => exact ⟨hS o h.1, kvsIn_mono hS h.2⟩

/-- an operation of the sets `S`/`C` never is a construction, and names existing objects when `S` does -/
theorem Op.inWorld_of_inSets {w : World} {S C : Nat → Prop} {op : Op} (hS : ∀ o, S o → o < w.objs.length)
    (h : op.inSets w S C) : op.inWorld w := by
  have := Op.inSets_mono (C' := fun _ => True) hS (fun _ => trivial) h
  cases op with
  | new cls kw => exact absurd h (by simp [Op.inSets])
  | _ => exact this

/-- **one step on the original's side** (its object and arguments are original objects and lists that are not the
copy's): the copy's objects and the copy's lists are exactly as before, every method it invokes belongs to an
original object, and the two sides stay separated -/
theorem Sep.step_orig {N : Nat} {w w1 : World} {Hi : Nat → Prop} {op : Op} (s : Sep N w Hi)
    (hop : op.inSets w (fun o => o < N) (fun c => ¬ Hi c)) (h : step w op = .ok w1) :
    Sep N w1 Hi ∧ (∀ i : Nat, N ≤ i → w1.objs[i]? = w.objs[i]?) ∧ (∀ c : Nat, Hi c → w1.cells[c]? = w.cells[c]?) ∧
    ∃ added, w1.log = w.log ++ added ∧ ∀ e ∈ added, e.1 < N := by
  have hf : Fresh w (fun c => ¬ Hi c) := fun n hn hh => by have := s.bnd n hh; omega
  have g := step_good s.lo hf hop h
  have hobj : ∀ i : Nat, N ≤ i → w1.objs[i]? = w.objs[i]? := fun i hi => g.loc.objsFrame i (by simp; exact hi)
  have hin : op.inWorld w := Op.inWorld_of_inSets (fun o (ho : o < N) => Nat.lt_of_lt_of_le ho s.objs) hop
  refine ⟨⟨step_inv s.inv hin h, Nat.le_trans s.objs g.loc.objsLen, g.closed, ?_,
    fun c hc => Nat.lt_of_lt_of_le (s.bnd c hc) g.loc.cellsLen⟩, hobj,
    fun c hc => g.loc.cellsFrame c (by simp; exact hc), g.loc.logPrefix⟩
  intro i ob hi hob
  rw [hobj i hi] at hob
  exact s.hi i ob hi hob

/-- **one step on the copy's side**: the original objects and every existing list that is not the copy's are exactly
as before, every method it invokes belongs to an object of the copy, and the two sides stay separated — the lists the
step created now belong to the copy -/
theorem Sep.step_copy {N : Nat} {w w1 : World} {Hi : Nat → Prop} {op : Op} (s : Sep N w Hi)
    (hop : op.inSets w (fun o => N ≤ o ∧ o < w.objs.length) (fun c => Hi c ∨ w.cells.length ≤ c))
    (h : step w op = .ok w1) :
    Sep N w1 (fun c => (Hi c ∨ w.cells.length ≤ c) ∧ c < w1.cells.length) ∧
    (∀ i : Nat, i < N → w1.objs[i]? = w.objs[i]?) ∧
    (∀ c : Nat, c < w.cells.length → ¬ Hi c → w1.cells[c]? = w.cells[c]?) ∧
    ∃ added, w1.log = w.log ++ added ∧ ∀ e ∈ added, N ≤ e.1 := by
  have hop' : op.inSets w (fun o => N ≤ o) (fun c => Hi c ∨ w.cells.length ≤ c) :=
    Op.inSets_mono (fun o ho => ho.1) (fun h => h) hop
  have g := step_good (s.hi.mono (fun c hc => Or.inl hc)) (fun n hn => Or.inr hn) hop' h
  have hobj : ∀ i : Nat, i < N → w1.objs[i]? = w.objs[i]? := fun i hi => g.loc.objsFrame i (by simp; exact hi)
  have hin : op.inWorld w := Op.inWorld_of_inSets (fun o ho => ho.2) hop
  have hi1 := step_inv s.inv hin h
  refine ⟨⟨hi1, Nat.le_trans s.objs g.loc.objsLen, ?_, g.closed.inter_bounded hi1.cellsIn, fun c hc => hc.2⟩, hobj,
    fun c hc hn => g.loc.cellsFrame c (by intro hh; rcases hh with h1 | h1; exact hn h1; omega), g.loc.logPrefix⟩
  intro i ob hi hob
  rw [hobj i hi] at hob
  refine Obj.refsIn_mono (fun _ h => h) ?_ ((s.lo.inter_bounded s.inv.cellsIn) i ob hi hob)
  intro c hc hh
  rcases hh.1 with h1 | h1
  · exact hc.1 h1
  · omega

/-- a history after the copy in which operations on the original (`false`) and on the copy (`true`) alternate at
will; the third and fifth argument say which lists belong to the copy before and after -/
inductive Interleaved (N : Nat) : World → (Nat → Prop) → List (Bool × Op) → World → (Nat → Prop) → Prop
  | done (w : World) (Hi : Nat → Prop) : Interleaved N w Hi [] w Hi
  | orig {w w1 w2 : World} {Hi Hi2 : Nat → Prop} {op : Op} {rest : List (Bool × Op)} :
      op.inSets w (fun o => o < N) (fun c => ¬ Hi c) → step w op = .ok w1 →
      Interleaved N w1 Hi rest w2 Hi2 → Interleaved N w Hi ((false, op) :: rest) w2 Hi2
  | copy {w w1 w2 : World} {Hi Hi2 : Nat → Prop} {op : Op} {rest : List (Bool × Op)} :
      op.inSets w (fun o => N ≤ o ∧ o < w.objs.length) (fun c => Hi c ∨ w.cells.length ≤ c) → step w op = .ok w1 →
      Interleaved N w1 (fun c => (Hi c ∨ w.cells.length ≤ c) ∧ c < w1.cells.length) rest w2 Hi2 →
      Interleaved N w Hi ((true, op) :: rest) w2 Hi2

/-- **the separation survives every interleaving** — so `Sep.step_orig` / `Sep.step_copy` apply at every point of it -/
theorem Sep.interleaved {N : Nat} {w w2 : World} {Hi Hi2 : Nat → Prop} {tops : List (Bool × Op)}
    (s : Sep N w Hi) (h : Interleaved N w Hi tops w2 Hi2) : Sep N w2 Hi2 := by
  induction h with
  | done w Hi => exact s
  | orig hop hst _ ih => exact ih (s.step_orig hop hst).1
  | copy hop hst _ ih => exact ih (s.step_copy hop hst).1

/-- the methods an interleaved history invokes, per side, and the objects it leaves alone: operations on the original
invoke methods of original objects only, operations on the copy methods of the copy only (the log grows by the entries
of each operation in turn) -/
theorem Sep.interleaved_log {N : Nat} {w w2 : World} {Hi Hi2 : Nat → Prop} {tops : List (Bool × Op)}
    (s : Sep N w Hi) (h : Interleaved N w Hi tops w2 Hi2) :
    ∃ added : List (Bool × (Nat × String)), w2.log = w.log ++ added.map (·.2) ∧
      (∀ e ∈ added, if e.1 then N ≤ e.2.1 else e.2.1 < N) ∧
      ((∀ t ∈ tops, t.1 = true) → ∀ i : Nat, i < N → w2.objs[i]? = w.objs[i]?) ∧
      ((∀ t ∈ tops, t.1 = false) → ∀ i : Nat, N ≤ i → w2.objs[i]? = w.objs[i]?) := by
  induction h with
  | done w Hi => exact ⟨[], by simp, by simp, fun _ _ _ => rfl, fun _ _ _ => rfl⟩
  | orig hop hst _ ih =>
    obtain ⟨s1, ho, _, added1, hl1, ha1⟩ := s.step_orig hop hst
    obtain ⟨added2, hl2, ha2, hc2, ho2⟩ := ih s1
    refine ⟨added1.map (fun e => (false, e)) ++ added2, ?_, ?_, ?_, ?_⟩
    · rw [hl2, hl1]; simp [List.map_append, Function.comp_def]
    · intro e he
      rcases List.mem_append.1 he with he | he
      · simp only [List.mem_map] at he
        obtain ⟨e0, he0, rfl⟩ := he
        simpa using ha1 e0 he0
      · exact ha2 e he
    · intro hall; have := hall _ List.mem_cons_self; simp at this
    · intro hall i hi
      rw [ho2 (fun t ht => hall t (by simp [ht])) i hi, ho i hi]
  | copy hop hst _ ih =>
    obtain ⟨s1, ho, _, added1, hl1, ha1⟩ := s.step_copy hop hst
    obtain ⟨added2, hl2, ha2, hc2, ho2⟩ := ih s1
    refine ⟨added1.map (fun e => (true, e)) ++ added2, ?_, ?_, ?_, ?_⟩
    · rw [hl2, hl1]; simp [List.map_append, Function.comp_def]
    · intro e he
      rcases List.mem_append.1 he with he | he
      · simp only [List.mem_map] at he
        obtain ⟨e0, he0, rfl⟩ := he
        simpa using ha1 e0 he0
      · exact ha2 e he
    · intro hall i hi
      rw [hc2 (fun t ht => hall t (by simp [ht])) i hi, ho i hi]
    · intro hall; have := hall _ List.mem_cons_self; simp at this

end ParamVerif.Copy
