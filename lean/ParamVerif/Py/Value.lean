/-
Shared Python value universe for the validation models (C01).

Small on purpose: the values the harness assigns to parameters, with exactly
the structure the validators look at.

* numbers: Python compares `bool / int / float / Fraction / Decimal` exactly, so
  a number is a kind tag plus an extended rational (`nan`, `-inf`, exact
  rational, `+inf`); every ordering test involving `nan` is false.
  `bool ⊂ int` (isinstance), `Decimal('nan')` is outside the universe (its
  ordering raises `decimal.InvalidOperation`), so is `complex`.
* `date` = proleptic ordinal day, `datetime` = microseconds since ordinal day 0
  (naive datetimes only); `datetime ⊂ date` for isinstance, but ordering /
  equality between the two kinds is a `TypeError` / `False` as in CPython.
* callables: plain functions (with the `inspect.isgeneratorfunction` bit) and
  classes; instances of user classes are not callable.
* classes are numbers; the built-in ones have fixed ids, user classes get ids
  ≥ 100 and their MRO is data supplied with the case (`Ctx.mro`).
-/
namespace ParamVerif.Py

/-- extended rationals: what a Python real number is worth in a comparison -/
inductive ExtRat where
  | nan | ninf | fin (q : Rat) | pinf
  deriving DecidableEq, Repr

namespace ExtRat

/-- Python `a <= b` on numbers (false as soon as a NaN is involved) -/
def le : ExtRat → ExtRat → Bool
  | nan, _ => false
  | _, nan => false
  | ninf, _ => true
  | _, pinf => true
  | fin a, fin b => decide (a ≤ b)
  | _, _ => false

/-- Python `a < b` on numbers -/
def lt : ExtRat → ExtRat → Bool
  | nan, _ => false
  | _, nan => false
  | ninf, ninf => false
  | ninf, _ => true
  | pinf, pinf => false
  | _, pinf => true
  | fin a, fin b => decide (a < b)
  | _, _ => false

/-- Python `a == b` on numbers -/
def eq : ExtRat → ExtRat → Bool
  | nan, _ => false
  | _, nan => false
  | a, b => a == b

def isNan : ExtRat → Bool
  | nan => true
  | _ => false

/-- Python `-x` -/
def neg : ExtRat → ExtRat
  | nan => nan | ninf => pinf | pinf => ninf | fin q => fin (-q)

/-- `x * 2` on a Python float: exact unless it overflows to an infinity -/
def doubleFloat : ExtRat → ExtRat
  | fin q => if (2 : Rat) ^ 1024 ≤ 2 * q then pinf else if 2 * q ≤ -((2 : Rat) ^ 1024) then ninf else fin (2 * q)
  | e => e

/-- `x * 2` on a Python int -/
def doubleExact : ExtRat → ExtRat
  | fin q => fin (2 * q)
  | e => e

end ExtRat

inductive NumKind where
  | bool | int | float | frac | dec
  deriving DecidableEq, Repr

/-- Python values -/
inductive PyVal where
  | none
  | num (k : NumKind) (x : ExtRat)
  | str (s : String)
  | bytes (s : String)                 -- latin-1 image of the byte string
  | list (xs : List PyVal)
  | tuple (xs : List PyVal)
  | dict (ks : List PyVal) (vs : List PyVal)   -- keys and values, insertion order
  | date (day : Int)
  | datetime (us : Int)
  | func (id : Nat) (gen : Bool)       -- gen = inspect.isgeneratorfunction
  | cls (id : Nat)
  | obj (cid : Nat) (id : Nat)         -- instance `id` of user class `cid`
  deriving Repr

namespace PyVal

def isNone : PyVal → Bool
  | none => true
  | _ => false

/-- `param._utils._is_number` on this universe (`numbers.Number` instances) -/
def isNumber : PyVal → Bool
  | num _ _ => true
  | _ => false

/-- `isinstance(v, int)` (bool included) -/
def isInt : PyVal → Bool
  | num .bool _ => true
  | num .int _ => true
  | _ => false

def isBool : PyVal → Bool
  | num .bool _ => true
  | _ => false

def isStr : PyVal → Bool
  | str _ => true
  | _ => false

def isBytes : PyVal → Bool
  | bytes _ => true
  | _ => false

def isList : PyVal → Bool
  | list _ => true
  | _ => false

def isTuple : PyVal → Bool
  | tuple _ => true
  | _ => false

/-- `isinstance(v, (datetime.datetime, datetime.date))` -/
def isDt : PyVal → Bool
  | date _ => true
  | datetime _ => true
  | _ => false

/-- `isinstance(v, datetime.datetime)` -/
def isDatetime : PyVal → Bool
  | datetime _ => true
  | _ => false

/-- `callable(v)`: functions and classes -/
def isCallable : PyVal → Bool
  | func _ _ => true
  | cls _ => true
  | _ => false

/-- `inspect.isgeneratorfunction(v)` -/
def isGenFn : PyVal → Bool
  | func _ g => g
  | _ => false

def isNanNum : PyVal → Bool
  | num _ x => x.isNan
  | _ => false

/-- the worth of a number in comparisons -/
def ext? : PyVal → Option ExtRat
  | num _ x => some x
  | _ => Option.none

/-- `param._utils._to_datetime`: a plain date becomes midnight of that day -/
def toDatetime : PyVal → PyVal
  | date d => datetime (d * 86400000000)
  | v => v

/-- Python `a <= b`; `none` = the comparison raises `TypeError`.  All five kinds of
number are mutually comparable (checked on this CPython: `Decimal('0.5') <= Fraction(1)` and
`Fraction(1, 2) <= Decimal(1)` are `True`; only a float NaN against a `Decimal` raises, and
that pair is outside the value domain).  Orderings
between strings / containers are not modelled (they are never reached: every
validator checks the type of the value before it compares). -/
def le? : PyVal → PyVal → Option Bool
  | num _ a, num _ b => some (a.le b)
  | date a, date b => some (decide (a ≤ b))
  | datetime a, datetime b => some (decide (a ≤ b))
  | _, _ => Option.none

/-- Python `a < b` -/
def lt? : PyVal → PyVal → Option Bool
  | num _ a, num _ b => some (a.lt b)
  | date a, date b => some (decide (a < b))
  | datetime a, datetime b => some (decide (a < b))
  | _, _ => Option.none

/-- Python `a >= b` is `b <= a` on this universe (trusted CPython fact) -/
def ge? (a b : PyVal) : Option Bool := le? b a
/-- Python `a > b` is `b < a` on this universe -/
def gt? (a b : PyVal) : Option Bool := lt? b a

mutual
/-- Python `a == b` (what `in` uses after the identity test).  Numbers compare by
worth across kinds; a date never equals a datetime; functions, classes, instances compare by identity.
Dictionaries are compared in insertion order (they never occur among the
objects of a Selector in the explored domain). -/
def pyEq : PyVal → PyVal → Bool
  | none, none => true
  | num _ a, num _ b => a.eq b
  | str a, str b => a == b
  | bytes a, bytes b => a == b
  | list a, list b => pyEqList a b
  | tuple a, tuple b => pyEqList a b
  | dict ka va, dict kb vb => pyEqList ka kb && pyEqList va vb
  | date a, date b => a == b
  | datetime a, datetime b => a == b
  | func a _, func b _ => a == b
  | cls a, cls b => a == b
  | obj _ a, obj _ b => a == b
  | _, _ => false
def pyEqList : List PyVal → List PyVal → Bool
  | [], [] => true
  | a :: as, b :: bs => pyEq a b && pyEqList as bs
  | _, _ => false
end

/-- `v in xs` for a Python list `xs` -/
def pyIn (v : PyVal) (xs : List PyVal) : Bool := xs.any (fun o => pyEq o v)

/-- iteration `for n in v` (`none` = not iterable: `TypeError`).  Strings and
byte strings iterate over one-character strings / integers. -/
def iter? : PyVal → Option (List PyVal)
  | list xs => some xs
  | tuple xs => some xs
  | dict ks _ => some ks
  | str s => some (s.toList.map fun c => str (String.singleton c))
  | bytes s => some (s.toList.map fun c => num .int (.fin (c.toNat : Int)))
  | _ => Option.none

/-! ### classes -/

/-- ids of the built-in classes -/
def cObject : Nat := 0
def cInt : Nat := 1
def cBool : Nat := 2
def cFloat : Nat := 3
def cStr : Nat := 4
def cBytes : Nat := 5
def cList : Nat := 6
def cTuple : Nat := 7
def cDict : Nat := 8
def cNoneType : Nat := 9
def cDate : Nat := 10
def cDatetime : Nat := 11
def cFunction : Nat := 12
def cType : Nat := 13
def cFraction : Nat := 14
def cDecimal : Nat := 15

/-- `type(v)` -/
def typeOf : PyVal → Nat
  | none => cNoneType
  | num .bool _ => cBool
  | num .int _ => cInt
  | num .float _ => cFloat
  | num .frac _ => cFraction
  | num .dec _ => cDecimal
  | str _ => cStr
  | bytes _ => cBytes
  | list _ => cList
  | tuple _ => cTuple
  | dict _ _ => cDict
  | date _ => cDate
  | datetime _ => cDatetime
  | func _ _ => cFunction
  | cls _ => cType
  | obj c _ => c

end PyVal

/-- the class table: MRO (as class ids, the class itself first) of every class -/
def builtinMro (c : Nat) : List Nat :=
  if c = PyVal.cBool then [PyVal.cBool, PyVal.cInt, PyVal.cObject]
  else if c = PyVal.cDatetime then [PyVal.cDatetime, PyVal.cDate, PyVal.cObject]
  else if c = PyVal.cObject then [PyVal.cObject]
  else [c, PyVal.cObject]

def lookupMro (tbl : List (Nat × List Nat)) (c : Nat) : List Nat :=
  match tbl.find? (fun p => p.1 == c) with
  | some p => p.2
  | none => builtinMro c

/-- `issubclass(c, k)` for class ids -/
def subclassOf (tbl : List (Nat × List Nat)) (c k : Nat) : Bool := (lookupMro tbl c).contains k

/-- `isinstance(v, k)` -/
def instanceOf (tbl : List (Nat × List Nat)) (v : PyVal) (k : Nat) : Bool := subclassOf tbl v.typeOf k

end ParamVerif.Py
