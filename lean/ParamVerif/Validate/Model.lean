/-
C01 model: the validators of the built-in Parameter types, as written.

Every function mirrors one method of param/parameters.py (or parameterized.py)
check by check, in source order, so that the *kind* of the exception agrees
with the code (ValueError vs TypeError, and the one KeyError the code can leak).
`construct` mirrors what each constructor makes of its arguments (default,
`allow_None` rule of `Parameter._set_allow_None`, Tuple `length`, Selector auto
default / `check_on_set`, Magnitude bounds) and the constructor-time
`self._validate(self.default)`.

`setter` is the part of `Parameter.__set__` between the reference handling and
the store: the deprecated `Number.set_hook` (a small family of hooks as data),
`_validate`, then the constant / read-only guard.

Not modelled: Number's `softbounds` (never validated by the code), `compute_default_fn`;
dict-declared Selector objects are their list of values.
-/
import ParamVerif.Py.Value

namespace ParamVerif.Validate
open ParamVerif.Py

inductive ErrKind where
  | valueError | typeError | other (name : String)
  deriving DecidableEq, Repr

inductive PType where
  | string | bytes | number | integer | magnitude | date | calendarDate | boolean | event
  | tuple | numericTuple | xy | range | dateRange | calendarDateRange | callable | action
  | list | hookList | selector | listSelector | classSelector | dict | color
  deriving DecidableEq, Repr

abbrev Bounds := Option (Option PyVal × Option PyVal)

/-- `Number.set_hook(obj, val)`: a small family of hooks, as data.  `double` and `neg` act on
`bool` / `int` / `float` (`type(v) in (bool, int, float)`) and leave everything else alone. -/
inductive Hook where
  | identity                -- `_identity_hook`, or any `lambda obj, v: v`
  | double                  -- `v * 2`
  | neg                     -- `-v`
  | const (k : PyVal)       -- returns `k` whatever it is given

/-- per-case environment: the class table of the user classes, and the regex
oracle bit `re.match(regex, value) is not None` for the value at hand
(`re.match` is not modelled; the harness computes the bit with `re` itself). -/
structure Ctx where
  mro : List (Nat × List Nat) := []
  rx : Bool := false

/-- the constraint slots of a constructed Parameter -/
structure Cfg where
  ptype : PType
  allowNone : Bool := false
  bounds : Bounds := none                  -- Number family, Range family
  incl : Bool × Bool := (true, true)
  softbounds : Bounds := none              -- Range family (type-checked only)
  step : Option PyVal := none              -- Number family (type-checked), Range family
  length : Nat := 0                        -- Tuple family
  regex : Bool := false                    -- String / Bytes: a regex is declared
  lenBounds : Option (Option Int × Option Int) := none   -- List.bounds
  itemType : Option (List Nat) := none     -- List.item_type (class or tuple of classes)
  isInstance : Bool := true                -- List / ClassSelector
  objects : List PyVal := []               -- Selector / ListSelector
  checkOnSet : Bool := true
  classes : List Nat := []                 -- ClassSelector.class_
  allowNamed : Bool := true                -- Color
  hook : Hook := .identity                 -- Number family: `set_hook`
  constant : Bool := false
  readonly : Bool := false

abbrev R := Except ErrKind Unit
def ok : R := .ok ()
def valueErr : R := .error .valueError
def typeErr : R := .error .typeError

/-- statement sequencing: the second check runs only if the first did not raise -/
def seq (a b : R) : R :=
  match a with
  | .ok _ => b
  | .error e => .error e
infixr:60 " ;; " => seq

/-- `if not (a OP b): raise ValueError(...)`; the comparison itself may raise TypeError -/
def require (r : Option Bool) : R :=
  match r with
  | none => typeErr
  | some true => ok
  | some false => valueErr

/-- `len(v)`; `none` = `TypeError` -/
def len? : PyVal → Option Nat
  | .str s => some s.toList.length
  | .bytes s => some s.toList.length
  | .list xs => some xs.length
  | .tuple xs => some xs.length
  | .dict ks _ => some ks.length
  | _ => none

/-! ### String, Bytes  -- src: param/parameterized.py String; param/parameters.py Bytes -/

-- src: String._validate_value
def stringValue (c : Cfg) (v : PyVal) : R :=
  if c.allowNone && v.isNone then ok
  else if !v.isStr then valueErr else ok

-- src: Bytes._validate_value
def bytesValue (c : Cfg) (v : PyVal) : R :=
  if c.allowNone && v.isNone then ok
  else if !v.isBytes then valueErr else ok

-- src: String._validate_regex / Bytes._validate_regex
def regexCheck (c : Cfg) (x : Ctx) (v : PyVal) : R :=
  if v.isNone && c.allowNone then ok
  else if c.regex && !x.rx then valueErr else ok

/-! ### Number family  -- src: param/parameters.py Number, Integer, Date, CalendarDate -/

-- src: Number._validate_value
def numberValue (c : Cfg) (v : PyVal) : R :=
  if (c.allowNone && v.isNone) || (v.isCallable && !v.isGenFn) then ok
  else if !v.isNumber then valueErr else ok

-- src: Integer._validate_value
def integerValue (c : Cfg) (v : PyVal) : R :=
  if v.isCallable && !v.isGenFn then ok
  else if c.allowNone && v.isNone then ok
  else if !v.isInt then valueErr else ok

-- src: Date._validate_value
def dateValue (c : Cfg) (v : PyVal) : R :=
  if c.allowNone && v.isNone then ok
  else if !v.isDt && !(c.allowNone && v.isNone) then valueErr else ok

-- src: CalendarDate._validate_value
def calendarDateValue (c : Cfg) (v : PyVal) : R :=
  if c.allowNone && v.isNone then ok
  else if (!v.isDt || v.isDatetime) && !(c.allowNone && v.isNone) then valueErr else ok

-- src: Number._validate_step / Integer._validate_step / Date._validate_step / CalendarDate._validate_step
-- (`step` must be None or of the family's type: a number, an `int`, a date/datetime)
def stepTypeOk (t : PType) (s : PyVal) : Bool :=
  match t with
  | .integer => s.isInt
  | .date => s.isDt
  | .calendarDate => s.isDt                    -- isinstance(step, dt.date): datetimes pass
  | _ => s.isNumber

def numberStep (c : Cfg) : R :=
  match c.step with
  | none => ok
  | some s => if stepTypeOk c.ptype s then ok else valueErr

-- src: Number._validate_bounds   (upper bound first, `not val <= vmax` forms)
def numberBounds (allowNone : Bool) (bounds : Bounds) (incl : Bool × Bool) (v : PyVal) : R :=
  match bounds with
  | none => ok
  | some (vmin, vmax) =>
    if (v.isNone && allowNone) || v.isCallable then ok else
    (match vmax with
      | none => ok
      | some hi => if incl.2 then require (PyVal.le? v hi) else require (PyVal.lt? v hi)) ;;
    (match vmin with
      | none => ok
      | some lo => if incl.1 then require (PyVal.ge? v lo) else require (PyVal.gt? v lo))

def mapBounds (f : PyVal → PyVal) : Bounds → Bounds
  | none => none
  | some (lo, hi) => some (lo.map f, hi.map f)

-- src: Date._validate_bounds   (value and bounds through `_to_datetime`)
def dateBounds (c : Cfg) (v : PyVal) : R :=
  numberBounds c.allowNone (mapBounds PyVal.toDatetime c.bounds) c.incl v.toDatetime

/-! ### Boolean, Callable -/

-- src: Boolean._validate_value
def booleanValue (c : Cfg) (v : PyVal) : R :=
  if c.allowNone then
    (if !v.isBool && !v.isNone then valueErr else ok)
  else if !v.isBool then valueErr else ok

-- src: Callable._validate_value
def callableValue (c : Cfg) (v : PyVal) : R :=
  if (c.allowNone && v.isNone) || v.isCallable then ok else valueErr

/-! ### Tuple family  -- src: Tuple, NumericTuple, Range, DateRange, CalendarDateRange -/

-- src: Tuple._validate_value
def tupleValue (c : Cfg) (v : PyVal) : R :=
  if v.isNone && c.allowNone then ok
  else if !v.isTuple then valueErr else ok

-- src: Tuple._validate_length
def tupleLength (c : Cfg) (v : PyVal) : R :=
  if v.isNone && c.allowNone then ok
  else match len? v with
    | none => typeErr
    | some n => if n != c.length then valueErr else ok

-- src: NumericTuple._validate_value
def numericTupleValue (c : Cfg) (v : PyVal) : R :=
  tupleValue c v ;;
  (if c.allowNone && v.isNone then ok
   else match v.iter? with
     | none => typeErr
     | some xs => if xs.all PyVal.isNumber then ok else valueErr)

/-- `start, end = val` succeeded -/
def unpack2 : List PyVal → Option (PyVal × PyVal)
  | [a, b] => some (a, b)
  | _ => none

-- src: DateRange._validate_value
def dateRangeValue (c : Cfg) (v : PyVal) : R :=
  if c.allowNone && v.isNone then ok
  else match v with
    | .tuple xs =>
      if !xs.all PyVal.isDt then valueErr
      else match unpack2 xs with
        | none => valueErr                       -- unpacking raises ValueError
        | some (s, e) => require (PyVal.ge? e s)
    | _ => valueErr

-- src: CalendarDateRange._validate_value   (plain dates only: a datetime item is refused)
def calendarDateRangeValue (c : Cfg) (v : PyVal) : R :=
  if c.allowNone && v.isNone then ok
  else match v with
    | .tuple xs =>
      if !xs.all (fun n => n.isDt && !n.isDatetime) then valueErr
      else match unpack2 xs with
        | none => valueErr
        | some (s, e) => require (PyVal.ge? e s)
    | _ => valueErr

/-- which bound values a Range flavour accepts (`_validate_bound_type`) -/
def boundTypeOk (t : PType) (b : PyVal) : Bool :=
  match t with
  | .dateRange => b.isDt
  | .calendarDateRange => b.isDt               -- isinstance(value, dt.date)
  | _ => b.isNumber

def boundTypes (t : PType) (bounds : Bounds) : R :=
  match bounds with
  | none => ok
  | some (lo, hi) =>
    (match lo with | none => ok | some l => if boundTypeOk t l then ok else valueErr) ;;
    (match hi with | none => ok | some h => if boundTypeOk t h then ok else valueErr)

/-- `too_low` of Range._validate_bounds; `none` = the comparison raised -/
def tooLow (vmin : Option PyVal) (incmin : Bool) (v : PyVal) : Option Bool :=
  match vmin with
  | none => some false
  | some lo => (if incmin then PyVal.ge? v lo else PyVal.gt? v lo).map (!·)

def tooHigh (vmax : Option PyVal) (incmax : Bool) (v : PyVal) : Option Bool :=
  match vmax with
  | none => some false
  | some hi => (if incmax then PyVal.le? v hi else PyVal.lt? v hi).map (!·)

def rangeElems (vmin vmax : Option PyVal) (incl : Bool × Bool) : List PyVal → R
  | [] => ok
  | v :: rest =>
    match tooLow vmin incl.1 v, tooHigh vmax incl.2 v with
    | none, _ => typeErr
    | some _, none => typeErr
    | some l, some h => if l || h then valueErr else rangeElems vmin vmax incl rest

-- src: Range._validate_bounds(kind='bound')  (`zip(['lower','upper'], val)`: first two items)
def rangeBounds (c : Cfg) (bounds : Bounds) (v : PyVal) : R :=
  boundTypes c.ptype bounds ;;
  (match bounds with
   | none => ok
   | some (vmin, vmax) =>
     if v.isNone && c.allowNone then ok
     else match v.iter? with
       | none => typeErr
       | some xs => rangeElems vmin vmax c.incl (xs.take 2))

-- src: DateRange._validate_bounds
def dateRangeBounds (c : Cfg) (v : PyVal) : R :=
  let v' := match v with
    | .tuple xs => PyVal.tuple (xs.map PyVal.toDatetime)    -- tuple(map(_to_datetime, val))
    | w => w                                                 -- None stays None
  rangeBounds c (mapBounds PyVal.toDatetime c.bounds) v'

-- src: Range._validate_step
def rangeStep (c : Cfg) : R :=
  match c.step with
  | none => ok
  | some s =>
    match s.ext? with
    | none => valueErr
    | some q => if q.eq (.fin 0) then valueErr else ok

-- src: Range._validate_order
def rangeOrder (c : Cfg) (v : PyVal) : R :=
  if v.isNone && c.allowNone then ok
  else match v with
    | .dict _ _ => .error (.other "KeyError")    -- `val[0]` on a mapping keyed by dates
    | _ =>
      match v.iter? with
      | none => typeErr
      | some xs =>
        -- `val[0] is None or val[1] is None` (IndexError on a sequence shorter than that)
        match xs with
        | [] => .error (.other "IndexError")
        | [a] => if a.isNone then ok else .error (.other "IndexError")
        | a :: b :: _ =>
          if a.isNone || b.isNone then ok
          else match unpack2 xs with
            | none => valueErr
            | some (s, e) =>
              match c.step with
              | none => ok
              | some st =>
                match st.ext? with
                | none => typeErr
                | some q =>
                  if ExtRat.lt (.fin 0) q then require (PyVal.le? s e)
                  else if ExtRat.lt q (.fin 0) then require (PyVal.ge? s e)
                  else ok

/-! ### List, HookList -/

-- src: List._validate_value
def listValue (c : Cfg) (v : PyVal) : R :=
  if c.allowNone && v.isNone then ok
  else if !v.isList then valueErr else ok

-- src: List._validate_bounds
def listBounds (c : Cfg) (v : PyVal) : R :=
  match c.lenBounds with
  | none => ok
  | some (mn, mx) =>
    if v.isNone && c.allowNone then ok
    else match len? v with
      | none => typeErr
      | some n =>
        let l : Int := n
        match mn, mx with
        | some a, some b => if !(decide (a ≤ l) && decide (l ≤ b)) then valueErr else ok
        | some a, none => if !decide (a ≤ l) then valueErr else ok
        | none, some b => if !decide (l ≤ b) then valueErr else ok
        | none, none => ok

/-- one item of List._validate_item_type is acceptable -/
def itemOk (x : Ctx) (isInstance : Bool) (ks : List Nat) (v : PyVal) : Bool :=
  if isInstance then ks.any (instanceOf x.mro v)
  else match v with
    | .cls id => ks.any (subclassOf x.mro id)    -- `type(v) is type and issubclass(v, item_type)`
    | _ => false

-- src: List._validate_item_type   (raises TypeError)
def listItemType (c : Cfg) (x : Ctx) (v : PyVal) : R :=
  match c.itemType with
  | none => ok
  | some ks =>
    if c.allowNone && v.isNone then ok
    else match v.iter? with
      | none => typeErr
      | some xs => if xs.all (itemOk x c.isInstance ks) then ok else typeErr

-- src: HookList._validate_value
def hookListValue (c : Cfg) (v : PyVal) : R :=
  listValue c v ;;
  (if c.allowNone && v.isNone then ok
   else match v.iter? with
     | none => typeErr
     | some xs => if xs.all PyVal.isCallable then ok else valueErr)

/-! ### Selector, ListSelector, ClassSelector -/

/-- the test of Selector._validate_value -/
def selectorRejects (c : Cfg) (v : PyVal) : Bool :=
  c.checkOnSet && !(c.allowNone && v.isNone) && !(PyVal.pyIn v c.objects)

-- src: Selector._validate_value
def selectorValue (c : Cfg) (v : PyVal) : R :=
  if selectorRejects c v then valueErr else ok

-- src: Selector._validate   (check_on_set False: the value is appended to the objects)
def selectorValidate (c : Cfg) (v : PyVal) : R :=
  if !c.checkOnSet then ok else selectorValue c v

/-- one item of ListSelector._validate_value: a `None` item must be one of the objects
(`allow_None` is about the whole value), then the Selector test -/
def listItemRejects (c : Cfg) (o : PyVal) : Bool :=
  (c.checkOnSet && o.isNone && !(PyVal.pyIn o c.objects)) || selectorRejects c o

-- src: ListSelector._validate / _validate_type / _validate_value
def listSelectorValidate (c : Cfg) (v : PyVal) : R :=
  if v.isNone && c.allowNone then ok
  else match v with
    | .list xs =>
      if c.checkOnSet then
        (if xs.all (fun o => !listItemRejects c o) then ok else valueErr)
      else ok
    | _ => valueErr

-- src: ClassSelector._validate_class_
def classSelectorValidate (c : Cfg) (x : Ctx) (v : PyVal) : R :=
  if v.isNone && c.allowNone then ok
  else if c.isInstance then
    (if c.classes.any (instanceOf x.mro v) then ok else valueErr)
  else match v with
    | .cls id => if c.classes.any (subclassOf x.mro id) then ok else valueErr
    | _ => typeErr                               -- issubclass() arg 1 must be a class

/-! ### Color -/

def isHexDigit (ch : Char) : Bool :=
  ch.isDigit || ('a' ≤ ch && ch ≤ 'f') || ('A' ≤ ch && ch ≤ 'F')

/-- `#?` then three or six hex digits -/
def hexBody (cs : List Char) : Bool :=
  let body := match cs with
    | '#' :: rest => rest
    | _ => cs
  (body.length == 6 || body.length == 3) && body.all isHexDigit

/-- `re.match(r'^#?(([0-9a-fA-F]{2}){3}|([0-9a-fA-F]){3})\Z', val)` -/
def hexMatch (s : String) : Bool := hexBody s.toList

-- src: Color._named_colors   (CSS3 extended colour keywords)
def namedColors : List String := [
  "aliceblue", "antiquewhite", "aqua", "aquamarine", "azure", "beige", "bisque", "black",
  "blanchedalmond", "blue", "blueviolet", "brown", "burlywood", "cadetblue", "chartreuse",
  "chocolate", "coral", "cornflowerblue", "cornsilk", "crimson", "cyan", "darkblue", "darkcyan",
  "darkgoldenrod", "darkgray", "darkgrey", "darkgreen", "darkkhaki", "darkmagenta",
  "darkolivegreen", "darkorange", "darkorchid", "darkred", "darksalmon", "darkseagreen",
  "darkslateblue", "darkslategray", "darkslategrey", "darkturquoise", "darkviolet", "deeppink",
  "deepskyblue", "dimgray", "dimgrey", "dodgerblue", "firebrick", "floralwhite", "forestgreen",
  "fuchsia", "gainsboro", "ghostwhite", "gold", "goldenrod", "gray", "grey", "green",
  "greenyellow", "honeydew", "hotpink", "indianred", "indigo", "ivory", "khaki", "lavender",
  "lavenderblush", "lawngreen", "lemonchiffon", "lightblue", "lightcoral", "lightcyan",
  "lightgoldenrodyellow", "lightgray", "lightgrey", "lightgreen", "lightpink", "lightsalmon",
  "lightseagreen", "lightskyblue", "lightslategray", "lightslategrey", "lightsteelblue",
  "lightyellow", "lime", "limegreen", "linen", "magenta", "maroon", "mediumaquamarine",
  "mediumblue", "mediumorchid", "mediumpurple", "mediumseagreen", "mediumslateblue",
  "mediumspringgreen", "mediumturquoise", "mediumvioletred", "midnightblue", "mintcream",
  "mistyrose", "moccasin", "navajowhite", "navy", "oldlace", "olive", "olivedrab", "orange",
  "orangered", "orchid", "palegoldenrod", "palegreen", "paleturquoise", "palevioletred",
  "papayawhip", "peachpuff", "peru", "pink", "plum", "powderblue", "purple", "red", "rosybrown",
  "royalblue", "saddlebrown", "salmon", "sandybrown", "seagreen", "seashell", "sienna", "silver",
  "skyblue", "slateblue", "slategray", "slategrey", "snow", "springgreen", "steelblue", "tan",
  "teal", "thistle", "tomato", "turquoise", "violet", "wheat", "white", "whitesmoke", "yellow",
  "yellowgreen"]

/-- `val.lower()` on ASCII strings -/
def lowerAscii (s : String) : String := String.ofList (s.toList.map Char.toLower)

-- src: Color._validate_value
def colorValue (c : Cfg) (v : PyVal) : R :=
  if c.allowNone && v.isNone then ok
  else if !v.isStr then valueErr else ok

-- src: Color._validate_allow_named
def colorNamed (c : Cfg) (v : PyVal) : R :=
  if v.isNone && c.allowNone then ok
  else match v with
    | .str s =>
      if c.allowNamed then
        (if !hexMatch s && !namedColors.contains (lowerAscii s) then valueErr else ok)
      else if !hexMatch s then valueErr else ok
    | _ => typeErr

/-! ### `_validate` of every type -/

-- src: Range._validate_bounds(kind='softbound'): only the types of the soft bounds are checked
-- (DateRange converts them with `_to_datetime` first, which keeps date/datetime-ness)
def softBoundTypes (c : Cfg) : R := boundTypes c.ptype c.softbounds

-- src: Range._validate = Tuple._validate; bounds; softbounds; step; order
def rangeValidate (c : Cfg) (value : R) (bounds : R) (v : PyVal) : R :=
  value ;; tupleLength c v ;; bounds ;; softBoundTypes c ;; rangeStep c ;; rangeOrder c v

/-- `Parameter._validate(val)` of the parameter described by `c` -/
def validate (c : Cfg) (x : Ctx) (v : PyVal) : R :=
  match c.ptype with
  | .string => stringValue c v ;; regexCheck c x v
  | .bytes => bytesValue c v ;; regexCheck c x v
  | .number => numberValue c v ;; numberStep c ;; numberBounds c.allowNone c.bounds c.incl v
  | .magnitude => numberValue c v ;; numberStep c ;; numberBounds c.allowNone c.bounds c.incl v
  | .integer => integerValue c v ;; numberStep c ;; numberBounds c.allowNone c.bounds c.incl v
  | .date => dateValue c v ;; numberStep c ;; dateBounds c v
  | .calendarDate => calendarDateValue c v ;; numberStep c ;; numberBounds c.allowNone c.bounds c.incl v
  | .boolean => booleanValue c v
  | .event => booleanValue c v
  | .tuple => tupleValue c v ;; tupleLength c v
  | .numericTuple => numericTupleValue c v ;; tupleLength c v
  | .xy => numericTupleValue c v ;; tupleLength c v
  | .range => rangeValidate c (numericTupleValue c v) (rangeBounds c c.bounds v) v
  | .dateRange => rangeValidate c (dateRangeValue c v) (dateRangeBounds c v) v
  | .calendarDateRange => rangeValidate c (calendarDateRangeValue c v) (rangeBounds c c.bounds v) v
  | .callable => callableValue c v
  | .action => callableValue c v
  | .list => listValue c v ;; listBounds c v ;; listItemType c x v
  | .hookList => hookListValue c v ;; listBounds c v ;; listItemType c x v
  | .selector => selectorValidate c v
  | .listSelector => listSelectorValidate c v
  | .classSelector => classSelectorValidate c x v
  | .dict => classSelectorValidate c x v
  | .color => colorValue c v ;; colorNamed c v

/-! ### The setter  -- src: Parameter.__set__ (set_hook, validate, guard, store) -/

/-- `hook(obj, v)` -/
def applyHook (h : Hook) (v : PyVal) : PyVal :=
  match h with
  | .identity => v
  | .const k => k
  | .double =>
    (match v with
     | .num .bool x => .num .int x.doubleExact        -- True * 2 == 2, an int
     | .num .int x => .num .int x.doubleExact
     | .num .float x => .num .float x.doubleFloat
     | w => w)
  | .neg =>
    (match v with
     | .num .bool x => .num .int x.neg
     | .num .int x => .num .int x.neg
     | .num .float x => .num .float x.neg
     | w => w)

/-- `hasattr(self, 'set_hook')`: the Number family (Date and CalendarDate are Numbers) -/
def hasHook : PType → Bool
  | .number | .integer | .magnitude | .date | .calendarDate => true
  | _ => false

/-- the value `_validate` sees and the store receives: `val = self.set_hook(obj, val)` -/
def setterValue (c : Cfg) (v : PyVal) : PyVal :=
  if hasHook c.ptype then applyHook c.hook v else v

/-- where the setter is called from -/
inductive Situation where
  | classLevel                      -- `obj is None`
  | uninitialised                   -- during `__init__` (`_setup_params`)
  | initialised (same : Bool)       -- an initialised instance; `same` = the value reaching the guard (the hook's output) is the object already held
  deriving DecidableEq, Repr

-- src: Parameter.__set__, `if self.constant or self.readonly:` (after `_validate`)
def guard (c : Cfg) (s : Situation) : R :=
  if c.readonly then typeErr                    -- "Read-only parameter cannot be modified", even on the class
  else if c.constant then
    (match s with
     | .initialised false => typeErr            -- "Constant parameter cannot be modified"
     | _ => ok)                                 -- class level, during __init__, or the identical object
  else ok

/-! ### Assignment routes

What differs between the routes before `Parameter.__set__` is reached, where the
setter is called from, and where the value lands:
* `Cls(p=v)` -- `_setup_params` does `setattr` on the not yet initialised instance;
* `obj.p = v` and `obj.param.update(p=v)` (`_update` does `setattr` per key) reach an
  initialised instance; all three store in the instance's value dictionary;
* `Cls.p = v` and `Cls.param.update(p=v)` call the setter with `obj = None` and store
  in the Parameter's `default`;
* deserialisation first maps the JSON-decoded value through the type's
  `deserialize` classmethod, then goes through the constructor.
That the routes of the real library reach this one setter is observed by the
harness, not proved. -/

inductive Route where
  | ctorKw        -- `Cls(p=v)`
  | instAttr      -- `obj.p = v`
  | clsAttr       -- `Cls.p = v`
  | update        -- `obj.param.update(p=v)`
  | clsUpdate     -- `Cls.param.update(p=v)`
  | deser         -- `Cls(**Cls.param.deserialize_parameters(json))`: `v` is the JSON-decoded value
  deriving DecidableEq, Repr

/-- where a successful assignment puts the value -/
inductive Target where
  | instanceValue | classDefault
  deriving DecidableEq, Repr

def Route.target : Route → Target
  | .clsAttr => .classDefault
  | .clsUpdate => .classDefault
  | _ => .instanceValue

/-- `same` = the assigned object is the one the instance already holds (`val is _old`) -/
def Route.situation (r : Route) (same : Bool) : Situation :=
  match r with
  | .ctorKw | .deser => .uninitialised
  | .instAttr | .update => .initialised same
  | .clsAttr | .clsUpdate => .classLevel

/-- `P.deserialize(value)` on a JSON-decoded value; `none` = not modelled here
(the date types parse strings with `strptime`: C15) or the call raises.
-- src: Parameter.deserialize (identity), Tuple.deserialize (`None` for `None` / `'null'`,
else `tuple(value)`); Range and XYCoordinates inherit Tuple's -/
def deserialize (t : PType) (j : PyVal) : Option PyVal :=
  match t with
  | .tuple | .numericTuple | .xy | .range =>
    (match j with
     | .none => some .none
     | .str "null" => some .none
     | _ => j.iter?.map PyVal.tuple)
  | .date | .calendarDate | .dateRange | .calendarDateRange => none
  | _ => some j

/-- the value that reaches `Parameter.__set__` -/
def routeValue (r : Route) (c : Cfg) (v : PyVal) : Option PyVal :=
  match r with
  | .deser => deserialize c.ptype v
  | _ => some v

inductive Outcome where
  | stored (t : Target) (w : PyVal)
  | rejected (e : ErrKind)
  | notModelled                     -- deserialisation outside the model (or raising before `__set__`)

/-- what ends up in the value store -- src: Event.__set__ resets to False after the set -/
def storedValue (c : Cfg) (v : PyVal) : PyVal :=
  match c.ptype with
  | .event => .num .bool (.fin 0)
  | _ => v

/-- the setter on the value that reached it: hook, validate, guard, store -/
def setter (c : Cfg) (x : Ctx) (s : Situation) (t : Target) (w : PyVal) : Outcome :=
  match validate c x (setterValue c w) with
  | .error e => .rejected e
  | .ok _ =>
    match guard c s with
    | .error e => .rejected e
    | .ok _ => .stored t (storedValue c (setterValue c w))

/-- an assignment through route `r` (parameters without references: C02 / C08) -/
def assign (r : Route) (c : Cfg) (x : Ctx) (same : Bool) (v : PyVal) : Outcome :=
  match routeValue r c v with
  | none => .notModelled
  | some w => setter c x (r.situation same) r.target w

def Outcome.accepted : Outcome → Bool
  | .stored _ _ => true
  | _ => false

/-! ### Constructors -/

/-- constructor arguments; `none` = not passed (`Undefined`) -/
structure Args where
  ptype : PType
  default : Option PyVal := none
  allowNone : Option Bool := none
  bounds : Option Bounds := none           -- `some none` = `bounds=None` passed
  incl : Option (Bool × Bool) := none
  softbounds : Option Bounds := none
  step : Option PyVal := none
  length : Option Nat := none
  regex : Bool := false
  lenBounds : Option (Option (Option Int × Option Int)) := none
  itemType : Option (Option (List Nat)) := none   -- `some none` = `item_type=None` passed
  classAlias : Option (List Nat) := none          -- List(class_=…), the deprecated alias of item_type
  isInstance : Option Bool := none
  objects : Option (List PyVal) := none
  checkOnSet : Option Bool := none
  classes : List Nat := []
  allowNamed : Option Bool := none
  hook : Option Hook := none
  constant : Option Bool := none
  readonly : Option Bool := none

/-- truthiness of a default as the constructors test it -/
def truthy : PyVal → Bool
  | .none => false
  | .tuple [] => false
  | .list [] => false
  | .str s => !s.isEmpty
  | .bytes s => !s.isEmpty
  | .num _ x => !(x.eq (.fin 0))
  | .dict [] _ => false
  | _ => true

/-- `_slot_defaults['default']` per type (Selector: the empty-objects case) -/
def slotDefault : PType → PyVal
  | .string => .str ""
  | .bytes => .bytes ""
  | .number => .num .float (.fin 0)
  | .integer => .num .int (.fin 0)
  | .magnitude => .num .float (.fin 1)
  | .boolean => .num .bool (.fin 0)
  | .event => .num .bool (.fin 0)
  | .tuple => .tuple [.num .int (.fin 0), .num .int (.fin 0)]
  | .numericTuple => .tuple [.num .int (.fin 0), .num .int (.fin 0)]
  | .xy => .tuple [.num .float (.fin 0), .num .float (.fin 0)]
  | .list => .list []
  | .hookList => .list []
  | _ => .none

-- src: Parameter._set_allow_None  (Selector.__init__ overrides the result afterwards)
def effAllowNone (t : PType) (default : PyVal) (arg : Option Bool) : Bool :=
  match t with
  | .selector => arg.getD false
  | .listSelector => arg.getD false
  | _ => if default.isNone then true else arg.getD false

/-- the default each constructor ends up with -/
def ctorDefault (a : Args) : PyVal :=
  match a.default with
  | some d => d
  | none =>
    match a.ptype, a.objects with
    | .selector, some (o :: _) => o              -- src: Selector.__init__ autodefault
    | t, _ => slotDefault t

/-- `bounds` slot: the argument, else the slot default (Magnitude: (0.0, 1.0)) -/
def effBounds (t : PType) (arg : Option Bounds) : Bounds :=
  match arg with
  | some b => b
  | none =>
    match t with
    | .magnitude => some (some (.num .float (.fin 0)), some (.num .float (.fin 1)))
    | _ => none

/-- the `item_type` slot  -- src: List.__init__ (three branches; `class_` is the deprecated alias) -/
def effItemType (a : Args) : Option (List Nat) :=
  match a.itemType, a.classAlias with
  | some it, some _ => it                 -- `item_type is not Undefined and class_ is not Undefined`
  | none, ca => ca                        -- `item_type is Undefined` → `class_`
  | some none, ca => ca                   -- `item_type is None` → `class_`
  | some (some ks), _ => some ks

/-- the slots every constructor installs from its arguments (`length` apart).
Slots a type does not have are filled from the (absent) arguments and never
read by its validator. -/
def baseCfg (a : Args) : Cfg :=
  let objs := a.objects.getD []
  { ptype := a.ptype, allowNone := effAllowNone a.ptype (ctorDefault a) a.allowNone,
    bounds := effBounds a.ptype a.bounds,
    incl := a.incl.getD (true, true), softbounds := (a.softbounds.getD none), step := a.step, length := 0,
    regex := a.regex,
    lenBounds := a.lenBounds.getD (some (some 0, none)),
    itemType := effItemType a, isInstance := a.isInstance.getD true,
    objects := objs, checkOnSet := a.checkOnSet.getD (objs.length != 0),
    classes := (match a.ptype with | .dict => [PyVal.cDict] | _ => a.classes),
    allowNamed := a.allowNamed.getD true,
    hook := a.hook.getD .identity,
    -- src: Parameter.__init__ `self.constant = constant or readonly`
    constant := a.constant.getD false || a.readonly.getD false,
    readonly := a.readonly.getD false }

/-- the `length` argument as the Tuple constructor receives it -/
def lengthArg (a : Args) : Option Nat :=
  match a.ptype with
  | .tuple | .numericTuple => a.length
  | _ => some 2                                   -- XYCoordinates / Range pass length=2

/-- the `length` slot -- src: Tuple.__init__:
`elif default is not Undefined and default: length = len(default)`, else the argument,
else (`_compute_length_of_default`) `len(self.default)`; `none` = `len()` raised -/
def modelLength (a : Args) : Option Nat :=
  if a.default.isSome && truthy (ctorDefault a) then len? (ctorDefault a)
  else match lengthArg a with
    | some n => some n
    | none => len? (ctorDefault a)

def isTupleFamily : PType → Bool
  | .tuple | .numericTuple | .xy | .range | .dateRange | .calendarDateRange => true
  | _ => false

/-- the slots a constructor installs, and the default it then validates.
`.error` = the constructor raised before validating. -/
def mkCfg (a : Args) : Except ErrKind (Cfg × PyVal) :=
  if isTupleFamily a.ptype then
    -- src: Tuple.__init__
    if (lengthArg a).isNone && (ctorDefault a).isNone then .error .valueError
    else match modelLength a with
      | none => .error .typeError             -- len() of an unsized default
      | some n => .ok ({ baseCfg a with length := n }, ctorDefault a)
  else .ok (baseCfg a, ctorDefault a)

/-- constructor-time validation of the default.
-- src: every `__init__` ends with `self._validate(self.default)`; Selector validates a
non-None default with `_validate_value` only and then `_update_state` appends it when
`check_on_set` is False. -/
def ctorValidate (c : Cfg) (x : Ctx) (default : PyVal) : R :=
  match c.ptype with
  | .selector => if default.isNone then ok else selectorValue c default
  | .listSelector =>
    if default.isNone then ok
    else match default with
      | .list xs => if xs.all (fun o => !listItemRejects c o) then ok else valueErr
      | _ => valueErr
  | _ => validate c x default

/-- the objects after `_update_state` -/
def ctorObjects (c : Cfg) (default : PyVal) : List PyVal :=
  match c.ptype with
  | .selector =>
    if !c.checkOnSet && !default.isNone && !PyVal.pyIn default c.objects then c.objects ++ [default]
    else c.objects
  | _ => c.objects

/-- `P(**args)`: the Parameter (its constraint slots) or the exception -/
def construct (a : Args) (x : Ctx) : Except ErrKind Cfg :=
  match mkCfg a with
  | .error e => .error e
  | .ok (c, d) =>
    match ctorValidate c x d with
    | .error e => .error e
    | .ok _ => .ok { c with objects := ctorObjects c d }

end ParamVerif.Validate
