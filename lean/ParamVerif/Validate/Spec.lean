/-
C01 specification side: *which values a declaration admits*.

`Sat c x v` is the declarative membership predicate "value `v` satisfies the
constraints declared by `c`" (value type, hard bounds with their inclusivity,
length, regex, item type, allowed objects, allow_None).  It is written from the
documentation of each Parameter type, as a conjunction of requirements, with no
reference to the order in which the code tests them and no error kinds.
`specCfg` says which constraints a constructor call *declares*.

Points where the reading of "declared constraints" needs care (each is what the
documentation / Python semantics say, not a concession to the code):
* `bool` is an `int` in Python: Integer, Number, NumericTuple, Range and
  `List(item_type=int)` admit `True`/`False`.
* Number / Integer are `Dynamic`: a callable that is not a generator function is
  admitted (its *results* are validated when read); Date / CalendarDate are not.
* ordering is Python's: `nan` is below / above nothing, a `date` cannot be
  compared with a `datetime`
  (Date and DateRange convert plain dates to midnight first, as documented by
  `_to_datetime`).
* CalendarDate and CalendarDateRange take plain dates only (no datetimes).
* `allow_None` is about the whole value: a ListSelector item `None` must be one
  of the objects.
* the length of a Tuple is the length of its default when a non-empty default is
  given, and the `length` argument otherwise (docstring of `Tuple.__init__`).
* Selector membership is Python's `in` (`1.0`, `True` are "in" `[1]`).
* Selector with `check_on_set=False` admits everything (the value is added).
* regexes: the bit `Ctx.rx` = `re.match(regex, v) is not None`, supplied per case.

The executable oracle used by the driver is `decide (Sat c x v)`.
-/
import ParamVerif.Validate.Model

namespace ParamVerif.Validate
open ParamVerif.Py

/-! ### shape combinators (decidable pattern matches) -/

def OnTuple (v : PyVal) (P : List PyVal → Prop) : Prop :=
  match v with
  | .tuple xs => P xs
  | _ => False

def OnList (v : PyVal) (P : List PyVal → Prop) : Prop :=
  match v with
  | .list xs => P xs
  | _ => False

def OnStr (v : PyVal) (P : String → Prop) : Prop :=
  match v with
  | .str s => P s
  | _ => False

def OnCls (v : PyVal) (P : Nat → Prop) : Prop :=
  match v with
  | .cls id => P id
  | _ => False

/-- the list is a pair `[a, b]` with `P a b` -/
def OnPair (xs : List PyVal) (P : PyVal → PyVal → Prop) : Prop :=
  match xs with
  | [a, b] => P a b
  | _ => False

instance (v : PyVal) (P : List PyVal → Prop) [DecidablePred P] : Decidable (OnTuple v P) := by
  cases v <;> simp only [OnTuple] <;> infer_instance
instance (v : PyVal) (P : List PyVal → Prop) [DecidablePred P] : Decidable (OnList v P) := by
  cases v <;> simp only [OnList] <;> infer_instance
instance (v : PyVal) (P : String → Prop) [DecidablePred P] : Decidable (OnStr v P) := by
  cases v <;> simp only [OnStr] <;> infer_instance
instance (v : PyVal) (P : Nat → Prop) [DecidablePred P] : Decidable (OnCls v P) := by
  cases v <;> simp only [OnCls] <;> infer_instance
instance (xs : List PyVal) (P : PyVal → PyVal → Prop) [∀ a b, Decidable (P a b)] :
    Decidable (OnPair xs P) :=
  match xs with
  | [] => isFalse (by simp [OnPair])
  | [_] => isFalse (by simp [OnPair])
  | [a, b] => decidable_of_iff (P a b) (by simp [OnPair])
  | _ :: _ :: _ :: _ => isFalse (by simp [OnPair])

/-! ### bounds -/

/-- `lo ≤ v` (inclusive) / `lo < v` holds in Python's order: the two are
comparable and the test is true.  `nan` satisfies neither. -/
def Above (inclusive : Bool) (lo v : PyVal) : Prop :=
  if inclusive then PyVal.le? lo v = some true else PyVal.lt? lo v = some true

/-- `v ≤ hi` (inclusive) / `v < hi` -/
def Below (inclusive : Bool) (v hi : PyVal) : Prop :=
  if inclusive then PyVal.le? v hi = some true else PyVal.lt? v hi = some true

/-- the lower side: `None` = unbounded below -/
def AboveOpt (inclusive : Bool) (lo : Option PyVal) (v : PyVal) : Prop :=
  match lo with
  | none => True
  | some l => Above inclusive l v

/-- the upper side: `None` = unbounded above -/
def BelowOpt (inclusive : Bool) (v : PyVal) (hi : Option PyVal) : Prop :=
  match hi with
  | none => True
  | some h => Below inclusive v h

/-- `v` lies inside the hard bounds, each side with its declared inclusivity -/
def InBounds (b : Bounds) (incl : Bool × Bool) (v : PyVal) : Prop :=
  match b with
  | none => True
  | some (lo, hi) => AboveOpt incl.1 lo v ∧ BelowOpt incl.2 v hi

instance (i : Bool) (a b : PyVal) : Decidable (Above i a b) := by unfold Above; infer_instance
instance (i : Bool) (a b : PyVal) : Decidable (Below i a b) := by unfold Below; infer_instance
instance (i : Bool) (lo : Option PyVal) (v : PyVal) : Decidable (AboveOpt i lo v) := by
  unfold AboveOpt; cases lo <;> simp only <;> infer_instance
instance (i : Bool) (v : PyVal) (hi : Option PyVal) : Decidable (BelowOpt i v hi) := by
  unfold BelowOpt; cases hi <;> simp only <;> infer_instance
instance (b : Bounds) (i : Bool × Bool) (v : PyVal) : Decidable (InBounds b i v) := by
  unfold InBounds
  rcases b with _ | ⟨lo, hi⟩
  · exact inferInstanceAs (Decidable True)
  · simp only; infer_instance

/-- a Range's `step` orients it: positive step = ascending, negative = descending -/
def StepOrder (step : Option PyVal) (a b : PyVal) : Prop :=
  match step.bind PyVal.ext? with
  | none => True
  | some q => (ExtRat.lt (.fin 0) q = true → PyVal.le? a b = some true) ∧
              (ExtRat.lt q (.fin 0) = true → PyVal.le? b a = some true)

instance (s : Option PyVal) (a b : PyVal) : Decidable (StepOrder s a b) := by
  unfold StepOrder; cases s.bind PyVal.ext? <;> simp only <;> infer_instance

/-! ### item predicates -/

/-- `None` is admitted because the declaration allows it -/
def NoneOk (c : Cfg) (v : PyVal) : Prop := v.isNone = true ∧ c.allowNone = true

/-- a Dynamic parameter admits a callable that produces values when called -/
def DynamicOk (v : PyVal) : Prop := v.isCallable = true ∧ v.isGenFn = false

/-- the item is an instance (resp. a subclass) of one of the declared classes -/
def ClassOk (x : Ctx) (isInstance : Bool) (ks : List Nat) (v : PyVal) : Prop :=
  if isInstance then ∃ k ∈ ks, instanceOf x.mro v k = true
  else OnCls v fun id => ∃ k ∈ ks, subclassOf x.mro id k = true

instance (x : Ctx) (i : Bool) (ks : List Nat) (v : PyVal) : Decidable (ClassOk x i ks v) := by
  unfold ClassOk; infer_instance

/-- every item is of the declared item type (no item type declared: anything goes) -/
def ItemsOk (c : Cfg) (x : Ctx) (xs : List PyVal) : Prop :=
  match c.itemType with
  | none => True
  | some ks => ∀ i ∈ xs, ClassOk x c.isInstance ks i

instance (c : Cfg) (x : Ctx) (xs : List PyVal) : Decidable (ItemsOk c x xs) := by
  unfold ItemsOk; cases c.itemType <;> simp only <;> infer_instance

/-- the value is one of the declared objects (Python `in`) -/
def Member (objects : List PyVal) (v : PyVal) : Prop := ∃ o ∈ objects, PyVal.pyEq o v = true

instance (os : List PyVal) (v : PyVal) : Decidable (Member os v) := by unfold Member; infer_instance

/-- the length lies within `List.bounds` (both ends inclusive) -/
def LenOk (b : Option (Option Int × Option Int)) (n : Nat) : Prop :=
  match b with
  | none => True
  | some (mn, mx) =>
    (match mn with | none => True | some a => a ≤ (n : Int)) ∧
    (match mx with | none => True | some z => (n : Int) ≤ z)

instance (b : Option (Option Int × Option Int)) (n : Nat) : Decidable (LenOk b n) := by
  unfold LenOk
  rcases b with _ | ⟨mn, mx⟩
  · exact inferInstanceAs (Decidable True)
  · rcases mn with _ | l <;> rcases mx with _ | h <;> simp only <;> infer_instance

/-- a hex RGB colour: optional `#`, then exactly three or six hex digits -/
def IsHexColor (s : String) : Prop := hexBody s.toList = true

/-- a CSS3 colour name, case-insensitively -/
def IsNamedColor (s : String) : Prop := lowerAscii s ∈ namedColors

instance (s : String) : Decidable (IsHexColor s) := by unfold IsHexColor; infer_instance
instance (s : String) : Decidable (IsNamedColor s) := by unfold IsNamedColor; infer_instance

/-! ### the membership predicate -/

/-- the two ends of a Range flavour: each inside the bounds, oriented by `step`;
`conv` is the conversion the flavour documents for comparisons -/
def RangeEnds (c : Cfg) (conv : PyVal → PyVal) (a b : PyVal) : Prop :=
  InBounds (mapBounds conv c.bounds) c.incl (conv a) ∧
  InBounds (mapBounds conv c.bounds) c.incl (conv b) ∧ StepOrder c.step a b

instance (c : Cfg) (f : PyVal → PyVal) (a b : PyVal) : Decidable (RangeEnds c f a b) := by
  unfold RangeEnds; infer_instance

/-- value `v` satisfies the constraints declared by `c` -/
def Sat (c : Cfg) (x : Ctx) (v : PyVal) : Prop :=
  match c.ptype with
  | .string => NoneOk c v ∨ (v.isStr = true ∧ (c.regex = true → x.rx = true))
  | .bytes => NoneOk c v ∨ (v.isBytes = true ∧ (c.regex = true → x.rx = true))
  | .number => NoneOk c v ∨ DynamicOk v ∨ (v.isNumber = true ∧ InBounds c.bounds c.incl v)
  | .magnitude => NoneOk c v ∨ DynamicOk v ∨ (v.isNumber = true ∧ InBounds c.bounds c.incl v)
  | .integer => NoneOk c v ∨ DynamicOk v ∨ (v.isInt = true ∧ InBounds c.bounds c.incl v)
  | .date => NoneOk c v ∨
      (v.isDt = true ∧ InBounds (mapBounds PyVal.toDatetime c.bounds) c.incl v.toDatetime)
  | .calendarDate => NoneOk c v ∨
      (v.isDt = true ∧ v.isDatetime = false ∧ InBounds c.bounds c.incl v)
  | .boolean => NoneOk c v ∨ v.isBool = true
  | .event => NoneOk c v ∨ v.isBool = true
  | .tuple => NoneOk c v ∨ OnTuple v fun xs => xs.length = c.length
  | .numericTuple => NoneOk c v ∨
      OnTuple v fun xs => xs.length = c.length ∧ ∀ i ∈ xs, i.isNumber = true
  | .xy => NoneOk c v ∨
      OnTuple v fun xs => xs.length = c.length ∧ ∀ i ∈ xs, i.isNumber = true
  | .range => NoneOk c v ∨
      OnTuple v fun xs => OnPair xs fun a b =>
        a.isNumber = true ∧ b.isNumber = true ∧ RangeEnds c id a b
  | .dateRange => NoneOk c v ∨
      OnTuple v fun xs => OnPair xs fun a b =>
        a.isDt = true ∧ b.isDt = true ∧ PyVal.le? a b = some true ∧ RangeEnds c PyVal.toDatetime a b
  | .calendarDateRange => NoneOk c v ∨
      OnTuple v fun xs => OnPair xs fun a b =>
        a.isDt = true ∧ a.isDatetime = false ∧ b.isDt = true ∧ b.isDatetime = false ∧
          PyVal.le? a b = some true ∧ RangeEnds c id a b
  | .callable => NoneOk c v ∨ v.isCallable = true
  | .action => NoneOk c v ∨ v.isCallable = true
  | .list => NoneOk c v ∨
      OnList v fun xs => LenOk c.lenBounds xs.length ∧
        ItemsOk c x xs
  | .hookList => NoneOk c v ∨
      OnList v fun xs => (∀ i ∈ xs, i.isCallable = true) ∧ LenOk c.lenBounds xs.length ∧
        ItemsOk c x xs
  | .selector => c.checkOnSet = false ∨ NoneOk c v ∨ Member c.objects v
  | .listSelector => NoneOk c v ∨
      OnList v fun xs => c.checkOnSet = false ∨ ∀ i ∈ xs, Member c.objects i
  | .classSelector => NoneOk c v ∨ ClassOk x c.isInstance c.classes v
  | .dict => NoneOk c v ∨ ClassOk x c.isInstance c.classes v
  | .color => NoneOk c v ∨ OnStr v fun s => IsHexColor s ∨ (c.allowNamed = true ∧ IsNamedColor s)

instance (c : Cfg) (v : PyVal) : Decidable (NoneOk c v) := by unfold NoneOk; infer_instance
instance (v : PyVal) : Decidable (DynamicOk v) := by unfold DynamicOk; infer_instance

instance (c : Cfg) (x : Ctx) (v : PyVal) : Decidable (Sat c x v) := by
  unfold Sat
  cases c.ptype <;> simp only <;> infer_instance

/-! ### well-formed declarations -/

/-- both bounds (where given) are of the type the flavour declares for them -/
def BoundsOfType (P : PyVal → Bool) (b : Bounds) : Prop :=
  match b with
  | none => True
  | some (lo, hi) =>
    (match lo with | none => True | some l => P l = true) ∧
    (match hi with | none => True | some h => P h = true)

instance (P : PyVal → Bool) (b : Bounds) : Decidable (BoundsOfType P b) := by
  unfold BoundsOfType
  rcases b with _ | ⟨lo, hi⟩
  · exact inferInstanceAs (Decidable True)
  · rcases lo with _ | l <;> rcases hi with _ | h <;> simp only <;> infer_instance

/-- `step` is absent or a non-zero number -/
def StepWF (step : Option PyVal) : Prop :=
  match step with
  | none => True
  | some s =>
    match s.ext? with
    | none => False
    | some q => q.eq (.fin 0) = false

instance (s : Option PyVal) : Decidable (StepWF s) := by
  unfold StepWF
  rcases s with _ | s
  · exact inferInstanceAs (Decidable True)
  · simp only; cases s.ext? <;> simp only <;> infer_instance

/-- `step` is absent or of the type the family declares for it -/
def StepOfType (P : PyVal → Bool) (step : Option PyVal) : Prop :=
  match step with
  | none => True
  | some s => P s = true

instance (P : PyVal → Bool) (s : Option PyVal) : Decidable (StepOfType P s) := by
  unfold StepOfType; cases s <;> simp only <;> infer_instance

/-- Declarations the constructors accept.  Number family: a `step` of the family's
type (number / int / date).  Range flavours: length 2, hard and soft bounds of the
flavour's type, a numeric non-zero `step`.  Anything else makes every `_validate`
call raise, i.e. no Parameter exists (`ill_formed_not_constructed`). -/
def WF (c : Cfg) : Prop :=
  match c.ptype with
  | .number => StepOfType PyVal.isNumber c.step
  | .magnitude => StepOfType PyVal.isNumber c.step
  | .integer => StepOfType PyVal.isInt c.step
  | .date => StepOfType PyVal.isDt c.step
  | .calendarDate => StepOfType PyVal.isDt c.step
  | .range => c.length = 2 ∧ BoundsOfType PyVal.isNumber c.bounds ∧
      BoundsOfType PyVal.isNumber c.softbounds ∧ StepWF c.step
  | .dateRange => c.length = 2 ∧ BoundsOfType PyVal.isDt c.bounds ∧
      BoundsOfType PyVal.isDt c.softbounds ∧ StepWF c.step
  | .calendarDateRange => c.length = 2 ∧ BoundsOfType PyVal.isDt c.bounds ∧
      BoundsOfType PyVal.isDt c.softbounds ∧ StepWF c.step
  | _ => True

instance (c : Cfg) : Decidable (WF c) := by
  unfold WF; cases c.ptype <;> simp only <;> infer_instance

/-! ### the setter: hook output, constant / read-only -/

/-- the constant / read-only declaration lets an assignment from this situation through:
never for a read-only parameter; for a constant one on the class, during `__init__`, or
when the value is the very object already held -/
def GuardOk (c : Cfg) (s : Situation) : Prop :=
  c.readonly = false ∧ (c.constant = true → s ≠ .initialised false)

instance (c : Cfg) (s : Situation) : Decidable (GuardOk c s) := by unfold GuardOk; infer_instance

/-- an assignment of `v` from situation `s` is to succeed: what the parameter would hold --
the `set_hook`'s output for the Number family -- satisfies the declared constraints, and the
constant / read-only declaration permits it -/
def Admitted (c : Cfg) (x : Ctx) (s : Situation) (v : PyVal) : Prop :=
  Sat c x (setterValue c v) ∧ GuardOk c s

instance (c : Cfg) (x : Ctx) (s : Situation) (v : PyVal) : Decidable (Admitted c x s v) := by
  unfold Admitted; infer_instance

/-! ### what a constructor call declares -/

/-- the default a declaration has (documented: a Selector without an explicit
default takes its first object) -/
def specDefault (a : Args) : PyVal :=
  match a.default with
  | some d => d
  | none =>
    match a.ptype, a.objects with
    | .selector, some (o :: _) => o
    | t, _ => slotDefault t

/-- `None` is allowed when asked for, or (outside the Selector family, whose
`allow_None` is exactly the argument) when the default is `None` -/
def declaredAllowNone (a : Args) : Bool :=
  match a.ptype with
  | .selector | .listSelector => a.allowNone.getD false
  | _ => (specDefault a).isNone || a.allowNone.getD false

/-- the hard bounds: the ones given; a Magnitude without any lies in [0.0, 1.0] -/
def declaredBounds (a : Args) : Bounds :=
  match a.ptype, a.bounds with
  | _, some b => b
  | .magnitude, none => some (some (.num .float (.fin 0)), some (.num .float (.fin 1)))
  | _, none => none

/-- the item type of a List: `item_type` when it is given, else what the deprecated alias
`class_` names -/
def declaredItemType (a : Args) : Option (List Nat) :=
  match a.itemType with
  | some it => it
  | none => a.classAlias

/-- the declared constraints, for a declared length `n` -/
def declaredCfg (a : Args) (n : Nat) : Cfg :=
  { ptype := a.ptype, allowNone := declaredAllowNone a, bounds := declaredBounds a,
    incl := a.incl.getD (true, true), softbounds := (a.softbounds.getD none), step := a.step, length := n,
    regex := a.regex,
    lenBounds := a.lenBounds.getD (some (some 0, none)),           -- List: at least 0 items
    itemType := declaredItemType a, isInstance := a.isInstance.getD true,
    objects := a.objects.getD [],
    checkOnSet := a.checkOnSet.getD ((a.objects.getD []).length != 0),   -- checked iff objects were given
    classes := (match a.ptype with | .dict => [PyVal.cDict] | _ => a.classes),
    allowNamed := a.allowNamed.getD true,
    hook := a.hook.getD .identity,
    constant := a.constant.getD false || a.readonly.getD false,    -- a read-only parameter is constant
    readonly := a.readonly.getD false }

/-- the `length` a declaration names: the argument (2 for the fixed-length flavours) -/
def lengthDeclared (a : Args) : Option Nat :=
  match a.ptype with
  | .tuple | .numericTuple => a.length
  | _ => some 2

/-- the length in force (docstring of `Tuple.__init__`: "determined by the initial
default value, if any, and must be supplied explicitly otherwise"): the length of a
non-empty default that was given; otherwise the `length` argument; otherwise the
length of the default the type comes with.  `none` = neither is available. -/
def specLength (a : Args) : Option Nat :=
  match a.ptype with
  | .tuple | .numericTuple | .xy | .range | .dateRange | .calendarDateRange =>
    (match a.default with
     | some d =>
       if truthy d then len? d
       else (match lengthDeclared a with | some n => some n | none => len? d)
     | none =>
       (match lengthDeclared a with | some n => some n | none => len? (specDefault a)))
  | _ => some 0

/-- the constraints a constructor call declares; `none` = the declaration is
incomplete (a Tuple with neither a length nor a default) or ill-formed (`WF`: a
Range with a zero / non-numeric step or bounds of the wrong type, or a fixed-length
flavour given a default of another length). -/
def specCfg (a : Args) : Option Cfg :=
  ((specLength a).map (declaredCfg a)).filter fun c => decide (WF c)

/-- the default satisfies the declaration (a Selector may always default to `None`) -/
def CtorSat (a : Args) (x : Ctx) : Prop :=
  match specCfg a with
  | none => False
  | some c =>
    match a.ptype with
    | .selector | .listSelector => (specDefault a).isNone = true ∨ Sat c x (specDefault a)
    | _ => Sat c x (specDefault a)

instance (a : Args) (x : Ctx) : Decidable (CtorSat a x) := by
  unfold CtorSat
  cases specCfg a <;> simp only <;> try infer_instance
  cases a.ptype <;> simp only <;> infer_instance

/-- the Number family as far as numbers are concerned: `Number`, `Magnitude`, and
`Integer` for integer values (used to state the boundary theorems) -/
def NumberLike (c : Cfg) (v : PyVal) : Prop :=
  c.ptype = .number ∨ c.ptype = .magnitude ∨ (c.ptype = .integer ∧ v.isInt = true)

/-! ### the oracle on observations

What the harness can see of one attempted assignment: the outcome
(`"ok"`, `"ValueError"`, `"TypeError"`, `"other:<Name>"`) and, when it succeeded,
whether the value read back is the assigned one (`"same"` / `"diff"`). -/

/-- the read-back a correct store shows (an Event reads back `False`) -/
def expectedReadback (c : Cfg) (v : PyVal) : String :=
  match c.ptype with
  | .event => if v.isBool && PyVal.pyEq v (storedValue c v) then "same" else "diff"
  | _ => "same"

/-- verdict on one observed assignment from situation `s`; `none` = the property holds on it.
`readbackOk` = the value read back is the one the parameter is to hold. -/
def judgeAssign (c : Cfg) (x : Ctx) (s : Situation) (v : PyVal) (outcome : String) (readbackOk : Bool) :
    Option String :=
  let sat := decide (Sat c x (setterValue c v))
  let adm := decide (Admitted c x s v)
  if outcome == "ok" then
    if !sat then some "accepted a value that violates the declared constraints"
    else if !adm then some "accepted an assignment the constant / read-only declaration forbids"
    else if !readbackOk then some "the stored value is not the one the parameter is to hold"
    else none
  else if outcome == "ValueError" || outcome == "TypeError" then
    if adm then some "rejected a value that satisfies the declared constraints" else none
  else if adm then some s!"rejected (with {outcome}) a value that satisfies the declared constraints"
  else some s!"raised {outcome}, neither ValueError nor TypeError"

/-- verdict on the observed outcome of the constructor -/
def judgeCtor (a : Args) (x : Ctx) (outcome : String) : Option String :=
  if outcome == "ok" then
    if !decide (CtorSat a x) then some "constructor accepted a default that violates the declared constraints"
    else none
  else if outcome == "ValueError" || outcome == "TypeError" then
    if decide (CtorSat a x) then some "constructor rejected a default that satisfies the declared constraints"
    else none
  else some s!"constructor raised {outcome}, neither ValueError nor TypeError"

end ParamVerif.Validate
