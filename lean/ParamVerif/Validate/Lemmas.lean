/-
Helper lemmas for C01: one `…_ok_iff` characterisation per sub-validator of
Validate/Model.lean, then per parameter type `validate … = ok ↔ Sat …`.
The property theorems themselves are in Props/C01.lean.
-/
import ParamVerif.Validate.Spec

namespace ParamVerif.Validate
open ParamVerif.Py

/-! ### the result monad -/

@[simp] theorem ok_def : (ok : R) = .ok () := rfl
@[simp] theorem valueErr_ne_ok : (valueErr : R) ≠ .ok () := by simp [valueErr]
@[simp] theorem typeErr_ne_ok : (typeErr : R) ≠ .ok () := by simp [typeErr]
@[simp] theorem valueErr_eq_ok : ((valueErr : R) = .ok ()) = False := by simp [valueErr]
@[simp] theorem typeErr_eq_ok : ((typeErr : R) = .ok ()) = False := by simp [typeErr]

@[simp] theorem seq_ok_iff {a b : R} : (a ;; b) = .ok () ↔ a = .ok () ∧ b = .ok () := by
  unfold seq
  cases a with
  | ok u => cases u; simp
  | error e => simp

@[simp] theorem require_ok_iff {r : Option Bool} : require r = .ok () ↔ r = some true := by
  unfold require
  rcases r with _ | b
  · simp
  · cases b <;> simp

theorem R_ok_unit (r : R) : (∃ u, r = .ok u) ↔ r = .ok () := by
  constructor
  · rintro ⟨u, h⟩; cases u; exact h
  · intro h; exact ⟨(), h⟩

/-! ### bounds -/

theorem numberBounds_ok_iff (an : Bool) (b : Bounds) (incl : Bool × Bool) (v : PyVal) :
    numberBounds an b incl v = .ok () ↔
      (v.isNone = true ∧ an = true) ∨ v.isCallable = true ∨ InBounds b incl v := by
  unfold numberBounds InBounds
  rcases b with _ | ⟨lo, hi⟩
  · simp
  · by_cases h : (v.isNone && an || v.isCallable) = true
    · simp only [h, if_true, ok_def, true_iff]
      simp only [Bool.or_eq_true, Bool.and_eq_true] at h
      rcases h with h | h
      · exact Or.inl h
      · exact Or.inr (Or.inl h)
    · simp only [h]
      simp only [Bool.or_eq_true, Bool.and_eq_true, not_or] at h
      rcases lo with _ | l <;> rcases hi with _ | u <;> rcases incl with ⟨il, iu⟩ <;>
        cases il <;> cases iu <;>
        simp [h.1, h.2, AboveOpt, BelowOpt, Above, Below, PyVal.ge?, PyVal.gt?, and_comm]

/-! ### scalar types -/

theorem string_iff (c : Cfg) (x : Ctx) (v : PyVal) (h : c.ptype = .string) :
    validate c x v = .ok () ↔ Sat c x v := by
  unfold validate Sat; simp only [h]
  cases v <;> cases hn : c.allowNone <;> cases hr : c.regex <;> cases hx : x.rx <;>
    simp [stringValue, regexCheck, NoneOk, PyVal.isNone, PyVal.isStr, hn, hr, hx]

theorem bytes_iff (c : Cfg) (x : Ctx) (v : PyVal) (h : c.ptype = .bytes) :
    validate c x v = .ok () ↔ Sat c x v := by
  unfold validate Sat; simp only [h]
  cases v <;> cases hn : c.allowNone <;> cases hr : c.regex <;> cases hx : x.rx <;>
    simp [bytesValue, regexCheck, NoneOk, PyVal.isNone, PyVal.isBytes, hn, hr, hx]

@[simp] theorem ok_seq (b : R) : ((.ok () : R) ;; b) = b := rfl

theorem numberStep_ok_iff (c : Cfg) : numberStep c = .ok () ↔ StepOfType (stepTypeOk c.ptype) c.step := by
  unfold numberStep StepOfType
  rcases c.step with _ | s
  · simp
  · cases stepTypeOk c.ptype s <;> simp

/-- a well-formed Number-family declaration passes the step test -/
theorem numberStep_of_wf (c : Cfg) (hwf : WF c)
    (hp : c.ptype = .number ∨ c.ptype = .magnitude ∨ c.ptype = .integer ∨ c.ptype = .date ∨ c.ptype = .calendarDate) :
    numberStep c = .ok () := by
  rw [numberStep_ok_iff]
  unfold WF at hwf
  rcases hp with h | h | h | h | h <;> simp only [h] at hwf ⊢ <;> exact hwf

theorem numberCore_iff (c : Cfg) (v : PyVal) :
    (numberValue c v ;; numberBounds c.allowNone c.bounds c.incl v) = .ok () ↔
      NoneOk c v ∨ DynamicOk v ∨ (v.isNumber = true ∧ InBounds c.bounds c.incl v) := by
  rw [seq_ok_iff, numberBounds_ok_iff]
  cases v <;> cases hn : c.allowNone <;>
    simp [numberValue, NoneOk, DynamicOk, PyVal.isNone, PyVal.isCallable, PyVal.isGenFn, PyVal.isNumber, hn]

theorem number_iff (c : Cfg) (x : Ctx) (v : PyVal) (h : c.ptype = .number) (hwf : WF c) :
    validate c x v = .ok () ↔ Sat c x v := by
  have hs := numberStep_of_wf c hwf (Or.inl h)
  unfold validate Sat; simp only [h, hs, ok_seq]; exact numberCore_iff c v

theorem magnitude_iff (c : Cfg) (x : Ctx) (v : PyVal) (h : c.ptype = .magnitude) (hwf : WF c) :
    validate c x v = .ok () ↔ Sat c x v := by
  have hs := numberStep_of_wf c hwf (Or.inr (Or.inl h))
  unfold validate Sat; simp only [h, hs, ok_seq]; exact numberCore_iff c v

theorem integer_iff (c : Cfg) (x : Ctx) (v : PyVal) (h : c.ptype = .integer) (hwf : WF c) :
    validate c x v = .ok () ↔ Sat c x v := by
  have hs := numberStep_of_wf c hwf (Or.inr (Or.inr (Or.inl h)))
  unfold validate Sat; simp only [h, hs, ok_seq]
  rw [seq_ok_iff, numberBounds_ok_iff]
  cases v <;> cases hn : c.allowNone <;>
    simp_all [integerValue, NoneOk, DynamicOk, PyVal.isNone, PyVal.isCallable, PyVal.isGenFn, PyVal.isInt]
  all_goals (rename_i k _; cases k <;> simp)

theorem date_iff (c : Cfg) (x : Ctx) (v : PyVal) (h : c.ptype = .date) (hwf : WF c) :
    validate c x v = .ok () ↔ Sat c x v := by
  have hs := numberStep_of_wf c hwf (Or.inr (Or.inr (Or.inr (Or.inl h))))
  unfold validate Sat dateBounds; simp only [h, hs, ok_seq]
  rw [seq_ok_iff, numberBounds_ok_iff]
  cases v <;> cases hn : c.allowNone <;>
    simp [dateValue, NoneOk, PyVal.isNone, PyVal.isCallable, PyVal.isDt, PyVal.toDatetime, hn]

theorem calendarDate_iff (c : Cfg) (x : Ctx) (v : PyVal) (h : c.ptype = .calendarDate) (hwf : WF c) :
    validate c x v = .ok () ↔ Sat c x v := by
  have hs := numberStep_of_wf c hwf (Or.inr (Or.inr (Or.inr (Or.inr h))))
  unfold validate Sat; simp only [h, hs, ok_seq]
  rw [seq_ok_iff, numberBounds_ok_iff]
  cases v <;> cases hn : c.allowNone <;>
    simp [calendarDateValue, NoneOk, PyVal.isNone, PyVal.isCallable, PyVal.isDt, PyVal.isDatetime, hn]

theorem boolean_core (c : Cfg) (v : PyVal) :
    booleanValue c v = .ok () ↔ NoneOk c v ∨ v.isBool = true := by
  cases v <;> cases hn : c.allowNone <;> simp [booleanValue, NoneOk, PyVal.isNone, PyVal.isBool, hn]
  all_goals (rename_i k _; cases k <;> simp)

theorem callable_core (c : Cfg) (v : PyVal) :
    callableValue c v = .ok () ↔ NoneOk c v ∨ v.isCallable = true := by
  cases v <;> cases hn : c.allowNone <;> simp [callableValue, NoneOk, PyVal.isNone, PyVal.isCallable, hn]

/-! ### Tuple family -/

theorem tuple_iff (c : Cfg) (x : Ctx) (v : PyVal) (h : c.ptype = .tuple) :
    validate c x v = .ok () ↔ Sat c x v := by
  unfold validate Sat; simp only [h]
  cases v <;> cases hn : c.allowNone <;>
    simp [tupleValue, tupleLength, len?, NoneOk, OnTuple, PyVal.isNone, PyVal.isTuple, hn]

theorem numericTupleCore_iff (c : Cfg) (v : PyVal) :
    (numericTupleValue c v ;; tupleLength c v) = .ok () ↔
      NoneOk c v ∨ OnTuple v fun xs => xs.length = c.length ∧ ∀ i ∈ xs, i.isNumber = true := by
  cases v <;> cases hn : c.allowNone <;>
    simp [numericTupleValue, tupleValue, tupleLength, len?, NoneOk, OnTuple, PyVal.isNone, PyVal.isTuple,
      PyVal.iter?, hn, and_comm]

theorem numericTuple_iff (c : Cfg) (x : Ctx) (v : PyVal) (h : c.ptype = .numericTuple) :
    validate c x v = .ok () ↔ Sat c x v := by
  unfold validate Sat; simp only [h]; exact numericTupleCore_iff c v

theorem xy_iff (c : Cfg) (x : Ctx) (v : PyVal) (h : c.ptype = .xy) :
    validate c x v = .ok () ↔ Sat c x v := by
  unfold validate Sat; simp only [h]; exact numericTupleCore_iff c v

/-! ### Range flavours -/

theorem tooLow_false_iff (lo : Option PyVal) (il : Bool) (v : PyVal) :
    tooLow lo il v = some false ↔ AboveOpt il lo v := by
  unfold tooLow AboveOpt Above
  rcases lo with _ | l
  · simp
  · cases il <;> simp only [PyVal.ge?, PyVal.gt?, if_true, if_false, Bool.false_eq_true]
    · cases PyVal.lt? l v with
      | none => simp
      | some b => cases b <;> simp
    · cases PyVal.le? l v with
      | none => simp
      | some b => cases b <;> simp

theorem tooHigh_false_iff (hi : Option PyVal) (ih : Bool) (v : PyVal) :
    tooHigh hi ih v = some false ↔ BelowOpt ih v hi := by
  unfold tooHigh BelowOpt Below
  rcases hi with _ | u
  · simp
  · cases ih <;> simp only [if_true, if_false, Bool.false_eq_true]
    · cases PyVal.lt? v u with
      | none => simp
      | some b => cases b <;> simp
    · cases PyVal.le? v u with
      | none => simp
      | some b => cases b <;> simp

theorem rangeElems_cons (lo hi : Option PyVal) (incl : Bool × Bool) (v : PyVal) (rest : List PyVal) :
    rangeElems lo hi incl (v :: rest) = .ok () ↔
      InBounds (some (lo, hi)) incl v ∧ rangeElems lo hi incl rest = .ok () := by
  simp only [InBounds, ← tooLow_false_iff, ← tooHigh_false_iff]
  rw [rangeElems]
  cases tooLow lo incl.1 v with
  | none => simp
  | some l =>
    cases tooHigh hi incl.2 v with
    | none => simp
    | some h => cases l <;> cases h <;> simp

theorem rangeElems_nil (lo hi : Option PyVal) (incl : Bool × Bool) :
    rangeElems lo hi incl [] = .ok () := by simp [rangeElems]

theorem boundTypes_ok_iff (t : PType) (b : Bounds) :
    boundTypes t b = .ok () ↔ BoundsOfType (boundTypeOk t) b := by
  unfold boundTypes BoundsOfType
  rcases b with _ | ⟨lo, hi⟩
  · simp
  · rcases lo with _ | l <;> rcases hi with _ | u <;> simp <;>
      (try cases boundTypeOk t l) <;> (try cases boundTypeOk t u) <;> simp

theorem rangeStep_ok_iff (c : Cfg) : rangeStep c = .ok () ↔ StepWF c.step := by
  unfold rangeStep StepWF
  rcases c.step with _ | s
  · simp
  · simp only
    cases s.ext? with
    | none => simp
    | some q => cases q.eq (.fin 0) <;> simp

theorem mapBounds_id (b : Bounds) : mapBounds id b = b := by
  rcases b with _ | ⟨lo, hi⟩ <;> simp [mapBounds]

theorem isDt_toDatetime (v : PyVal) : v.toDatetime.isDt = v.isDt := by
  cases v <;> simp [PyVal.toDatetime, PyVal.isDt]

theorem boundsOfType_toDatetime (b : Bounds) :
    BoundsOfType PyVal.isDt (mapBounds PyVal.toDatetime b) ↔ BoundsOfType PyVal.isDt b := by
  rcases b with _ | ⟨lo, hi⟩
  · simp [mapBounds, BoundsOfType]
  · rcases lo with _ | l <;> rcases hi with _ | u <;> simp [mapBounds, BoundsOfType, isDt_toDatetime]

/-- the order test on a pair without `None` ends -/
theorem rangeOrder_pair (c : Cfg) (a b : PyVal) (hs : StepWF c.step)
    (ha : a.isNone = false) (hb : b.isNone = false) :
    rangeOrder c (.tuple [a, b]) = .ok () ↔ StepOrder c.step a b := by
  have ht : (PyVal.tuple [a, b]).isNone = false := rfl
  unfold rangeOrder StepOrder
  unfold StepWF at hs
  simp only [ht, PyVal.iter?, ha, hb, unpack2, Bool.false_and, Bool.or_self, Bool.false_eq_true, if_false]
  rcases hst : c.step with _ | s
  · simp
  · rw [hst] at hs
    simp only [Option.bind] at *
    cases hq : s.ext? with
    | none => simp [hq] at hs
    | some q =>
      simp only [hq] at hs ⊢
      by_cases h1 : ExtRat.lt (.fin 0) q = true
      · have h2 : ExtRat.lt q (.fin 0) = false := by
          cases q <;> simp_all [ExtRat.lt]
          exact Rat.not_lt.2 (Rat.le_of_lt h1)
        simp [h1, h2]
      · by_cases h2 : ExtRat.lt q (.fin 0) = true
        · simp [h1, h2, PyVal.ge?]
        · simp [h1, h2]

/-- everything after the value test, on a pair -/
theorem rangeTail_pair (c : Cfg) (conv : PyVal → PyVal) (a b : PyVal)
    (hlen : c.length = 2) (hbt : boundTypes c.ptype (mapBounds conv c.bounds) = .ok ())
    (hs : StepWF c.step) (ha : a.isNone = false) (hb : b.isNone = false) :
    (tupleLength c (.tuple [a, b]) ;; rangeBounds c (mapBounds conv c.bounds) (.tuple [conv a, conv b]) ;;
      rangeStep c ;; rangeOrder c (.tuple [a, b])) = .ok () ↔ RangeEnds c conv a b := by
  simp only [seq_ok_iff, rangeOrder_pair c a b hs ha hb, (rangeStep_ok_iff c).2 hs, true_and]
  unfold RangeEnds rangeBounds
  simp only [hbt, seq_ok_iff, true_and]
  have hl : tupleLength c (.tuple [a, b]) = .ok () := by
    cases c.allowNone <;> simp [tupleLength, len?, hlen, PyVal.isNone]
  simp only [hl, true_and]
  rcases hbd : mapBounds conv c.bounds with _ | ⟨lo, hi⟩
  · simp [InBounds]
  · simp only [PyVal.isNone, Bool.false_and, PyVal.iter?, List.take]
    simp [rangeElems_cons, rangeElems_nil, and_assoc]

theorem isNone_of_isNumber {v : PyVal} (h : v.isNumber = true) : v.isNone = false := by
  cases v <;> simp_all [PyVal.isNumber, PyVal.isNone]

theorem isNone_of_isDt {v : PyVal} (h : v.isDt = true) : v.isNone = false := by
  cases v <;> simp_all [PyVal.isDt, PyVal.isNone]

theorem range_iff (c : Cfg) (x : Ctx) (v : PyVal) (h : c.ptype = .range) (hwf : WF c) :
    validate c x v = .ok () ↔ Sat c x v := by
  unfold WF at hwf; simp only [h] at hwf
  obtain ⟨hlen, hbt, hsb, hs⟩ := hwf
  have hsoft : softBoundTypes c = .ok () := by
    unfold softBoundTypes; rw [boundTypes_ok_iff, h]; exact hsb
  have hbt' : boundTypes c.ptype c.bounds = .ok () := by
    rw [boundTypes_ok_iff, h]; exact hbt
  unfold validate Sat; simp only [h, rangeValidate, hsoft, ok_seq]
  cases v with
  | none =>
    cases hn : c.allowNone <;>
      simp [numericTupleValue, tupleValue, tupleLength, rangeBounds, rangeOrder, NoneOk, OnTuple, PyVal.isNone,
        PyVal.isTuple, hn, hbt', (rangeStep_ok_iff c).2 hs]
    cases c.bounds with
    | none => rfl
    | some p => rfl
  | tuple xs =>
    have hno : ¬ NoneOk c (.tuple xs) := by simp [NoneOk, PyVal.isNone]
    simp only [hno, false_or, OnTuple]
    match xs with
    | [] => cases hn : c.allowNone <;>
        simp [numericTupleValue, tupleValue, tupleLength, len?, OnPair, PyVal.isNone, PyVal.isTuple, PyVal.iter?, hlen, hn]
    | [a] => cases hn : c.allowNone <;>
        simp [numericTupleValue, tupleValue, tupleLength, len?, OnPair, PyVal.isNone, PyVal.isTuple, PyVal.iter?, hlen, hn]
    | a :: b :: d :: rest => cases hn : c.allowNone <;>
        simp [numericTupleValue, tupleValue, tupleLength, len?, OnPair, PyVal.isNone, PyVal.isTuple, PyVal.iter?, hlen, hn]
    | [a, b] =>
      rw [seq_ok_iff]
      simp only [OnPair]
      have hv : numericTupleValue c (.tuple [a, b]) = .ok () ↔ a.isNumber = true ∧ b.isNumber = true := by
        cases hn : c.allowNone <;>
          simp [numericTupleValue, tupleValue, PyVal.isNone, PyVal.isTuple, PyVal.iter?, hn]
      rw [hv]
      constructor
      · rintro ⟨⟨ha, hb⟩, ht⟩
        have := (rangeTail_pair c id a b hlen (by rw [mapBounds_id]; exact hbt') hs
          (isNone_of_isNumber ha) (isNone_of_isNumber hb)).1 (by simpa [mapBounds_id] using ht)
        exact ⟨ha, hb, this⟩
      · rintro ⟨ha, hb, hr⟩
        have := (rangeTail_pair c id a b hlen (by rw [mapBounds_id]; exact hbt') hs
          (isNone_of_isNumber ha) (isNone_of_isNumber hb)).2 hr
        exact ⟨⟨ha, hb⟩, by simpa [mapBounds_id] using this⟩
  | _ =>
    cases hn : c.allowNone <;>
      simp [numericTupleValue, tupleValue, NoneOk, OnTuple, PyVal.isNone, PyVal.isTuple, hn]

theorem dateRange_iff (c : Cfg) (x : Ctx) (v : PyVal) (h : c.ptype = .dateRange) (hwf : WF c) :
    validate c x v = .ok () ↔ Sat c x v := by
  unfold WF at hwf; simp only [h] at hwf
  obtain ⟨hlen, hbt, hsb, hs⟩ := hwf
  have hsoft : softBoundTypes c = .ok () := by
    unfold softBoundTypes; rw [boundTypes_ok_iff, h]; exact hsb
  have hbt' : boundTypes c.ptype (mapBounds PyVal.toDatetime c.bounds) = .ok () := by
    rw [boundTypes_ok_iff, h]; exact (boundsOfType_toDatetime c.bounds).2 hbt
  unfold validate Sat; simp only [h, rangeValidate, hsoft, ok_seq]
  cases v with
  | none =>
    cases hn : c.allowNone <;>
      simp [dateRangeValue, dateRangeBounds, tupleLength, rangeBounds, rangeOrder, NoneOk, OnTuple, PyVal.isNone,
        hn, hbt', (rangeStep_ok_iff c).2 hs]
    cases mapBounds PyVal.toDatetime c.bounds with
    | none => rfl
    | some p => rfl
  | tuple xs =>
    have hno : ¬ NoneOk c (.tuple xs) := by simp [NoneOk, PyVal.isNone]
    simp only [hno, false_or, OnTuple]
    match xs with
    | [] => cases hn : c.allowNone <;> simp [dateRangeValue, unpack2, OnPair, PyVal.isNone, hn]
    | [a] => cases hn : c.allowNone <;> simp [dateRangeValue, unpack2, OnPair, PyVal.isNone, hn]
    | a :: b :: d :: rest => cases hn : c.allowNone <;> simp [dateRangeValue, unpack2, OnPair, PyVal.isNone, hn]
    | [a, b] =>
      rw [seq_ok_iff]
      simp only [OnPair]
      have hv : dateRangeValue c (.tuple [a, b]) = .ok () ↔
          a.isDt = true ∧ b.isDt = true ∧ PyVal.le? a b = some true := by
        cases hn : c.allowNone <;> cases ha : a.isDt <;> cases hb : b.isDt <;>
          simp [dateRangeValue, unpack2, PyVal.isNone, PyVal.ge?, hn, ha, hb]
      rw [hv]
      have hd : dateRangeBounds c (.tuple [a, b]) =
          rangeBounds c (mapBounds PyVal.toDatetime c.bounds) (.tuple [a.toDatetime, b.toDatetime]) := by
        simp [dateRangeBounds]
      rw [hd]
      constructor
      · rintro ⟨⟨ha, hb, hle⟩, ht⟩
        exact ⟨ha, hb, hle, (rangeTail_pair c PyVal.toDatetime a b hlen hbt' hs
          (isNone_of_isDt ha) (isNone_of_isDt hb)).1 ht⟩
      · rintro ⟨ha, hb, hle, hr⟩
        exact ⟨⟨ha, hb, hle⟩, (rangeTail_pair c PyVal.toDatetime a b hlen hbt' hs
          (isNone_of_isDt ha) (isNone_of_isDt hb)).2 hr⟩
  | _ =>
    cases hn : c.allowNone <;>
      simp [dateRangeValue, NoneOk, OnTuple, PyVal.isNone, hn]

theorem calendarDateRange_iff (c : Cfg) (x : Ctx) (v : PyVal) (h : c.ptype = .calendarDateRange)
    (hwf : WF c) :
    validate c x v = .ok () ↔ Sat c x v := by
  unfold WF at hwf; simp only [h] at hwf
  obtain ⟨hlen, hbt, hsb, hs⟩ := hwf
  have hsoft : softBoundTypes c = .ok () := by
    unfold softBoundTypes; rw [boundTypes_ok_iff, h]; exact hsb
  have hbt' : boundTypes c.ptype (mapBounds id c.bounds) = .ok () := by
    rw [boundTypes_ok_iff, h, mapBounds_id]; exact hbt
  unfold validate Sat; simp only [h, rangeValidate, hsoft, ok_seq]
  cases v with
  | none =>
    cases hn : c.allowNone <;>
      simp [calendarDateRangeValue, tupleLength, rangeBounds, rangeOrder, NoneOk, OnTuple, PyVal.isNone,
        PyVal.iter?, hn, (rangeStep_ok_iff c).2 hs]
    rw [mapBounds_id] at hbt'
    rw [hbt']
    cases c.bounds <;> simp
  | tuple xs =>
    have hno : ¬ NoneOk c (.tuple xs) := by simp [NoneOk, PyVal.isNone]
    simp only [hno, false_or, OnTuple]
    match xs with
    | [] => cases hn : c.allowNone <;> simp [calendarDateRangeValue, unpack2, OnPair, PyVal.isNone, hn]
    | [a] => cases hn : c.allowNone <;> simp [calendarDateRangeValue, unpack2, OnPair, PyVal.isNone, hn]
    | a :: b :: d :: rest =>
      cases hn : c.allowNone <;> simp [calendarDateRangeValue, unpack2, OnPair, PyVal.isNone, hn]
    | [a, b] =>
      rw [seq_ok_iff]
      simp only [OnPair]
      have hv : calendarDateRangeValue c (.tuple [a, b]) = .ok () ↔
          a.isDt = true ∧ a.isDatetime = false ∧ b.isDt = true ∧ b.isDatetime = false ∧
            PyVal.le? a b = some true := by
        cases hn : c.allowNone <;> cases ha : a.isDt <;> cases hb : b.isDt <;>
          cases ha' : a.isDatetime <;> cases hb' : b.isDatetime <;>
          simp [calendarDateRangeValue, unpack2, PyVal.isNone, PyVal.ge?, hn, ha, hb, ha', hb']
      rw [hv]
      constructor
      · rintro ⟨⟨ha, ha', hb, hb', hle⟩, ht⟩
        exact ⟨ha, ha', hb, hb', hle, (rangeTail_pair c id a b hlen hbt' hs
          (isNone_of_isDt ha) (isNone_of_isDt hb)).1 (by simpa [mapBounds_id] using ht)⟩
      · rintro ⟨ha, ha', hb, hb', hle, hr⟩
        have := (rangeTail_pair c id a b hlen hbt' hs (isNone_of_isDt ha) (isNone_of_isDt hb)).2 hr
        exact ⟨⟨ha, ha', hb, hb', hle⟩, by simpa [mapBounds_id] using this⟩
  | _ =>
    cases hn : c.allowNone <;>
      simp [calendarDateRangeValue, NoneOk, OnTuple, PyVal.isNone, hn]

/-! ### List, HookList -/

theorem itemOk_iff (x : Ctx) (isInst : Bool) (ks : List Nat) (v : PyVal) :
    itemOk x isInst ks v = true ↔ ClassOk x isInst ks v := by
  unfold itemOk ClassOk
  cases isInst
  · cases v <;> simp [OnCls]
  · simp

theorem listBounds_list (c : Cfg) (xs : List PyVal) :
    listBounds c (.list xs) = .ok () ↔ LenOk c.lenBounds xs.length := by
  unfold listBounds LenOk
  rcases c.lenBounds with _ | ⟨mn, mx⟩
  · simp
  · rcases mn with _ | a <;> rcases mx with _ | b <;> simp [PyVal.isNone, len?]

theorem listItemType_list (c : Cfg) (x : Ctx) (xs : List PyVal) :
    listItemType c x (.list xs) = .ok () ↔ ItemsOk c x xs := by
  unfold listItemType ItemsOk
  rcases c.itemType with _ | ks
  · simp
  · cases hall : xs.all (itemOk x c.isInstance ks) <;>
      simp [PyVal.isNone, PyVal.iter?, hall]
    · simp only [List.all_eq_false] at hall
      obtain ⟨i, hi, hf⟩ := hall
      exact ⟨i, hi, fun hc => hf ((itemOk_iff x c.isInstance ks i).2 hc)⟩
    · simp only [List.all_eq_true] at hall
      exact fun i hi => (itemOk_iff x c.isInstance ks i).1 (hall i hi)

theorem list_iff (c : Cfg) (x : Ctx) (v : PyVal) (h : c.ptype = .list) :
    validate c x v = .ok () ↔ Sat c x v := by
  unfold validate Sat; simp only [h]
  cases v with
  | none =>
    cases hn : c.allowNone <;> simp [listValue, listBounds, listItemType, NoneOk, OnList, PyVal.isNone, PyVal.isList, hn]
    constructor
    · cases c.lenBounds <;> simp
    · cases c.itemType <;> simp
  | list xs =>
    simp only [seq_ok_iff, listBounds_list, listItemType_list]
    cases hn : c.allowNone <;> simp [listValue, NoneOk, OnList, PyVal.isNone, PyVal.isList, hn]
  | _ => cases hn : c.allowNone <;> simp [listValue, NoneOk, OnList, PyVal.isNone, PyVal.isList, hn]

theorem hookList_iff (c : Cfg) (x : Ctx) (v : PyVal) (h : c.ptype = .hookList) :
    validate c x v = .ok () ↔ Sat c x v := by
  unfold validate Sat; simp only [h]
  cases v with
  | none =>
    cases hn : c.allowNone <;>
      simp [hookListValue, listValue, listBounds, listItemType, NoneOk, OnList, PyVal.isNone, PyVal.isList, hn]
    constructor
    · cases c.lenBounds <;> simp
    · cases c.itemType <;> simp
  | list xs =>
    simp only [seq_ok_iff, listBounds_list, listItemType_list]
    cases hn : c.allowNone <;>
      simp [hookListValue, listValue, NoneOk, OnList, PyVal.isNone, PyVal.isList, PyVal.iter?, hn]
  | _ => cases hn : c.allowNone <;> simp [hookListValue, listValue, NoneOk, OnList, PyVal.isNone, PyVal.isList, hn]

/-! ### Selector family -/

theorem pyIn_iff (v : PyVal) (os : List PyVal) : PyVal.pyIn v os = true ↔ Member os v := by
  simp [PyVal.pyIn, Member]

theorem selector_iff (c : Cfg) (x : Ctx) (v : PyVal) (h : c.ptype = .selector) :
    validate c x v = .ok () ↔ Sat c x v := by
  unfold validate Sat; simp only [h]
  unfold selectorValidate selectorValue selectorRejects
  cases hc : c.checkOnSet <;> cases hn : c.allowNone <;> cases hv : v.isNone <;>
    cases hm : PyVal.pyIn v c.objects <;>
    simp [NoneOk, hv, hn, ← pyIn_iff, hm]

/-- what the ListSelector test lets through, item by item: members of the objects -/
theorem not_listItemRejects_iff (c : Cfg) (o : PyVal) (hc : c.checkOnSet = true) :
    (!listItemRejects c o) = true ↔ Member c.objects o := by
  unfold listItemRejects selectorRejects
  cases hn : c.allowNone <;> cases hv : o.isNone <;> cases hm : PyVal.pyIn o c.objects <;>
    simp [hc, ← pyIn_iff, hm]

theorem listSelector_iff (c : Cfg) (x : Ctx) (v : PyVal) (h : c.ptype = .listSelector) :
    validate c x v = .ok () ↔ Sat c x v := by
  unfold validate Sat; simp only [h]
  unfold listSelectorValidate
  cases v with
  | none => cases hn : c.allowNone <;> simp [NoneOk, OnList, PyVal.isNone, hn]
  | list xs =>
    have hno : ¬ NoneOk c (.list xs) := by simp [NoneOk, PyVal.isNone]
    simp only [hno, false_or, OnList, PyVal.isNone, Bool.false_and, Bool.false_eq_true, if_false]
    cases hc : c.checkOnSet
    · simp
    · simp only [if_true, Bool.true_eq_false, false_or]
      cases hall : xs.all (fun o => !listItemRejects c o)
      · simp only [Bool.false_eq_true, if_false, valueErr_eq_ok, false_iff]
        simp only [List.all_eq_false] at hall
        obtain ⟨i, hi, hf⟩ := hall
        exact fun hm => hf ((not_listItemRejects_iff c i hc).2 (hm i hi))
      · simp only [if_true, ok_def, true_iff]
        simp only [List.all_eq_true] at hall
        exact fun i hi => (not_listItemRejects_iff c i hc).1 (hall i hi)
  | _ => cases hn : c.allowNone <;> simp [NoneOk, OnList, PyVal.isNone, hn]

theorem classSelectorCore_iff (c : Cfg) (x : Ctx) (v : PyVal) :
    classSelectorValidate c x v = .ok () ↔ NoneOk c v ∨ ClassOk x c.isInstance c.classes v := by
  unfold classSelectorValidate ClassOk NoneOk
  cases hi : c.isInstance <;> cases hn : c.allowNone <;> cases hv : v.isNone <;> simp
  all_goals (cases v <;> simp_all [OnCls, PyVal.isNone])

theorem classSelector_iff (c : Cfg) (x : Ctx) (v : PyVal) (h : c.ptype = .classSelector) :
    validate c x v = .ok () ↔ Sat c x v := by
  unfold validate Sat; simp only [h]; exact classSelectorCore_iff c x v

theorem dict_iff (c : Cfg) (x : Ctx) (v : PyVal) (h : c.ptype = .dict) :
    validate c x v = .ok () ↔ Sat c x v := by
  unfold validate Sat; simp only [h]; exact classSelectorCore_iff c x v

/-! ### Color -/

theorem color_iff (c : Cfg) (x : Ctx) (v : PyVal) (h : c.ptype = .color) :
    validate c x v = .ok () ↔ Sat c x v := by
  unfold validate Sat; simp only [h]
  cases v with
  | none => cases hn : c.allowNone <;> simp [colorValue, colorNamed, NoneOk, OnStr, PyVal.isNone, PyVal.isStr, hn]
  | str s =>
    cases hn : c.allowNone <;> cases ha : c.allowNamed <;> cases hh : hexBody s.toList <;>
      simp [colorValue, colorNamed, hexMatch, NoneOk, OnStr, IsHexColor, IsNamedColor, PyVal.isNone, PyVal.isStr, hn, ha, hh]
  | _ => cases hn : c.allowNone <;> simp [colorValue, colorNamed, NoneOk, OnStr, PyVal.isNone, PyVal.isStr, hn]

/-! ### error kinds -/

/-- the result is `ok`, a ValueError or a TypeError -/
def NoOther (r : R) : Prop :=
  match r with
  | .error (.other _) => False
  | _ => True

theorem noOther_iff (r : R) : NoOther r ↔ ∀ e, r = .error e → e = .valueError ∨ e = .typeError := by
  unfold NoOther
  rcases r with (_ | _ | n) | u <;> simp

@[simp] theorem noOther_ok : NoOther (.ok ()) := by simp [NoOther]
@[simp] theorem noOther_ok' : NoOther ok := by simp [NoOther, ok]
@[simp] theorem noOther_valueErr : NoOther valueErr := by simp [NoOther, valueErr]
@[simp] theorem noOther_typeErr : NoOther typeErr := by simp [NoOther, typeErr]
@[simp] theorem noOther_require (r : Option Bool) : NoOther (require r) := by
  rcases r with _ | b
  · simp [require]
  · cases b <;> simp [require]

theorem noOther_seq {a b : R} (ha : NoOther a) (hb : a = .ok () → NoOther b) : NoOther (a ;; b) := by
  unfold seq
  rcases a with e | u
  · exact ha
  · cases u; exact hb rfl

/-- closes `NoOther (f …)` for validators built from `if`/`match` over `ok`/`valueErr`/`typeErr`/`require` -/
macro "no_other" : tactic =>
  `(tactic| ((repeat' split) <;> (try simp) <;> (repeat' split) <;> (try simp)))

theorem noOther_stringValue (c : Cfg) (v : PyVal) : NoOther (stringValue c v) := by unfold stringValue; no_other
theorem noOther_bytesValue (c : Cfg) (v : PyVal) : NoOther (bytesValue c v) := by unfold bytesValue; no_other
theorem noOther_regexCheck (c : Cfg) (x : Ctx) (v : PyVal) : NoOther (regexCheck c x v) := by
  unfold regexCheck; no_other
theorem noOther_numberValue (c : Cfg) (v : PyVal) : NoOther (numberValue c v) := by unfold numberValue; no_other
theorem noOther_integerValue (c : Cfg) (v : PyVal) : NoOther (integerValue c v) := by unfold integerValue; no_other
theorem noOther_dateValue (c : Cfg) (v : PyVal) : NoOther (dateValue c v) := by unfold dateValue; no_other
theorem noOther_calendarDateValue (c : Cfg) (v : PyVal) : NoOther (calendarDateValue c v) := by
  unfold calendarDateValue; no_other
theorem noOther_booleanValue (c : Cfg) (v : PyVal) : NoOther (booleanValue c v) := by unfold booleanValue; no_other
theorem noOther_callableValue (c : Cfg) (v : PyVal) : NoOther (callableValue c v) := by unfold callableValue; no_other
theorem noOther_tupleValue (c : Cfg) (v : PyVal) : NoOther (tupleValue c v) := by unfold tupleValue; no_other
theorem noOther_tupleLength (c : Cfg) (v : PyVal) : NoOther (tupleLength c v) := by unfold tupleLength; no_other
theorem noOther_listValue (c : Cfg) (v : PyVal) : NoOther (listValue c v) := by unfold listValue; no_other
theorem noOther_listBounds (c : Cfg) (v : PyVal) : NoOther (listBounds c v) := by unfold listBounds; no_other
theorem noOther_listItemType (c : Cfg) (x : Ctx) (v : PyVal) : NoOther (listItemType c x v) := by
  unfold listItemType; no_other
theorem noOther_selectorValidate (c : Cfg) (v : PyVal) : NoOther (selectorValidate c v) := by
  unfold selectorValidate selectorValue; no_other
theorem noOther_listSelectorValidate (c : Cfg) (v : PyVal) : NoOther (listSelectorValidate c v) := by
  unfold listSelectorValidate; no_other
theorem noOther_classSelectorValidate (c : Cfg) (x : Ctx) (v : PyVal) : NoOther (classSelectorValidate c x v) := by
  unfold classSelectorValidate; no_other
theorem noOther_colorValue (c : Cfg) (v : PyVal) : NoOther (colorValue c v) := by unfold colorValue; no_other
theorem noOther_colorNamed (c : Cfg) (v : PyVal) : NoOther (colorNamed c v) := by unfold colorNamed; no_other
theorem noOther_rangeStep (c : Cfg) : NoOther (rangeStep c) := by unfold rangeStep; no_other
theorem noOther_numberStep (c : Cfg) : NoOther (numberStep c) := by unfold numberStep; no_other
theorem noOther_boundTypes (t : PType) (b : Bounds) : NoOther (boundTypes t b) := by
  unfold boundTypes
  rcases b with _ | ⟨lo, hi⟩
  · simp
  · apply noOther_seq <;> (intros; no_other)

theorem noOther_numberBounds (an : Bool) (b : Bounds) (i : Bool × Bool) (v : PyVal) :
    NoOther (numberBounds an b i v) := by
  unfold numberBounds
  rcases b with _ | ⟨lo, hi⟩
  · simp
  · simp only
    split
    · simp
    · apply noOther_seq <;> (intros; no_other)

theorem noOther_numericTupleValue (c : Cfg) (v : PyVal) : NoOther (numericTupleValue c v) := by
  unfold numericTupleValue
  exact noOther_seq (noOther_tupleValue c v) (fun _ => by no_other)

theorem noOther_hookListValue (c : Cfg) (v : PyVal) : NoOther (hookListValue c v) := by
  unfold hookListValue
  exact noOther_seq (noOther_listValue c v) (fun _ => by no_other)

theorem noOther_dateRangeValue (c : Cfg) (v : PyVal) : NoOther (dateRangeValue c v) := by
  unfold dateRangeValue; no_other
theorem noOther_calendarDateRangeValue (c : Cfg) (v : PyVal) : NoOther (calendarDateRangeValue c v) := by
  unfold calendarDateRangeValue; no_other

theorem noOther_rangeElems (lo hi : Option PyVal) (i : Bool × Bool) (xs : List PyVal) :
    NoOther (rangeElems lo hi i xs) := by
  induction xs with
  | nil => simp [rangeElems]
  | cons v rest ih =>
    rw [rangeElems]
    split
    · simp
    · simp
    · split
      · simp
      · exact ih

theorem noOther_rangeBounds (c : Cfg) (b : Bounds) (v : PyVal) : NoOther (rangeBounds c b v) := by
  unfold rangeBounds
  refine noOther_seq (noOther_boundTypes _ _) (fun _ => ?_)
  rcases b with _ | ⟨lo, hi⟩
  · simp
  · simp only
    split
    · simp
    · split
      · simp
      · exact noOther_rangeElems _ _ _ _

/-- the order test leaks no KeyError / IndexError on a pair (or on `None`) -/
theorem noOther_rangeOrder_pair (c : Cfg) (a b : PyVal) : NoOther (rangeOrder c (.tuple [a, b])) := by
  unfold rangeOrder; simp only [PyVal.iter?, unpack2]; no_other

theorem noOther_rangeOrder_none (c : Cfg) : NoOther (rangeOrder c .none) := by
  unfold rangeOrder; simp only [PyVal.iter?]; no_other

theorem tupleLength_tuple_ok (c : Cfg) (xs : List PyVal) (hlen : c.length = 2)
    (h : tupleLength c (.tuple xs) = .ok ()) : ∃ a b, xs = [a, b] := by
  have : xs.length = 2 := by
    cases hn : c.allowNone <;> simp [tupleLength, len?, PyVal.isNone, hlen, hn] at h <;> exact h
  match xs, this with
  | [a, b], _ => exact ⟨a, b, rfl⟩

/-- tail of `Range._validate` after the value test, on `None` or a tuple -/
theorem noOther_rangeTail (c : Cfg) (bounds : R) (v : PyVal) (hlen : c.length = 2)
    (hb : NoOther bounds) (hv : v.isNone = true ∨ v.isTuple = true) :
    NoOther (tupleLength c v ;; bounds ;; softBoundTypes c ;; rangeStep c ;; rangeOrder c v) := by
  refine noOther_seq (noOther_tupleLength c v) (fun hl => ?_)
  refine noOther_seq hb (fun _ => ?_)
  refine noOther_seq (noOther_boundTypes _ _) (fun _ => ?_)
  refine noOther_seq (noOther_rangeStep c) (fun _ => ?_)
  cases v with
  | none => exact noOther_rangeOrder_none c
  | tuple xs =>
    obtain ⟨a, b, rfl⟩ := tupleLength_tuple_ok c xs hlen hl
    exact noOther_rangeOrder_pair c a b
  | _ => simp [PyVal.isNone, PyVal.isTuple] at hv

/-- on a number, the Number family tests nothing but the bounds -/
theorem numberLike_iff (c : Cfg) (x : Ctx) (k : NumKind) (q : ExtRat) (h : NumberLike c (.num k q))
    (hwf : WF c) :
    validate c x (.num k q) = .ok () ↔ InBounds c.bounds c.incl (.num k q) := by
  rcases h with h | h | ⟨h, hint⟩
  · rw [number_iff c x _ h hwf]; unfold Sat
    simp [h, NoneOk, DynamicOk, PyVal.isNone, PyVal.isCallable, PyVal.isNumber]
  · rw [magnitude_iff c x _ h hwf]; unfold Sat
    simp [h, NoneOk, DynamicOk, PyVal.isNone, PyVal.isCallable, PyVal.isNumber]
  · rw [integer_iff c x _ h hwf]; unfold Sat
    simp [h, NoneOk, DynamicOk, PyVal.isNone, PyVal.isCallable, hint]

/-! ### NaN -/

@[simp] theorem ExtRat.le_nan_left (a : ExtRat) : ExtRat.le .nan a = false := rfl
@[simp] theorem ExtRat.le_nan_right (a : ExtRat) : ExtRat.le a .nan = false := by cases a <;> rfl
@[simp] theorem ExtRat.lt_nan_left (a : ExtRat) : ExtRat.lt .nan a = false := rfl
@[simp] theorem ExtRat.lt_nan_right (a : ExtRat) : ExtRat.lt a .nan = false := by cases a <;> rfl

theorem isNumber_eq_num {v : PyVal} (h : v.isNumber = true) : ∃ k q, v = .num k q := by
  cases v <;> simp [PyVal.isNumber] at h
  exact ⟨_, _, rfl⟩

/-- NaN is inside no interval that has a numeric bound on some side -/
theorem nan_not_inBounds (k : NumKind) (lo hi : Option PyVal) (incl : Bool × Bool)
    (hside : lo.isSome = true ∨ hi.isSome = true)
    (hnum : BoundsOfType PyVal.isNumber (some (lo, hi))) :
    ¬ InBounds (some (lo, hi)) incl (.num k .nan) := by
  rcases incl with ⟨il, iu⟩
  simp only [BoundsOfType] at hnum
  rcases lo with _ | l <;> rcases hi with _ | u <;> simp at hside
  · obtain ⟨k', q', rfl⟩ := isNumber_eq_num hnum.2
    cases iu <;> simp [InBounds, AboveOpt, BelowOpt, Below, PyVal.le?, PyVal.lt?]
  · obtain ⟨k', q', rfl⟩ := isNumber_eq_num hnum.1
    cases il <;> simp [InBounds, AboveOpt, BelowOpt, Above, PyVal.le?, PyVal.lt?]
  · obtain ⟨k', q', rfl⟩ := isNumber_eq_num hnum.1
    cases il <;> simp [InBounds, AboveOpt, BelowOpt, Above, PyVal.le?, PyVal.lt?]

/-- … and the bounds test of the Number family answers it with a ValueError -/
theorem numberBounds_nan (an : Bool) (k : NumKind) (lo hi : Option PyVal) (incl : Bool × Bool)
    (hside : lo.isSome = true ∨ hi.isSome = true)
    (hnum : BoundsOfType PyVal.isNumber (some (lo, hi))) :
    numberBounds an (some (lo, hi)) incl (.num k .nan) = valueErr := by
  rcases incl with ⟨il, iu⟩
  simp only [BoundsOfType] at hnum
  rcases lo with _ | l <;> rcases hi with _ | u <;> simp at hside
  · obtain ⟨k', q', rfl⟩ := isNumber_eq_num hnum.2
    cases iu <;> simp [numberBounds, PyVal.isNone, PyVal.isCallable, PyVal.le?, PyVal.lt?, require, seq, valueErr]
  · obtain ⟨k', q', rfl⟩ := isNumber_eq_num hnum.1
    cases il <;> simp [numberBounds, PyVal.isNone, PyVal.isCallable, PyVal.le?, PyVal.lt?, PyVal.ge?, PyVal.gt?, require, seq, valueErr]
  · obtain ⟨k', q', rfl⟩ := isNumber_eq_num hnum.2
    cases iu <;> simp [numberBounds, PyVal.isNone, PyVal.isCallable, PyVal.le?, PyVal.lt?, require, seq, valueErr]

/-! ### constructors -/

theorem specDefault_eq (a : Args) : specDefault a = ctorDefault a := by
  unfold specDefault ctorDefault
  cases a.default <;> simp
  split <;> simp_all

theorem declaredCfg_eq (a : Args) (n : Nat) : declaredCfg a n = { baseCfg a with length := n } := by
  unfold declaredCfg baseCfg declaredAllowNone declaredBounds effBounds declaredItemType effItemType
  rw [specDefault_eq]
  simp only [Cfg.mk.injEq, true_and, and_true]
  refine ⟨?_, ?_, ?_⟩
  · cases a.ptype <;> simp [effAllowNone] <;> cases (ctorDefault a).isNone <;> simp
  · cases a.bounds <;> cases a.ptype <;> simp
  · rcases a.itemType with _ | (_ | ks) <;> rcases a.classAlias with _ | cs <;> simp <;> cases a.ptype <;> rfl

theorem filter_wf (c : Cfg) (h : WF c) : Option.filter (fun c => decide (WF c)) (some c) = some c := by
  simp [Option.filter, h]

/-- the length the constructor installs is the length in force -/
theorem modelLength_eq (a : Args) (ht : isTupleFamily a.ptype = true) :
    modelLength a = specLength a := by
  unfold modelLength specLength lengthDeclared
  rw [specDefault_eq]
  cases hp : a.ptype <;> simp [hp, isTupleFamily] at ht <;> simp only [hp, lengthArg] <;>
    rcases hd : a.default with _ | d0 <;> simp [ctorDefault, hd, hp] <;>
    (try split) <;> simp_all <;> cases a.length <;> rfl

/-- the declared constraints are the slots the constructor installs, provided they are well-formed -/
theorem specCfg_of_mkCfg (a : Args) (c : Cfg) (d : PyVal) (hmk : mkCfg a = .ok (c, d)) :
    specCfg a = Option.filter (fun c => decide (WF c)) (some c) ∧ d = specDefault a := by
  unfold mkCfg at hmk
  unfold specCfg
  rw [specDefault_eq]
  cases ht : isTupleFamily a.ptype
  · simp only [ht, Bool.false_eq_true, if_false, Except.ok.injEq, Prod.mk.injEq] at hmk
    obtain ⟨rfl, rfl⟩ := hmk
    have hl : specLength a = some 0 := by
      unfold specLength; cases hp : a.ptype <;> simp_all [isTupleFamily]
    rw [hl]
    exact ⟨by simp only [Option.map, declaredCfg_eq]; rfl, rfl⟩
  · simp only [ht, if_true] at hmk
    split at hmk
    · simp at hmk
    · rw [← modelLength_eq a ht]
      cases hm : modelLength a with
      | none => simp [hm] at hmk
      | some n =>
        simp only [hm, Except.ok.injEq, Prod.mk.injEq] at hmk
        obtain ⟨rfl, rfl⟩ := hmk
        exact ⟨by simp only [Option.map, declaredCfg_eq], rfl⟩

/-- `ctor_arg_effective`, structural part: the slots the constructor installs are the declared ones -/
theorem mkCfg_spec (a : Args) (c : Cfg) (d : PyVal)
    (hmk : mkCfg a = .ok (c, d)) (hwf : WF c) : specCfg a = some c ∧ d = specDefault a := by
  obtain ⟨h1, h2⟩ := specCfg_of_mkCfg a c d hmk
  exact ⟨by rw [h1]; exact filter_wf c hwf, h2⟩

/-- a constructor that raises before validating had nothing well-formed to declare -/
theorem specCfg_of_mkCfg_error (a : Args) (e : ErrKind) (hmk : mkCfg a = .error e) : specCfg a = none := by
  unfold mkCfg at hmk
  unfold specCfg
  cases ht : isTupleFamily a.ptype
  · simp [ht] at hmk
  · simp only [ht, if_true] at hmk
    have hnone : specLength a = none := by
      split at hmk
      · rename_i hcond
        simp only [Bool.and_eq_true] at hcond
        rw [← modelLength_eq a ht]
        unfold modelLength
        have hdn : (ctorDefault a).isNone = true := hcond.2
        have hla : lengthArg a = none := by
          cases h : lengthArg a <;> simp_all
        have htr : truthy (ctorDefault a) = false := by
          cases hcd : ctorDefault a <;> simp_all [PyVal.isNone, truthy]
        simp [htr, hla]
        cases hcd : ctorDefault a <;> simp_all [PyVal.isNone, len?]
      · rw [← modelLength_eq a ht]
        cases hm : modelLength a with
        | none => rfl
        | some n => simp [hm] at hmk
    simp [hnone]

theorem selectorValue_eq (c : Cfg) (v : PyVal) : selectorValue c v = selectorValidate c v := by
  unfold selectorValidate selectorValue selectorRejects
  cases c.checkOnSet <;> simp

/-- constructor-time validation agrees with `_validate` except that a Selector may default to `None` -/
theorem ctorValidate_eq (c : Cfg) (x : Ctx) (d : PyVal) :
    ctorValidate c x d =
      (if (c.ptype = .selector ∨ c.ptype = .listSelector) ∧ d.isNone = true then ok else validate c x d) := by
  unfold ctorValidate
  cases h : c.ptype <;> simp
  · -- selector
    cases hd : d.isNone <;> simp [validate, h, selectorValue_eq]
  · -- listSelector
    cases d <;> simp [validate, h, listSelectorValidate, PyVal.isNone]
    rename_i xs
    cases hc : c.checkOnSet <;> simp [listItemRejects, selectorRejects, hc]

/-- what `mkCfg` returns -/
theorem mkCfg_ok_shape (a : Args) (c : Cfg) (d : PyVal) (hmk : mkCfg a = .ok (c, d)) :
    d = ctorDefault a ∧
    ((isTupleFamily a.ptype = false ∧ c = baseCfg a) ∨
     (isTupleFamily a.ptype = true ∧ ∃ n, modelLength a = some n ∧ c = { baseCfg a with length := n })) := by
  unfold mkCfg at hmk
  cases ht : isTupleFamily a.ptype
  · simp only [ht, Bool.false_eq_true, if_false, Except.ok.injEq, Prod.mk.injEq] at hmk
    exact ⟨hmk.2.symm, Or.inl ⟨rfl, hmk.1.symm⟩⟩
  · simp only [ht, if_true] at hmk
    split at hmk
    · simp at hmk
    · cases hm : modelLength a with
      | none => simp [hm] at hmk
      | some n =>
        simp only [hm, Except.ok.injEq, Prod.mk.injEq] at hmk
        exact ⟨hmk.2.symm, Or.inr ⟨rfl, n, rfl, hmk.1.symm⟩⟩

theorem mkCfg_err_kind (a : Args) (e : ErrKind) (h : mkCfg a = .error e) :
    e = .valueError ∨ e = .typeError := by
  unfold mkCfg at h
  split at h
  · split at h
    · simp at h; exact Or.inl h.symm
    · split at h
      · simp at h; exact Or.inr h.symm
      · simp at h
  · simp at h

/-- a Range flavour whose `length` slot is not 2 got it from a non-empty default of that length,
and that default does not pass the validator -/
theorem range_bad_length_default (c : Cfg) (x : Ctx) (xs : List PyVal)
    (hp : c.ptype = .range ∨ c.ptype = .dateRange ∨ c.ptype = .calendarDateRange)
    (hne : xs ≠ []) (hlen : xs.length = c.length) (h2 : c.length ≠ 2) :
    validate c x (.tuple xs) ≠ .ok () := by
  intro h
  unfold validate at h
  have hnn : (PyVal.tuple xs).isNone = false := rfl
  match xs, hne, hlen with
  | [a], _, _ =>
    have hnn : (PyVal.tuple [a]).isNone = false := rfl
    rcases hp with hp | hp | hp <;> simp only [hp, rangeValidate, seq_ok_iff] at h
    · obtain ⟨hv, _, _, _, ho⟩ := h
      have ha : a.isNumber = true := by
        cases hn : c.allowNone <;>
          simp [numericTupleValue, tupleValue, PyVal.isNone, PyVal.isTuple, PyVal.iter?, hn] at hv <;> exact hv
      have := isNone_of_isNumber ha
      cases hn : c.allowNone <;> simp [rangeOrder, hnn, PyVal.iter?, this, hn] at ho
    · have hv := h.1
      cases hn : c.allowNone <;> cases hd : a.isDt <;> simp [dateRangeValue, unpack2, PyVal.isNone, hn, hd] at hv
    · have hv := h.1
      cases hn : c.allowNone <;> cases hd : (a.isDt && !a.isDatetime) <;>
        simp [calendarDateRangeValue, unpack2, PyVal.isNone, hn, hd] at hv
  | [a, b], _, hl => exact h2 (by simpa using hl.symm)
  | a :: b :: d :: rest, _, _ =>
    have hnn : (PyVal.tuple (a :: b :: d :: rest)).isNone = false := rfl
    rcases hp with hp | hp | hp <;> simp only [hp, rangeValidate, seq_ok_iff] at h
    · obtain ⟨hv, _, _, _, ho⟩ := h
      have hab : a.isNumber = true ∧ b.isNumber = true := by
        cases hn : c.allowNone <;>
          simp [numericTupleValue, tupleValue, PyVal.isNone, PyVal.isTuple, PyVal.iter?, hn] at hv <;>
          exact ⟨hv.1, hv.2.1⟩
      have h1 := isNone_of_isNumber hab.1
      have h2' := isNone_of_isNumber hab.2
      cases hn : c.allowNone <;> simp [rangeOrder, hnn, PyVal.iter?, unpack2, h1, h2', hn] at ho
    · have hv := h.1
      cases hn : c.allowNone <;> simp [dateRangeValue, unpack2, PyVal.isNone, hn] at hv
    · have hv := h.1
      cases hn : c.allowNone <;> simp [calendarDateRangeValue, unpack2, PyVal.isNone, hn] at hv

/-- a non-tuple value never passes a Range flavour (unless it is an allowed `None`) -/
theorem range_non_tuple (c : Cfg) (x : Ctx) (v : PyVal)
    (hp : c.ptype = .range ∨ c.ptype = .dateRange ∨ c.ptype = .calendarDateRange)
    (hn : v.isNone = false) (ht : v.isTuple = false) : validate c x v ≠ .ok () := by
  intro h
  unfold validate at h
  rcases hp with hp | hp | hp <;> simp only [hp, rangeValidate, seq_ok_iff] at h <;> have hv := h.1
  · cases v <;> cases hn' : c.allowNone <;>
      simp_all [numericTupleValue, tupleValue, PyVal.isNone, PyVal.isTuple]
  · cases v <;> cases hn' : c.allowNone <;> simp_all [dateRangeValue, PyVal.isNone, PyVal.isTuple]
  · cases v <;> cases hn' : c.allowNone <;> simp_all [calendarDateRangeValue, PyVal.isNone, PyVal.isTuple]

/-- the checks of `_validate` that do not look at the value: whenever some value passes, the
declaration is well-formed up to the `length` slot -/
theorem wf_mod_length_of_ok (c : Cfg) (x : Ctx) (v : PyVal) (h : validate c x v = .ok ()) :
    WF { c with length := 2 } := by
  unfold validate at h
  unfold WF
  cases hp : c.ptype <;> simp only [hp] at h ⊢ <;> try trivial
  case number => simp only [seq_ok_iff] at h; have := (numberStep_ok_iff c).1 h.2.1; rw [hp] at this; exact this
  case magnitude => simp only [seq_ok_iff] at h; have := (numberStep_ok_iff c).1 h.2.1; rw [hp] at this; exact this
  case integer => simp only [seq_ok_iff] at h; have := (numberStep_ok_iff c).1 h.2.1; rw [hp] at this; exact this
  case date => simp only [seq_ok_iff] at h; have := (numberStep_ok_iff c).1 h.2.1; rw [hp] at this; exact this
  case calendarDate => simp only [seq_ok_iff] at h; have := (numberStep_ok_iff c).1 h.2.1; rw [hp] at this; exact this
  case range =>
    simp only [rangeValidate, seq_ok_iff, rangeBounds, softBoundTypes] at h
    refine ⟨trivial, ?_, ?_, (rangeStep_ok_iff c).1 h.2.2.2.2.1⟩
    · have := (boundTypes_ok_iff _ _).1 h.2.2.1.1; rw [hp] at this; exact this
    · have := (boundTypes_ok_iff _ _).1 h.2.2.2.1; rw [hp] at this; exact this
  case dateRange =>
    simp only [rangeValidate, seq_ok_iff, dateRangeBounds, rangeBounds, softBoundTypes] at h
    refine ⟨trivial, ?_, ?_, (rangeStep_ok_iff c).1 h.2.2.2.2.1⟩
    · have := (boundTypes_ok_iff _ _).1 h.2.2.1.1; rw [hp] at this
      exact (boundsOfType_toDatetime c.bounds).1 this
    · have := (boundTypes_ok_iff _ _).1 h.2.2.2.1; rw [hp] at this; exact this
  case calendarDateRange =>
    simp only [rangeValidate, seq_ok_iff, rangeBounds, softBoundTypes] at h
    refine ⟨trivial, ?_, ?_, (rangeStep_ok_iff c).1 h.2.2.2.2.1⟩
    · have := (boundTypes_ok_iff _ _).1 h.2.2.1.1; rw [hp] at this; exact this
    · have := (boundTypes_ok_iff _ _).1 h.2.2.2.1; rw [hp] at this; exact this

/-- … so what is left of an ill-formed declaration whose value-independent checks pass is a
Range flavour with a `length` other than 2 -/
theorem bad_length_of_not_wf (c : Cfg) (h1 : ¬ WF c) (h2 : WF { c with length := 2 }) :
    (c.ptype = .range ∨ c.ptype = .dateRange ∨ c.ptype = .calendarDateRange) ∧ c.length ≠ 2 := by
  unfold WF at h1 h2
  cases hp : c.ptype <;> simp only [hp] at h1 h2 <;> first
    | exact absurd h2 h1
    | exact ⟨by simp, fun hl => h1 ⟨hl, h2.2⟩⟩

/-- An ill-formed declaration does not survive its constructor: a `step` or bounds of the wrong
type make every `_validate` call raise, and a Range `length` other than 2 can only come from a
default of that length, which the validator refuses. -/
theorem ctorValidate_not_wf (a : Args) (c : Cfg) (d : PyVal) (x : Ctx)
    (hmk : mkCfg a = .ok (c, d)) (hwf : ¬ WF c) : ctorValidate c x d ≠ .ok () := by
  have hnsel : c.ptype ≠ .selector ∧ c.ptype ≠ .listSelector := by
    constructor <;> intro hp <;> exact hwf (by unfold WF; simp [hp])
  have hcv : ctorValidate c x d = validate c x d := by
    unfold ctorValidate; cases hp : c.ptype <;> simp_all
  rw [hcv]
  intro hok
  obtain ⟨hrange, hlen2⟩ := bad_length_of_not_wf c hwf (wf_mod_length_of_ok c x d hok)
  obtain ⟨hd, hshape⟩ := mkCfg_ok_shape a c d hmk
  rcases hshape with ⟨hnt, hc⟩ | ⟨_, n, hm, hc⟩
  · have hpt : c.ptype = a.ptype := by rw [hc]; rfl
    rw [hpt] at hrange
    rcases hrange with h | h | h <;> simp [h, isTupleFamily] at hnt
  · have hpt : c.ptype = a.ptype := by rw [hc]; rfl
    have hlen : c.length = n := by rw [hc]
    have hn2 : n ≠ 2 := by rw [← hlen]; exact hlen2
    have hla : lengthArg a = some 2 := by
      unfold lengthArg; rw [← hpt]; rcases hrange with h | h | h <;> simp [h]
    unfold modelLength at hm
    rw [hla] at hm
    by_cases hdef : (a.default.isSome && truthy (ctorDefault a)) = true
    · simp only [hdef, if_true] at hm
      simp only [Bool.and_eq_true] at hdef
      rw [← hd] at hm hdef
      cases d with
      | tuple xs =>
        have hne : xs ≠ [] := by rintro rfl; simp [truthy] at hdef
        have hl : xs.length = c.length := by
          simp [len?] at hm; rw [hlen]; exact hm
        exact range_bad_length_default c x xs hrange hne hl hlen2 hok
      | none => simp [truthy] at hdef
      | _ => exact range_non_tuple c x _ hrange rfl rfl hok
    · simp only [hdef, Bool.false_eq_true, if_false, Option.some.injEq] at hm
      exact absurd hm.symm hn2

/-! ### routes -/

theorem guard_err_kind (c : Cfg) (s : Situation) (e : ErrKind) (h : guard c s = .error e) : e = .typeError := by
  unfold guard at h
  split at h
  · simp [typeErr] at h; exact h.symm
  · split at h
    · split at h
      · simp [typeErr] at h; exact h.symm
      · simp [ok] at h
    · simp [ok] at h

theorem guard_ok_iff (c : Cfg) (s : Situation) : guard c s = .ok () ↔ GuardOk c s := by
  unfold guard GuardOk
  cases hr : c.readonly <;> cases hc : c.constant <;> simp
  cases s with
  | initialised b => cases b <;> simp
  | _ => simp

/-- once the value that reaches the setter is known, the outcome is "hook, validate, guard, store" -/
theorem assign_cases (r : Route) (c : Cfg) (x : Ctx) (same : Bool) (v w : PyVal)
    (h : routeValue r c v = some w) :
    (validate c x (setterValue c w) = .ok () ∧ guard c (r.situation same) = .ok () ∧
      assign r c x same v = .stored r.target (storedValue c (setterValue c w))) ∨
    (∃ e, validate c x (setterValue c w) = .error e ∧ assign r c x same v = .rejected e) ∨
    (validate c x (setterValue c w) = .ok () ∧ guard c (r.situation same) = .error .typeError ∧
      assign r c x same v = .rejected .typeError) := by
  unfold assign setter
  rw [h]
  rcases hv : validate c x (setterValue c w) with e | u
  · exact Or.inr (Or.inl ⟨e, rfl, by simp [hv]⟩)
  · cases u
    rcases hg : guard c (r.situation same) with e | u
    · have := guard_err_kind c _ e hg
      subst this
      exact Or.inr (Or.inr ⟨rfl, rfl, by simp [hv, hg]⟩)
    · cases u; exact Or.inl ⟨rfl, rfl, by simp [hv, hg]⟩

end ParamVerif.Validate
