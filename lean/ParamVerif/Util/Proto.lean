/-
JSON-lines plumbing shared by the drivers (`lake env lean --run Driver/Cnn.lean`).
One request per line on stdin, one response per line on stdout.
-/
import Lean.Data.Json

namespace ParamVerif.Proto
open Lean

def getInt (j : Json) (k : String) : Except String Int := do
  (← j.getObjVal? k).getInt?
def getNat (j : Json) (k : String) : Except String Nat := do
  (← j.getObjVal? k).getNat?
def getStr (j : Json) (k : String) : Except String String := do
  (← j.getObjVal? k).getStr?
def getBool (j : Json) (k : String) : Except String Bool := do
  (← j.getObjVal? k).getBool?
def getArr (j : Json) (k : String) : Except String (Array Json) := do
  (← j.getObjVal? k).getArr?
def getOpt (j : Json) (k : String) : Option Json :=
  match j.getObjVal? k with
  | .ok .null => none
  | .ok v => some v
  | .error _ => none

partial def loop (h : IO.FS.Stream) (out : IO.FS.Stream) (handle : Json → Except String Json) : IO Unit := do
  let line ← h.getLine
  if line.isEmpty then return ()
  let resp : Json :=
    match Json.parse line with
    | .error e => Json.mkObj [("driver_error", Json.str s!"parse: {e}")]
    | .ok j =>
      match handle j with
      | .ok r => r
      | .error e => Json.mkObj [("driver_error", Json.str e)]
  out.putStrLn resp.compress
  out.flush
  loop h out handle

def serve (handle : Json → Except String Json) : IO Unit := do
  let i ← IO.getStdin
  let o ← IO.getStdout
  loop i o handle
  o.flush

end ParamVerif.Proto
