/-
Lemmas about the cascade interpreter (`Cascade.lean`) and the units of its traces (`CascadeSpec.lean`).

Part A: while the batching flag is set, no callback runs, so `runC` coincides with the compact dispatcher
of `Instance.lean` (whatever the bodies are) and the open-batch invariant `BInv` of `InstanceLemmas.lean`
is maintained with the changed keys read off the trace.
Part B: from a quiet world (no batch open, nothing queued) every statement leaves a quiet world and a trace
all of whose units call each registered watcher exactly once iff the unit changed a key it is registered for
(`CGood`, by strong induction on the fuel).
-/
import ParamVerif.Depends.CascadeSpec
import ParamVerif.Depends.InstanceLemmas

namespace ParamVerif.Depends

/-! ### traces -/

theorem unitsL_append (root : Bool) : ∀ (a b : List T), T.unitsL root (a ++ b) = T.unitsL root a ++ T.unitsL root b := by
  intro a
  induction a with
  | nil => intro b; simp [T.unitsL]
  | cons t rest ih => intro b; simp [T.unitsL, ih]

theorem callsL_append : ∀ (a b : List T), T.callsL (a ++ b) = T.callsL a ++ T.callsL b := by
  intro a
  induction a with
  | nil => intro b; simp [T.callsL]
  | cons t rest ih => intro b; simp [T.callsL, ih]

theorem changedL_append : ∀ (a b : List T), T.changedL (a ++ b) = T.changedL a ++ T.changedL b := by
  intro a
  induction a with
  | nil => intro b; simp [T.changedL]
  | cons t rest ih => intro b; simp [T.changedL, ih]

/-- a trace in which nothing ran: no invocation, no unit below the top -/
structure Silent (tr : List T) : Prop where
  calls : T.callsL tr = []
  units : T.unitsL false tr = []

theorem Silent.nil : Silent [] := ⟨by simp [T.callsL], by simp [T.unitsL]⟩

theorem Silent.append {a b : List T} (ha : Silent a) (hb : Silent b) : Silent (a ++ b) :=
  ⟨by rw [callsL_append, ha.calls, hb.calls]; rfl, by rw [unitsL_append, ha.units, hb.units]; rfl⟩

theorem Silent.block {tr : List T} (kind : String) (h : Silent tr) : Silent [.block kind tr] :=
  ⟨by simp [T.callsL, T.calls, h.calls], by simp [T.unitsL, T.units, h.units]⟩

/-! ### Part A: the batching flag is set -/

structure RegsOk (w : IWorld) : Prop where
  ids : (w.regs.map (·.id)).Nodup
  params : ∀ x ∈ w.regs, x.params.Nodup

theorem runC_callW_batch (bs : Bodies) (f : Nat) (w : IWorld) (x : IWatcher) (ev : IEv) (hb : w.batch = true)
    {r : Bool} {w' : IWorld} {tr : List T} (h : runC bs f (.callW x ev) w = some (r, w', tr)) :
    r = true ∧ w' = callWatcher w x ev ∧ tr = [] := by
  cases f with
  | zero => simp [runC] at h
  | succ f =>
    simp only [runC, hb, if_true] at h
    split at h
    · rename_i he
      simp only [Option.some.injEq, Prod.mk.injEq] at h
      obtain ⟨rfl, rfl, rfl⟩ := h
      simp [callWatcher, he]
    · rename_i he
      simp only [Option.some.injEq, Prod.mk.injEq] at h
      obtain ⟨rfl, rfl, rfl⟩ := h
      simp [callWatcher, he, hb]

theorem runC_dispatch_batch (bs : Bodies) (ev : IEv) : ∀ (ws : List IWatcher) (f : Nat) (w : IWorld), w.batch = true →
    ∀ {r : Bool} {w' : IWorld} {tr : List T}, runC bs f (.dispatch ws ev) w = some (r, w', tr) →
    r = true ∧ w' = dispatch w ev ws ∧ tr = [] := by
  intro ws
  induction ws with
  | nil =>
    intro f w _ r w' tr h
    cases f with
    | zero => simp [runC] at h
    | succ f =>
      simp only [runC, Option.some.injEq, Prod.mk.injEq] at h
      obtain ⟨rfl, rfl, rfl⟩ := h
      exact ⟨rfl, rfl, rfl⟩
  | cons x rest ih =>
    intro f w hb r w' tr h
    cases f with
    | zero => simp [runC] at h
    | succ f =>
      simp only [runC] at h
      split at h
      · rename_i w1 t1 h1
        obtain ⟨_, rfl, rfl⟩ := runC_callW_batch bs f w x ev hb h1
        split at h
        · rename_i r2 w2 t2 h2
          have hb1 : (callWatcher w x ev).batch = true := by rw [callWatcher_batch]; exact hb
          obtain ⟨rfl, rfl, rfl⟩ := ih f _ hb1 h2
          simp only [Option.some.injEq, Prod.mk.injEq] at h
          obtain ⟨rfl, rfl, rfl⟩ := h
          exact ⟨rfl, rfl, rfl⟩
        · simp at h
      · rename_i hne
        cases hc : runC bs f (.callW x ev) w with
        | none => rw [hc] at h; simp at h
        | some res =>
          obtain ⟨r1, w1, t1⟩ := res
          obtain ⟨rfl, _, _⟩ := runC_callW_batch bs f w x ev hb hc
          exact absurd hc (hne w1 t1)

/-- one assignment while the flag is set: the compact setter, and a childless node -/
theorem runC_setKey_batch (bs : Bodies) (f : Nat) (w : IWorld) (k : Key) (v : Int) (hb : w.batch = true)
    {w' : IWorld} {tr : List T} (h : runC bs f (.setKey k v) w = some (true, w', tr)) :
    setKey w k v = (true, w') ∧ ∃ old, getKey w.vals k = some old ∧ tr = [.asg k old v true []] := by
  cases f with
  | zero => simp [runC] at h
  | succ f =>
    simp only [runC] at h
    unfold setKey
    cases hg : getKey w.vals k with
    | none => rw [hg] at h; simp at h
    | some old =>
      rw [hg] at h
      simp only at h ⊢
      by_cases hws : (watchersFor w.regs k).isEmpty = true
      · simp only [hws, if_true, Option.some.injEq, Prod.mk.injEq, true_and] at h ⊢
        obtain ⟨rfl, rfl⟩ := h
        exact ⟨rfl, old, rfl, by rw [hb]⟩
      · simp only [hws, Bool.false_eq_true, if_false] at h ⊢
        split at h
        · simp at h
        · rename_i r w2 t1 hd
          have hb1 : ({ w with vals := setVal w.vals k v } : IWorld).batch = true := hb
          obtain ⟨rfl, rfl, rfl⟩ := runC_dispatch_batch bs _ _ f _ hb1 hd
          have hb2 : (dispatch { w with vals := setVal w.vals k v } ⟨k, old, v⟩
              (if k.what = "value" then sortByPrec (watchersFor w.regs k) else watchersFor w.regs k)).batch = true := by
            rw [dispatch_batchflag]; exact hb
          simp only [hb2, if_true, Option.some.injEq, Prod.mk.injEq, true_and] at h ⊢
          obtain ⟨rfl, rfl⟩ := h
          exact ⟨rfl, old, rfl, by rw [hb]⟩

theorem changedKeys_single (vals : List (Key × Int)) (k : Key) (v old : Int) (hg : getKey vals k = some old) :
    (changedKeys vals [(k, v)]).1 = if old ≠ v then [k] else [] := by
  simp only [changedKeys, hg]
  by_cases h : old = v <;> simp [h]

/-- what an assignment made while the flag is set does to the open-batch invariant, in terms of the trace -/
theorem setKey_open (bs : Bodies) (f : Nat) (w : IWorld) (ch : List Key) (k : Key) (v : Int) (hr : RegsOk w) (hi : BInv w ch)
    {w' : IWorld} {tr : List T} (h : runC bs f (.setKey k v) w = some (true, w', tr)) :
    BInv w' (ch ++ T.changedL tr) ∧ Silent tr ∧ w'.regs = w.regs ∧ w'.log = w.log := by
  obtain ⟨h1, old, hg, rfl⟩ := runC_setKey_batch bs f w k v hi.batch h
  obtain ⟨a, b, c, _⟩ := setKey_batch w ch k v w' hr.ids hr.params hi h1
  rw [changedKeys_single _ _ _ _ hg] at a
  refine ⟨?_, ⟨by simp [T.callsL, T.calls], by simp [T.unitsL, T.units]⟩, c, b⟩
  have : T.changedL [T.asg k old v true []] = if old ≠ v then [k] else [] := by
    simp [T.changedL, T.changed]
  rw [this]; exact a

theorem RegsOk.of_regs {w w' : IWorld} (h : RegsOk w) (he : w'.regs = w.regs) : RegsOk w' :=
  ⟨by rw [he]; exact h.ids, by rw [he]; exact h.params⟩

theorem updateKeys_open (bs : Bodies) : ∀ (kvs : List (Name × Int)) (f : Nat) (w : IWorld) (ch : List Key), RegsOk w → BInv w ch →
    ∀ {w' : IWorld} {tr : List T}, runC bs f (.updateKeys kvs) w = some (true, w', tr) →
    BInv w' (ch ++ T.changedL tr) ∧ Silent tr ∧ w'.regs = w.regs ∧ w'.log = w.log := by
  intro kvs
  induction kvs with
  | nil =>
    intro f w ch _ hi w' tr h
    cases f with
    | zero => simp [runC] at h
    | succ f =>
      simp only [runC, Option.some.injEq, Prod.mk.injEq, true_and] at h
      obtain ⟨rfl, rfl⟩ := h
      exact ⟨by simpa [T.changedL] using hi, Silent.nil, rfl, rfl⟩
  | cons kv rest ih =>
    intro f w ch hr hi w' tr h
    obtain ⟨n, v⟩ := kv
    cases f with
    | zero => simp [runC] at h
    | succ f =>
      simp only [runC] at h
      split at h
      · rename_i w1 t1 h1
        obtain ⟨a1, s1, r1, l1⟩ := setKey_open bs f w ch _ v hr hi h1
        split at h
        · rename_i r2 w2 t2 h2
          simp only [Option.some.injEq, Prod.mk.injEq] at h
          obtain ⟨rfl, rfl, rfl⟩ := h
          obtain ⟨a2, s2, r2, l2⟩ := ih f w1 _ (hr.of_regs r1) a1 h2
          refine ⟨?_, s1.append s2, r2.trans r1, l2.trans l1⟩
          rw [changedL_append, ← List.append_assoc]; exact a2
        · simp at h
      · rename_i hne
        exact absurd h (hne _ _)

theorem eta_batch' (w : IWorld) (hb : w.batch = true) : ({ w with batch := true } : IWorld) = w := by
  cases w; simp_all

theorem BInv.flag {w : IWorld} {ch : List Key} (h : BInv w ch) : ({ w with batch := true } : IWorld) = w :=
  eta_batch' w h.batch

/-- `param.update(...)` inside an open batch -/
theorem update_open (bs : Bodies) (kvs : List (Name × Int)) (f : Nat) (w : IWorld) (ch : List Key) (hr : RegsOk w) (hi : BInv w ch)
    {w' : IWorld} {tr : List T} (h : runC bs f (.update kvs) w = some (true, w', tr)) :
    BInv w' (ch ++ T.changedL tr) ∧ Silent tr ∧ w'.regs = w.regs ∧ w'.log = w.log := by
  cases f with
  | zero => simp [runC] at h
  | succ f =>
    simp only [runC, hi.batch, hi.flag, if_true] at h
    split at h
    · simp at h
    · rename_i r w1 t1 h1
      simp only [Option.some.injEq, Prod.mk.injEq] at h
      obtain ⟨rfl, rfl, rfl⟩ := h
      obtain ⟨a, s, r1, l1⟩ := updateKeys_open bs kvs f w ch hr hi h1
      rw [a.flag]
      refine ⟨?_, s.block _, r1, l1⟩
      simpa [T.changedL, T.changed] using a

/-- statements inside an open batch, nested blocks included -/
theorem blks_open (bs : Bodies) : ∀ (f : Nat),
    (∀ (l : List Blk) (w : IWorld) (ch : List Key), RegsOk w → BInv w ch →
      ∀ {w' : IWorld} {tr : List T}, runC bs f (.blks l) w = some (true, w', tr) →
      BInv w' (ch ++ T.changedL tr) ∧ Silent tr ∧ w'.regs = w.regs ∧ w'.log = w.log) ∧
    (∀ (b : Blk) (w : IWorld) (ch : List Key), RegsOk w → BInv w ch →
      ∀ {w' : IWorld} {tr : List T}, runC bs f (.blk b) w = some (true, w', tr) →
      BInv w' (ch ++ T.changedL tr) ∧ Silent tr ∧ w'.regs = w.regs ∧ w'.log = w.log) := by
  intro f
  induction f with
  | zero => exact ⟨fun _ _ _ _ _ _ _ h => by simp [runC] at h, fun _ _ _ _ _ _ _ h => by simp [runC] at h⟩
  | succ f ih =>
    obtain ⟨ihL, ihB⟩ := ih
    constructor
    · intro l w ch hr hi w' tr h
      cases l with
      | nil =>
        simp only [runC, Option.some.injEq, Prod.mk.injEq, true_and] at h
        obtain ⟨rfl, rfl⟩ := h
        exact ⟨by simpa [T.changedL] using hi, Silent.nil, rfl, rfl⟩
      | cons b rest =>
        simp only [runC] at h
        split at h
        · rename_i w1 t1 h1
          obtain ⟨a1, s1, r1, l1⟩ := ihB b w ch hr hi h1
          split at h
          · rename_i r2 w2 t2 h2
            simp only [Option.some.injEq, Prod.mk.injEq] at h
            obtain ⟨rfl, rfl, rfl⟩ := h
            obtain ⟨a2, s2, r2, l2⟩ := ihL rest w1 _ (hr.of_regs r1) a1 h2
            refine ⟨?_, s1.append s2, r2.trans r1, l2.trans l1⟩
            rw [changedL_append, ← List.append_assoc]; exact a2
          · simp at h
        · rename_i hne
          exact absurd h (hne _ _)
    · intro b w ch hr hi w' tr h
      cases b with
      | set k v =>
        simp only [runC] at h
        exact setKey_open bs f w ch k v hr hi h
      | update kvs =>
        simp only [runC] at h
        exact update_open bs kvs f w ch hr hi h
      | batch body =>
        simp only [runC, hi.batch, hi.flag, if_true] at h
        split at h
        · simp at h
        · rename_i r w1 t1 h1
          simp only [Option.some.injEq, Prod.mk.injEq] at h
          obtain ⟨rfl, rfl, rfl⟩ := h
          obtain ⟨a, s, r1, l1⟩ := ihL body w ch hr hi h1
          rw [a.flag]
          refine ⟨?_, s.block _, r1, l1⟩
          simpa [T.changedL, T.changed] using a

/-! ### Part B: from a quiet world -/

/-- nothing is being batched and nothing is queued; watcher ids are unique, parameter lists duplicate-free,
and the methods run in queueing mode (`watch='queued'`) only log -/
structure QW (bs : Bodies) (w : IWorld) : Prop where
  batch : w.batch = false
  events : w.events = []
  queued : w.queued = []
  regs : RegsOk w
  qlog : ∀ x ∈ w.regs, x.queued = true → bodyOf bs x.method = []

/-- the unit invoked every watcher registered for a key it changed exactly once, and nothing else -/
def unitOk (regs : List IWatcher) (u : T) : Prop := ∀ m, u.calls.count m = nTouched regs m u.changed

def AllOk (regs : List IWatcher) (root : Bool) (tr : List T) : Prop := ∀ u ∈ T.unitsL root tr, unitOk regs u

theorem AllOk.nil (regs : List IWatcher) (root : Bool) : AllOk regs root [] := by
  intro u hu; simp [T.unitsL] at hu

theorem AllOk.append {regs : List IWatcher} {root : Bool} {a b : List T} (ha : AllOk regs root a) (hb : AllOk regs root b) :
    AllOk regs root (a ++ b) := by
  intro u hu
  rw [unitsL_append] at hu
  rcases List.mem_append.1 hu with h | h
  · exact ha u h
  · exact hb u h

theorem AllOk.of_silent {regs : List IWatcher} {tr : List T} (h : Silent tr) : AllOk regs false tr := by
  intro u hu; rw [h.units] at hu; cases hu

theorem nTouched_nil (regs : List IWatcher) (m : Name) : nTouched regs m [] = 0 := by
  simp [nTouched]

/-- the watchers a setter iterates, in whatever order, are those counted by `nTouched` for the one key -/
theorem count_watchersFor (regs : List IWatcher) (hp : ∀ x ∈ regs, x.params.Nodup) (k : Key) (m : Name)
    (L : List IWatcher) (hperm : L.Perm (watchersFor regs k)) :
    (L.map (·.method)).count m = nTouched regs m [k] := by
  rw [count_map_method, (hperm.filter _).length_eq, watchersFor_eq_filter regs k hp, List.filter_filter]
  simp only [nTouched, List.any_cons, List.any_nil, Bool.or_false]

/-- at the end of an open batch: the queue holds exactly the watchers registered for a changed key -/
theorem queued_count (w : IWorld) (ch : List Key) (m : Name) (hid : (w.regs.map (·.id)).Nodup) (hi : BInv w ch) :
    ((sortByPrec w.queued).map (·.method)).count m = nTouched w.regs m ch := by
  have hregsN : w.regs.Nodup := nodup_of_map_id _ hid
  have hqN : w.queued.Nodup := nodup_of_map_id _ hi.nodup
  have hperm : (w.queued.filter (fun x => x.method = m)).Perm
      (w.regs.filter (fun x => x.method = m && ch.any (fun k => watches x k))) := by
    apply (List.perm_ext_iff_of_nodup (List.Pairwise.filter _ hqN) (List.Pairwise.filter _ hregsN)).2
    intro x
    simp only [List.mem_filter, hi.mem x, Bool.and_eq_true]
    constructor
    · rintro ⟨⟨h1, h2⟩, h3⟩; exact ⟨h1, h3, h2⟩
    · rintro ⟨h1, h3, h2⟩; exact ⟨⟨h1, h2⟩, h3⟩
  rw [count_map_method, ((sortByPrec_perm w.queued).filter _).length_eq, hperm.length_eq]
  rfl

theorem flush_quiet (bs : Bodies) (f : Nat) (w : IWorld) (he : w.events = [])
    {r : Bool} {w' : IWorld} {tr : List T} (h : runC bs f .flush w = some (r, w', tr)) : r = true ∧ w' = w ∧ tr = [] := by
  cases f with
  | zero => simp [runC] at h
  | succ f =>
    simp only [runC, he, List.isEmpty_nil, if_true, Option.some.injEq, Prod.mk.injEq] at h
    obtain ⟨rfl, rfl, rfl⟩ := h
    exact ⟨rfl, rfl, rfl⟩

structure CGood (bs : Bodies) (f : Nat) : Prop where
  exec : ∀ (x : IWatcher) (w w' : IWorld) (tr : List T), QW bs w → x ∈ w.regs → runC bs f (.exec x) w = some (true, w', tr) →
    QW bs w' ∧ w'.regs = w.regs ∧ T.callsL tr = [x.method] ∧ T.changedL tr = [] ∧ AllOk w.regs false tr
  body : ∀ (l : List (Name × Int)) (w w' : IWorld) (tr : List T), QW bs w → runC bs f (.body l) w = some (true, w', tr) →
    QW bs w' ∧ w'.regs = w.regs ∧ AllOk w.regs true tr
  setKey : ∀ (k : Key) (v : Int) (w w' : IWorld) (tr : List T), QW bs w → runC bs f (.setKey k v) w = some (true, w', tr) →
    QW bs w' ∧ w'.regs = w.regs ∧ AllOk w.regs true tr
  dispatch : ∀ (ws : List IWatcher) (ev : IEv) (w w' : IWorld) (tr : List T), QW bs w → (∀ x ∈ ws, x ∈ w.regs) →
    runC bs f (.dispatch ws ev) w = some (true, w', tr) →
    QW bs w' ∧ w'.regs = w.regs ∧ T.callsL tr = (if ev.old = ev.new then [] else ws.map (·.method)) ∧ T.changedL tr = [] ∧
      AllOk w.regs false tr
  round : ∀ (ws : List IWatcher) (w w' : IWorld) (tr : List T), QW bs w → (∀ x ∈ ws, x ∈ w.regs) →
    runC bs f (.round ws) w = some (true, w', tr) →
    QW bs w' ∧ w'.regs = w.regs ∧ T.callsL tr = ws.map (·.method) ∧ T.changedL tr = [] ∧ AllOk w.regs false tr
  blk : ∀ (b : Blk) (w w' : IWorld) (tr : List T), QW bs w → runC bs f (.blk b) w = some (true, w', tr) →
    QW bs w' ∧ w'.regs = w.regs ∧ AllOk w.regs true tr

theorem QW.of_regs {bs : Bodies} {w w' : IWorld} (h : QW bs w) (hb : w'.batch = false) (he : w'.events = []) (hq : w'.queued = [])
    (hr : w'.regs = w.regs) : QW bs w' :=
  ⟨hb, he, hq, h.regs.of_regs hr, by rw [hr]; exact h.qlog⟩

theorem callW_quiet (bs : Bodies) (f : Nat) (hG : ∀ g < f, CGood bs g) (x : IWatcher) (ev : IEv) (w w' : IWorld) (tr : List T)
    (hW : QW bs w) (hx : x ∈ w.regs) (h : runC bs f (.callW x ev) w = some (true, w', tr)) :
    QW bs w' ∧ w'.regs = w.regs ∧ T.callsL tr = (if ev.old = ev.new then [] else [x.method]) ∧ T.changedL tr = [] ∧
      AllOk w.regs false tr := by
  cases f with
  | zero => simp [runC] at h
  | succ f =>
    simp only [runC, hW.batch, Bool.false_eq_true, if_false] at h
    by_cases he : ev.old = ev.new
    · simp only [he, if_true, Option.some.injEq, Prod.mk.injEq, true_and] at h ⊢
      obtain ⟨rfl, rfl⟩ := h
      exact ⟨hW, rfl, by simp [T.callsL], by simp [T.changedL], AllOk.nil _ _⟩
    · simp only [he, if_false] at h ⊢
      exact (hG f (Nat.lt_succ_self f)).exec x w w' tr hW hx h

/-- the flush that closes an outermost block -/
theorem flush_after (bs : Bodies) (f : Nat) (hG : ∀ g < f, CGood bs g) (w w1 w3 : IWorld) (ch : List Key) (t3 : List T)
    (hW : QW bs w) (hr : w1.regs = w.regs) (hi : BInv w1 ch)
    (h : runC bs f .flush { w1 with batch := false } = some (true, w3, t3)) :
    QW bs w3 ∧ w3.regs = w.regs ∧ (∀ m, (T.callsL t3).count m = nTouched w.regs m ch) ∧ T.changedL t3 = [] ∧
      AllOk w.regs false t3 := by
  have hid : (w1.regs.map (·.id)).Nodup := by rw [hr]; exact hW.regs.ids
  cases f with
  | zero => simp [runC] at h
  | succ f =>
    by_cases he : w1.events = []
    · obtain ⟨_, rfl, rfl⟩ := flush_quiet bs (f + 1) { w1 with batch := false } he h
      have hq := hi.empty.1 he
      refine ⟨hW.of_regs rfl he hq hr, hr, ?_, by simp [T.changedL], AllOk.nil _ _⟩
      intro m
      have := queued_count w1 ch m hid hi
      rw [hq] at this
      rw [← hr, ← this]
      simp [T.callsL, sortByPrec]
    · have hne : w1.events.isEmpty = false := by
        cases h' : w1.events with
        | nil => exact absurd h' he
        | cons _ _ => rfl
      simp only [runC, hne, Bool.false_eq_true, if_false] at h
      split at h
      · simp at h
      · rename_i r1 wA tA hA
        split at h
        · simp at h
        · rename_i r2 wB tB hB
          simp only [Option.some.injEq, Prod.mk.injEq, Bool.and_eq_true] at h
          obtain ⟨⟨rfl, rfl⟩, rfl, rfl⟩ := h
          have hW2 : QW bs ({ w1 with batch := false, events := [], queued := [] } : IWorld) := hW.of_regs rfl rfl rfl hr
          have hsub : ∀ x ∈ sortByPrec w1.queued, x ∈ ({ w1 with batch := false, events := [], queued := [] } : IWorld).regs := by
            intro x hx
            exact ((hi.mem x).1 ((sortByPrec_perm w1.queued).mem_iff.1 hx)).1
          obtain ⟨qA, rA, cA, dA, oA⟩ := (hG f (Nat.lt_succ_self f)).round _ _ _ _ hW2 hsub hA
          obtain ⟨_, rfl, rfl⟩ := flush_quiet bs f wA qA.events hB
          refine ⟨qA, rA.trans hr, ?_, by rw [changedL_append, dA]; simp [T.changedL], ?_⟩
          · intro m
            rw [callsL_append, cA, ← hr, ← queued_count w1 ch m hid hi]
            simp [T.callsL]
          · have : AllOk w.regs false tA := by
              have := oA
              simp only at this
              rw [hr] at this
              exact this
            exact this.append (AllOk.nil _ _)

/-- an outermost block: its statements ran with the flag set (`t1`), then the flush (`t3`) -/
theorem close_block (bs : Bodies) (f : Nat) (hG : ∀ g < f, CGood bs g) (w w1 w3 : IWorld) (t1 t3 : List T) (kind : String)
    (hW : QW bs w) (hr : w1.regs = w.regs) (hi : BInv w1 (T.changedL t1)) (hs : Silent t1)
    (h : runC bs f .flush { w1 with batch := false } = some (true, w3, t3)) :
    QW bs w3 ∧ w3.regs = w.regs ∧ AllOk w.regs true [.block kind (t1 ++ t3)] := by
  obtain ⟨q3, r3, c3, d3, o3⟩ := flush_after bs f hG w w1 w3 _ t3 hW hr hi h
  refine ⟨q3, r3, ?_⟩
  intro u hu
  simp only [T.unitsL, T.units, if_true, List.append_nil, List.cons_append, List.nil_append, List.mem_cons] at hu
  rcases hu with rfl | hu
  · intro m
    simp only [T.calls, T.changed, callsL_append, changedL_append, hs.calls, d3, List.nil_append, List.append_nil]
    exact c3 m
  · rw [unitsL_append, hs.units, List.nil_append] at hu
    exact o3 u hu

theorem BInv.open_ {bs : Bodies} {w : IWorld} (hW : QW bs w) : BInv ({ w with batch := true } : IWorld) [] :=
  ⟨rfl, by simp [hW.queued], fun x => by simp [hW.queued], by simp [hW.events, hW.queued]⟩

theorem good (bs : Bodies) : ∀ f, CGood bs f := by
  intro f
  induction f using Nat.strongRecOn with
  | _ f IH =>
    cases f with
    | zero =>
      exact ⟨fun _ _ _ _ _ _ h => by simp [runC] at h, fun _ _ _ _ _ h => by simp [runC] at h,
             fun _ _ _ _ _ _ h => by simp [runC] at h, fun _ _ _ _ _ _ _ h => by simp [runC] at h,
             fun _ _ _ _ _ _ h => by simp [runC] at h, fun _ _ _ _ _ h => by simp [runC] at h⟩
    | succ g =>
      have hg : CGood bs g := IH g (Nat.lt_succ_self g)
      have IH' : ∀ g' < g, CGood bs g' := fun g' h => IH g' (Nat.lt_succ_of_lt h)
      refine ⟨?_, ?_, ?_, ?_, ?_, ?_⟩
      · -- exec
        intro x w w' tr hW hx h
        simp only [runC] at h
        split at h
        · simp at h
        · rename_i r w1 t1 h1
          simp only [Option.some.injEq, Prod.mk.injEq] at h
          obtain ⟨rfl, rfl, rfl⟩ := h
          have hcalls : T.callsL [T.call x.method t1] = [x.method] := by simp [T.callsL, T.calls]
          have hch : T.changedL [T.call x.method t1] = [] := by simp [T.changedL, T.changed]
          have hunits : T.unitsL false [T.call x.method t1] = T.unitsL true t1 := by simp [T.unitsL, T.units]
          cases hq : x.queued with
          | true =>
            rw [hW.qlog x hx hq] at h1
            cases g with
            | zero => simp [runC] at h1
            | succ g =>
              simp only [runC, Option.some.injEq, Prod.mk.injEq, true_and] at h1
              obtain ⟨rfl, rfl⟩ := h1
              refine ⟨hW.of_regs hW.batch hW.events hW.queued rfl, rfl, hcalls, hch, ?_⟩
              intro u hu; rw [hunits] at hu; simp [T.unitsL] at hu
          | false =>
            simp only [hq, hW.batch, Bool.or_self] at h1
            have hW0 : QW bs ({ w with batch := false, log := w.log ++ [x.method] } : IWorld) :=
              hW.of_regs rfl hW.events hW.queued rfl
            obtain ⟨q1, r1, o1⟩ := hg.body _ _ _ _ hW0 h1
            refine ⟨q1.of_regs hW.batch q1.events q1.queued rfl, r1, hcalls, hch, ?_⟩
            intro u hu; rw [hunits] at hu; exact o1 u hu
      · -- body
        intro l w w' tr hW h
        cases l with
        | nil =>
          simp only [runC, Option.some.injEq, Prod.mk.injEq, true_and] at h
          obtain ⟨rfl, rfl⟩ := h
          exact ⟨hW, rfl, AllOk.nil _ _⟩
        | cons pv rest =>
          obtain ⟨p, v⟩ := pv
          simp only [runC] at h
          split at h
          · rename_i w1 t1 h1
            obtain ⟨q1, r1, o1⟩ := hg.setKey _ _ _ _ _ hW h1
            split at h
            · rename_i r2 w2 t2 h2
              simp only [Option.some.injEq, Prod.mk.injEq] at h
              obtain ⟨rfl, rfl, rfl⟩ := h
              obtain ⟨q2, r2, o2⟩ := hg.body _ _ _ _ q1 h2
              rw [r1] at o2
              exact ⟨q2, r2.trans r1, o1.append o2⟩
            · simp at h
          · rename_i hne
            exact absurd h (hne _ _)
      · -- setKey
        intro k v w w' tr hW h
        simp only [runC] at h
        cases hgk : getKey w.vals k with
        | none => rw [hgk] at h; simp at h
        | some old =>
          rw [hgk] at h
          simp only at h
          have hW1 : QW bs ({ w with vals := setVal w.vals k v } : IWorld) := hW.of_regs hW.batch hW.events hW.queued rfl
          by_cases hws : (watchersFor w.regs k).isEmpty = true
          · simp only [hws, if_true, Option.some.injEq, Prod.mk.injEq, true_and] at h
            obtain ⟨rfl, rfl⟩ := h
            refine ⟨hW1, rfl, ?_⟩
            intro u hu
            simp only [T.unitsL, T.units, if_true, List.append_nil, List.mem_cons, List.not_mem_nil, or_false] at hu
            subst hu
            intro m
            have hnil : watchersFor w.regs k = [] := List.isEmpty_iff.1 hws
            have h0 := count_watchersFor w.regs hW.regs.params k m [] (by rw [hnil])
            simp only [List.map_nil, List.count_nil] at h0
            by_cases ho : old = v
            · simp [T.calls, T.changed, T.callsL, T.changedL, ho, nTouched_nil]
            · simp only [T.calls, T.changed, T.callsL, T.changedL, ne_eq, ho, not_false_eq_true, if_true, List.append_nil,
                List.count_nil]
              exact h0
          · simp only [hws, Bool.false_eq_true, if_false] at h
            split at h
            · simp at h
            · rename_i r w2 t1 hd
              have hsub : ∀ x ∈ (if k.what = "value" then sortByPrec (watchersFor w.regs k) else watchersFor w.regs k),
                  x ∈ ({ w with vals := setVal w.vals k v } : IWorld).regs := by
                intro x hx
                have hx' : x ∈ watchersFor w.regs k := by
                  split at hx
                  · exact (sortByPrec_perm _).mem_iff.1 hx
                  · exact hx
                exact ((mem_watchersFor w.regs k hW.regs.params x).1 hx').1
              have hperm : (if k.what = "value" then sortByPrec (watchersFor w.regs k) else watchersFor w.regs k).Perm
                  (watchersFor w.regs k) := by
                split
                · exact sortByPrec_perm _
                · exact List.Perm.refl _
              cases r with
              | false =>
                split at h
                · simp at h
                · split at h <;> simp at h
              | true =>
                obtain ⟨q2, r2, c2, d2, o2⟩ := hg.dispatch _ _ _ _ _ hW1 hsub hd
                simp only [q2.batch, Bool.false_eq_true, if_false] at h
                split at h
                · simp at h
                · rename_i r3 w3 t3 h3
                  obtain ⟨_, rfl, rfl⟩ := flush_quiet bs g w2 q2.events h3
                  simp only [Option.some.injEq, Prod.mk.injEq] at h
                  obtain ⟨_, rfl, rfl⟩ := h
                  refine ⟨q2, r2, ?_⟩
                  intro u hu
                  simp only [T.unitsL, T.units, if_true, List.append_nil, List.cons_append, List.nil_append, List.mem_cons] at hu
                  rcases hu with rfl | hu
                  · intro m
                    simp only [T.calls, T.changed, List.append_nil, c2, d2]
                    by_cases ho : old = v
                    · simp [ho, nTouched_nil]
                    · simp only [ho, if_false, ne_eq, not_false_eq_true, if_true]
                      exact count_watchersFor w.regs hW.regs.params k m _ hperm
                  · exact o2 u hu
      · -- dispatch
        intro ws ev w w' tr hW hsub h
        cases ws with
        | nil =>
          simp only [runC, Option.some.injEq, Prod.mk.injEq, true_and] at h
          obtain ⟨rfl, rfl⟩ := h
          exact ⟨hW, rfl, by simp [T.callsL], by simp [T.changedL], AllOk.nil _ _⟩
        | cons x rest =>
          simp only [runC] at h
          split at h
          · rename_i w1 t1 h1
            obtain ⟨q1, r1, c1, d1, o1⟩ := callW_quiet bs g IH' x ev w w1 t1 hW (hsub x (by simp)) h1
            split at h
            · rename_i r2 w2 t2 h2
              simp only [Option.some.injEq, Prod.mk.injEq] at h
              obtain ⟨rfl, rfl, rfl⟩ := h
              obtain ⟨q2, r2, c2, d2, o2⟩ := hg.dispatch rest ev w1 _ _ q1 (fun y hy => by rw [r1]; exact hsub y (by simp [hy])) h2
              rw [r1] at o2
              refine ⟨q2, r2.trans r1, ?_, by rw [changedL_append, d1, d2]; rfl, o1.append o2⟩
              rw [callsL_append, c1, c2]
              by_cases he : ev.old = ev.new <;> simp [he]
            · simp at h
          · rename_i hne
            exact absurd h (hne _ _)
      · -- round
        intro ws w w' tr hW hsub h
        cases ws with
        | nil =>
          simp only [runC, Option.some.injEq, Prod.mk.injEq, true_and] at h
          obtain ⟨rfl, rfl⟩ := h
          exact ⟨hW, rfl, by simp [T.callsL], by simp [T.changedL], AllOk.nil _ _⟩
        | cons x rest =>
          simp only [runC] at h
          split at h
          · rename_i w1 t1 h1
            obtain ⟨q1, r1, c1, d1, o1⟩ := hg.exec x w w1 t1 hW (hsub x (by simp)) h1
            split at h
            · rename_i r2 w2 t2 h2
              simp only [Option.some.injEq, Prod.mk.injEq] at h
              obtain ⟨rfl, rfl, rfl⟩ := h
              obtain ⟨q2, r2, c2, d2, o2⟩ := hg.round rest w1 _ _ q1 (fun y hy => by rw [r1]; exact hsub y (by simp [hy])) h2
              rw [r1] at o2
              refine ⟨q2, r2.trans r1, ?_, by rw [changedL_append, d1, d2]; rfl, o1.append o2⟩
              rw [callsL_append, c1, c2]; rfl
            · simp at h
          · rename_i hne
            exact absurd h (hne _ _)
      · -- blk
        intro b w w' tr hW h
        cases b with
        | set k v =>
          simp only [runC] at h
          exact hg.setKey k v w w' tr hW h
        | update kvs =>
          simp only [runC] at h
          cases g with
          | zero => simp [runC] at h
          | succ g1 =>
            simp only [runC, hW.batch, Bool.false_eq_true, if_false] at h
            split at h
            · simp at h
            · rename_i r w1 t1 h1
              split at h
              · simp at h
              · rename_i r3 w3 t3 h3
                simp only [Option.some.injEq, Prod.mk.injEq, Bool.and_eq_true] at h
                obtain ⟨⟨rfl, rfl⟩, rfl, rfl⟩ := h
                have hr0 : RegsOk ({ w with batch := true } : IWorld) := hW.regs.of_regs rfl
                obtain ⟨a, s, r1, _⟩ := updateKeys_open bs kvs g1 _ [] hr0 (BInv.open_ hW) h1
                simp only [List.nil_append] at a
                exact close_block bs g1 (fun g' h' => IH' g' (Nat.lt_succ_of_lt h')) w w1 w3 t1 t3 "update" hW r1 a s h3
        | batch body =>
          simp only [runC, hW.batch, Bool.false_eq_true, if_false] at h
          split at h
          · simp at h
          · rename_i r w1 t1 h1
            split at h
            · simp at h
            · rename_i r3 w3 t3 h3
              simp only [Option.some.injEq, Prod.mk.injEq, Bool.and_eq_true] at h
              obtain ⟨⟨rfl, rfl⟩, rfl, rfl⟩ := h
              have hr0 : RegsOk ({ w with batch := true } : IWorld) := hW.regs.of_regs rfl
              obtain ⟨a, s, r1, _⟩ := (blks_open bs g).1 body _ [] hr0 (BInv.open_ hW) h1
              simp only [List.nil_append] at a
              exact close_block bs g IH' w w1 w3 t1 t3 "batch" hW r1 a s h3

/-! ### consequences -/

/-- a statement that succeeds leaves exactly one node at the top of its trace: itself -/
theorem blk_single (bs : Bodies) (f : Nat) (b : Blk) (w w' : IWorld) (tr : List T)
    (h : runC bs f (.blk b) w = some (true, w', tr)) : ∃ u, tr = [u] ∧ u ∈ T.unitsL true [u] := by
  cases f with
  | zero => simp [runC] at h
  | succ f =>
    cases b with
    | set k v =>
      simp only [runC] at h
      cases f with
      | zero => simp [runC] at h
      | succ f =>
        simp only [runC] at h
        split at h
        · simp at h
        · split at h
          · simp only [Option.some.injEq, Prod.mk.injEq] at h; exact ⟨_, h.2.2.symm, by simp [T.unitsL, T.units]⟩
          · split at h
            · simp at h
            · split at h
              · simp only [Option.some.injEq, Prod.mk.injEq] at h; exact ⟨_, h.2.2.symm, by simp [T.unitsL, T.units]⟩
              · split at h
                · simp at h
                · simp only [Option.some.injEq, Prod.mk.injEq] at h; exact ⟨_, h.2.2.symm, by simp [T.unitsL, T.units]⟩
    | update kvs =>
      simp only [runC] at h
      cases f with
      | zero => simp [runC] at h
      | succ f =>
        simp only [runC] at h
        split at h
        · simp at h
        · split at h
          · simp only [Option.some.injEq, Prod.mk.injEq] at h; exact ⟨_, h.2.2.symm, by simp [T.unitsL, T.units]⟩
          · split at h
            · simp at h
            · simp only [Option.some.injEq, Prod.mk.injEq] at h; exact ⟨_, h.2.2.symm, by simp [T.unitsL, T.units]⟩
    | batch body =>
      simp only [runC] at h
      split at h
      · simp at h
      · split at h
        · simp only [Option.some.injEq, Prod.mk.injEq] at h; exact ⟨_, h.2.2.symm, by simp [T.unitsL, T.units]⟩
        · split at h
          · simp at h
          · simp only [Option.some.injEq, Prod.mk.injEq] at h; exact ⟨_, h.2.2.symm, by simp [T.unitsL, T.units]⟩

/-- an idle instance is a quiet world -/
theorem InstanceWorld.quiet {table : List Entry} {w : IWorld} (bs : Bodies) (hW : InstanceWorld table w)
    (hq : ∀ x ∈ w.regs, x.queued = true → bodyOf bs x.method = []) : QW bs w := by
  obtain ⟨extra, h1, h2⟩ := hW.regs
  refine ⟨hW.batch, hW.events, hW.queued, ⟨by rw [hW.ids]; exact List.nodup_range', ?_⟩, hq⟩
  intro x hx
  rw [h1] at hx
  rcases List.mem_append.1 hx with h3 | h3
  · exact installAll_params table 0 x h3
  · exact (h2 x h3).2

theorem InstanceWorld.of_quiet {table : List Entry} {bs : Bodies} {w w' : IWorld} (hW : InstanceWorld table w)
    (hq : QW bs w') (hr : w'.regs = w.regs) : InstanceWorld table w' :=
  ⟨by rw [hr]; exact hW.regs, by rw [hr]; exact hW.ids, hq.batch, hq.events, hq.queued⟩

/-- watchers counted for a table method whose dependencies are of one kind = the specification's expected
number of calls -/
theorem nTouched_table {table : List Entry} {w : IWorld} (hW : InstanceWorld table w) (hn : (table.map (·.name)).Nodup)
    (e : Entry) (he : e ∈ table) (hcls : ∀ d ∈ e.deps, d.cls = e.origin)
    (hkind : ∀ d1 ∈ e.deps, ∀ d2 ∈ e.deps, d1.what = d2.what) (ch : List Key) :
    nTouched w.regs e.name ch = expectedCalls (e.deps.map keyOf) ch := by
  obtain ⟨extra, h1, h2⟩ := hW.regs
  have hsame : ∀ k1 ∈ ch, ∀ k2 ∈ ch, k1 ∈ e.deps.map keyOf → k2 ∈ e.deps.map keyOf → k1.what = k2.what := by
    intro k1 _ k2 _ m1 m2
    obtain ⟨d1, hd1, rfl⟩ := List.mem_map.1 m1
    obtain ⟨d2, hd2, rfl⟩ := List.mem_map.1 m2
    exact hkind d1 hd1 d2 hd2
  rw [h1, nTouched_append, installAll_touched _ e table 0 hn he, touched_groups_eq_expected e _ hcls hsame]
  have : nTouched extra e.name ch = 0 := by
    simp only [nTouched, List.length_eq_zero_iff, List.filter_eq_nil_iff, Bool.and_eq_true, decide_eq_true_eq, not_and]
    intro x hx hm
    exact absurd (hm ▸ List.mem_map.2 ⟨e, he, rfl⟩) (h2 x hx).1
  omega

theorem watchersOfGroups_queued (e : Entry) : ∀ (gs : List Grp) (n : Nat), ∀ x ∈ watchersOfGroups e n gs,
    x.method = e.name ∧ x.queued = e.queued := by
  intro gs
  induction gs with
  | nil => intro n x hx; cases hx
  | cons g rest ih =>
    intro n x hx
    obtain ⟨k, ns⟩ := g
    simp only [watchersOfGroups, List.mem_cons] at hx
    rcases hx with rfl | hx
    · exact ⟨rfl, rfl⟩
    · exact ih _ x hx

/-- every installed watcher belongs to a table entry: it calls that method, in that entry's mode -/
theorem installAll_entry : ∀ (table : List Entry) (n : Nat), ∀ x ∈ installAll n table,
    ∃ e ∈ table, x.method = e.name ∧ x.queued = e.queued := by
  intro table
  induction table with
  | nil => intro n x hx; cases hx
  | cons e rest ih =>
    intro n x hx
    simp only [installAll, List.mem_append] at hx
    rcases hx with hx | hx
    · exact ⟨e, by simp, watchersOfGroups_queued e _ _ x (by simpa [watchersOfEntry] using hx)⟩
    · obtain ⟨e', he', h'⟩ := ih _ x hx
      exact ⟨e', by simp [he'], h'⟩

/-- a fresh instance whose queued methods only log -/
theorem instantiate_qlog (table : List Entry) (vals : List (Key × Int)) (bs : Bodies)
    (hq : ∀ e ∈ table, e.queued = true → bodyOf bs e.name = []) :
    ∀ x ∈ (instantiate table vals).regs, x.queued = true → bodyOf bs x.method = [] := by
  intro x hx hqx
  obtain ⟨e, he, h1, h2⟩ := installAll_entry table 0 x hx
  rw [h1]; exact hq e he (by rw [← h2]; exact hqx)

end ParamVerif.Depends
