/-
Helper lemmas for C07, part 4: reading lemmas, the store, typing, graph preservation, what every spec
says about the watcher on one of its holders, one watcher invocation on an installed world.
-/
import ParamVerif.Depends.PathsGroups

namespace ParamVerif.Depends

/-! ### what a walk reads -/

/-- the (object, parameter) pairs `follow` reads -/
def followReads (w : PWorld) : Val → List Name → List (Oid × Name)
  | _, [] => []
  | .ref c, n :: rest => (c, n) :: followReads w (attrOr w (.ref c) n) rest
  | _, _ :: _ => []

theorem followReads_deps (w : PWorld) (leaf : Name) : ∀ (path : List Name) (cur : Oid),
    followReads w (.ref cur) (path ++ [leaf]) = depsFrom w cur path leaf := by
  intro path
  induction path with
  | nil => intro cur; simp [followReads, depsFrom]
  | cons n rest ih =>
    intro cur
    simp only [List.cons_append, followReads, depsFrom, attrOr]
    cases hg : getParam w cur n with
    | none =>
      simp only [Option.getD_none]
      cases h : rest ++ [leaf] <;> simp [followReads]
    | some v =>
      cases v with
      | none =>
        simp only [Option.getD_some]
        cases h : rest ++ [leaf] <;> simp [followReads]
      | int i =>
        simp only [Option.getD_some]
        cases h : rest ++ [leaf] <;> simp [followReads]
      | ref o => simp [ih]

/-- two graphs agree on a set of reads -/
def AgreeOn (w w' : PWorld) (R : List (Oid × Name)) : Prop := ∀ r ∈ R, getParam w' r.1 r.2 = getParam w r.1 r.2

theorem follow_agree (w w' : PWorld) : ∀ (path : List Name) (v : Val), AgreeOn w w' (followReads w v path) →
    follow w' v path = follow w v path := by
  intro path
  induction path with
  | nil => intro v _; rfl
  | cons n rest ih =>
    intro v h
    cases v with
    | none => simp [follow, attrOr, follow_none]
    | int i => simp [follow, attrOr, follow_none]
    | ref c =>
      simp only [followReads] at h
      have h0 : getParam w' c n = getParam w c n := h (c, n) (by simp)
      have hattr : attrOr w' (.ref c) n = attrOr w (.ref c) n := by simp [attrOr, h0]
      simp only [follow, hattr]
      exact ih _ (fun r hr => h r (List.mem_cons_of_mem _ hr))

theorem depsFrom_agree (w w' : PWorld) (leaf : Name) : ∀ (path : List Name) (cur : Oid),
    AgreeOn w w' (depsFrom w cur path leaf) →
    depsFrom w' cur path leaf = depsFrom w cur path leaf ∧ chainObjsFrom w' cur path = chainObjsFrom w cur path ∧
      ∀ d, builtFrom w' cur d path leaf = builtFrom w cur d path leaf := by
  intro path
  induction path with
  | nil => intro cur _; exact ⟨rfl, rfl, fun _ => rfl⟩
  | cons n rest ih =>
    intro cur h
    have h0 : getParam w' cur n = getParam w cur n := h (cur, n) (by simp [depsFrom])
    simp only [depsFrom, chainObjsFrom, builtFrom, h0]
    cases hg : getParam w cur n with
    | none => simp
    | some v =>
      cases v with
      | none => simp
      | int i => simp
      | ref o =>
        simp only
        have := ih o (fun r hr => h r (by simp only [depsFrom, hg]; exact List.mem_cons_of_mem _ hr))
        exact ⟨by rw [this.1], by rw [this.2.1], fun d => by rw [this.2.2]⟩

/-- the leaf is read last: the path part of the reads -/
def pathReads (w : PWorld) : Oid → List Name → List (Oid × Name)
  | _, [] => []
  | cur, n :: rest =>
    (cur, n) :: (match getParam w cur n with
                 | some (.ref o) => pathReads w o rest
                 | _ => [])

theorem pathReads_agree (w w' : PWorld) (leaf : Name) : ∀ (path : List Name) (cur : Oid),
    AgreeOn w w' (pathReads w cur path) →
    chainObjsFrom w' cur path = chainObjsFrom w cur path ∧ (∀ d, builtFrom w' cur d path leaf = builtFrom w cur d path leaf) ∧
      (depsFrom w' cur path leaf).map (·.1) = (depsFrom w cur path leaf).map (·.1) ∧
      depsFrom w' cur path leaf = depsFrom w cur path leaf := by
  intro path
  induction path with
  | nil => intro cur _; exact ⟨rfl, fun _ => rfl, rfl, rfl⟩
  | cons n rest ih =>
    intro cur h
    have h0 : getParam w' cur n = getParam w cur n := h (cur, n) (by simp [pathReads])
    simp only [depsFrom, chainObjsFrom, builtFrom, h0]
    cases hg : getParam w cur n with
    | none => simp
    | some v =>
      cases v with
      | none => simp
      | int i => simp
      | ref o =>
        simp only
        have := ih o (fun r hr => h r (by simp only [pathReads, hg]; exact List.mem_cons_of_mem _ hr))
        exact ⟨by rw [this.1], fun d => by rw [this.2.1], by simp [this.2.2.1], by rw [this.2.2.2]⟩

theorem pathReads_sub (w : PWorld) (leaf : Name) : ∀ (path : List Name) (cur : Oid),
    ∀ r ∈ pathReads w cur path, r ∈ depsFrom w cur path leaf := by
  intro path
  induction path with
  | nil => intro cur r hr; cases hr
  | cons n rest ih =>
    intro cur r hr
    simp only [pathReads, depsFrom, List.mem_cons] at hr ⊢
    rcases hr with h | h
    · exact Or.inl h
    · right
      cases hg : getParam w cur n with
      | none => rw [hg] at h; cases h
      | some v =>
        cases v with
        | none => rw [hg] at h; cases h
        | int i => rw [hg] at h; cases h
        | ref o => rw [hg] at h; exact ih o r h

theorem pathReads_fst (w : PWorld) : ∀ (path : List Name) (cur : Oid),
    ∀ r ∈ pathReads w cur path, r.1 ∈ (chainObjsFrom w cur path).dropLast ∨ r.1 ∈ chainObjsFrom w cur path := by
  intro path cur r hr
  right
  induction path generalizing cur with
  | nil => cases hr
  | cons n rest ih =>
    simp only [pathReads, List.mem_cons] at hr
    simp only [chainObjsFrom, List.mem_cons]
    rcases hr with h | h
    · exact Or.inl (by rw [h])
    · right
      cases hg : getParam w cur n with
      | none => rw [hg] at h; cases h
      | some v =>
        cases v with
        | none => rw [hg] at h; cases h
        | int i => rw [hg] at h; cases h
        | ref o => rw [hg] at h; exact ih o h

theorem chain_noref (w w' : PWorld) : ∀ (path : List Name) (v : Val), (∀ o, v ≠ .ref o) →
    chain w' v path = chain w v path := by
  intro path
  induction path with
  | nil => intro v _; rfl
  | cons n rest ih =>
    intro v hv
    have h1 : ∀ u : PWorld, attrOr u v n = .none := by
      intro u; cases v with
      | none => rfl
      | int i => rfl
      | ref o => exact absurd rfl (hv o)
    simp only [chain, h1]
    congr 1
    exact ih .none (fun o => by simp)

theorem chain_agree (w w' : PWorld) : ∀ (path : List Name) (cur : Oid), AgreeOn w w' (pathReads w cur path) →
    chain w' (.ref cur) path = chain w (.ref cur) path := by
  intro path
  induction path with
  | nil => intro cur _; rfl
  | cons n rest ih =>
    intro cur h
    have h0 : getParam w' cur n = getParam w cur n := h (cur, n) (by simp [pathReads])
    have hattr : attrOr w' (.ref cur) n = attrOr w (.ref cur) n := by simp [attrOr, h0]
    simp only [chain, hattr]
    congr 1
    cases hg : getParam w cur n with
    | none =>
      simp only [attrOr, hg, Option.getD_none]
      exact chain_noref w w' rest .none (fun o => by simp)
    | some v =>
      cases v with
      | none =>
        simp only [attrOr, hg, Option.getD_some]
        exact chain_noref w w' rest .none (fun o => by simp)
      | int i =>
        simp only [attrOr, hg, Option.getD_some]
        exact chain_noref w w' rest (.int i) (fun o => by simp)
      | ref o =>
        simp only [attrOr, hg, Option.getD_some]
        exact ih o (fun r hr => h r (by simp only [pathReads, hg]; exact List.mem_cons_of_mem _ hr))

/-! ### the store -/

def store (w : PWorld) (o : Oid) (ob : PObj) (p : Name) (v : Val) : PWorld :=
  { w with objs := w.objs.set o { ob with vals := setVals ob.vals p v } }

theorem lookupVal_setVals (p : Name) (v : Val) : ∀ (vals : List (Name × Val)) (n : Name),
    lookupVal (setVals vals p v) n = if n = p then (lookupVal vals p).map (fun _ => v) else lookupVal vals n := by
  intro vals
  induction vals with
  | nil => intro n; simp [setVals, lookupVal]
  | cons kv rest ih =>
    intro n
    obtain ⟨k, v'⟩ := kv
    by_cases hk : k = p
    · subst hk
      by_cases hn : n = k
      · subst hn; simp [setVals, lookupVal]
      · have : ¬ k = n := fun e => hn e.symm
        simp [setVals, lookupVal, hn, this]
    · by_cases hn : n = p
      · subst hn
        simp [setVals, lookupVal, hk, ih]
      · by_cases hkn : k = n
        · simp [setVals, lookupVal, hkn, hn]
        · simp [setVals, lookupVal, hk, hkn, hn, ih]

theorem getParam_store (w : PWorld) (o : Oid) (ob : PObj) (p : Name) (v old : Val)
    (hob : w.objs[o]? = some ob) (hold : lookupVal ob.vals p = some old) (o' : Oid) (n : Name) :
    getParam (store w o ob p v) o' n = if o' = o ∧ n = p then some v else getParam w o' n := by
  have hlt : o < w.objs.length := by
    rcases Nat.lt_or_ge o w.objs.length with h | h
    · exact h
    · rw [List.getElem?_eq_none h] at hob; cases hob
  unfold getParam store
  by_cases ho : o' = o
  · subst ho
    simp only [List.getElem?_set_self hlt, hob, lookupVal_setVals, true_and]
    by_cases hn : n = p
    · simp [hn, hold]
    · simp [hn]
  · have : ¬ o = o' := fun e => ho e.symm
    simp [List.getElem?_set_ne this, ho]

theorem classOf_store (w : PWorld) (o : Oid) (ob : PObj) (p : Name) (v : Val) (hob : w.objs[o]? = some ob) (o' : Oid) :
    classOf (store w o ob p v) o' = classOf w o' := by
  have hlt : o < w.objs.length := by
    rcases Nat.lt_or_ge o w.objs.length with h | h
    · exact h
    · rw [List.getElem?_eq_none h] at hob; cases hob
  unfold classOf store
  by_cases ho : o' = o
  · subst ho; simp [List.getElem?_set_self hlt, hob]
  · have : ¬ o = o' := fun e => ho e.symm
    simp [List.getElem?_set_ne this]

theorem setParam_ok {w w' : PWorld} {o : Oid} {p : Name} {v : Val} (h : setParam w o p v = .ok w') :
    ∃ ob c old w2, w.objs[o]? = some ob ∧ classOf w o = some c ∧ p ≠ "name" ∧ accepts w c p v = true ∧
      lookupVal ob.vals p = some old ∧ updateDeps (store w o ob p v) o (some p) false = .ok w2 ∧
      dispatchP w2 p old v (w2.watchers.filter (fun x => x.on = o && x.params.contains p)) = .ok w' := by
  unfold setParam at h
  split at h
  · rename_i ob c hob hc
    split at h
    · simp at h
    · rename_i hname
      split at h
      · simp at h
      · rename_i hacc
        split at h
        · simp at h
        · rename_i old hold
          simp only at h
          split at h
          · simp at h
          · rename_i w2 hw2
            exact ⟨ob, c, old, w2, hob, hc, hname, by simpa using hacc, hold, hw2, h⟩
  · simp at h

/-! ### typing of the parameters the specs name -/

/-- path parameters are declared object-valued everywhere, leaves integer-valued everywhere and hold integers -/
structure Typing (w : PWorld) (specs : List PathSpec) : Prop where
  objOnly : ∀ s ∈ specs, ∀ n ∈ s.path, ∀ c ∈ w.classes, n ∉ c.intParams
  intOnly : ∀ s ∈ specs, ∀ c ∈ w.classes, s.leaf ∉ c.objParams
  leafInt : ∀ s ∈ specs, ∀ o v, getParam w o s.leaf = some v → ∃ i, v = .int i

theorem Typing.congr {w w' : PWorld} {specs : List PathSpec} (h : SameGraph w w') (ht : Typing w specs) : Typing w' specs :=
  ⟨fun s hs n hn c hc => ht.objOnly s hs n hn c (by rw [← h.2]; exact hc),
   fun s hs c hc => ht.intOnly s hs c (by rw [← h.2]; exact hc),
   fun s hs o v hv => ht.leafInt s hs o v (by rw [← getParam_congr h]; exact hv)⟩

theorem classOf_mem {w : PWorld} {o : Oid} {c : PClass} (h : classOf w o = some c) : c ∈ w.classes := by
  unfold classOf at h
  split at h
  · exact List.mem_of_getElem? h
  · cases h

theorem scope_store {w : PWorld} {t : Oid} {m : Name} {specs : List PathSpec} (hs : Scope w t m specs) (hty : Typing w specs)
    {o : Oid} {ob : PObj} {c : PClass} {p : Name} {v old : Val}
    (hob : w.objs[o]? = some ob) (hc : classOf w o = some c) (hacc : accepts w c p v = true)
    (hold : lookupVal ob.vals p = some old) :
    Scope (store w o ob p v) t m specs ∧ Typing (store w o ob p v) specs := by
  have hlen : (store w o ob p v).objs.length = w.objs.length := by simp [store]
  have hgp := getParam_store w o ob p v old hob hold
  have hasN : ∀ n, HasName w n → HasName (store w o ob p v) n := by
    intro n hn o' ho'
    rw [hgp]
    split
    · exact ⟨v, rfl⟩
    · exact hn o' (by rw [← hlen]; exact ho')
  refine ⟨⟨?_, ?_, hs.nonempty, hs.leaf, hs.path, ?_, fun s hs' => hasN _ (hs.hasLeaf s hs')⟩,
    ⟨fun s hs' n hn c' hc' => hty.objOnly s hs' n hn c' (by simpa [store] using hc'),
     fun s hs' c' hc' => hty.intOnly s hs' c' (by simpa [store] using hc'), ?_⟩⟩
  · simpa [classOf_store w o ob p v hob] using hs.tcls
  · intro o' c' ho' hc'
    rw [classOf_store w o ob p v hob] at hc'
    exact hs.others o' c' ho' hc'
  · intro s hs' n hn
    refine ⟨hasN n (hs.names s hs' n hn).1, ?_, (hs.names s hs' n hn).2.2⟩
    intro o' v' hv'
    rw [hgp] at hv'
    rw [hlen]
    split at hv'
    · rename_i hcond
      simp only [Option.some.injEq] at hv'
      subst hv'
      unfold accepts at hacc
      cases v with
      | none => exact Or.inl rfl
      | ref o2 =>
        simp only [Bool.and_eq_true, decide_eq_true_eq] at hacc
        exact Or.inr ⟨o2, rfl, hacc.2⟩
      | int i =>
        simp only [List.contains_iff_mem] at hacc
        exact absurd (hcond.2 ▸ hacc) (hty.objOnly s hs' n hn c (classOf_mem hc))
    · exact (hs.names s hs' n hn).2.1 o' v' hv'
  · intro s hs' o' v' hv'
    rw [hgp] at hv'
    split at hv'
    · rename_i hcond
      simp only [Option.some.injEq] at hv'
      subst hv'
      unfold accepts at hacc
      cases v with
      | int i => exact ⟨i, rfl⟩
      | none =>
        simp only [List.contains_iff_mem] at hacc
        exact absurd (hcond.2 ▸ hacc) (hty.intOnly s hs' c (classOf_mem hc))
      | ref o2 =>
        simp only [Bool.and_eq_true, List.contains_iff_mem] at hacc
        exact absurd (hcond.2 ▸ hacc.1) (hty.intOnly s hs' c (classOf_mem hc))
    · exact hty.leafInt s hs' o' v' hv'

/-! ### `_update_deps` calls that do nothing -/

theorem updateDeps_other {w : PWorld} {t : Oid} {m : Name} {specs : List PathSpec} (hs : Scope w t m specs) {o : Oid} {c : PClass}
    (ho : o ≠ t) (hc : classOf w o = some c) (a : Option Name) (init : Bool := false) : updateDeps w o a init = .ok w := by
  unfold updateDeps
  rw [hc]
  simp only [hs.others o c ho hc]
  rfl

theorem updateDeps_otherAttr {w : PWorld} {t : Oid} {m : Name} {specs : List PathSpec} (hs : Scope w t m specs) {p : Name}
    (hp : ∀ s ∈ specs, s.root ≠ p) : updateDeps w t (some p) false = .ok w := by
  obtain ⟨ct, rs, hct, hm⟩ := hs.tcls
  unfold updateDeps
  rw [hct]
  simp only [hm]
  have : (specs.filter (fun s' => decide (s'.root = p))) = [] := by
    rw [List.filter_eq_nil_iff]
    intro s hs'
    simp [hp s hs']
  simp [updateEntries, updateEntry, this]

/-! ### facts about the shapes of a walk -/

theorem builtFrom_on (w : PWorld) : ∀ (path : List Name) (cur : Oid) (d : Nat) (leaf : Name),
    (builtFrom w cur d path leaf).map (·.on) = chainObjsFrom w cur path := by
  intro path
  induction path with
  | nil => intro cur d leaf; rfl
  | cons n rest ih =>
    intro cur d leaf
    simp only [builtFrom, chainObjsFrom, List.map_cons]
    split <;> simp [ih]

/-- the remaining path kept in the filter of a shape -/
def restOf (sh : SShape) : List Name :=
  match sh.changed with
  | some [r] => r
  | _ => []

/-- through the holder of a shape the walk continues to the same leaf — in any graph `u` that agrees
with `w` on what is read at the other holders -/
theorem builtFrom_cont (w u : PWorld) (leaf : Name) : ∀ (path : List Name) (cur : Oid) (d : Nat) (sh : SShape),
    sh ∈ builtFrom w cur d path leaf → (chainObjsFrom w cur path).Nodup →
    (∀ r ∈ pathReads w cur path, r.1 ≠ sh.on → getParam u r.1 r.2 = getParam w r.1 r.2) →
    ∃ e, sh.params = [e] ∧ (sh.on, e) ∈ depsFrom w cur path leaf ∧
      follow u (.ref cur) (path ++ [leaf]) = follow u (.ref sh.on) (e :: restOf sh) ∧
      (∀ q ∈ followReads w (attrOr w (.ref sh.on) e) (restOf sh), q.1 ≠ sh.on) ∧
      (sh.changed = none → e = leaf ∧ sh.cb = false ∧ ∀ r ∈ pathReads w cur path, r.1 ≠ sh.on) ∧
      (sh.changed ≠ none → (sh.on, e) ∈ pathReads w cur path ∧ (sh.on ≠ cur → sh.cb = true) ∧
        (sh.on = cur → sh.cb = decide (0 < d)) ∧ sh.changed = some [restOf sh]) := by
  intro path
  induction path with
  | nil =>
    intro cur d sh hsh _ _
    simp only [builtFrom, List.mem_singleton] at hsh
    subst hsh
    exact ⟨leaf, rfl, by simp [depsFrom], by simp [restOf], by simp [restOf, followReads],
      fun _ => ⟨rfl, rfl, by simp [pathReads]⟩, fun h => absurd rfl h⟩
  | cons n rest ih =>
    intro cur d sh hsh hnd hag
    simp only [builtFrom, List.mem_cons] at hsh
    simp only [chainObjsFrom, List.nodup_cons] at hnd
    rcases hsh with rfl | hsh
    · refine ⟨n, rfl, by simp [depsFrom], by simp [restOf], ?_, fun h => by simp at h,
        fun _ => ⟨by simp [pathReads], fun h => absurd rfl h, fun _ => rfl, by simp [restOf]⟩⟩
      simp only [restOf]
      intro q hq
      simp only [attrOr] at hq
      cases hg : getParam w cur n with
      | none =>
        rw [hg] at hq
        cases h : rest ++ [leaf] <;> simp [h, followReads] at hq
      | some v =>
        rw [hg] at hq
        simp only [Option.getD_some] at hq
        cases v with
        | none => cases h : rest ++ [leaf] <;> simp [h, followReads] at hq
        | int i => cases h : rest ++ [leaf] <;> simp [h, followReads] at hq
        | ref o' =>
          rw [followReads_deps] at hq
          rw [hg] at hnd
          have : q.1 ∈ chainObjsFrom w o' rest := by
            rw [← depsFrom_fst w rest o' leaf]
            exact List.mem_map.2 ⟨q, hq, rfl⟩
          intro e
          exact hnd.1 (e ▸ this)
    · cases hg : getParam w cur n with
      | none => rw [hg] at hsh; cases hsh
      | some v =>
        cases v with
        | none => rw [hg] at hsh; cases hsh
        | int i => rw [hg] at hsh; cases hsh
        | ref o' =>
          rw [hg] at hsh hnd
          have hon : sh.on ∈ chainObjsFrom w o' rest := by
            rw [← builtFrom_on w rest o' (d + 1) leaf]
            exact List.mem_map.2 ⟨sh, hsh, rfl⟩
          have hne : sh.on ≠ cur := fun e => hnd.1 (e ▸ hon)
          have hu : getParam u cur n = some (.ref o') := by
            rw [hag (cur, n) (by simp [pathReads]) (fun e => hne e.symm)]
            exact hg
          obtain ⟨e, h1, h2, h3, h4, h5, h6⟩ := ih o' (d + 1) sh hsh hnd.2 (by
            intro r hr hrne
            exact hag r (by simp only [pathReads, hg]; exact List.mem_cons_of_mem _ hr) hrne)
          refine ⟨e, h1, by simp only [depsFrom, hg]; exact List.mem_cons_of_mem _ h2, ?hfollow, h4, ?hnone, ?hsome⟩
          case hfollow =>
            have e1 : follow u (.ref cur) (n :: (rest ++ [leaf])) = follow u (.ref o') (rest ++ [leaf]) := by
              simp [follow, attrOr, hu]
            exact e1.trans h3
          case hnone =>
            intro hc
            obtain ⟨a, b, c⟩ := h5 hc
            refine ⟨a, b, ?_⟩
            intro r hr
            simp only [pathReads, hg, List.mem_cons] at hr
            rcases hr with rfl | hr
            · exact fun e => hne e.symm
            · exact c r hr
          case hsome =>
            intro hc
            obtain ⟨a, b, c, dd⟩ := h6 hc
            refine ⟨by simp only [pathReads, hg]; exact List.mem_cons_of_mem _ a, fun _ => ?_, fun e => absurd e hne, dd⟩
            by_cases hh : sh.on = o'
            · have := c hh
              simpa using this
            · exact b hh

/-! ### nothing but the setter's store changes the graph -/

theorem watchGroups_graph (t : Oid) (m : Name) (a : Option Name) : ∀ (gs : List Group) (w w' : PWorld),
    watchGroups w t m a gs = .ok w' → SameGraph w w' := by
  intro gs
  induction gs with
  | nil => intro w w' h; simp only [watchGroups, Except.ok.injEq] at h; subst h; exact SameGraph.refl _
  | cons g rest ih =>
    intro w w' h
    simp only [watchGroups] at h
    split at h
    · simp at h
    · rename_i w1 h1
      have : SameGraph w w1 := by
        unfold watchGroup at h1
        split at h1
        · simp at h1
        · simp only [Except.ok.injEq] at h1
          subst h1
          exact ⟨rfl, rfl⟩
      exact this.trans (ih w1 w' h)

theorem updateEntry_graph {u u1 : PWorld} {o : Oid} {a : Option Name} {init : Bool} {m : PMethod}
    (h1 : updateEntry u o a init m = .ok u1) : SameGraph u u1 := by
  unfold updateEntry at h1
  simp only at h1
  generalize List.filter _ m.specs = dynamic at h1
  split at h1
  · simp only [Except.ok.injEq] at h1; subst h1; exact SameGraph.refl _
  · split at h1
    · simp at h1
    · rename_i gs _
      have := watchGroups_graph o m.name a gs _ _ h1
      refine ⟨this.1.trans ?_, this.2.trans ?_⟩ <;> split <;> rfl

theorem updateDeps_graph {w w' : PWorld} {o : Oid} {a : Option Name} {init : Bool}
    (h : updateDeps w o a init = .ok w') : SameGraph w w' := by
  unfold updateDeps at h
  split at h
  · simp at h
  · rename_i c _
    have : ∀ (ms : List PMethod) (u u' : PWorld), updateEntries u o a init ms = .ok u' → SameGraph u u' := by
      intro ms
      induction ms with
      | nil => intro u u' hu; simp only [updateEntries, Except.ok.injEq] at hu; subst hu; exact SameGraph.refl _
      | cons m rest ih =>
        intro u u' hu
        simp only [updateEntries] at hu
        split at hu
        · simp at hu
        · rename_i u1 h1
          exact (updateEntry_graph h1).trans (ih u1 u' hu)
    exact this c.methods w w' h

theorem dispatchP_graph (p : Name) (old v : Val) : ∀ (ws : List DW) (w w' : PWorld), dispatchP w p old v ws = .ok w' → SameGraph w w' := by
  intro ws
  induction ws with
  | nil => intro w w' h; simp only [dispatchP, Except.ok.injEq] at h; subst h; exact SameGraph.refl _
  | cons x rest ih =>
    intro w w' h
    simp only [dispatchP] at h
    split at h
    · simp at h
    · rename_i w1 h1
      have : SameGraph w w1 := by
        unfold callWatcherP at h1
        split at h1
        · simp only [Except.ok.injEq] at h1; subst h1; exact SameGraph.refl _
        · simp only at h1
          split at h1
          · simp at h1
          · rename_i u hu
            have hg : SameGraph w u := by
              split at hu
              · exact updateDeps_graph hu
              · simp only [Except.ok.injEq] at hu; subst hu; exact SameGraph.refl _
            split at h1 <;> simp only [Except.ok.injEq] at h1 <;> subst h1
            · exact hg
            · exact ⟨hg.1, hg.2⟩
      split at h
      · simp only [Except.ok.injEq] at h; subst h; exact this
      · exact this.trans (ih w1 w' h)

theorem setParam_graph {w w' : PWorld} {o : Oid} {p : Name} {v : Val} (h : setParam w o p v = .ok w') :
    ∃ ob old, w.objs[o]? = some ob ∧ lookupVal ob.vals p = some old ∧ SameGraph (store w o ob p v) w' := by
  obtain ⟨ob, c, old, w2, hob, _, _, _, hold, hud, hdisp⟩ := setParam_ok h
  exact ⟨ob, old, hob, hold, (updateDeps_graph hud).trans (dispatchP_graph _ _ _ _ _ _ hdisp)⟩

theorem valEq_eq {a b : Val} (h : valEq a b = true) : a = b := by
  cases a <;> cases b <;> simp_all [valEq]

theorem filter_key_singleton {α β : Type} [DecidableEq β] (g : α → β) : ∀ (l : List α) (a : α), (l.map g).Nodup → a ∈ l →
    l.filter (fun x => decide (g x = g a)) = [a] := by
  intro l
  induction l with
  | nil => intro a _ h; cases h
  | cons y rest ih =>
    intro a hn ha
    simp only [List.map_cons, List.nodup_cons] at hn
    rcases List.mem_cons.1 ha with rfl | ha'
    · have : rest.filter (fun x => decide (g x = g a)) = [] := by
        rw [List.filter_eq_nil_iff]
        intro x hx hgx
        simp only [decide_eq_true_eq] at hgx
        exact hn.1 (hgx ▸ List.mem_map.2 ⟨x, hx, rfl⟩)
      simp [this]
    · have hne : ¬ g y = g a := fun e => hn.1 (e ▸ List.mem_map.2 ⟨a, ha', rfl⟩)
      simp [hne, ih a hn.2 ha']

theorem deps_snd_unique {w : PWorld} {cur : Oid} {path : List Name} {leaf : Name}
    (hnd : (chainObjsFrom w cur path).Nodup) {a : Oid} {b c : Name}
    (h1 : (a, b) ∈ depsFrom w cur path leaf) (h2 : (a, c) ∈ depsFrom w cur path leaf) : b = c := by
  have hn : ((depsFrom w cur path leaf).map (·.1)).Nodup := by rw [depsFrom_fst]; exact hnd
  have := filter_key_singleton (fun d : Oid × Name => d.1) _ (a, b) hn h1
  have h3 : (a, c) ∈ (depsFrom w cur path leaf).filter (fun x => decide (x.1 = (a, b).1)) :=
    List.mem_filter.2 ⟨h2, by simp⟩
  rw [this] at h3
  simp at h3
  exact h3.symm

theorem pathReads_snd_mem (w : PWorld) : ∀ (path : List Name) (cur : Oid), ∀ r ∈ pathReads w cur path, r.2 ∈ path := by
  intro path
  induction path with
  | nil => intro cur r hr; cases hr
  | cons n rest ih =>
    intro cur r hr
    simp only [pathReads, List.mem_cons] at hr ⊢
    rcases hr with rfl | hr
    · exact Or.inl rfl
    · right
      cases hg : getParam w cur n with
      | none => rw [hg] at hr; cases hr
      | some v =>
        cases v with
        | none => rw [hg] at hr; cases hr
        | int i => rw [hg] at hr; cases hr
        | ref o => rw [hg] at hr; exact ih o r hr

theorem objName_ref {w : PWorld} {n : Name} (hn : ObjName w n) {o : Oid} {v : Val} (hg : getParam w o n = some v)
    (hv : v ≠ .none) : ∃ o', v = .ref o' := by
  rcases hn o v hg with h | ⟨o', h, _⟩
  · exact absurd h hv
  · exact ⟨o', h⟩


end ParamVerif.Depends
