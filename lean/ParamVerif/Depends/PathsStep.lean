/-
Helper lemmas for C07, part 4: one assignment on a world whose watchers are `Installed`.
-/
import ParamVerif.Depends.PathsLemmas

namespace ParamVerif.Depends

/-! ### what a walk reads -/

/-- the (object, parameter) pairs `follow` reads -/
def followReads (w : PWorld) : Val → List Name → List (Oid × Name)
  | _, [] => []
  | .ref c, n :: rest => (c, n) :: followReads w (attrOr w (.ref c) n) rest
  | _, _ :: _ => []

theorem followReads_deps (w : PWorld) (leaf : Name) : ∀ (path : List Name) (cur : Oid),
    followReads w (.ref cur) (path ++ [leaf]) = depsFrom w cur path leaf := by
  intro path
  induction path with
  | nil => intro cur; simp [followReads, depsFrom]
  | cons n rest ih =>
    intro cur
    simp only [List.cons_append, followReads, depsFrom, attrOr]
    cases hg : getParam w cur n with
    | none =>
      simp only [Option.getD_none]
      cases h : rest ++ [leaf] <;> simp [followReads]
    | some v =>
      cases v with
      | none =>
        simp only [Option.getD_some]
        cases h : rest ++ [leaf] <;> simp [followReads]
      | int i =>
        simp only [Option.getD_some]
        cases h : rest ++ [leaf] <;> simp [followReads]
      | ref o => simp [ih]

/-- two graphs agree on a set of reads -/
def AgreeOn (w w' : PWorld) (R : List (Oid × Name)) : Prop := ∀ r ∈ R, getParam w' r.1 r.2 = getParam w r.1 r.2

theorem follow_agree (w w' : PWorld) : ∀ (path : List Name) (v : Val), AgreeOn w w' (followReads w v path) →
    follow w' v path = follow w v path := by
  intro path
  induction path with
  | nil => intro v _; rfl
  | cons n rest ih =>
    intro v h
    cases v with
    | none => simp [follow, attrOr, follow_none]
    | int i => simp [follow, attrOr, follow_none]
    | ref c =>
      simp only [followReads] at h
      have h0 : getParam w' c n = getParam w c n := h (c, n) (by simp)
      have hattr : attrOr w' (.ref c) n = attrOr w (.ref c) n := by simp [attrOr, h0]
      simp only [follow, hattr]
      exact ih _ (fun r hr => h r (List.mem_cons_of_mem _ hr))

theorem depsFrom_agree (w w' : PWorld) (leaf : Name) : ∀ (path : List Name) (cur : Oid),
    AgreeOn w w' (depsFrom w cur path leaf) →
    depsFrom w' cur path leaf = depsFrom w cur path leaf ∧ chainObjsFrom w' cur path = chainObjsFrom w cur path ∧
      ∀ d, builtFrom w' cur d path leaf = builtFrom w cur d path leaf := by
  intro path
  induction path with
  | nil => intro cur _; exact ⟨rfl, rfl, fun _ => rfl⟩
  | cons n rest ih =>
    intro cur h
    have h0 : getParam w' cur n = getParam w cur n := h (cur, n) (by simp [depsFrom])
    simp only [depsFrom, chainObjsFrom, builtFrom, h0]
    cases hg : getParam w cur n with
    | none => simp
    | some v =>
      cases v with
      | none => simp
      | int i => simp
      | ref o =>
        simp only
        have := ih o (fun r hr => h r (by simp only [depsFrom, hg]; exact List.mem_cons_of_mem _ hr))
        exact ⟨by rw [this.1], by rw [this.2.1], fun d => by rw [this.2.2]⟩

/-- the leaf is read last: the path part of the reads -/
def pathReads (w : PWorld) : Oid → List Name → List (Oid × Name)
  | _, [] => []
  | cur, n :: rest =>
    (cur, n) :: (match getParam w cur n with
                 | some (.ref o) => pathReads w o rest
                 | _ => [])

theorem pathReads_agree (w w' : PWorld) (leaf : Name) : ∀ (path : List Name) (cur : Oid),
    AgreeOn w w' (pathReads w cur path) →
    chainObjsFrom w' cur path = chainObjsFrom w cur path ∧ (∀ d, builtFrom w' cur d path leaf = builtFrom w cur d path leaf) ∧
      (depsFrom w' cur path leaf).map (·.1) = (depsFrom w cur path leaf).map (·.1) ∧
      depsFrom w' cur path leaf = depsFrom w cur path leaf := by
  intro path
  induction path with
  | nil => intro cur _; exact ⟨rfl, fun _ => rfl, rfl, rfl⟩
  | cons n rest ih =>
    intro cur h
    have h0 : getParam w' cur n = getParam w cur n := h (cur, n) (by simp [pathReads])
    simp only [depsFrom, chainObjsFrom, builtFrom, h0]
    cases hg : getParam w cur n with
    | none => simp
    | some v =>
      cases v with
      | none => simp
      | int i => simp
      | ref o =>
        simp only
        have := ih o (fun r hr => h r (by simp only [pathReads, hg]; exact List.mem_cons_of_mem _ hr))
        exact ⟨by rw [this.1], fun d => by rw [this.2.1], by simp [this.2.2.1], by rw [this.2.2.2]⟩

theorem pathReads_sub (w : PWorld) (leaf : Name) : ∀ (path : List Name) (cur : Oid),
    ∀ r ∈ pathReads w cur path, r ∈ depsFrom w cur path leaf := by
  intro path
  induction path with
  | nil => intro cur r hr; cases hr
  | cons n rest ih =>
    intro cur r hr
    simp only [pathReads, depsFrom, List.mem_cons] at hr ⊢
    rcases hr with h | h
    · exact Or.inl h
    · right
      cases hg : getParam w cur n with
      | none => rw [hg] at h; cases h
      | some v =>
        cases v with
        | none => rw [hg] at h; cases h
        | int i => rw [hg] at h; cases h
        | ref o => rw [hg] at h; exact ih o r h

theorem pathReads_fst (w : PWorld) : ∀ (path : List Name) (cur : Oid),
    ∀ r ∈ pathReads w cur path, r.1 ∈ (chainObjsFrom w cur path).dropLast ∨ r.1 ∈ chainObjsFrom w cur path := by
  intro path cur r hr
  right
  induction path generalizing cur with
  | nil => cases hr
  | cons n rest ih =>
    simp only [pathReads, List.mem_cons] at hr
    simp only [chainObjsFrom, List.mem_cons]
    rcases hr with h | h
    · exact Or.inl (by rw [h])
    · right
      cases hg : getParam w cur n with
      | none => rw [hg] at h; cases h
      | some v =>
        cases v with
        | none => rw [hg] at h; cases h
        | int i => rw [hg] at h; cases h
        | ref o => rw [hg] at h; exact ih o h

/-! ### the store -/

def store (w : PWorld) (o : Oid) (ob : PObj) (p : Name) (v : Val) : PWorld :=
  { w with objs := w.objs.set o { ob with vals := setVals ob.vals p v } }

theorem lookupVal_setVals (p : Name) (v : Val) : ∀ (vals : List (Name × Val)) (n : Name),
    lookupVal (setVals vals p v) n = if n = p then (lookupVal vals p).map (fun _ => v) else lookupVal vals n := by
  intro vals
  induction vals with
  | nil => intro n; simp [setVals, lookupVal]
  | cons kv rest ih =>
    intro n
    obtain ⟨k, v'⟩ := kv
    by_cases hk : k = p
    · subst hk
      by_cases hn : n = k
      · subst hn; simp [setVals, lookupVal]
      · have : ¬ k = n := fun e => hn e.symm
        simp [setVals, lookupVal, hn, this]
    · by_cases hn : n = p
      · subst hn
        simp [setVals, lookupVal, hk, ih]
      · by_cases hkn : k = n
        · simp [setVals, lookupVal, hkn, hn]
        · simp [setVals, lookupVal, hk, hkn, hn, ih]

theorem getParam_store (w : PWorld) (o : Oid) (ob : PObj) (p : Name) (v old : Val)
    (hob : w.objs[o]? = some ob) (hold : lookupVal ob.vals p = some old) (o' : Oid) (n : Name) :
    getParam (store w o ob p v) o' n = if o' = o ∧ n = p then some v else getParam w o' n := by
  have hlt : o < w.objs.length := by
    rcases Nat.lt_or_ge o w.objs.length with h | h
    · exact h
    · rw [List.getElem?_eq_none h] at hob; cases hob
  unfold getParam store
  by_cases ho : o' = o
  · subst ho
    simp only [List.getElem?_set_self hlt, hob, lookupVal_setVals, true_and]
    by_cases hn : n = p
    · simp [hn, hold]
    · simp [hn]
  · have : ¬ o = o' := fun e => ho e.symm
    simp [List.getElem?_set_ne this, ho]

theorem classOf_store (w : PWorld) (o : Oid) (ob : PObj) (p : Name) (v : Val) (hob : w.objs[o]? = some ob) (o' : Oid) :
    classOf (store w o ob p v) o' = classOf w o' := by
  have hlt : o < w.objs.length := by
    rcases Nat.lt_or_ge o w.objs.length with h | h
    · exact h
    · rw [List.getElem?_eq_none h] at hob; cases hob
  unfold classOf store
  by_cases ho : o' = o
  · subst ho; simp [List.getElem?_set_self hlt, hob]
  · have : ¬ o = o' := fun e => ho e.symm
    simp [List.getElem?_set_ne this]

theorem setParam_ok {w w' : PWorld} {o : Oid} {p : Name} {v : Val} (h : setParam w o p v = .ok w') :
    ∃ ob c old w2, w.objs[o]? = some ob ∧ classOf w o = some c ∧ p ≠ "name" ∧ accepts w c p v = true ∧
      lookupVal ob.vals p = some old ∧ updateDeps (store w o ob p v) o (some p) false = .ok w2 ∧
      dispatchP w2 old v (w2.watchers.filter (fun x => x.on = o && x.params.contains p)) = .ok w' := by
  unfold setParam at h
  split at h
  · rename_i ob c hob hc
    split at h
    · simp at h
    · rename_i hname
      split at h
      · simp at h
      · rename_i hacc
        split at h
        · simp at h
        · rename_i old hold
          simp only at h
          split at h
          · simp at h
          · rename_i w2 hw2
            exact ⟨ob, c, old, w2, hob, hc, hname, by simpa using hacc, hold, hw2, h⟩
  · simp at h

/-- `Scope` additionally needs: the parameters of the path are declared object-valued everywhere -/
def ObjOnly (w : PWorld) (s : PathSpec) : Prop := ∀ n ∈ s.path, ∀ c ∈ w.classes, n ∉ c.intParams

theorem classOf_mem {w : PWorld} {o : Oid} {c : PClass} (h : classOf w o = some c) : c ∈ w.classes := by
  unfold classOf at h
  split at h
  · exact List.mem_of_getElem? h
  · cases h

theorem scope_store {w : PWorld} {t : Oid} {m : Name} {s : PathSpec} (hs : Scope w t m s) (hoo : ObjOnly w s)
    {o : Oid} {ob : PObj} {c : PClass} {p : Name} {v old : Val}
    (hob : w.objs[o]? = some ob) (hc : classOf w o = some c) (hacc : accepts w c p v = true)
    (hold : lookupVal ob.vals p = some old) :
    Scope (store w o ob p v) t m s ∧ ObjOnly (store w o ob p v) s := by
  have hlen : (store w o ob p v).objs.length = w.objs.length := by simp [store]
  have hgp := getParam_store w o ob p v old hob hold
  have hasN : ∀ n, HasName w n → HasName (store w o ob p v) n := by
    intro n hn o' ho'
    rw [hgp]
    split
    · exact ⟨v, rfl⟩
    · exact hn o' (by rw [← hlen]; exact ho')
  refine ⟨⟨?_, ?_, hs.leaf, hs.path, ?_, hasN _ hs.hasLeaf⟩, fun n hn c' hc' => hoo n hn c' (by simpa [store] using hc')⟩
  · simpa [classOf_store w o ob p v hob] using hs.tcls
  · intro o' c' ho' hc'
    rw [classOf_store w o ob p v hob] at hc'
    exact hs.others o' c' ho' hc'
  · intro n hn
    refine ⟨hasN n (hs.names n hn).1, ?_, (hs.names n hn).2.2⟩
    intro o' v' hv'
    rw [hgp] at hv'
    rw [hlen]
    split at hv'
    · rename_i hcond
      simp only [Option.some.injEq] at hv'
      subst hv'
      -- the assigned value was accepted by an object-valued parameter
      unfold accepts at hacc
      cases v with
      | none => exact Or.inl rfl
      | ref o2 =>
        simp only [Bool.and_eq_true, decide_eq_true_eq] at hacc
        exact Or.inr ⟨o2, rfl, hacc.2⟩
      | int i =>
        simp only [List.contains_iff_mem] at hacc
        exact absurd (hcond.2 ▸ hacc) (hoo n hn c (classOf_mem hc))
    · exact (hs.names n hn).2.1 o' v' hv'

/-! ### `_update_deps` calls that do nothing -/

theorem updateDeps_other {w : PWorld} {t : Oid} {m : Name} {s : PathSpec} (hs : Scope w t m s) {o : Oid} {c : PClass}
    (ho : o ≠ t) (hc : classOf w o = some c) (a : Option Name) (init : Bool := false) : updateDeps w o a init = .ok w := by
  unfold updateDeps
  rw [hc]
  simp only [hs.others o c ho hc]
  rfl

theorem updateDeps_otherAttr {w : PWorld} {t : Oid} {m : Name} {s : PathSpec} (hs : Scope w t m s) {p : Name}
    (hp : p ≠ s.root) : updateDeps w t (some p) false = .ok w := by
  obtain ⟨ct, hct, hm⟩ := hs.tcls
  unfold updateDeps
  rw [hct]
  simp only [hm]
  have : ([s].filter (fun s' => decide (s'.root = p))) = [] := by
    have hne : ¬ s.root = p := fun e => hp e.symm
    simp [hne]
  simp [updateEntries, updateEntry, this]

/-! ### facts about the shapes of a walk -/

theorem builtFrom_on (w : PWorld) : ∀ (path : List Name) (cur : Oid) (d : Nat) (leaf : Name),
    (builtFrom w cur d path leaf).map (·.on) = chainObjsFrom w cur path := by
  intro path
  induction path with
  | nil => intro cur d leaf; rfl
  | cons n rest ih =>
    intro cur d leaf
    simp only [builtFrom, chainObjsFrom, List.map_cons]
    split <;> simp [ih]

/-- the remaining path kept in the filter of a shape -/
def restOf (sh : Shape) : List Name :=
  match sh.changed with
  | some [r] => r
  | _ => []

/-- through the holder of a shape the walk continues to the same leaf — in any graph `u` that agrees
with `w` on what is read at the other holders -/
theorem builtFrom_cont (w u : PWorld) (leaf : Name) : ∀ (path : List Name) (cur : Oid) (d : Nat) (sh : Shape),
    sh ∈ builtFrom w cur d path leaf → (chainObjsFrom w cur path).Nodup →
    (∀ r ∈ pathReads w cur path, r.1 ≠ sh.on → getParam u r.1 r.2 = getParam w r.1 r.2) →
    ∃ e, sh.params = [e] ∧ (sh.on, e) ∈ depsFrom w cur path leaf ∧
      follow u (.ref cur) (path ++ [leaf]) = follow u (.ref sh.on) (e :: restOf sh) ∧
      (∀ q ∈ followReads w (attrOr w (.ref sh.on) e) (restOf sh), q.1 ≠ sh.on) ∧
      (sh.changed = none → e = leaf ∧ sh.cb = false ∧ ∀ r ∈ pathReads w cur path, r.1 ≠ sh.on) ∧
      (sh.changed ≠ none → (sh.on, e) ∈ pathReads w cur path ∧ (sh.on ≠ cur → sh.cb = true) ∧
        (sh.on = cur → sh.cb = decide (0 < d)) ∧ sh.changed = some [restOf sh]) := by
  intro path
  induction path with
  | nil =>
    intro cur d sh hsh _ _
    simp only [builtFrom, List.mem_singleton] at hsh
    subst hsh
    exact ⟨leaf, rfl, by simp [depsFrom], by simp [restOf], by simp [restOf, followReads],
      fun _ => ⟨rfl, rfl, by simp [pathReads]⟩, fun h => absurd rfl h⟩
  | cons n rest ih =>
    intro cur d sh hsh hnd hag
    simp only [builtFrom, List.mem_cons] at hsh
    simp only [chainObjsFrom, List.nodup_cons] at hnd
    rcases hsh with rfl | hsh
    · refine ⟨n, rfl, by simp [depsFrom], by simp [restOf], ?_, fun h => by simp at h,
        fun _ => ⟨by simp [pathReads], fun h => absurd rfl h, fun _ => rfl, by simp [restOf]⟩⟩
      simp only [restOf]
      intro q hq
      simp only [attrOr] at hq
      cases hg : getParam w cur n with
      | none =>
        rw [hg] at hq
        cases h : rest ++ [leaf] <;> simp [h, followReads] at hq
      | some v =>
        rw [hg] at hq
        simp only [Option.getD_some] at hq
        cases v with
        | none => cases h : rest ++ [leaf] <;> simp [h, followReads] at hq
        | int i => cases h : rest ++ [leaf] <;> simp [h, followReads] at hq
        | ref o' =>
          rw [followReads_deps] at hq
          rw [hg] at hnd
          have : q.1 ∈ chainObjsFrom w o' rest := by
            rw [← depsFrom_fst w rest o' leaf]
            exact List.mem_map.2 ⟨q, hq, rfl⟩
          intro e
          exact hnd.1 (e ▸ this)
    · cases hg : getParam w cur n with
      | none => rw [hg] at hsh; cases hsh
      | some v =>
        cases v with
        | none => rw [hg] at hsh; cases hsh
        | int i => rw [hg] at hsh; cases hsh
        | ref o' =>
          rw [hg] at hsh hnd
          have hon : sh.on ∈ chainObjsFrom w o' rest := by
            rw [← builtFrom_on w rest o' (d + 1) leaf]
            exact List.mem_map.2 ⟨sh, hsh, rfl⟩
          have hne : sh.on ≠ cur := fun e => hnd.1 (e ▸ hon)
          have hu : getParam u cur n = some (.ref o') := by
            rw [hag (cur, n) (by simp [pathReads]) (fun e => hne e.symm)]
            exact hg
          obtain ⟨e, h1, h2, h3, h4, h5, h6⟩ := ih o' (d + 1) sh hsh hnd.2 (by
            intro r hr hrne
            exact hag r (by simp only [pathReads, hg]; exact List.mem_cons_of_mem _ hr) hrne)
          refine ⟨e, h1, by simp only [depsFrom, hg]; exact List.mem_cons_of_mem _ h2, ?hfollow, h4, ?hnone, ?hsome⟩
          case hfollow =>
            have e1 : follow u (.ref cur) (n :: (rest ++ [leaf])) = follow u (.ref o') (rest ++ [leaf]) := by
              simp [follow, attrOr, hu]
            exact e1.trans h3
          case hnone =>
            intro hc
            obtain ⟨a, b, c⟩ := h5 hc
            refine ⟨a, b, ?_⟩
            intro r hr
            simp only [pathReads, hg, List.mem_cons] at hr
            rcases hr with rfl | hr
            · exact fun e => hne e.symm
            · exact c r hr
          case hsome =>
            intro hc
            obtain ⟨a, b, c, dd⟩ := h6 hc
            refine ⟨by simp only [pathReads, hg]; exact List.mem_cons_of_mem _ a, fun _ => ?_, fun e => absurd e hne, dd⟩
            by_cases hh : sh.on = o'
            · have := c hh
              simpa using this
            · exact b hh

/-! ### one watcher invocation on a world whose dynamic watchers are all recorded -/

theorem skipEvent_congr {w w' : PWorld} (h : SameGraph w w') (c : Option (List (List Name))) (old new : Val) :
    skipEvent w' c old new = skipEvent w c old new := by
  unfold skipEvent subValue
  cases c with
  | none => rfl
  | some ps => simp only [follow_congr h]

theorem readsOf_congr {w w' : PWorld} (h : SameGraph w w') (t : Oid) (m : Name) : readsOf w' t m = readsOf w t m := by
  unfold readsOf methodSpecs
  simp only [classOf_congr h, follow_congr h]

theorem installed_congr_log {w : PWorld} {t : Oid} {m : Name} {s : PathSpec} (hi : Installed w t m s) (l : List Call) :
    Installed { w with log := l } t m s :=
  ⟨by
    have := built_congr (w := w) (w' := { w with log := l }) ⟨rfl, rfl⟩ t s
    rw [this]
    exact hi.shapes, hi.owned, hi.cbs, hi.dynKeys⟩

theorem callWatcherP_installed (u : PWorld) (t : Oid) (m : Name) (s : PathSpec) (x : DW) (old v : Val)
    (hs : Scope u t m s) (hsim : (chainObjsFrom u t s.path).Nodup)
    (hown : ∀ y ∈ u.watchers, y.id ∈ dynGet u.dyn (t, m)) (hkeys : ∀ e ∈ u.dyn, e.1 = (t, m))
    (hx : x.owner = t ∧ x.method = m) (hcb : ∀ a, x.callback = some a → a = none ∨ a = some s.root) :
    ∃ u', callWatcherP u x old v = .ok u' ∧ SameGraph u u' ∧
      u'.log = u.log ++ (if valEq old v || skipEvent u x.changed old v then [] else [⟨t, m, readsOf u t m⟩]) ∧
      ((valEq old v = true ∨ x.callback = none) → u'.watchers = u.watchers ∧ u'.dyn = u.dyn) ∧
      ((valEq old v = false ∧ x.callback ≠ none) → Installed u' t m s) := by
  unfold callWatcherP
  by_cases hv : valEq old v = true
  · exact ⟨u, by simp [hv], SameGraph.refl u, by simp [hv], fun _ => ⟨rfl, rfl⟩, fun h => by simp [hv] at h⟩
  · simp only [hv, Bool.false_eq_true, if_false, Bool.false_or]
    cases hc : x.callback with
    | none =>
      simp only
      by_cases hsk : skipEvent u x.changed old v = true
      · exact ⟨u, by simp [hsk], SameGraph.refl u, by simp [hsk], fun _ => ⟨rfl, rfl⟩, fun h => absurd rfl h.2⟩
      · refine ⟨{ u with log := u.log ++ [⟨x.owner, x.method, readsOf u x.owner x.method⟩] }, by simp [hsk], ⟨rfl, rfl⟩,
          by simp [hsk, hx.1, hx.2], fun _ => ⟨rfl, rfl⟩, fun h => absurd rfl h.2⟩
    | some a =>
      simp only
      obtain ⟨u3, h1, h2, h3, h4⟩ := rebuild u t m s a hs hsim hown hkeys (hcb a hc)
      rw [hx.1, h1]
      simp only [skipEvent_congr h2, readsOf_congr h2, hx.2]
      by_cases hsk : skipEvent u x.changed old v = true
      · exact ⟨u3, by simp [hsk], h2, by simp [hsk, h3], fun h => by simp_all, fun _ => h4⟩
      · refine ⟨{ u3 with log := u3.log ++ [⟨t, m, readsOf u t m⟩] }, by simp [hsk], ⟨h2.1, h2.2⟩,
          by simp [hsk, h3], fun h => by simp_all, fun _ => installed_congr_log h4 _⟩

/-! ### a step -/

theorem built_unfold {w : PWorld} {t : Oid} {m : Name} {s : PathSpec} (hs : Scope w t m s) :
    ∃ n0 rest0, s.path = n0 :: rest0 ∧ s.root = n0 ∧ (t, n0) ∈ depsFrom w t s.path s.leaf ∧
      built w t s = (match getParam w t n0 with
        | some (.ref _) => builtFrom w t 0 s.path s.leaf
        | _ => []) := by
  obtain ⟨n0, rest0, hpe⟩ := List.exists_cons_of_ne_nil hs.path
  refine ⟨n0, rest0, hpe, by simp [PathSpec.root, hpe], by simp [hpe, depsFrom], ?_⟩
  simp only [built, hpe]
  cases getParam w t n0 with
  | none => rfl
  | some v => cases v <;> rfl

/-- every installed watcher sits on a pair the current walk reads -/
theorem watcher_dep {w : PWorld} {t : Oid} {m : Name} {s : PathSpec} (hs : Scope w t m s) (hi : Installed w t m s)
    (hsim : (chainObjsFrom w t s.path).Nodup) {x : DW} (hx : x ∈ w.watchers) :
    shapeOf x ∈ builtFrom w t 0 s.path s.leaf ∧ (∃ o1, getParam w t s.root = some (.ref o1)) ∧
      ∃ e, x.params = [e] ∧ (x.on, e) ∈ depsFrom w t s.path s.leaf := by
  obtain ⟨n0, rest0, hpe, hroot, _, hb⟩ := built_unfold hs
  have hmem : shapeOf x ∈ built w t s := by rw [← hi.shapes]; exact List.mem_map.2 ⟨x, hx, rfl⟩
  rw [hb] at hmem
  cases hg : getParam w t n0 with
  | none => rw [hg] at hmem; cases hmem
  | some v =>
    cases v with
    | none => rw [hg] at hmem; cases hmem
    | int i => rw [hg] at hmem; cases hmem
    | ref o1 =>
      rw [hg] at hmem
      obtain ⟨e, h1, h2, _⟩ := builtFrom_cont w w s.leaf s.path t 0 (shapeOf x) hmem hsim (fun _ _ _ => rfl)
      exact ⟨hmem, ⟨o1, by rw [hroot]; exact hg⟩, e, h1, h2⟩

theorem built_agree {w w1 : PWorld} {t : Oid} {m : Name} {s : PathSpec} (hs : Scope w t m s)
    (hag : AgreeOn w w1 (pathReads w t s.path)) : built w1 t s = built w t s ∧
      chainObjsFrom w1 t s.path = chainObjsFrom w t s.path := by
  obtain ⟨n0, rest0, hpe, _, _, _⟩ := built_unfold hs
  have h0 : getParam w1 t n0 = getParam w t n0 := hag (t, n0) (by simp [hpe, pathReads])
  obtain ⟨h1, h2, _⟩ := pathReads_agree w w1 s.leaf s.path t hag
  refine ⟨?_, h1⟩
  simp only [built, hpe, h0]
  rw [← hpe, h2]

/-- **an assignment the walk does not read**: nothing fires, everything stays installed -/
theorem step_untouched {w w' : PWorld} {t : Oid} {m : Name} {s : PathSpec} {o : Oid} {p : Name} {v : Val}
    (hs : Scope w t m s) (hoo : ObjOnly w s) (hi : Installed w t m s) (hsim : (chainObjsFrom w t s.path).Nodup)
    (hstep : setParam w o p v = .ok w') (hun : (o, p) ∉ depsFrom w t s.path s.leaf) :
    w'.log = w.log ∧ Installed w' t m s ∧ Scope w' t m s ∧ ObjOnly w' s ∧
      depsFrom w' t s.path s.leaf = depsFrom w t s.path s.leaf ∧
      follow w' (.ref t) s.elems = follow w (.ref t) s.elems := by
  obtain ⟨ob, c, old, w2, hob, hc, _, hacc, hold, hud, hdisp⟩ := setParam_ok hstep
  obtain ⟨hs1, hoo1⟩ := scope_store hs hoo hob hc hacc hold
  obtain ⟨n0, rest0, hpe, hroot, hfirst, _⟩ := built_unfold hs
  have hgp := getParam_store w o ob p v old hob hold
  -- the rebinding call of the setter does nothing
  have hw2 : w2 = store w o ob p v := by
    by_cases hot : o = t
    · subst hot
      have hp : p ≠ s.root := by
        intro e
        apply hun
        rw [e, hroot]; exact hfirst
      rw [updateDeps_otherAttr hs1 hp] at hud
      exact (Except.ok.inj hud).symm
    · rw [updateDeps_other hs1 hot (by rw [classOf_store w o ob p v hob]; exact hc)] at hud
      exact (Except.ok.inj hud).symm
  subst hw2
  -- no watcher is registered for the pair
  have hnone : (store w o ob p v).watchers.filter (fun x => x.on = o && x.params.contains p) = [] := by
    rw [List.filter_eq_nil_iff]
    intro x hx hcond
    simp only [Bool.and_eq_true, decide_eq_true_eq, List.contains_iff_mem] at hcond
    obtain ⟨_, _, e, h1, h2⟩ := watcher_dep hs hi hsim (x := x) hx
    rw [h1] at hcond
    simp only [List.mem_singleton] at hcond
    apply hun
    rw [← hcond.1, hcond.2]; exact h2
  rw [hnone] at hdisp
  simp only [dispatchP, Except.ok.injEq] at hdisp
  subst hdisp
  have hag : AgreeOn w (store w o ob p v) (depsFrom w t s.path s.leaf) := by
    intro r hr
    rw [hgp]
    split
    · rename_i hcond
      exact absurd (by rw [← hcond.1, ← hcond.2]; exact hr) hun
    · rfl
  have hagp : AgreeOn w (store w o ob p v) (pathReads w t s.path) :=
    fun r hr => hag r (pathReads_sub w s.leaf s.path t r hr)
  obtain ⟨hb, _⟩ := built_agree hs hagp
  refine ⟨rfl, ⟨by rw [hb]; exact hi.shapes, hi.owned, hi.cbs, hi.dynKeys⟩, hs1, hoo1, (depsFrom_agree _ _ _ _ _ hag).1, ?_⟩
  apply follow_agree
  rw [PathSpec.elems, followReads_deps]
  exact hag

/-! ### nothing but the setter's store changes the graph -/

theorem watchGroups_graph (t : Oid) (m : Name) (a : Option Name) : ∀ (gs : List Group) (w w' : PWorld),
    watchGroups w t m a gs = .ok w' → SameGraph w w' := by
  intro gs
  induction gs with
  | nil => intro w w' h; simp only [watchGroups, Except.ok.injEq] at h; subst h; exact SameGraph.refl _
  | cons g rest ih =>
    intro w w' h
    simp only [watchGroups] at h
    split at h
    · simp at h
    · rename_i w1 h1
      have : SameGraph w w1 := by
        unfold watchGroup at h1
        split at h1
        · simp at h1
        · split at h1
          · simp at h1
          · simp only [Except.ok.injEq] at h1
            subst h1
            exact ⟨rfl, rfl⟩
      exact this.trans (ih w1 w' h)

theorem updateEntry_graph {u u1 : PWorld} {o : Oid} {a : Option Name} {init : Bool} {m : PMethod}
    (h1 : updateEntry u o a init m = .ok u1) : SameGraph u u1 := by
  unfold updateEntry at h1
  simp only at h1
  generalize List.filter _ m.specs = dynamic at h1
  split at h1
  · simp only [Except.ok.injEq] at h1; subst h1; exact SameGraph.refl _
  · split at h1
    · simp at h1
    · rename_i gs _
      have := watchGroups_graph o m.name a gs _ _ h1
      refine ⟨this.1.trans ?_, this.2.trans ?_⟩ <;> split <;> rfl

theorem updateDeps_graph {w w' : PWorld} {o : Oid} {a : Option Name} {init : Bool}
    (h : updateDeps w o a init = .ok w') : SameGraph w w' := by
  unfold updateDeps at h
  split at h
  · simp at h
  · rename_i c _
    have : ∀ (ms : List PMethod) (u u' : PWorld), updateEntries u o a init ms = .ok u' → SameGraph u u' := by
      intro ms
      induction ms with
      | nil => intro u u' hu; simp only [updateEntries, Except.ok.injEq] at hu; subst hu; exact SameGraph.refl _
      | cons m rest ih =>
        intro u u' hu
        simp only [updateEntries] at hu
        split at hu
        · simp at hu
        · rename_i u1 h1
          exact (updateEntry_graph h1).trans (ih u1 u' hu)
    exact this c.methods w w' h

theorem dispatchP_graph (old v : Val) : ∀ (ws : List DW) (w w' : PWorld), dispatchP w old v ws = .ok w' → SameGraph w w' := by
  intro ws
  induction ws with
  | nil => intro w w' h; simp only [dispatchP, Except.ok.injEq] at h; subst h; exact SameGraph.refl _
  | cons x rest ih =>
    intro w w' h
    simp only [dispatchP] at h
    split at h
    · simp at h
    · rename_i w1 h1
      have : SameGraph w w1 := by
        unfold callWatcherP at h1
        split at h1
        · simp only [Except.ok.injEq] at h1; subst h1; exact SameGraph.refl _
        · simp only at h1
          split at h1
          · simp at h1
          · rename_i u hu
            have hg : SameGraph w u := by
              split at hu
              · exact updateDeps_graph hu
              · simp only [Except.ok.injEq] at hu; subst hu; exact SameGraph.refl _
            split at h1 <;> simp only [Except.ok.injEq] at h1 <;> subst h1
            · exact hg
            · exact ⟨hg.1, hg.2⟩
      exact this.trans (ih w1 w' h)

theorem setParam_graph {w w' : PWorld} {o : Oid} {p : Name} {v : Val} (h : setParam w o p v = .ok w') :
    ∃ ob old, w.objs[o]? = some ob ∧ lookupVal ob.vals p = some old ∧ SameGraph (store w o ob p v) w' := by
  obtain ⟨ob, c, old, w2, hob, _, _, _, hold, hud, hdisp⟩ := setParam_ok h
  exact ⟨ob, old, hob, hold, (updateDeps_graph hud).trans (dispatchP_graph _ _ _ _ _ hdisp)⟩

theorem valEq_eq {a b : Val} (h : valEq a b = true) : a = b := by
  cases a <;> cases b <;> simp_all [valEq]

theorem filter_key_singleton {α β : Type} [DecidableEq β] (g : α → β) : ∀ (l : List α) (a : α), (l.map g).Nodup → a ∈ l →
    l.filter (fun x => decide (g x = g a)) = [a] := by
  intro l
  induction l with
  | nil => intro a _ h; cases h
  | cons y rest ih =>
    intro a hn ha
    simp only [List.map_cons, List.nodup_cons] at hn
    rcases List.mem_cons.1 ha with rfl | ha'
    · have : rest.filter (fun x => decide (g x = g a)) = [] := by
        rw [List.filter_eq_nil_iff]
        intro x hx hgx
        simp only [decide_eq_true_eq] at hgx
        exact hn.1 (hgx ▸ List.mem_map.2 ⟨x, hx, rfl⟩)
      simp [this]
    · have hne : ¬ g y = g a := fun e => hn.1 (e ▸ List.mem_map.2 ⟨a, ha', rfl⟩)
      simp [hne, ih a hn.2 ha']

theorem deps_snd_unique {w : PWorld} {cur : Oid} {path : List Name} {leaf : Name}
    (hnd : (chainObjsFrom w cur path).Nodup) {a : Oid} {b c : Name}
    (h1 : (a, b) ∈ depsFrom w cur path leaf) (h2 : (a, c) ∈ depsFrom w cur path leaf) : b = c := by
  have hn : ((depsFrom w cur path leaf).map (·.1)).Nodup := by rw [depsFrom_fst]; exact hnd
  have := filter_key_singleton (fun d : Oid × Name => d.1) _ (a, b) hn h1
  have h3 : (a, c) ∈ (depsFrom w cur path leaf).filter (fun x => decide (x.1 = (a, b).1)) :=
    List.mem_filter.2 ⟨h2, by simp⟩
  rw [this] at h3
  simp at h3
  exact h3.symm

/-! ### the two kinds of assignment the walk reads -/

theorem subEq_some (a b : Val) : subEq (some a) (some b) = valEq a b := rfl

theorem skipEvent_refs (w : PWorld) (r : List Name) (a b : Oid) :
    skipEvent w (some [r]) (.ref a) (.ref b) = valEq (follow w (.ref a) r) (follow w (.ref b) r) := by
  simp [skipEvent, subValue, subEq]

theorem objName_ref {w : PWorld} {n : Name} (hn : ObjName w n) {o : Oid} {v : Val} (hg : getParam w o n = some v)
    (hv : v ≠ .none) : ∃ o', v = .ref o' := by
  rcases hn o v hg with h | ⟨o', h, _⟩
  · exact absurd h hv
  · exact ⟨o', h⟩

/-- **assignment of the root attribute of the owner** (`t.a = …`): the setter's own `_update_deps(a)`
rebuilds everything from the new graph, then the one watcher on `(t, a)` decides with its filter -/
theorem step_root {w w' : PWorld} {t : Oid} {m : Name} {s : PathSpec} {p : Name} {v : Val}
    (hs : Scope w t m s) (hoo : ObjOnly w s) (hi : Installed w t m s) (hsim : (chainObjsFrom w t s.path).Nodup)
    (hstep : setParam w t p v = .ok w') (hp : p = s.root) (hsim' : (chainObjsFrom w' t s.path).Nodup) :
    Installed w' t m s ∧ Scope w' t m s ∧ ObjOnly w' s ∧
    (∀ old, getParam w t p = some old → old ≠ .none → v ≠ .none →
      w'.log = w.log ++ (if valEq (follow w (.ref t) s.elems) (follow w' (.ref t) s.elems) then []
        else [⟨t, m, readsOf w' t m⟩])) := by
  obtain ⟨ob, c, old, w2, hob, hc, _, hacc, hold, hud, hdisp⟩ := setParam_ok hstep
  obtain ⟨hs1, hoo1⟩ := scope_store hs hoo hob hc hacc hold
  have hgp := getParam_store w t ob p v old hob hold
  have hgold : getParam w t p = some old := by simp [getParam, hob, hold]
  have hg12 : SameGraph (store w t ob p v) w2 := updateDeps_graph hud
  have hg2' : SameGraph w2 w' := dispatchP_graph _ _ _ _ _ hdisp
  have hsim1 : (chainObjsFrom (store w t ob p v) t s.path).Nodup := by
    rw [← chainObjsFrom_congr (hg12.trans hg2')]; exact hsim'
  obtain ⟨w2', r1, r2, r3, r4⟩ := rebuild (store w t ob p v) t m s (some p) hs1 hsim1
    (fun x hx => (hi.owned x hx).2.2) hi.dynKeys (Or.inr (by rw [hp]))
  rw [r1] at hud
  have : w2' = w2 := Except.ok.inj hud
  subst this
  have hs2 : Scope w2' t m s := hs1.congr r2
  have hoo2 : ObjOnly w2' s := fun n hn c' hc' => hoo1 n hn c' (by rw [← r2.2]; exact hc')
  have hsim2 : (chainObjsFrom w2' t s.path).Nodup := by rw [chainObjsFrom_congr r2]; exact hsim1
  obtain ⟨n0, rest0, hpe, hroot, _, hb⟩ := built_unfold hs2
  have hpn : p = n0 := hp.trans hroot
  have hg2v : getParam w2' t n0 = some v := by
    rw [getParam_congr r2, hgp]; simp [hpn]
  have hlog2 : w2'.log = w.log := r3
  have hscope' : Scope w' t m s := hs2.congr hg2'
  have hoo' : ObjOnly w' s := fun n hn c' hc' => hoo2 n hn c' (by rw [← hg2'.2]; exact hc')
  have hvobj := (hs2.names n0 (by rw [hpe]; simp)).2.1 t v hg2v
  -- shapes of the rebuilt world
  have hshapes := r4.shapes
  rw [hb, hg2v] at hshapes
  rcases hvobj with hvn | ⟨o1, hvr, _⟩
  · -- detached: nothing is installed, nothing is called
    subst hvn
    simp only at hshapes
    have hnil : w2'.watchers = [] := List.map_eq_nil_iff.1 hshapes
    rw [hnil] at hdisp
    simp only [List.filter_nil, dispatchP, Except.ok.injEq] at hdisp
    subst hdisp
    exact ⟨r4, hs2, hoo2, fun _ _ _ hv => absurd rfl hv⟩
  · subst hvr
    simp only [hpe, builtFrom] at hshapes
    -- the first watcher is the one on `(t, a)`, the others sit on other objects
    cases hws : w2'.watchers with
    | nil => rw [hws] at hshapes; simp at hshapes
    | cons x0 xs =>
      rw [hws] at hshapes
      simp only [List.map_cons, List.cons.injEq] at hshapes
      obtain ⟨hx0, hxs⟩ := hshapes
      simp only [hg2v] at hxs
      have hchain : chainObjsFrom w2' t s.path = t :: chainObjsFrom w2' o1 rest0 := by
        simp [hpe, chainObjsFrom, hg2v]
      rw [hchain, List.nodup_cons] at hsim2
      have hfilter : (x0 :: xs).filter (fun x => x.on = t && x.params.contains p) = [x0] := by
        have h0 : (x0.on = t && x0.params.contains p) = true := by
          have h1 : x0.on = t := congrArg Shape.on hx0
          have h2 : x0.params = [n0] := congrArg Shape.params hx0
          simp [h1, h2, hpn]
        have hrest : xs.filter (fun x => x.on = t && x.params.contains p) = [] := by
          rw [List.filter_eq_nil_iff]
          intro y hy hcond
          simp only [Bool.and_eq_true, decide_eq_true_eq] at hcond
          have : shapeOf y ∈ builtFrom w2' o1 (0 + 1) rest0 s.leaf := by
            rw [← hxs]; exact List.mem_map.2 ⟨y, hy, rfl⟩
          have hon : y.on ∈ chainObjsFrom w2' o1 rest0 := by
            rw [← builtFrom_on w2' rest0 o1 (0 + 1) s.leaf]
            exact List.mem_map.2 ⟨shapeOf y, this, rfl⟩
          exact hsim2.1 (hcond.1 ▸ hon)
        rw [List.filter_cons, if_pos h0, hrest]
      rw [hws, hfilter] at hdisp
      have hcbnone : x0.callback = none := by
        have : x0.callback.isSome = false := by
          have := congrArg Shape.cb hx0
          simpa [shapeOf] using this
        cases h : x0.callback with
        | none => rfl
        | some a => rw [h] at this; cases this
      obtain ⟨u', c1, c2, c3, c4, _⟩ := callWatcherP_installed w2' t m s x0 old (.ref o1) hs2
        (by rw [hchain, List.nodup_cons]; exact hsim2)
        (fun y hy => (r4.owned y hy).2.2) r4.dynKeys
        ⟨(r4.owned x0 (by rw [hws]; simp)).1, (r4.owned x0 (by rw [hws]; simp)).2.1⟩
        (fun a ha => by rw [hcbnone] at ha; cases ha)
      simp only [dispatchP, c1, Except.ok.injEq] at hdisp
      subst hdisp
      obtain ⟨cw, cd⟩ := c4 (Or.inr hcbnone)
      have hinst' : Installed u' t m s :=
        ⟨by rw [cw, built_congr c2]; exact r4.shapes, fun y hy => by rw [cw] at hy; rw [cd]; exact r4.owned y hy,
         fun y hy => by rw [cw] at hy; exact r4.cbs y hy, fun e he => by rw [cd] at he; exact r4.dynKeys e he⟩
      refine ⟨hinst', hscope', hoo', ?_⟩
      intro old' hold' holdn _
      rw [hgold] at hold'
      have : old' = old := (Option.some.inj hold').symm
      subst this
      obtain ⟨oo, hoo_⟩ := objName_ref (hs.names p (by rw [hpn, hpe]; simp)).2.1 hgold holdn
      subst hoo_
      have hchg : x0.changed = some [rest0 ++ [s.leaf]] := congrArg Shape.changed hx0
      rw [c3, hlog2, hchg, skipEvent_refs]
      have hv0 : valEq (.ref oo) (.ref o1) = false := rfl
      simp only [hv0, Bool.false_or]
      -- the value reached afterwards
      have e1 : follow u' (.ref t) s.elems = follow w2' (.ref o1) (rest0 ++ [s.leaf]) := by
        rw [follow_congr c2]
        simp [PathSpec.elems, hpe, follow, attrOr, hg2v]
      -- the value reached before
      have hgw : getParam w t n0 = some (.ref oo) := by rw [← hpn]; exact hgold
      have e2 : follow w (.ref t) s.elems = follow w (.ref oo) (rest0 ++ [s.leaf]) := by
        simp [PathSpec.elems, hpe, follow, attrOr, hgw]
      have e3 : follow w2' (.ref oo) (rest0 ++ [s.leaf]) = follow w (.ref oo) (rest0 ++ [s.leaf]) := by
        rw [follow_congr r2]
        apply follow_agree
        intro q hq
        rw [hgp]
        split
        · rename_i hcond
          -- the old sub-tree does not read `(t, a)`
          have hfirst : (⟨t, [n0], some [rest0 ++ [s.leaf]], decide (0 < 0)⟩ : Shape) ∈ builtFrom w t 0 s.path s.leaf := by
            simp [hpe, builtFrom]
          obtain ⟨e, he1, _, _, he4, _, _⟩ := builtFrom_cont w w s.leaf s.path t 0 _ hfirst hsim (fun _ _ _ => rfl)
          simp only [List.cons.injEq, and_true] at he1
          subst he1
          have := he4 q (by simpa [restOf, attrOr, hgw] using hq)
          exact absurd hcond.1 this
        · rfl
      rw [e1, e2, ← e3, readsOf_congr c2]

theorem pathReads_snd_mem (w : PWorld) : ∀ (path : List Name) (cur : Oid), ∀ r ∈ pathReads w cur path, r.2 ∈ path := by
  intro path
  induction path with
  | nil => intro cur r hr; cases hr
  | cons n rest ih =>
    intro cur r hr
    simp only [pathReads, List.mem_cons] at hr ⊢
    rcases hr with rfl | hr
    · exact Or.inl rfl
    · right
      cases hg : getParam w cur n with
      | none => rw [hg] at hr; cases hr
      | some v =>
        cases v with
        | none => rw [hg] at hr; cases hr
        | int i => rw [hg] at hr; cases hr
        | ref o => rw [hg] at hr; exact ih o r hr

/-- **assignment on an object below the owner that the walk reads** (`t.a.b = …`, `t.a.b.x = …`): the
watcher installed on it rebinds through its callback (intermediate level) and decides with its filter -/
theorem step_deeper {w w' : PWorld} {t : Oid} {m : Name} {s : PathSpec} {o : Oid} {p : Name} {v : Val}
    (hs : Scope w t m s) (hoo : ObjOnly w s) (hi : Installed w t m s) (hsim : (chainObjsFrom w t s.path).Nodup)
    (hstep : setParam w o p v = .ok w') (hot : o ≠ t) (hto : (o, p) ∈ depsFrom w t s.path s.leaf)
    (hsim' : (chainObjsFrom w' t s.path).Nodup) :
    Installed w' t m s ∧ Scope w' t m s ∧ ObjOnly w' s ∧
    (∀ old, getParam w o p = some old → old ≠ .none → v ≠ .none →
      w'.log = w.log ++ (if valEq (follow w (.ref t) s.elems) (follow w' (.ref t) s.elems) then []
        else [⟨t, m, readsOf w' t m⟩])) := by
  obtain ⟨ob, c, old, w2, hob, hc, _, hacc, hold, hud, hdisp⟩ := setParam_ok hstep
  obtain ⟨hs1, hoo1⟩ := scope_store hs hoo hob hc hacc hold
  have hgp := getParam_store w o ob p v old hob hold
  have hgold : getParam w o p = some old := by simp [getParam, hob, hold]
  rw [updateDeps_other hs1 hot (by rw [classOf_store w o ob p v hob]; exact hc)] at hud
  have : store w o ob p v = w2 := Except.ok.inj hud
  subst this
  have hg1' : SameGraph (store w o ob p v) w' := dispatchP_graph _ _ _ _ _ hdisp
  have hsim1 : (chainObjsFrom (store w o ob p v) t s.path).Nodup := by
    rw [← chainObjsFrom_congr hg1']; exact hsim'
  have hscope' : Scope w' t m s := hs1.congr hg1'
  have hoo' : ObjOnly w' s := fun n hn c' hc' => hoo1 n hn c' (by rw [← hg1'.2]; exact hc')
  -- the root resolves, so the installed watchers are those of the walk
  obtain ⟨n0, rest0, hpe, hroot, _, hb⟩ := built_unfold hs
  have hrootref : ∃ o1, getParam w t n0 = some (.ref o1) := by
    cases hg : getParam w t n0 with
    | none => rw [hpe] at hto; simp [depsFrom, hg] at hto; exact absurd hto.1 hot
    | some vv =>
      cases vv with
      | none => rw [hpe] at hto; simp [depsFrom, hg] at hto; exact absurd hto.1 hot
      | int i => rw [hpe] at hto; simp [depsFrom, hg] at hto; exact absurd hto.1 hot
      | ref o1 => exact ⟨o1, rfl⟩
  obtain ⟨o1, hg0⟩ := hrootref
  rw [hg0] at hb
  simp only at hb
  have hBw : w.watchers.map shapeOf = builtFrom w t 0 s.path s.leaf := by rw [hi.shapes, hb]
  -- the shape and the watcher on `(o, p)`
  have hshex : ∃ sh ∈ builtFrom w t 0 s.path s.leaf, sh.on = o ∧ sh.params = [p] := by
    have h1 : (o, [p]) ∈ (depsFrom w t s.path s.leaf).map (fun x => (x.1, [x.2])) := List.mem_map.2 ⟨(o, p), hto, rfl⟩
    rw [← builtFrom_deps w s.path t 0 s.leaf] at h1
    obtain ⟨sh, hsh, he⟩ := List.mem_map.1 h1
    simp only [Prod.mk.injEq] at he
    exact ⟨sh, hsh, he.1, he.2⟩
  obtain ⟨sh, hsh, hsho, hshp⟩ := hshex
  have hxex : ∃ x ∈ w.watchers, shapeOf x = sh := by
    rw [← hBw] at hsh
    exact List.mem_map.1 hsh
  obtain ⟨x, hxw, hxs⟩ := hxex
  have hxon : x.on = o := by rw [← hsho, ← hxs]; rfl
  have honsN : (w.watchers.map (·.on)).Nodup := by
    have : w.watchers.map (·.on) = (w.watchers.map shapeOf).map (·.on) := by simp [List.map_map, shapeOf]
    rw [this, hBw, builtFrom_on]; exact hsim
  have hfilter : w.watchers.filter (fun y => y.on = o && y.params.contains p) = [x] := by
    rw [← filter_key_singleton (fun y : DW => y.on) w.watchers x honsN hxw]
    apply List.filter_congr
    intro y hy
    rw [hxon]
    by_cases hyo : y.on = o
    · obtain ⟨_, _, e, h1, h2⟩ := watcher_dep hs hi hsim (x := y) hy
      rw [hyo] at h2
      have := deps_snd_unique hsim h2 hto
      simp [hyo, h1, this]
    · simp [hyo]
  have hw1w : (store w o ob p v).watchers = w.watchers := rfl
  rw [hw1w, hfilter] at hdisp
  obtain ⟨u', c1, c2, c3, c4, c5⟩ := callWatcherP_installed (store w o ob p v) t m s x old v hs1 hsim1
    (fun y hy => (hi.owned y hy).2.2) hi.dynKeys ⟨(hi.owned x hxw).1, (hi.owned x hxw).2.1⟩ (hi.cbs x hxw)
  simp only [dispatchP, c1, Except.ok.injEq] at hdisp
  subst hdisp
  -- what the walk says about this shape, in the old and in the new graph
  obtain ⟨e, he1, _, he3, he4, he5, he6⟩ := builtFrom_cont w w s.leaf s.path t 0 sh hsh hsim (fun _ _ _ => rfl)
  rw [hshp] at he1
  simp only [List.cons.injEq, and_true] at he1
  subst he1
  have hagree1 : ∀ r ∈ pathReads w t s.path, r.1 ≠ sh.on →
      getParam (store w o ob p v) r.1 r.2 = getParam w r.1 r.2 := by
    intro r _ hne
    rw [hgp]
    split
    · rename_i hcond
      exact absurd (hcond.1.trans hsho.symm) hne
    · rfl
  obtain ⟨e', he1', _, he3', _, _, _⟩ := builtFrom_cont w (store w o ob p v) s.leaf s.path t 0 sh hsh hsim hagree1
  rw [hshp] at he1'
  simp only [List.cons.injEq, and_true] at he1'
  subst he1'
  rw [hsho] at he3 he3' he4
  have hg1v : getParam (store w o ob p v) o p = some v := by rw [hgp]; simp
  have hchg : x.changed = sh.changed := by rw [← hxs]; rfl
  have hcbx : x.callback.isSome = sh.cb := by rw [← hxs]; rfl
  by_cases hleafsh : sh.changed = none
  · -- the leaf
    obtain ⟨_, hcbf, hnotread⟩ := he5 hleafsh
    have hcbnone : x.callback = none := by
      rw [hcbf] at hcbx
      cases h : x.callback with
      | none => rfl
      | some a => rw [h] at hcbx; cases hcbx
    obtain ⟨cw, cd⟩ := c4 (Or.inr hcbnone)
    have hagp : AgreeOn w (store w o ob p v) (pathReads w t s.path) := by
      intro r hr
      exact hagree1 r hr (hnotread r hr)
    obtain ⟨hbuilt, _⟩ := built_agree hs hagp
    refine ⟨⟨by rw [cw, built_congr c2, hbuilt]; exact hi.shapes, fun y hy => by rw [cw] at hy; rw [cd]; exact hi.owned y hy,
      fun y hy => by rw [cw] at hy; exact hi.cbs y hy, fun e he => by rw [cd] at he; exact hi.dynKeys e he⟩, hscope', hoo', ?_⟩
    intro old' hold' _ _
    rw [hgold] at hold'
    have : old = old' := Option.some.inj hold'
    subst this
    rw [c3, hchg, hleafsh]
    have hrest : restOf sh = [] := by simp [restOf, hleafsh]
    rw [hrest] at he3 he3'
    have e1 : follow w (.ref t) s.elems = old := by
      rw [PathSpec.elems, he3]; simp [follow, attrOr, hgold]
    have e2 : follow u' (.ref t) s.elems = v := by
      rw [follow_congr c2, PathSpec.elems, he3']; simp [follow, attrOr, hg1v]
    simp only [skipEvent, Bool.or_false, e1, e2, readsOf_congr c2]
    rfl
  · -- an intermediate level
    obtain ⟨hinpath, hcbt, _, hchs⟩ := he6 hleafsh
    have hpmem : p ∈ s.path := pathReads_snd_mem w s.path t _ hinpath
    have hcbsome : x.callback ≠ none := by
      rw [hcbt (by rw [hsho]; exact hot)] at hcbx
      intro h; rw [h] at hcbx; cases hcbx
    by_cases hv : valEq old v = true
    · -- `None` replaced by `None`: nothing happens and nothing had to
      have hvo := valEq_eq hv
      obtain ⟨cw, cd⟩ := c4 (Or.inl hv)
      have hagp : AgreeOn w (store w o ob p v) (pathReads w t s.path) := by
        intro r _
        rw [hgp]
        split
        · rename_i hcond
          rw [hcond.1, hcond.2, hgold, hvo]
        · rfl
      obtain ⟨hbuilt, _⟩ := built_agree hs hagp
      refine ⟨⟨by rw [cw, built_congr c2, hbuilt]; exact hi.shapes, fun y hy => by rw [cw] at hy; rw [cd]; exact hi.owned y hy,
        fun y hy => by rw [cw] at hy; exact hi.cbs y hy, fun e he => by rw [cd] at he; exact hi.dynKeys e he⟩, hscope', hoo', ?_⟩
      intro old' hold' holdn _
      rw [hgold] at hold'
      have : old = old' := Option.some.inj hold'
      subst this
      obtain ⟨oo, rfl⟩ := objName_ref (hs.names p hpmem).2.1 hgold holdn
      subst hvo
      simp [valEq] at hv
    · simp only [Bool.not_eq_true] at hv
      refine ⟨c5 ⟨hv, hcbsome⟩, hscope', hoo', ?_⟩
      intro old' hold' holdn hvn
      rw [hgold] at hold'
      have : old = old' := Option.some.inj hold'
      subst this
      obtain ⟨oo, rfl⟩ := objName_ref (hs.names p hpmem).2.1 hgold holdn
      obtain ⟨vv, rfl⟩ := objName_ref (hs1.names p hpmem).2.1 hg1v hvn
      rw [c3, hchg, hchs, skipEvent_refs]
      simp only [hv, Bool.false_or]
      have e1 : follow w (.ref t) s.elems = follow w (.ref oo) (restOf sh) := by
        rw [PathSpec.elems, he3]; simp [follow, attrOr, hgold]
      have e2 : follow u' (.ref t) s.elems = follow (store w o ob p (.ref vv)) (.ref vv) (restOf sh) := by
        rw [follow_congr c2, PathSpec.elems, he3']; simp [follow, attrOr, hg1v]
      have e3 : follow (store w o ob p (.ref vv)) (.ref oo) (restOf sh) = follow w (.ref oo) (restOf sh) := by
        apply follow_agree
        intro q hq
        rw [hgp]
        split
        · rename_i hcond
          have := he4 q (by simpa [attrOr, hgold] using hq)
          exact absurd hcond.1 this
        · rfl
      rw [e1, e2, ← e3, readsOf_congr c2]
      rfl

/-! ### construction -/

theorem newObj_ok {w w' : PWorld} {cls : Nat} {vals : List (Name × Val)} (h : newObj w cls vals = .ok w') :
    ∃ c, w.classes[cls]? = some c ∧
      updateDeps { w with objs := w.objs ++ [⟨cls, vals⟩] } w.objs.length none true = .ok w' := by
  unfold newObj at h
  split at h
  · simp at h
  · rename_i c hc
    split at h
    · simp at h
    · split at h
      · simp at h
      · exact ⟨c, hc, h⟩

theorem getParam_append (w : PWorld) (ob : PObj) (o : Oid) (n : Name) (ho : o < w.objs.length) :
    getParam { w with objs := w.objs ++ [ob] } o n = getParam w o n := by
  simp [getParam, List.getElem?_append_left ho]

theorem pathReads_lt (w : PWorld) : ∀ (path : List Name) (cur : Oid), cur < w.objs.length → (∀ n ∈ path, ObjName w n) →
    ∀ r ∈ pathReads w cur path, r.1 < w.objs.length := by
  intro path
  induction path with
  | nil => intro cur _ _ r hr; cases hr
  | cons n rest ih =>
    intro cur hc hall r hr
    simp only [pathReads, List.mem_cons] at hr
    rcases hr with rfl | hr
    · exact hc
    · cases hg : getParam w cur n with
      | none => rw [hg] at hr; cases hr
      | some v =>
        cases v with
        | none => rw [hg] at hr; cases hr
        | int i => rw [hg] at hr; cases hr
        | ref o =>
          rw [hg] at hr
          rcases hall n (by simp) cur _ hg with h | ⟨o', h, hlt⟩
          · cases h
          · cases h
            exact ih o hlt (fun x hx => hall x (List.mem_cons_of_mem _ hx)) r hr

/-- **constructing the owner establishes the invariant** (`_update_deps(init=True)`) -/
theorem new_owner_installed {w w' : PWorld} {cls : Nat} {vals : List (Name × Val)} {t : Oid} {m : Name} {s : PathSpec}
    (hnew : newObj w cls vals = .ok w') (ht : t = w.objs.length) (hw : w.watchers = [] ∧ w.dyn = [])
    (hs' : Scope w' t m s) (hsim' : (chainObjsFrom w' t s.path).Nodup) : Installed w' t m s ∧ w'.log = w.log := by
  obtain ⟨c, _, hud⟩ := newObj_ok hnew
  have hg := updateDeps_graph hud
  rw [← ht] at hud
  obtain ⟨w2, r1, _, r3, r4⟩ := rebuild_gen { w with objs := w.objs ++ [⟨cls, vals⟩] } t m s none true
    (hs'.congr hg.symm) (by rw [← chainObjsFrom_congr hg]; exact hsim') (by simp [hw.1]) (by simp [hw.2]) (Or.inl rfl)
    (fun _ => ⟨hw.1, hw.2⟩)
  rw [r1] at hud
  have : w2 = w' := Except.ok.inj hud
  subst this
  exact ⟨r4, r3⟩

/-- **constructing any other object changes nothing** -/
theorem new_other_installed {w w' : PWorld} {cls : Nat} {vals : List (Name × Val)} {t : Oid} {m : Name} {s : PathSpec}
    (hnew : newObj w cls vals = .ok w') (hs : Scope w t m s) (hi : Installed w t m s) (hs' : Scope w' t m s) :
    Installed w' t m s ∧ w'.log = w.log ∧ chainObjsFrom w' t s.path = chainObjsFrom w t s.path := by
  obtain ⟨c, hc, hud⟩ := newObj_ok hnew
  have hg := updateDeps_graph hud
  obtain ⟨ct, hct, _⟩ := hs.tcls
  have htl : t < w.objs.length := classOf_lt hct
  have hne : w.objs.length ≠ t := Nat.ne_of_gt htl
  have hcls : classOf { w with objs := w.objs ++ [⟨cls, vals⟩] } w.objs.length = some c := by
    simp [classOf, hc]
  rw [updateDeps_other (hs'.congr hg.symm) hne hcls none true] at hud
  have : { w with objs := w.objs ++ [⟨cls, vals⟩] } = w' := Except.ok.inj hud
  subst this
  have hag : AgreeOn w { w with objs := w.objs ++ [⟨cls, vals⟩] } (pathReads w t s.path) := by
    intro r hr
    exact getParam_append w _ r.1 r.2 (pathReads_lt w s.path t htl (fun n hn => (hs.names n hn).2.1) r hr)
  obtain ⟨hb, hch⟩ := built_agree hs hag
  exact ⟨⟨by rw [hb]; exact hi.shapes, hi.owned, hi.cbs, hi.dynKeys⟩, rfl, hch⟩

/-- every installed watcher sits on an object of the current resolution chain -/
theorem installed_on_chain {w : PWorld} {t : Oid} {m : Name} {s : PathSpec} (hs : Scope w t m s) (hi : Installed w t m s)
    (hsim : (chainObjsFrom w t s.path).Nodup) : ∀ x ∈ w.watchers, x.on ∈ chainObjsFrom w t s.path ∧ x.owner = t ∧ x.method = m := by
  intro x hx
  obtain ⟨h1, _, _⟩ := watcher_dep hs hi hsim hx
  refine ⟨?_, (hi.owned x hx).1, (hi.owned x hx).2.1⟩
  rw [← builtFrom_on w s.path t 0 s.leaf]
  exact List.mem_map.2 ⟨shapeOf x, h1, rfl⟩

/-! ### decidable versions of the hypotheses (used by the non-vacuity examples) -/

def hasNameB (w : PWorld) (n : Name) : Bool := (List.range w.objs.length).all (fun o => (getParam w o n).isSome)

def objNameB (w : PWorld) (n : Name) : Bool :=
  (List.range w.objs.length).all (fun o =>
    match getParam w o n with
    | some (.ref o') => decide (o' < w.objs.length)
    | some (.int _) => false
    | _ => true)

def scopeB (w : PWorld) (t : Oid) (m : Name) (s : PathSpec) : Bool :=
  (match classOf w t with
   | some ct => decide (ct.methods = [⟨m, [s]⟩])
   | none => false) &&
  (List.range w.objs.length).all (fun o => o == t ||
    match classOf w o with
    | some c => c.methods.isEmpty
    | none => true) &&
  s.leaf != "param" && !s.path.isEmpty &&
  s.path.all (fun n => hasNameB w n && objNameB w n && n != "param") && hasNameB w s.leaf

def objOnlyB (w : PWorld) (s : PathSpec) : Bool := s.path.all (fun n => w.classes.all (fun c => !c.intParams.contains n))

theorem getParam_none_of_ge (w : PWorld) (o : Oid) (n : Name) (h : w.objs.length ≤ o) : getParam w o n = none := by
  simp [getParam, List.getElem?_eq_none h]

theorem hasNameB_spec {w : PWorld} {n : Name} (h : hasNameB w n = true) : HasName w n := by
  intro o ho
  have := (List.all_eq_true.1 h) o (List.mem_range.2 ho)
  exact Option.isSome_iff_exists.1 this

theorem objNameB_spec {w : PWorld} {n : Name} (h : objNameB w n = true) : ObjName w n := by
  intro o v hv
  rcases Nat.lt_or_ge o w.objs.length with hlt | hge
  · have := (List.all_eq_true.1 h) o (List.mem_range.2 hlt)
    rw [hv] at this
    cases v with
    | none => exact Or.inl rfl
    | int i => simp at this
    | ref o' => exact Or.inr ⟨o', rfl, by simpa using this⟩
  · rw [getParam_none_of_ge w o n hge] at hv; cases hv

theorem scopeB_spec {w : PWorld} {t : Oid} {m : Name} {s : PathSpec} (h : scopeB w t m s = true) : Scope w t m s := by
  unfold scopeB at h
  simp only [Bool.and_eq_true] at h
  obtain ⟨⟨⟨⟨⟨h1, h2⟩, h3⟩, h4⟩, h5⟩, h6⟩ := h
  refine ⟨?_, ?_, by simpa using h3, by simpa using h4, ?_, hasNameB_spec h6⟩
  · cases hc : classOf w t with
    | none => rw [hc] at h1; simp at h1
    | some ct => rw [hc] at h1; exact ⟨ct, rfl, by simpa using h1⟩
  · intro o c ho hc
    have hlt : o < w.objs.length := classOf_lt hc
    have := (List.all_eq_true.1 h2) o (List.mem_range.2 hlt)
    simp only [Bool.or_eq_true, beq_iff_eq, hc, List.isEmpty_iff] at this
    rcases this with h | h
    · exact absurd h ho
    · exact h
  · intro n hn
    have := (List.all_eq_true.1 h5) n hn
    simp only [Bool.and_eq_true, bne_iff_ne, ne_eq] at this
    exact ⟨hasNameB_spec this.1.1, objNameB_spec this.1.2, this.2⟩

theorem objOnlyB_spec {w : PWorld} {s : PathSpec} (h : objOnlyB w s = true) : ObjOnly w s := by
  intro n hn c hc
  have := (List.all_eq_true.1 ((List.all_eq_true.1 h) n hn)) c hc
  simpa using this

/-! ### the oracle's read set is the walk of the theorems -/

/-- `readPairs` of the specification (PathsSpec.lean: what the oracle calls "touched") is `depsFrom`,
the read set the theorems are stated with -/
theorem readPairs_eq_depsFrom (w : PWorld) (leaf : Name) (hleaf : leaf ≠ "param") (hl : HasName w leaf) :
    ∀ (path : List Name) (cur : Oid), cur < w.objs.length → (∀ n ∈ path, HasName w n ∧ ObjName w n) →
    readPairs w cur ⟨path, leaf⟩ = depsFrom w cur path leaf := by
  intro path
  induction path with
  | nil =>
    intro cur hc _
    obtain ⟨v, hv⟩ := hl cur hc
    simp [readPairs, walk, leafReads, hleaf, hv, depsFrom]
  | cons n rest ih =>
    intro cur hc hall
    obtain ⟨v, hv⟩ := (hall n (by simp)).1 cur hc
    have hrest : ∀ x ∈ rest, HasName w x ∧ ObjName w x := fun x hx => hall x (List.mem_cons_of_mem _ hx)
    cases v with
    | none => simp [readPairs, walk, leafReads, hv, depsFrom]
    | int i => simp [readPairs, walk, leafReads, hv, depsFrom]
    | ref o =>
      have ho : o < w.objs.length := by
        rcases (hall n (by simp)).2 cur _ hv with h | ⟨o', h, hlt⟩
        · cases h
        · cases h; exact hlt
      have := ih o ho hrest
      simp only [readPairs, walk, leafReads, hv, depsFrom] at this ⊢
      simp only [List.map_cons, List.cons_append, this]

end ParamVerif.Depends
