/-
C06 model, class side: the class-level dependency table `cls.param._depends['watch']` that
`ParameterizedMetaclass.__init__` builds for every Parameterized class.

A hierarchy is a list of class declarations in creation order (index = class id).  Each
declaration carries its bases, its own Parameters, its own functions (`dict_` order) and —
as DATA — CPython's `__mro__` restricted to the hierarchy (`Parameterized` and `object`
dropped, they contribute the parameter `name` and no method).  C3 linearisation is not
re-implemented; theorems assume only the well-formedness predicate `WfMro`.

Mirrored as written:
  * `param/depends.py depends`  (a decorated function carries `_dinfo = {dependencies, watch, on_init}`)
  * `param/parameterized.py _parse_dependency_spec`  (specs arrive parsed: attribute + `what`)
  * `Parameters._spec_to_obj(spec, dynamic=False)` for undotted specs: a Parameter of the class →
    `PInfo`, else an attribute that is a function → `MInfo`, else `AttributeError`
  * `_params_depended_on(minfo, dynamic=False)`: recursion through method-name dependencies,
    an undecorated function "depends on" `list(cls.param)`
  * `ParameterizedMetaclass.__init__`: own decorated functions → `_watch`; for every entry of every
    ancestor's table (nearest first) whose function as resolved on the new class has `watch` truthy
    and no entry of that name exists yet, a NEW entry resolved on the new class (dependencies,
    `queued`, `on_init` of the resolved function); table = `_inherited + _watch`.

Assumption (harness generates accordingly): Parameter names and function names are disjoint.
No Mathlib, no imports: loaded by the driver.
-/
namespace ParamVerif.Depends

abbrev Cls := Nat
abbrev Name := String

inductive Err
  | attribute      -- AttributeError: a dependency names nothing the class has
  | recursion      -- RecursionError: method-name dependencies form a cycle
  | illFormed      -- not a Python class hierarchy (ancestor not declared earlier, unknown class)
  deriving Repr, DecidableEq

/-- a parsed dependency spec: `'p'` = ⟨p, value⟩, `'p:bounds'` = ⟨p, bounds⟩, `'m'` = ⟨m, value⟩ -/
structure Spec where
  attr : Name
  what : String
  deriving Repr, DecidableEq

/-- `func._dinfo` -/
structure DInfo where
  specs : List Spec
  watch : Bool            -- `dinfo.get('watch')` truthy
  queued : Bool           -- `watch == 'queued'`
  onInit : Bool
  deriving Repr, DecidableEq

structure Method where
  name : Name
  dinfo : Option DInfo    -- `none`: a plain function (no `_dinfo`)
  deriving Repr, DecidableEq

structure ClassDecl where
  bases : List Cls
  mro : List Cls          -- `__mro__` (data), the class itself first
  params : List Name      -- own Parameters, `dict_` order
  methods : List Method   -- own functions, `dict_` order
  deriving Repr, DecidableEq

abbrev Hierarchy := List ClassDecl

/-- `PInfo(inst=None, cls, name, pobj, what)` -/
structure PDep where
  cls : Cls
  name : Name
  what : String
  deriving Repr, DecidableEq

/-- one element of `_depends['watch']`: `(name, queued, on_init, deps, dynamic_deps)`; `origin` is
the class whose metaclass run created the tuple (ghost: it is the `cls` of every `PInfo` in it; since
inherited entries are resolved again it is always the class the table belongs to) -/
structure Entry where
  name : Name
  queued : Bool
  onInit : Bool
  deps : List PDep
  origin : Cls
  deriving Repr, DecidableEq

/-! ### attribute lookup along the MRO (CPython, modelled) -/

def mroOf (h : Hierarchy) (c : Cls) : List Cls :=
  match h[c]? with
  | some d => d.mro
  | none => []

def ownParams (h : Hierarchy) (k : Cls) : List Name :=
  match h[k]? with
  | some d => d.params
  | none => []

def ownMethod (h : Hierarchy) (k : Cls) (n : Name) : Option Method :=
  match h[k]? with
  | some d => d.methods.find? (fun m => m.name = n)
  | none => none

/-- keep the first occurrence of every name (insertion order of a `dict`) -/
def dedupInto (seen : List Name) : List Name → List Name
  | [] => seen
  | n :: rest => if n ∈ seen then dedupInto seen rest else dedupInto (seen ++ [n]) rest

/-- `list(cls.param)`.  src: parameterized.py Parameters._cls_parameters — walks `classlist(cls)`
base first; a redeclared Parameter keeps its first position; `name` comes from `Parameterized`. -/
def allParams (h : Hierarchy) (c : Cls) : List Name :=
  dedupInto ["name"] ((mroOf h c).reverse.flatMap (ownParams h))

/-- `getattr(cls, n)` for a function name: the first class of the MRO that defines it -/
def resolveIn (h : Hierarchy) (n : Name) : List Cls → Option (Cls × Method)
  | [] => none
  | k :: rest =>
    match ownMethod h k n with
    | some m => some (k, m)
    | none => resolveIn h n rest

def resolveMethod (h : Hierarchy) (c : Cls) (n : Name) : Option (Cls × Method) :=
  resolveIn h n (mroOf h c)

/-- `dinfo.get('watch')` of the method as resolved on `c` (`{'watch': False}` for a plain function
or a missing attribute).  src: ParameterizedMetaclass.__init__ -/
def resolvedWatches (h : Hierarchy) (c : Cls) (n : Name) : Bool :=
  match resolveMethod h c n with
  | some (_, m) =>
    match m.dinfo with
    | some d => d.watch
    | none => false
  | none => false

/-! ### dependency resolution -/

/-- run `g` over the specs in order, concatenating; the first exception propagates -/
def collect (g : Spec → Except Err (List PDep)) : List Spec → Except Err (List PDep)
  | [] => .ok []
  | s :: rest =>
    match g s with
    | .error e => .error e
    | .ok a =>
      match collect g rest with
      | .error e => .error e
      | .ok b => .ok (a ++ b)

/-- `dinfo.get('dependencies', list(minfo.cls.param))` -/
def specsOf (h : Hierarchy) (c : Cls) : Option DInfo → List Spec
  | some d => d.specs
  | none => (allParams h c).map (fun n => ⟨n, "value"⟩)

/-- src: parameterized.py `_params_depended_on(MInfo(cls=c, inst=None, method), dynamic=False)`
with `_spec_to_obj` inlined.  `fuel` is Python's recursion depth: a cycle of method-name
dependencies ends in `RecursionError`. -/
def depsOn (h : Hierarchy) (c : Cls) : Nat → Option DInfo → Except Err (List PDep)
  | 0, _ => .error .recursion
  | f + 1, di =>
    collect (fun s =>
      if s.attr ∈ allParams h c then .ok [⟨c, s.attr, s.what⟩]          -- `attr in src.param` → PInfo
      else
        match resolveMethod h c s.attr with
        | some (_, m) => depsOn h c f m.dinfo                              -- function → MInfo → recursion
        | none => .error .attribute) (specsOf h c di)

/-! ### the metaclass loop -/

/-- `_watch`: own decorated functions.  The dependencies of every decorated function are resolved
(an unresolvable one fails the class statement) but only `watch` ones are kept. -/
def ownEntries (h : Hierarchy) (c : Cls) (fuel : Nat) : List Method → Except Err (List Entry)
  | [] => .ok []
  | m :: rest =>
    match m.dinfo with
    | none => ownEntries h c fuel rest
    | some d =>
      match depsOn h c fuel (some d) with
      | .error e => .error e
      | .ok deps =>
        match ownEntries h c fuel rest with
        | .error e => .error e
        | .ok es => .ok (if d.watch then ⟨m.name, d.queued, d.onInit, deps, c⟩ :: es else es)

def hasName (l : List Entry) (n : Name) : Bool := l.any (fun e => e.name = n)

/-- one `dep` of an ancestor's table:
`if not any(dep[0] == w[0] for w in _watch+_inherited) and dinfo.get('watch'):` resolve the method
again on the new class and append `(dep[0], dinfo['watch'] == 'queued', dinfo.get('on_init'), deps, …)` -/
def inheritStep (h : Hierarchy) (c : Cls) (fuel : Nat) (own : List Entry) (acc : List Entry) (dep : Entry) :
    Except Err (List Entry) :=
  if !hasName (own ++ acc) dep.name && resolvedWatches h c dep.name then
    match resolveMethod h c dep.name with
    | some (_, m) =>
      match m.dinfo with
      | some d =>
        match depsOn h c fuel (some d) with
        | .error e => .error e
        | .ok deps => .ok (acc ++ [⟨dep.name, d.queued, d.onInit, deps, c⟩])
      | none => .ok acc
    | none => .ok acc
  else .ok acc

def inheritFold (h : Hierarchy) (c : Cls) (fuel : Nat) (own : List Entry) : List Entry → List Entry → Except Err (List Entry)
  | acc, [] => .ok acc
  | acc, dep :: rest =>
    match inheritStep h c fuel own acc dep with
    | .error e => .error e
    | .ok acc' => inheritFold h c fuel own acc' rest

/-- `for cls in classlist(mcs)[:-1][::-1]: for dep in cls.param._depends['watch']: …` -/
def inheritAll (h : Hierarchy) (c : Cls) (fuel : Nat) (own : List Entry) (ancTables : List (List Entry)) :
    Except Err (List Entry) :=
  inheritFold h c fuel own [] ancTables.flatten

/-- the tables of the ancestors, nearest first; every ancestor must have been created before -/
def ancestorTables (tables : List (List Entry)) : List Cls → Except Err (List (List Entry))
  | [] => .ok []
  | a :: rest =>
    match tables[a]? with
    | none => .error .illFormed
    | some t =>
      match ancestorTables tables rest with
      | .error e => .error e
      | .ok ts => .ok (t :: ts)

/-- the table of class `c`, given the tables of the classes created before it -/
def tableOf (h : Hierarchy) (fuel : Nat) (tables : List (List Entry)) (c : Cls) (d : ClassDecl) :
    Except Err (List Entry) :=
  match ownEntries h c fuel d.methods with
  | .error e => .error e
  | .ok own =>
    match ancestorTables tables d.mro.tail with
    | .error e => .error e
    | .ok anc =>
      match inheritAll h c fuel own anc with
      | .error e => .error e
      | .ok inh => .ok (inh ++ own)

/-- the tables of classes `0 … n-1`, in creation order -/
def tablesUpTo (h : Hierarchy) (fuel : Nat) : Nat → Except Err (List (List Entry))
  | 0 => .ok []
  | n + 1 =>
    match tablesUpTo h fuel n with
    | .error e => .error e
    | .ok ts =>
      match h[n]? with
      | none => .error .illFormed
      | some d =>
        match tableOf h fuel ts n d with
        | .error e => .error e
        | .ok t => .ok (ts ++ [t])

/-- `cls.param._depends['watch']` -/
def dependsTable (h : Hierarchy) (fuel : Nat) (c : Cls) : Except Err (List Entry) :=
  match tablesUpTo h fuel (c + 1) with
  | .error e => .error e
  | .ok ts =>
    match ts[c]? with
    | some t => .ok t
    | none => .error .illFormed

/-- `obj.param.method_dependencies(n)` on an instance of `c` (names and `what`; computed afresh
from the method the instance resolves).  src: Parameters.method_dependencies -/
def methodDependencies (h : Hierarchy) (fuel : Nat) (c : Cls) (n : Name) : Except Err (List PDep) :=
  match resolveMethod h c n with
  | some (_, m) => depsOn h c fuel m.dinfo
  | none => .error .attribute

/-! ### well-formedness (what the theorems assume about the MRO data) -/

def nodupB : List Name → Bool
  | [] => true
  | n :: rest => !rest.contains n && nodupB rest

/-- the class comes first in its MRO, every other listed class was declared earlier, own function
names are unique (keys of `dict_`).  Decidable: evaluated by the driver on every case. -/
def wfClassB (h : Hierarchy) (c : Cls) : Bool :=
  match h[c]? with
  | none => false
  | some d =>
    (match d.mro with
     | [] => false
     | k :: rest => k == c && rest.all (fun a => decide (a < c))) &&
    nodupB (d.methods.map (·.name))

def wfMroB (h : Hierarchy) : Bool := (List.range h.length).all (wfClassB h)

end ParamVerif.Depends
