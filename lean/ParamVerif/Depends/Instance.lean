/-
C06 model, instance side: what `Parameterized.__init__` → `Parameters._update_deps(init=True)`
installs for the class table, and how assignments / `param.update` / `batch_call_watchers`
reach the installed watchers.

Dispatcher: a COMPACT PURPOSE-BUILT one (not `ParamVerif.Dispatch.Model.run`), because
  * dependencies on Parameter attributes (`'p:bounds'`) need keys `(name, what)`, slot watchers are
    dispatched in registration order by `Parameter._trigger_event` while `Dispatch.Model` keys
    parameters by number and always sorts;
  * the methods in scope only append to the invocation log (they assign nothing), so no callback
    cascade exists, the interpreter needs no fuel and the `while self_._events` loop of the flush
    runs its body once — every theorem is a closed form instead of a partial-correctness statement;
  * the queueing rules are the same (`_call_watcher`: changes-only filter, then queue event + watcher
    by identity when batching, else run; flush: every queued watcher once in stable precedence
    order) and the driver cross-checks every case against `Dispatch.Model.run` on the encoded
    program (`Driver/C06.lean`, field `dispatch_agrees`).

Mirrored as written:
  * `_update_deps(init=True)`: per table entry `_resolve_mcs_deps`, grouping by
    `(id(inst), id(cls), what)` in first-occurrence order, one `_watch_group` per group
    (parameter names de-duplicated, `precedence=-1`, changes-only), `on_init` methods collected
    without duplicates and called after every watcher is installed
  * `_m_caller/_sync_caller` with `changed=None`: the method runs once per watcher invocation
  * `depends.py depends` function form: one `param.watch(cb, [names…])` per owner, precedence 0,
    names de-duplicated (`dict.fromkeys`); `_register_watcher` appends the watcher once per listed name
  * `Parameter.__set__` tail, `Parameter.__setattr__/_trigger_event` (slots), `_call_watcher`,
    `_batch_call_watchers`, `Parameters._update`, `batch_call_watchers`.
-/
import ParamVerif.Depends.ClassTable

namespace ParamVerif.Depends

/-- what can be assigned on an instance: a Parameter value (`what = "value"`) or a Parameter
attribute of the per-instance Parameter (`obj.param.p.bounds = …`) -/
structure Key where
  name : Name
  what : String
  deriving Repr, DecidableEq

structure IWatcher where
  id : Nat
  method : Name           -- `fn._watcher_name` (method form) / label of the decorated function
  params : List Name      -- `parameter_names`
  what : String
  queued : Bool
  precedence : Int
  deriving Repr, DecidableEq

structure IEv where
  key : Key
  old : Int
  new : Int
  deriving Repr, DecidableEq

structure IWorld where
  vals : List (Key × Int)       -- current value of every assignable key (values are integers)
  regs : List IWatcher          -- every registered watcher, registration order
  batch : Bool                  -- `_BATCH_WATCH`
  events : List IEv             -- `_events`
  queued : List IWatcher        -- `_state_watchers`
  log : List Name               -- invocation log appended by the generated methods
  deriving Repr

/-! ### instantiation -/

/-- `constant_grouped[(id(dep.inst), id(dep.cls), dep.what)].append(dep)` — a `defaultdict` keeps
first-occurrence order; the names of a group are de-duplicated by `_watch_group` -/
def addDep : List ((Cls × String) × List Name) → PDep → List ((Cls × String) × List Name)
  | [], d => [((d.cls, d.what), [d.name])]
  | (k, ns) :: rest, d =>
    if k = (d.cls, d.what) then (k, if d.name ∈ ns then ns else ns ++ [d.name]) :: rest
    else (k, ns) :: addDep rest d

def groupsOf (deps : List PDep) : List ((Cls × String) × List Name) := deps.foldl addDep []

/-- `_watch_group` for every group of one entry; ids are consecutive from `next` -/
def watchersOfGroups (e : Entry) : Nat → List ((Cls × String) × List Name) → List IWatcher
  | _, [] => []
  | next, (k, ns) :: rest => ⟨next, e.name, ns, k.2, e.queued, -1⟩ :: watchersOfGroups e (next + 1) rest

def watchersOfEntry (next : Nat) (e : Entry) : List IWatcher := watchersOfGroups e next (groupsOf e.deps)

/-- the loop over `_depends['watch']` of `_update_deps(init=True)` -/
def installAll : Nat → List Entry → List IWatcher
  | _, [] => []
  | next, e :: rest =>
    let ws := watchersOfEntry next e
    ws ++ installAll (next + ws.length) rest

/-- `if on_init and m not in init_methods: init_methods.append(m)`, then `for m in init_methods: m()` -/
def initCalls : List Name → List Entry → List Name
  | acc, [] => acc
  | acc, e :: rest => initCalls (if e.onInit && !(acc.contains e.name) then acc ++ [e.name] else acc) rest

/-- a fresh instance of a class with the given table -/
def instantiate (table : List Entry) (vals : List (Key × Int)) : IWorld :=
  { vals := vals, regs := installAll 0 table, batch := false, events := [], queued := [],
    log := initCalls [] table }

/-- function form `@param.depends(obj.param.p, obj.param.q, watch=True)` on this instance:
`obj.param.watch(cb, list(dict.fromkeys(names…)))`.  src: depends.py depends -/
def fnWatch (w : IWorld) (label : Name) (names : List Name) : IWorld :=
  { w with regs := w.regs ++ [⟨w.regs.length, label, dedupInto [] names, "value", false, 0⟩] }

/-! ### dispatch -/

def getKey (vals : List (Key × Int)) (k : Key) : Option Int :=
  match vals with
  | [] => none
  | (k', v) :: rest => if k' = k then some v else getKey rest k

def setVal : List (Key × Int) → Key → Int → List (Key × Int)
  | [], _, _ => []
  | (k', v') :: rest, k, v => if k' = k then (k', v) :: rest else (k', v') :: setVal rest k v

/-- the list `watchers[name][what]` the setter iterates: `_register_watcher` appended the watcher
once per occurrence of the name in its `parameter_names` -/
def watchersFor (regs : List IWatcher) (k : Key) : List IWatcher :=
  regs.flatMap (fun x => if x.what = k.what then (x.params.filter (fun n => n = k.name)).map (fun _ => x) else [])

def insertByPrec (x : IWatcher) : List IWatcher → List IWatcher
  | [] => [x]
  | y :: l => if y.precedence < x.precedence then y :: insertByPrec x l else x :: y :: l

/-- `sorted(watchers, key=lambda w: w.precedence)` (stable) -/
def sortByPrec (l : List IWatcher) : List IWatcher := l.foldr insertByPrec []

def hasId (l : List IWatcher) (i : Nat) : Bool := l.any (fun x => x.id = i)

/-- src: Parameters._call_watcher (every watcher here is changes-only; the trigger flag is never set);
running a watcher = `_sync_caller` with `changed=None` = one call of the method -/
def callWatcher (w : IWorld) (x : IWatcher) (ev : IEv) : IWorld :=
  if ev.old = ev.new then w
  else if w.batch then
    { w with events := w.events ++ [ev],
             queued := if hasId w.queued x.id then w.queued else w.queued ++ [x] }
  else { w with log := w.log ++ [x.method] }

/-- src: Parameters._batch_call_watchers.  The methods only log, so the second iteration of
`while self_._events` finds nothing. -/
def flush (w : IWorld) : IWorld :=
  if w.events.isEmpty then w
  else { w with events := [], queued := [], log := w.log ++ (sortByPrec w.queued).map (·.method) }

def dispatch (w : IWorld) (ev : IEv) : List IWatcher → IWorld
  | [] => w
  | x :: rest => dispatch (callWatcher w x ev) ev rest

/-- `obj.p = v` (`what = "value"`, src: Parameter.__set__, watchers sorted by precedence) or
`obj.param.p.<what> = v` (src: Parameter.__setattr__/_trigger_event, registration order).
`false` = the key is not assignable on this instance (outside the model). -/
def setKey (w : IWorld) (k : Key) (v : Int) : Bool × IWorld :=
  match getKey w.vals k with
  | none => (false, w)
  | some old =>
    let w1 := { w with vals := setVal w.vals k v }
    let ws := watchersFor w.regs k
    if ws.isEmpty then (true, w1)                      -- no watcher: no event, no flush
    else
      let w2 := dispatch w1 ⟨k, old, v⟩ (if k.what = "value" then sortByPrec ws else ws)
      (true, if w2.batch then w2 else flush w2)        -- finally: flush iff not batching

def updateKeys (w : IWorld) : List (Name × Int) → Bool × IWorld
  | [] => (true, w)
  | (n, v) :: rest =>
    match setKey w ⟨n, "value"⟩ v with
    | (false, w1) => (false, w1)                        -- `k not in self_` → ValueError
    | (true, w1) => updateKeys w1 rest

/-- src: Parameters._update — save flag, set it, apply the keys; finally restore and flush iff it was off -/
def update (w : IWorld) (kvs : List (Name × Int)) : Bool × IWorld :=
  let saved := w.batch
  let (r, w1) := updateKeys { w with batch := true } kvs
  let w2 := { w1 with batch := saved }
  (r, if saved then w2 else flush w2)

inductive SimpleOp
  | set (k : Key) (v : Int)
  | update (kvs : List (Name × Int))
  deriving Repr, DecidableEq

inductive Op
  | simple (s : SimpleOp)
  | batch (body : List SimpleOp)        -- `with param.parameterized.batch_call_watchers(obj): …`
  deriving Repr, DecidableEq

def runSimple (w : IWorld) : SimpleOp → Bool × IWorld
  | .set k v => setKey w k v
  | .update kvs => update w kvs

def runSimples (w : IWorld) : List SimpleOp → Bool × IWorld
  | [] => (true, w)
  | s :: rest =>
    match runSimple w s with
    | (false, w1) => (false, w1)
    | (true, w1) => runSimples w1 rest

/-- src: batch_call_watchers — save flag, set it, body; finally restore and flush iff it was off -/
def runOp (w : IWorld) : Op → Bool × IWorld
  | .simple s => runSimple w s
  | .batch body =>
    let saved := w.batch
    let (r, w1) := runSimples { w with batch := true } body
    let w2 := { w1 with batch := saved }
    (r, if saved then w2 else flush w2)

/-! ### on_init methods that assign a parameter during construction

`_update_deps(init=True)` calls the `on_init` methods only after EVERY watcher of the object is
installed, so an assignment made by an on_init method reaches every method depending on the assigned
parameter — also one registered later.  An assigning method assigns on its FIRST invocation only (be it
the on_init call or a call made by a watcher before that), so the cascade is finite; `fuel` bounds the
Python recursion.  No batching is involved (queued watchers are excluded by the generator). -/

/-- method name ↦ (parameter, value) it assigns on its first invocation -/
abbrev Assigns := List (Name × (Name × Int))

def assignOf (as : Assigns) (m : Name) : Option (Name × Int) :=
  match as.find? (fun a => a.1 = m) with
  | some a => some a.2
  | none => none

/-- one invocation of method `m` (by `_update_deps` or by a watcher): log; on the first invocation of
an assigning method `self.p = v`, dispatched at once to the sorted watchers of `p` -/
def invokeInit (as : Assigns) : Nat → IWorld × List Name → Name → IWorld × List Name
  | 0, st, _ => st
  | f + 1, (w, done), m =>
    let w1 := { w with log := w.log ++ [m] }
    match assignOf as m with
    | none => (w1, done)
    | some (p, v) =>
      if done.contains m then (w1, done)
      else
        match getKey w1.vals ⟨p, "value"⟩ with
        | none => (w1, m :: done)
        | some old =>
          let w2 := { w1 with vals := setVal w1.vals ⟨p, "value"⟩ v }
          if old = v then (w2, m :: done)
          else (sortByPrec (watchersFor w2.regs ⟨p, "value"⟩)).foldl (fun st x => invokeInit as f st x.method) (w2, m :: done)

/-- a fresh instance whose on_init methods may assign -/
def instantiateA (table : List Entry) (vals : List (Key × Int)) (as : Assigns) : IWorld :=
  let w0 : IWorld := { vals := vals, regs := installAll 0 table, batch := false, events := [], queued := [], log := [] }
  ((initCalls [] table).foldl (fun st m => invokeInit as (table.length + 2) st m) (w0, [])).1

end ParamVerif.Depends
