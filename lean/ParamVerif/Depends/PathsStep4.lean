/-
Helper lemmas for C07, part 7: an assignment on an object below the owner; construction; decidable
versions of the hypotheses; the oracle's read set.
-/
import ParamVerif.Depends.PathsStep3

namespace ParamVerif.Depends

/-- **assignment on an object below the owner that some walk reads** (`t.a.b = …`, `t.a.x = …`): the
one watcher installed on it rebinds through its callback when any spec reads the object at an
intermediate level, and decides with the filter entry of the assigned parameter, which holds the
rest of every path that passes through it -/
theorem step_deeper {w w' : PWorld} {t : Oid} {m : Name} {specs : List PathSpec} {o : Oid} {p : Name} {v : Val}
    (hs : Scope w t m specs) (hty : Typing w specs) (hi : Installed w t m specs) (hsim : Simple w t specs)
    (hstep : setParam w o p v = .ok w') (hot : o ≠ t) (hto : ∃ s ∈ specs, (o, p) ∈ depsFrom w t s.path s.leaf) :
    Installed w' t m specs ∧ Scope w' t m specs ∧ Typing w' specs ∧
    (∀ old, getParam w o p = some old → old ≠ .none → v ≠ .none → w'.log = w.log ++ firedLog w w' t m specs) := by
  obtain ⟨ob, c, old, w2, hob, hc, _, hacc, hold, hud, hdisp⟩ := setParam_ok hstep
  obtain ⟨hs1, hty1⟩ := scope_store hs hty hob hc hacc hold
  have hgp := getParam_store w o ob p v old hob hold
  have hgold : getParam w o p = some old := by simp [getParam, hob, hold]
  rw [updateDeps_other hs1 hot (by rw [classOf_store w o ob p v hob]; exact hc)] at hud
  have : store w o ob p v = w2 := Except.ok.inj hud
  subst this
  have hg1' : SameGraph (store w o ob p v) w' := dispatchP_graph _ _ _ _ _ _ hdisp
  have hscope' : Scope w' t m specs := hs1.congr hg1'
  have hty' : Typing w' specs := hty1.congr hg1'
  have hg1v : getParam (store w o ob p v) o p = some v := by rw [hgp]; simp
  -- touched = has a dependency on `(o, p)` (the root resolves, since `o` is below the owner)
  have htouch : ∀ s ∈ specs, (o, p) ∈ depsFrom w t s.path s.leaf ↔ (s, p) ∈ memsAt w t specs o := by
    intro s hs'
    obtain ⟨n0, rest0, hpe⟩ := List.exists_cons_of_ne_nil (hs.path s hs')
    constructor
    · intro h
      refine mem_memsAt.2 ⟨hs', ?_⟩
      rw [hpe] at h ⊢
      refine mem_depsRoot.2 ⟨h, ?_⟩
      cases hg : getParam w t n0 with
      | none => simp [depsFrom, hg] at h; exact absurd h.1 hot
      | some vv =>
        cases vv with
        | none => simp [depsFrom, hg] at h; exact absurd h.1 hot
        | int i => simp [depsFrom, hg] at h; exact absurd h.1 hot
        | ref o1 => exact ⟨o1, rfl⟩
    · intro h
      exact depsRoot_sub (mem_memsAt.1 h).2
  obtain ⟨s0, hs0, hto0⟩ := hto
  have hex : ∃ sn ∈ memsAt w t specs o, sn.2 = p := ⟨(s0, p), (htouch s0 hs0).1 hto0, rfl⟩
  obtain ⟨x, hxw, hfilter, hxch, hxcb⟩ := (watcher_at hi o p).2 hex
  have hw1w : (store w o ob p v).watchers = w.watchers := rfl
  rw [hw1w, hfilter] at hdisp
  obtain ⟨u', c1, c2, c3, c4, c5⟩ := callWatcherP_installed (store w o ob p v) t m specs x p old v hs1
    (fun y hy => (hi.owned y hy).2.2) hi.dynKeys ⟨(hi.owned x hxw).1, (hi.owned x hxw).2.1⟩ (hi.cbs x hxw)
  simp only [dispatchP, c1, ite_self, Except.ok.injEq] at hdisp
  subst hdisp
  have hspecT := fun s (hs' : s ∈ specs) (h : (o, p) ∈ depsFrom w t s.path s.leaf) =>
    touched_spec (hsim s hs') hot h hgold hgp
  have hgp' : ∀ o' n, (o', n) ≠ (o, p) → getParam (store w o ob p v) o' n = getParam w o' n := by
    intro o' n hne
    rw [hgp]
    split
    · rename_i hcond
      exact absurd (by rw [hcond.1, hcond.2]) hne
    · rfl
  -- the invariant
  have hinst : Installed u' t m specs := by
    by_cases hv : valEq old v = true
    · have hvo := valEq_eq hv
      obtain ⟨cw, cd⟩ := c4 (Or.inl hv)
      have hagp : ∀ s ∈ specs, AgreeOn w (store w o ob p v) (pathReads w t s.path) := by
        intro s _ r _
        rw [hgp]
        split
        · rename_i hcond
          rw [hcond.1, hcond.2, hgold, hvo]
        · rfl
      obtain ⟨hb, _, _⟩ := builtM_agree hs hagp
      exact ⟨by rw [cw, builtM_congr c2, hb]; exact hi.shapes, fun y hy => by rw [cw] at hy; rw [cd]; exact hi.owned y hy,
        fun y hy => by rw [cw] at hy; exact hi.cbs y hy, fun e he => by rw [cd] at he; exact hi.dynKeys e he⟩
    · simp only [Bool.not_eq_true] at hv
      by_cases hcbn : x.callback = none
      · obtain ⟨cw, cd⟩ := c4 (Or.inr hcbn)
        have hnocb : ∀ sn ∈ memsAt w t specs o, cbNeeded w t o sn.1 = false := by
          have : x.callback.isSome = false := by rw [hcbn]; rfl
          rw [hxcb, List.any_eq_false] at this
          intro sn hsn
          simpa using this sn hsn
        have hagp : ∀ s ∈ specs, AgreeOn w (store w o ob p v) (pathReads w t s.path) := by
          intro s hs' r hr
          apply hgp' r.1 r.2
          intro e
          have hrd : (o, p) ∈ depsFrom w t s.path s.leaf := by
            have := pathReads_sub w s.leaf s.path t r hr
            rwa [show r = (o, p) from e] at this
          rcases hspecT s hs' hrd with ⟨_, _, _, _, _, hnr⟩ | ⟨_, _, hcbt, _⟩
          · exact hnr r hr (by rw [show r = (o, p) from e])
          · have := hnocb (s, p) ((htouch s hs').1 hrd)
            rw [hcbt] at this; cases this
        obtain ⟨hb, _, _⟩ := builtM_agree hs hagp
        exact ⟨by rw [cw, builtM_congr c2, hb]; exact hi.shapes, fun y hy => by rw [cw] at hy; rw [cd]; exact hi.owned y hy,
          fun y hy => by rw [cw] at hy; exact hi.cbs y hy, fun e he => by rw [cd] at he; exact hi.dynKeys e he⟩
      · exact c5 ⟨hv, hcbn⟩
  refine ⟨hinst, hscope', hty', ?_⟩
  intro old' hold' holdn hvn
  rw [hgold] at hold'
  have : old = old' := Option.some.inj hold'
  subst this
  rw [c3, hxch, skipEvent_filterOf]
  show w.log ++ _ = w.log ++ firedLog w u' t m specs
  congr 1
  unfold firedLog
  have hne : ((memsAt w t specs o).filter (fun sn => sn.2 = p)).isEmpty = false := by
    obtain ⟨sn, hsn, hsnp⟩ := hex
    cases h : (memsAt w t specs o).filter (fun sn => sn.2 = p) with
    | nil =>
      have : sn ∈ (memsAt w t specs o).filter (fun sn => sn.2 = p) := List.mem_filter.2 ⟨hsn, by simp [hsnp]⟩
      rw [h] at this; cases this
    | cons _ _ => rfl
  have hBu : ∀ s : PathSpec, follow u' (.ref t) s.elems = follow (store w o ob p v) (.ref t) s.elems := fun s => follow_congr c2 _ _
  -- an untouched spec reaches the same value
  have hunt : ∀ s ∈ specs, (o, p) ∉ depsFrom w t s.path s.leaf →
      valEq (follow w (.ref t) s.elems) (follow u' (.ref t) s.elems) = true := by
    intro s hs' hun
    rw [hBu]
    exact (untouched_spec hs hty hs' hgp' hun).2.1
  have hmemf : ∀ sn, sn ∈ (memsAt w t specs o).filter (fun sn => sn.2 = p) ↔
      sn.2 = p ∧ sn.1 ∈ specs ∧ (o, p) ∈ depsFrom w t sn.1.path sn.1.leaf := by
    intro sn
    obtain ⟨s, n⟩ := sn
    rw [List.mem_filter]
    simp only [decide_eq_true_eq]
    constructor
    · rintro ⟨h1, rfl⟩
      exact ⟨rfl, (mem_memsAt.1 h1).1, (htouch s (mem_memsAt.1 h1).1).2 h1⟩
    · rintro ⟨rfl, h2, h3⟩
      exact ⟨(htouch s h2).1 h3, rfl⟩
  have hkey : (valEq old v || (!((memsAt w t specs o).filter (fun sn => sn.2 = p)).isEmpty &&
        ((memsAt w t specs o).filter (fun sn => sn.2 = p)).all
          (fun sn => skipsFor w (store w o ob p v) t o old v sn.1))) =
      specs.all (fun s => valEq (follow w (.ref t) s.elems) (follow u' (.ref t) s.elems)) := by
    rw [hne, Bool.not_false, Bool.true_and]
    cases old with
    | none => exact absurd rfl holdn
    | int i =>
      -- the assigned parameter holds an integer: every spec that reads it reads it as its leaf
      have hleafall : ∀ s ∈ specs, (o, p) ∈ depsFrom w t s.path s.leaf →
          skipsFor w (store w o ob p v) t o (.int i) v s = false ∧
          valEq (follow w (.ref t) s.elems) (follow u' (.ref t) s.elems) = valEq (.int i) v := by
        intro s hs' h
        rcases hspecT s hs' h with ⟨hsp, _, _, hA, hB, _⟩ | ⟨r, _, _, hpp, _⟩
        · exact ⟨by simp [skipsFor, hsp], by rw [hBu, hA, hB]⟩
        · rcases (hs.names s hs' p hpp).2.1 o _ hgold with h1 | ⟨_, h1, _⟩ <;> cases h1
      have hall0 : ((memsAt w t specs o).filter (fun sn => sn.2 = p)).all
          (fun sn => skipsFor w (store w o ob p v) t o (.int i) v sn.1) = false := by
        rw [List.all_eq_false]
        exact ⟨(s0, p), (hmemf (s0, p)).2 ⟨rfl, hs0, hto0⟩, by simp [(hleafall s0 hs0 hto0).1]⟩
      rw [hall0, Bool.or_false, Bool.eq_iff_iff, List.all_eq_true]
      constructor
      · intro hv s hs'
        by_cases h : (o, p) ∈ depsFrom w t s.path s.leaf
        · rw [(hleafall s hs' h).2]; exact hv
        · exact hunt s hs' h
      · intro hall
        rw [← (hleafall s0 hs0 hto0).2]
        exact hall s0 hs0
    | ref oo =>
      -- the assigned parameter holds an object: every spec that reads it passes through it
      have hvr : ∃ vv, v = .ref vv := by
        rcases hspecT s0 hs0 hto0 with ⟨_, _, hpl, _⟩ | ⟨r, _, _, hpp, _⟩
        · obtain ⟨i, hi'⟩ := hty.leafInt s0 hs0 o _ (hpl ▸ hgold)
          cases hi'
        · exact objName_ref (hs1.names s0 hs0 p hpp).2.1 hg1v hvn
      obtain ⟨vv, rfl⟩ := hvr
      have hpass : ∀ s ∈ specs, (o, p) ∈ depsFrom w t s.path s.leaf →
          skipsFor w (store w o ob p (.ref vv)) t o (.ref oo) (.ref vv) s =
          valEq (follow w (.ref t) s.elems) (follow u' (.ref t) s.elems) := by
        intro s hs' h
        rcases hspecT s hs' h with ⟨_, _, hpl, _⟩ | ⟨r, hsp, _, _, hA, hB, hO⟩
        · obtain ⟨i, hi'⟩ := hty.leafInt s hs' o _ (hpl ▸ hgold)
          cases hi'
        · rw [hBu, hA, hB, ← hO]
          simp [skipsFor, hsp, subValue, subEq]
      have hv0 : valEq (.ref oo) (.ref vv) = false := rfl
      rw [hv0, Bool.false_or, Bool.eq_iff_iff, List.all_eq_true, List.all_eq_true]
      constructor
      · intro hall s hs'
        by_cases h : (o, p) ∈ depsFrom w t s.path s.leaf
        · rw [← hpass s hs' h]
          exact hall (s, p) ((hmemf (s, p)).2 ⟨rfl, hs', h⟩)
        · exact hunt s hs' h
      · intro hall sn hsn
        obtain ⟨_, h2, h3⟩ := (hmemf sn).1 hsn
        rw [hpass sn.1 h2 h3]
        exact hall sn.1 h2
  rw [hkey, readsOf_congr c2]

/-! ### construction -/

theorem newObj_ok {w w' : PWorld} {cls : Nat} {vals : List (Name × Val)} (h : newObj w cls vals = .ok w') :
    ∃ c, w.classes[cls]? = some c ∧
      updateDeps { w with objs := w.objs ++ [⟨cls, vals⟩] } w.objs.length none true = .ok w' := by
  unfold newObj at h
  split at h
  · simp at h
  · rename_i c hc
    split at h
    · simp at h
    · split at h
      · simp at h
      · exact ⟨c, hc, h⟩

theorem getParam_append (w : PWorld) (ob : PObj) (o : Oid) (n : Name) (ho : o < w.objs.length) :
    getParam { w with objs := w.objs ++ [ob] } o n = getParam w o n := by
  simp [getParam, List.getElem?_append_left ho]

theorem pathReads_lt (w : PWorld) : ∀ (path : List Name) (cur : Oid), cur < w.objs.length → (∀ n ∈ path, ObjName w n) →
    ∀ r ∈ pathReads w cur path, r.1 < w.objs.length := by
  intro path
  induction path with
  | nil => intro cur _ _ r hr; cases hr
  | cons n rest ih =>
    intro cur hc hall r hr
    simp only [pathReads, List.mem_cons] at hr
    rcases hr with rfl | hr
    · exact hc
    · cases hg : getParam w cur n with
      | none => rw [hg] at hr; cases hr
      | some v =>
        cases v with
        | none => rw [hg] at hr; cases hr
        | int i => rw [hg] at hr; cases hr
        | ref o =>
          rw [hg] at hr
          rcases hall n (by simp) cur _ hg with h | ⟨o', h, hlt⟩
          · cases h
          · cases h
            exact ih o hlt (fun x hx => hall x (List.mem_cons_of_mem _ hx)) r hr

/-- **constructing the owner establishes the invariant** (`_update_deps(init=True)`) -/
theorem new_owner_installed {w w' : PWorld} {cls : Nat} {vals : List (Name × Val)} {t : Oid} {m : Name} {specs : List PathSpec}
    (hnew : newObj w cls vals = .ok w') (ht : t = w.objs.length) (hw : w.watchers = [] ∧ w.dyn = [])
    (hs' : Scope w' t m specs) : Installed w' t m specs ∧ w'.log = w.log := by
  obtain ⟨c, _, hud⟩ := newObj_ok hnew
  have hg := updateDeps_graph hud
  rw [← ht] at hud
  obtain ⟨w2, r1, _, r3, r4⟩ := rebuild_gen { w with objs := w.objs ++ [⟨cls, vals⟩] } t m specs none true
    (hs'.congr hg.symm) (by simp [hw.1]) (by simp [hw.2]) (Or.inl rfl) (fun _ => ⟨hw.1, hw.2, rfl⟩)
  rw [r1] at hud
  have : w2 = w' := Except.ok.inj hud
  subst this
  exact ⟨r4, r3⟩

/-- **constructing any other object changes nothing** -/
theorem new_other_installed {w w' : PWorld} {cls : Nat} {vals : List (Name × Val)} {t : Oid} {m : Name} {specs : List PathSpec}
    (hnew : newObj w cls vals = .ok w') (hs : Scope w t m specs) (hi : Installed w t m specs) (hs' : Scope w' t m specs) :
    Installed w' t m specs ∧ w'.log = w.log ∧ (∀ s ∈ specs, chainObjsFrom w' t s.path = chainObjsFrom w t s.path) := by
  obtain ⟨c, hc, hud⟩ := newObj_ok hnew
  have hg := updateDeps_graph hud
  obtain ⟨ct, _, hct, _⟩ := hs.tcls
  have htl : t < w.objs.length := classOf_lt hct
  have hne : w.objs.length ≠ t := Nat.ne_of_gt htl
  have hcls : classOf { w with objs := w.objs ++ [⟨cls, vals⟩] } w.objs.length = some c := by
    simp [classOf, hc]
  rw [updateDeps_other (hs'.congr hg.symm) hne hcls none true] at hud
  have : { w with objs := w.objs ++ [⟨cls, vals⟩] } = w' := Except.ok.inj hud
  subst this
  have hag : ∀ s ∈ specs, AgreeOn w { w with objs := w.objs ++ [⟨cls, vals⟩] } (pathReads w t s.path) := by
    intro s hs'' r hr
    exact getParam_append w _ r.1 r.2 (pathReads_lt w s.path t htl (fun n hn => (hs.names s hs'' n hn).2.1) r hr)
  obtain ⟨hb, hch, _⟩ := builtM_agree hs hag
  exact ⟨⟨by rw [hb]; exact hi.shapes, hi.owned, hi.cbs, hi.dynKeys⟩, rfl, hch⟩

/-! ### constructing an object of a method-less class keeps scope and typing -/

/-- the class declares the parameters the specs name, with the right kinds -/
structure ClassFits (c : PClass) (specs : List PathSpec) : Prop where
  noMethods : c.methods = []
  objP : ∀ s ∈ specs, ∀ n ∈ s.path, n ∈ c.objParams ∧ n ≠ "name"
  intP : ∀ s ∈ specs, s.leaf ∈ c.intParams ∧ s.leaf ≠ "name"

theorem newObj_checks {w w' : PWorld} {cls : Nat} {vals : List (Name × Val)} (h : newObj w cls vals = .ok w') :
    ∃ c, w.classes[cls]? = some c ∧ vals.map (·.1) = c.paramNames ∧
      (∀ kv ∈ vals, kv.1 = "name" ∨ accepts w c kv.1 kv.2 = true) := by
  unfold newObj at h
  split at h
  · simp at h
  · rename_i c hc
    split at h
    · simp at h
    · rename_i hk
      split at h
      · simp at h
      · rename_i ha
        refine ⟨c, hc, by simpa using hk, ?_⟩
        intro kv hkv
        have hall : (vals.all fun kv => decide (kv.1 = "name") || accepts w c kv.1 kv.2) = true := by
          cases hx : (vals.all fun kv => decide (kv.1 = "name") || accepts w c kv.1 kv.2) with
          | true => rfl
          | false => rw [hx] at ha; simp at ha
        have := (List.all_eq_true.1 hall) kv hkv
        simpa using this

theorem lookupVal_mem : ∀ (vals : List (Name × Val)) (n : Name), n ∈ vals.map (·.1) →
    ∃ v, lookupVal vals n = some v ∧ (n, v) ∈ vals := by
  intro vals
  induction vals with
  | nil => intro n h; cases h
  | cons kv rest ih =>
    intro n h
    obtain ⟨k, v⟩ := kv
    by_cases hk : k = n
    · subst hk; exact ⟨v, by simp [lookupVal], by simp⟩
    · simp only [List.map_cons, List.mem_cons] at h
      rcases h with h | h
      · exact absurd h.symm hk
      · obtain ⟨v', h1, h2⟩ := ih n h
        exact ⟨v', by simp [lookupVal, hk, h1], List.mem_cons_of_mem _ h2⟩

theorem new_scope {w w' : PWorld} {cls : Nat} {vals : List (Name × Val)} {t : Oid} {m : Name} {specs : List PathSpec}
    (hnew : newObj w cls vals = .ok w') (hs : Scope w t m specs) (hty : Typing w specs)
    (hfit : ∀ c, w.classes[cls]? = some c → ClassFits c specs) : Scope w' t m specs ∧ Typing w' specs := by
  obtain ⟨c, hc, hkeys, hacc⟩ := newObj_checks hnew
  obtain ⟨_, _, hud⟩ := newObj_ok hnew
  have hg := updateDeps_graph hud
  have hf := hfit c hc
  obtain ⟨ct, _, hct, _⟩ := hs.tcls
  have htl : t < w.objs.length := classOf_lt hct
  generalize hw1 : ({ w with objs := w.objs ++ [⟨cls, vals⟩] } : PWorld) = w1 at hg
  have hlen : w1.objs.length = w.objs.length + 1 := by subst hw1; simp
  have hcl : w1.classes = w.classes := by subst hw1; rfl
  have hgp : ∀ o n, getParam w1 o n = if o < w.objs.length then getParam w o n
      else if o = w.objs.length then lookupVal vals n else none := by
    intro o n
    subst hw1
    by_cases h1 : o < w.objs.length
    · simp [h1, getParam, List.getElem?_append_left h1]
    · by_cases h2 : o = w.objs.length
      · subst h2; simp [getParam]
      · have : w.objs.length + 1 ≤ o :=
          Nat.succ_le_of_lt (Nat.lt_of_le_of_ne (Nat.le_of_not_lt h1) (fun e => h2 e.symm))
        have hnone : (w.objs ++ [(⟨cls, vals⟩ : PObj)])[o]? = none :=
          List.getElem?_eq_none (by simp only [List.length_append, List.length_cons, List.length_nil]; exact this)
        simp [h1, h2, getParam, hnone]
  have hco : ∀ o, classOf w1 o = if o < w.objs.length then classOf w o
      else if o = w.objs.length then some c else none := by
    intro o
    subst hw1
    by_cases h1 : o < w.objs.length
    · simp [h1, classOf, List.getElem?_append_left h1]
    · by_cases h2 : o = w.objs.length
      · subst h2; simp [classOf, hc]
      · have : w.objs.length + 1 ≤ o :=
          Nat.succ_le_of_lt (Nat.lt_of_le_of_ne (Nat.le_of_not_lt h1) (fun e => h2 e.symm))
        have hnone : (w.objs ++ [(⟨cls, vals⟩ : PObj)])[o]? = none :=
          List.getElem?_eq_none (by simp only [List.length_append, List.length_cons, List.length_nil]; exact this)
        simp [h1, h2, classOf, hnone]
  -- what the new object holds for a name its class declares
  have hnewval : ∀ n, n ∈ c.objParams ∨ n ∈ c.intParams → n ≠ "name" →
      ∃ v, lookupVal vals n = some v ∧ accepts w c n v = true := by
    intro n hn hne
    have : n ∈ vals.map (·.1) := by
      rw [hkeys]; simp only [PClass.paramNames, List.mem_cons, List.mem_append]; exact Or.inr hn
    obtain ⟨v, h1, h2⟩ := lookupVal_mem vals n this
    rcases hacc (n, v) h2 with h | h
    · exact absurd h hne
    · exact ⟨v, h1, h⟩
  have hcmem : c ∈ w.classes := List.mem_of_getElem? hc
  have hasN : ∀ n, HasName w n → (n ∈ c.objParams ∨ n ∈ c.intParams) → n ≠ "name" → HasName w1 n := by
    intro n hn hin hne o ho
    rw [hgp]
    by_cases h1 : o < w.objs.length
    · simp only [h1, if_true]; exact hn o h1
    · have h2 : o = w.objs.length := by rw [hlen] at ho; exact Nat.le_antisymm (Nat.le_of_lt_succ ho) (Nat.le_of_not_lt h1)
      obtain ⟨v, hv, _⟩ := hnewval n hin hne
      refine ⟨v, ?_⟩
      rw [if_neg h1, if_pos h2]
      exact hv
  have hscope1 : Scope w1 t m specs := by
    refine ⟨?_, ?_, hs.nonempty, hs.leaf, hs.path, ?_, ?_⟩
    · rw [hco t]; simp only [htl, if_true]; exact hs.tcls
    · intro o c' ho hc'
      rw [hco o] at hc'
      by_cases h1 : o < w.objs.length
      · simp only [h1, if_true] at hc'; exact hs.others o c' ho hc'
      · simp only [h1, if_false] at hc'
        split at hc'
        · cases hc'; exact hf.noMethods
        · cases hc'
    · intro s hs' n hn
      obtain ⟨hno, hne⟩ := hf.objP s hs' n hn
      refine ⟨hasN n (hs.names s hs' n hn).1 (Or.inl hno) hne, ?_, (hs.names s hs' n hn).2.2⟩
      intro o v hv
      rw [hgp] at hv
      rw [hlen]
      by_cases h1 : o < w.objs.length
      · simp only [h1, if_true] at hv
        rcases (hs.names s hs' n hn).2.1 o v hv with h | ⟨o', h, hlt⟩
        · exact Or.inl h
        · exact Or.inr ⟨o', h, Nat.lt_succ_of_lt hlt⟩
      · simp only [h1, if_false] at hv
        split at hv
        · obtain ⟨v', hv', hacc'⟩ := hnewval n (Or.inl hno) hne
          rw [hv'] at hv
          cases hv
          unfold accepts at hacc'
          cases v with
          | none => exact Or.inl rfl
          | ref o2 =>
            simp only [Bool.and_eq_true, decide_eq_true_eq] at hacc'
            exact Or.inr ⟨o2, rfl, Nat.lt_succ_of_lt hacc'.2⟩
          | int i =>
            simp only [List.contains_iff_mem] at hacc'
            exact absurd hacc' (hty.objOnly s hs' n hn c hcmem)
        · cases hv
    · intro s hs'
      obtain ⟨hli, hne⟩ := hf.intP s hs'
      exact hasN s.leaf (hs.hasLeaf s hs') (Or.inr hli) hne
  have hty1 : Typing w1 specs := by
    refine ⟨fun s hs' n hn c' hc' => hty.objOnly s hs' n hn c' (by rw [← hcl]; exact hc'),
      fun s hs' c' hc' => hty.intOnly s hs' c' (by rw [← hcl]; exact hc'), ?_⟩
    intro s hs' o v hv
    rw [hgp] at hv
    by_cases h1 : o < w.objs.length
    · simp only [h1, if_true] at hv; exact hty.leafInt s hs' o v hv
    · simp only [h1, if_false] at hv
      split at hv
      · obtain ⟨hli, hne⟩ := hf.intP s hs'
        obtain ⟨v', hv', hacc'⟩ := hnewval s.leaf (Or.inr hli) hne
        rw [hv'] at hv
        cases hv
        unfold accepts at hacc'
        cases v with
        | int i => exact ⟨i, rfl⟩
        | none =>
          simp only [List.contains_iff_mem] at hacc'
          exact absurd hacc' (hty.intOnly s hs' c hcmem)
        | ref o2 =>
          simp only [Bool.and_eq_true, List.contains_iff_mem] at hacc'
          exact absurd hacc'.1 (hty.intOnly s hs' c hcmem)
      · cases hv
  exact ⟨hscope1.congr hg, hty1.congr hg⟩

/-! ### no step touches the class list -/

theorem setAllBatched_classes (o : Oid) : ∀ (kvs : List (Name × Val)) (u u' : PWorld) (e e' : List QEv) (q q' : List DW),
    setAllBatched u o e q kvs = .ok (u', e', q') → u'.classes = u.classes := by
  intro kvs
  induction kvs with
  | nil => intro u u' e e' q q' h1; simp only [setAllBatched, Except.ok.injEq, Prod.mk.injEq] at h1; rw [← h1.1]
  | cons kv rest ih =>
    intro u u' e e' q q' h1
    obtain ⟨p, v⟩ := kv
    simp only [setAllBatched] at h1
    split at h1
    · simp at h1
    · rename_i u1 e1 q1 hb
      have : u1.classes = u.classes := by
        unfold setBatched at hb
        split at hb
        · split at hb
          · simp at hb
          · split at hb
            · simp at hb
            · split at hb
              · simp at hb
              · simp only at hb
                split at hb
                · simp at hb
                · rename_i u2 hu2
                  simp only [Except.ok.injEq, Prod.mk.injEq] at hb
                  rw [← hb.1]
                  exact (updateDeps_graph hu2).2
        · simp at hb
      exact (ih u1 u' e1 e' q1 q' h1).trans this

theorem flushQueue_classes (evs : List QEv) : ∀ (ws : List DW) (u u' : PWorld), flushQueue u evs ws = .ok u' →
    u'.classes = u.classes := by
  intro ws
  induction ws with
  | nil => intro u u' h1; simp only [flushQueue, Except.ok.injEq] at h1; rw [h1]
  | cons x rest ih =>
    intro u u' h1
    simp only [flushQueue] at h1
    split at h1
    · simp at h1
    · rename_i u1 hf
      have : u1.classes = u.classes := by
        unfold flushWatcher at hf
        simp only at hf
        split at hf
        · simp at hf
        · rename_i u2 hu2
          have hg2 : u2.classes = u.classes := by
            split at hu2
            · exact (updateDeps_graph hu2).2
            · simp only [Except.ok.injEq] at hu2; rw [hu2]
          split at hf <;> simp only [Except.ok.injEq] at hf <;> rw [← hf]
          · exact hg2
          · exact hg2
      split at h1
      · simp only [Except.ok.injEq] at h1; rw [← h1]; exact this
      · exact (ih u1 u' h1).trans this

theorem runStep_classes {w w' : PWorld} {st : Step} (h : runStep w st = .ok w') : w'.classes = w.classes := by
  cases st with
  | new cls vals =>
    obtain ⟨_, _, hud⟩ := newObj_ok h
    exact (updateDeps_graph hud).2
  | set o p v =>
    obtain ⟨_, _, _, _, hg⟩ := setParam_graph h
    exact hg.2
  | update o kvs =>
    simp only [runStep, updateObj] at h
    split at h
    · simp at h
    · rename_i w1 evs q hs
      have h1 := setAllBatched_classes o kvs w w1 [] evs [] q hs
      split at h
      · simp only [Except.ok.injEq] at h; rw [← h]; exact h1
      · exact (flushQueue_classes evs q w1 w' h).trans h1
  | discard o kvs =>
    simp only [runStep, discardObj] at h
    split at h
    · simp at h
    · rename_i w1 evs q hs
      simp only [Except.ok.injEq] at h
      rw [← h]; exact setAllBatched_classes o kvs w w1 [] evs [] q hs

/-- every installed watcher sits on an object that currently holds a dependency of the method: an
object of the current resolution chain of one of its specs -/
theorem installed_on_chain {w : PWorld} {t : Oid} {m : Name} {specs : List PathSpec}
    (hi : Installed w t m specs) :
    ∀ x ∈ w.watchers, (∃ s ∈ specs, x.on ∈ chainObjsFrom w t s.path) ∧ x.owner = t ∧ x.method = m := by
  intro x hx
  refine ⟨?_, (hi.owned x hx).1, (hi.owned x hx).2.1⟩
  obtain ⟨hkn, hmem, hkeys⟩ := groupAll_spec (allDeps w t specs) [] (by simp [keysOf])
  have : shapeOf x ∈ builtM w t specs := by rw [← hi.shapes]; exact List.mem_map.2 ⟨x, hx, rfl⟩
  simp only [builtM] at this
  obtain ⟨g, hg, hge⟩ := List.mem_map.1 this
  have hon : x.on = g.1 := (congrArg Shape.on hge).symm
  have hk : g.1 ∈ keysOf (groupAll (allDeps w t specs) []) := List.mem_map.2 ⟨g, hg, rfl⟩
  rw [hkeys] at hk
  rcases hk with h | ⟨⟨s, d⟩, hsd, hd⟩
  · simp [keysOf] at h
  · obtain ⟨hs', hdr⟩ := mem_allDeps.1 hsd
    refine ⟨s, hs', ?_⟩
    rw [hon, ← hd, ← depsFrom_fst w s.path t s.leaf]
    exact List.mem_map.2 ⟨d, depsRoot_sub hdr, rfl⟩

/-! ### decidable versions of the hypotheses (used by the non-vacuity examples) -/

def hasNameB (w : PWorld) (n : Name) : Bool := (List.range w.objs.length).all (fun o => (getParam w o n).isSome)

def objNameB (w : PWorld) (n : Name) : Bool :=
  (List.range w.objs.length).all (fun o =>
    match getParam w o n with
    | some (.ref o') => decide (o' < w.objs.length)
    | some (.int _) => false
    | _ => true)

def leafIntB (w : PWorld) (n : Name) : Bool :=
  (List.range w.objs.length).all (fun o =>
    match getParam w o n with
    | some (.int _) => true
    | some _ => false
    | none => true)

def scopeB (w : PWorld) (t : Oid) (m : Name) (specs : List PathSpec) : Bool :=
  (match classOf w t with
   | some ct => (match ct.methods with
                 | [m0] => m0.name == m && decide (m0.specs = specs)
                 | _ => false)
   | none => false) &&
  (List.range w.objs.length).all (fun o => o == t ||
    match classOf w o with
    | some c => c.methods.isEmpty
    | none => true) &&
  !specs.isEmpty &&
  specs.all (fun s => s.leaf != "param" && !s.path.isEmpty &&
    s.path.all (fun n => hasNameB w n && objNameB w n && n != "param") && hasNameB w s.leaf)

def typingB (w : PWorld) (specs : List PathSpec) : Bool :=
  specs.all (fun s => s.path.all (fun n => w.classes.all (fun c => !c.intParams.contains n)) &&
    w.classes.all (fun c => !c.objParams.contains s.leaf) && leafIntB w s.leaf)

def simpleB (w : PWorld) (t : Oid) (specs : List PathSpec) : Bool :=
  specs.all (fun s => nodupOid (chainObjsFrom w t s.path))
where nodupOid : List Oid → Bool
  | [] => true
  | a :: rest => !rest.contains a && nodupOid rest

theorem getParam_none_of_ge (w : PWorld) (o : Oid) (n : Name) (h : w.objs.length ≤ o) : getParam w o n = none := by
  simp [getParam, List.getElem?_eq_none h]

theorem hasNameB_spec {w : PWorld} {n : Name} (h : hasNameB w n = true) : HasName w n := by
  intro o ho
  have := (List.all_eq_true.1 h) o (List.mem_range.2 ho)
  exact Option.isSome_iff_exists.1 this

theorem objNameB_spec {w : PWorld} {n : Name} (h : objNameB w n = true) : ObjName w n := by
  intro o v hv
  rcases Nat.lt_or_ge o w.objs.length with hlt | hge
  · have := (List.all_eq_true.1 h) o (List.mem_range.2 hlt)
    rw [hv] at this
    cases v with
    | none => exact Or.inl rfl
    | int i => simp at this
    | ref o' => exact Or.inr ⟨o', rfl, by simpa using this⟩
  · rw [getParam_none_of_ge w o n hge] at hv; cases hv

theorem scopeB_spec {w : PWorld} {t : Oid} {m : Name} {specs : List PathSpec} (h : scopeB w t m specs = true) :
    Scope w t m specs := by
  unfold scopeB at h
  simp only [Bool.and_eq_true] at h
  obtain ⟨⟨⟨h1, h2⟩, h3⟩, h4⟩ := h
  have h4' := List.all_eq_true.1 h4
  refine ⟨?_, ?_, by simpa [List.isEmpty_iff] using h3, ?_, ?_, ?_, ?_⟩
  · cases hc : classOf w t with
    | none => rw [hc] at h1; simp at h1
    | some ct =>
      rw [hc] at h1
      simp only at h1
      split at h1
      · rename_i m0 hm0
        simp only [Bool.and_eq_true, beq_iff_eq, decide_eq_true_eq] at h1
        refine ⟨ct, m0.raises, rfl, ?_⟩
        rw [hm0]
        cases m0
        simp_all
      · simp at h1
  · intro o c ho hc
    have hlt : o < w.objs.length := classOf_lt hc
    have := (List.all_eq_true.1 h2) o (List.mem_range.2 hlt)
    simp only [Bool.or_eq_true, beq_iff_eq, hc, List.isEmpty_iff] at this
    rcases this with h | h
    · exact absurd h ho
    · exact h
  · intro s hs'
    have := h4' s hs'
    simp only [Bool.and_eq_true, bne_iff_ne, ne_eq] at this
    exact this.1.1.1
  · intro s hs'
    have := h4' s hs'
    simp only [Bool.and_eq_true, Bool.not_eq_true', List.isEmpty_eq_false_iff] at this
    exact this.1.1.2
  · intro s hs' n hn
    have := h4' s hs'
    simp only [Bool.and_eq_true] at this
    have hn' := (List.all_eq_true.1 this.1.2) n hn
    simp only [Bool.and_eq_true, bne_iff_ne, ne_eq] at hn'
    exact ⟨hasNameB_spec hn'.1.1, objNameB_spec hn'.1.2, hn'.2⟩
  · intro s hs'
    have := h4' s hs'
    simp only [Bool.and_eq_true] at this
    exact hasNameB_spec this.2

theorem typingB_spec {w : PWorld} {specs : List PathSpec} (h : typingB w specs = true) : Typing w specs := by
  have h' := List.all_eq_true.1 h
  refine ⟨?_, ?_, ?_⟩
  · intro s hs n hn c hc
    have := h' s hs
    simp only [Bool.and_eq_true] at this
    have := (List.all_eq_true.1 ((List.all_eq_true.1 this.1.1) n hn)) c hc
    simpa using this
  · intro s hs c hc
    have := h' s hs
    simp only [Bool.and_eq_true] at this
    have := (List.all_eq_true.1 this.1.2) c hc
    simpa using this
  · intro s hs o v hv
    have := h' s hs
    simp only [Bool.and_eq_true] at this
    rcases Nat.lt_or_ge o w.objs.length with hlt | hge
    · have h2 := (List.all_eq_true.1 this.2) o (List.mem_range.2 hlt)
      rw [hv] at h2
      cases v with
      | int i => exact ⟨i, rfl⟩
      | none => simp at h2
      | ref o' => simp at h2
    · rw [getParam_none_of_ge w o _ hge] at hv; cases hv

theorem nodupOid_spec : ∀ (l : List Oid), simpleB.nodupOid l = true → l.Nodup := by
  intro l
  induction l with
  | nil => intro _; simp
  | cons a rest ih =>
    intro h
    simp only [simpleB.nodupOid, Bool.and_eq_true, Bool.not_eq_true', List.contains_eq_mem, decide_eq_false_iff_not] at h
    exact List.nodup_cons.2 ⟨h.1, ih h.2⟩

theorem simpleB_spec {w : PWorld} {t : Oid} {specs : List PathSpec} (h : simpleB w t specs = true) : Simple w t specs :=
  fun s hs => nodupOid_spec _ ((List.all_eq_true.1 h) s hs)

/-! ### the oracle's read set is the walk of the theorems -/

/-- `readPairs` of the specification (PathsSpec.lean: what the oracle calls "touched") is `depsFrom`,
the read set the theorems are stated with -/
theorem readPairs_eq_depsFrom (w : PWorld) (leaf : Name) (hleaf : leaf ≠ "param") (hl : HasName w leaf) :
    ∀ (path : List Name) (cur : Oid), cur < w.objs.length → (∀ n ∈ path, HasName w n ∧ ObjName w n) →
    readPairs w cur ⟨path, leaf⟩ = depsFrom w cur path leaf := by
  intro path
  induction path with
  | nil =>
    intro cur hc _
    obtain ⟨v, hv⟩ := hl cur hc
    simp [readPairs, walk, leafReads, hleaf, hv, depsFrom]
  | cons n rest ih =>
    intro cur hc hall
    obtain ⟨v, hv⟩ := (hall n (by simp)).1 cur hc
    have hrest : ∀ x ∈ rest, HasName w x ∧ ObjName w x := fun x hx => hall x (List.mem_cons_of_mem _ hx)
    cases v with
    | none => simp [readPairs, walk, leafReads, hv, depsFrom]
    | int i => simp [readPairs, walk, leafReads, hv, depsFrom]
    | ref o =>
      have ho : o < w.objs.length := by
        rcases (hall n (by simp)).2 cur _ hv with h | ⟨o', h, hlt⟩
        · cases h
        · cases h; exact hlt
      have := ih o ho hrest
      simp only [readPairs, walk, leafReads, hv, depsFrom] at this ⊢
      simp only [List.map_cons, List.cons_append, this]

end ParamVerif.Depends
