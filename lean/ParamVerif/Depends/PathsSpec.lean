/-
C07 specification side: decidable oracle over OBSERVATIONS of a history (per step: the invocation
log and the watcher tables of every object ever created).

The specification keeps its own copy of the object graph (attribute assignment stores the value —
nothing else is assumed) and, for every object `t` with dependent methods, every method `m` and
every step, computes from the graph before and after:

  * `reads G t s`   — the (object, parameter, value) triples read while resolving path spec `s`
  * touched          — the assigned (object, parameter) is read by some spec of `m` in the current graph
  * changed          — for a spec resolving before AND after, the value reached differs (judged as a
                       changes-only watcher does: integers by `=`, `None = None`, a Parameterized
                       object never equals anything; an untouched holder/parameter is unchanged)

and requires: not touched → 0 calls (nothing fires because of a detached or unrelated object);
touched and some spec changed → exactly 1 call; touched, every spec resolves on both sides and none
changed → 0 calls; otherwise (attach from / detach to `None`) at most 1 call — the same for a batch of
assignments to one object (`update`), judged as one step.  After every step —
ALSO a step during which a dependent method raised — no object outside the current resolution chains
of `m` holds a watcher calling `t.m`, and every (object, parameter) the current walk of a spec reads
(once its first sub-object is there) holds one.  When a method body raised, the exception left the
dispatch loop: the lower bounds on the number of calls are waived for that step.
-/
import ParamVerif.Depends.Paths

namespace ParamVerif.Depends

/-- a watcher as observed in `on._param__private.watchers[param]['value']` -/
structure WObs where
  on : Oid
  param : Name
  owner : Oid
  method : Name
  deriving Repr, DecidableEq

structure PStepObs where
  err : Option String
  calls : List (Oid × Name)
  watchers : List WObs
  raised : Bool := false       -- a dependent method's body raised during the step (caught by the harness)
  deriving Repr

def graphWorld (classes : List PClass) (g : List PObj) : PWorld :=
  { classes := classes, objs := g, watchers := [], dyn := [], nextId := 0, log := [] }

/-- walk the path from `cur`; `(reads so far, object reached or none)` -/
def walk (w : PWorld) : Oid → List Name → List (Oid × Name × Val) × Option Oid
  | cur, [] => ([], some cur)
  | cur, n :: rest =>
    match getParam w cur n with
    | some (.ref o) =>
      let (rs, last) := walk w o rest
      ((cur, n, .ref o) :: rs, last)
    | some v => ([(cur, n, v)], none)
    | none => ([], none)

/-- the values at the end of the path: `none` when the path does not resolve -/
def leafReads (w : PWorld) (t : Oid) (s : PathSpec) : Option (List (Oid × Name × Val)) :=
  match (walk w t s.path).2 with
  | none => none
  | some last =>
    if s.leaf = "param" then
      match classOf w last with
      | some c => some (c.paramNames.filterMap (fun q => (getParam w last q).map (fun v => (last, q, v))))
      | none => none
    else (getParam w last s.leaf).map (fun v => [(last, s.leaf, v)])

/-- every (object, parameter) read while resolving the spec -/
def readPairs (w : PWorld) (t : Oid) (s : PathSpec) : List (Oid × Name) :=
  (walk w t s.path).1.map (fun r => (r.1, r.2.1)) ++
  (match leafReads w t s with | some l => l.map (fun r => (r.1, r.2.1)) | none => [])

/-- the objects on the current resolution chain (the only ones that may hold a watcher for the spec) -/
def chainObjs (w : PWorld) (t : Oid) (s : PathSpec) : List Oid :=
  t :: (walk w t s.path).1.filterMap (fun r => match r.2.2 with | .ref o => some o | _ => none)

/-- the (object, parameter) pairs that must hold a watcher for the spec: everything the walk reads,
once the first sub-object is there -/
def mustWatch (w : PWorld) (t : Oid) (s : PathSpec) : List (Oid × Name) :=
  match s.path with
  | [] => []
  | n :: _ =>
    match getParam w t n with
    | some (.ref _) => readPairs w t s
    | _ => []

/-- the assignments of a step: (object, parameter, value before, value assigned) -/
abbrev Asg := Oid × Name × Val × Val

def readChanged (asg : List Asg) : List (Oid × Name × Val) → List (Oid × Name × Val) → Bool
  | [], [] => false
  | a :: as, b :: bs =>
    (if (a.1, a.2.1) = (b.1, b.2.1) then
       -- same place read before and after: changed iff some assignment of the step to it changed it
       -- (a key may be assigned more than once inside a batch block)
       asg.any (fun x => (x.1, x.2.1) = (a.1, a.2.1) && !valEq x.2.2.1 x.2.2.2)
     else !valEq a.2.2 b.2.2) ||
      readChanged asg as bs
  | _, _ => true

/-- the store: what the graph is after a step that raised nothing -/
def graphStep (g : List PObj) : Step → List PObj
  | .new cls vals => g ++ [⟨cls, vals⟩]
  | .set o p v =>
    match g[o]? with
    | some ob => g.set o { ob with vals := setVals ob.vals p v }
    | none => g
  | .update o kvs | .discard o kvs =>
    kvs.foldl (fun g kv => match g[o]? with
      | some ob => g.set o { ob with vals := setVals ob.vals kv.1 kv.2 }
      | none => g) g

def stepAssignments (wb : PWorld) : Step → List Asg
  | .new _ _ => []
  | .set o p v => [(o, p, (getParam wb o p).getD .none, v)]
  | .update o kvs | .discard o kvs => kvs.map (fun kv => (o, kv.1, (getParam wb o kv.1).getD .none, kv.2))

def methodsOf (classes : List PClass) (g : List PObj) : List (Oid × PMethod) :=
  (g.zipIdx.flatMap fun (ob, i) => match classes[ob.cls]? with | some c => c.methods.map (fun m => (i, m)) | none => [])

def countCalls (calls : List (Oid × Name)) (t : Oid) (m : Name) : Nat := calls.count (t, m)

def judgeMethod (i : Nat) (wb wa : PWorld) (st : Step) (obs : PStepObs) (t : Oid) (m : PMethod) : Option String :=
  let got := countCalls obs.calls t m.name
  let fires : Option String :=
    match st with
    | .new _ _ => if got = 0 then none else some s!"fires step={i} owner={t} method={m.name} expected=0 got={got} (construction)"
    | .discard _ _ => if got = 0 then none else some s!"fires step={i} owner={t} method={m.name} expected=0 got={got} (events discarded)"
    | _ =>
      let asg := stepAssignments wb st
      let touched := m.specs.any (fun s => asg.any (fun x => (readPairs wb t s).contains (x.1, x.2.1)))
      if !touched then
        if got = 0 then none else some s!"detached step={i} owner={t} method={m.name} expected=0 got={got}"
      else
        let both := m.specs.filter (fun s => (leafReads wb t s).isSome && (leafReads wa t s).isSome)
        let changed := both.any (fun s =>
          match leafReads wb t s, leafReads wa t s with
          | some a, some b => readChanged asg a b
          | _, _ => false)
        if changed then
          if got = 1 || (obs.raised && got = 0) then none else some s!"fires step={i} owner={t} method={m.name} expected=1 got={got}"
        else if both.length = m.specs.length then
          if got = 0 then none else some s!"fires step={i} owner={t} method={m.name} expected=0 got={got}"
        else if got ≤ 1 then none else some s!"fires step={i} owner={t} method={m.name} expected<=1 got={got}"
  match fires with
  | some r => some r
  | none =>
    let allowed := m.specs.flatMap (chainObjs wa t)
    match obs.watchers.find? (fun x => x.owner = t && x.method = m.name && !(allowed.contains x.on)) with
    | some x => some s!"leftover step={i} owner={t} method={m.name} on={x.on} param={x.param}"
    | none =>
      match (m.specs.flatMap (mustWatch wa t)).find? (fun r =>
          !(obs.watchers.any (fun x => x.owner = t && x.method = m.name && x.on = r.1 && x.param = r.2))) with
      | some r => some s!"missing step={i} owner={t} method={m.name} on={r.1} param={r.2}"
      | none => none

def specHistoryP (classes : List PClass) : Nat → List PObj → List (Step × PStepObs) → Nat × Option String
  | i, _, [] => (i, none)
  | i, g, (st, obs) :: rest =>
    if obs.err.isSome then (i, none)
    else
      let g' := graphStep g st
      let wb := graphWorld classes g
      let wa := graphWorld classes g'
      match (methodsOf classes g').findSome? (fun tm => judgeMethod i wb wa st obs tm.1 tm.2) with
      | some r => (i, some r)
      | none => specHistoryP classes (i + 1) g' rest

/-! ### the model's own observations (what the driver prints), as a function of the history -/

/-- the watcher tables of every object, as the harness reads them: per object, per parameter, the
watchers registered for it in registration order -/
def watcherRows (w : PWorld) : List (Oid × Name × DW) :=
  w.objs.zipIdx.flatMap fun (ob, o) =>
    match w.classes[ob.cls]? with
    | none => []
    | some c => c.paramNames.flatMap fun q =>
        (w.watchers.filter (fun x => x.on = o && x.params.contains q)).map (fun x => (o, q, x))

def errNameP : PErr → String
  | .value => "ValueError" | .type_ => "TypeError" | .attr_ => "AttributeError" | .illFormed => "illFormed"

def obsOfWorld (w : PWorld) : PStepObs :=
  { err := none, calls := w.log.map (fun c => (c.owner, c.method)),
    watchers := (watcherRows w).map (fun (o, q, x) => ⟨o, q, x.owner, x.method⟩), raised := w.raised }

/-- run a history; every step starts with an empty log; an exception ends the history -/
def runHistory : PWorld → List Step → List (Except PErr PWorld)
  | _, [] => []
  | w, st :: rest =>
    match runStep { w with log := [], raised := false } st with
    | .error e => [.error e]
    | .ok w' => .ok w' :: runHistory w' rest

def emptyWorld (classes : List PClass) : PWorld :=
  { classes := classes, objs := [], watchers := [], dyn := [], nextId := 0, log := [] }

def modelObs (classes : List PClass) (steps : List Step) : List PStepObs :=
  (runHistory (emptyWorld classes) steps).map fun
    | .ok w => obsOfWorld w
    | .error e => { err := some (errNameP e), calls := [], watchers := [] }

def wfClasses (classes : List PClass) : Bool := classes.all (fun c => c.methods.all (fun m => m.specs.all wfSpecB))

end ParamVerif.Depends
