/-
Helper lemmas for C06 (instance side): closed forms of the compact dispatcher and the counting
argument "one call per touched watcher".  The property theorems are in Props/C06.lean.
-/
import ParamVerif.Depends.Lemmas

namespace ParamVerif.Depends

/-- the watcher is registered for the key -/
def watches (x : IWatcher) (k : Key) : Bool := x.what = k.what && x.params.contains k.name

/-- how many watchers calling `m` are registered for at least one of the changed keys -/
def nTouched (regs : List IWatcher) (m : Name) (ch : List Key) : Nat :=
  (regs.filter (fun x => x.method = m && ch.any (fun k => watches x k))).length

/-! ### generic list facts -/

theorem filter_eq_of_nodup {l : List Name} (hn : l.Nodup) (n : Name) :
    l.filter (fun a => a = n) = if n ∈ l then [n] else [] := by
  induction l with
  | nil => simp
  | cons a rest ih =>
    rw [List.nodup_cons] at hn
    by_cases ha : a = n
    · subst ha
      simp [ih hn.2, hn.1]
    · have : ¬ n = a := fun e => ha e.symm
      simp [ha, this, ih hn.2]

theorem count_map_method (l : List IWatcher) (m : Name) :
    (l.map (·.method)).count m = (l.filter (fun x => x.method = m)).length := by
  induction l with
  | nil => simp
  | cons x rest ih =>
    by_cases hx : x.method = m
    · simp [hx, ih]
    · simp [hx, ih]

theorem nodup_map_of_inj {α β : Type} (f : α → β) : ∀ (l : List α), l.Nodup →
    (∀ a ∈ l, ∀ b ∈ l, f a = f b → a = b) → (l.map f).Nodup := by
  intro l
  induction l with
  | nil => intro _ _; simp
  | cons a rest ih =>
    intro hn hinj
    rw [List.nodup_cons] at hn
    rw [List.map_cons, List.nodup_cons]
    refine ⟨?_, ih hn.2 (fun x hx y hy => hinj x (List.mem_cons_of_mem _ hx) y (List.mem_cons_of_mem _ hy))⟩
    intro hin
    obtain ⟨b, hb, hfb⟩ := List.mem_map.1 hin
    have := hinj b (List.mem_cons_of_mem _ hb) a (by simp) hfb
    exact hn.1 (this ▸ hb)

theorem filter_length_le_one {α β : Type} [DecidableEq β] (f : α → β) (P : α → Bool) : ∀ (l : List α),
    (l.map f).Nodup → (∀ a ∈ l, ∀ b ∈ l, P a = true → P b = true → f a = f b) → (l.filter P).length ≤ 1 := by
  intro l
  induction l with
  | nil => simp
  | cons a rest ih =>
    intro hn hs
    simp only [List.map_cons, List.nodup_cons] at hn
    have ih' := ih hn.2 (fun x hx y hy => hs x (List.mem_cons_of_mem _ hx) y (List.mem_cons_of_mem _ hy))
    by_cases hp : P a = true
    · have : rest.filter P = [] := by
        rw [List.filter_eq_nil_iff]
        intro b hb hpb
        have := hs a (by simp) b (List.mem_cons_of_mem _ hb) hp hpb
        exact hn.1 (this ▸ List.mem_map.2 ⟨b, hb, rfl⟩)
      simp [hp, this]
    · simp only [Bool.not_eq_true] at hp
      simp [hp, ih']

/-! ### `sorted(..., key=precedence)` is a permutation -/

theorem insertByPrec_perm (x : IWatcher) (l : List IWatcher) : (insertByPrec x l).Perm (x :: l) := by
  induction l with
  | nil => simp [insertByPrec]
  | cons y l ih =>
    simp only [insertByPrec]
    split
    · exact (List.Perm.cons y ih).trans (List.Perm.swap x y l)
    · exact List.Perm.refl _

theorem sortByPrec_perm (l : List IWatcher) : (sortByPrec l).Perm l := by
  induction l with
  | nil => simp [sortByPrec]
  | cons x l ih =>
    simp only [sortByPrec, List.foldr_cons]
    exact (insertByPrec_perm x _).trans (List.Perm.cons x ih)

/-! ### the list a setter iterates -/

theorem watchersFor_eq_filter (regs : List IWatcher) (k : Key) (hp : ∀ x ∈ regs, x.params.Nodup) :
    watchersFor regs k = regs.filter (fun x => watches x k) := by
  induction regs with
  | nil => simp [watchersFor]
  | cons x rest ih =>
    have ih' := ih (fun y hy => hp y (List.mem_cons_of_mem _ hy))
    unfold watchersFor at ih' ⊢
    rw [List.flatMap_cons, ih']
    by_cases hw : x.what = k.what
    · rw [if_pos hw, filter_eq_of_nodup (hp x (by simp))]
      by_cases hm : k.name ∈ x.params <;> simp [watches, hw, hm]
    · simp [watches, hw]

/-! ### direct (unbatched) dispatch -/

theorem callWatcher_batch (w : IWorld) (x : IWatcher) (ev : IEv) : (callWatcher w x ev).batch = w.batch := by
  unfold callWatcher
  split
  · rfl
  · split <;> rfl

theorem dispatch_unbatched (ev : IEv) : ∀ (ws : List IWatcher) (w : IWorld), w.batch = false →
    dispatch w ev ws = { w with log := w.log ++ (if ev.old = ev.new then [] else ws.map (·.method)) } := by
  intro ws
  induction ws with
  | nil => intro w _; simp [dispatch]
  | cons x rest ih =>
    intro w hb
    simp only [dispatch]
    rw [ih _ (by rw [callWatcher_batch]; exact hb)]
    unfold callWatcher
    by_cases he : ev.old = ev.new
    · simp [he]
    · simp [he, hb, List.append_assoc]

/-! ### batched dispatch -/

def enqueue (q : List IWatcher) (x : IWatcher) : List IWatcher := if hasId q x.id then q else q ++ [x]

theorem dispatch_batched (ev : IEv) (hne : ev.old ≠ ev.new) : ∀ (ws : List IWatcher) (w : IWorld), w.batch = true →
    dispatch w ev ws = { w with events := w.events ++ ws.map (fun _ => ev), queued := ws.foldl enqueue w.queued } := by
  intro ws
  induction ws with
  | nil => intro w _; simp [dispatch]
  | cons x rest ih =>
    intro w hb
    simp only [dispatch]
    rw [ih _ (by rw [callWatcher_batch]; exact hb)]
    simp [callWatcher, hne, hb, enqueue, List.append_assoc]

theorem dispatch_same (ev : IEv) (he : ev.old = ev.new) : ∀ (ws : List IWatcher) (w : IWorld), dispatch w ev ws = w := by
  intro ws
  induction ws with
  | nil => intro w; rfl
  | cons x rest ih => intro w; simp only [dispatch]; rw [ih]; simp [callWatcher, he]

theorem inj_of_nodup_map : ∀ (l : List IWatcher), (l.map (·.id)).Nodup →
    ∀ a ∈ l, ∀ b ∈ l, a.id = b.id → a = b := by
  intro l
  induction l with
  | nil => intro _ a ha; cases ha
  | cons x rest ih =>
    intro hn a ha b hb e
    simp only [List.map_cons, List.nodup_cons] at hn
    rcases List.mem_cons.1 ha with rfl | ha' <;> rcases List.mem_cons.1 hb with rfl | hb'
    · rfl
    · exact absurd (e ▸ List.mem_map.2 ⟨b, hb', rfl⟩) hn.1
    · exact absurd (e.symm ▸ List.mem_map.2 ⟨a, ha', rfl⟩) hn.1
    · exact ih hn.2 a ha' b hb' e

theorem nodup_of_map_id (l : List IWatcher) (h : (l.map (·.id)).Nodup) : l.Nodup :=
  List.Pairwise.of_map (·.id) (fun _ _ hne e => hne (congrArg _ e)) h

theorem hasId_iff (l : List IWatcher) (i : Nat) : hasId l i = true ↔ i ∈ l.map (·.id) := by
  simp [hasId, List.any_eq_true]

/-- enqueueing watchers of a registry with unique ids: the queue stays duplicate free and holds exactly
what it held plus the new ones -/
theorem foldl_enqueue (regs : List IWatcher) (hid : (regs.map (·.id)).Nodup) : ∀ (ws q : List IWatcher),
    (∀ x ∈ ws, x ∈ regs) → (∀ x ∈ q, x ∈ regs) → (q.map (·.id)).Nodup →
    ((ws.foldl enqueue q).map (·.id)).Nodup ∧ (∀ x, x ∈ ws.foldl enqueue q ↔ x ∈ q ∨ x ∈ ws) := by
  intro ws
  induction ws with
  | nil => intro q _ _ hq; simp [hq]
  | cons y rest ih =>
    intro q hws hqr hq
    simp only [List.foldl_cons]
    have hy : y ∈ regs := hws y (by simp)
    have hinj : ∀ a ∈ regs, ∀ b ∈ regs, a.id = b.id → a = b := inj_of_nodup_map regs hid
    by_cases hh : hasId q y.id = true
    · have hyq : y ∈ q := by
        obtain ⟨z, hz, hzid⟩ := List.mem_map.1 ((hasId_iff q y.id).1 hh)
        have := hinj z (hqr z hz) y hy hzid
        rw [← this]; exact hz
      have := ih q (fun x hx => hws x (List.mem_cons_of_mem _ hx)) hqr hq
      simp only [enqueue, hh, if_true]
      refine ⟨this.1, fun x => ?_⟩
      rw [this.2 x]
      constructor
      · rintro (h1 | h1)
        · exact Or.inl h1
        · exact Or.inr (List.mem_cons_of_mem _ h1)
      · rintro (h1 | h1)
        · exact Or.inl h1
        · rcases List.mem_cons.1 h1 with rfl | h2
          · exact Or.inl hyq
          · exact Or.inr h2
    · simp only [Bool.not_eq_true] at hh
      have hnot : y.id ∉ q.map (·.id) := fun hin => by
        have := (hasId_iff q y.id).2 hin
        rw [hh] at this; cases this
      have hq' : ((q ++ [y]).map (·.id)).Nodup := by
        rw [List.map_append, List.nodup_append]
        refine ⟨hq, by simp, ?_⟩
        intro a ha b hb e
        simp at hb
        subst hb; subst e
        exact hnot ha
      have := ih (q ++ [y]) (fun x hx => hws x (List.mem_cons_of_mem _ hx))
        (fun x hx => by
          rcases List.mem_append.1 hx with h1 | h1
          · exact hqr x h1
          · simp at h1; subst h1; exact hy) hq'
      simp only [enqueue, hh, Bool.false_eq_true, if_false]
      refine ⟨this.1, fun x => ?_⟩
      rw [this.2 x]
      simp only [List.mem_append, List.mem_cons, List.not_mem_nil, or_false]
      constructor
      · rintro ((h1 | h1) | h1)
        · exact Or.inl h1
        · exact Or.inr (Or.inl h1)
        · exact Or.inr (Or.inr h1)
      · rintro (h1 | h1 | h1)
        · exact Or.inl (Or.inl h1)
        · exact Or.inl (Or.inr h1)
        · exact Or.inr h1

/-! ### a sequence of assignments made while the batching flag is set -/

/-- the assignments of an operation executed one after the other; stops at the first rejected key -/
def setKeys (w : IWorld) : List (Key × Int) → Bool × IWorld
  | [] => (true, w)
  | (k, v) :: rest =>
    match setKey w k v with
    | (false, w1) => (false, w1)
    | (true, w1) => setKeys w1 rest

/-- state of an open batch: which keys changed so far, and that exactly the watchers registered for
one of them are queued, once each, together with at least one event -/
structure BInv (w : IWorld) (ch : List Key) : Prop where
  batch : w.batch = true
  nodup : (w.queued.map (·.id)).Nodup
  mem : ∀ x, x ∈ w.queued ↔ x ∈ w.regs ∧ ch.any (fun k => watches x k) = true
  empty : w.events = [] ↔ w.queued = []

theorem mem_watchersFor (regs : List IWatcher) (k : Key) (hp : ∀ x ∈ regs, x.params.Nodup) (x : IWatcher) :
    x ∈ watchersFor regs k ↔ x ∈ regs ∧ watches x k = true := by
  rw [watchersFor_eq_filter regs k hp, List.mem_filter]

theorem setKey_batch (w : IWorld) (ch : List Key) (k : Key) (v : Int) (w' : IWorld)
    (hid : (w.regs.map (·.id)).Nodup) (hp : ∀ x ∈ w.regs, x.params.Nodup)
    (hi : BInv w ch) (hr : setKey w k v = (true, w')) :
    BInv w' (ch ++ (changedKeys w.vals [(k, v)]).1) ∧ w'.log = w.log ∧ w'.regs = w.regs ∧
      w'.vals = (changedKeys w.vals [(k, v)]).2 := by
  unfold setKey at hr
  cases hg : getKey w.vals k with
  | none => rw [hg] at hr; simp at hr
  | some old =>
    rw [hg] at hr
    simp only at hr
    have hch : (changedKeys w.vals [(k, v)]) = (if old ≠ v then [k] else [], setVal w.vals k v) := by
      simp [changedKeys, hg]
    rw [hch]
    by_cases hemp : (watchersFor w.regs k).isEmpty = true
    · -- nobody is registered for the key
      rw [if_pos hemp] at hr
      simp only [Prod.mk.injEq, true_and] at hr
      subst hr
      refine ⟨⟨hi.batch, hi.nodup, fun x => ?_, hi.empty⟩, rfl, rfl, rfl⟩
      show x ∈ w.queued ↔ x ∈ w.regs ∧ _
      rw [hi.mem x, List.any_append]
      have hnw : x ∈ w.regs → watches x k = false := by
        intro hx
        cases hwk : watches x k with
        | false => rfl
        | true =>
          have := (mem_watchersFor w.regs k hp x).2 ⟨hx, hwk⟩
          rw [List.isEmpty_iff] at hemp
          rw [hemp] at this; cases this
      constructor
      · rintro ⟨h1, h2⟩; exact ⟨h1, by simp [h2]⟩
      · rintro ⟨h1, h2⟩
        refine ⟨h1, ?_⟩
        simp only [Bool.or_eq_true] at h2
        rcases h2 with h2 | h2
        · exact h2
        · split at h2
          · simp [hnw h1] at h2
          · simp at h2
    · rw [if_neg hemp] at hr
      -- the list the setter iterates (sorted for a value, registration order for a slot)
      generalize hws : (if k.what = "value" then sortByPrec (watchersFor w.regs k) else watchersFor w.regs k) = ws at hr
      have hmemws : ∀ x, x ∈ ws ↔ x ∈ w.regs ∧ watches x k = true := by
        intro x
        rw [← mem_watchersFor w.regs k hp x, ← hws]
        split
        · exact (sortByPrec_perm _).mem_iff
        · exact Iff.rfl
      have hwsne : ws ≠ [] := by
        intro e
        have h0 : ∀ x, x ∉ watchersFor w.regs k := by
          intro x hx
          have := (hmemws x).2 ((mem_watchersFor w.regs k hp x).1 hx)
          rw [e] at this; cases this
        apply hemp
        rw [List.isEmpty_iff]
        exact List.eq_nil_iff_forall_not_mem.2 h0
      by_cases hov : old = v
      · -- same value: every watcher filters the event out
        rw [dispatch_same ⟨k, old, v⟩ hov] at hr
        simp only [hi.batch, if_true, Prod.mk.injEq, true_and] at hr
        subst hr
        refine ⟨?_, rfl, rfl, rfl⟩
        simp only [hov, ne_eq, not_true_eq_false, if_false, List.append_nil]
        exact ⟨rfl, hi.nodup, hi.mem, hi.empty⟩
      · rw [dispatch_batched ⟨k, old, v⟩ hov ws { w with vals := setVal w.vals k v } hi.batch] at hr
        simp only [hi.batch, if_true, Prod.mk.injEq, true_and] at hr
        subst hr
        have hfold := foldl_enqueue w.regs hid ws w.queued (fun x hx => ((hmemws x).1 hx).1)
          (fun x hx => ((hi.mem x).1 hx).1) hi.nodup
        refine ⟨?_, rfl, rfl, rfl⟩
        simp only [hov, ne_eq, not_false_eq_true, if_true]
        refine ⟨rfl, hfold.1, fun x => ?_, ?_⟩
        · show x ∈ ws.foldl enqueue w.queued ↔ _
          rw [hfold.2 x, hi.mem x, hmemws x, List.any_append]
          simp only [List.any_cons, List.any_nil, Bool.or_false, Bool.or_eq_true]
          constructor
          · rintro (⟨h1, h2⟩ | ⟨h1, h2⟩)
            · exact ⟨h1, Or.inl h2⟩
            · exact ⟨h1, Or.inr h2⟩
          · rintro ⟨h1, h2 | h2⟩
            · exact Or.inl ⟨h1, h2⟩
            · exact Or.inr ⟨h1, h2⟩
        · show w.events ++ ws.map (fun _ => (⟨k, old, v⟩ : IEv)) = [] ↔ ws.foldl enqueue w.queued = []
          obtain ⟨y, ys, hys⟩ := List.exists_cons_of_ne_nil hwsne
          constructor
          · intro h0
            rw [hys] at h0
            simp at h0
          · intro h0
            have : y ∈ ws.foldl enqueue w.queued := (hfold.2 y).2 (Or.inr (by rw [hys]; simp))
            rw [h0] at this; cases this

theorem setKeys_batch : ∀ (as : List (Key × Int)) (w : IWorld) (ch : List Key) (w' : IWorld),
    (w.regs.map (·.id)).Nodup → (∀ x ∈ w.regs, x.params.Nodup) → BInv w ch → setKeys w as = (true, w') →
    BInv w' (ch ++ (changedKeys w.vals as).1) ∧ w'.log = w.log ∧ w'.regs = w.regs ∧ w'.vals = (changedKeys w.vals as).2 := by
  intro as
  induction as with
  | nil =>
    intro w ch w' _ _ hi hr
    simp only [setKeys, Prod.mk.injEq, true_and] at hr
    subst hr
    simpa [changedKeys] using hi
  | cons kv rest ih =>
    intro w ch w' hid hp hi hr
    obtain ⟨k, v⟩ := kv
    simp only [setKeys] at hr
    split at hr
    · simp at hr
    · rename_i w1 h1
      obtain ⟨hi1, hl1, hr1, hv1⟩ := setKey_batch w ch k v w1 hid hp hi h1
      obtain ⟨hi2, hl2, hr2, hv2⟩ := ih w1 _ w' (by rw [hr1]; exact hid) (by rw [hr1]; exact hp) hi1 hr
      have hsplit : changedKeys w.vals ((k, v) :: rest) =
          ((changedKeys w.vals [(k, v)]).1 ++ (changedKeys (changedKeys w.vals [(k, v)]).2 rest).1,
           (changedKeys (changedKeys w.vals [(k, v)]).2 rest).2) := by
        simp only [changedKeys]
        cases getKey w.vals k with
        | none => simp
        | some old => by_cases h : old = v <;> simp [h]
      rw [hsplit]
      rw [hv1] at hi2 hv2
      refine ⟨?_, hl2.trans hl1, hr2.trans hr1, hv2⟩
      simpa [List.append_assoc] using hi2

/-! ### the flush at the end of a batch -/

theorem flush_calls (w : IWorld) (ch : List Key) (m : Name) (hid : (w.regs.map (·.id)).Nodup)
    (hi : BInv w ch) :
    (flush { w with batch := false }).log.count m = w.log.count m + nTouched w.regs m ch ∧
    (flush { w with batch := false }).events = [] ∧ (flush { w with batch := false }).queued = [] ∧
    (flush { w with batch := false }).batch = false ∧ (flush { w with batch := false }).regs = w.regs ∧
    (flush { w with batch := false }).vals = w.vals := by
  have hregsN : w.regs.Nodup := nodup_of_map_id _ hid
  have hqN : w.queued.Nodup := nodup_of_map_id _ hi.nodup
  have hperm : (w.queued.filter (fun x => x.method = m)).Perm
      (w.regs.filter (fun x => x.method = m && ch.any (fun k => watches x k))) := by
    apply (List.perm_ext_iff_of_nodup (List.Pairwise.filter _ hqN) (List.Pairwise.filter _ hregsN)).2
    intro x
    simp only [List.mem_filter, hi.mem x, Bool.and_eq_true]
    constructor
    · rintro ⟨⟨h1, h2⟩, h3⟩; exact ⟨h1, h3, h2⟩
    · rintro ⟨h1, h3, h2⟩; exact ⟨⟨h1, h2⟩, h3⟩
  by_cases he : w.events = []
  · have hq := hi.empty.1 he
    have hfl : flush { w with batch := false } = { w with batch := false } := by simp [flush, he]
    rw [hfl]
    refine ⟨?_, he, hq, rfl, rfl, rfl⟩
    have := hperm.length_eq
    rw [hq] at this
    simp only [List.filter_nil, List.length_nil] at this
    show w.log.count m = w.log.count m + nTouched w.regs m ch
    simp [nTouched, ← this]
  · have hne : w.events.isEmpty = false := by
      cases h : w.events with
      | nil => exact absurd h he
      | cons _ _ => rfl
    have hfl : flush { w with batch := false } =
        { w with batch := false, events := [], queued := [], log := w.log ++ (sortByPrec w.queued).map (·.method) } := by
      simp [flush, hne]
    rw [hfl]
    refine ⟨?_, rfl, rfl, rfl, rfl, rfl⟩
    show (w.log ++ (sortByPrec w.queued).map (·.method)).count m = w.log.count m + nTouched w.regs m ch
    rw [List.count_append, count_map_method]
    have h1 := ((sortByPrec_perm w.queued).filter (fun x => x.method = m)).length_eq
    rw [h1, hperm.length_eq]
    rfl

/-! ### operations -/

theorem dispatch_batchflag (ev : IEv) : ∀ (ws : List IWatcher) (w0 : IWorld), (dispatch w0 ev ws).batch = w0.batch := by
  intro ws
  induction ws with
  | nil => intro w0; rfl
  | cons x rest ih => intro w0; simp only [dispatch]; rw [ih, callWatcher_batch]

theorem setKey_batchflag (w : IWorld) (k : Key) (v : Int) (hb : w.batch = true) :
    (setKey w k v).2.batch = true := by
  unfold setKey
  cases getKey w.vals k with
  | none => exact hb
  | some old =>
    simp only
    by_cases hemp : (watchersFor w.regs k).isEmpty = true
    · rw [if_pos hemp]; exact hb
    · rw [if_neg hemp]
      have h2 : (dispatch { w with vals := setVal w.vals k v } ⟨k, old, v⟩
          (if k.what = "value" then sortByPrec (watchersFor w.regs k) else watchersFor w.regs k)).batch = true := by
        rw [dispatch_batchflag]; exact hb
      simp only [h2, if_true]

theorem updateKeys_eq_setKeys : ∀ (kvs : List (Name × Int)) (w : IWorld),
    updateKeys w kvs = setKeys w (kvs.map (fun kv => (⟨kv.1, "value"⟩, kv.2))) := by
  intro kvs
  induction kvs with
  | nil => intro w; rfl
  | cons kv rest ih =>
    intro w
    obtain ⟨n, v⟩ := kv
    simp only [updateKeys, setKeys, List.map_cons]
    split <;> rename_i h1 <;> rw [h1]
    · simp only
      exact ih _

theorem setKeys_append : ∀ (as bs : List (Key × Int)) (w w1 w2 : IWorld),
    setKeys w as = (true, w1) → setKeys w1 bs = (true, w2) → setKeys w (as ++ bs) = (true, w2) := by
  intro as
  induction as with
  | nil => intro bs w w1 w2 h1 h2; simp [setKeys] at h1; subst h1; exact h2
  | cons kv rest ih =>
    intro bs w w1 w2 h1 h2
    obtain ⟨k, v⟩ := kv
    simp only [setKeys, List.cons_append] at h1 ⊢
    split at h1
    · simp at h1
    · rename_i w0 h0
      exact ih bs w0 w1 w2 h1 h2

theorem setKeys_batchflag : ∀ (as : List (Key × Int)) (w : IWorld), w.batch = true → (setKeys w as).2.batch = true := by
  intro as
  induction as with
  | nil => intro w h; exact h
  | cons kv rest ih =>
    intro w hb
    obtain ⟨k, v⟩ := kv
    simp only [setKeys]
    have := setKey_batchflag w k v hb
    split <;> rename_i w1 h1 <;> rw [h1] at this
    · exact this
    · exact ih w1 this

theorem eta_batch (w : IWorld) (hb : w.batch = true) : { w with batch := true } = w := by
  cases w; simp_all

/-- inside an open batch, a block of assignments and `update`s is the sequence of its assignments -/
theorem runSimples_batch : ∀ (body : List SimpleOp) (w w' : IWorld), w.batch = true →
    runSimples w body = (true, w') → setKeys w (body.flatMap simpleAssignments) = (true, w') := by
  intro body
  induction body with
  | nil => intro w w' _ h; simpa [runSimples, setKeys] using h
  | cons s rest ih =>
    intro w w' hb hr
    simp only [runSimples] at hr
    split at hr
    · simp at hr
    · rename_i w1 h1
      have hb1 : w1.batch = true ∧ setKeys w (simpleAssignments s) = (true, w1) := by
        cases s with
        | set k v =>
          simp only [runSimple] at h1
          have := setKey_batchflag w k v hb
          rw [h1] at this
          exact ⟨this, by simp [simpleAssignments, setKeys, h1]⟩
        | update kvs =>
          simp only [runSimple, update, hb, if_true] at h1
          rw [eta_batch w hb, updateKeys_eq_setKeys] at h1
          have hfl := setKeys_batchflag (kvs.map (fun kv => (⟨kv.1, "value"⟩, kv.2))) w hb
          generalize hres : setKeys w (kvs.map (fun kv => ((⟨kv.1, "value"⟩ : Key), kv.2))) = res at h1 hfl
          obtain ⟨r, w0⟩ := res
          simp only [Prod.mk.injEq] at h1
          obtain ⟨rfl, h1'⟩ := h1
          simp only at hfl
          rw [eta_batch w0 hfl] at h1'
          subst h1'
          exact ⟨hfl, by simpa [simpleAssignments] using hres⟩
      simp only [List.flatMap_cons]
      exact setKeys_append _ _ w w1 w' hb1.2 (ih w1 w' hb1.1 hr)

/-- **master lemma**: what one top-level operation adds to the invocation log, for any registry with
unique ids and duplicate-free parameter lists -/
theorem runOp_calls (w : IWorld) (op : Op) (w' : IWorld) (m : Name)
    (hb : w.batch = false) (he : w.events = []) (hq : w.queued = [])
    (hid : (w.regs.map (·.id)).Nodup) (hp : ∀ x ∈ w.regs, x.params.Nodup)
    (hr : runOp w op = (true, w')) :
    w'.log.count m = w.log.count m + nTouched w.regs m (changedKeys w.vals (opAssignments op)).1 ∧
    w'.batch = false ∧ w'.events = [] ∧ w'.queued = [] ∧ w'.regs = w.regs ∧
    w'.vals = (changedKeys w.vals (opAssignments op)).2 := by
  have hbinv : BInv { w with batch := true } [] :=
    ⟨rfl, by simp [hq], fun x => by simp [hq], by simp [he, hq]⟩
  -- an operation that runs as a batch: assignments with the flag set, then the flush
  have viaBatch : ∀ (as : List (Key × Int)) (w1 : IWorld), setKeys { w with batch := true } as = (true, w1) →
      w' = flush { w1 with batch := false } →
      w'.log.count m = w.log.count m + nTouched w.regs m (changedKeys w.vals as).1 ∧
      w'.batch = false ∧ w'.events = [] ∧ w'.queued = [] ∧ w'.regs = w.regs ∧ w'.vals = (changedKeys w.vals as).2 := by
    intro as w1 hs hw'
    obtain ⟨hi1, hl1, hr1, hv1⟩ := setKeys_batch as { w with batch := true } [] w1 hid hp hbinv hs
    simp only [List.nil_append] at hi1
    obtain ⟨f1, f2, f3, f4, f5, f6⟩ := flush_calls w1 _ m (by rw [hr1]; exact hid) hi1
    subst hw'
    refine ⟨?_, f4, f2, f3, f5.trans hr1, f6.trans hv1⟩
    rw [f1, hl1, hr1]
  cases op with
  | batch body =>
    simp only [runOp, hb] at hr
    generalize hrs : runSimples { w with batch := true } body = res at hr
    obtain ⟨r, w1⟩ := res
    simp only [Bool.false_eq_true, if_false, Prod.mk.injEq] at hr
    obtain ⟨rfl, rfl⟩ := hr
    exact viaBatch _ w1 (runSimples_batch body _ w1 rfl hrs) rfl
  | simple s =>
    cases s with
    | update kvs =>
      simp only [runOp, runSimple, update, hb] at hr
      rw [updateKeys_eq_setKeys] at hr
      generalize hrs : setKeys { w with batch := true } (kvs.map (fun kv => ((⟨kv.1, "value"⟩ : Key), kv.2))) = res at hr
      obtain ⟨r, w1⟩ := res
      simp only [Bool.false_eq_true, if_false, Prod.mk.injEq] at hr
      obtain ⟨rfl, rfl⟩ := hr
      exact viaBatch _ w1 hrs rfl
    | set k v =>
      simp only [runOp, runSimple] at hr
      unfold setKey at hr
      cases hg : getKey w.vals k with
      | none => rw [hg] at hr; simp at hr
      | some old =>
        rw [hg] at hr
        simp only at hr
        have hch : (changedKeys w.vals (opAssignments (.simple (.set k v)))) = (if old ≠ v then [k] else [], setVal w.vals k v) := by
          simp [opAssignments, simpleAssignments, changedKeys, hg]
        rw [hch]
        have hcount : ((watchersFor w.regs k).map (·.method)).count m = nTouched w.regs m [k] := by
          rw [count_map_method, watchersFor_eq_filter w.regs k hp, List.filter_filter]
          simp [nTouched]
        by_cases hemp : (watchersFor w.regs k).isEmpty = true
        · rw [if_pos hemp] at hr
          simp only [Prod.mk.injEq, true_and] at hr
          subst hr
          refine ⟨?_, hb, he, hq, rfl, rfl⟩
          rw [List.isEmpty_iff] at hemp
          rw [hemp] at hcount
          simp only [List.map_nil, List.count_nil] at hcount
          split
          · simp [← hcount]
          · simp [nTouched]
        · rw [if_neg hemp] at hr
          generalize hws : (if k.what = "value" then sortByPrec (watchersFor w.regs k) else watchersFor w.regs k) = ws at hr
          have hperm : ws.Perm (watchersFor w.regs k) := by
            rw [← hws]; split
            · exact sortByPrec_perm _
            · exact List.Perm.refl _
          rw [dispatch_unbatched ⟨k, old, v⟩ ws { w with vals := setVal w.vals k v } hb] at hr
          simp only [hb, Bool.false_eq_true, if_false, Prod.mk.injEq, true_and] at hr
          subst hr
          have hfl : ∀ (X : IWorld), X.events = [] → flush X = X := by intro X h; simp [flush, h]
          rw [hfl { vals := setVal w.vals k v, regs := w.regs, batch := false, events := w.events, queued := w.queued,
                    log := w.log ++ if old = v then [] else ws.map (·.method) } he]
          refine ⟨?_, rfl, he, hq, rfl, rfl⟩
          show (w.log ++ (if old = v then [] else ws.map (·.method))).count m = _
          by_cases hov : old = v
          · simp [hov, nTouched]
          · simp only [hov, if_false, ne_eq, not_false_eq_true, if_true, List.count_append]
            rw [(hperm.map _).count_eq, hcount]

/-! ### the watcher groups of one entry -/

abbrev Grp := (Cls × String) × List Name

/-- what `groupsOf` guarantees about the groups built from `deps` -/
structure GInv (deps : List PDep) (gs : List Grp) : Prop where
  keys : (gs.map (·.1)).Nodup
  names : ∀ g ∈ gs, g.2.Nodup ∧ g.2 ≠ []
  mem : ∀ c wh n, (∃ ns, ((c, wh), ns) ∈ gs ∧ n ∈ ns) ↔ (⟨c, n, wh⟩ : PDep) ∈ deps

theorem addDep_keys (d : PDep) : ∀ (gs : List Grp),
    (addDep gs d).map (·.1) = if (d.cls, d.what) ∈ gs.map (·.1) then gs.map (·.1) else gs.map (·.1) ++ [(d.cls, d.what)] := by
  intro gs
  induction gs with
  | nil => simp [addDep]
  | cons g rest ih =>
    obtain ⟨k, ns⟩ := g
    simp only [addDep]
    by_cases hk : k = (d.cls, d.what)
    · simp [hk]
    · have hk' : ¬ (d.cls, d.what) = k := fun e => hk e.symm
      simp only [hk, if_false, List.map_cons, ih, List.mem_cons, hk', false_or]
      split <;> simp

theorem addDep_mem (d : PDep) : ∀ (gs : List Grp) (c : Cls) (wh : String) (n : Name),
    (∃ ns, ((c, wh), ns) ∈ addDep gs d ∧ n ∈ ns) ↔
      (∃ ns, ((c, wh), ns) ∈ gs ∧ n ∈ ns) ∨ (c = d.cls ∧ wh = d.what ∧ n = d.name) := by
  intro gs
  induction gs with
  | nil =>
    intro c wh n
    simp only [addDep, List.mem_singleton, Prod.mk.injEq, List.not_mem_nil, false_and, exists_false, false_or]
    constructor
    · rintro ⟨ns, ⟨⟨h1, h2⟩, rfl⟩, hn⟩
      simp at hn
      exact ⟨h1, h2, hn⟩
    · rintro ⟨rfl, rfl, rfl⟩
      exact ⟨[d.name], ⟨⟨rfl, rfl⟩, rfl⟩, by simp⟩
  | cons g rest ih =>
    intro c wh n
    obtain ⟨k, ns0⟩ := g
    simp only [addDep]
    by_cases hk : k = (d.cls, d.what)
    · subst hk
      simp only [if_true, List.mem_cons, Prod.mk.injEq]
      constructor
      · rintro ⟨ns, (⟨⟨h1, h2⟩, rfl⟩ | h3), hn⟩
        · by_cases hin : d.name ∈ ns0
          · simp only [hin, if_true] at hn
            exact Or.inl ⟨ns0, Or.inl ⟨⟨h1, h2⟩, rfl⟩, hn⟩
          · simp only [hin, if_false, List.mem_append, List.mem_singleton] at hn
            rcases hn with hn | hn
            · exact Or.inl ⟨ns0, Or.inl ⟨⟨h1, h2⟩, rfl⟩, hn⟩
            · exact Or.inr ⟨h1, h2, hn⟩
        · exact Or.inl ⟨ns, Or.inr h3, hn⟩
      · rintro (⟨ns, (⟨⟨h1, h2⟩, rfl⟩ | h3), hn⟩ | ⟨h1, h2, h3⟩)
        · refine ⟨_, Or.inl ⟨⟨h1, h2⟩, rfl⟩, ?_⟩
          split
          · exact hn
          · exact List.mem_append_left _ hn
        · exact ⟨ns, Or.inr h3, hn⟩
        · refine ⟨_, Or.inl ⟨⟨h1, h2⟩, rfl⟩, ?_⟩
          subst h3
          split
          · assumption
          · simp
    · simp only [hk, if_false, List.mem_cons, Prod.mk.injEq]
      constructor
      · rintro ⟨ns, (⟨h1, rfl⟩ | h3), hn⟩
        · exact Or.inl ⟨ns, Or.inl ⟨h1, rfl⟩, hn⟩
        · rcases (ih c wh n).1 ⟨ns, h3, hn⟩ with ⟨ns', h4, h5⟩ | h4
          · exact Or.inl ⟨ns', Or.inr h4, h5⟩
          · exact Or.inr h4
      · rintro (⟨ns, (⟨h1, rfl⟩ | h3), hn⟩ | h4)
        · exact ⟨ns, Or.inl ⟨h1, rfl⟩, hn⟩
        · obtain ⟨ns', h5, h6⟩ := (ih c wh n).2 (Or.inl ⟨ns, h3, hn⟩)
          exact ⟨ns', Or.inr h5, h6⟩
        · obtain ⟨ns', h5, h6⟩ := (ih c wh n).2 (Or.inr h4)
          exact ⟨ns', Or.inr h5, h6⟩

theorem addDep_names (d : PDep) : ∀ (gs : List Grp), (∀ g ∈ gs, g.2.Nodup ∧ g.2 ≠ []) →
    ∀ g ∈ addDep gs d, g.2.Nodup ∧ g.2 ≠ [] := by
  intro gs
  induction gs with
  | nil => intro _ g hg; simp [addDep] at hg; subst hg; simp
  | cons g0 rest ih =>
    intro hall g hg
    obtain ⟨k, ns0⟩ := g0
    have h0 := hall (k, ns0) (by simp)
    simp only [addDep] at hg
    split at hg
    · rcases List.mem_cons.1 hg with rfl | hg'
      · simp only
        split
        · exact h0
        · rename_i hin
          refine ⟨?_, by simp⟩
          rw [List.nodup_append]
          refine ⟨h0.1, by simp, ?_⟩
          intro a ha b hb e
          simp at hb
          subst hb; subst e
          exact hin ha
      · exact hall g (List.mem_cons_of_mem _ hg')
    · rcases List.mem_cons.1 hg with rfl | hg'
      · exact h0
      · exact ih (fun g hg => hall g (List.mem_cons_of_mem _ hg)) g hg'

theorem groupsOf_inv (deps : List PDep) : GInv deps (groupsOf deps) := by
  unfold groupsOf
  have : ∀ (l pre : List PDep) (gs : List Grp), GInv pre gs → GInv (pre ++ l) (l.foldl addDep gs) := by
    intro l
    induction l with
    | nil => intro pre gs h; simpa using h
    | cons d rest ih =>
      intro pre gs hinv
      have hstep : GInv (pre ++ [d]) (addDep gs d) := by
        refine ⟨?_, addDep_names d gs hinv.names, ?_⟩
        · rw [addDep_keys]
          split
          · exact hinv.keys
          · rename_i hnot
            rw [List.nodup_append]
            refine ⟨hinv.keys, by simp, ?_⟩
            intro a ha b hb e
            simp at hb
            subst hb; subst e
            exact hnot ha
        · intro c wh n
          rw [addDep_mem, hinv.mem c wh n, List.mem_append, List.mem_singleton]
          constructor
          · rintro (h1 | ⟨rfl, rfl, rfl⟩)
            · exact Or.inl h1
            · exact Or.inr rfl
          · rintro (h1 | h1)
            · exact Or.inl h1
            · right; cases h1; exact ⟨rfl, rfl, rfl⟩
      have := ih (pre ++ [d]) (addDep gs d) hstep
      simpa [List.append_assoc] using this
  simpa using this deps [] [] ⟨by simp, by simp, by simp⟩

/-- a group is registered for one of the changed keys -/
def touchedG (ch : List Key) (g : Grp) : Bool := ch.any (fun k => g.1.2 = k.what && g.2.contains k.name)

theorem watchersOfGroups_method (e : Entry) : ∀ (gs : List Grp) (n : Nat), ∀ x ∈ watchersOfGroups e n gs, x.method = e.name := by
  intro gs
  induction gs with
  | nil => intro n x hx; cases hx
  | cons g rest ih =>
    intro n x hx
    obtain ⟨k, ns⟩ := g
    simp only [watchersOfGroups, List.mem_cons] at hx
    rcases hx with rfl | hx
    · rfl
    · exact ih _ x hx

theorem watchersOfGroups_touched (e : Entry) (ch : List Key) : ∀ (gs : List Grp) (n : Nat),
    ((watchersOfGroups e n gs).filter (fun x => x.method = e.name && ch.any (fun k => watches x k))).length =
      (gs.filter (touchedG ch)).length := by
  intro gs
  induction gs with
  | nil => intro n; rfl
  | cons g rest ih =>
    intro n
    obtain ⟨k, ns⟩ := g
    simp only [watchersOfGroups, List.filter_cons]
    have hw : (ch.any fun k' => watches ⟨n, e.name, ns, k.2, e.queued, -1⟩ k') = touchedG ch (k, ns) := by
      simp [touchedG, watches]
    simp only [decide_true, Bool.true_and, hw]
    split <;> simp [ih]

theorem watchersOfGroups_ids (e : Entry) : ∀ (gs : List Grp) (n : Nat),
    (watchersOfGroups e n gs).map (·.id) = List.range' n gs.length ∧ (watchersOfGroups e n gs).length = gs.length := by
  intro gs
  induction gs with
  | nil => intro n; simp [watchersOfGroups]
  | cons g rest ih =>
    intro n
    obtain ⟨k, ns⟩ := g
    simp [watchersOfGroups, (ih (n + 1)).1, (ih (n + 1)).2, List.range'_succ]

theorem watchersOfGroups_params (e : Entry) : ∀ (gs : List Grp) (n : Nat), (∀ g ∈ gs, g.2.Nodup) →
    ∀ x ∈ watchersOfGroups e n gs, x.params.Nodup := by
  intro gs
  induction gs with
  | nil => intro n _ x hx; cases hx
  | cons g rest ih =>
    intro n hall x hx
    obtain ⟨k, ns⟩ := g
    simp only [watchersOfGroups, List.mem_cons] at hx
    rcases hx with rfl | hx
    · exact hall (k, ns) (by simp)
    · exact ih _ (fun g hg => hall g (List.mem_cons_of_mem _ hg)) x hx

/-! ### everything `_update_deps(init=True)` installs -/

theorem installAll_method : ∀ (table : List Entry) (n : Nat), ∀ x ∈ installAll n table, x.method ∈ table.map (·.name) := by
  intro table
  induction table with
  | nil => intro n x hx; cases hx
  | cons e rest ih =>
    intro n x hx
    simp only [installAll, List.mem_append] at hx
    rcases hx with hx | hx
    · simp [watchersOfEntry] at hx ⊢
      exact Or.inl (watchersOfGroups_method e _ _ x hx)
    · simp only [List.map_cons, List.mem_cons]
      exact Or.inr (ih _ x hx)

theorem installAll_ids : ∀ (table : List Entry) (n : Nat),
    (installAll n table).map (·.id) = List.range' n (installAll n table).length := by
  intro table
  induction table with
  | nil => intro n; simp [installAll]
  | cons e rest ih =>
    intro n
    simp only [installAll, List.map_append, List.length_append]
    rw [ih, watchersOfEntry, (watchersOfGroups_ids e _ n).1, (watchersOfGroups_ids e _ n).2]
    rw [List.range'_append_1]

theorem installAll_params : ∀ (table : List Entry) (n : Nat), ∀ x ∈ installAll n table, x.params.Nodup := by
  intro table
  induction table with
  | nil => intro n x hx; cases hx
  | cons e rest ih =>
    intro n x hx
    simp only [installAll, List.mem_append] at hx
    rcases hx with hx | hx
    · exact watchersOfGroups_params e _ n (fun g hg => ((groupsOf_inv e.deps).names g hg).1) x hx
    · exact ih _ x hx

/-- the watchers of one entry among everything installed: one per group of its dependencies -/
theorem installAll_touched (ch : List Key) (e : Entry) : ∀ (table : List Entry) (n : Nat),
    (table.map (·.name)).Nodup → e ∈ table →
    nTouched (installAll n table) e.name ch = ((groupsOf e.deps).filter (touchedG ch)).length := by
  intro table
  induction table with
  | nil => intro n _ he; cases he
  | cons e' rest ih =>
    intro n hn he
    simp only [List.map_cons, List.nodup_cons] at hn
    simp only [nTouched, installAll, List.filter_append, List.length_append]
    rcases List.mem_cons.1 he with rfl | he'
    · have hrest : (installAll (n + (watchersOfEntry n e).length) rest).filter
          (fun x => x.method = e.name && ch.any (fun k => watches x k)) = [] := by
        rw [List.filter_eq_nil_iff]
        intro x hx hpx
        simp only [Bool.and_eq_true, decide_eq_true_eq] at hpx
        exact hn.1 (hpx.1 ▸ installAll_method rest _ x hx)
      rw [hrest, watchersOfEntry, watchersOfGroups_touched]
      simp
    · have hne : e'.name ≠ e.name := fun eq => hn.1 (eq ▸ List.mem_map.2 ⟨e, he', rfl⟩)
      have hfirst : (watchersOfEntry n e').filter
          (fun x => x.method = e.name && ch.any (fun k => watches x k)) = [] := by
        rw [List.filter_eq_nil_iff]
        intro x hx hpx
        simp only [Bool.and_eq_true, decide_eq_true_eq] at hpx
        exact hne ((watchersOfGroups_method e' _ _ x hx).symm.trans hpx.1)
      rw [hfirst]
      have := ih (n + (watchersOfEntry n e').length) hn.2 he'
      simpa [nTouched] using this

/-- number of touched groups = the specification's expected number of calls, as long as the changed
dependencies of the method are all of one kind (`what`) -/
theorem touched_groups_eq_expected (e : Entry) (ch : List Key) (hcls : ∀ d ∈ e.deps, d.cls = e.origin)
    (hsame : ∀ k1 ∈ ch, ∀ k2 ∈ ch, k1 ∈ e.deps.map keyOf → k2 ∈ e.deps.map keyOf → k1.what = k2.what) :
    ((groupsOf e.deps).filter (touchedG ch)).length = expectedCalls (e.deps.map keyOf) ch := by
  have hinv := groupsOf_inv e.deps
  -- a touched group exhibits a changed key that is a dependency
  have htouch : ∀ g ∈ groupsOf e.deps, touchedG ch g = true → ∃ k ∈ ch, k ∈ e.deps.map keyOf ∧ k.what = g.1.2 := by
    intro g hg ht
    obtain ⟨⟨c, wh⟩, ns⟩ := g
    simp only [touchedG, List.any_eq_true, Bool.and_eq_true, decide_eq_true_eq, List.contains_iff_mem] at ht
    obtain ⟨k, hk, hw, hn⟩ := ht
    have := (hinv.mem c wh k.name).1 ⟨ns, hg, hn⟩
    refine ⟨k, hk, List.mem_map.2 ⟨_, this, ?_⟩, hw.symm⟩
    simp only [keyOf] at hw ⊢
    cases k; simp_all
  have hgcls : ∀ g ∈ groupsOf e.deps, g.1.1 = e.origin := by
    intro g hg
    obtain ⟨⟨c, wh⟩, ns⟩ := g
    obtain ⟨n, hn⟩ := List.exists_mem_of_ne_nil _ (hinv.names _ hg).2
    exact hcls _ ((hinv.mem c wh n).1 ⟨ns, hg, hn⟩)
  have hwhats : ((groupsOf e.deps).map (fun g => g.1.2)).Nodup := by
    have h1 := nodup_map_of_inj (fun k : Cls × String => k.2) ((groupsOf e.deps).map (·.1)) hinv.keys (by
      intro a ha b hb hab
      obtain ⟨ga, hga, rfl⟩ := List.mem_map.1 ha
      obtain ⟨gb, hgb, rfl⟩ := List.mem_map.1 hb
      exact Prod.ext ((hgcls ga hga).trans (hgcls gb hgb).symm) hab)
    rw [List.map_map] at h1
    exact h1
  have hle : ((groupsOf e.deps).filter (touchedG ch)).length ≤ 1 := by
    apply filter_length_le_one (fun g : Grp => g.1.2) (touchedG ch) _ hwhats
    intro a ha b hb hpa hpb
    obtain ⟨k1, hk1, hd1, hw1⟩ := htouch a ha hpa
    obtain ⟨k2, hk2, hd2, hw2⟩ := htouch b hb hpb
    rw [← hw1, ← hw2]
    exact hsame k1 hk1 k2 hk2 hd1 hd2
  unfold expectedCalls
  by_cases hany : (e.deps.map keyOf).any (fun d => ch.contains d) = true
  · rw [if_pos hany]
    obtain ⟨kk, hkk, hin⟩ := List.any_eq_true.1 hany
    obtain ⟨d, hd, rfl⟩ := List.mem_map.1 hkk
    obtain ⟨ns, hg, hn⟩ := (hinv.mem d.cls d.what d.name).2 hd
    have ht : touchedG ch ((d.cls, d.what), ns) = true := by
      simp only [touchedG, List.any_eq_true, Bool.and_eq_true, decide_eq_true_eq, List.contains_iff_mem]
      exact ⟨keyOf d, by simpa using hin, rfl, hn⟩
    have hpos : 0 < ((groupsOf e.deps).filter (touchedG ch)).length :=
      List.length_pos_of_mem (List.mem_filter.2 ⟨hg, ht⟩)
    omega
  · rw [if_neg hany]
    have : (groupsOf e.deps).filter (touchedG ch) = [] := by
      rw [List.filter_eq_nil_iff]
      intro g hg ht
      obtain ⟨k, hk, hd, _⟩ := htouch g hg ht
      apply hany
      rw [List.any_eq_true]
      exact ⟨k, hd, by simpa using hk⟩
    simp [this]

/-! ### `on_init` -/

theorem initCalls_spec : ∀ (l : List Entry) (acc : List Name), acc.Nodup →
    (initCalls acc l).Nodup ∧ ∀ n, n ∈ initCalls acc l ↔ n ∈ acc ∨ ∃ e ∈ l, e.name = n ∧ e.onInit = true := by
  intro l
  induction l with
  | nil => intro acc h; simp [initCalls, h]
  | cons e rest ih =>
    intro acc hacc
    simp only [initCalls]
    by_cases hc : (e.onInit && !(acc.contains e.name)) = true
    · rw [if_pos hc]
      simp only [Bool.and_eq_true, Bool.not_eq_true', List.contains_eq_mem, decide_eq_false_iff_not] at hc
      have hacc' : (acc ++ [e.name]).Nodup := by
        rw [List.nodup_append]
        refine ⟨hacc, by simp, ?_⟩
        intro a ha b hb eq
        simp at hb
        subst hb; subst eq
        exact hc.2 ha
      obtain ⟨h1, h2⟩ := ih _ hacc'
      refine ⟨h1, fun n => ?_⟩
      rw [h2 n]
      simp only [List.mem_append, List.mem_cons, List.not_mem_nil, or_false, exists_eq_or_imp]
      constructor
      · rintro ((h3 | h3) | h3)
        · exact Or.inl h3
        · exact Or.inr (Or.inl ⟨h3.symm, hc.1⟩)
        · exact Or.inr (Or.inr h3)
      · rintro (h3 | ⟨h3, _⟩ | h3)
        · exact Or.inl (Or.inl h3)
        · exact Or.inl (Or.inr h3.symm)
        · exact Or.inr h3
    · rw [if_neg hc]
      obtain ⟨h1, h2⟩ := ih _ hacc
      refine ⟨h1, fun n => ?_⟩
      rw [h2 n]
      simp only [List.mem_cons, exists_eq_or_imp]
      constructor
      · rintro (h3 | h3)
        · exact Or.inl h3
        · exact Or.inr (Or.inr h3)
      · rintro (h3 | ⟨h3, h4⟩ | h3)
        · exact Or.inl h3
        · left
          simp only [Bool.and_eq_true, Bool.not_eq_true', List.contains_eq_mem, decide_eq_false_iff_not, not_and,
            Classical.not_not] at hc
          exact h3 ▸ hc h4
        · exact Or.inr h3

/-! ### keys that changed are keys that were assigned -/

theorem changedKeys_sub : ∀ (as : List (Key × Int)) (vals : List (Key × Int)),
    ∀ k ∈ (changedKeys vals as).1, k ∈ as.map (·.1) := by
  intro as
  induction as with
  | nil => intro vals k hk; simp [changedKeys] at hk
  | cons kv rest ih =>
    intro vals k hk
    obtain ⟨k0, v0⟩ := kv
    simp only [changedKeys] at hk
    simp only [List.map_cons, List.mem_cons]
    cases hg : getKey vals k0 with
    | none =>
      simp only [hg] at hk
      exact Or.inr (ih _ k (by simpa using hk))
    | some old =>
      simp only [hg] at hk
      by_cases ho : old = v0
      · simp only [ho, ne_eq, not_true_eq_false, decide_false, Bool.false_eq_true, if_false] at hk
        exact Or.inr (ih _ k hk)
      · simp only [ne_eq, ho, not_false_eq_true, decide_true, if_true] at hk
        rcases List.mem_cons.1 hk with h1 | h1
        · exact Or.inl h1
        · exact Or.inr (ih _ k h1)

/-! ### the world of an instance -/

/-- an idle instance of a class with table `table`: everything `_update_deps(init=True)` installed,
possibly followed by watchers that call no table method (function form), ids consecutive -/
structure InstanceWorld (table : List Entry) (w : IWorld) : Prop where
  regs : ∃ extra, w.regs = installAll 0 table ++ extra ∧
    ∀ x ∈ extra, x.method ∉ table.map (·.name) ∧ x.params.Nodup
  ids : w.regs.map (·.id) = List.range' 0 w.regs.length
  batch : w.batch = false
  events : w.events = []
  queued : w.queued = []

theorem instantiate_instanceWorld (table : List Entry) (vals : List (Key × Int)) :
    InstanceWorld table (instantiate table vals) :=
  ⟨⟨[], by simp [instantiate], by simp⟩, by simpa [instantiate] using installAll_ids table 0, rfl, rfl, rfl⟩

/-- `dict.fromkeys`: duplicate free, same members -/
theorem dedupInto_spec : ∀ (l seen : List Name), seen.Nodup →
    (dedupInto seen l).Nodup ∧ ∀ n, n ∈ dedupInto seen l ↔ n ∈ seen ∨ n ∈ l := by
  intro l
  induction l with
  | nil => intro seen h; simp [dedupInto, h]
  | cons a rest ih =>
    intro seen hs
    simp only [dedupInto]
    by_cases ha : a ∈ seen
    · rw [if_pos ha]
      obtain ⟨h1, h2⟩ := ih seen hs
      refine ⟨h1, fun n => ?_⟩
      rw [h2 n]
      constructor
      · rintro (h | h)
        · exact Or.inl h
        · exact Or.inr (List.mem_cons_of_mem _ h)
      · rintro (h | h)
        · exact Or.inl h
        · rcases List.mem_cons.1 h with rfl | h
          · exact Or.inl ha
          · exact Or.inr h
    · rw [if_neg ha]
      have hs' : (seen ++ [a]).Nodup := by
        rw [List.nodup_append]
        refine ⟨hs, by simp, ?_⟩
        intro x hx y hy e
        simp at hy
        subst hy; subst e
        exact ha hx
      obtain ⟨h1, h2⟩ := ih (seen ++ [a]) hs'
      refine ⟨h1, fun n => ?_⟩
      rw [h2 n]
      simp only [List.mem_append, List.mem_cons, List.not_mem_nil, or_false]
      constructor
      · rintro ((h | h) | h)
        · exact Or.inl h
        · exact Or.inr (Or.inl h)
        · exact Or.inr (Or.inr h)
      · rintro (h | h | h)
        · exact Or.inl (Or.inl h)
        · exact Or.inl (Or.inr h)
        · exact Or.inr h

theorem fnWatch_instanceWorld (table : List Entry) (w : IWorld) (label : Name) (names : List Name)
    (hW : InstanceWorld table w) (hl : label ∉ table.map (·.name)) :
    InstanceWorld table (fnWatch w label names) := by
  obtain ⟨extra, h1, h2⟩ := hW.regs
  refine ⟨⟨extra ++ [⟨w.regs.length, label, dedupInto [] names, "value", false, 0⟩], by simp [fnWatch, h1], ?_⟩, ?_, hW.batch, hW.events, hW.queued⟩
  · intro x hx
    rcases List.mem_append.1 hx with h3 | h3
    · exact h2 x h3
    · simp at h3; subst h3; exact ⟨hl, (dedupInto_spec names [] (by simp)).1⟩
  · simp only [fnWatch, List.map_append, hW.ids, List.map_cons, List.map_nil, List.length_append, List.length_cons,
      List.length_nil]
    simp [List.range'_concat]

theorem nTouched_append (a b : List IWatcher) (m : Name) (ch : List Key) :
    nTouched (a ++ b) m ch = nTouched a m ch + nTouched b m ch := by
  simp [nTouched, List.filter_append]

/-- **what one operation adds to the log for a table method**, and the instance stays idle -/
theorem instance_calls (table : List Entry) (w w' : IWorld) (e : Entry) (op : Op)
    (hW : InstanceWorld table w) (hn : (table.map (·.name)).Nodup) (he : e ∈ table)
    (hcls : ∀ d ∈ e.deps, d.cls = e.origin) (hr : runOp w op = (true, w'))
    (hsame : ∀ k1 ∈ (changedKeys w.vals (opAssignments op)).1, ∀ k2 ∈ (changedKeys w.vals (opAssignments op)).1,
      k1 ∈ e.deps.map keyOf → k2 ∈ e.deps.map keyOf → k1.what = k2.what) :
    w'.log.count e.name = w.log.count e.name +
      expectedCalls (e.deps.map keyOf) (changedKeys w.vals (opAssignments op)).1 ∧
    InstanceWorld table w' ∧ w'.vals = (changedKeys w.vals (opAssignments op)).2 := by
  obtain ⟨extra, h1, h2⟩ := hW.regs
  have hid : (w.regs.map (·.id)).Nodup := by rw [hW.ids]; exact List.nodup_range'
  have hp : ∀ x ∈ w.regs, x.params.Nodup := by
    intro x hx
    rw [h1] at hx
    rcases List.mem_append.1 hx with h3 | h3
    · exact installAll_params table 0 x h3
    · exact (h2 x h3).2
  obtain ⟨c1, c2, c3, c4, c5, c6⟩ := runOp_calls w op w' e.name hW.batch hW.events hW.queued hid hp hr
  refine ⟨?_, ⟨⟨extra, by rw [c5, h1], h2⟩, by rw [c5]; exact hW.ids, c2, c3, c4⟩, c6⟩
  rw [c1, h1, nTouched_append, installAll_touched _ e table 0 hn he, touched_groups_eq_expected e _ hcls hsame]
  have : nTouched extra e.name (changedKeys w.vals (opAssignments op)).1 = 0 := by
    simp only [nTouched, List.length_eq_zero_iff, List.filter_eq_nil_iff, Bool.and_eq_true, decide_eq_true_eq, not_and]
    intro x hx hm
    exact absurd (hm ▸ List.mem_map.2 ⟨e, he, rfl⟩) (h2 x hx).1
  omega

/-- a function decorated with Parameter-object dependencies: its one watcher among the registry -/
theorem single_watcher_calls (w w' : IWorld) (x : IWatcher) (op : Op)
    (hb : w.batch = false) (hev : w.events = []) (hq : w.queued = [])
    (hid : (w.regs.map (·.id)).Nodup) (hp : ∀ y ∈ w.regs, y.params.Nodup)
    (hx : w.regs.filter (fun y => y.method = x.method) = [x]) (hr : runOp w op = (true, w')) :
    w'.log.count x.method = w.log.count x.method +
      expectedCalls (x.params.map (fun n => ⟨n, x.what⟩)) (changedKeys w.vals (opAssignments op)).1 := by
  obtain ⟨c1, _⟩ := runOp_calls w op w' x.method hb hev hq hid hp hr
  rw [c1]
  congr 1
  have : w.regs.filter (fun y => y.method = x.method && (changedKeys w.vals (opAssignments op)).1.any (fun k => watches y k)) =
      [x].filter (fun y => (changedKeys w.vals (opAssignments op)).1.any (fun k => watches y k)) := by
    rw [← hx, List.filter_filter]
    congr 1
    funext y
    exact Bool.and_comm _ _
  simp only [nTouched, this, expectedCalls]
  have hiff : (changedKeys w.vals (opAssignments op)).1.any (fun k => watches x k) =
      (x.params.map (fun n => (⟨n, x.what⟩ : Key))).any (fun d => (changedKeys w.vals (opAssignments op)).1.contains d) := by
    rw [Bool.eq_iff_iff]
    simp only [List.any_eq_true, watches, Bool.and_eq_true, decide_eq_true_eq, List.contains_iff_mem, List.mem_map]
    constructor
    · rintro ⟨k, hk, hw, hn⟩
      refine ⟨k, ⟨k.name, hn, ?_⟩, hk⟩
      cases k; simp_all
    · rintro ⟨k, ⟨n, hn, rfl⟩, hk⟩
      exact ⟨_, hk, rfl, hn⟩
  rw [List.filter_cons, hiff]
  split <;> simp

theorem expectedCalls_congr {a b : List Key} (ch : List Key) (hab : ∀ k, k ∈ a ↔ k ∈ b) :
    expectedCalls a ch = expectedCalls b ch := by
  unfold expectedCalls
  have : a.any (fun d => ch.contains d) = b.any (fun d => ch.contains d) := by
    rw [Bool.eq_iff_iff, List.any_eq_true, List.any_eq_true]
    constructor
    · rintro ⟨k, hk, h⟩; exact ⟨k, (hab k).1 hk, h⟩
    · rintro ⟨k, hk, h⟩; exact ⟨k, (hab k).2 hk, h⟩
  rw [this]


/-! ### whole programs -/

/-- a program: operations one after the other (the log is not reset); stops at the first rejected key -/
def runOps (w : IWorld) : List Op → Bool × IWorld
  | [] => (true, w)
  | op :: rest =>
    match runOp w op with
    | (false, w1) => (false, w1)
    | (true, w1) => runOps w1 rest

/-- the specification's expected number of calls over a whole program -/
def expectedProgram (deps : List Key) : List (Key × Int) → List Op → Nat
  | _, [] => 0
  | vals, op :: rest =>
    expectedCalls deps (changedKeys vals (opAssignments op)).1 +
      expectedProgram deps (changedKeys vals (opAssignments op)).2 rest

/-- **every operation of every program**: for a table method whose dependencies are of one kind, the
log of any program of assignments, `update`s and batches gains, operation by operation, exactly the
calls the specification expects, and the instance is idle again after each of them -/
theorem program_calls (table : List Entry) (e : Entry) (hn : (table.map (·.name)).Nodup) (he : e ∈ table)
    (hcls : ∀ d ∈ e.deps, d.cls = e.origin) (hkind : ∀ d1 ∈ e.deps, ∀ d2 ∈ e.deps, d1.what = d2.what) :
    ∀ (ops : List Op) (w w' : IWorld), InstanceWorld table w → runOps w ops = (true, w') →
    w'.log.count e.name = w.log.count e.name + expectedProgram (e.deps.map keyOf) w.vals ops ∧
      InstanceWorld table w' := by
  intro ops
  induction ops with
  | nil =>
    intro w w' hW hr
    simp only [runOps, Prod.mk.injEq, true_and] at hr
    subst hr
    exact ⟨by simp [expectedProgram], hW⟩
  | cons op rest ih =>
    intro w w' hW hr
    simp only [runOps] at hr
    split at hr
    · simp at hr
    · rename_i w1 h1
      obtain ⟨c1, c2, c3⟩ := instance_calls table w w1 e op hW hn he hcls h1 (by
        intro k1 _ k2 _ h1' h2'
        obtain ⟨d1, hd1, rfl⟩ := List.mem_map.1 h1'
        obtain ⟨d2, hd2, rfl⟩ := List.mem_map.1 h2'
        exact hkind d1 hd1 d2 hd2)
      obtain ⟨i1, i2⟩ := ih w1 w' c2 hr
      refine ⟨?_, i2⟩
      rw [i1, c1, c3]
      simp only [expectedProgram]
      omega

end ParamVerif.Depends
