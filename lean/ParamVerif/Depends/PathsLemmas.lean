/-
Helper lemmas for C07 (Paths.lean).  The property theorems are in Props/C07.lean.

Part 1: reading the graph; the dependencies `_spec_to_obj` returns, characterised by a walk from the
root (`depsFrom`) instead of the recursion on the prefix of the path the code uses.
-/
import ParamVerif.Depends.PathsSpec

namespace ParamVerif.Depends

/-! ### reading functions only look at objects and classes -/

/-- two worlds with the same object graph -/
def SameGraph (w w' : PWorld) : Prop := w'.objs = w.objs ∧ w'.classes = w.classes

theorem SameGraph.refl (w : PWorld) : SameGraph w w := ⟨rfl, rfl⟩
theorem SameGraph.trans {a b c : PWorld} (h1 : SameGraph a b) (h2 : SameGraph b c) : SameGraph a c :=
  ⟨h2.1.trans h1.1, h2.2.trans h1.2⟩
theorem SameGraph.symm {a b : PWorld} (h : SameGraph a b) : SameGraph b a := ⟨h.1.symm, h.2.symm⟩

theorem getParam_congr {w w' : PWorld} (h : SameGraph w w') (o : Oid) (n : Name) : getParam w' o n = getParam w o n := by
  simp [getParam, h.1]

theorem classOf_congr {w w' : PWorld} (h : SameGraph w w') (o : Oid) : classOf w' o = classOf w o := by
  simp [classOf, h.1, h.2]

theorem attrOr_congr {w w' : PWorld} (h : SameGraph w w') (v : Val) (n : Name) : attrOr w' v n = attrOr w v n := by
  cases v <;> simp [attrOr, getParam_congr h]

theorem follow_congr {w w' : PWorld} (h : SameGraph w w') : ∀ (p : List Name) (v : Val), follow w' v p = follow w v p := by
  intro p
  induction p with
  | nil => intro v; rfl
  | cons n rest ih => intro v; simp [follow, attrOr_congr h, ih]

theorem chain_congr {w w' : PWorld} (h : SameGraph w w') : ∀ (p : List Name) (v : Val), chain w' v p = chain w v p := by
  intro p
  induction p with
  | nil => intro v; rfl
  | cons n rest ih => intro v; simp [chain, attrOr_congr h, ih]

/-! ### `follow` / `chain` basics -/

theorem follow_none (w : PWorld) : ∀ (p : List Name), follow w .none p = .none := by
  intro p
  induction p with
  | nil => rfl
  | cons n rest ih => simp [follow, attrOr, ih]

theorem follow_int (w : PWorld) (i : Int) : ∀ (p : List Name), p ≠ [] → follow w (.int i) p = .none := by
  intro p hp
  cases p with
  | nil => exact absurd rfl hp
  | cons n rest => simp [follow, attrOr, follow_none]

theorem follow_append (w : PWorld) : ∀ (p q : List Name) (v : Val), follow w v (p ++ q) = follow w (follow w v p) q := by
  intro p
  induction p with
  | nil => intro q v; rfl
  | cons n rest ih => intro q v; simp [follow, ih]

theorem chain_ne_nil (w : PWorld) (v : Val) (p : List Name) : chain w v p ≠ [] := by
  cases p <;> simp [chain]

theorem chain_length (w : PWorld) : ∀ (p : List Name) (v : Val), (chain w v p).length = p.length + 1 := by
  intro p
  induction p with
  | nil => intro v; rfl
  | cons n rest ih => intro v; simp [chain, ih]

/-! ### the walk from the root -/

/-- the objects whose parameters are read while resolving a path from `cur`: `cur`, then the object
held by `cur.n`, … as far as the path resolves -/
def chainObjsFrom (w : PWorld) : Oid → List Name → List Oid
  | cur, [] => [cur]
  | cur, n :: rest =>
    cur :: (match getParam w cur n with
            | some (.ref o) => chainObjsFrom w o rest
            | _ => [])

/-- the dependencies of a path from `cur`: every (holder, parameter) read, as far as it resolves, and
the leaf on the last object when it resolves entirely -/
def depsFrom (w : PWorld) : Oid → List Name → Name → List (Oid × Name)
  | cur, [], leaf => [(cur, leaf)]
  | cur, n :: rest, leaf =>
    (cur, n) :: (match getParam w cur n with
                 | some (.ref o) => depsFrom w o rest leaf
                 | _ => [])

/-- … but nothing at all when the first sub-object is missing (`_spec_to_obj` finds no prefix that
resolves) -/
def depsRoot (w : PWorld) (t : Oid) (path : List Name) (leaf : Name) : List (Oid × Name) :=
  match path with
  | [] => [(t, leaf)]
  | n :: _ =>
    match getParam w t n with
    | some (.ref _) => depsFrom w t path leaf
    | _ => []

/-- every object reachable along the path has every parameter the spec names, and the parameters of
the path hold `None` or an existing object -/
structure Typed (w : PWorld) (s : PathSpec) : Prop where
  has : ∀ o, o < w.objs.length → ∀ n ∈ s.elems, ∃ v, getParam w o n = some v
  obj : ∀ o n v, n ∈ s.path → getParam w o n = some v → v = .none ∨ ∃ o', v = .ref o' ∧ o' < w.objs.length

theorem Typed.congr {w w' : PWorld} {s : PathSpec} (h : SameGraph w w') (ht : Typed w s) : Typed w' s :=
  ⟨fun o ho n hn => by rw [getParam_congr h]; exact ht.has o (by rw [← h.1]; exact ho) n hn,
   fun o n v hn hv => by
     rw [getParam_congr h] at hv
     rcases ht.obj o n v hn hv with h1 | ⟨o', h1, h2⟩
     · exact Or.inl h1
     · exact Or.inr ⟨o', h1, by rw [h.1]; exact h2⟩⟩

theorem depsFrom_congr {w w' : PWorld} (h : SameGraph w w') : ∀ (p : List Name) (cur : Oid) (leaf : Name),
    depsFrom w' cur p leaf = depsFrom w cur p leaf := by
  intro p
  induction p with
  | nil => intro cur leaf; rfl
  | cons n rest ih =>
    intro cur leaf
    simp only [depsFrom, getParam_congr h]
    split <;> simp [ih]

theorem chainObjsFrom_congr {w w' : PWorld} (h : SameGraph w w') : ∀ (p : List Name) (cur : Oid),
    chainObjsFrom w' cur p = chainObjsFrom w cur p := by
  intro p
  induction p with
  | nil => intro cur; rfl
  | cons n rest ih =>
    intro cur
    simp only [chainObjsFrom, getParam_congr h]
    split <;> simp [ih]

/-- the holders of the dependencies are the chain objects -/
theorem depsFrom_fst (w : PWorld) : ∀ (p : List Name) (cur : Oid) (leaf : Name),
    (depsFrom w cur p leaf).map (·.1) = chainObjsFrom w cur p := by
  intro p
  induction p with
  | nil => intro cur leaf; rfl
  | cons n rest ih =>
    intro cur leaf
    simp only [depsFrom, chainObjsFrom, List.map_cons]
    split <;> simp [ih]

/-- when the whole path resolves, appending one more element to it appends one dependency -/
theorem depsFrom_snoc (w : PWorld) (l leaf : Name) : ∀ (pre : List Name) (cur src : Oid),
    follow w (.ref cur) (pre ++ [l]) = .ref src →
    depsFrom w cur (pre ++ [l]) leaf = depsFrom w cur pre l ++ [(src, leaf)] := by
  intro pre
  induction pre with
  | nil =>
    intro cur src hf
    simp only [List.nil_append, follow, attrOr] at hf
    simp only [List.nil_append, depsFrom]
    cases hg : getParam w cur l with
    | none => rw [hg] at hf; simp at hf
    | some v =>
      rw [hg] at hf
      simp only [Option.getD_some] at hf
      subst hf
      simp
  | cons n rest ih =>
    intro cur src hf
    simp only [List.cons_append, follow] at hf
    simp only [List.cons_append, depsFrom]
    cases hg : getParam w cur n with
    | none =>
      simp only [attrOr, hg, Option.getD_none] at hf
      rw [follow_none] at hf; cases hf
    | some v =>
      cases v with
      | none =>
        simp only [attrOr, hg, Option.getD_some] at hf
        rw [follow_none] at hf; cases hf
      | int i =>
        simp only [attrOr, hg, Option.getD_some] at hf
        rw [follow_int w i _ (by simp)] at hf; cases hf
      | ref o =>
        simp only [attrOr, hg, Option.getD_some] at hf
        simp [ih o src hf]

/-- when the path resolves up to `sub` (non-empty) and no further, the dependencies are those of the
shorter spec that ends at the first unresolved element -/
theorem depsFrom_partial (w : PWorld) (leaf : Name) : ∀ (sub : List Name) (nxt : Name) (rest : List Name) (cur o : Oid),
    follow w (.ref cur) sub = .ref o → attrOr w (.ref o) nxt = .none →
    depsFrom w cur (sub ++ nxt :: rest) leaf = depsFrom w cur sub nxt := by
  intro sub
  induction sub with
  | nil =>
    intro nxt rest cur o hf hn
    simp only [follow, Val.ref.injEq] at hf
    subst hf
    simp only [List.nil_append, depsFrom]
    simp only [attrOr] at hn
    cases hg : getParam w cur nxt with
    | none => rfl
    | some v =>
      rw [hg] at hn
      simp only [Option.getD_some] at hn
      subst hn
      rfl
  | cons n sub' ih =>
    intro nxt rest cur o hf hn
    simp only [follow] at hf
    simp only [List.cons_append, depsFrom]
    cases hg : getParam w cur n with
    | none =>
      simp only [attrOr, hg, Option.getD_none] at hf
      simp [follow_none] at hf
    | some v =>
      cases v with
      | none =>
        simp only [attrOr, hg, Option.getD_some] at hf
        simp [follow_none] at hf
      | int i =>
        simp only [attrOr, hg, Option.getD_some] at hf
        cases sub' with
        | nil => simp [follow] at hf
        | cons _ _ => simp [follow_int w i _ (List.cons_ne_nil _ _)] at hf
      | ref o' =>
        simp only [attrOr, hg, Option.getD_some] at hf
        simp [ih nxt rest o' o hf hn]

/-! ### `_spec_to_obj` as written = the walk from the root -/

def HasName (w : PWorld) (n : Name) : Prop := ∀ o, o < w.objs.length → ∃ v, getParam w o n = some v
def ObjName (w : PWorld) (n : Name) : Prop :=
  ∀ o v, getParam w o n = some v → v = .none ∨ ∃ o', v = .ref o' ∧ o' < w.objs.length

theorem attrOr_obj {w : PWorld} {n : Name} (hn : ObjName w n) (v : Val) :
    attrOr w v n = .none ∨ ∃ o', attrOr w v n = .ref o' ∧ o' < w.objs.length := by
  cases v with
  | none => exact Or.inl rfl
  | int i => exact Or.inl rfl
  | ref o =>
    simp only [attrOr]
    cases hg : getParam w o n with
    | none => exact Or.inl rfl
    | some v' =>
      rcases hn o v' hg with h1 | ⟨o', h1, h2⟩
      · exact Or.inl (by simp [h1])
      · exact Or.inr ⟨o', by simp [h1], h2⟩

/-- along object-valued parameters a (non-empty) path leads to `None` or to an existing object -/
theorem follow_obj (w : PWorld) : ∀ (p : List Name) (v : Val), p ≠ [] → (∀ n ∈ p, ObjName w n) →
    follow w v p = .none ∨ ∃ o', follow w v p = .ref o' ∧ o' < w.objs.length := by
  intro p
  induction p with
  | nil => intro v hp; exact absurd rfl hp
  | cons n rest ih =>
    intro v _ hall
    simp only [follow]
    cases rest with
    | nil => simpa [follow] using attrOr_obj (hall n (by simp)) v
    | cons n' rest' => exact ih _ (by simp) (fun x hx => hall x (List.mem_cons_of_mem _ hx))

theorem longestPrefix_nil (w : PWorld) (t : Oid) (n : Nat) : longestPrefix w t n [] = [] := by
  cases n <;> simp [longestPrefix]

theorem longestPrefix_spec (w : PWorld) (t : Oid) : ∀ (n : Nat) (sub : List Name), sub.length ≤ n →
    (sub ≠ [] → follow w (.ref t) sub = .none) →
    (longestPrefix w t n sub = [] ∧ ∀ p q, sub = p ++ q → p ≠ [] → follow w (.ref t) p = .none) ∨
    (longestPrefix w t n sub ≠ [] ∧ follow w (.ref t) (longestPrefix w t n sub) ≠ .none ∧
      ∃ nxt rest, sub = longestPrefix w t n sub ++ nxt :: rest ∧
        follow w (.ref t) (longestPrefix w t n sub ++ [nxt]) = .none) := by
  intro n
  induction n with
  | zero =>
    intro sub hl _
    have : sub = [] := List.length_eq_zero_iff.1 (Nat.le_zero.1 hl)
    subst this
    left
    refine ⟨rfl, ?_⟩
    intro p q hpq hp
    have := congrArg List.length hpq
    simp at this
    exact absurd (List.length_eq_zero_iff.1 (by omega)) hp
  | succ n ih =>
    intro sub hl hnone
    by_cases hs : sub = []
    · subst hs
      left
      refine ⟨by simp [longestPrefix], ?_⟩
      intro p q hpq hp
      have := congrArg List.length hpq
      simp at this
      exact absurd (List.length_eq_zero_iff.1 (by omega)) hp
    · have hemp : sub.isEmpty = false := by cases sub <;> simp_all
      have hsplit : sub = sub.dropLast ++ [sub.getLast hs] := (List.dropLast_concat_getLast hs).symm
      have hlen : sub.dropLast.length ≤ n := by
        rw [List.length_dropLast]
        omega
      simp only [longestPrefix, hemp, Bool.false_eq_true, if_false]
      by_cases hpre : sub.dropLast = []
      · -- only the empty prefix is left
        simp only [hpre, List.isEmpty_nil, if_true]
        have := ih [] (by simp) (by simp)
        rcases this with ⟨h1, _⟩ | ⟨h1, _⟩
        · left
          refine ⟨h1, ?_⟩
          intro p q hpq hp
          have hp' : p = sub := by
            rw [hsplit, hpre] at hpq
            simp only [List.nil_append] at hpq
            cases p with
            | nil => exact absurd rfl hp
            | cons a p' =>
              cases p' with
              | nil =>
                cases q with
                | nil => rw [hsplit, hpre]; simpa using hpq.symm
                | cons _ _ => simp at hpq
              | cons _ _ => simp at hpq
          rw [hp']; exact hnone hs
        · exact absurd (longestPrefix_nil w t n) h1
      · have hemp' : sub.dropLast.isEmpty = false := by
          cases h : sub.dropLast with
          | nil => exact absurd h hpre
          | cons _ _ => rfl
        simp only [hemp', Bool.false_eq_true, if_false]
        by_cases hsrc : follow w (.ref t) sub.dropLast = .none
        · simp only [hsrc, if_true]
          rcases ih sub.dropLast hlen (fun _ => hsrc) with ⟨h1, h2⟩ | ⟨h1, h2, nxt, rest, h3, h4⟩
          · left
            refine ⟨h1, ?_⟩
            intro p q hpq hp
            by_cases hq : q = []
            · subst hq
              simp only [List.append_nil] at hpq
              rw [← hpq]; exact hnone hs
            · -- a proper prefix is a prefix of `dropLast`
              have hq' : q = q.dropLast ++ [q.getLast hq] := (List.dropLast_concat_getLast hq).symm
              have : sub.dropLast = p ++ q.dropLast := by
                have e : sub = (p ++ q.dropLast) ++ [q.getLast hq] := by
                  rw [List.append_assoc, ← hq']; exact hpq
                rw [e, List.dropLast_concat]
              exact h2 p q.dropLast this hp
          · right
            refine ⟨h1, h2, nxt, rest ++ [sub.getLast hs], ?_, h4⟩
            conv => lhs; rw [hsplit, h3]
            simp
        · simp only [hsrc, if_false]
          right
          refine ⟨hpre, hsrc, sub.getLast hs, [], hsplit, ?_⟩
          rw [← hsplit]; exact hnone hs

/-- **`_spec_to_obj` as written returns the dependencies of the walk from the root** -/
theorem specToObj_eq (w : PWorld) (t : Oid) (ht : t < w.objs.length) : ∀ (f : Nat) (path : List Name) (leaf : Name),
    path.length < f → (∀ n ∈ path, HasName w n ∧ ObjName w n ∧ n ≠ "param") → HasName w leaf → leaf ≠ "param" →
    specToObj w t f path leaf = .ok (depsRoot w t path leaf) := by
  intro f
  induction f with
  | zero => intro path leaf h; cases h
  | succ f ih =>
    intro path leaf hlen hpath hleaf hnp
    unfold specToObj
    by_cases hp : path = []
    · subst hp
      obtain ⟨v, hv⟩ := hleaf t ht
      simp [hv, depsRoot]
    · have hemp : path.isEmpty = false := by
        cases h : path with
        | nil => exact absurd h hp
        | cons _ _ => rfl
      simp only [hemp, Bool.false_eq_true, if_false]
      obtain ⟨n0, rest0, hpe⟩ := List.exists_cons_of_ne_nil hp
      obtain ⟨v0, hv0⟩ := (hpath n0 (by rw [hpe]; simp)).1 t ht
      have hhead : path.headD "" = n0 := by rw [hpe]; rfl
      rw [hhead, hv0]
      simp only
      have hsplit : path = path.dropLast ++ [path.getLast hp] := (List.dropLast_concat_getLast hp).symm
      have hobjs : ∀ n ∈ path, ObjName w n := fun n hn => (hpath n hn).2.1
      rcases follow_obj w path (.ref t) hp hobjs with hfol | ⟨src, hfol, hsrc⟩
      · -- the sub-object is not there: watch as far as the path resolves
        rw [hfol]
        simp only
        rcases longestPrefix_spec w t path.length path (Nat.le_refl _) (fun _ => hfol) with ⟨h1, h2⟩ | ⟨h1, h2, nxt, rest, h3, h4⟩
        · rw [h1]
          simp only [List.isEmpty_nil, if_true]
          have hroot := h2 [n0] rest0 (by rw [hpe]; rfl) (by simp)
          simp only [follow, attrOr, hv0, Option.getD_some] at hroot
          subst hroot
          simp [depsRoot, hpe, hv0]
        · have hemp2 : (longestPrefix w t path.length path).isEmpty = false := by
            cases h : longestPrefix w t path.length path with
            | nil => exact absurd h h1
            | cons _ _ => rfl
          simp only [hemp2, Bool.false_eq_true, if_false]
          generalize longestPrefix w t path.length path = sub at h1 h2 h3 h4
          have htake : path.take sub.length = sub := by rw [h3]; simp
          have hdrop : (path.drop sub.length).headD "" = nxt := by rw [h3]; simp
          rw [htake, hdrop]
          have hsubmem : ∀ n ∈ sub, n ∈ path := fun n hn => by rw [h3]; exact List.mem_append_left _ hn
          have hnxtmem : nxt ∈ path := by rw [h3]; simp
          rw [ih sub nxt (by
                have := congrArg List.length h3
                simp at this
                omega)
              (fun n hn => hpath n (hsubmem n hn)) (hpath nxt hnxtmem).1 (hpath nxt hnxtmem).2.2]
          -- both sides are the walk up to the first unresolved element
          rcases follow_obj w sub (.ref t) h1 (fun n hn => hobjs n (hsubmem n hn)) with hn | ⟨o, ho, _⟩
          · exact absurd hn h2
          · have hnx : attrOr w (.ref o) nxt = .none := by
              rw [follow_append, ho] at h4
              simpa [follow] using h4
            obtain ⟨s0, srest, hse⟩ := List.exists_cons_of_ne_nil h1
            have hn0 : s0 = n0 := by
              rw [h3, hse] at hpe
              simp only [List.cons_append, List.cons.injEq] at hpe
              exact hpe.1
            -- the root resolves (the prefix `sub` does)
            have hrootref : ∃ o1, v0 = .ref o1 := by
              rw [hse, hn0] at ho
              simp only [follow, attrOr, hv0, Option.getD_some] at ho
              cases v0 with
              | none => simp [follow_none] at ho
              | int i =>
                cases srest with
                | nil => simp [follow] at ho
                | cons _ _ => simp [follow_int w i _ (List.cons_ne_nil _ _)] at ho
              | ref o1 => exact ⟨o1, rfl⟩
            obtain ⟨o1, rfl⟩ := hrootref
            have e1 : depsRoot w t path leaf = depsFrom w t path leaf := by
              simp [depsRoot, hpe, hv0]
            have e2 : depsRoot w t sub nxt = depsFrom w t sub nxt := by
              simp [depsRoot, hse, hn0, hv0]
            rw [e1, e2]
            conv => rhs; rw [h3]
            exact congrArg _ (depsFrom_partial w leaf sub nxt rest t o ho hnx).symm
      · -- the whole path resolves
        rw [hfol]
        simp only [hnp, if_false]
        obtain ⟨vl, hvl⟩ := hleaf src hsrc
        rw [hvl]
        simp only
        have hlastmem : path.getLast hp ∈ path := List.getLast_mem hp
        have hdlmem : ∀ n ∈ path.dropLast, n ∈ path := fun n hn => List.dropLast_subset path hn
        have hgl : path.getLastD "" = path.getLast hp := by
          rw [List.getLastD_eq_getLast?, List.getLast?_eq_some_getLast hp]; rfl
        rw [hgl, ih path.dropLast (path.getLast hp) (by
              rw [List.length_dropLast]
              have : 0 < path.length := List.length_pos_iff.2 hp
              omega)
            (fun n hn => hpath n (hdlmem n hn)) (hpath _ hlastmem).1 (hpath _ hlastmem).2.2]
        simp only
        -- the root resolves
        have hrootref : ∃ o1, v0 = .ref o1 := by
          rw [hpe] at hfol
          simp only [follow, attrOr, hv0, Option.getD_some] at hfol
          cases v0 with
          | none => simp [follow_none] at hfol
          | int i =>
            cases rest0 with
            | nil => simp [follow] at hfol
            | cons _ _ => simp [follow_int w i _ (List.cons_ne_nil _ _)] at hfol
          | ref o1 => exact ⟨o1, rfl⟩
        obtain ⟨o1, rfl⟩ := hrootref
        have e1 : depsRoot w t path leaf = depsFrom w t path leaf := by
          simp [depsRoot, hpe, hv0]
        have e2 : depsRoot w t path.dropLast (path.getLast hp) = depsFrom w t path.dropLast (path.getLast hp) := by
          cases hd : path.dropLast with
          | nil => simp [depsRoot, depsFrom]
          | cons d0 drest =>
            have : d0 = n0 := by
              have a := congrArg List.head? hsplit
              have b := congrArg List.head? hpe
              rw [hd] at a
              simp only [List.cons_append, List.head?_cons] at a b
              rw [a] at b
              exact Option.some.inj b
            simp [depsRoot, this, hv0]
        rw [e1, e2]
        have hfol' : follow w (.ref t) (path.dropLast ++ [path.getLast hp]) = .ref src := by rw [← hsplit]; exact hfol
        have := depsFrom_snoc w (path.getLast hp) leaf path.dropLast t src hfol'
        rw [← hsplit] at this
        rw [this]

/-! ## Part 2: what `_watch_group` installs for one spec with a simple chain -/

/-- the observable shape of an installed watcher (ids and the `attribute` kept inside the callback
are not observable) -/
structure Shape where
  on : Oid
  params : List Name
  changed : Option (List (List Name))
  cb : Bool
  deriving Repr, DecidableEq

def shapeOf (x : DW) : Shape := ⟨x.on, x.params, x.changed, x.callback.isSome⟩

/-- the watchers one path spec needs, by a walk from `cur` at depth `depth`: an intermediate holder
gets the remaining path as filter and (below the root) the rebinding callback; the last object gets
the leaf, no filter, no callback -/
def builtFrom (w : PWorld) : Oid → Nat → List Name → Name → List Shape
  | cur, _, [], leaf => [⟨cur, [leaf], none, false⟩]
  | cur, depth, n :: rest, leaf =>
    ⟨cur, [n], some [rest ++ [leaf]], decide (0 < depth)⟩ ::
      (match getParam w cur n with
       | some (.ref o) => builtFrom w o (depth + 1) rest leaf
       | _ => [])

def built (w : PWorld) (t : Oid) (s : PathSpec) : List Shape :=
  match s.path with
  | [] => []
  | n :: _ =>
    match getParam w t n with
    | some (.ref _) => builtFrom w t 0 s.path s.leaf
    | _ => []

theorem builtFrom_congr {w w' : PWorld} (h : SameGraph w w') : ∀ (p : List Name) (cur : Oid) (d : Nat) (leaf : Name),
    builtFrom w' cur d p leaf = builtFrom w cur d p leaf := by
  intro p
  induction p with
  | nil => intro cur d leaf; rfl
  | cons n rest ih =>
    intro cur d leaf
    simp only [builtFrom, getParam_congr h]
    split <;> simp [ih]

theorem built_congr {w w' : PWorld} (h : SameGraph w w') (t : Oid) (s : PathSpec) : built w' t s = built w t s := by
  unfold built
  split
  · rfl
  · simp only [getParam_congr h]
    split <;> simp [builtFrom_congr h]

theorem builtFrom_deps (w : PWorld) : ∀ (p : List Name) (cur : Oid) (d : Nat) (leaf : Name),
    (builtFrom w cur d p leaf).map (fun sh => (sh.on, sh.params)) = (depsFrom w cur p leaf).map (fun x => (x.1, [x.2])) := by
  intro p
  induction p with
  | nil => intro cur d leaf; rfl
  | cons n rest ih =>
    intro cur d leaf
    simp only [builtFrom, depsFrom, List.map_cons]
    split <;> simp [ih]

/-- the body of `_resolve_dynamic_deps` on explicit `subobjs` and spec elements -/
def rddCore (subobjs : List Val) (elems : List Name) (depObj : Oid) (attrib : Option Name) :
    Option (List (List Name)) × Option (Option Name) :=
  if !(subobjs.dropLast.contains (.ref depObj)) then (none, none)
  else (some [elems.drop (indexOfVal subobjs (.ref depObj) + 1)],
        if indexOfVal subobjs (.ref depObj) > 0 then some attrib else none)

theorem drop_snoc_ne_param (l : List Name) (x : Name) (hx : x ≠ "param") (k : Nat) : (l ++ [x]).drop k ≠ ["param"] := by
  intro h
  have h1 : ((l ++ [x]).drop k).getLast? = some "param" := by rw [h]; rfl
  by_cases hk : k < (l ++ [x]).length
  · rw [List.getLast?_drop, if_neg (by omega)] at h1
    simp at h1
    exact hx h1
  · rw [List.drop_of_length_le (by omega)] at h
    cases h

theorem resolveDynamicDeps_core (w : PWorld) (t : Oid) (s : PathSpec) (o : Oid) (attrib : Option Name)
    (hleaf : s.leaf ≠ "param") :
    resolveDynamicDeps w t s o attrib = .ok (rddCore (chain w (.ref t) s.path) s.elems o attrib) := by
  unfold resolveDynamicDeps rddCore
  simp only
  split
  · rfl
  · rw [if_neg]
    exact drop_snoc_ne_param s.path s.leaf hleaf _

theorem dropLast_append_cons_ne {α : Type} (a : List α) (x : α) (b : List α) (hb : b ≠ []) :
    (a ++ x :: b).dropLast = a ++ x :: b.dropLast := by
  induction a with
  | nil =>
    cases b with
    | nil => exact absurd rfl hb
    | cons y ys => simp
  | cons z zs ih =>
    cases h : zs ++ x :: b with
    | nil => simp at h
    | cons _ _ => simp [List.dropLast, ih]

theorem indexOfVal_append (pre : List Val) (v : Val) (tail : List Val) (h : v ∉ pre) :
    indexOfVal (pre ++ v :: tail) v = pre.length := by
  unfold indexOfVal
  induction pre with
  | nil => simp [List.findIdx_cons]
  | cons a rest ih =>
    have hne : ¬ a = v := fun e => h (by simp [e])
    have := ih (fun hh => h (List.mem_cons_of_mem _ hh))
    simp [List.findIdx_cons, hne, this]

/-- filter and callback of every dependency of the walk, position by position -/
theorem rdd_gen (w : PWorld) (attrib : Option Name) (leaf : Name) : ∀ (rest : List Name) (pre : List Val)
    (prePath : List Name) (cur : Oid),
    pre.length = prePath.length → (∀ o ∈ chainObjsFrom w cur rest, Val.ref o ∉ pre) → (chainObjsFrom w cur rest).Nodup →
    (depsFrom w cur rest leaf).map (fun d => rddCore (pre ++ chain w (.ref cur) rest) (prePath ++ rest ++ [leaf]) d.1 attrib) =
      (builtFrom w cur pre.length rest leaf).map (fun sh => (sh.changed, if sh.cb then some attrib else none)) := by
  intro rest
  induction rest with
  | nil =>
    intro pre prePath cur _ hpre _
    have hnot : Val.ref cur ∉ pre := hpre cur (by simp [chainObjsFrom])
    simp [depsFrom, builtFrom, chain, rddCore, hnot]
  | cons n rest' ih =>
    intro pre prePath cur hlen hpre hnd
    have hcur : Val.ref cur ∉ pre := hpre cur (by simp [chainObjsFrom])
    have htail : chain w (attrOr w (.ref cur) n) rest' ≠ [] := chain_ne_nil _ _ _
    have hfirst : rddCore (pre ++ chain w (.ref cur) (n :: rest')) (prePath ++ (n :: rest') ++ [leaf]) cur attrib =
        (some [rest' ++ [leaf]], if decide (0 < pre.length) then some attrib else none) := by
      unfold rddCore
      simp only [chain, dropLast_append_cons_ne _ _ _ htail, indexOfVal_append _ _ _ hcur]
      have hc : (pre ++ Val.ref cur :: (chain w (attrOr w (Val.ref cur) n) rest').dropLast).contains (Val.ref cur) = true := by
        simp
      simp only [hc, Bool.not_true, Bool.false_eq_true, if_false]
      have hdrop : (prePath ++ (n :: rest') ++ [leaf]).drop (pre.length + 1) = rest' ++ [leaf] := by
        rw [hlen, List.append_assoc, List.drop_append, List.drop_of_length_le (by omega)]
        simp
      rw [hdrop]
      by_cases hz : 0 < pre.length <;> simp [hz]
    simp only [depsFrom, builtFrom, List.map_cons, hfirst]
    congr 1
    simp only [chainObjsFrom, List.nodup_cons] at hnd
    cases hg : getParam w cur n with
    | none => simp
    | some v =>
      cases v with
      | none => simp
      | int i => simp
      | ref o =>
        simp only
        have hattr : attrOr w (.ref cur) n = .ref o := by simp [attrOr, hg]
        have hsub : chainObjsFrom w cur (n :: rest') = cur :: chainObjsFrom w o rest' := by simp [chainObjsFrom, hg]
        rw [hg] at hnd
        have := ih (pre ++ [.ref cur]) (prePath ++ [n]) o (by simp [hlen])
          (by
            intro o' ho' hin
            rcases List.mem_append.1 hin with h1 | h1
            · exact hpre o' (by rw [hsub]; exact List.mem_cons_of_mem _ ho') h1
            · simp at h1
              subst h1
              exact hnd.1 ho')
          hnd.2
        simp only [List.length_append, List.length_cons, List.length_nil, Nat.zero_add] at this
        simp only [chain, hattr]
        rw [show pre ++ Val.ref cur :: chain w (Val.ref o) rest' = (pre ++ [Val.ref cur]) ++ chain w (Val.ref o) rest' by simp,
          show prePath ++ n :: rest' ++ [leaf] = (prePath ++ [n]) ++ rest' ++ [leaf] by simp]
        exact this

/-! ### grouping: dependencies on distinct objects form singleton groups -/

theorem addToGroups_new (s : PathSpec) (o : Oid) (n : Name) : ∀ (acc : List Group), o ∉ acc.map (·.1) →
    addToGroups acc s (o, n) = acc ++ [(o, [(s, n)])] := by
  intro acc
  induction acc with
  | nil => intro _; rfl
  | cons g rest ih =>
    intro h
    obtain ⟨k, l⟩ := g
    simp only [List.map_cons, List.mem_cons, not_or] at h
    have : ¬ k = o := fun e => h.1 e.symm
    simp [addToGroups, this, ih h.2]

theorem foldl_addToGroups (s : PathSpec) : ∀ (deps : List (Oid × Name)) (acc : List Group),
    (deps.map (·.1)).Nodup → (∀ d ∈ deps, d.1 ∉ acc.map (·.1)) →
    deps.foldl (fun acc d => addToGroups acc s d) acc = acc ++ deps.map (fun d => (d.1, [(s, d.2)])) := by
  intro deps
  induction deps with
  | nil => intro acc _ _; simp
  | cons d rest ih =>
    intro acc hn hacc
    obtain ⟨o, n⟩ := d
    simp only [List.map_cons, List.nodup_cons] at hn
    simp only [List.foldl_cons]
    rw [addToGroups_new s o n acc (hacc (o, n) (by simp))]
    rw [ih _ hn.2 (by
      intro d hd hin
      simp only [List.map_append, List.map_cons, List.map_nil, List.mem_append, List.mem_singleton] at hin
      rcases hin with h1 | h1
      · exact hacc d (List.mem_cons_of_mem _ hd) h1
      · exact hn.1 (h1 ▸ List.mem_map.2 ⟨d, hd, rfl⟩))]
    simp

/-! ### `_watch_group` over singleton groups -/

/-- the watchers installed for singleton groups, with their filters/callbacks -/
def mkWatchers (t : Oid) (m : Name) : Nat → List (Oid × Name) → List (Option (List (List Name)) × Option (Option Name)) → List DW
  | next, d :: ds, r :: rs => ⟨next, d.1, [d.2], t, m, r.1, r.2⟩ :: mkWatchers t m (next + 1) ds rs
  | _, _, _ => []

theorem dynGet_dynAppend (d : List ((Oid × Name) × List Nat)) (k : Oid × Name) (i : Nat) :
    dynGet (dynAppend d k i) k = dynGet d k ++ [i] ∧
    (∀ e ∈ dynAppend d k i, e.1 = k ∨ ∃ e' ∈ d, e'.1 = e.1) := by
  induction d with
  | nil => simp [dynAppend, dynGet]
  | cons e rest ih =>
    obtain ⟨k', l⟩ := e
    by_cases hk : k' = k
    · subst hk
      refine ⟨by simp [dynAppend, dynGet], ?_⟩
      intro e he
      simp only [dynAppend, if_true, List.mem_cons] at he
      rcases he with rfl | he
      · exact Or.inl rfl
      · exact Or.inr ⟨e, List.mem_cons_of_mem _ he, rfl⟩
    · have hk' : ¬ k = k' := fun e => hk e.symm
      simp only [dynAppend, hk, if_false]
      constructor
      · have := ih.1
        simp only [dynGet, List.find?_cons, hk, decide_false] at this ⊢
        exact this
      · intro e he
        rcases List.mem_cons.1 he with rfl | he'
        · exact Or.inr ⟨(k', l), by simp, rfl⟩
        · rcases ih.2 e he' with h1 | ⟨e', h1, h2⟩
          · exact Or.inl h1
          · exact Or.inr ⟨e', List.mem_cons_of_mem _ h1, h2⟩

theorem watchGroups_singletons (w : PWorld) (t : Oid) (m : Name) (attrib : Option Name) (s : PathSpec) :
    ∀ (deps : List (Oid × Name)) (res : List (Option (List (List Name)) × Option (Option Name))) (w0 : PWorld),
    SameGraph w w0 → deps.map (fun d => resolveDynamicDeps w t s d.1 attrib) = res.map Except.ok →
    (∀ e ∈ w0.dyn, e.1 = (t, m)) →
    ∃ w', watchGroups w0 t m attrib (deps.map (fun d => (d.1, [(s, d.2)]))) = .ok w' ∧ SameGraph w w' ∧ w'.log = w0.log ∧
      w'.watchers = w0.watchers ++ mkWatchers t m w0.nextId deps res ∧
      dynGet w'.dyn (t, m) = dynGet w0.dyn (t, m) ++ (mkWatchers t m w0.nextId deps res).map (·.id) ∧
      (∀ e ∈ w'.dyn, e.1 = (t, m)) := by
  intro deps
  induction deps with
  | nil =>
    intro res w0 hg _ hd
    exact ⟨w0, rfl, hg, rfl, by simp [mkWatchers], by simp [mkWatchers], hd⟩
  | cons d rest ih =>
    intro res w0 hg hres hd
    cases res with
    | nil => simp at hres
    | cons r rs =>
      simp only [List.map_cons, List.cons.injEq] at hres
      obtain ⟨hr, hrs⟩ := hres
      simp only [List.map_cons, watchGroups, watchGroup]
      have hrdd : resolveDynamicDeps w0 t s d.1 attrib = .ok r := by
        rw [← hr]
        unfold resolveDynamicDeps
        simp only [chain_congr hg, classOf_congr hg]
      rw [hrdd]
      simp only [dedupNames, List.map_nil, List.not_mem_nil, if_false, List.nil_append]
      have hd1 := dynGet_dynAppend w0.dyn (t, m) w0.nextId
      obtain ⟨w', h1, h2, h3, h4, h5, h6⟩ := ih rs
        { w0 with watchers := w0.watchers ++ [⟨w0.nextId, d.1, [d.2], t, m, r.1, r.2⟩], nextId := w0.nextId + 1,
                  dyn := dynAppend w0.dyn (t, m) w0.nextId }
        ⟨hg.1, hg.2⟩ hrs (by
          intro e he
          rcases hd1.2 e he with h | ⟨e', he', h⟩
          · exact h
          · rw [← h]; exact hd e' he')
      refine ⟨w', h1, h2, h3, ?_, ?_, h6⟩
      · rw [h4]; simp [mkWatchers]
      · rw [h5, hd1.1]; simp [mkWatchers]

theorem mkWatchers_shapes (t : Oid) (m : Name) : ∀ (deps : List (Oid × Name))
    (res : List (Option (List (List Name)) × Option (Option Name))) (next : Nat), deps.length = res.length →
    (mkWatchers t m next deps res).map shapeOf =
      (deps.zip res).map (fun dr => ⟨dr.1.1, [dr.1.2], dr.2.1, dr.2.2.isSome⟩) ∧
    (mkWatchers t m next deps res).map (·.id) = List.range' next deps.length ∧
    (∀ x ∈ mkWatchers t m next deps res, x.owner = t ∧ x.method = m ∧ (∃ n, x.params = [n]) ∧
      x.callback ∈ res.map (·.2)) := by
  intro deps
  induction deps with
  | nil => intro res next _; simp [mkWatchers]
  | cons d rest ih =>
    intro res next hl
    cases res with
    | nil => simp at hl
    | cons r rs =>
      obtain ⟨h1, h2, h3⟩ := ih rs (next + 1) (by simpa using hl)
      refine ⟨by simp [mkWatchers, shapeOf, h1], by simp [mkWatchers, h2, List.range'_succ], ?_⟩
      intro x hx
      simp only [mkWatchers, List.mem_cons] at hx
      rcases hx with rfl | hx
      · exact ⟨rfl, rfl, ⟨d.2, rfl⟩, by simp⟩
      · obtain ⟨a, b, c, e⟩ := h3 x hx
        exact ⟨a, b, c, by simp only [List.map_cons, List.mem_cons]; exact Or.inr e⟩

/-! ## Part 3: `_update_deps` rebuilds exactly the watchers the current graph needs -/

/-- scope of the C07 theorems: `t` is the only object whose class has dependent methods, that class
has the single method `m` with the single path spec `s` whose leaf is an ordinary Parameter, every
object has the parameters the spec names, path parameters hold `None` or an existing object -/
structure Scope (w : PWorld) (t : Oid) (m : Name) (s : PathSpec) : Prop where
  tcls : ∃ ct, classOf w t = some ct ∧ ct.methods = [⟨m, [s]⟩]
  others : ∀ o c, o ≠ t → classOf w o = some c → c.methods = []
  leaf : s.leaf ≠ "param"
  path : s.path ≠ []
  names : ∀ n ∈ s.path, HasName w n ∧ ObjName w n ∧ n ≠ "param"
  hasLeaf : HasName w s.leaf

theorem HasName.congr {w w' : PWorld} (h : SameGraph w w') {n : Name} (hn : HasName w n) : HasName w' n := by
  intro o ho
  rw [getParam_congr h]
  exact hn o (by rw [← h.1]; exact ho)

theorem ObjName.congr {w w' : PWorld} (h : SameGraph w w') {n : Name} (hn : ObjName w n) : ObjName w' n := by
  intro o v hv
  rw [getParam_congr h] at hv
  rcases hn o v hv with h1 | ⟨o', h1, h2⟩
  · exact Or.inl h1
  · exact Or.inr ⟨o', h1, by rw [h.1]; exact h2⟩

theorem Scope.congr {w w' : PWorld} {t : Oid} {m : Name} {s : PathSpec} (h : SameGraph w w') (hs : Scope w t m s) :
    Scope w' t m s :=
  ⟨by simpa [classOf_congr h] using hs.tcls, fun o c ho hc => hs.others o c ho (by rw [← classOf_congr h]; exact hc),
   hs.leaf, hs.path, fun n hn => ⟨(hs.names n hn).1.congr h, (hs.names n hn).2.1.congr h, (hs.names n hn).2.2⟩,
   hs.hasLeaf.congr h⟩

/-- the watchers of `t.m` are exactly those the current graph needs, all recorded in `dynamic_watchers` -/
structure Installed (w : PWorld) (t : Oid) (m : Name) (s : PathSpec) : Prop where
  shapes : w.watchers.map shapeOf = built w t s
  owned : ∀ x ∈ w.watchers, x.owner = t ∧ x.method = m ∧ x.id ∈ dynGet w.dyn (t, m)
  cbs : ∀ x ∈ w.watchers, ∀ a, x.callback = some a → a = none ∨ a = some s.root
  dynKeys : ∀ e ∈ w.dyn, e.1 = (t, m)

theorem zip_rebuild : ∀ (B : List Shape) (D : List (Oid × Name)) (R : List (Option (List (List Name)) × Option (Option Name)))
    (a : Option Name),
    D.map (fun d => (d.1, [d.2])) = B.map (fun sh => (sh.on, sh.params)) →
    R = B.map (fun sh => (sh.changed, if sh.cb then some a else none)) →
    (D.zip R).map (fun dr => (⟨dr.1.1, [dr.1.2], dr.2.1, dr.2.2.isSome⟩ : Shape)) = B := by
  intro B
  induction B with
  | nil => intro D R a hd hr; subst hr; simp
  | cons b rest ih =>
    intro D R a hd hr
    cases D with
    | nil => simp at hd
    | cons d ds =>
      subst hr
      simp only [List.map_cons, List.cons.injEq, Prod.mk.injEq] at hd
      obtain ⟨⟨h1, h2⟩, h3⟩ := hd
      simp only [List.map_cons, List.zip_cons_cons, List.cons.injEq]
      refine ⟨?_, ih ds _ a h3 rfl⟩
      cases b
      simp_all
      split <;> simp_all

theorem classOf_lt {w : PWorld} {t : Oid} {c : PClass} (h : classOf w t = some c) : t < w.objs.length := by
  unfold classOf at h
  rcases Nat.lt_or_ge t w.objs.length with h1 | h1
  · exact h1
  · rw [List.getElem?_eq_none h1] at h; cases h

/-- **the rebuild**: with every installed watcher recorded in `dynamic_watchers[m]`, an
`_update_deps(attribute)` that applies (`attribute` is `None` or the root of the spec) removes them all
and installs exactly the watchers the current graph needs -/
theorem rebuild_gen (w : PWorld) (t : Oid) (m : Name) (s : PathSpec) (attrib : Option Name) (init : Bool)
    (hs : Scope w t m s) (hsimple : (chainObjsFrom w t s.path).Nodup)
    (hown : ∀ x ∈ w.watchers, x.id ∈ dynGet w.dyn (t, m)) (hkeys : ∀ e ∈ w.dyn, e.1 = (t, m))
    (hattr : attrib = none ∨ attrib = some s.root) (hinit : init = true → w.watchers = [] ∧ w.dyn = []) :
    ∃ w', updateDeps w t attrib init = .ok w' ∧ SameGraph w w' ∧ w'.log = w.log ∧ Installed w' t m s := by
  obtain ⟨ct, hct, hm⟩ := hs.tcls
  have htl : t < w.objs.length := classOf_lt hct
  -- the state after `dynamic_watchers.pop(method)` and the `unwatch` loop
  have hfilter : ([s].filter (fun s' => match attrib with | none => true | some a => s'.root = a)) = [s] := by
    rcases hattr with rfl | rfl <;> simp
  have hw1 : ({ w with watchers := w.watchers.filter (fun x => !((dynGet w.dyn (t, m)).contains x.id)),
                       dyn := w.dyn.filter (fun e => e.1 ≠ (t, m)) } : PWorld) =
             { w with watchers := [], dyn := [] } := by
    have h1 : w.watchers.filter (fun x => !((dynGet w.dyn (t, m)).contains x.id)) = [] := by
      rw [List.filter_eq_nil_iff]
      intro x hx
      simp [hown x hx]
    have h2 : w.dyn.filter (fun e => e.1 ≠ (t, m)) = [] := by
      rw [List.filter_eq_nil_iff]
      intro e he
      simp [hkeys e he]
    rw [h1, h2]
  generalize hw1def : ({ w with watchers := [], dyn := [] } : PWorld) = w1 at hw1
  have hg1 : SameGraph w w1 := by subst hw1def; exact ⟨rfl, rfl⟩
  have hs1 : Scope w1 t m s := hs.congr hg1
  have hdeps : specToObj w1 t (s.path.length + 1) s.path s.leaf = .ok (depsRoot w1 t s.path s.leaf) :=
    specToObj_eq w1 t (by rw [hg1.1]; exact htl) _ s.path s.leaf (Nat.lt_succ_self _) hs1.names hs1.hasLeaf hs1.leaf
  have hsimple1 : (chainObjsFrom w1 t s.path).Nodup := by rw [chainObjsFrom_congr hg1]; exact hsimple
  -- the dependencies sit on pairwise distinct objects
  have hnd : ((depsRoot w1 t s.path s.leaf).map (·.1)).Nodup := by
    unfold depsRoot
    split
    · simp
    · split
      · rw [depsFrom_fst]; exact hsimple1
      · simp
  have hgroups : groupSpecs w1 t [] [s] = .ok ((depsRoot w1 t s.path s.leaf).map (fun d => (d.1, [(s, d.2)]))) := by
    simp only [groupSpecs, hdeps]
    rw [foldl_addToGroups s _ [] hnd (by simp)]
    simp
  -- filters and callbacks
  let res := (depsRoot w1 t s.path s.leaf).map (fun d => rddCore (chain w1 (.ref t) s.path) s.elems d.1 attrib)
  have hres : (depsRoot w1 t s.path s.leaf).map (fun d => resolveDynamicDeps w1 t s d.1 attrib) = res.map Except.ok := by
    simp only [res, List.map_map]
    apply List.map_congr_left
    intro d _
    exact resolveDynamicDeps_core w1 t s d.1 attrib hs1.leaf
  obtain ⟨w', h1, h2, h3, h4, h5, h6⟩ := watchGroups_singletons w1 t m attrib s _ res w1 (SameGraph.refl _) hres
    (by subst hw1def; simp)
  have hlen : (depsRoot w1 t s.path s.leaf).length = res.length := by simp [res]
  obtain ⟨m1, m2, m3⟩ := mkWatchers_shapes t m (depsRoot w1 t s.path s.leaf) res w1.nextId hlen
  have hwat1 : w1.watchers = [] := by subst hw1def; rfl
  have hdyn1 : dynGet w1.dyn (t, m) = [] := by subst hw1def; rfl
  refine ⟨w', ?_, hg1.trans h2, ?_, ?_⟩
  · unfold updateDeps
    rw [hct]
    simp only [hm, updateEntries, updateEntry]
    have hf2 : ∀ (f : PathSpec → Bool), f s = true → [s].filter f = [s] := by intro f h; simp [h]
    rw [hf2 _ (by rcases hattr with rfl | rfl <;> simp)]
    simp only [List.isEmpty_cons, Bool.and_false, Bool.false_eq_true, if_false]
    have hw1' : (if init = true then w else
        { w with watchers := w.watchers.filter (fun x => !((dynGet w.dyn (t, m)).contains x.id)),
                 dyn := w.dyn.filter (fun e => e.1 ≠ (t, m)) }) = w1 := by
      cases init with
      | false => simpa using hw1
      | true =>
        obtain ⟨e1, e2⟩ := hinit rfl
        rw [← hw1def]
        cases w
        simp_all
    rw [hw1', hgroups]
    simp only [h1]
  · rw [h3]; subst hw1def; rfl
  · rw [hwat1, List.nil_append] at h4
    refine ⟨?_, ?_, ?_, h6⟩
    · rw [h4, m1, built_congr h2]
      -- position by position: holder/parameter from the walk, filter/callback from `rdd_gen`
      obtain ⟨n0, rest0, hpe⟩ := List.exists_cons_of_ne_nil hs.path
      have hbuilt : built w1 t s = (match getParam w1 t n0 with
          | some (.ref _) => builtFrom w1 t 0 s.path s.leaf | _ => []) := by
        simp only [built, hpe]
      have hroot' : depsRoot w1 t s.path s.leaf = (match getParam w1 t n0 with
          | some (.ref _) => depsFrom w1 t s.path s.leaf | _ => []) := by
        simp only [depsRoot, hpe]
      rw [hbuilt]
      simp only [res, hroot']
      cases hroot : getParam w1 t n0 with
      | none => simp
      | some v =>
        cases v with
        | none => simp
        | int i => simp
        | ref o1 =>
          simp only
          apply zip_rebuild _ _ _ attrib
          · exact (builtFrom_deps w1 s.path t 0 s.leaf).symm
          · have := rdd_gen w1 attrib s.leaf s.path [] [] t rfl (by simp) hsimple1
            simp only [List.nil_append, List.length_nil] at this
            exact this
    · intro x hx
      rw [h4] at hx
      obtain ⟨a, b, _, _⟩ := m3 x hx
      refine ⟨a, b, ?_⟩
      rw [h5, hdyn1, List.nil_append]
      exact List.mem_map.2 ⟨x, hx, rfl⟩
    · intro x hx a ha
      rw [h4] at hx
      obtain ⟨_, _, _, hc⟩ := m3 x hx
      rw [ha] at hc
      obtain ⟨r, hr, hr2⟩ := List.mem_map.1 hc
      simp only [res, List.mem_map] at hr
      obtain ⟨d, _, rfl⟩ := hr
      unfold rddCore at hr2
      split at hr2
      · simp at hr2
      · simp only at hr2
        split at hr2
        · simp only [Option.some.injEq] at hr2
          subst hr2
          exact hattr
        · simp at hr2

theorem rebuild (w : PWorld) (t : Oid) (m : Name) (s : PathSpec) (attrib : Option Name)
    (hs : Scope w t m s) (hsimple : (chainObjsFrom w t s.path).Nodup)
    (hown : ∀ x ∈ w.watchers, x.id ∈ dynGet w.dyn (t, m)) (hkeys : ∀ e ∈ w.dyn, e.1 = (t, m))
    (hattr : attrib = none ∨ attrib = some s.root) :
    ∃ w', updateDeps w t attrib false = .ok w' ∧ SameGraph w w' ∧ w'.log = w.log ∧ Installed w' t m s :=
  rebuild_gen w t m s attrib false hs hsimple hown hkeys hattr (fun h => by cases h)

end ParamVerif.Depends
