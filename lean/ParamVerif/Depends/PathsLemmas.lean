/-
Helper lemmas for C07 (Paths.lean).  The property theorems are in Props/C07.lean.

Part 1: reading the graph; the dependencies `_spec_to_obj` returns, characterised by a walk from the
root (`depsFrom`) instead of the recursion on the prefix of the path the code uses.
-/
import ParamVerif.Depends.PathsSpec

namespace ParamVerif.Depends

/-! ### reading functions only look at objects and classes -/

/-- two worlds with the same object graph -/
def SameGraph (w w' : PWorld) : Prop := w'.objs = w.objs ∧ w'.classes = w.classes

theorem SameGraph.refl (w : PWorld) : SameGraph w w := ⟨rfl, rfl⟩
theorem SameGraph.trans {a b c : PWorld} (h1 : SameGraph a b) (h2 : SameGraph b c) : SameGraph a c :=
  ⟨h2.1.trans h1.1, h2.2.trans h1.2⟩
theorem SameGraph.symm {a b : PWorld} (h : SameGraph a b) : SameGraph b a := ⟨h.1.symm, h.2.symm⟩

theorem getParam_congr {w w' : PWorld} (h : SameGraph w w') (o : Oid) (n : Name) : getParam w' o n = getParam w o n := by
  simp [getParam, h.1]

theorem classOf_congr {w w' : PWorld} (h : SameGraph w w') (o : Oid) : classOf w' o = classOf w o := by
  simp [classOf, h.1, h.2]

theorem attrOr_congr {w w' : PWorld} (h : SameGraph w w') (v : Val) (n : Name) : attrOr w' v n = attrOr w v n := by
  cases v <;> simp [attrOr, getParam_congr h]

theorem follow_congr {w w' : PWorld} (h : SameGraph w w') : ∀ (p : List Name) (v : Val), follow w' v p = follow w v p := by
  intro p
  induction p with
  | nil => intro v; rfl
  | cons n rest ih => intro v; simp [follow, attrOr_congr h, ih]

theorem chain_congr {w w' : PWorld} (h : SameGraph w w') : ∀ (p : List Name) (v : Val), chain w' v p = chain w v p := by
  intro p
  induction p with
  | nil => intro v; rfl
  | cons n rest ih => intro v; simp [chain, attrOr_congr h, ih]

/-! ### `follow` / `chain` basics -/

theorem follow_none (w : PWorld) : ∀ (p : List Name), follow w .none p = .none := by
  intro p
  induction p with
  | nil => rfl
  | cons n rest ih => simp [follow, attrOr, ih]

theorem follow_int (w : PWorld) (i : Int) : ∀ (p : List Name), p ≠ [] → follow w (.int i) p = .none := by
  intro p hp
  cases p with
  | nil => exact absurd rfl hp
  | cons n rest => simp [follow, attrOr, follow_none]

theorem follow_append (w : PWorld) : ∀ (p q : List Name) (v : Val), follow w v (p ++ q) = follow w (follow w v p) q := by
  intro p
  induction p with
  | nil => intro q v; rfl
  | cons n rest ih => intro q v; simp [follow, ih]

theorem chain_ne_nil (w : PWorld) (v : Val) (p : List Name) : chain w v p ≠ [] := by
  cases p <;> simp [chain]

theorem chain_length (w : PWorld) : ∀ (p : List Name) (v : Val), (chain w v p).length = p.length + 1 := by
  intro p
  induction p with
  | nil => intro v; rfl
  | cons n rest ih => intro v; simp [chain, ih]

/-! ### the walk from the root -/

/-- the objects whose parameters are read while resolving a path from `cur`: `cur`, then the object
held by `cur.n`, … as far as the path resolves -/
def chainObjsFrom (w : PWorld) : Oid → List Name → List Oid
  | cur, [] => [cur]
  | cur, n :: rest =>
    cur :: (match getParam w cur n with
            | some (.ref o) => chainObjsFrom w o rest
            | _ => [])

/-- the dependencies of a path from `cur`: every (holder, parameter) read, as far as it resolves, and
the leaf on the last object when it resolves entirely -/
def depsFrom (w : PWorld) : Oid → List Name → Name → List (Oid × Name)
  | cur, [], leaf => [(cur, leaf)]
  | cur, n :: rest, leaf =>
    (cur, n) :: (match getParam w cur n with
                 | some (.ref o) => depsFrom w o rest leaf
                 | _ => [])

/-- … but nothing at all when the first sub-object is missing (`_spec_to_obj` finds no prefix that
resolves) -/
def depsRoot (w : PWorld) (t : Oid) (path : List Name) (leaf : Name) : List (Oid × Name) :=
  match path with
  | [] => [(t, leaf)]
  | n :: _ =>
    match getParam w t n with
    | some (.ref _) => depsFrom w t path leaf
    | _ => []

/-- every object reachable along the path has every parameter the spec names, and the parameters of
the path hold `None` or an existing object -/
structure Typed (w : PWorld) (s : PathSpec) : Prop where
  has : ∀ o, o < w.objs.length → ∀ n ∈ s.elems, ∃ v, getParam w o n = some v
  obj : ∀ o n v, n ∈ s.path → getParam w o n = some v → v = .none ∨ ∃ o', v = .ref o' ∧ o' < w.objs.length

theorem Typed.congr {w w' : PWorld} {s : PathSpec} (h : SameGraph w w') (ht : Typed w s) : Typed w' s :=
  ⟨fun o ho n hn => by rw [getParam_congr h]; exact ht.has o (by rw [← h.1]; exact ho) n hn,
   fun o n v hn hv => by
     rw [getParam_congr h] at hv
     rcases ht.obj o n v hn hv with h1 | ⟨o', h1, h2⟩
     · exact Or.inl h1
     · exact Or.inr ⟨o', h1, by rw [h.1]; exact h2⟩⟩

theorem depsFrom_congr {w w' : PWorld} (h : SameGraph w w') : ∀ (p : List Name) (cur : Oid) (leaf : Name),
    depsFrom w' cur p leaf = depsFrom w cur p leaf := by
  intro p
  induction p with
  | nil => intro cur leaf; rfl
  | cons n rest ih =>
    intro cur leaf
    simp only [depsFrom, getParam_congr h]
    split <;> simp [ih]

theorem chainObjsFrom_congr {w w' : PWorld} (h : SameGraph w w') : ∀ (p : List Name) (cur : Oid),
    chainObjsFrom w' cur p = chainObjsFrom w cur p := by
  intro p
  induction p with
  | nil => intro cur; rfl
  | cons n rest ih =>
    intro cur
    simp only [chainObjsFrom, getParam_congr h]
    split <;> simp [ih]

/-- the holders of the dependencies are the chain objects -/
theorem depsFrom_fst (w : PWorld) : ∀ (p : List Name) (cur : Oid) (leaf : Name),
    (depsFrom w cur p leaf).map (·.1) = chainObjsFrom w cur p := by
  intro p
  induction p with
  | nil => intro cur leaf; rfl
  | cons n rest ih =>
    intro cur leaf
    simp only [depsFrom, chainObjsFrom, List.map_cons]
    split <;> simp [ih]

/-- when the whole path resolves, appending one more element to it appends one dependency -/
theorem depsFrom_snoc (w : PWorld) (l leaf : Name) : ∀ (pre : List Name) (cur src : Oid),
    follow w (.ref cur) (pre ++ [l]) = .ref src →
    depsFrom w cur (pre ++ [l]) leaf = depsFrom w cur pre l ++ [(src, leaf)] := by
  intro pre
  induction pre with
  | nil =>
    intro cur src hf
    simp only [List.nil_append, follow, attrOr] at hf
    simp only [List.nil_append, depsFrom]
    cases hg : getParam w cur l with
    | none => rw [hg] at hf; simp at hf
    | some v =>
      rw [hg] at hf
      simp only [Option.getD_some] at hf
      subst hf
      simp
  | cons n rest ih =>
    intro cur src hf
    simp only [List.cons_append, follow] at hf
    simp only [List.cons_append, depsFrom]
    cases hg : getParam w cur n with
    | none =>
      simp only [attrOr, hg, Option.getD_none] at hf
      rw [follow_none] at hf; cases hf
    | some v =>
      cases v with
      | none =>
        simp only [attrOr, hg, Option.getD_some] at hf
        rw [follow_none] at hf; cases hf
      | int i =>
        simp only [attrOr, hg, Option.getD_some] at hf
        rw [follow_int w i _ (by simp)] at hf; cases hf
      | ref o =>
        simp only [attrOr, hg, Option.getD_some] at hf
        simp [ih o src hf]

/-- when the path resolves up to `sub` (non-empty) and no further, the dependencies are those of the
shorter spec that ends at the first unresolved element -/
theorem depsFrom_partial (w : PWorld) (leaf : Name) : ∀ (sub : List Name) (nxt : Name) (rest : List Name) (cur o : Oid),
    follow w (.ref cur) sub = .ref o → attrOr w (.ref o) nxt = .none →
    depsFrom w cur (sub ++ nxt :: rest) leaf = depsFrom w cur sub nxt := by
  intro sub
  induction sub with
  | nil =>
    intro nxt rest cur o hf hn
    simp only [follow, Val.ref.injEq] at hf
    subst hf
    simp only [List.nil_append, depsFrom]
    simp only [attrOr] at hn
    cases hg : getParam w cur nxt with
    | none => rfl
    | some v =>
      rw [hg] at hn
      simp only [Option.getD_some] at hn
      subst hn
      rfl
  | cons n sub' ih =>
    intro nxt rest cur o hf hn
    simp only [follow] at hf
    simp only [List.cons_append, depsFrom]
    cases hg : getParam w cur n with
    | none =>
      simp only [attrOr, hg, Option.getD_none] at hf
      simp [follow_none] at hf
    | some v =>
      cases v with
      | none =>
        simp only [attrOr, hg, Option.getD_some] at hf
        simp [follow_none] at hf
      | int i =>
        simp only [attrOr, hg, Option.getD_some] at hf
        cases sub' with
        | nil => simp [follow] at hf
        | cons _ _ => simp [follow_int w i _ (List.cons_ne_nil _ _)] at hf
      | ref o' =>
        simp only [attrOr, hg, Option.getD_some] at hf
        simp [ih nxt rest o' o hf hn]

/-! ### `_spec_to_obj` as written = the walk from the root -/

def HasName (w : PWorld) (n : Name) : Prop := ∀ o, o < w.objs.length → ∃ v, getParam w o n = some v
def ObjName (w : PWorld) (n : Name) : Prop :=
  ∀ o v, getParam w o n = some v → v = .none ∨ ∃ o', v = .ref o' ∧ o' < w.objs.length

theorem attrOr_obj {w : PWorld} {n : Name} (hn : ObjName w n) (v : Val) :
    attrOr w v n = .none ∨ ∃ o', attrOr w v n = .ref o' ∧ o' < w.objs.length := by
  cases v with
  | none => exact Or.inl rfl
  | int i => exact Or.inl rfl
  | ref o =>
    simp only [attrOr]
    cases hg : getParam w o n with
    | none => exact Or.inl rfl
    | some v' =>
      rcases hn o v' hg with h1 | ⟨o', h1, h2⟩
      · exact Or.inl (by simp [h1])
      · exact Or.inr ⟨o', by simp [h1], h2⟩

/-- along object-valued parameters a (non-empty) path leads to `None` or to an existing object -/
theorem follow_obj (w : PWorld) : ∀ (p : List Name) (v : Val), p ≠ [] → (∀ n ∈ p, ObjName w n) →
    follow w v p = .none ∨ ∃ o', follow w v p = .ref o' ∧ o' < w.objs.length := by
  intro p
  induction p with
  | nil => intro v hp; exact absurd rfl hp
  | cons n rest ih =>
    intro v _ hall
    simp only [follow]
    cases rest with
    | nil => simpa [follow] using attrOr_obj (hall n (by simp)) v
    | cons n' rest' => exact ih _ (by simp) (fun x hx => hall x (List.mem_cons_of_mem _ hx))

theorem longestPrefix_nil (w : PWorld) (t : Oid) (n : Nat) : longestPrefix w t n [] = [] := by
  cases n <;> simp [longestPrefix]

theorem longestPrefix_spec (w : PWorld) (t : Oid) : ∀ (n : Nat) (sub : List Name), sub.length ≤ n →
    (sub ≠ [] → follow w (.ref t) sub = .none) →
    (longestPrefix w t n sub = [] ∧ ∀ p q, sub = p ++ q → p ≠ [] → follow w (.ref t) p = .none) ∨
    (longestPrefix w t n sub ≠ [] ∧ follow w (.ref t) (longestPrefix w t n sub) ≠ .none ∧
      ∃ nxt rest, sub = longestPrefix w t n sub ++ nxt :: rest ∧
        follow w (.ref t) (longestPrefix w t n sub ++ [nxt]) = .none) := by
  intro n
  induction n with
  | zero =>
    intro sub hl _
    have : sub = [] := List.length_eq_zero_iff.1 (Nat.le_zero.1 hl)
    subst this
    left
    refine ⟨rfl, ?_⟩
    intro p q hpq hp
    have := congrArg List.length hpq
    simp at this
    exact absurd (List.length_eq_zero_iff.1 (by omega)) hp
  | succ n ih =>
    intro sub hl hnone
    by_cases hs : sub = []
    · subst hs
      left
      refine ⟨by simp [longestPrefix], ?_⟩
      intro p q hpq hp
      have := congrArg List.length hpq
      simp at this
      exact absurd (List.length_eq_zero_iff.1 (by omega)) hp
    · have hemp : sub.isEmpty = false := by cases sub <;> simp_all
      have hsplit : sub = sub.dropLast ++ [sub.getLast hs] := (List.dropLast_concat_getLast hs).symm
      have hlen : sub.dropLast.length ≤ n := by
        rw [List.length_dropLast]
        omega
      simp only [longestPrefix, hemp, Bool.false_eq_true, if_false]
      by_cases hpre : sub.dropLast = []
      · -- only the empty prefix is left
        simp only [hpre, List.isEmpty_nil, if_true]
        have := ih [] (by simp) (by simp)
        rcases this with ⟨h1, _⟩ | ⟨h1, _⟩
        · left
          refine ⟨h1, ?_⟩
          intro p q hpq hp
          have hp' : p = sub := by
            rw [hsplit, hpre] at hpq
            simp only [List.nil_append] at hpq
            cases p with
            | nil => exact absurd rfl hp
            | cons a p' =>
              cases p' with
              | nil =>
                cases q with
                | nil => rw [hsplit, hpre]; simpa using hpq.symm
                | cons _ _ => simp at hpq
              | cons _ _ => simp at hpq
          rw [hp']; exact hnone hs
        · exact absurd (longestPrefix_nil w t n) h1
      · have hemp' : sub.dropLast.isEmpty = false := by
          cases h : sub.dropLast with
          | nil => exact absurd h hpre
          | cons _ _ => rfl
        simp only [hemp', Bool.false_eq_true, if_false]
        by_cases hsrc : follow w (.ref t) sub.dropLast = .none
        · simp only [hsrc, if_true]
          rcases ih sub.dropLast hlen (fun _ => hsrc) with ⟨h1, h2⟩ | ⟨h1, h2, nxt, rest, h3, h4⟩
          · left
            refine ⟨h1, ?_⟩
            intro p q hpq hp
            by_cases hq : q = []
            · subst hq
              simp only [List.append_nil] at hpq
              rw [← hpq]; exact hnone hs
            · -- a proper prefix is a prefix of `dropLast`
              have hq' : q = q.dropLast ++ [q.getLast hq] := (List.dropLast_concat_getLast hq).symm
              have : sub.dropLast = p ++ q.dropLast := by
                have e : sub = (p ++ q.dropLast) ++ [q.getLast hq] := by
                  rw [List.append_assoc, ← hq']; exact hpq
                rw [e, List.dropLast_concat]
              exact h2 p q.dropLast this hp
          · right
            refine ⟨h1, h2, nxt, rest ++ [sub.getLast hs], ?_, h4⟩
            conv => lhs; rw [hsplit, h3]
            simp
        · simp only [hsrc, if_false]
          right
          refine ⟨hpre, hsrc, sub.getLast hs, [], hsplit, ?_⟩
          rw [← hsplit]; exact hnone hs

/-- **`_spec_to_obj` as written returns the dependencies of the walk from the root** -/
theorem specToObj_eq (w : PWorld) (t : Oid) (ht : t < w.objs.length) : ∀ (f : Nat) (path : List Name) (leaf : Name),
    path.length < f → (∀ n ∈ path, HasName w n ∧ ObjName w n ∧ n ≠ "param") → HasName w leaf → leaf ≠ "param" →
    specToObj w t f path leaf = .ok (depsRoot w t path leaf) := by
  intro f
  induction f with
  | zero => intro path leaf h; cases h
  | succ f ih =>
    intro path leaf hlen hpath hleaf hnp
    unfold specToObj
    by_cases hp : path = []
    · subst hp
      obtain ⟨v, hv⟩ := hleaf t ht
      simp [hv, depsRoot]
    · have hemp : path.isEmpty = false := by
        cases h : path with
        | nil => exact absurd h hp
        | cons _ _ => rfl
      simp only [hemp, Bool.false_eq_true, if_false]
      obtain ⟨n0, rest0, hpe⟩ := List.exists_cons_of_ne_nil hp
      obtain ⟨v0, hv0⟩ := (hpath n0 (by rw [hpe]; simp)).1 t ht
      have hhead : path.headD "" = n0 := by rw [hpe]; rfl
      rw [hhead, hv0]
      simp only
      have hsplit : path = path.dropLast ++ [path.getLast hp] := (List.dropLast_concat_getLast hp).symm
      have hobjs : ∀ n ∈ path, ObjName w n := fun n hn => (hpath n hn).2.1
      rcases follow_obj w path (.ref t) hp hobjs with hfol | ⟨src, hfol, hsrc⟩
      · -- the sub-object is not there: watch as far as the path resolves
        rw [hfol]
        simp only
        rcases longestPrefix_spec w t path.length path (Nat.le_refl _) (fun _ => hfol) with ⟨h1, h2⟩ | ⟨h1, h2, nxt, rest, h3, h4⟩
        · rw [h1]
          simp only [List.isEmpty_nil, if_true]
          have hroot := h2 [n0] rest0 (by rw [hpe]; rfl) (by simp)
          simp only [follow, attrOr, hv0, Option.getD_some] at hroot
          subst hroot
          simp [depsRoot, hpe, hv0]
        · have hemp2 : (longestPrefix w t path.length path).isEmpty = false := by
            cases h : longestPrefix w t path.length path with
            | nil => exact absurd h h1
            | cons _ _ => rfl
          simp only [hemp2, Bool.false_eq_true, if_false]
          generalize longestPrefix w t path.length path = sub at h1 h2 h3 h4
          have htake : path.take sub.length = sub := by rw [h3]; simp
          have hdrop : (path.drop sub.length).headD "" = nxt := by rw [h3]; simp
          rw [htake, hdrop]
          have hsubmem : ∀ n ∈ sub, n ∈ path := fun n hn => by rw [h3]; exact List.mem_append_left _ hn
          have hnxtmem : nxt ∈ path := by rw [h3]; simp
          rw [ih sub nxt (by
                have := congrArg List.length h3
                simp at this
                omega)
              (fun n hn => hpath n (hsubmem n hn)) (hpath nxt hnxtmem).1 (hpath nxt hnxtmem).2.2]
          -- both sides are the walk up to the first unresolved element
          rcases follow_obj w sub (.ref t) h1 (fun n hn => hobjs n (hsubmem n hn)) with hn | ⟨o, ho, _⟩
          · exact absurd hn h2
          · have hnx : attrOr w (.ref o) nxt = .none := by
              rw [follow_append, ho] at h4
              simpa [follow] using h4
            obtain ⟨s0, srest, hse⟩ := List.exists_cons_of_ne_nil h1
            have hn0 : s0 = n0 := by
              rw [h3, hse] at hpe
              simp only [List.cons_append, List.cons.injEq] at hpe
              exact hpe.1
            -- the root resolves (the prefix `sub` does)
            have hrootref : ∃ o1, v0 = .ref o1 := by
              rw [hse, hn0] at ho
              simp only [follow, attrOr, hv0, Option.getD_some] at ho
              cases v0 with
              | none => simp [follow_none] at ho
              | int i =>
                cases srest with
                | nil => simp [follow] at ho
                | cons _ _ => simp [follow_int w i _ (List.cons_ne_nil _ _)] at ho
              | ref o1 => exact ⟨o1, rfl⟩
            obtain ⟨o1, rfl⟩ := hrootref
            have e1 : depsRoot w t path leaf = depsFrom w t path leaf := by
              simp [depsRoot, hpe, hv0]
            have e2 : depsRoot w t sub nxt = depsFrom w t sub nxt := by
              simp [depsRoot, hse, hn0, hv0]
            rw [e1, e2]
            conv => rhs; rw [h3]
            exact congrArg _ (depsFrom_partial w leaf sub nxt rest t o ho hnx).symm
      · -- the whole path resolves
        rw [hfol]
        simp only [hnp, if_false]
        obtain ⟨vl, hvl⟩ := hleaf src hsrc
        rw [hvl]
        simp only
        have hlastmem : path.getLast hp ∈ path := List.getLast_mem hp
        have hdlmem : ∀ n ∈ path.dropLast, n ∈ path := fun n hn => List.dropLast_subset path hn
        have hgl : path.getLastD "" = path.getLast hp := by
          rw [List.getLastD_eq_getLast?, List.getLast?_eq_some_getLast hp]; rfl
        rw [hgl, ih path.dropLast (path.getLast hp) (by
              rw [List.length_dropLast]
              have : 0 < path.length := List.length_pos_iff.2 hp
              omega)
            (fun n hn => hpath n (hdlmem n hn)) (hpath _ hlastmem).1 (hpath _ hlastmem).2.2]
        simp only
        -- the root resolves
        have hrootref : ∃ o1, v0 = .ref o1 := by
          rw [hpe] at hfol
          simp only [follow, attrOr, hv0, Option.getD_some] at hfol
          cases v0 with
          | none => simp [follow_none] at hfol
          | int i =>
            cases rest0 with
            | nil => simp [follow] at hfol
            | cons _ _ => simp [follow_int w i _ (List.cons_ne_nil _ _)] at hfol
          | ref o1 => exact ⟨o1, rfl⟩
        obtain ⟨o1, rfl⟩ := hrootref
        have e1 : depsRoot w t path leaf = depsFrom w t path leaf := by
          simp [depsRoot, hpe, hv0]
        have e2 : depsRoot w t path.dropLast (path.getLast hp) = depsFrom w t path.dropLast (path.getLast hp) := by
          cases hd : path.dropLast with
          | nil => simp [depsRoot, depsFrom]
          | cons d0 drest =>
            have : d0 = n0 := by
              have a := congrArg List.head? hsplit
              have b := congrArg List.head? hpe
              rw [hd] at a
              simp only [List.cons_append, List.head?_cons] at a b
              rw [a] at b
              exact Option.some.inj b
            simp [depsRoot, this, hv0]
        rw [e1, e2]
        have hfol' : follow w (.ref t) (path.dropLast ++ [path.getLast hp]) = .ref src := by rw [← hsplit]; exact hfol
        have := depsFrom_snoc w (path.getLast hp) leaf path.dropLast t src hfol'
        rw [← hsplit] at this
        rw [this]

/-! ## Part 2: what one path spec needs, by a walk from the root -/

/-- what ONE spec asks of the watcher on one of its holders: the parameter, the sub-path to compare
(`none`: a leaf, never skip), whether the parent must be notified -/
structure SShape where
  on : Oid
  params : List Name
  changed : Option (List (List Name))
  cb : Bool
  deriving Repr, DecidableEq

/-- the watchers one path spec needs, by a walk from `cur` at depth `depth`: an intermediate holder
gets the remaining path as filter and (below the root) the rebinding callback; the last object gets
the leaf, no filter, no callback -/
def builtFrom (w : PWorld) : Oid → Nat → List Name → Name → List SShape
  | cur, _, [], leaf => [⟨cur, [leaf], none, false⟩]
  | cur, depth, n :: rest, leaf =>
    ⟨cur, [n], some [rest ++ [leaf]], decide (0 < depth)⟩ ::
      (match getParam w cur n with
       | some (.ref o) => builtFrom w o (depth + 1) rest leaf
       | _ => [])

theorem builtFrom_congr {w w' : PWorld} (h : SameGraph w w') : ∀ (p : List Name) (cur : Oid) (d : Nat) (leaf : Name),
    builtFrom w' cur d p leaf = builtFrom w cur d p leaf := by
  intro p
  induction p with
  | nil => intro cur d leaf; rfl
  | cons n rest ih =>
    intro cur d leaf
    simp only [builtFrom, getParam_congr h]
    split <;> simp [ih]

theorem builtFrom_deps (w : PWorld) : ∀ (p : List Name) (cur : Oid) (d : Nat) (leaf : Name),
    (builtFrom w cur d p leaf).map (fun sh => (sh.on, sh.params)) = (depsFrom w cur p leaf).map (fun x => (x.1, [x.2])) := by
  intro p
  induction p with
  | nil => intro cur d leaf; rfl
  | cons n rest ih =>
    intro cur d leaf
    simp only [builtFrom, depsFrom, List.map_cons]
    split <;> simp [ih]

/-- the body of `_resolve_dynamic_deps` on explicit `subobjs` and spec elements -/
def rddCore (subobjs : List Val) (elems : List Name) (depObj : Oid) (attrib : Option Name) :
    Option (List (List Name)) × Option (Option Name) :=
  if !(subobjs.dropLast.contains (.ref depObj)) then (none, none)
  else (some [elems.drop (indexOfVal subobjs (.ref depObj) + 1)],
        if indexOfVal subobjs (.ref depObj) > 0 then some attrib else none)

theorem drop_snoc_ne_param (l : List Name) (x : Name) (hx : x ≠ "param") (k : Nat) : (l ++ [x]).drop k ≠ ["param"] := by
  intro h
  have h1 : ((l ++ [x]).drop k).getLast? = some "param" := by rw [h]; rfl
  by_cases hk : k < (l ++ [x]).length
  · rw [List.getLast?_drop, if_neg (by omega)] at h1
    simp at h1
    exact hx h1
  · rw [List.drop_of_length_le (by omega)] at h
    cases h

theorem resolveDynamicDeps_core (w : PWorld) (t : Oid) (s : PathSpec) (o : Oid) (attrib : Option Name)
    (hleaf : s.leaf ≠ "param") :
    resolveDynamicDeps w t s o attrib = .ok (rddCore (chain w (.ref t) s.path) s.elems o attrib) := by
  unfold resolveDynamicDeps rddCore
  simp only
  split
  · rfl
  · rw [if_neg]
    exact drop_snoc_ne_param s.path s.leaf hleaf _

theorem dropLast_append_cons_ne {α : Type} (a : List α) (x : α) (b : List α) (hb : b ≠ []) :
    (a ++ x :: b).dropLast = a ++ x :: b.dropLast := by
  induction a with
  | nil =>
    cases b with
    | nil => exact absurd rfl hb
    | cons y ys => simp
  | cons z zs ih =>
    cases h : zs ++ x :: b with
    | nil => simp at h
    | cons _ _ => simp [List.dropLast, ih]

theorem indexOfVal_append (pre : List Val) (v : Val) (tail : List Val) (h : v ∉ pre) :
    indexOfVal (pre ++ v :: tail) v = pre.length := by
  unfold indexOfVal
  induction pre with
  | nil => simp [List.findIdx_cons]
  | cons a rest ih =>
    have hne : ¬ a = v := fun e => h (by simp [e])
    have := ih (fun hh => h (List.mem_cons_of_mem _ hh))
    simp [List.findIdx_cons, hne, this]

/-- filter and callback of every dependency of the walk, position by position -/
theorem rdd_gen (w : PWorld) (attrib : Option Name) (leaf : Name) : ∀ (rest : List Name) (pre : List Val)
    (prePath : List Name) (cur : Oid),
    pre.length = prePath.length → (∀ o ∈ chainObjsFrom w cur rest, Val.ref o ∉ pre) → (chainObjsFrom w cur rest).Nodup →
    (depsFrom w cur rest leaf).map (fun d => rddCore (pre ++ chain w (.ref cur) rest) (prePath ++ rest ++ [leaf]) d.1 attrib) =
      (builtFrom w cur pre.length rest leaf).map (fun sh => (sh.changed, if sh.cb then some attrib else none)) := by
  intro rest
  induction rest with
  | nil =>
    intro pre prePath cur _ hpre _
    have hnot : Val.ref cur ∉ pre := hpre cur (by simp [chainObjsFrom])
    simp [depsFrom, builtFrom, chain, rddCore, hnot]
  | cons n rest' ih =>
    intro pre prePath cur hlen hpre hnd
    have hcur : Val.ref cur ∉ pre := hpre cur (by simp [chainObjsFrom])
    have htail : chain w (attrOr w (.ref cur) n) rest' ≠ [] := chain_ne_nil _ _ _
    have hfirst : rddCore (pre ++ chain w (.ref cur) (n :: rest')) (prePath ++ (n :: rest') ++ [leaf]) cur attrib =
        (some [rest' ++ [leaf]], if decide (0 < pre.length) then some attrib else none) := by
      unfold rddCore
      simp only [chain, dropLast_append_cons_ne _ _ _ htail, indexOfVal_append _ _ _ hcur]
      have hc : (pre ++ Val.ref cur :: (chain w (attrOr w (Val.ref cur) n) rest').dropLast).contains (Val.ref cur) = true := by
        simp
      simp only [hc, Bool.not_true, Bool.false_eq_true, if_false]
      have hdrop : (prePath ++ (n :: rest') ++ [leaf]).drop (pre.length + 1) = rest' ++ [leaf] := by
        rw [hlen, List.append_assoc, List.drop_append, List.drop_of_length_le (by omega)]
        simp
      rw [hdrop]
      by_cases hz : 0 < pre.length <;> simp [hz]
    simp only [depsFrom, builtFrom, List.map_cons, hfirst]
    congr 1
    simp only [chainObjsFrom, List.nodup_cons] at hnd
    cases hg : getParam w cur n with
    | none => simp
    | some v =>
      cases v with
      | none => simp
      | int i => simp
      | ref o =>
        simp only
        have hattr : attrOr w (.ref cur) n = .ref o := by simp [attrOr, hg]
        have hsub : chainObjsFrom w cur (n :: rest') = cur :: chainObjsFrom w o rest' := by simp [chainObjsFrom, hg]
        rw [hg] at hnd
        have := ih (pre ++ [.ref cur]) (prePath ++ [n]) o (by simp [hlen])
          (by
            intro o' ho' hin
            rcases List.mem_append.1 hin with h1 | h1
            · exact hpre o' (by rw [hsub]; exact List.mem_cons_of_mem _ ho') h1
            · simp at h1
              subst h1
              exact hnd.1 ho')
          hnd.2
        simp only [List.length_append, List.length_cons, List.length_nil, Nat.zero_add] at this
        simp only [chain, hattr]
        rw [show pre ++ Val.ref cur :: chain w (Val.ref o) rest' = (pre ++ [Val.ref cur]) ++ chain w (Val.ref o) rest' by simp,
          show prePath ++ n :: rest' ++ [leaf] = (prePath ++ [n]) ++ rest' ++ [leaf] by simp]
        exact this

end ParamVerif.Depends
