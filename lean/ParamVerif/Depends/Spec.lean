/-
C06 specification side: the property's conclusions as decidable functions over OBSERVATIONS
(class table as exposed by `cls.param._depends`, invocation log after construction and after every
operation).  This is the oracle the driver evaluates on what the real code did.

The specification's notion of "what a method depends on" is deliberately independent of the table:
the dependencies of the method AS RESOLVED ON THE INSTANTIATED CLASS, through method-name
dependencies resolved on that class too (`specDeps`).  "Changed" is judged per assignment, as a
changes-only watcher does: the assigned integer differs from the value held just before.
-/
import ParamVerif.Depends.Instance

namespace ParamVerif.Depends

structure StepObs where
  ok : Bool
  log : List Name           -- method names invoked by this operation, in order
  deriving Repr, DecidableEq

structure EntryObs where
  name : Name
  queued : Bool
  onInit : Bool
  deps : List PDep
  deriving Repr, DecidableEq

structure Obs where
  table : List EntryObs
  init : List Name          -- invocation log of the constructor
  steps : List StepObs
  deriving Repr

/-- every function name defined anywhere in the MRO of `c` -/
def methodNames (h : Hierarchy) (c : Cls) : List Name :=
  ((mroOf h c).flatMap (fun k => match h[k]? with | some d => d.methods.map (·.name) | none => [])).eraseDups

/-- the methods an instance of `c` must call automatically -/
def watchedMethods (h : Hierarchy) (c : Cls) : List Name :=
  (methodNames h c).filter (resolvedWatches h c)

/-- dependencies of `n` as resolved on `c`, as assignable keys -/
def specDeps (h : Hierarchy) (fuel : Nat) (c : Cls) (n : Name) : Option (List Key) :=
  match methodDependencies h fuel c n with
  | .ok ds => some (ds.map (fun d => ⟨d.name, d.what⟩))
  | .error _ => none

def specOnInit (h : Hierarchy) (c : Cls) (n : Name) : Bool :=
  match resolveMethod h c n with
  | some (_, m) => match m.dinfo with | some d => d.watch && d.onInit | none => false
  | none => false

/-- the assignments an operation performs, in order -/
def simpleAssignments : SimpleOp → List (Key × Int)
  | .set k v => [(k, v)]
  | .update kvs => kvs.map (fun kv => (⟨kv.1, "value"⟩, kv.2))

def opAssignments : Op → List (Key × Int)
  | .simple s => simpleAssignments s
  | .batch body => body.flatMap simpleAssignments

/-- keys whose assignment changed the value held at that moment, and the values afterwards -/
def changedKeys (vals : List (Key × Int)) : List (Key × Int) → List Key × List (Key × Int)
  | [] => ([], vals)
  | (k, v) :: rest =>
    let here := match getKey vals k with | some old => decide (old ≠ v) | none => false
    let (ch, vals') := changedKeys (setVal vals k v) rest
    (if here then k :: ch else ch, vals')

def expectedCalls (deps : List Key) (changed : List Key) : Nat :=
  if deps.any (fun d => changed.contains d) then 1 else 0

/-- a function decorated with Parameter-object dependencies: label and the parameters named -/
abbrev FnDecl := Name × List Name

def targets (h : Hierarchy) (fuel : Nat) (c : Cls) (fns : List FnDecl) : List (Name × List Key) :=
  ((watchedMethods h c).filterMap (fun n => (specDeps h fuel c n).map (fun ds => (n, ds)))) ++
  fns.map (fun f => (f.1, f.2.map (fun n => ⟨n, "value"⟩)))

def checkCounts (step : Nat) (ts : List (Name × List Key)) (changed : List Key) (log : List Name) : Option String :=
  match ts.find? (fun t => log.count t.1 ≠ expectedCalls t.2 changed) with
  | some t => some s!"calls step={step} method={t.1} expected={expectedCalls t.2 changed} got={log.count t.1}"
  | none =>
    match log.find? (fun n => !(ts.any (fun t => t.1 = n))) with
    | some n => some s!"calls step={step} method={n} expected=0 got={log.count n} (not a watched method)"
    | none => none

def specSteps (ts : List (Name × List Key)) : Nat → List (Key × Int) → List (Op × StepObs) → Nat × Option String
  | i, _, [] => (i, none)
  | i, vals, (op, st) :: rest =>
    if !st.ok then (i, none)          -- an operation outside the model was rejected: stop judging
    else
      let (ch, vals') := changedKeys vals (opAssignments op)
      match checkCounts i ts ch st.log with
      | some r => (i, some r)
      | none => specSteps ts (i + 1) vals' rest

/-- the table has one entry per automatically called method, and none else -/
def specTable (h : Hierarchy) (c : Cls) (table : List EntryObs) : Option String :=
  let names := table.map (·.name)
  match names.find? (fun n => names.count n ≠ 1) with
  | some n => some s!"table: method={n} registered {names.count n} times"
  | none =>
    match names.find? (fun n => !resolvedWatches h c n) with
    | some n => some s!"table: method={n} registered but the resolved method does not watch"
    | none =>
      match (watchedMethods h c).find? (fun n => !names.contains n) with
      | some n => some s!"table: method={n} watches but is not registered"
      | none => none

/-- the assignments the on_init methods make during construction: each assigning method whose resolved
declaration is watched and on_init assigns once (distinct parameters, values different from the defaults) -/
def initAssignments (h : Hierarchy) (c : Cls) (as : Assigns) : List (Key × Int) :=
  (as.filter (fun a => specOnInit h c a.1)).map (fun a => (⟨a.2.1, "value"⟩, a.2.2))

/-- `on_init=True` adds exactly one call at construction, and every assignment an on_init method makes
while the object is constructed calls each method depending on the assigned parameter exactly once -/
def specInit (h : Hierarchy) (fuel : Nat) (c : Cls) (vals : List (Key × Int)) (as : Assigns) (init : List Name) : Option String :=
  let changed := (changedKeys vals (initAssignments h c as)).1
  let expected := fun n =>
    (if specOnInit h c n then 1 else 0) +
    (if resolvedWatches h c n then
       match specDeps h fuel c n with
       | some ds => (changed.filter (fun k => ds.contains k)).length
       | none => 0
     else 0)
  match (methodNames h c).find? (fun n => init.count n ≠ expected n) with
  | some n => some s!"init: method={n} expected={expected n} got={init.count n}"
  | none => none

def specAll (h : Hierarchy) (fuel : Nat) (c : Cls) (fns : List FnDecl) (vals : List (Key × Int))
    (ops : List Op) (o : Obs) (as : Assigns := []) : Nat × Option String :=
  match specTable h c o.table with
  | some r => (0, some r)
  | none =>
    match specInit h fuel c vals as o.init with
    | some r => (0, some r)
    | none => specSteps (targets h fuel c fns) 0 (changedKeys vals (initAssignments h c as)).2 (ops.zip o.steps)

end ParamVerif.Depends
