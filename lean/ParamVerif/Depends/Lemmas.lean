/-
Helper lemmas for C06 (class table).  The property theorems are in Props/C06.lean.
-/
import ParamVerif.Depends.Spec

namespace ParamVerif.Depends

/-! ### small list facts -/

theorem nodupB_iff (l : List Name) : nodupB l = true ↔ l.Nodup := by
  induction l with
  | nil => simp [nodupB]
  | cons n rest ih => simp [nodupB, ih, List.nodup_cons]

theorem hasName_iff (l : List Entry) (n : Name) : hasName l n = true ↔ n ∈ l.map (·.name) := by
  simp [hasName, List.any_eq_true]

/-! ### what well-formedness gives -/

theorem wfClassB_spec {h : Hierarchy} {c : Cls} (hwf : wfClassB h c = true) :
    ∃ d rest, h[c]? = some d ∧ d.mro = c :: rest ∧ (∀ a ∈ rest, a < c) ∧ (d.methods.map (·.name)).Nodup := by
  unfold wfClassB at hwf
  split at hwf
  · simp at hwf
  · rename_i d hd
    simp only [Bool.and_eq_true] at hwf
    obtain ⟨h1, h2⟩ := hwf
    split at h1
    · simp at h1
    · rename_i k rest hm
      simp only [Bool.and_eq_true, beq_iff_eq, List.all_eq_true, decide_eq_true_eq] at h1
      refine ⟨d, rest, hd, ?_, h1.2, (nodupB_iff _).1 h2⟩
      rw [hm, h1.1]

theorem wfMroB_class {h : Hierarchy} (hwf : wfMroB h = true) {c : Cls} (hc : c < h.length) : wfClassB h c = true := by
  unfold wfMroB at hwf
  rw [List.all_eq_true] at hwf
  exact hwf c (List.mem_range.2 hc)

/-! ### `tablesUpTo` -/

theorem tablesUpTo_spec (h : Hierarchy) (fuel : Nat) : ∀ (n : Nat) (ts : List (List Entry)),
    tablesUpTo h fuel n = .ok ts →
    ts.length = n ∧ ∀ k, k < n → ∃ d t, h[k]? = some d ∧ ts[k]? = some t ∧ tableOf h fuel (ts.take k) k d = .ok t := by
  intro n
  induction n with
  | zero =>
    intro ts hts
    simp [tablesUpTo] at hts
    subst hts
    simp
  | succ n ih =>
    intro ts hts
    simp only [tablesUpTo] at hts
    split at hts
    · simp at hts
    · rename_i ts0 h0
      obtain ⟨hlen, hk⟩ := ih ts0 h0
      split at hts
      · simp at hts
      · rename_i d hd
        split at hts
        · simp at hts
        · rename_i t ht
          simp only [Except.ok.injEq] at hts
          subst hts
          refine ⟨by simp [hlen], ?_⟩
          intro k hkn
          by_cases hlt : k < n
          · obtain ⟨d', t', h1, h2, h3⟩ := hk k hlt
            refine ⟨d', t', h1, ?_, ?_⟩
            · rw [List.getElem?_append_left (by omega)]; exact h2
            · rw [List.take_append_of_le_length (by omega)]; exact h3
          · have : k = n := by omega
            subst this
            refine ⟨d, t, hd, ?_, ?_⟩
            · rw [List.getElem?_append_right (by omega)]; simp [hlen]
            · rw [List.take_append_of_le_length (by omega), List.take_of_length_le (by omega)]; exact ht

theorem dependsTable_spec {h : Hierarchy} {fuel : Nat} {c : Cls} {t : List Entry}
    (ht : dependsTable h fuel c = .ok t) :
    ∃ ts d, tablesUpTo h fuel (c + 1) = .ok ts ∧ h[c]? = some d ∧ tableOf h fuel (ts.take c) c d = .ok t := by
  unfold dependsTable at ht
  split at ht
  · simp at ht
  · rename_i ts hts
    split at ht
    · rename_i t' ht'
      simp only [Except.ok.injEq] at ht
      subst ht
      obtain ⟨_, hk⟩ := tablesUpTo_spec h fuel (c + 1) ts hts
      obtain ⟨d, t'', h1, h2, h3⟩ := hk c (by omega)
      rw [ht'] at h2
      simp only [Option.some.injEq] at h2
      subst h2
      exact ⟨ts, d, hts, h1, h3⟩
    · simp at ht

/-! ### own entries -/

def watchDecorated (m : Method) : Bool :=
  match m.dinfo with
  | some d => d.watch
  | none => false

/-- an entry is the own entry of its origin class: created by that class's metaclass run from a
decorated function of its body, with the dependencies resolved on that class -/
def EntryOf (h : Hierarchy) (fuel : Nat) (e : Entry) : Prop :=
  ∃ d m di, h[e.origin]? = some d ∧ m ∈ d.methods ∧ m.dinfo = some di ∧ di.watch = true ∧
    m.name = e.name ∧ e.queued = di.queued ∧ e.onInit = di.onInit ∧ depsOn h e.origin fuel (some di) = .ok e.deps

theorem ownEntries_names (h : Hierarchy) (c : Cls) (fuel : Nat) : ∀ (ms : List Method) (es : List Entry),
    ownEntries h c fuel ms = .ok es → es.map (·.name) = (ms.filter watchDecorated).map (·.name) := by
  intro ms
  induction ms with
  | nil => intro es h1; simp [ownEntries] at h1; subst h1; simp
  | cons m rest ih =>
    intro es h1
    simp only [ownEntries] at h1
    split at h1
    · rename_i hd
      rw [ih es h1]
      simp [watchDecorated, hd]
    · rename_i d hd
      split at h1
      · simp at h1
      · split at h1
        · simp at h1
        · rename_i deps _ es' hes'
          simp only [Except.ok.injEq] at h1
          subst h1
          have := ih es' hes'
          by_cases hw : d.watch <;> simp [watchDecorated, hd, hw, this]

theorem ownEntries_mem (h : Hierarchy) (c : Cls) (fuel : Nat) : ∀ (ms : List Method) (es : List Entry),
    ownEntries h c fuel ms = .ok es → ∀ e ∈ es, e.origin = c ∧ ∃ m di, m ∈ ms ∧ m.dinfo = some di ∧ di.watch = true ∧
      m.name = e.name ∧ e.queued = di.queued ∧ e.onInit = di.onInit ∧ depsOn h c fuel (some di) = .ok e.deps := by
  intro ms
  induction ms with
  | nil => intro es h1; simp [ownEntries] at h1; subst h1; simp
  | cons m rest ih =>
    intro es h1 e he
    simp only [ownEntries] at h1
    split at h1
    · obtain ⟨ho, m', di, hm', r⟩ := ih es h1 e he
      exact ⟨ho, m', di, List.mem_cons_of_mem _ hm', r⟩
    · rename_i d hd
      split at h1
      · simp at h1
      · rename_i deps hdeps
        split at h1
        · simp at h1
        · rename_i es' hes'
          simp only [Except.ok.injEq] at h1
          subst h1
          by_cases hw : d.watch
          · simp only [hw, if_true, List.mem_cons] at he
            rcases he with rfl | he
            · exact ⟨rfl, m, d, by simp, hd, hw, rfl, rfl, rfl, hdeps⟩
            · obtain ⟨ho, m', di, hm', r⟩ := ih es' hes' e he
              exact ⟨ho, m', di, List.mem_cons_of_mem _ hm', r⟩
          · simp only [hw, Bool.false_eq_true, if_false] at he
            obtain ⟨ho, m', di, hm', r⟩ := ih es' hes' e he
            exact ⟨ho, m', di, List.mem_cons_of_mem _ hm', r⟩

/-! ### the inheritance loop -/

theorem inheritStep_sub (h : Hierarchy) (c : Cls) (own acc : List Entry) (dep : Entry) :
    ∀ e ∈ acc, e ∈ inheritStep h c own acc dep := by
  intro e he
  unfold inheritStep
  split
  · exact List.mem_append_left _ he
  · exact he

theorem inheritStep_mem (h : Hierarchy) (c : Cls) (own acc : List Entry) (dep : Entry) :
    ∀ e ∈ inheritStep h c own acc dep, e ∈ acc ∨ (e = dep ∧ resolvedWatches h c dep.name = true) := by
  intro e he
  unfold inheritStep at he
  split at he
  · rename_i hc
    simp only [Bool.and_eq_true] at hc
    rcases List.mem_append.1 he with h1 | h1
    · exact Or.inl h1
    · simp at h1; exact Or.inr ⟨h1, hc.2⟩
  · exact Or.inl he

theorem inheritStep_nodup (h : Hierarchy) (c : Cls) (own acc : List Entry) (dep : Entry)
    (hn : ((own ++ acc).map (·.name)).Nodup) : ((own ++ inheritStep h c own acc dep).map (·.name)).Nodup := by
  unfold inheritStep
  split
  · rename_i hc
    simp only [Bool.and_eq_true, Bool.not_eq_true'] at hc
    have hnot : dep.name ∉ (own ++ acc).map (·.name) := by
      intro hin
      have := (hasName_iff (own ++ acc) dep.name).2 hin
      rw [hc.1] at this; cases this
    rw [← List.append_assoc, List.map_append, List.nodup_append]
    refine ⟨hn, by simp, ?_⟩
    intro a ha b hb e
    simp at hb
    subst hb; subst e
    exact hnot ha
  · exact hn

theorem inheritStep_covers (h : Hierarchy) (c : Cls) (own acc : List Entry) (dep : Entry)
    (hw : resolvedWatches h c dep.name = true) : dep.name ∈ (own ++ inheritStep h c own acc dep).map (·.name) := by
  unfold inheritStep
  by_cases hh : hasName (own ++ acc) dep.name = true
  · simp only [hh, Bool.not_true, Bool.false_and, Bool.false_eq_true, if_false]
    exact (hasName_iff _ _).1 hh
  · simp only [Bool.not_eq_true] at hh
    simp only [hh, hw, Bool.not_false, Bool.and_self, if_true]
    rw [← List.append_assoc, List.map_append]
    exact List.mem_append_right _ (by simp)

/-- the two nested loops as one fold over the concatenated ancestor tables -/
theorem inheritAll_eq (h : Hierarchy) (c : Cls) (own : List Entry) (anc : List (List Entry)) :
    inheritAll h c own anc = anc.flatten.foldl (inheritStep h c own) [] := by
  unfold inheritAll
  generalize ([] : List Entry) = acc
  induction anc generalizing acc with
  | nil => simp
  | cons t rest ih => simp [List.foldl_append, ih]

theorem foldl_inherit_sub (h : Hierarchy) (c : Cls) (own : List Entry) : ∀ (l acc : List Entry),
    ∀ e ∈ acc, e ∈ l.foldl (inheritStep h c own) acc := by
  intro l
  induction l with
  | nil => intro acc e he; exact he
  | cons d rest ih => intro acc e he; exact ih _ e (inheritStep_sub h c own acc d e he)

theorem foldl_inherit_mem (h : Hierarchy) (c : Cls) (own : List Entry) : ∀ (l acc : List Entry),
    ∀ e ∈ l.foldl (inheritStep h c own) acc, e ∈ acc ∨ (e ∈ l ∧ resolvedWatches h c e.name = true) := by
  intro l
  induction l with
  | nil => intro acc e he; exact Or.inl he
  | cons d rest ih =>
    intro acc e he
    rcases ih _ e he with h1 | ⟨h1, h2⟩
    · rcases inheritStep_mem h c own acc d e h1 with h3 | ⟨rfl, h3⟩
      · exact Or.inl h3
      · exact Or.inr ⟨by simp, h3⟩
    · exact Or.inr ⟨List.mem_cons_of_mem _ h1, h2⟩

theorem foldl_inherit_nodup (h : Hierarchy) (c : Cls) (own : List Entry) : ∀ (l acc : List Entry),
    ((own ++ acc).map (·.name)).Nodup → ((own ++ l.foldl (inheritStep h c own) acc).map (·.name)).Nodup := by
  intro l
  induction l with
  | nil => intro acc hn; exact hn
  | cons d rest ih => intro acc hn; exact ih _ (inheritStep_nodup h c own acc d hn)

theorem foldl_inherit_covers (h : Hierarchy) (c : Cls) (own : List Entry) : ∀ (l acc : List Entry) (dep : Entry),
    dep ∈ l → resolvedWatches h c dep.name = true →
    dep.name ∈ (own ++ l.foldl (inheritStep h c own) acc).map (·.name) := by
  intro l
  induction l with
  | nil => intro acc dep hd; cases hd
  | cons d rest ih =>
    intro acc dep hd hw
    rcases List.mem_cons.1 hd with rfl | hd
    · have h1 := inheritStep_covers h c own acc dep hw
      rw [List.map_append, List.mem_append] at h1 ⊢
      rcases h1 with h1 | h1
      · exact Or.inl h1
      · obtain ⟨e, he, hne⟩ := List.mem_map.1 h1
        exact Or.inr (List.mem_map.2 ⟨e, foldl_inherit_sub h c own rest _ e he, hne⟩)
    · exact ih _ dep hd hw

/-! ### `ancestorTables` -/

theorem ancestorTables_spec (tables : List (List Entry)) : ∀ (as : List Cls) (anc : List (List Entry)),
    ancestorTables tables as = .ok anc → anc.length = as.length ∧
      ∀ i (hi : i < as.length), ∃ t, tables[as[i]]? = some t ∧ anc[i]? = some t := by
  intro as
  induction as with
  | nil => intro anc h1; simp [ancestorTables] at h1; subst h1; simp
  | cons a rest ih =>
    intro anc h1
    simp only [ancestorTables] at h1
    split at h1
    · simp at h1
    · rename_i t ht
      split at h1
      · simp at h1
      · rename_i ts hts
        simp only [Except.ok.injEq] at h1
        subst h1
        obtain ⟨hl, hi⟩ := ih ts hts
        refine ⟨by simp [hl], ?_⟩
        intro i hilt
        cases i with
        | zero => exact ⟨t, by simpa using ht, by simp⟩
        | succ i =>
          obtain ⟨t', h2, h3⟩ := hi i (by simpa using hilt)
          exact ⟨t', by simpa using h2, by simpa using h3⟩

theorem ancestorTables_mem {tables : List (List Entry)} {as : List Cls} {anc : List (List Entry)}
    (h1 : ancestorTables tables as = .ok anc) : ∀ t ∈ anc, ∃ a ∈ as, tables[a]? = some t := by
  intro t ht
  obtain ⟨hl, hi⟩ := ancestorTables_spec tables as anc h1
  obtain ⟨i, hilt, hti⟩ := List.getElem_of_mem ht
  obtain ⟨t', h2, h3⟩ := hi i (by omega)
  rw [List.getElem?_eq_getElem hilt, hti] at h3
  simp only [Option.some.injEq] at h3
  subst h3
  exact ⟨as[i], List.getElem_mem _, h2⟩

theorem ancestorTables_of_mem {tables : List (List Entry)} {as : List Cls} {anc : List (List Entry)}
    (h1 : ancestorTables tables as = .ok anc) : ∀ a ∈ as, ∃ t ∈ anc, tables[a]? = some t := by
  intro a ha
  obtain ⟨hl, hi⟩ := ancestorTables_spec tables as anc h1
  obtain ⟨i, hilt, hai⟩ := List.getElem_of_mem ha
  obtain ⟨t, h2, h3⟩ := hi i hilt
  rw [hai] at h2
  exact ⟨t, List.mem_of_getElem? h3, h2⟩

/-! ### shape of one table -/

theorem tableOf_spec {h : Hierarchy} {fuel : Nat} {tables : List (List Entry)} {c : Cls} {d : ClassDecl}
    {t : List Entry} (ht : tableOf h fuel tables c d = .ok t) :
    ∃ own anc, ownEntries h c fuel d.methods = .ok own ∧ ancestorTables tables d.mro.tail = .ok anc ∧
      t = anc.flatten.foldl (inheritStep h c own) [] ++ own := by
  unfold tableOf at ht
  split at ht
  · simp at ht
  · rename_i own hown
    split at ht
    · simp at ht
    · rename_i anc hanc
      simp only [Except.ok.injEq] at ht
      exact ⟨own, anc, hown, hanc, by rw [← ht, inheritAll_eq]⟩

/-! ### lookups -/

theorem find_name_of_nodup {ms : List Method} (hn : (ms.map (·.name)).Nodup) {m : Method} (hm : m ∈ ms) :
    ms.find? (fun x => x.name = m.name) = some m := by
  induction ms with
  | nil => cases hm
  | cons x rest ih =>
    simp only [List.map_cons, List.nodup_cons] at hn
    rcases List.mem_cons.1 hm with rfl | hm'
    · simp
    · have hne : x.name ≠ m.name := by
        intro e
        exact hn.1 (e ▸ List.mem_map.2 ⟨m, hm', rfl⟩)
      simp [hne, ih hn.2 hm']

theorem resolveIn_some {h : Hierarchy} {n : Name} : ∀ {l : List Cls} {k : Cls} {m : Method},
    resolveIn h n l = some (k, m) → k ∈ l ∧ ownMethod h k n = some m := by
  intro l
  induction l with
  | nil => intro k m h1; simp [resolveIn] at h1
  | cons a rest ih =>
    intro k m h1
    simp only [resolveIn] at h1
    split at h1
    · rename_i m' hm'
      simp only [Option.some.injEq, Prod.mk.injEq] at h1
      obtain ⟨rfl, rfl⟩ := h1
      exact ⟨by simp, hm'⟩
    · obtain ⟨h2, h3⟩ := ih h1
      exact ⟨List.mem_cons_of_mem _ h2, h3⟩

theorem ownMethod_some {h : Hierarchy} {k : Cls} {n : Name} {m : Method} (h1 : ownMethod h k n = some m) :
    ∃ d, h[k]? = some d ∧ m ∈ d.methods ∧ m.name = n := by
  unfold ownMethod at h1
  split at h1
  · rename_i d hd
    refine ⟨d, hd, List.mem_of_find?_eq_some h1, ?_⟩
    have := List.find?_some h1
    simpa using this
  · cases h1

/-- every entry of every table is the own entry of its origin class -/
theorem tables_entryOf (h : Hierarchy) (fuel : Nat) : ∀ (n : Nat) (ts : List (List Entry)),
    tablesUpTo h fuel n = .ok ts → ∀ t ∈ ts, ∀ e ∈ t, EntryOf h fuel e := by
  intro n
  induction n with
  | zero => intro ts hts; simp [tablesUpTo] at hts; subst hts; simp
  | succ n ih =>
    intro ts hts
    simp only [tablesUpTo] at hts
    split at hts
    · simp at hts
    · rename_i ts0 h0
      split at hts
      · simp at hts
      · rename_i d hd
        split at hts
        · simp at hts
        · rename_i t ht
          simp only [Except.ok.injEq] at hts
          subst hts
          intro t' ht' e he
          rcases List.mem_append.1 ht' with h1 | h1
          · exact ih ts0 h0 t' h1 e he
          · simp only [List.mem_singleton] at h1
            subst h1
            obtain ⟨own, anc, hown, hanc, rfl⟩ := tableOf_spec ht
            rcases List.mem_append.1 he with h2 | h2
            · rcases foldl_inherit_mem h n own _ _ e h2 with h3 | ⟨h3, _⟩
              · cases h3
              · obtain ⟨ta, hta, hea⟩ := List.mem_flatten.1 h3
                obtain ⟨a, _, hat⟩ := ancestorTables_mem hanc ta hta
                exact ih ts0 h0 ta (List.mem_of_getElem? hat) e hea
            · obtain ⟨ho, m, di, hm, r1, r2, r3, r4, r5, r6⟩ := ownEntries_mem h n fuel d.methods own hown e h2
              exact ⟨d, m, di, by rw [ho]; exact hd, hm, r1, r2, r3, r4, r5, by rw [ho]; exact r6⟩

/-! ### dependencies resolved on two classes -/

def keyOf (d : PDep) : Key := ⟨d.name, d.what⟩

def keysOfRes : Except Err (List PDep) → Except Err (List Key)
  | .ok ds => .ok (ds.map keyOf)
  | .error e => .error e

/-- Resolving `di` on class `a` and on class `c` visits the same things: every dependency name
reached is a Parameter of both or of neither, every method reached through method-name dependencies
resolves on `c` to the SAME declaration as on `a` (it is not overridden between them), and where an
undecorated function is reached ("depends on every parameter") both classes have the same
parameters.  This is the class of hierarchies for which an entry computed in `a` is still right for
`c`. -/
def SameDeps (h : Hierarchy) (a c : Cls) : Nat → Option DInfo → Prop
  | 0, _ => True
  | f + 1, di => specsOf h a di = specsOf h c di ∧ ∀ s ∈ specsOf h a di,
      (s.attr ∈ allParams h a ↔ s.attr ∈ allParams h c) ∧
      (s.attr ∉ allParams h a → ∀ k m, resolveMethod h a s.attr = some (k, m) →
          (∃ k', resolveMethod h c s.attr = some (k', m)) ∧ SameDeps h a c f m.dinfo) ∧
      (s.attr ∉ allParams h a → resolveMethod h a s.attr = none → resolveMethod h c s.attr = none)

theorem collect_congr (g1 g2 : Spec → Except Err (List PDep)) : ∀ (l : List Spec),
    (∀ s ∈ l, keysOfRes (g1 s) = keysOfRes (g2 s)) → keysOfRes (collect g1 l) = keysOfRes (collect g2 l) := by
  intro l
  induction l with
  | nil => intro _; rfl
  | cons s rest ih =>
    intro hl
    have h1 := hl s (by simp)
    have h2 := ih (fun s' hs' => hl s' (List.mem_cons_of_mem _ hs'))
    simp only [collect]
    cases e1 : g1 s <;> cases e2 : g2 s <;> rw [e1, e2] at h1 <;> simp only [keysOfRes] at h1
    · simp only [keysOfRes]; exact h1
    · cases h1
    · cases h1
    · cases e3 : collect g1 rest <;> cases e4 : collect g2 rest <;> rw [e3, e4] at h2 <;>
        simp only [keysOfRes] at h2 ⊢
      · exact h2
      · cases h2
      · cases h2
      · simp only [Except.ok.injEq] at h1 h2
        simp [List.map_append, h1, h2]

theorem depsOn_sameDeps (h : Hierarchy) (a c : Cls) : ∀ (f : Nat) (di : Option DInfo),
    SameDeps h a c f di → keysOfRes (depsOn h a f di) = keysOfRes (depsOn h c f di) := by
  intro f
  induction f with
  | zero => intro di _; rfl
  | succ f ih =>
    intro di hs
    obtain ⟨hspecs, hall⟩ := hs
    simp only [depsOn]
    rw [← hspecs]
    apply collect_congr
    intro s hs
    obtain ⟨hp, hm, hn⟩ := hall s hs
    by_cases hpa : s.attr ∈ allParams h a
    · have hpc := hp.1 hpa
      simp [hpa, hpc, keysOfRes, keyOf]
    · have hpc : s.attr ∉ allParams h c := fun hh => hpa (hp.2 hh)
      simp only [hpa, hpc, if_false]
      cases hr : resolveMethod h a s.attr with
      | none => rw [hn hpa hr]
      | some km =>
        obtain ⟨k, m⟩ := km
        obtain ⟨⟨k', hk'⟩, hrec⟩ := hm hpa k m hr
        rw [hk']
        exact ih m.dinfo hrec

theorem sameDeps_refl (h : Hierarchy) (c : Cls) : ∀ (f : Nat) (di : Option DInfo), SameDeps h c c f di := by
  intro f
  induction f with
  | zero => intro _; trivial
  | succ f ih =>
    intro di
    refine ⟨rfl, fun s _ => ⟨Iff.rfl, fun _ k m hr => ⟨⟨k, hr⟩, ih m.dinfo⟩, fun _ hr => hr⟩⟩

theorem collect_mem (g : Spec → Except Err (List PDep)) : ∀ (l : List Spec) (ds : List PDep),
    collect g l = .ok ds → ∀ d ∈ ds, ∃ s ∈ l, ∃ ds', g s = .ok ds' ∧ d ∈ ds' := by
  intro l
  induction l with
  | nil => intro ds h1; simp [collect] at h1; subst h1; simp
  | cons s rest ih =>
    intro ds h1 d hd
    simp only [collect] at h1
    split at h1
    · simp at h1
    · rename_i a ha
      split at h1
      · simp at h1
      · rename_i b hb
        simp only [Except.ok.injEq] at h1
        subst h1
        rcases List.mem_append.1 hd with h2 | h2
        · exact ⟨s, by simp, a, ha, h2⟩
        · obtain ⟨s', hs', r⟩ := ih b hb d h2
          exact ⟨s', List.mem_cons_of_mem _ hs', r⟩

/-- every `PInfo` computed by a class's metaclass run carries that class -/
theorem depsOn_cls (h : Hierarchy) (c : Cls) : ∀ (f : Nat) (di : Option DInfo) (ds : List PDep),
    depsOn h c f di = .ok ds → ∀ d ∈ ds, d.cls = c := by
  intro f
  induction f with
  | zero => intro di ds h1; simp [depsOn] at h1
  | succ f ih =>
    intro di ds h1 d hd
    simp only [depsOn] at h1
    obtain ⟨s, _, ds', hg, hd'⟩ := collect_mem _ _ ds h1 d hd
    split at hg
    · simp only [Except.ok.injEq] at hg
      subst hg
      simp at hd'
      rw [hd']
    · split at hg
      · exact ih _ ds' hg d hd'
      · simp at hg

end ParamVerif.Depends
