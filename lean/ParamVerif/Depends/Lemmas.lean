/-
Helper lemmas for C06 (class table).  The property theorems are in Props/C06.lean.
-/
import ParamVerif.Depends.Spec

namespace ParamVerif.Depends

/-! ### small list facts -/

theorem nodupB_iff (l : List Name) : nodupB l = true ↔ l.Nodup := by
  induction l with
  | nil => simp [nodupB]
  | cons n rest ih => simp [nodupB, ih, List.nodup_cons]

theorem hasName_iff (l : List Entry) (n : Name) : hasName l n = true ↔ n ∈ l.map (·.name) := by
  simp [hasName, List.any_eq_true]

/-! ### what well-formedness gives -/

theorem wfClassB_spec {h : Hierarchy} {c : Cls} (hwf : wfClassB h c = true) :
    ∃ d rest, h[c]? = some d ∧ d.mro = c :: rest ∧ (∀ a ∈ rest, a < c) ∧ (d.methods.map (·.name)).Nodup := by
  unfold wfClassB at hwf
  split at hwf
  · simp at hwf
  · rename_i d hd
    simp only [Bool.and_eq_true] at hwf
    obtain ⟨h1, h2⟩ := hwf
    split at h1
    · simp at h1
    · rename_i k rest hm
      simp only [Bool.and_eq_true, beq_iff_eq, List.all_eq_true, decide_eq_true_eq] at h1
      refine ⟨d, rest, hd, ?_, h1.2, (nodupB_iff _).1 h2⟩
      rw [hm, h1.1]

theorem wfMroB_class {h : Hierarchy} (hwf : wfMroB h = true) {c : Cls} (hc : c < h.length) : wfClassB h c = true := by
  unfold wfMroB at hwf
  rw [List.all_eq_true] at hwf
  exact hwf c (List.mem_range.2 hc)

/-! ### `tablesUpTo` -/

theorem tablesUpTo_spec (h : Hierarchy) (fuel : Nat) : ∀ (n : Nat) (ts : List (List Entry)),
    tablesUpTo h fuel n = .ok ts →
    ts.length = n ∧ ∀ k, k < n → ∃ d t, h[k]? = some d ∧ ts[k]? = some t ∧ tableOf h fuel (ts.take k) k d = .ok t := by
  intro n
  induction n with
  | zero =>
    intro ts hts
    simp [tablesUpTo] at hts
    subst hts
    simp
  | succ n ih =>
    intro ts hts
    simp only [tablesUpTo] at hts
    split at hts
    · simp at hts
    · rename_i ts0 h0
      obtain ⟨hlen, hk⟩ := ih ts0 h0
      split at hts
      · simp at hts
      · rename_i d hd
        split at hts
        · simp at hts
        · rename_i t ht
          simp only [Except.ok.injEq] at hts
          subst hts
          refine ⟨by simp [hlen], ?_⟩
          intro k hkn
          by_cases hlt : k < n
          · obtain ⟨d', t', h1, h2, h3⟩ := hk k hlt
            refine ⟨d', t', h1, ?_, ?_⟩
            · rw [List.getElem?_append_left (by omega)]; exact h2
            · rw [List.take_append_of_le_length (by omega)]; exact h3
          · have : k = n := by omega
            subst this
            refine ⟨d, t, hd, ?_, ?_⟩
            · rw [List.getElem?_append_right (by omega)]; simp [hlen]
            · rw [List.take_append_of_le_length (by omega), List.take_of_length_le (by omega)]; exact ht

theorem dependsTable_spec {h : Hierarchy} {fuel : Nat} {c : Cls} {t : List Entry}
    (ht : dependsTable h fuel c = .ok t) :
    ∃ ts d, tablesUpTo h fuel (c + 1) = .ok ts ∧ h[c]? = some d ∧ tableOf h fuel (ts.take c) c d = .ok t := by
  unfold dependsTable at ht
  split at ht
  · simp at ht
  · rename_i ts hts
    split at ht
    · rename_i t' ht'
      simp only [Except.ok.injEq] at ht
      subst ht
      obtain ⟨_, hk⟩ := tablesUpTo_spec h fuel (c + 1) ts hts
      obtain ⟨d, t'', h1, h2, h3⟩ := hk c (by omega)
      rw [ht'] at h2
      simp only [Option.some.injEq] at h2
      subst h2
      exact ⟨ts, d, hts, h1, h3⟩
    · simp at ht

/-! ### own entries -/

def watchDecorated (m : Method) : Bool :=
  match m.dinfo with
  | some d => d.watch
  | none => false

/-- an entry of the table of `c` is what the method `c` resolves for the name declares, resolved on `c` -/
def Resolved (h : Hierarchy) (fuel : Nat) (c : Cls) (e : Entry) : Prop :=
  ∃ k m di, resolveMethod h c e.name = some (k, m) ∧ m.dinfo = some di ∧ di.watch = true ∧
    e.queued = di.queued ∧ e.onInit = di.onInit ∧ depsOn h c fuel (some di) = .ok e.deps ∧ e.origin = c

theorem ownEntries_names (h : Hierarchy) (c : Cls) (fuel : Nat) : ∀ (ms : List Method) (es : List Entry),
    ownEntries h c fuel ms = .ok es → es.map (·.name) = (ms.filter watchDecorated).map (·.name) := by
  intro ms
  induction ms with
  | nil => intro es h1; simp [ownEntries] at h1; subst h1; simp
  | cons m rest ih =>
    intro es h1
    simp only [ownEntries] at h1
    split at h1
    · rename_i hd
      rw [ih es h1]
      simp [watchDecorated, hd]
    · rename_i d hd
      split at h1
      · simp at h1
      · split at h1
        · simp at h1
        · rename_i deps _ es' hes'
          simp only [Except.ok.injEq] at h1
          subst h1
          have := ih es' hes'
          by_cases hw : d.watch <;> simp [watchDecorated, hd, hw, this]

theorem ownEntries_mem (h : Hierarchy) (c : Cls) (fuel : Nat) : ∀ (ms : List Method) (es : List Entry),
    ownEntries h c fuel ms = .ok es → ∀ e ∈ es, e.origin = c ∧ ∃ m di, m ∈ ms ∧ m.dinfo = some di ∧ di.watch = true ∧
      m.name = e.name ∧ e.queued = di.queued ∧ e.onInit = di.onInit ∧ depsOn h c fuel (some di) = .ok e.deps := by
  intro ms
  induction ms with
  | nil => intro es h1; simp [ownEntries] at h1; subst h1; simp
  | cons m rest ih =>
    intro es h1 e he
    simp only [ownEntries] at h1
    split at h1
    · obtain ⟨ho, m', di, hm', r⟩ := ih es h1 e he
      exact ⟨ho, m', di, List.mem_cons_of_mem _ hm', r⟩
    · rename_i d hd
      split at h1
      · simp at h1
      · rename_i deps hdeps
        split at h1
        · simp at h1
        · rename_i es' hes'
          simp only [Except.ok.injEq] at h1
          subst h1
          by_cases hw : d.watch
          · simp only [hw, if_true, List.mem_cons] at he
            rcases he with rfl | he
            · exact ⟨rfl, m, d, by simp, hd, hw, rfl, rfl, rfl, hdeps⟩
            · obtain ⟨ho, m', di, hm', r⟩ := ih es' hes' e he
              exact ⟨ho, m', di, List.mem_cons_of_mem _ hm', r⟩
          · simp only [hw, Bool.false_eq_true, if_false] at he
            obtain ⟨ho, m', di, hm', r⟩ := ih es' hes' e he
            exact ⟨ho, m', di, List.mem_cons_of_mem _ hm', r⟩

/-! ### the inheritance loop -/

theorem inheritStep_spec {h : Hierarchy} {c : Cls} {fuel : Nat} {own acc acc' : List Entry} {dep : Entry}
    (hs : inheritStep h c fuel own acc dep = .ok acc') :
    acc' = acc ∨ (∃ e, acc' = acc ++ [e] ∧ e.name = dep.name ∧ dep.name ∉ (own ++ acc).map (·.name) ∧ Resolved h fuel c e) := by
  unfold inheritStep at hs
  split at hs
  · rename_i hc
    simp only [Bool.and_eq_true, Bool.not_eq_true'] at hc
    have hnot : dep.name ∉ (own ++ acc).map (·.name) := by
      intro hin
      have := (hasName_iff (own ++ acc) dep.name).2 hin
      rw [hc.1] at this; cases this
    have hw := hc.2
    unfold resolvedWatches at hw
    split at hs
    · rename_i k m hr
      rw [hr] at hw
      simp only at hw
      split at hs
      · rename_i d hd
        rw [hd] at hw
        simp only at hw
        split at hs
        · simp at hs
        · rename_i deps hdeps
          simp only [Except.ok.injEq] at hs
          exact Or.inr ⟨_, hs.symm, rfl, hnot, k, m, d, hr, hd, hw, rfl, rfl, hdeps, rfl⟩
      · exact Or.inl (Except.ok.inj hs).symm
    · exact Or.inl (Except.ok.inj hs).symm
  · exact Or.inl (Except.ok.inj hs).symm

theorem inheritStep_covers {h : Hierarchy} {c : Cls} {fuel : Nat} {own acc acc' : List Entry} {dep : Entry}
    (hs : inheritStep h c fuel own acc dep = .ok acc') (hw : resolvedWatches h c dep.name = true) :
    dep.name ∈ (own ++ acc').map (·.name) := by
  unfold inheritStep at hs
  by_cases hh : hasName (own ++ acc) dep.name = true
  · simp only [hh, Bool.not_true, Bool.false_and, Bool.false_eq_true, if_false, Except.ok.injEq] at hs
    subst hs
    exact (hasName_iff _ _).1 hh
  · simp only [Bool.not_eq_true] at hh
    simp only [hh, hw, Bool.not_false, Bool.and_self, if_true] at hs
    have hw' := hw
    unfold resolvedWatches at hw'
    cases hr : resolveMethod h c dep.name with
    | none => rw [hr] at hw'; simp at hw'
    | some km =>
      obtain ⟨k, m⟩ := km
      rw [hr] at hw' hs
      simp only at hw' hs
      cases hd : m.dinfo with
      | none => rw [hd] at hw'; simp at hw'
      | some d =>
        rw [hd] at hs
        simp only at hs
        split at hs
        · simp at hs
        · simp only [Except.ok.injEq] at hs
          subst hs
          rw [← List.append_assoc, List.map_append]
          exact List.mem_append_right _ (by simp)

/-- what the loop over the ancestors' entries leaves -/
theorem inheritFold_spec (h : Hierarchy) (c : Cls) (fuel : Nat) (own : List Entry) : ∀ (l acc res : List Entry),
    inheritFold h c fuel own acc l = .ok res → ((own ++ acc).map (·.name)).Nodup →
    ((own ++ res).map (·.name)).Nodup ∧ (∀ e ∈ acc, e ∈ res) ∧
    (∀ e ∈ res, e ∈ acc ∨ (Resolved h fuel c e ∧ e.name ∈ l.map (·.name))) ∧
    (∀ dep ∈ l, resolvedWatches h c dep.name = true → dep.name ∈ (own ++ res).map (·.name)) := by
  intro l
  induction l with
  | nil =>
    intro acc res hr hn
    simp only [inheritFold, Except.ok.injEq] at hr
    subst hr
    exact ⟨hn, fun _ h => h, fun _ h => Or.inl h, fun _ h => by cases h⟩
  | cons dep rest ih =>
    intro acc res hr hn
    simp only [inheritFold] at hr
    split at hr
    · simp at hr
    · rename_i acc' hstep
      have hcov := inheritStep_covers hstep
      rcases inheritStep_spec hstep with rfl | ⟨e, rfl, hname, hnot, hres⟩
      · obtain ⟨h1, h2, h3, h4⟩ := ih acc' res hr hn
        refine ⟨h1, h2, ?_, ?_⟩
        · intro e he
          rcases h3 e he with h | ⟨h, hm⟩
          · exact Or.inl h
          · exact Or.inr ⟨h, by simp only [List.map_cons, List.mem_cons]; exact Or.inr hm⟩
        · intro d hd hw
          rcases List.mem_cons.1 hd with rfl | hd'
          · have := hcov hw
            rw [List.map_append, List.mem_append] at this ⊢
            rcases this with h | h
            · exact Or.inl h
            · obtain ⟨x, hx, hxn⟩ := List.mem_map.1 h
              exact Or.inr (List.mem_map.2 ⟨x, h2 x hx, hxn⟩)
          · exact h4 d hd' hw
      · have hn' : ((own ++ (acc ++ [e])).map (·.name)).Nodup := by
          rw [← List.append_assoc, List.map_append, List.nodup_append]
          refine ⟨hn, by simp, ?_⟩
          intro a ha b hb eq
          simp at hb
          subst hb; subst eq
          rw [hname] at ha
          exact hnot ha
        obtain ⟨h1, h2, h3, h4⟩ := ih (acc ++ [e]) res hr hn'
        refine ⟨h1, fun x hx => h2 x (List.mem_append_left _ hx), ?_, ?_⟩
        · intro x hx
          rcases h3 x hx with h | ⟨h, hm⟩
          · rcases List.mem_append.1 h with h | h
            · exact Or.inl h
            · simp at h
              subst h
              exact Or.inr ⟨hres, by simp [hname]⟩
          · exact Or.inr ⟨h, by simp only [List.map_cons, List.mem_cons]; exact Or.inr hm⟩
        · intro d hd hw
          rcases List.mem_cons.1 hd with rfl | hd'
          · have := hcov hw
            rw [List.map_append, List.mem_append] at this ⊢
            rcases this with h | h
            · exact Or.inl h
            · obtain ⟨x, hx, hxn⟩ := List.mem_map.1 h
              exact Or.inr (List.mem_map.2 ⟨x, h2 x hx, hxn⟩)
          · exact h4 d hd' hw

/-! ### `ancestorTables` -/

theorem ancestorTables_spec (tables : List (List Entry)) : ∀ (as : List Cls) (anc : List (List Entry)),
    ancestorTables tables as = .ok anc → anc.length = as.length ∧
      ∀ i (hi : i < as.length), ∃ t, tables[as[i]]? = some t ∧ anc[i]? = some t := by
  intro as
  induction as with
  | nil => intro anc h1; simp [ancestorTables] at h1; subst h1; simp
  | cons a rest ih =>
    intro anc h1
    simp only [ancestorTables] at h1
    split at h1
    · simp at h1
    · rename_i t ht
      split at h1
      · simp at h1
      · rename_i ts hts
        simp only [Except.ok.injEq] at h1
        subst h1
        obtain ⟨hl, hi⟩ := ih ts hts
        refine ⟨by simp [hl], ?_⟩
        intro i hilt
        cases i with
        | zero => exact ⟨t, by simpa using ht, by simp⟩
        | succ i =>
          obtain ⟨t', h2, h3⟩ := hi i (by simpa using hilt)
          exact ⟨t', by simpa using h2, by simpa using h3⟩

theorem ancestorTables_mem {tables : List (List Entry)} {as : List Cls} {anc : List (List Entry)}
    (h1 : ancestorTables tables as = .ok anc) : ∀ t ∈ anc, ∃ a ∈ as, tables[a]? = some t := by
  intro t ht
  obtain ⟨hl, hi⟩ := ancestorTables_spec tables as anc h1
  obtain ⟨i, hilt, hti⟩ := List.getElem_of_mem ht
  obtain ⟨t', h2, h3⟩ := hi i (by omega)
  rw [List.getElem?_eq_getElem hilt, hti] at h3
  simp only [Option.some.injEq] at h3
  subst h3
  exact ⟨as[i], List.getElem_mem _, h2⟩

theorem ancestorTables_of_mem {tables : List (List Entry)} {as : List Cls} {anc : List (List Entry)}
    (h1 : ancestorTables tables as = .ok anc) : ∀ a ∈ as, ∃ t ∈ anc, tables[a]? = some t := by
  intro a ha
  obtain ⟨hl, hi⟩ := ancestorTables_spec tables as anc h1
  obtain ⟨i, hilt, hai⟩ := List.getElem_of_mem ha
  obtain ⟨t, h2, h3⟩ := hi i hilt
  rw [hai] at h2
  exact ⟨t, List.mem_of_getElem? h3, h2⟩

/-! ### shape of one table -/

theorem tableOf_spec {h : Hierarchy} {fuel : Nat} {tables : List (List Entry)} {c : Cls} {d : ClassDecl}
    {t : List Entry} (ht : tableOf h fuel tables c d = .ok t) :
    ∃ own anc inh, ownEntries h c fuel d.methods = .ok own ∧ ancestorTables tables d.mro.tail = .ok anc ∧
      inheritFold h c fuel own [] anc.flatten = .ok inh ∧ t = inh ++ own := by
  unfold tableOf at ht
  split at ht
  · simp at ht
  · rename_i own hown
    split at ht
    · simp at ht
    · rename_i anc hanc
      split at ht
      · simp at ht
      · rename_i inh hinh
        simp only [Except.ok.injEq] at ht
        exact ⟨own, anc, inh, hown, hanc, hinh, ht.symm⟩

/-! ### lookups -/

theorem find_name_of_nodup {ms : List Method} (hn : (ms.map (·.name)).Nodup) {m : Method} (hm : m ∈ ms) :
    ms.find? (fun x => x.name = m.name) = some m := by
  induction ms with
  | nil => cases hm
  | cons x rest ih =>
    simp only [List.map_cons, List.nodup_cons] at hn
    rcases List.mem_cons.1 hm with rfl | hm'
    · simp
    · have hne : x.name ≠ m.name := by
        intro e
        exact hn.1 (e ▸ List.mem_map.2 ⟨m, hm', rfl⟩)
      simp [hne, ih hn.2 hm']

theorem resolveIn_some {h : Hierarchy} {n : Name} : ∀ {l : List Cls} {k : Cls} {m : Method},
    resolveIn h n l = some (k, m) → k ∈ l ∧ ownMethod h k n = some m := by
  intro l
  induction l with
  | nil => intro k m h1; simp [resolveIn] at h1
  | cons a rest ih =>
    intro k m h1
    simp only [resolveIn] at h1
    split at h1
    · rename_i m' hm'
      simp only [Option.some.injEq, Prod.mk.injEq] at h1
      obtain ⟨rfl, rfl⟩ := h1
      exact ⟨by simp, hm'⟩
    · obtain ⟨h2, h3⟩ := ih h1
      exact ⟨List.mem_cons_of_mem _ h2, h3⟩

theorem ownMethod_some {h : Hierarchy} {k : Cls} {n : Name} {m : Method} (h1 : ownMethod h k n = some m) :
    ∃ d, h[k]? = some d ∧ m ∈ d.methods ∧ m.name = n := by
  unfold ownMethod at h1
  split at h1
  · rename_i d hd
    refine ⟨d, hd, List.mem_of_find?_eq_some h1, ?_⟩
    have := List.find?_some h1
    simpa using this
  · cases h1

/-- shape of the table of a well-formed class: own entries preceded by what the loop over the
ancestors' tables produced -/
theorem table_shape {h : Hierarchy} {fuel : Nat} {c : Cls} {t : List Entry}
    (hwf : wfClassB h c = true) (ht : dependsTable h fuel c = .ok t) :
    ∃ ts d rest own anc inh, tablesUpTo h fuel (c + 1) = .ok ts ∧ h[c]? = some d ∧ d.mro = c :: rest ∧
      (∀ a ∈ rest, a < c) ∧ (d.methods.map (·.name)).Nodup ∧ ownEntries h c fuel d.methods = .ok own ∧
      ancestorTables (ts.take c) rest = .ok anc ∧ inheritFold h c fuel own [] anc.flatten = .ok inh ∧ t = inh ++ own := by
  obtain ⟨ts, d, hts, hd, htab⟩ := dependsTable_spec ht
  obtain ⟨own, anc, inh, hown, hanc, hinh, rfl⟩ := tableOf_spec htab
  obtain ⟨d', rest, hd', hmro, hlt, hnd⟩ := wfClassB_spec hwf
  rw [hd] at hd'
  simp only [Option.some.injEq] at hd'
  subst hd'
  rw [hmro] at hanc
  exact ⟨ts, d, rest, own, anc, inh, hts, hd, hmro, hlt, hnd, hown, hanc, hinh, rfl⟩

/-- a function of a class body is what that class resolves for its name -/
theorem resolve_own {h : Hierarchy} {c : Cls} {d : ClassDecl} {rest : List Cls} (hd : h[c]? = some d)
    (hmro : d.mro = c :: rest) (hnd : (d.methods.map (·.name)).Nodup) {m : Method} (hm : m ∈ d.methods) :
    resolveMethod h c m.name = some (c, m) := by
  simp [resolveMethod, mroOf, hd, hmro, resolveIn, ownMethod, find_name_of_nodup hnd hm]

def keyOf (d : PDep) : Key := ⟨d.name, d.what⟩

theorem collect_mem (g : Spec → Except Err (List PDep)) : ∀ (l : List Spec) (ds : List PDep),
    collect g l = .ok ds → ∀ d ∈ ds, ∃ s ∈ l, ∃ ds', g s = .ok ds' ∧ d ∈ ds' := by
  intro l
  induction l with
  | nil => intro ds h1; simp [collect] at h1; subst h1; simp
  | cons s rest ih =>
    intro ds h1 d hd
    simp only [collect] at h1
    split at h1
    · simp at h1
    · rename_i a ha
      split at h1
      · simp at h1
      · rename_i b hb
        simp only [Except.ok.injEq] at h1
        subst h1
        rcases List.mem_append.1 hd with h2 | h2
        · exact ⟨s, by simp, a, ha, h2⟩
        · obtain ⟨s', hs', r⟩ := ih b hb d h2
          exact ⟨s', List.mem_cons_of_mem _ hs', r⟩

/-- every `PInfo` computed by a class's metaclass run carries that class -/
theorem depsOn_cls (h : Hierarchy) (c : Cls) : ∀ (f : Nat) (di : Option DInfo) (ds : List PDep),
    depsOn h c f di = .ok ds → ∀ d ∈ ds, d.cls = c := by
  intro f
  induction f with
  | zero => intro di ds h1; simp [depsOn] at h1
  | succ f ih =>
    intro di ds h1 d hd
    simp only [depsOn] at h1
    obtain ⟨s, _, ds', hg, hd'⟩ := collect_mem _ _ ds h1 d hd
    split at hg
    · simp only [Except.ok.injEq] at hg
      subst hg
      simp at hd'
      rw [hd']
    · split at hg
      · exact ih _ ds' hg d hd'
      · simp at hg

/-! ### an independent description of "depends on": the closure through method-name dependencies -/

/-- `DependsOn h c di k`: a function with `_dinfo = di` (`none`: undecorated), looked at from class `c`,
depends on the key `k` — directly (one of its specs names a Parameter of `c`; an undecorated function
names every Parameter of `c`), or through a function it names, as resolved on `c`. -/
inductive DependsOn (h : Hierarchy) (c : Cls) : Option DInfo → Key → Prop
  | direct (di : Option DInfo) (s : Spec) : s ∈ specsOf h c di → s.attr ∈ allParams h c →
      DependsOn h c di ⟨s.attr, s.what⟩
  | via (di : Option DInfo) (s : Spec) (k' : Cls) (m : Method) (key : Key) : s ∈ specsOf h c di →
      s.attr ∉ allParams h c → resolveMethod h c s.attr = some (k', m) → DependsOn h c m.dinfo key →
      DependsOn h c di key

theorem collect_sub (g : Spec → Except Err (List PDep)) : ∀ (l : List Spec) (ds : List PDep),
    collect g l = .ok ds → ∀ s ∈ l, ∃ ds', g s = .ok ds' ∧ ∀ d ∈ ds', d ∈ ds := by
  intro l
  induction l with
  | nil => intro ds _ s hs; cases hs
  | cons s0 rest ih =>
    intro ds h1 s hs
    simp only [collect] at h1
    split at h1
    · simp at h1
    · rename_i a ha
      split at h1
      · simp at h1
      · rename_i b hb
        simp only [Except.ok.injEq] at h1
        subst h1
        rcases List.mem_cons.1 hs with rfl | hs'
        · exact ⟨a, ha, fun d hd => List.mem_append_left _ hd⟩
        · obtain ⟨ds', h2, h3⟩ := ih b hb s hs'
          exact ⟨ds', h2, fun d hd => List.mem_append_right _ (h3 d hd)⟩

/-- **the recursion `_params_depended_on` computes exactly the closure** (whenever it terminates
without error, i.e. for acyclic, resolvable dependencies) -/
theorem depsOn_iff_dependsOn (h : Hierarchy) (c : Cls) : ∀ (f : Nat) (di : Option DInfo) (ds : List PDep),
    depsOn h c f di = .ok ds → ∀ k, k ∈ ds.map keyOf ↔ DependsOn h c di k := by
  intro f
  induction f with
  | zero => intro di ds h1; simp [depsOn] at h1
  | succ f ih =>
    intro di ds h1 k
    simp only [depsOn] at h1
    constructor
    · intro hk
      obtain ⟨d, hd, rfl⟩ := List.mem_map.1 hk
      obtain ⟨s, hs, ds', hg, hd'⟩ := collect_mem _ _ ds h1 d hd
      split at hg
      · rename_i hp
        simp only [Except.ok.injEq] at hg
        subst hg
        simp at hd'
        subst hd'
        exact DependsOn.direct di s hs hp
      · rename_i hp
        split at hg
        · rename_i k' m hr
          exact DependsOn.via di s k' m _ hs hp hr ((ih m.dinfo ds' hg _).1 (List.mem_map.2 ⟨d, hd', rfl⟩))
        · simp at hg
    · intro hdep
      -- induction on the derivation, for every fuel at which the recursion succeeded
      have key : ∀ (di : Option DInfo) (k : Key), DependsOn h c di k → ∀ (f : Nat) (ds : List PDep),
          depsOn h c f di = .ok ds → k ∈ ds.map keyOf := by
        intro di k hd
        induction hd with
        | direct di s hs hp =>
          intro f ds h2
          cases f with
          | zero => simp [depsOn] at h2
          | succ f =>
            simp only [depsOn] at h2
            obtain ⟨ds', hg, hsub⟩ := collect_sub _ _ ds h2 s hs
            simp only [hp, if_true, Except.ok.injEq] at hg
            subst hg
            exact List.mem_map.2 ⟨⟨c, s.attr, s.what⟩, hsub _ (by simp), rfl⟩
        | via di s k' m key hs hp hr _ ih' =>
          intro f ds h2
          cases f with
          | zero => simp [depsOn] at h2
          | succ f =>
            simp only [depsOn] at h2
            obtain ⟨ds', hg, hsub⟩ := collect_sub _ _ ds h2 s hs
            simp only [hp, if_false, hr] at hg
            obtain ⟨d, hd, hdk⟩ := List.mem_map.1 (ih' f ds' hg)
            exact List.mem_map.2 ⟨d, hsub d hd, hdk⟩
      exact key di k hdep (f + 1) ds (by simp only [depsOn]; exact h1)

end ParamVerif.Depends
