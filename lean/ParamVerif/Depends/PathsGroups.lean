/-
Helper lemmas for C07, part 3: the groups `_update_deps` forms from all the dependencies of a method,
the filter dict and callback `_watch_group` computes from EVERY dependency of a group, and the
rebuild: after `_update_deps` the watchers of the method are exactly `builtM` of the current graph.
-/
import ParamVerif.Depends.PathsLemmas

namespace ParamVerif.Depends

/-! ### grouping by object, first-occurrence order -/

def keysOf (gs : List Group) : List Oid := gs.map (·.1)

def membersOf (gs : List Group) (o : Oid) : List (PathSpec × Name) :=
  match gs.find? (fun g => g.1 = o) with
  | some g => g.2
  | none => []

theorem addToGroups_keys (s : PathSpec) (o : Oid) (n : Name) : ∀ (gs : List Group),
    keysOf (addToGroups gs s (o, n)) = if o ∈ keysOf gs then keysOf gs else keysOf gs ++ [o] := by
  intro gs
  induction gs with
  | nil => simp [addToGroups, keysOf]
  | cons g rest ih =>
    obtain ⟨k, l⟩ := g
    by_cases hk : k = o
    · simp [addToGroups, keysOf, hk]
    · have hk' : ¬ o = k := fun e => hk e.symm
      simp only [keysOf] at ih
      simp only [addToGroups, hk, if_false, keysOf, List.map_cons, ih, List.mem_cons, hk', false_or]
      split <;> simp_all

theorem addToGroups_members (s : PathSpec) (o : Oid) (n : Name) : ∀ (gs : List Group) (o' : Oid),
    membersOf (addToGroups gs s (o, n)) o' = membersOf gs o' ++ (if o' = o then [(s, n)] else []) := by
  intro gs
  induction gs with
  | nil =>
    intro o'
    by_cases h : o' = o
    · simp [addToGroups, membersOf, h]
    · have : ¬ o = o' := fun e => h e.symm
      simp [addToGroups, membersOf, h, this]
  | cons g rest ih =>
    intro o'
    obtain ⟨k, l⟩ := g
    by_cases hk : k = o
    · subst hk
      by_cases h : k = o'
      · subst h; simp [addToGroups, membersOf]
      · have : ¬ o' = k := fun e => h e.symm
        simp [addToGroups, membersOf, h, this]
    · by_cases h : k = o'
      · subst h
        simp [addToGroups, membersOf, hk]
      · have := ih o'
        simp only [membersOf] at this
        simp [addToGroups, membersOf, hk, h, this]

abbrev SDep := PathSpec × (Oid × Name)

/-- `grouped[(id(dep.inst), …)].append((ddep, dep))` over all dependencies -/
def groupAll (D : List SDep) (acc : List Group) : List Group := D.foldl (fun acc sd => addToGroups acc sd.1 sd.2) acc

theorem groupAll_spec : ∀ (D : List SDep) (acc : List Group), (keysOf acc).Nodup →
    (keysOf (groupAll D acc)).Nodup ∧
    (∀ o, membersOf (groupAll D acc) o = membersOf acc o ++ (D.filter (fun sd => sd.2.1 = o)).map (fun sd => (sd.1, sd.2.2))) ∧
    (∀ o, o ∈ keysOf (groupAll D acc) ↔ o ∈ keysOf acc ∨ ∃ sd ∈ D, sd.2.1 = o) := by
  intro D
  induction D with
  | nil => intro acc h; simp [groupAll, h]
  | cons sd rest ih =>
    intro acc hn
    obtain ⟨s, o, n⟩ := sd
    have hk := addToGroups_keys s o n acc
    have hn' : (keysOf (addToGroups acc s (o, n))).Nodup := by
      rw [hk]
      split
      · exact hn
      · rename_i hnot
        rw [List.nodup_append]
        refine ⟨hn, by simp, ?_⟩
        intro a ha b hb e
        simp at hb
        subst hb; subst e
        exact hnot ha
    obtain ⟨h1, h2, h3⟩ := ih (addToGroups acc s (o, n)) hn'
    simp only [groupAll, List.foldl_cons] at h1 h2 h3 ⊢
    refine ⟨h1, fun o' => ?_, fun o' => ?_⟩
    · rw [h2 o', addToGroups_members]
      by_cases h : o' = o
      · subst h; simp
      · have : ¬ o = o' := fun e => h e.symm
        simp [h, this]
    · rw [h3 o', hk]
      constructor
      · rintro (h | ⟨sd, hsd, h⟩)
        · split at h
          · exact Or.inl h
          · rcases List.mem_append.1 h with h | h
            · exact Or.inl h
            · simp at h; exact Or.inr ⟨(s, o, n), by simp, h.symm⟩
        · exact Or.inr ⟨sd, List.mem_cons_of_mem _ hsd, h⟩
      · rintro (h | ⟨sd, hsd, h⟩)
        · left
          split
          · exact h
          · exact List.mem_append_left _ h
        · rcases List.mem_cons.1 hsd with rfl | hsd'
          · left
            simp only at h
            subst h
            split
            · assumption
            · simp
          · exact Or.inr ⟨sd, hsd', h⟩

theorem members_of_mem {gs : List Group} (hn : (keysOf gs).Nodup) {g : Group} (hg : g ∈ gs) : membersOf gs g.1 = g.2 := by
  induction gs with
  | nil => cases hg
  | cons x rest ih =>
    simp only [keysOf, List.map_cons, List.nodup_cons] at hn
    rcases List.mem_cons.1 hg with rfl | hg'
    · simp [membersOf]
    · have hne : ¬ x.1 = g.1 := fun e => hn.1 (e ▸ List.mem_map.2 ⟨g, hg', rfl⟩)
      have := ih hn.2 hg'
      simp only [membersOf] at this
      simp [membersOf, hne, this]

/-- all dependencies of the method, spec by spec, as `_spec_to_obj` returns them -/
def allDeps (w : PWorld) (t : Oid) (specs : List PathSpec) : List SDep :=
  specs.flatMap (fun s => (depsRoot w t s.path s.leaf).map (fun d => (s, d)))

theorem groupSpecs_eq (w : PWorld) (t : Oid) : ∀ (specs : List PathSpec) (gs : List Group),
    (∀ s ∈ specs, specToObj w t (s.path.length + 1) s.path s.leaf = .ok (depsRoot w t s.path s.leaf)) →
    groupSpecs w t gs specs = .ok (groupAll (allDeps w t specs) gs) := by
  intro specs
  induction specs with
  | nil => intro gs _; rfl
  | cons s rest ih =>
    intro gs h
    simp only [groupSpecs, h s (by simp)]
    rw [ih _ (fun s' hs' => h s' (List.mem_cons_of_mem _ hs'))]
    simp [allDeps, groupAll, List.foldl_append, List.foldl_map]

/-! ### the filter dict -/

abbrev St := Option (Option (List (List Name)))

/-- what one dependency does to the entry of its parameter name in the dict -/
def stStep (st : St) (sp : Option (List (List Name))) : St :=
  some (match sp, st.getD (some []) with
        | some l, some known => some (extendNew known l)
        | _, _ => none)

theorem chLookup_append (ch : Changed) (n : Name) (v : Option (List (List Name))) (p : Name) :
    chLookup (ch ++ [(n, v)]) p = match chLookup ch p with
      | some x => some x
      | none => if n = p then some v else none := by
  induction ch with
  | nil => simp [chLookup]
  | cons kv rest ih =>
    obtain ⟨k, v'⟩ := kv
    by_cases hk : k = p
    · simp [chLookup, hk]
    · simp [chLookup, hk, ih]

theorem chLookup_chSet (ch : Changed) (n : Name) (v : Option (List (List Name))) (p : Name) :
    chLookup (chSet ch n v) p = if p = n then (chLookup ch n).map (fun _ => v) else chLookup ch p := by
  induction ch with
  | nil => simp [chSet, chLookup]
  | cons kv rest ih =>
    obtain ⟨k, v'⟩ := kv
    by_cases hk : k = n
    · subst hk
      by_cases hp : p = k
      · subst hp; simp [chSet, chLookup]
      · have : ¬ k = p := fun e => hp e.symm
        simp [chSet, chLookup, hp, this]
    · by_cases hp : p = n
      · subst hp
        simp [chSet, chLookup, hk, ih]
      · by_cases hkp : k = p
        · simp [chSet, chLookup, hkp, hp]
        · simp [chSet, chLookup, hk, hkp, hp, ih]

theorem chLookup_addSubparams (ch : Changed) (n : Name) (sp : Option (List (List Name))) (p : Name) :
    chLookup (addSubparams ch n sp) p = if p = n then stStep (chLookup ch n) sp else chLookup ch p := by
  unfold addSubparams
  cases hl : chLookup ch n with
  | none =>
    simp only
    have h1 : chLookup (ch ++ [(n, some [])]) n = some (some []) := by
      rw [chLookup_append, hl]; simp
    rw [h1]
    by_cases hp : p = n
    · subst hp
      cases sp with
      | none => simp [chLookup_chSet, h1, stStep]
      | some l => simp [chLookup_chSet, h1, stStep]
    · have hnp : ¬ n = p := fun e => hp e.symm
      cases sp with
      | none =>
        simp only [chLookup_chSet, hp, if_false, chLookup_append, hnp]
        cases chLookup ch p <;> rfl
      | some l =>
        simp only [chLookup_chSet, hp, if_false, chLookup_append, hnp]
        cases chLookup ch p <;> rfl
  | some st =>
    simp only
    by_cases hp : p = n
    · subst hp
      cases sp with
      | none => simp [chLookup_chSet, hl, stStep]
      | some l => cases st <;> simp [chLookup_chSet, hl, stStep]
    · cases sp with
      | none => simp [chLookup_chSet, hp]
      | some l => cases st <;> simp [hl, chLookup_chSet, hp]

theorem mem_extendNew (l : List (List Name)) : ∀ (k : List (List Name)) (x : List Name),
    x ∈ extendNew k l ↔ x ∈ k ∨ x ∈ l := by
  unfold extendNew
  induction l with
  | nil => intro k x; simp
  | cons a rest ih =>
    intro k x
    simp only [List.foldl_cons]
    rw [ih]
    by_cases ha : a ∈ k
    · simp only [ha, if_true, List.mem_cons]
      constructor
      · rintro (h | h)
        · exact Or.inl h
        · exact Or.inr (Or.inr h)
      · rintro (h | rfl | h)
        · exact Or.inl h
        · exact Or.inl ha
        · exact Or.inr h
    · simp only [ha, if_false, List.mem_append, List.mem_cons, List.not_mem_nil, or_false]
      constructor
      · rintro ((h | h) | h)
        · exact Or.inl h
        · exact Or.inr (Or.inl h)
        · exact Or.inr (Or.inr h)
      · rintro (h | h | h)
        · exact Or.inl (Or.inl h)
        · exact Or.inl (Or.inr h)
        · exact Or.inr h

theorem extendNew_all (f : List Name → Bool) (k l : List (List Name)) :
    (extendNew k l).all f = (k.all f && l.all f) := by
  rw [Bool.eq_iff_iff]
  simp only [List.all_eq_true, Bool.and_eq_true, mem_extendNew]
  constructor
  · intro h; exact ⟨fun x hx => h x (Or.inl hx), fun x hx => h x (Or.inr hx)⟩
  · rintro ⟨h1, h2⟩ x (hx | hx)
    · exact h1 x hx
    · exact h2 x hx

/-- does the dict entry let `_skip_event` skip -/
def evSt (f : List Name → Bool) : St → Bool
  | some (some K) => K.all f
  | _ => false

theorem evSt_fold (f : List Name → Bool) : ∀ (sps : List (Option (List (List Name)))) (st : St),
    evSt f (sps.foldl stStep st) =
      ((match st with
        | none => !sps.isEmpty
        | some none => false
        | some (some K) => K.all f) &&
       sps.all (fun sp => match sp with | some l => l.all f | none => false)) := by
  intro sps
  induction sps with
  | nil => intro st; cases st with
    | none => simp [evSt]
    | some x => cases x <;> simp [evSt]
  | cons sp rest ih =>
    intro st
    simp only [List.foldl_cons]
    rw [ih]
    cases sp with
    | none => simp [stStep]
    | some l =>
      cases st with
      | none =>
        have := extendNew_all f [] l
        simp [stStep, this]
      | some x =>
        cases x with
        | none => simp [stStep]
        | some K => simp [stStep, extendNew_all, Bool.and_assoc]

/-- sub-paths one spec contributes for the holder `o` (`none`: `o` holds its leaf) -/
def spOf (w : PWorld) (t : Oid) (o : Oid) (s : PathSpec) : Option (List (List Name)) :=
  (rddCore (chain w (.ref t) s.path) s.elems o none).1

/-- does the spec need the parent to be notified when `o` changes -/
def cbNeeded (w : PWorld) (t : Oid) (o : Oid) (s : PathSpec) : Bool :=
  (rddCore (chain w (.ref t) s.path) s.elems o none).2.isSome

theorem rddCore_attr (so : List Val) (el : List Name) (o : Oid) (a : Option Name) :
    rddCore so el o a = ((rddCore so el o none).1, if (rddCore so el o none).2.isSome then some a else none) := by
  unfold rddCore
  split
  · rfl
  · simp only
    split <;> simp

def filterOf (w : PWorld) (t : Oid) (o : Oid) (mems : List (PathSpec × Name)) (ch : Changed) : Changed :=
  mems.foldl (fun ch sn => addSubparams ch sn.2 (spOf w t o sn.1)) ch

theorem groupFilter_eq (w : PWorld) (t : Oid) (a : Option Name) (o : Oid) : ∀ (mems : List (PathSpec × Name))
    (ch : Changed) (cb : Option (Option Name)), (∀ sn ∈ mems, sn.1.leaf ≠ "param") →
    groupFilter w t a o mems (ch, cb) = .ok (filterOf w t o mems ch,
      if cb.isSome then cb else if mems.any (fun sn => cbNeeded w t o sn.1) then some a else none) := by
  intro mems
  induction mems with
  | nil => intro ch cb _; cases cb <;> simp [groupFilter, filterOf]
  | cons sn rest ih =>
    intro ch cb hl
    obtain ⟨s, n⟩ := sn
    simp only [groupFilter, resolveDynamicDeps_core w t s o a (hl (s, n) (by simp))]
    rw [rddCore_attr, ih _ _ (fun x hx => hl x (List.mem_cons_of_mem _ hx))]
    have e1 : (rddCore (chain w (.ref t) s.path) s.elems o none).1 = spOf w t o s := rfl
    have e2 : (rddCore (chain w (.ref t) s.path) s.elems o none).2.isSome = cbNeeded w t o s := rfl
    rw [e1, e2]
    simp only [filterOf, List.foldl_cons, List.any_cons]
    congr 2
    cases cb with
    | some c => simp
    | none =>
      by_cases h : cbNeeded w t o s = true
      · simp [h]
      · have h' : cbNeeded w t o s = false := by simpa using h
        have hor : (cbNeeded w t o s || rest.any fun sn => cbNeeded w t o sn.1) = (rest.any fun sn => cbNeeded w t o sn.1) := by
          rw [h', Bool.false_or]
        simp only [hor]
        simp [h']

theorem chLookup_filterOf (w : PWorld) (t : Oid) (o : Oid) (p : Name) : ∀ (mems : List (PathSpec × Name)) (ch : Changed),
    chLookup (filterOf w t o mems ch) p =
      ((mems.filter (fun sn => sn.2 = p)).map (fun sn => spOf w t o sn.1)).foldl stStep (chLookup ch p) := by
  intro mems
  induction mems with
  | nil => intro ch; rfl
  | cons sn rest ih =>
    intro ch
    simp only [filterOf, List.foldl_cons] at ih ⊢
    rw [ih, chLookup_addSubparams]
    by_cases h : sn.2 = p
    · subst h; simp
    · have : ¬ p = sn.2 := fun e => h e.symm
      simp [h, this]

/-- does the dependency of spec `s` on holder `o` let an event (old → new) be skipped -/
def skipsFor (w w' : PWorld) (t o : Oid) (old new : Val) (s : PathSpec) : Bool :=
  match spOf w t o s with
  | some l => l.all (fun r => subEq (subValue w' old r) (subValue w' new r))
  | none => false

/-- **when the rebuilt filter skips**: the event's parameter has at least one dependency in the
group, none of them a leaf, and all their sub-path values compare equal -/
theorem skipEvent_filterOf (w w' : PWorld) (t : Oid) (o : Oid) (p : Name) (mems : List (PathSpec × Name)) (old new : Val) :
    skipEvent w' (filterOf w t o mems []) p old new =
      (!(mems.filter (fun sn => sn.2 = p)).isEmpty &&
       (mems.filter (fun sn => sn.2 = p)).all (fun sn => skipsFor w w' t o old new sn.1)) := by
  have h1 : skipEvent w' (filterOf w t o mems []) p old new =
      evSt (fun r => subEq (subValue w' old r) (subValue w' new r)) (chLookup (filterOf w t o mems []) p) := by
    unfold skipEvent evSt
    cases chLookup (filterOf w t o mems []) p with
    | none => rfl
    | some x => cases x <;> rfl
  rw [h1, chLookup_filterOf, evSt_fold]
  simp [chLookup, List.all_map, Function.comp, skipsFor]

/-! ### what the rebuilt watchers look like -/

/-- the observable shape of an installed watcher (ids and the `attribute` kept inside the callback
are not observable) -/
structure Shape where
  on : Oid
  params : List Name
  changed : Changed
  cb : Bool
  deriving Repr, DecidableEq

def shapeOf (x : DW) : Shape := ⟨x.on, x.params, x.changed, x.callback.isSome⟩

def groupShape (w : PWorld) (t : Oid) (g : Group) : Shape :=
  ⟨g.1, dedupNames [] (g.2.map (·.2)), filterOf w t g.1 g.2 [], g.2.any (fun sn => cbNeeded w t g.1 sn.1)⟩

/-- **the watchers a method with path specs `specs` needs in the current graph**: one per object
that holds at least one of its dependencies -/
def builtM (w : PWorld) (t : Oid) (specs : List PathSpec) : List Shape :=
  (groupAll (allDeps w t specs) []).map (groupShape w t)

theorem dynGet_dynAppend (d : List ((Oid × Name) × List Nat)) (k : Oid × Name) (i : Nat) :
    dynGet (dynAppend d k i) k = dynGet d k ++ [i] ∧
    (∀ e ∈ dynAppend d k i, e.1 = k ∨ ∃ e' ∈ d, e'.1 = e.1) := by
  induction d with
  | nil => simp [dynAppend, dynGet]
  | cons e rest ih =>
    obtain ⟨k', l⟩ := e
    by_cases hk : k' = k
    · subst hk
      refine ⟨by simp [dynAppend, dynGet], ?_⟩
      intro e he
      simp only [dynAppend, if_true, List.mem_cons] at he
      rcases he with rfl | he
      · exact Or.inl rfl
      · exact Or.inr ⟨e, List.mem_cons_of_mem _ he, rfl⟩
    · have hk' : ¬ k = k' := fun e => hk e.symm
      simp only [dynAppend, hk, if_false]
      constructor
      · have := ih.1
        simp only [dynGet, List.find?_cons, hk, decide_false] at this ⊢
        exact this
      · intro e he
        rcases List.mem_cons.1 he with rfl | he'
        · exact Or.inr ⟨(k', l), by simp, rfl⟩
        · rcases ih.2 e he' with h1 | ⟨e', h1, h2⟩
          · exact Or.inl h1
          · exact Or.inr ⟨e', List.mem_cons_of_mem _ h1, h2⟩

/-- `_watch_group` for every group: the watchers are appended in order, with consecutive ids, all
recorded in `dynamic_watchers[m]`, shaped as `groupShape` says, their callbacks `attrib` or none -/
theorem watchGroups_spec (w : PWorld) (t : Oid) (m : Name) (attrib : Option Name) :
    ∀ (gs : List Group) (w0 : PWorld), SameGraph w w0 → (∀ g ∈ gs, ∀ sn ∈ g.2, sn.1.leaf ≠ "param") →
    (∀ e ∈ w0.dyn, e.1 = (t, m)) →
    ∃ w' news, watchGroups w0 t m attrib gs = .ok w' ∧ SameGraph w w' ∧ w'.log = w0.log ∧
      w'.watchers = w0.watchers ++ news ∧ news.map shapeOf = gs.map (groupShape w t) ∧
      dynGet w'.dyn (t, m) = dynGet w0.dyn (t, m) ++ news.map (·.id) ∧ (∀ e ∈ w'.dyn, e.1 = (t, m)) ∧
      (∀ x ∈ news, x.owner = t ∧ x.method = m ∧ (x.callback = none ∨ x.callback = some attrib)) := by
  intro gs
  induction gs with
  | nil =>
    intro w0 hg _ hd
    exact ⟨w0, [], rfl, hg, rfl, by simp, rfl, by simp, hd, by simp⟩
  | cons g rest ih =>
    intro w0 hg hl hd
    simp only [watchGroups, watchGroup]
    have hgf := groupFilter_eq w0 t attrib g.1 g.2 [] none (hl g (by simp))
    simp only [Option.isSome_none, Bool.false_eq_true, if_false] at hgf
    rw [hgf]
    simp only
    have hd1 := dynGet_dynAppend w0.dyn (t, m) w0.nextId
    have hfo : filterOf w0 t g.1 g.2 [] = filterOf w t g.1 g.2 [] := by
      simp only [filterOf, spOf, chain_congr hg]
    have hcb : (g.2.any fun sn => cbNeeded w0 t g.1 sn.1) = (g.2.any fun sn => cbNeeded w t g.1 sn.1) := by
      simp only [cbNeeded, chain_congr hg]
    obtain ⟨w', news, h1, h2, h3, h4, h5, h6, h7, h8⟩ := ih
      { w0 with watchers := w0.watchers ++ [⟨w0.nextId, g.1, dedupNames [] (g.2.map (·.2)), t, m, filterOf w0 t g.1 g.2 [],
                    if (g.2.any fun sn => cbNeeded w0 t g.1 sn.1) then some attrib else none⟩],
                nextId := w0.nextId + 1, dyn := dynAppend w0.dyn (t, m) w0.nextId }
      ⟨hg.1, hg.2⟩ (fun g' hg' => hl g' (List.mem_cons_of_mem _ hg')) (by
        intro e he
        rcases hd1.2 e he with h | ⟨e', he', h⟩
        · exact h
        · rw [← h]; exact hd e' he')
    refine ⟨w', (⟨w0.nextId, g.1, dedupNames [] (g.2.map (·.2)), t, m, filterOf w0 t g.1 g.2 [],
                    if (g.2.any fun sn => cbNeeded w0 t g.1 sn.1) then some attrib else none⟩ : DW) :: news,
      h1, h2, h3, ?_, ?_, ?_, h7, ?_⟩
    · rw [h4]; simp
    · simp only [List.map_cons, h5, List.cons.injEq, and_true]
      simp only [shapeOf, groupShape, hfo, hcb]
      congr 1
      by_cases hany : (g.2.any fun sn => cbNeeded w t g.1 sn.1) = true <;> simp [hany]
    · rw [h6, hd1.1]; simp
    · intro x hx
      rcases List.mem_cons.1 hx with rfl | hx
      · refine ⟨rfl, rfl, ?_⟩
        simp only
        split
        · exact Or.inr rfl
        · exact Or.inl rfl
      · exact h8 x hx

/-! ### scope, invariant, rebuild -/

/-- scope of the C07 theorems: `t` is the only object whose class has dependent methods; that class
has the single method `m` (whose body may raise on any of its invocations) with the path specs
`specs` (any number, through the same or different sub-objects), whose leaves are ordinary integer-valued Parameters; every object has the parameters
the specs name; path parameters hold `None` or an existing object -/
structure Scope (w : PWorld) (t : Oid) (m : Name) (specs : List PathSpec) : Prop where
  tcls : ∃ ct rs, classOf w t = some ct ∧ ct.methods = [⟨m, specs, rs⟩]
  others : ∀ o c, o ≠ t → classOf w o = some c → c.methods = []
  nonempty : specs ≠ []
  leaf : ∀ s ∈ specs, s.leaf ≠ "param"
  path : ∀ s ∈ specs, s.path ≠ []
  names : ∀ s ∈ specs, ∀ n ∈ s.path, HasName w n ∧ ObjName w n ∧ n ≠ "param"
  hasLeaf : ∀ s ∈ specs, HasName w s.leaf

theorem HasName.congr {w w' : PWorld} (h : SameGraph w w') {n : Name} (hn : HasName w n) : HasName w' n := by
  intro o ho
  rw [getParam_congr h]
  exact hn o (by rw [← h.1]; exact ho)

theorem ObjName.congr {w w' : PWorld} (h : SameGraph w w') {n : Name} (hn : ObjName w n) : ObjName w' n := by
  intro o v hv
  rw [getParam_congr h] at hv
  rcases hn o v hv with h1 | ⟨o', h1, h2⟩
  · exact Or.inl h1
  · exact Or.inr ⟨o', h1, by rw [h.1]; exact h2⟩

theorem Scope.congr {w w' : PWorld} {t : Oid} {m : Name} {specs : List PathSpec} (h : SameGraph w w')
    (hs : Scope w t m specs) : Scope w' t m specs :=
  ⟨by simpa [classOf_congr h] using hs.tcls, fun o c ho hc => hs.others o c ho (by rw [← classOf_congr h]; exact hc),
   hs.nonempty, hs.leaf, hs.path,
   fun s hs' n hn => ⟨(hs.names s hs' n hn).1.congr h, (hs.names s hs' n hn).2.1.congr h, (hs.names s hs' n hn).2.2⟩,
   fun s hs' => (hs.hasLeaf s hs').congr h⟩

/-- every spec's resolution chain visits no object twice -/
def Simple (w : PWorld) (t : Oid) (specs : List PathSpec) : Prop := ∀ s ∈ specs, (chainObjsFrom w t s.path).Nodup

/-- the watchers of `t.m` are exactly those the current graph needs, all recorded in `dynamic_watchers` -/
structure Installed (w : PWorld) (t : Oid) (m : Name) (specs : List PathSpec) : Prop where
  shapes : w.watchers.map shapeOf = builtM w t specs
  owned : ∀ x ∈ w.watchers, x.owner = t ∧ x.method = m ∧ x.id ∈ dynGet w.dyn (t, m)
  cbs : ∀ x ∈ w.watchers, ∀ a, x.callback = some a → a = none ∨ ∃ r, a = some r ∧ ∃ s ∈ specs, s.root = r
  dynKeys : ∀ e ∈ w.dyn, e.1 = (t, m)

theorem classOf_lt {w : PWorld} {t : Oid} {c : PClass} (h : classOf w t = some c) : t < w.objs.length := by
  unfold classOf at h
  rcases Nat.lt_or_ge t w.objs.length with h1 | h1
  · exact h1
  · rw [List.getElem?_eq_none h1] at h; cases h

theorem builtM_congr {w w' : PWorld} (h : SameGraph w w') (t : Oid) (specs : List PathSpec) :
    builtM w' t specs = builtM w t specs := by
  have hd : allDeps w' t specs = allDeps w t specs := by
    simp only [allDeps, depsRoot, getParam_congr h, depsFrom_congr h]
  simp only [builtM, hd]
  apply List.map_congr_left
  intro g _
  simp only [groupShape, filterOf, spOf, cbNeeded, chain_congr h]

/-- **the rebuild**: with every installed watcher recorded in `dynamic_watchers[m]`, an
`_update_deps(attribute, init)` that applies (`attribute` is `None` or the root of one of the specs)
removes them all and installs exactly the watchers the current graph needs, for ALL the specs -/
theorem rebuild_gen (w : PWorld) (t : Oid) (m : Name) (specs : List PathSpec) (attrib : Option Name) (init : Bool)
    (hs : Scope w t m specs)
    (hown : ∀ x ∈ w.watchers, x.id ∈ dynGet w.dyn (t, m)) (hkeys : ∀ e ∈ w.dyn, e.1 = (t, m))
    (hattr : attrib = none ∨ ∃ r, attrib = some r ∧ ∃ s ∈ specs, s.root = r)
    (hinit : init = true → w.watchers = [] ∧ w.dyn = [] ∧ attrib = none) :
    ∃ w', updateDeps w t attrib init = .ok w' ∧ SameGraph w w' ∧ w'.log = w.log ∧ Installed w' t m specs := by
  obtain ⟨ct, rs, hct, hm⟩ := hs.tcls
  have htl : t < w.objs.length := classOf_lt hct
  have hw1 : ({ w with watchers := w.watchers.filter (fun x => !((dynGet w.dyn (t, m)).contains x.id)),
                       dyn := w.dyn.filter (fun e => e.1 ≠ (t, m)) } : PWorld) =
             { w with watchers := [], dyn := [] } := by
    have h1 : w.watchers.filter (fun x => !((dynGet w.dyn (t, m)).contains x.id)) = [] := by
      rw [List.filter_eq_nil_iff]
      intro x hx
      simp [hown x hx]
    have h2 : w.dyn.filter (fun e => e.1 ≠ (t, m)) = [] := by
      rw [List.filter_eq_nil_iff]
      intro e he
      simp [hkeys e he]
    rw [h1, h2]
  generalize hw1def : ({ w with watchers := [], dyn := [] } : PWorld) = w1 at hw1
  have hg1 : SameGraph w w1 := by subst hw1def; exact ⟨rfl, rfl⟩
  have hs1 : Scope w1 t m specs := hs.congr hg1
  have hgroups : groupSpecs w1 t [] specs = .ok (groupAll (allDeps w1 t specs) []) :=
    groupSpecs_eq w1 t specs [] (fun s hs' =>
      specToObj_eq w1 t (by rw [hg1.1]; exact htl) _ s.path s.leaf (Nat.lt_succ_self _) (hs1.names s hs')
        (hs1.hasLeaf s hs') (hs1.leaf s hs'))
  -- every member of every group comes from one of the specs
  have hleafs : ∀ g ∈ groupAll (allDeps w1 t specs) [], ∀ sn ∈ g.2, sn.1.leaf ≠ "param" := by
    intro g hg sn hsn
    obtain ⟨hkn, hmem, _⟩ := groupAll_spec (allDeps w1 t specs) [] (by simp [keysOf])
    rw [← members_of_mem hkn hg, hmem g.1] at hsn
    simp only [membersOf, List.find?_nil, List.nil_append, List.mem_map, List.mem_filter] at hsn
    obtain ⟨sd, ⟨hsd, _⟩, rfl⟩ := hsn
    simp only [allDeps, List.mem_flatMap, List.mem_map] at hsd
    obtain ⟨s, hs', _, _, rfl⟩ := hsd
    exact hs1.leaf s hs'
  obtain ⟨w', news, h1, h2, h3, h4, h5, h6, h7, h8⟩ := watchGroups_spec w1 t m attrib _ w1 (SameGraph.refl _) hleafs
    (by subst hw1def; simp)
  have hwat1 : w1.watchers = [] := by subst hw1def; rfl
  have hdyn1 : dynGet w1.dyn (t, m) = [] := by subst hw1def; rfl
  -- the specs `_update_deps` resolves again
  have hfall : ∀ (f : PathSpec → Bool), (if init = true then specs.filter f else specs) = specs ∨ init = true := by
    intro f; cases init <;> simp
  refine ⟨w', ?_, hg1.trans h2, ?_, ?_⟩
  · unfold updateDeps
    rw [hct]
    simp only [hm, updateEntries, updateEntry]
    have hne : ∀ (f : PathSpec → Bool), (∃ s ∈ specs, f s = true) → (specs.filter f).isEmpty = false := by
      intro f ⟨s, hs', hf⟩
      cases h : specs.filter f with
      | nil => exact absurd (List.mem_filter.2 ⟨hs', hf⟩) (by rw [h]; simp)
      | cons _ _ => rfl
    cases init with
    | true =>
      obtain ⟨e1, e2, e3⟩ := hinit rfl
      subst e3
      have hw : w = w1 := by
        rw [← hw1def]; cases w; simp_all
      simp only [Bool.not_true, Bool.false_and, Bool.false_eq_true, if_false, if_true]
      have hfa : specs.filter (fun _ => true) = specs := by simp
      rw [hfa, hw, hgroups]
      simp only [h1]
    | false =>
      rw [hne]
      · simp only [Bool.not_false, Bool.true_and, Bool.false_eq_true, if_false]
        rw [hw1, hgroups]
        simp only [h1]
      · rcases hattr with rfl | ⟨r, rfl, s, hs', hr⟩
        · obtain ⟨s0, rest0, hsp⟩ := List.exists_cons_of_ne_nil hs.nonempty
          exact ⟨s0, by rw [hsp]; simp, rfl⟩
        · exact ⟨s, hs', by simp [hr]⟩
  · rw [h3]; subst hw1def; rfl
  · rw [hwat1, List.nil_append] at h4
    refine ⟨?_, ?_, ?_, h7⟩
    · rw [h4, h5, builtM_congr h2]
      rfl
    · intro x hx
      rw [h4] at hx
      obtain ⟨a, b, _⟩ := h8 x hx
      refine ⟨a, b, ?_⟩
      rw [h6, hdyn1, List.nil_append]
      exact List.mem_map.2 ⟨x, hx, rfl⟩
    · intro x hx a ha
      rw [h4] at hx
      rcases (h8 x hx).2.2 with hc | hc
      · rw [hc] at ha; cases ha
      · rw [hc] at ha
        cases ha
        exact hattr

end ParamVerif.Depends
