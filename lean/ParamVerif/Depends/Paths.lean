/-
C07 model: dependencies written as a path through sub-objects (`'a.x'`, `'a.b.x'`, `'a.param'`).

An object graph: every object has parameters whose values are `None`, an integer or (the id of)
another object.  A class lists its object-valued and its integer-valued Parameters and its
`depends(..., watch=True)` methods with their path specs.  The world holds every watcher ever
registered and still installed, in registration order (the per-object, per-parameter lists
`obj._param__private.watchers[p]['value']` are its filters), the per-object
`_param__private.dynamic_watchers[method]` lists and the invocation log.

Mirrored as written (param/parameterized.py):
  * `Parameter.__set__` tail: validate, store, `obj.param._update_deps(name)` — BEFORE the watcher
    list is read —, then one event to a COPY (`sorted(...)`) of the watchers registered for the
    parameter, each through `_call_watcher` (changes-only filter, `Comparator.is_equal`: two
    Parameterized objects are never equal, `None == None`)
  * `Parameters._update_deps(attribute, init)`: for every table entry, the dynamic specs whose first
    path element is `attribute` (all when `attribute is None`); if any: ALL dynamic watchers of the
    method are unwatched (`dynamic_watchers.pop(method)`) and ALL its dynamic specs are resolved
    again (`dynamic = all_dynamic`), grouped by `(id(inst), id(cls), what)` in first-occurrence
    order, one `_watch_group` each
  * `Parameters._spec_to_obj(spec, dynamic=True, intermediate=True)`: intermediate dependencies for
    every part of the path, partial resolution when a sub-object is `None` (nothing at all when the
    first sub-object is `None`), `'….param'` = every Parameter of the sub-object
  * `_resolve_dynamic_deps` / `_watch_group`: every dependency of the group contributes its sub-paths
    to the filter `changed=` — a dict keyed by the group's parameter names (`None`: never skip) — and
    the parent-notification callback is the first one any of them needs
  * `_m_caller/_sync_caller/_skip_event`: callback first (`obj.param._update_deps(attribute)` with the
    `attribute` the watcher was built with), then skip iff the filter has sub-paths for the event's
    parameter and every sub-path value of the old and the new object compare equal (`None` object →
    `Undefined`, which equals nothing).

Batching is modelled for one form: `o.param.update(…)` / `batch_call_watchers(o)` / `discard_events(o)` around
assignments to `o` itself (keys may repeat in a block), no batch open before.  Not modelled: nested batches, slots (`what != 'value'`),
`'….param'` below depth 1 and path elements that are not object-valued (rejected: `illFormed`).
An exception of the LIBRARY (rejected value, unresolvable dependency) ends the history; an exception
raised by a dependent method's body leaves the dispatch loop (`raised`) and the history goes on.
No Mathlib: loaded by the driver.
-/
import ParamVerif.Depends.ClassTable

namespace ParamVerif.Depends

abbrev Oid := Nat

inductive Val
  | none
  | int (i : Int)
  | ref (o : Oid)
  deriving Repr, DecidableEq

inductive PErr
  | value        -- ValueError: the Parameter rejects the value
  | type_        -- TypeError: constant parameter `name`
  | attr_     -- AttributeError while resolving a dependency
  | illFormed    -- outside the model
  deriving Repr, DecidableEq

/-- `'a.b.x'` = ⟨[a, b], x⟩, `'a.param'` = ⟨[a], param⟩ -/
structure PathSpec where
  path : List Name
  leaf : Name
  deriving Repr, DecidableEq

def PathSpec.root (s : PathSpec) : Name := s.path.headD s.leaf     -- `spec.split(".")[0]`
def PathSpec.elems (s : PathSpec) : List Name := s.path ++ [s.leaf]

structure PMethod where
  name : Name
  specs : List PathSpec       -- the entry's `dynamic_deps`
  raises : List Nat := []     -- the body raises on these invocations (1 = the first call of the method on an object)
  deriving Repr, DecidableEq

structure PClass where
  objParams : List Name
  intParams : List Name
  methods : List PMethod      -- `_depends['watch']` of the class, in order
  deriving Repr, DecidableEq

/-- `list(obj.param)` -/
def PClass.paramNames (c : PClass) : List Name := "name" :: (c.objParams ++ c.intParams)

structure PObj where
  cls : Nat
  vals : List (Name × Val)
  deriving Repr, DecidableEq

/-- the `changed=` dict of a dynamic group: parameter name ↦ sub-paths to compare (`none`: never
skip), in insertion order -/
abbrev Changed := List (Name × Option (List (List Name)))

/-- a watcher installed by `_watch_group` (its `fn` is the `_sync_caller` partial) -/
structure DW where
  id : Nat
  on : Oid                               -- the object it is registered on (`dep_obj`)
  params : List Name                     -- `parameter_names`
  owner : Oid                            -- the object whose method it calls
  method : Name
  changed : Changed                      -- `changed=` (every group here is a dynamic one: a dict)
  callback : Option (Option Name)        -- `some attr`: `owner.param._update_deps(attr)` first
  deriving Repr, DecidableEq

structure Call where
  owner : Oid
  method : Name
  reads : List Val                       -- what the method read through each of its paths
  deriving Repr, DecidableEq

structure PWorld where
  classes : List PClass
  objs : List PObj
  watchers : List DW
  dyn : List ((Oid × Name) × List Nat)   -- `dynamic_watchers[method]` of each object: watcher ids
  nextId : Nat
  log : List Call
  hist : List (Oid × Name) := []         -- every invocation so far (never reset): decides which call raises
  raised : Bool := false                 -- an exception raised by a method body is propagating
  deriving Repr

/-! ### reading the graph -/

def lookupVal : List (Name × Val) → Name → Option Val
  | [], _ => none
  | (k, v) :: rest, n => if k = n then some v else lookupVal rest n

def getParam (w : PWorld) (o : Oid) (n : Name) : Option Val :=
  match w.objs[o]? with
  | some ob => lookupVal ob.vals n
  | none => none

def classOf (w : PWorld) (o : Oid) : Option PClass :=
  match w.objs[o]? with
  | some ob => w.classes[ob.cls]?
  | none => none

/-- `getattr(x, n, None)`: only an object has attributes (every attribute read here is a Parameter) -/
def attrOr (w : PWorld) (v : Val) (n : Name) : Val :=
  match v with
  | .ref o => (getParam w o n).getD .none
  | _ => .none

/-- `_getattrr(x, 'a.b', None)` -/
def follow (w : PWorld) (v : Val) : List Name → Val
  | [] => v
  | n :: rest => follow w (attrOr w v n) rest

/-- `subobjs` of `_resolve_dynamic_deps`: `[obj, obj.a, obj.a.b, …]`, one per path element -/
def chain (w : PWorld) (v : Val) : List Name → List Val
  | [] => [v]
  | n :: rest => v :: chain w (attrOr w v n) rest

/-! ### `_spec_to_obj` -/

/-- `while sub_src is None and subpath: subpath = subpath[:-1]; sub_src = _getattrr(self, '.'.join(subpath), None)`
(`'.'.join([]) = ''` and `getattr(self, '', None)` is `None`) -/
def longestPrefix (w : PWorld) (t : Oid) : Nat → List Name → List Name
  | 0, sub => sub
  | n + 1, sub =>
    if sub.isEmpty then sub
    else
      let sub' := sub.dropLast
      let src := if sub'.isEmpty then Val.none else follow w (.ref t) sub'
      if src = .none then longestPrefix w t n sub' else sub'

/-- dependencies `(inst, parameter name)` of one dotted spec resolved on instance `t`.  The recursion
is on the length of the path (`fuel`). -/
def specToObj (w : PWorld) (t : Oid) : Nat → List Name → Name → Except PErr (List (Oid × Name))
  | 0, _, _ => .error .illFormed
  | f + 1, path, leaf =>
    if path.isEmpty then
      -- `obj is None`: a Parameter of the object itself
      match getParam w t leaf with
      | some _ => .ok [(t, leaf)]
      | none => .error .attr_
    else
      match getParam w t (path.headD "") with
      | none => .error .attr_                         -- `not hasattr(self_or_cls, first)`
      | some _ =>
        match follow w (.ref t) path with
        | .none =>
          -- the sub-object is not there (yet): watch as far as the path resolves
          let sub := longestPrefix w t path.length path
          if sub.isEmpty then .ok []
          else specToObj w t f (path.take sub.length) ((path.drop sub.length).headD "")
        | .int _ => .error .illFormed
        | .ref src =>
          if leaf = "param" then
            match specToObj w t f path.dropLast (path.getLastD ""), classOf w src with
            | .ok deps, some c => .ok (deps ++ c.paramNames.map (fun p => (src, p)))
            | .error e, _ => .error e
            | _, none => .error .illFormed
          else
            match getParam w src leaf with
            | none => .error .attr_
            | some _ =>
              match specToObj w t f path.dropLast (path.getLastD "") with
              | .ok deps => .ok (deps ++ [(src, leaf)])
              | .error e => .error e

/-! ### `_resolve_dynamic_deps`, `_watch_group` -/

def indexOfVal (l : List Val) (v : Val) : Nat := l.findIdx (fun x => x = v)

/-- returns `(subparams, callback)` -/
def resolveDynamicDeps (w : PWorld) (t : Oid) (spec : PathSpec) (depObj : Oid) (attrib : Option Name) :
    Except PErr (Option (List (List Name)) × Option (Option Name)) :=
  let subobjs := chain w (.ref t) spec.path
  if !(subobjs.dropLast.contains (.ref depObj)) then .ok (none, none)
  else
    let depth := indexOfVal subobjs (.ref depObj)
    let callback := if depth > 0 then some attrib else none
    let p := spec.elems.drop (depth + 1)
    if p = ["param"] then
      match subobjs.getLastD .none with
      | .ref last =>
        match classOf w last with
        | some c => .ok (some (c.paramNames.map (fun q => [q])), callback)
        | none => .error .illFormed
      | _ => .error .attr_                            -- `None.param`
    else .ok (some [p], callback)

def dedupNames : List Name → List Name → List Name
  | acc, [] => acc
  | acc, n :: rest => dedupNames (if n ∈ acc then acc else acc ++ [n]) rest

/-- one group = the dependencies registered on one object: `(spec they come from, parameter name)` -/
abbrev Group := Oid × List (PathSpec × Name)

def addToGroups : List Group → PathSpec → Oid × Name → List Group
  | [], s, (o, n) => [(o, [(s, n)])]
  | (k, l) :: rest, s, (o, n) => if k = o then (k, l ++ [(s, n)]) :: rest else (k, l) :: addToGroups rest s (o, n)

def dynAppend : List ((Oid × Name) × List Nat) → Oid × Name → Nat → List ((Oid × Name) × List Nat)
  | [], k, i => [(k, [i])]
  | (k', l) :: rest, k, i => if k' = k then (k', l ++ [i]) :: rest else (k', l) :: dynAppend rest k i

def dynGet (d : List ((Oid × Name) × List Nat)) (k : Oid × Name) : List Nat :=
  match d.find? (fun e => e.1 = k) with
  | some e => e.2
  | none => []

/-- `changed.get(name)`, telling an absent key (`none`) from a key mapped to `None` (`some none`) -/
def chLookup : Changed → Name → Option (Option (List (List Name)))
  | [], _ => none
  | (k, v) :: rest, n => if k = n then some v else chLookup rest n

/-- `changed[name] = v` for a key that is present (position kept) -/
def chSet : Changed → Name → Option (List (List Name)) → Changed
  | [], _, _ => []
  | (k, v') :: rest, n, v => if k = n then (k, v) :: rest else (k, v') :: chSet rest n v

/-- `known.extend(p for p in sp if p not in known)` (the generator looks at `known` as it grows) -/
def extendNew (known sp : List (List Name)) : List (List Name) :=
  sp.foldl (fun k p => if p ∈ k then k else k ++ [p]) known

/-- one turn of the loop of `_watch_group` on the dict:
`known = subparams.setdefault(name, [])`; `None` if this or an earlier dependency has no sub-path -/
def addSubparams (ch : Changed) (name : Name) (sp : Option (List (List Name))) : Changed :=
  let ch1 := match chLookup ch name with
    | none => ch ++ [(name, some [])]
    | some _ => ch
  match sp, chLookup ch1 name with
  | some l, some (some known) => chSet ch1 name (some (extendNew known l))
  | _, _ => chSet ch1 name none

/-- `for ddep, pdep in group: sp, cb, what = _resolve_dynamic_deps(…); callback = callback or cb; …` -/
def groupFilter (w : PWorld) (t : Oid) (attrib : Option Name) (o : Oid) :
    List (PathSpec × Name) → Changed × Option (Option Name) → Except PErr (Changed × Option (Option Name))
  | [], acc => .ok acc
  | (s, n) :: rest, (ch, cb) =>
    match resolveDynamicDeps w t s o attrib with
    | .error e => .error e
    | .ok (sp, c) => groupFilter w t attrib o rest (addSubparams ch n sp, if cb.isSome then cb else c)

/-- `_watch_group` + `dynamic_watchers[method].append(watcher)` -/
def watchGroup (w : PWorld) (t : Oid) (method : Name) (attrib : Option Name) (g : Group) : Except PErr PWorld :=
  match groupFilter w t attrib g.1 g.2 ([], none) with
  | .error e => .error e
  | .ok (subparams, callback) =>
    let x : DW := { id := w.nextId, on := g.1, params := dedupNames [] (g.2.map (·.2)), owner := t,
                    method := method, changed := subparams, callback := callback }
    .ok { w with watchers := w.watchers ++ [x], nextId := w.nextId + 1,
                 dyn := dynAppend w.dyn (t, method) x.id }

def watchGroups (w : PWorld) (t : Oid) (method : Name) (attrib : Option Name) : List Group → Except PErr PWorld
  | [] => .ok w
  | g :: rest =>
    match watchGroup w t method attrib g with
    | .error e => .error e
    | .ok w1 => watchGroups w1 t method attrib rest

/-- `for ddep in dynamic: for dep in _resolve_mcs_deps(obj, [], [ddep]): grouped[…].append((ddep, dep))` -/
def groupSpecs (w : PWorld) (t : Oid) : List Group → List PathSpec → Except PErr (List Group)
  | gs, [] => .ok gs
  | gs, s :: rest =>
    match specToObj w t (s.path.length + 1) s.path s.leaf with
    | .error e => .error e
    | .ok deps => groupSpecs w t (deps.foldl (fun acc d => addToGroups acc s d) gs) rest

/-! ### `_update_deps` -/

/-- one table entry of `_update_deps(attribute, init)` -/
def updateEntry (w : PWorld) (t : Oid) (attrib : Option Name) (init : Bool) (m : PMethod) : Except PErr PWorld :=
  let dynamic := m.specs.filter (fun s => match attrib with | none => true | some a => s.root = a)
  if !init && dynamic.isEmpty then .ok w                  -- `else: continue`
  else
    -- not init: `for w in dynamic_watchers.pop(method, []): unwatch(w)`
    let w1 := if init then w else
      let ids := dynGet w.dyn (t, m.name)
      { w with watchers := w.watchers.filter (fun x => !(ids.contains x.id)),
               dyn := w.dyn.filter (fun e => e.1 ≠ (t, m.name)) }
    -- `dynamic = all_dynamic`: every dynamic watcher of the method is gone, set them all up again
    match groupSpecs w1 t [] (if init then dynamic else m.specs) with
    | .error e => .error e
    | .ok groups => watchGroups w1 t m.name attrib groups

def updateEntries (w : PWorld) (t : Oid) (attrib : Option Name) (init : Bool) : List PMethod → Except PErr PWorld
  | [] => .ok w
  | m :: rest =>
    match updateEntry w t attrib init m with
    | .error e => .error e
    | .ok w1 => updateEntries w1 t attrib init rest

def updateDeps (w : PWorld) (t : Oid) (attrib : Option Name) (init : Bool) : Except PErr PWorld :=
  match classOf w t with
  | none => .error .illFormed
  | some c => updateEntries w t attrib init c.methods

/-! ### dispatch -/

/-- `Comparator.is_equal` on the values in scope -/
def valEq : Val → Val → Bool
  | .none, .none => true
  | .int a, .int b => a = b
  | _, _ => false

/-- `Undefined if e.old is None else _getattrr(e.old, p, None)`; `none` = `Undefined` -/
def subValue (w : PWorld) (v : Val) (p : List Name) : Option Val :=
  match v with
  | .none => none
  | _ => some (follow w v p)

def subEq : Option Val → Option Val → Bool
  | some a, some b => valEq a b
  | _, _ => false                                          -- `Undefined` equals nothing

/-- src: _skip_event (`name`: the parameter the event is about) -/
def skipEvent (w : PWorld) (changed : Changed) (name : Name) (old new : Val) : Bool :=
  match chLookup changed name with
  | some (some ps) => ps.all (fun p => subEq (subValue w old p) (subValue w new p))
  | _ => false

def methodSpecs (w : PWorld) (t : Oid) (method : Name) : List PathSpec :=
  match classOf w t with
  | some c => match c.methods.find? (fun m => m.name = method) with | some m => m.specs | none => []
  | none => []

/-- what the generated method reads: the value at the end of each of its paths (`None` when the
path does not resolve, and for `'….param'`) -/
def readsOf (w : PWorld) (t : Oid) (method : Name) : List Val :=
  (methodSpecs w t method).map (fun s => if s.leaf = "param" then .none else follow w (.ref t) s.elems)

/-- does the body of `t.method` raise on its next invocation -/
def shouldRaise (w : PWorld) (t : Oid) (method : Name) : Bool :=
  match classOf w t with
  | some c =>
    match c.methods.find? (fun m => m.name = method) with
    | some m => m.raises.contains (w.hist.count (t, method) + 1)
    | none => false
  | none => false

/-- `function()`: the generated method logs what it reads, then possibly raises -/
def invoke (w : PWorld) (x : DW) : PWorld :=
  { w with log := w.log ++ [⟨x.owner, x.method, readsOf w x.owner x.method⟩],
           hist := w.hist ++ [(x.owner, x.method)],
           raised := shouldRaise w x.owner x.method }

/-- src: _call_watcher (changes-only, not batching) → _sync_caller: the rebinding callback runs BEFORE the
method, so an exception raised by the method propagates with the dependencies already rebound -/
def callWatcherP (w : PWorld) (x : DW) (p : Name) (old new : Val) : Except PErr PWorld :=
  if valEq old new then .ok w
  else
    let r := match x.callback with
      | some attr => updateDeps w x.owner attr false
      | none => .ok w
    match r with
    | .error e => .error e
    | .ok w1 =>
      if skipEvent w1 x.changed p old new then .ok w1
      else .ok (invoke w1 x)

def dispatchP (w : PWorld) (p : Name) (old new : Val) : List DW → Except PErr PWorld
  | [] => .ok w
  | x :: rest =>
    match callWatcherP w x p old new with
    | .error e => .error e
    | .ok w1 => if w1.raised then .ok w1 else dispatchP w1 p old new rest   -- the exception leaves the loop

def setVals : List (Name × Val) → Name → Val → List (Name × Val)
  | [], _, _ => []
  | (k, v') :: rest, n, v => if k = n then (k, v) :: rest else (k, v') :: setVals rest n v

/-- does the Parameter accept the value: `ClassSelector(class_=Parameterized, allow_None=True)` for
object-valued, `Number` for integer-valued parameters -/
def accepts (w : PWorld) (c : PClass) (p : Name) (v : Val) : Bool :=
  match v with
  | .none => c.objParams.contains p
  | .ref o => c.objParams.contains p && decide (o < w.objs.length)
  | .int _ => c.intParams.contains p

/-- `o.p = v` on an initialised object.  src: Parameter.__set__ -/
def setParam (w : PWorld) (o : Oid) (p : Name) (v : Val) : Except PErr PWorld :=
  match w.objs[o]?, classOf w o with
  | some ob, some c =>
    if p = "name" then .error .type_
    else if !accepts w c p v then .error .value
    else
      match lookupVal ob.vals p with
      | none => .error .illFormed
      | some old =>
        let w1 := { w with objs := w.objs.set o { ob with vals := setVals ob.vals p v } }
        match updateDeps w1 o (some p) false with
        | .error e => .error e
        | .ok w2 =>
          -- `sorted(watchers, …)`: a copy; every watcher here has precedence -1
          dispatchP w2 p old v (w2.watchers.filter (fun x => x.on = o && x.params.contains p))
  | _, _ => .error .illFormed

/-- `cls(name=…, **vals)`: the values are stored while the object is not initialised (no watcher, no
rebinding), then `_update_deps(init=True)`.  src: Parameterized.__init__ -/
def newObj (w : PWorld) (cls : Nat) (vals : List (Name × Val)) : Except PErr PWorld :=
  match w.classes[cls]? with
  | none => .error .illFormed
  | some c =>
    if vals.map (·.1) ≠ c.paramNames then .error .illFormed
    else if !(vals.all (fun kv => kv.1 = "name" || accepts w c kv.1 kv.2)) then .error .value
    else
      let o := w.objs.length
      updateDeps { w with objs := w.objs ++ [⟨cls, vals⟩] } o none true

/-! ### batched assignments on one object: `o.param.update(k1=v1, …)` / `with batch_call_watchers(o): …` -/

/-- a queued event (`_events` of the object being updated) -/
structure QEv where
  name : Name
  old : Val
  new : Val
  deriving Repr, DecidableEq

/-- src: _call_watcher with `_BATCH_WATCH` set, for every watcher of the assigned parameter: the
changes-only filter, then the event is appended and the watcher queued unless already there (identity) -/
def queueWatchers (evs : List QEv) (q : List DW) (e : QEv) : List DW → List QEv × List DW
  | [] => (evs, q)
  | x :: rest =>
    if valEq e.old e.new then queueWatchers evs q e rest
    else queueWatchers (evs ++ [e]) (if q.any (fun y => y.id = x.id) then q else q ++ [x]) e rest

/-- one `setattr(o, p, v)` of the batch: validate, store, `o.param._update_deps(p)` — at once, also while
batching —, then queue.  src: Parameter.__set__ -/
def setBatched (w : PWorld) (o : Oid) (evs : List QEv) (q : List DW) (p : Name) (v : Val) :
    Except PErr (PWorld × List QEv × List DW) :=
  match w.objs[o]?, classOf w o with
  | some ob, some c =>
    if p = "name" then .error .type_
    else if !accepts w c p v then .error .value
    else
      match lookupVal ob.vals p with
      | none => .error .illFormed
      | some old =>
        let w1 := { w with objs := w.objs.set o { ob with vals := setVals ob.vals p v } }
        match updateDeps w1 o (some p) false with
        | .error e => .error e
        | .ok w2 =>
          let (evs', q') := queueWatchers evs q ⟨p, old, v⟩ (w2.watchers.filter (fun x => x.on = o && x.params.contains p))
          .ok (w2, evs', q')
  | _, _ => .error .illFormed

def setAllBatched (w : PWorld) (o : Oid) : List QEv → List DW → List (Name × Val) → Except PErr (PWorld × List QEv × List DW)
  | evs, q, [] => .ok (w, evs, q)
  | evs, q, (p, v) :: rest =>
    match setBatched w o evs q p v with
    | .error e => .error e
    | .ok (w1, evs1, q1) => setAllBatched w1 o evs1 q1 rest

/-- `event_dict[(name, what)]`: the last event queued for the name -/
def lastEv (evs : List QEv) (n : Name) : Option QEv := evs.reverse.find? (fun e => e.name = n)

/-- src: _skip_event over all the events handed to the watcher: skip iff EVERY event has sub-paths in
the filter and all of them compare equal -/
def skipEvents (w : PWorld) (changed : Changed) (evs : List QEv) : Bool :=
  evs.all (fun e => skipEvent w changed e.name e.old e.new)

/-- one queued watcher at the flush: its events in the order of its `parameter_names`; callback, filter, method -/
def flushWatcher (w : PWorld) (x : DW) (dict : List QEv) : Except PErr PWorld :=
  let evs := x.params.filterMap (lastEv dict)
  let r := match x.callback with
    | some attr => updateDeps w x.owner attr false
    | none => .ok w
  match r with
  | .error e => .error e
  | .ok w1 => if skipEvents w1 x.changed evs then .ok w1 else .ok (invoke w1 x)

def flushQueue (w : PWorld) (dict : List QEv) : List DW → Except PErr PWorld
  | [] => .ok w
  | x :: rest =>
    match flushWatcher w x dict with
    | .error e => .error e
    | .ok w1 => if w1.raised then .ok w1 else flushQueue w1 dict rest

/-- src: Parameters._update (no batch open): set the flag, assign the keys in order, restore the flag,
flush — every queued watcher once (also one that has been unwatched meanwhile: the queue holds the
watcher objects).  The methods assign nothing, so the second round of `while self_._events` is empty. -/
def updateObj (w : PWorld) (o : Oid) (kvs : List (Name × Val)) : Except PErr PWorld :=
  match setAllBatched w o [] [] kvs with
  | .error e => .error e
  | .ok (w1, evs, q) => if evs.isEmpty then .ok w1 else flushQueue w1 evs q

/-- src: discard_events (no batch open): set the flag, save copies of `_events` / `_state_watchers` (both
empty), run the assignments, restore flag and queues — whatever the assignments queued is dropped, no watcher
runs.  `Parameter.__set__` still calls `_update_deps(name)` on the assigned object itself; the rebinding
callbacks of OTHER owners travel with the dropped watchers. -/
def discardObj (w : PWorld) (o : Oid) (kvs : List (Name × Val)) : Except PErr PWorld :=
  match setAllBatched w o [] [] kvs with
  | .error e => .error e
  | .ok (w1, _, _) => .ok w1

inductive Step
  | new (cls : Nat) (vals : List (Name × Val))
  | set (o : Oid) (p : Name) (v : Val)
  /-- `o.param.update(k1=v1, …)` (distinct keys) or `with batch_call_watchers(o): o.k1 = v1; …` (keys may repeat) -/
  | update (o : Oid) (kvs : List (Name × Val))
  /-- `with discard_events(o): o.k1 = v1; …` -/
  | discard (o : Oid) (kvs : List (Name × Val))
  deriving Repr, DecidableEq

def runStep (w : PWorld) : Step → Except PErr PWorld
  | .new cls vals => newObj w cls vals
  | .set o p v => setParam w o p v
  | .update o kvs => updateObj w o kvs
  | .discard o kvs => discardObj w o kvs

/-- a spec is inside the model: a non-empty path of object-valued parameters, `param` only at depth 1 -/
def wfSpecB (s : PathSpec) : Bool := !s.path.isEmpty && (s.leaf != "param" || s.path.length == 1)

end ParamVerif.Depends
