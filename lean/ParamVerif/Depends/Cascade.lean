/-
C06 model, cascades: dependent methods that ASSIGN parameters (so that a method run by one change causes
further changes), and `batch_call_watchers` blocks nested in each other.

`Instance.lean` covers methods that only log: there every theorem is a closed form.  Here the callbacks
re-enter the setter, so the interpreter is fuel-indexed (`none` = out of fuel) and returns, besides the
world, a TRACE: the tree of what happened —

  * `asg k old new batch children` : one assignment (`obj.p = v`, `obj.param.p.bounds = …`, one key of an
    `update`), the value held before, the value assigned, `_BATCH_WATCH` at that moment, and everything that
    ran inside the setter (the watchers it called directly, and what the setter's own flush delivered)
  * `call m children`  : one invocation of method / function `m`, and what its body did
  * `block kind children` : a `param.update(...)` call or a `batch_call_watchers` block: its assignments,
    nested blocks, and (if it is the outermost one) the calls made by its flush.

Mirrored as written (src: param/parameterized.py):
  * `Parameter.__set__` tail / `Parameter._trigger_event`: no watcher → nothing; else every watcher through
    `_call_watcher`, then `if not obj.param._BATCH_WATCH: obj.param._batch_call_watchers()`
  * `_call_watcher`: changes-only filter; batching → queue event and (by identity) watcher; else
    `with _batch_call_watchers(obj, enable=watcher.queued, run=False): _execute_watcher(...)` — the flag is
    `watcher.queued or flag` while the callback runs and is put back afterwards, nothing is flushed
  * `Parameters._batch_call_watchers`: `while self_._events:` take the queue, run every queued watcher once
    in stable precedence order, each inside the same `_batch_call_watchers(enable=watcher.queued, run=False)`
  * `Parameters._update`, `batch_call_watchers`: save the flag, set it, body; finally restore the flag and
    flush iff the saved flag was off (so a nested block never flushes)
  * a generated method: appends its name to the log, then performs its assignments `self.p = v` in order.
-/
import ParamVerif.Depends.Instance

namespace ParamVerif.Depends

/-- a statement of a program; `batch` blocks nest -/
inductive Blk
  | set (k : Key) (v : Int)
  | update (kvs : List (Name × Int))
  | batch (body : List Blk)
  deriving Repr

/-- method name ↦ the assignments `self.p = v` its body makes at EVERY invocation, in order -/
abbrev Bodies := List (Name × List (Name × Int))

def bodyOf (bs : Bodies) (m : Name) : List (Name × Int) :=
  match bs.find? (fun b => b.1 = m) with
  | some b => b.2
  | none => []

inductive T
  | call (m : Name) (ch : List T)
  | asg (k : Key) (old new : Int) (batch : Bool) (ch : List T)
  | block (kind : String) (ch : List T)
  deriving Repr

inductive CCall
  | blks (l : List Blk)
  | blk (b : Blk)
  | setKey (k : Key) (v : Int)
  | dispatch (ws : List IWatcher) (ev : IEv)
  | callW (x : IWatcher) (ev : IEv)
  | exec (x : IWatcher)
  | body (l : List (Name × Int))
  | flush
  | round (ws : List IWatcher)
  | update (kvs : List (Name × Int))
  | updateKeys (kvs : List (Name × Int))

/-- The interpreter.  `none`: out of fuel.  `Bool`: `false` = a key that is not assignable on this instance
was met (outside the model; the remaining statements are abandoned as after an exception). -/
def runC (bs : Bodies) : Nat → CCall → IWorld → Option (Bool × IWorld × List T)
  | 0, _, _ => none
  | f + 1, call, w =>
    match call with
    | .blks [] => some (true, w, [])
    | .blks (b :: l) =>
      match runC bs f (.blk b) w with
      | some (true, w1, t1) =>
        match runC bs f (.blks l) w1 with
        | some (r, w2, t2) => some (r, w2, t1 ++ t2)
        | none => none
      | r => r
    | .blk (.set k v) => runC bs f (.setKey k v) w
    | .blk (.update kvs) => runC bs f (.update kvs) w
    | .blk (.batch body) =>
      -- batch_call_watchers: save flag, set it, body; finally restore and flush iff the saved flag was off
      let saved := w.batch
      match runC bs f (.blks body) { w with batch := true } with
      | none => none
      | some (r, w1, t1) =>
        let w2 := { w1 with batch := saved }
        if saved then some (r, w2, [.block "batch" t1])
        else
          match runC bs f .flush w2 with
          | none => none
          | some (r3, w3, t3) => some (r && r3, w3, [.block "batch" (t1 ++ t3)])
    | .setKey k v =>
      match getKey w.vals k with
      | none => some (false, w, [])
      | some old =>
        let w1 := { w with vals := setVal w.vals k v }
        let ws := watchersFor w.regs k
        if ws.isEmpty then some (true, w1, [.asg k old v w.batch []])      -- no watcher: no event, no flush
        else
          match runC bs f (.dispatch (if k.what = "value" then sortByPrec ws else ws) ⟨k, old, v⟩) w1 with
          | none => none
          | some (r, w2, t1) =>
            -- finally: flush iff not batching
            if w2.batch then some (r, w2, [.asg k old v w.batch t1])
            else
              match runC bs f .flush w2 with
              | none => none
              | some (r3, w3, t3) => some (r && r3, w3, [.asg k old v w.batch (t1 ++ t3)])
    | .dispatch [] _ => some (true, w, [])
    | .dispatch (x :: rest) ev =>
      match runC bs f (.callW x ev) w with
      | some (true, w1, t1) =>
        match runC bs f (.dispatch rest ev) w1 with
        | some (r, w2, t2) => some (r, w2, t1 ++ t2)
        | none => none
      | r => r
    | .callW x ev =>
      -- src: Parameters._call_watcher
      if ev.old = ev.new then some (true, w, [])
      else if w.batch then
        some (true, { w with events := w.events ++ [ev],
                             queued := if hasId w.queued x.id then w.queued else w.queued ++ [x] }, [])
      else runC bs f (.exec x) w
    | .exec x =>
      -- `with _batch_call_watchers(obj, enable=watcher.queued, run=False): watcher.fn(...)`
      let saved := w.batch
      match runC bs f (.body (bodyOf bs x.method)) { w with batch := x.queued || w.batch, log := w.log ++ [x.method] } with
      | none => none
      | some (r, w1, t1) => some (r, { w1 with batch := saved }, [.call x.method t1])
    | .body [] => some (true, w, [])
    | .body ((p, v) :: rest) =>
      match runC bs f (.setKey ⟨p, "value"⟩ v) w with
      | some (true, w1, t1) =>
        match runC bs f (.body rest) w1 with
        | some (r, w2, t2) => some (r, w2, t1 ++ t2)
        | none => none
      | r => r
    | .flush =>
      -- src: Parameters._batch_call_watchers: `while self_._events:`
      if w.events.isEmpty then some (true, w, [])
      else
        match runC bs f (.round (sortByPrec w.queued)) { w with events := [], queued := [] } with
        | none => none
        | some (r1, w1, t1) =>
          -- (also after a failing round: "do not leave behind what the failing round has queued")
          match runC bs f .flush w1 with
          | none => none
          | some (r2, w2, t2) => some (r1 && r2, w2, t1 ++ t2)
    | .round [] => some (true, w, [])
    | .round (x :: rest) =>
      match runC bs f (.exec x) w with
      | some (true, w1, t1) =>
        match runC bs f (.round rest) w1 with
        | some (r, w2, t2) => some (r, w2, t1 ++ t2)
        | none => none
      | r => r
    | .update kvs =>
      -- src: Parameters._update
      let saved := w.batch
      match runC bs f (.updateKeys kvs) { w with batch := true } with
      | none => none
      | some (r, w1, t1) =>
        let w2 := { w1 with batch := saved }
        if saved then some (r, w2, [.block "update" t1])
        else
          match runC bs f .flush w2 with
          | none => none
          | some (r3, w3, t3) => some (r && r3, w3, [.block "update" (t1 ++ t3)])
    | .updateKeys [] => some (true, w, [])
    | .updateKeys ((n, v) :: rest) =>
      match runC bs f (.setKey ⟨n, "value"⟩ v) w with
      | some (true, w1, t1) =>
        match runC bs f (.updateKeys rest) w1 with
        | some (r, w2, t2) => some (r, w2, t1 ++ t2)
        | none => none
      | r => r

/-- a program: one statement after the other, each with its own trace; `none`: out of fuel or a statement failed -/
def runProg (bs : Bodies) (f : Nat) : IWorld → List Blk → Option (IWorld × List (List T))
  | w, [] => some (w, [])
  | w, b :: rest =>
    match runC bs f (.blk b) w with
    | some (true, w1, tr) =>
      match runProg bs f w1 rest with
      | some (w2, trs) => some (w2, tr :: trs)
      | none => none
    | _ => none

/-! ### the compact operations as programs -/

def SimpleOp.toBlk : SimpleOp → Blk
  | .set k v => .set k v
  | .update kvs => .update kvs

def Op.toBlk : Op → Blk
  | .simple s => s.toBlk
  | .batch body => .batch (body.map SimpleOp.toBlk)

mutual
/-- the assignments-and-updates of a block with the nested `batch` blocks dissolved -/
def Blk.flat : Blk → List SimpleOp
  | .set k v => [.set k v]
  | .update kvs => [.update kvs]
  | .batch body => Blk.flatL body
def Blk.flatL : List Blk → List SimpleOp
  | [] => []
  | b :: rest => b.flat ++ Blk.flatL rest
end

/-- the operation of `Instance.lean` a statement amounts to when nesting is ignored -/
def Blk.toOp : Blk → Op
  | .set k v => .simple (.set k v)
  | .update kvs => .simple (.update kvs)
  | .batch body => .batch (Blk.flatL body)

mutual
def Blk.nested : Blk → Bool
  | .batch body => Blk.anyBatchL body
  | _ => false
def Blk.anyBatchL : List Blk → Bool
  | [] => false
  | .batch _ :: _ => true
  | _ :: rest => Blk.anyBatchL rest
end

end ParamVerif.Depends
