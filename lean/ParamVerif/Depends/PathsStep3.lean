/-
Helper lemmas for C07, part 6: one assignment on an installed world — not read by any walk, the root
attribute of the owner, an object below the owner — and construction.
-/
import ParamVerif.Depends.PathsStep2

namespace ParamVerif.Depends

/-! ### what one spec sees of an assignment -/

/-- the value at the end of a path is `None` or an integer -/
theorem follow_leaf_val {w : PWorld} {t : Oid} {m : Name} {specs : List PathSpec} (hs : Scope w t m specs)
    (hty : Typing w specs) {s : PathSpec} (hs' : s ∈ specs) (v : Val) :
    follow w v s.elems = .none ∨ ∃ i, follow w v s.elems = .int i := by
  rw [PathSpec.elems, follow_append]
  rcases follow_obj w s.path v (hs.path s hs') (fun n hn => (hs.names s hs' n hn).2.1) with h | ⟨o', h, hlt⟩
  · rw [h]; exact Or.inl (by simp [follow, attrOr])
  · rw [h]
    obtain ⟨x, hx⟩ := hs.hasLeaf s hs' o' hlt
    obtain ⟨i, rfl⟩ := hty.leafInt s hs' o' x hx
    exact Or.inr ⟨i, by simp [follow, attrOr, hx]⟩

theorem valEq_self_leaf {w : PWorld} {t : Oid} {m : Name} {specs : List PathSpec} (hs : Scope w t m specs)
    (hty : Typing w specs) {s : PathSpec} (hs' : s ∈ specs) (v : Val) : valEq (follow w v s.elems) (follow w v s.elems) = true := by
  rcases follow_leaf_val hs hty hs' v with h | ⟨i, h⟩ <;> rw [h] <;> simp [valEq]

/-- the holder `t` occurs only at the root of a simple chain -/
theorem root_dep_unique {w : PWorld} {t : Oid} {s : PathSpec} {n0 : Name} {rest0 : List Name} (hpe : s.path = n0 :: rest0)
    (hsim : (chainObjsFrom w t s.path).Nodup) {p : Name} (h : (t, p) ∈ depsFrom w t s.path s.leaf) : p = n0 :=
  deps_snd_unique hsim h (by simp [hpe, depsFrom])

/-- an assignment one spec does not read leaves what it reaches untouched -/
theorem untouched_spec {w : PWorld} {t : Oid} {m : Name} {specs : List PathSpec} (hs : Scope w t m specs) (hty : Typing w specs)
    {s : PathSpec} (hs' : s ∈ specs) {w1 : PWorld} {o : Oid} {p : Name}
    (hgp : ∀ o' n, (o', n) ≠ (o, p) → getParam w1 o' n = getParam w o' n)
    (hun : (o, p) ∉ depsFrom w t s.path s.leaf) :
    follow w1 (.ref t) s.elems = follow w (.ref t) s.elems ∧
      valEq (follow w (.ref t) s.elems) (follow w1 (.ref t) s.elems) = true ∧ AgreeOn w w1 (depsFrom w t s.path s.leaf) := by
  have hag : AgreeOn w w1 (depsFrom w t s.path s.leaf) := by
    intro r hr
    exact hgp r.1 r.2 (fun e => hun (by rw [← e]; exact hr))
  have hf : follow w1 (.ref t) s.elems = follow w (.ref t) s.elems := by
    apply follow_agree
    rw [PathSpec.elems, followReads_deps]
    exact hag
  exact ⟨hf, by rw [hf]; exact valEq_self_leaf hs hty hs' _, hag⟩

/-- the first dependency of a spec (on the owner itself): filter = the rest of the path, no callback -/
theorem first_shape {w : PWorld} {t : Oid} {s : PathSpec} {n0 : Name} {rest0 : List Name} (hpe : s.path = n0 :: rest0)
    (hsim : (chainObjsFrom w t s.path).Nodup) :
    spOf w t t s = some [rest0 ++ [s.leaf]] ∧ cbNeeded w t t s = false := by
  obtain ⟨sh, hsh, h1, _, h3, h4⟩ := spec_member w t s hsim (t, n0) (by simp [hpe, depsFrom])
  rw [hpe] at hsh hsim
  simp only [builtFrom, List.mem_cons] at hsh
  simp only [chainObjsFrom, List.nodup_cons] at hsim
  rcases hsh with rfl | hsh
  · exact ⟨h3, by rw [h4]; simp⟩
  · exfalso
    cases hg : getParam w t n0 with
    | none => rw [hg] at hsh; cases hsh
    | some v =>
      cases v with
      | none => rw [hg] at hsh; cases hsh
      | int i => rw [hg] at hsh; cases hsh
      | ref o1 =>
        rw [hg] at hsh hsim
        have : sh.on ∈ chainObjsFrom w o1 rest0 := by
          rw [← builtFrom_on w rest0 o1 (0 + 1) s.leaf]
          exact List.mem_map.2 ⟨sh, hsh, rfl⟩
        rw [h1] at this
        exact hsim.1 this

/-- what a spec that reads `(o, p)` below the owner says about the watcher on `o`, and what it reaches
before and after `o.p = v` -/
theorem touched_spec {w : PWorld} {t : Oid} {s : PathSpec} (hsim : (chainObjsFrom w t s.path).Nodup)
    {o : Oid} {p : Name} {old v : Val} {w1 : PWorld} (hot : o ≠ t)
    (hto : (o, p) ∈ depsFrom w t s.path s.leaf) (hgold : getParam w o p = some old)
    (hgp : ∀ o' n, getParam w1 o' n = if o' = o ∧ n = p then some v else getParam w o' n) :
    (spOf w t o s = none ∧ cbNeeded w t o s = false ∧ p = s.leaf ∧
      follow w (.ref t) s.elems = old ∧ follow w1 (.ref t) s.elems = v ∧ ∀ r ∈ pathReads w t s.path, r.1 ≠ o) ∨
    (∃ r, spOf w t o s = some [r] ∧ cbNeeded w t o s = true ∧ p ∈ s.path ∧
      follow w (.ref t) s.elems = follow w old r ∧ follow w1 (.ref t) s.elems = follow w1 v r ∧
      follow w1 old r = follow w old r) := by
  obtain ⟨sh, hsh, hon, hpar, hsp, hcb⟩ := spec_member w t s hsim (o, p) hto
  simp only at hon hpar
  obtain ⟨e, he1, _, he3, he4, he5, he6⟩ := builtFrom_cont w w s.leaf s.path t 0 sh hsh hsim (fun _ _ _ => rfl)
  rw [hpar] at he1
  simp only [List.cons.injEq, and_true] at he1
  subst he1
  have hagree1 : ∀ r ∈ pathReads w t s.path, r.1 ≠ sh.on → getParam w1 r.1 r.2 = getParam w r.1 r.2 := by
    intro r _ hne
    rw [hgp]
    split
    · rename_i hcond
      exact absurd (hcond.1.trans hon.symm) hne
    · rfl
  obtain ⟨e', he1', _, he3', _, _, _⟩ := builtFrom_cont w w1 s.leaf s.path t 0 sh hsh hsim hagree1
  rw [hpar] at he1'
  simp only [List.cons.injEq, and_true] at he1'
  subst he1'
  rw [hon] at he3 he3' he4
  have hg1v : getParam w1 o p = some v := by rw [hgp]; simp
  by_cases hleafsh : sh.changed = none
  · left
    obtain ⟨hpl, hcbf, hnotread⟩ := he5 hleafsh
    have hrest : restOf sh = [] := by simp [restOf, hleafsh]
    rw [hrest] at he3 he3'
    refine ⟨by rw [hsp]; exact hleafsh, by rw [hcb]; exact hcbf, hpl, ?_, ?_, fun r hr => by rw [← hon]; exact hnotread r hr⟩
    · rw [PathSpec.elems, he3]; simp [follow, attrOr, hgold]
    · rw [PathSpec.elems, he3']; simp [follow, attrOr, hg1v]
  · right
    obtain ⟨hinpath, hcbt, _, hchs⟩ := he6 hleafsh
    refine ⟨restOf sh, by rw [hsp]; exact hchs, by rw [hcb]; exact hcbt (by rw [hon]; exact hot),
      pathReads_snd_mem w s.path t _ hinpath, ?_, ?_, ?_⟩
    · rw [PathSpec.elems, he3]; simp [follow, attrOr, hgold]
    · rw [PathSpec.elems, he3']; simp [follow, attrOr, hg1v]
    · apply follow_agree
      intro q hq
      rw [hgp]
      split
      · rename_i hcond
        cases old with
        | none => cases hr : restOf sh <;> simp [hr, followReads] at hq
        | int i => cases hr : restOf sh <;> simp [hr, followReads] at hq
        | ref oo =>
          have := he4 q (by simpa [attrOr, hgold] using hq)
          exact absurd hcond.1 this
      · rfl

theorem depsRoot_sub {w : PWorld} {t : Oid} {path : List Name} {leaf : Name} {d : Oid × Name}
    (h : d ∈ depsRoot w t path leaf) : d ∈ depsFrom w t path leaf := by
  cases path with
  | nil => simpa [depsRoot, depsFrom] using h
  | cons n0 rest0 => exact (mem_depsRoot.1 h).1

/-! ### a step -/

/-- **an assignment no walk reads**: nothing fires, everything stays installed, nothing reached changes -/
theorem step_untouched {w w' : PWorld} {t : Oid} {m : Name} {specs : List PathSpec} {o : Oid} {p : Name} {v : Val}
    (hs : Scope w t m specs) (hty : Typing w specs) (hi : Installed w t m specs) (hsim : Simple w t specs)
    (hstep : setParam w o p v = .ok w') (hun : ∀ s ∈ specs, (o, p) ∉ depsFrom w t s.path s.leaf) :
    w'.log = w.log ∧ Installed w' t m specs ∧ Scope w' t m specs ∧ Typing w' specs ∧
      (∀ s ∈ specs, depsFrom w' t s.path s.leaf = depsFrom w t s.path s.leaf ∧
        follow w' (.ref t) s.elems = follow w (.ref t) s.elems) := by
  obtain ⟨ob, c, old, w2, hob, hc, _, hacc, hold, hud, hdisp⟩ := setParam_ok hstep
  obtain ⟨hs1, hty1⟩ := scope_store hs hty hob hc hacc hold
  have hgp := getParam_store w o ob p v old hob hold
  have hw2 : w2 = store w o ob p v := by
    by_cases hot : o = t
    · subst hot
      have hp : ∀ s ∈ specs, s.root ≠ p := by
        intro s hs' e
        obtain ⟨n0, rest0, hpe⟩ := List.exists_cons_of_ne_nil (hs.path s hs')
        apply hun s hs'
        rw [← e]
        simp [PathSpec.root, hpe, depsFrom]
      rw [updateDeps_otherAttr hs1 hp] at hud
      exact (Except.ok.inj hud).symm
    · rw [updateDeps_other hs1 hot (by rw [classOf_store w o ob p v hob]; exact hc)] at hud
      exact (Except.ok.inj hud).symm
  subst hw2
  have hnone : (store w o ob p v).watchers.filter (fun x => x.on = o && x.params.contains p) = [] := by
    apply (watcher_at hi o p).1
    rintro ⟨sn, hsn, hsnp⟩
    obtain ⟨s, n⟩ := sn
    simp only at hsnp
    subst hsnp
    obtain ⟨hs', hd⟩ := mem_memsAt.1 hsn
    exact hun s hs' (depsRoot_sub hd)
  rw [hnone] at hdisp
  simp only [dispatchP, Except.ok.injEq] at hdisp
  subst hdisp
  have hgp' : ∀ o' n, (o', n) ≠ (o, p) → getParam (store w o ob p v) o' n = getParam w o' n := by
    intro o' n hne
    rw [hgp]
    split
    · rename_i hcond
      exact absurd (by rw [hcond.1, hcond.2]) hne
    · rfl
  have hspec := fun s hs' => untouched_spec hs hty hs' hgp' (hun s hs')
  have hagp : ∀ s ∈ specs, AgreeOn w (store w o ob p v) (pathReads w t s.path) :=
    fun s hs' r hr => (hspec s hs').2.2 r (pathReads_sub w s.leaf s.path t r hr)
  obtain ⟨hb, _, _⟩ := builtM_agree hs hagp
  refine ⟨rfl, ⟨by rw [hb]; exact hi.shapes, hi.owned, hi.cbs, hi.dynKeys⟩, hs1, hty1, ?_⟩
  intro s hs'
  exact ⟨(depsFrom_agree _ _ _ _ _ (hspec s hs').2.2).1, (hspec s hs').1⟩

/-- the log after an assignment some walk reads, in terms of what every spec reaches -/
def firedLog (w w' : PWorld) (t : Oid) (m : Name) (specs : List PathSpec) : List Call :=
  if specs.all (fun s => valEq (follow w (.ref t) s.elems) (follow w' (.ref t) s.elems)) then []
  else [⟨t, m, readsOf w' t m⟩]

/-- **assignment of a root attribute of the owner** (`t.a = …`): the setter's own `_update_deps(a)`
rebuilds everything — for ALL the specs — from the new graph, then the one watcher on `t` decides
with the filter entry of `a`, which holds the rest of every path that starts with `a` -/
theorem step_root {w w' : PWorld} {t : Oid} {m : Name} {specs : List PathSpec} {p : Name} {v : Val}
    (hs : Scope w t m specs) (hty : Typing w specs) (hi : Installed w t m specs) (hsim : Simple w t specs)
    (hstep : setParam w t p v = .ok w') (hp : ∃ s ∈ specs, s.root = p) (hsim' : Simple w' t specs) :
    Installed w' t m specs ∧ Scope w' t m specs ∧ Typing w' specs ∧
    (∀ old, getParam w t p = some old → old ≠ .none → v ≠ .none → w'.log = w.log ++ firedLog w w' t m specs) := by
  obtain ⟨ob, c, old, w2, hob, hc, _, hacc, hold, hud, hdisp⟩ := setParam_ok hstep
  obtain ⟨hs1, hty1⟩ := scope_store hs hty hob hc hacc hold
  have hgp := getParam_store w t ob p v old hob hold
  have hgold : getParam w t p = some old := by simp [getParam, hob, hold]
  have hg12 : SameGraph (store w t ob p v) w2 := updateDeps_graph hud
  have hg2' : SameGraph w2 w' := dispatchP_graph _ _ _ _ _ _ hdisp
  obtain ⟨w2', r1, r2, r3, r4⟩ := rebuild_gen (store w t ob p v) t m specs (some p) false hs1
    (fun x hx => (hi.owned x hx).2.2) hi.dynKeys (Or.inr ⟨p, rfl, hp⟩) (fun h => by cases h)
  rw [r1] at hud
  have : w2' = w2 := Except.ok.inj hud
  subst this
  have hs2 : Scope w2' t m specs := hs1.congr r2
  have hty2 : Typing w2' specs := hty1.congr r2
  have hsim2 : Simple w2' t specs := fun s hs' => by rw [← chainObjsFrom_congr hg2']; exact hsim' s hs'
  have hg2v : getParam w2' t p = some v := by rw [getParam_congr r2, hgp]; simp
  have hscope' : Scope w' t m specs := hs2.congr hg2'
  have hty' : Typing w' specs := hty2.congr hg2'
  obtain ⟨s0, hs0, hroot0⟩ := hp
  obtain ⟨n00, rest00, hpe0⟩ := List.exists_cons_of_ne_nil (hs.path s0 hs0)
  have hpn0 : p = n00 := by rw [← hroot0]; simp [PathSpec.root, hpe0]
  have hpmem : p ∈ s0.path := by rw [hpe0, hpn0]; simp
  -- which specs have a dependency on `(t, p)` in the new graph: those that start with `p`, if `v` is an object
  have hmemP : ∀ s n, (s, n) ∈ memsAt w2' t specs t → n = s.root ∧ s ∈ specs := by
    intro s n h
    obtain ⟨hs', hd⟩ := mem_memsAt.1 h
    obtain ⟨n0, rest0, hpe⟩ := List.exists_cons_of_ne_nil (hs.path s hs')
    exact ⟨by rw [root_dep_unique hpe (hsim2 s hs') (depsRoot_sub hd)]; simp [PathSpec.root, hpe], hs'⟩
  rcases (hs2.names s0 hs0 p hpmem).2.1 t v hg2v with hvn | ⟨vv, hvr, _⟩
  · -- detached: no dependency on `(t, p)`, nothing is called
    subst hvn
    have hno : ¬ ∃ sn ∈ memsAt w2' t specs t, sn.2 = p := by
      rintro ⟨⟨s, n⟩, hsn, hnp⟩
      simp only at hnp
      subst hnp
      obtain ⟨hs', hd⟩ := mem_memsAt.1 hsn
      obtain ⟨n0, rest0, hpe⟩ := List.exists_cons_of_ne_nil (hs.path s hs')
      rw [hpe] at hd
      obtain ⟨hd1, o1, ho1⟩ := mem_depsRoot.1 hd
      have : n = n0 := root_dep_unique hpe (hsim2 s hs') (by rw [hpe]; exact hd1)
      rw [← this, hg2v] at ho1
      cases ho1
    rw [(watcher_at r4 t p).1 hno] at hdisp
    simp only [dispatchP, Except.ok.injEq] at hdisp
    subst hdisp
    exact ⟨r4, hs2, hty2, fun _ _ _ hv => absurd rfl hv⟩
  · subst hvr
    have hex : ∃ sn ∈ memsAt w2' t specs t, sn.2 = p := by
      refine ⟨(s0, p), mem_memsAt.2 ⟨hs0, ?_⟩, rfl⟩
      rw [hpe0]
      exact mem_depsRoot.2 ⟨by simp [depsFrom, hpn0], vv, by rw [← hpn0]; exact hg2v⟩
    obtain ⟨x, hx, hfilter, hxch, hxcb⟩ := (watcher_at r4 t p).2 hex
    rw [hfilter] at hdisp
    -- every dependency registered on the owner is a first one: no callback
    have hcbnone : x.callback = none := by
      have : x.callback.isSome = false := by
        rw [hxcb, List.any_eq_false]
        intro sn hsn
        obtain ⟨s, n⟩ := sn
        obtain ⟨_, hs'⟩ := hmemP s n hsn
        obtain ⟨n0, rest0, hpe⟩ := List.exists_cons_of_ne_nil (hs.path s hs')
        simp [(first_shape hpe (hsim2 s hs')).2]
      cases h : x.callback with
      | none => rfl
      | some a => rw [h] at this; cases this
    obtain ⟨u', c1, c2, c3, c4, _⟩ := callWatcherP_installed w2' t m specs x p old (.ref vv) hs2
      (fun y hy => (r4.owned y hy).2.2) r4.dynKeys ⟨(r4.owned x hx).1, (r4.owned x hx).2.1⟩
      (fun a ha => by rw [hcbnone] at ha; cases ha)
    simp only [dispatchP, c1, ite_self, Except.ok.injEq] at hdisp
    subst hdisp
    obtain ⟨cw, cd⟩ := c4 (Or.inr hcbnone)
    have hinst' : Installed u' t m specs :=
      ⟨by rw [cw, builtM_congr c2]; exact r4.shapes, fun y hy => by rw [cw] at hy; rw [cd]; exact r4.owned y hy,
       fun y hy => by rw [cw] at hy; exact r4.cbs y hy, fun e he => by rw [cd] at he; exact r4.dynKeys e he⟩
    refine ⟨hinst', hscope', hty', ?_⟩
    intro old' hold' holdn _
    rw [hgold] at hold'
    have : old = old' := Option.some.inj hold'
    subst this
    obtain ⟨oo, hoo_⟩ := objName_ref (hs.names s0 hs0 p hpmem).2.1 hgold holdn
    subst hoo_
    have hv0 : valEq (.ref oo) (.ref vv) = false := rfl
    rw [c3, r3, hxch, skipEvent_filterOf, hv0, Bool.false_or]
    show w.log ++ _ = w.log ++ firedLog w u' t m specs
    congr 1
    unfold firedLog
    -- the filter skips iff no spec reaches a different value
    have hkey : (!((memsAt w2' t specs t).filter (fun sn => sn.2 = p)).isEmpty &&
        ((memsAt w2' t specs t).filter (fun sn => sn.2 = p)).all (fun sn => skipsFor w2' w2' t t (.ref oo) (.ref vv) sn.1)) =
        specs.all (fun s => valEq (follow w (.ref t) s.elems) (follow u' (.ref t) s.elems)) := by
      have hne : ((memsAt w2' t specs t).filter (fun sn => sn.2 = p)).isEmpty = false := by
        obtain ⟨sn, hsn, hsnp⟩ := hex
        cases h : (memsAt w2' t specs t).filter (fun sn => sn.2 = p) with
        | nil =>
          have : sn ∈ (memsAt w2' t specs t).filter (fun sn => sn.2 = p) := List.mem_filter.2 ⟨hsn, by simp [hsnp]⟩
          rw [h] at this; cases this
        | cons _ _ => rfl
      rw [hne, Bool.not_false, Bool.true_and, Bool.eq_iff_iff, List.all_eq_true, List.all_eq_true]
      -- per spec
      have hper : ∀ s ∈ specs, (s.root = p →
            skipsFor w2' w2' t t (.ref oo) (.ref vv) s = valEq (follow w (.ref t) s.elems) (follow u' (.ref t) s.elems)) ∧
          (s.root ≠ p → valEq (follow w (.ref t) s.elems) (follow u' (.ref t) s.elems) = true) := by
        intro s hs'
        obtain ⟨n0, rest0, hpe⟩ := List.exists_cons_of_ne_nil (hs.path s hs')
        have hrs : s.root = n0 := by simp [PathSpec.root, hpe]
        constructor
        · intro hr
          have hpn : p = n0 := hr.symm.trans hrs
          simp only [skipsFor, (first_shape hpe (hsim2 s hs')).1]
          have hgw : getParam w t n0 = some (.ref oo) := by rw [← hpn]; exact hgold
          have hgw2 : getParam w2' t n0 = some (.ref vv) := by rw [← hpn]; exact hg2v
          have e1 : follow u' (.ref t) s.elems = follow w2' (.ref vv) (rest0 ++ [s.leaf]) := by
            rw [follow_congr c2]
            simp [PathSpec.elems, hpe, follow, attrOr, hgw2]
          have e2 : follow w (.ref t) s.elems = follow w (.ref oo) (rest0 ++ [s.leaf]) := by
            simp [PathSpec.elems, hpe, follow, attrOr, hgw]
          have e3 : follow w2' (.ref oo) (rest0 ++ [s.leaf]) = follow w (.ref oo) (rest0 ++ [s.leaf]) := by
            rw [follow_congr r2]
            apply follow_agree
            intro q hq
            rw [hgp]
            split
            · rename_i hcond
              -- the old sub-tree does not read `(t, a)`
              rw [followReads_deps] at hq
              have hq1 : q.1 ∈ chainObjsFrom w oo rest0 := by
                rw [← depsFrom_fst w rest0 oo s.leaf]; exact List.mem_map.2 ⟨q, hq, rfl⟩
              have hnd := hsim s hs'
              rw [hpe] at hnd
              simp only [chainObjsFrom, hgw, List.nodup_cons] at hnd
              exact absurd (hcond.1 ▸ hq1) hnd.1
            · rfl
          rw [e1, e2, ← e3]
          simp [subValue, subEq]
        · intro hr
          have hun : (t, p) ∉ depsFrom w t s.path s.leaf := by
            intro h
            exact hr (by rw [hrs, root_dep_unique hpe (hsim s hs') h])
          have hgp' : ∀ o' n, (o', n) ≠ (t, p) → getParam (store w t ob p (.ref vv)) o' n = getParam w o' n := by
            intro o' n hne
            rw [hgp]
            split
            · rename_i hcond
              exact absurd (by rw [hcond.1, hcond.2]) hne
            · rfl
          have := (untouched_spec hs hty hs' hgp' hun).2.1
          rw [follow_congr (r2.trans c2)]
          exact this
      constructor
      · intro hall s hs'
        by_cases hr : s.root = p
        · rw [← (hper s hs').1 hr]
          have hmem : (s, p) ∈ (memsAt w2' t specs t).filter (fun sn => sn.2 = p) := by
            refine List.mem_filter.2 ⟨mem_memsAt.2 ⟨hs', ?_⟩, by simp⟩
            obtain ⟨n0, rest0, hpe⟩ := List.exists_cons_of_ne_nil (hs.path s hs')
            have hpn : p = n0 := by rw [← hr]; simp [PathSpec.root, hpe]
            rw [hpe]
            exact mem_depsRoot.2 ⟨by simp [depsFrom, hpn], vv, by rw [← hpn]; exact hg2v⟩
          exact hall (s, p) hmem
        · exact (hper s hs').2 hr
      · intro hall sn hsn
        obtain ⟨s, n⟩ := sn
        obtain ⟨hsn1, hsn2⟩ := List.mem_filter.1 hsn
        simp only [decide_eq_true_eq] at hsn2
        subst hsn2
        obtain ⟨hnr, hs'⟩ := hmemP s n hsn1
        rw [(hper s hs').1 hnr.symm]
        exact hall s hs'
    rw [hkey, readsOf_congr c2]

end ParamVerif.Depends
