/-
Helper lemmas for C07, part 5: the watcher an installed world holds for an (object, parameter)
pair, one invocation of it, and one assignment (untouched / root attribute / deeper object).
-/
import ParamVerif.Depends.PathsStep

namespace ParamVerif.Depends

/-! ### small facts -/

theorem map_eq_pointwise {α β γ δ : Type} (f1 : α → γ) (f2 : β → γ) (g1 : α → δ) (g2 : β → δ) :
    ∀ (l1 : List α) (l2 : List β), l1.map f1 = l2.map f2 → l1.map g1 = l2.map g2 →
    ∀ a ∈ l1, ∃ b ∈ l2, f1 a = f2 b ∧ g1 a = g2 b := by
  intro l1
  induction l1 with
  | nil => intro l2 _ _ a ha; cases ha
  | cons x rest ih =>
    intro l2 h1 h2 a ha
    cases l2 with
    | nil => simp at h1
    | cons y rest2 =>
      simp only [List.map_cons, List.cons.injEq] at h1 h2
      rcases List.mem_cons.1 ha with rfl | ha'
      · exact ⟨y, by simp, h1.1, h2.1⟩
      · obtain ⟨b, hb, r⟩ := ih rest2 h1.2 h2.2 a ha'
        exact ⟨b, List.mem_cons_of_mem _ hb, r⟩

theorem mem_dedupNames : ∀ (l acc : List Name) (n : Name), n ∈ dedupNames acc l ↔ n ∈ acc ∨ n ∈ l := by
  intro l
  induction l with
  | nil => intro acc n; simp [dedupNames]
  | cons a rest ih =>
    intro acc n
    simp only [dedupNames]
    rw [ih]
    by_cases ha : a ∈ acc
    · simp only [ha, if_true, List.mem_cons]
      constructor
      · rintro (h | h)
        · exact Or.inl h
        · exact Or.inr (Or.inr h)
      · rintro (h | rfl | h)
        · exact Or.inl h
        · exact Or.inl ha
        · exact Or.inr h
    · simp only [ha, if_false, List.mem_append, List.mem_cons, List.not_mem_nil, or_false]
      constructor
      · rintro ((h | h) | h)
        · exact Or.inl h
        · exact Or.inr (Or.inl h)
        · exact Or.inr (Or.inr h)
      · rintro (h | h | h)
        · exact Or.inl (Or.inl h)
        · exact Or.inl (Or.inr h)
        · exact Or.inr h

theorem mem_allDeps {w : PWorld} {t : Oid} {specs : List PathSpec} {s : PathSpec} {d : Oid × Name} :
    (s, d) ∈ allDeps w t specs ↔ s ∈ specs ∧ d ∈ depsRoot w t s.path s.leaf := by
  simp only [allDeps, List.mem_flatMap, List.mem_map, Prod.mk.injEq]
  constructor
  · rintro ⟨s', hs', d', hd', rfl, rfl⟩; exact ⟨hs', hd'⟩
  · rintro ⟨hs', hd'⟩; exact ⟨s, hs', d, hd', rfl, rfl⟩

/-- `depsRoot` is `depsFrom` when the first sub-object is there, nothing otherwise -/
theorem mem_depsRoot {w : PWorld} {t : Oid} {n0 : Name} {rest0 : List Name} {leaf : Name} {d : Oid × Name} :
    d ∈ depsRoot w t (n0 :: rest0) leaf ↔ d ∈ depsFrom w t (n0 :: rest0) leaf ∧ ∃ o1, getParam w t n0 = some (.ref o1) := by
  unfold depsRoot
  cases hg : getParam w t n0 with
  | none => simp [hg]
  | some v => cases v <;> simp [hg]

/-- what spec `s` asks of the watcher on the holder of each of its dependencies -/
theorem spec_member (w : PWorld) (t : Oid) (s : PathSpec) (hsim : (chainObjsFrom w t s.path).Nodup) :
    ∀ d ∈ depsFrom w t s.path s.leaf, ∃ sh ∈ builtFrom w t 0 s.path s.leaf,
      sh.on = d.1 ∧ sh.params = [d.2] ∧ spOf w t d.1 s = sh.changed ∧ cbNeeded w t d.1 s = sh.cb := by
  intro d hd
  have h1 := rdd_gen w none s.leaf s.path [] [] t rfl (by simp) hsim
  simp only [List.nil_append, List.length_nil] at h1
  have h2 := (builtFrom_deps w s.path t 0 s.leaf).symm
  obtain ⟨sh, hsh, e1, e2⟩ := map_eq_pointwise _ _ _ _ _ _ h1 h2 d hd
  simp only [Prod.mk.injEq] at e2
  refine ⟨sh, hsh, e2.1.symm, e2.2.symm, ?_, ?_⟩
  · show (rddCore (chain w (.ref t) s.path) (s.path ++ [s.leaf]) d.1 none).1 = sh.changed
    rw [e1]
  · show (rddCore (chain w (.ref t) s.path) (s.path ++ [s.leaf]) d.1 none).2.isSome = sh.cb
    rw [e1]
    cases sh.cb <;> rfl

/-! ### the graph-dependent parts of `builtM` only read the paths -/

theorem filterOf_congr (w w1 : PWorld) (t o : Oid) : ∀ (mems : List (PathSpec × Name)) (ch : Changed),
    (∀ sn ∈ mems, chain w1 (.ref t) sn.1.path = chain w (.ref t) sn.1.path) →
    filterOf w1 t o mems ch = filterOf w t o mems ch := by
  intro mems
  induction mems with
  | nil => intro ch _; rfl
  | cons sn rest ih =>
    intro ch h
    simp only [filterOf, List.foldl_cons] at ih ⊢
    have : spOf w1 t o sn.1 = spOf w t o sn.1 := by simp only [spOf, h sn (by simp)]
    rw [this]
    exact ih _ (fun x hx => h x (List.mem_cons_of_mem _ hx))

theorem builtM_agree {w w1 : PWorld} {t : Oid} {m : Name} {specs : List PathSpec} (hs : Scope w t m specs)
    (hag : ∀ s ∈ specs, AgreeOn w w1 (pathReads w t s.path)) :
    builtM w1 t specs = builtM w t specs ∧ (∀ s ∈ specs, chainObjsFrom w1 t s.path = chainObjsFrom w t s.path) ∧
      allDeps w1 t specs = allDeps w t specs := by
  have hdeps : ∀ s ∈ specs, depsRoot w1 t s.path s.leaf = depsRoot w t s.path s.leaf := by
    intro s hs'
    obtain ⟨n0, rest0, hpe⟩ := List.exists_cons_of_ne_nil (hs.path s hs')
    have h0 : getParam w1 t n0 = getParam w t n0 := hag s hs' (t, n0) (by simp [hpe, pathReads])
    have := (pathReads_agree w w1 s.leaf s.path t (hag s hs')).2.2.2
    simp only [depsRoot, hpe, h0]
    rw [← hpe, this]
  have hall : allDeps w1 t specs = allDeps w t specs := by
    simp only [allDeps]
    have : ∀ (l : List PathSpec), (∀ s ∈ l, s ∈ specs) →
        l.flatMap (fun s => (depsRoot w1 t s.path s.leaf).map (fun d => (s, d))) =
        l.flatMap (fun s => (depsRoot w t s.path s.leaf).map (fun d => (s, d))) := by
      intro l
      induction l with
      | nil => intro _; rfl
      | cons a rest ih =>
        intro h
        simp only [List.flatMap_cons, hdeps a (h a (by simp)), ih (fun s hs' => h s (List.mem_cons_of_mem _ hs'))]
    exact this specs (fun _ h => h)
  refine ⟨?_, fun s hs' => (pathReads_agree w w1 s.leaf s.path t (hag s hs')).1, hall⟩
  simp only [builtM, hall]
  apply List.map_congr_left
  intro g hg
  obtain ⟨hkn, hmem, _⟩ := groupAll_spec (allDeps w t specs) [] (by simp [keysOf])
  have hspecs : ∀ sn ∈ g.2, sn.1 ∈ specs := by
    intro sn hsn
    rw [← members_of_mem hkn hg, hmem g.1] at hsn
    simp only [membersOf, List.find?_nil, List.nil_append, List.mem_map, List.mem_filter] at hsn
    obtain ⟨sd, ⟨hsd, _⟩, rfl⟩ := hsn
    exact (mem_allDeps.1 hsd).1
  have hch : ∀ sn ∈ g.2, chain w1 (.ref t) sn.1.path = chain w (.ref t) sn.1.path :=
    fun sn hsn => chain_agree w w1 sn.1.path t (hag sn.1 (hspecs sn hsn))
  simp only [groupShape, filterOf_congr w w1 t g.1 g.2 [] hch]
  congr 1
  have : ∀ (l : List (PathSpec × Name)), (∀ sn ∈ l, sn ∈ g.2) →
      (l.any fun sn => cbNeeded w1 t g.1 sn.1) = (l.any fun sn => cbNeeded w t g.1 sn.1) := by
    intro l
    induction l with
    | nil => intro _; rfl
    | cons a rest ih =>
      intro h
      have e : cbNeeded w1 t g.1 a.1 = cbNeeded w t g.1 a.1 := by simp only [cbNeeded, hch a (h a (by simp))]
      simp only [List.any_cons, e, ih (fun sn hsn => h sn (List.mem_cons_of_mem _ hsn))]
  exact this g.2 (fun _ h => h)

/-! ### the watcher an installed world holds for a pair -/

/-- the dependencies registered on object `o` -/
def memsAt (w : PWorld) (t : Oid) (specs : List PathSpec) (o : Oid) : List (PathSpec × Name) :=
  ((allDeps w t specs).filter (fun sd => sd.2.1 = o)).map (fun sd => (sd.1, sd.2.2))

theorem mem_memsAt {w : PWorld} {t : Oid} {specs : List PathSpec} {o : Oid} {s : PathSpec} {n : Name} :
    (s, n) ∈ memsAt w t specs o ↔ s ∈ specs ∧ (o, n) ∈ depsRoot w t s.path s.leaf := by
  simp only [memsAt, List.mem_map, List.mem_filter, decide_eq_true_eq, Prod.mk.injEq]
  constructor
  · rintro ⟨⟨s', o', n'⟩, ⟨hsd, ho⟩, rfl, rfl⟩
    simp only at ho
    subst ho
    exact mem_allDeps.1 hsd
  · intro h
    exact ⟨(s, o, n), ⟨mem_allDeps.2 h, rfl⟩, rfl, rfl⟩

theorem watcher_at {u : PWorld} {t : Oid} {m : Name} {specs : List PathSpec} (hi : Installed u t m specs) (o : Oid) (p : Name) :
    ((¬ ∃ sn ∈ memsAt u t specs o, sn.2 = p) → u.watchers.filter (fun x => x.on = o && x.params.contains p) = []) ∧
    ((∃ sn ∈ memsAt u t specs o, sn.2 = p) → ∃ x ∈ u.watchers,
      u.watchers.filter (fun x => x.on = o && x.params.contains p) = [x] ∧
      x.changed = filterOf u t o (memsAt u t specs o) [] ∧
      x.callback.isSome = (memsAt u t specs o).any (fun sn => cbNeeded u t o sn.1)) := by
  obtain ⟨hkn, hmem, hkeys⟩ := groupAll_spec (allDeps u t specs) [] (by simp [keysOf])
  have hshapes := hi.shapes
  simp only [builtM] at hshapes
  -- every watcher is the shape of one group
  have hgroup : ∀ y ∈ u.watchers, ∃ g ∈ groupAll (allDeps u t specs) [], shapeOf y = groupShape u t g ∧
      g.2 = memsAt u t specs g.1 := by
    intro y hy
    have : shapeOf y ∈ (groupAll (allDeps u t specs) []).map (groupShape u t) := by
      rw [← hshapes]; exact List.mem_map.2 ⟨y, hy, rfl⟩
    obtain ⟨g, hg, hge⟩ := List.mem_map.1 this
    refine ⟨g, hg, hge.symm, ?_⟩
    rw [← members_of_mem hkn hg, hmem g.1]
    simp [membersOf, memsAt]
  have hparams : ∀ y ∈ u.watchers, ∀ n, n ∈ y.params ↔ ∃ sn ∈ memsAt u t specs y.on, sn.2 = n := by
    intro y hy n
    obtain ⟨g, _, hsh, hg2⟩ := hgroup y hy
    have h1 : y.params = dedupNames [] (g.2.map (·.2)) := congrArg Shape.params hsh
    have h2 : y.on = g.1 := congrArg Shape.on hsh
    rw [h1, mem_dedupNames, hg2, h2]
    simp only [List.not_mem_nil, false_or, List.mem_map]
  constructor
  · intro hno
    rw [List.filter_eq_nil_iff]
    intro y hy hc
    simp only [Bool.and_eq_true, decide_eq_true_eq, List.contains_iff_mem] at hc
    apply hno
    rw [← hc.1]
    exact (hparams y hy p).1 hc.2
  · intro hex
    obtain ⟨sn, hsn, hsnp⟩ := hex
    -- the group of `o` exists
    have hokey : o ∈ keysOf (groupAll (allDeps u t specs) []) := by
      rw [hkeys o]
      right
      simp only [memsAt, List.mem_map, List.mem_filter, decide_eq_true_eq] at hsn
      obtain ⟨sd, ⟨hsd, ho⟩, _⟩ := hsn
      exact ⟨sd, hsd, ho⟩
    obtain ⟨g, hg, hgo⟩ := List.mem_map.1 hokey
    have : groupShape u t g ∈ u.watchers.map shapeOf := by rw [hshapes]; exact List.mem_map.2 ⟨g, hg, rfl⟩
    obtain ⟨x, hx, hxs⟩ := List.mem_map.1 this
    have hxon : x.on = o := by rw [← hgo]; exact congrArg Shape.on hxs
    have hg2 : g.2 = memsAt u t specs o := by
      rw [← hgo, ← members_of_mem hkn hg, hmem g.1]
      simp [membersOf, memsAt]
    have honsN : (u.watchers.map (·.on)).Nodup := by
      have : u.watchers.map (·.on) = (u.watchers.map shapeOf).map (·.on) := by simp [List.map_map, shapeOf]
      rw [this, hshapes, List.map_map]
      exact hkn
    refine ⟨x, hx, ?_, ?_, ?_⟩
    · rw [← filter_key_singleton (fun y : DW => y.on) u.watchers x honsN hx]
      apply List.filter_congr
      intro y hy
      rw [hxon]
      by_cases hyo : y.on = o
      · have : p ∈ y.params := (hparams y hy p).2 ⟨sn, by rw [hyo]; exact hsn, hsnp⟩
        simp [hyo, this]
      · simp [hyo]
    · have := congrArg Shape.changed hxs
      simp only [shapeOf, groupShape] at this
      rw [this, hgo, hg2]
    · have := congrArg Shape.cb hxs
      simp only [shapeOf, groupShape] at this
      rw [this, hgo, hg2]

/-! ### one watcher invocation on a world whose dynamic watchers are all recorded -/

theorem skipEvent_congr {w w' : PWorld} (h : SameGraph w w') (c : Changed) (p : Name) (old new : Val) :
    skipEvent w' c p old new = skipEvent w c p old new := by
  unfold skipEvent subValue
  cases chLookup c p with
  | none => rfl
  | some x =>
    cases x with
    | none => rfl
    | some ps => simp only [follow_congr h]

theorem readsOf_congr {w w' : PWorld} (h : SameGraph w w') (t : Oid) (m : Name) : readsOf w' t m = readsOf w t m := by
  unfold readsOf methodSpecs
  simp only [classOf_congr h, follow_congr h]

theorem installed_invoke {w : PWorld} {t : Oid} {m : Name} {specs : List PathSpec} (hi : Installed w t m specs) (x : DW) :
    Installed (invoke w x) t m specs :=
  ⟨by
    have := builtM_congr (w := w) (w' := invoke w x) ⟨rfl, rfl⟩ t specs
    rw [this]
    exact hi.shapes, hi.owned, hi.cbs, hi.dynKeys⟩

/-- one watcher invocation.  The rebinding callback runs before the method body: whether or not the
body raises (`invoke` sets `raised`), the world it leaves is rebuilt and the call is logged. -/
theorem callWatcherP_installed (u : PWorld) (t : Oid) (m : Name) (specs : List PathSpec) (x : DW) (p : Name) (old v : Val)
    (hs : Scope u t m specs)
    (hown : ∀ y ∈ u.watchers, y.id ∈ dynGet u.dyn (t, m)) (hkeys : ∀ e ∈ u.dyn, e.1 = (t, m))
    (hx : x.owner = t ∧ x.method = m)
    (hcb : ∀ a, x.callback = some a → a = none ∨ ∃ r, a = some r ∧ ∃ s ∈ specs, s.root = r) :
    ∃ u', callWatcherP u x p old v = .ok u' ∧ SameGraph u u' ∧
      u'.log = u.log ++ (if valEq old v || skipEvent u x.changed p old v then [] else [⟨t, m, readsOf u t m⟩]) ∧
      ((valEq old v = true ∨ x.callback = none) → u'.watchers = u.watchers ∧ u'.dyn = u.dyn) ∧
      ((valEq old v = false ∧ x.callback ≠ none) → Installed u' t m specs) := by
  unfold callWatcherP
  by_cases hv : valEq old v = true
  · exact ⟨u, by simp [hv], SameGraph.refl u, by simp [hv], fun _ => ⟨rfl, rfl⟩, fun h => by simp [hv] at h⟩
  · simp only [hv, Bool.false_eq_true, if_false, Bool.false_or]
    cases hc : x.callback with
    | none =>
      simp only
      by_cases hsk : skipEvent u x.changed p old v = true
      · exact ⟨u, by simp [hsk], SameGraph.refl u, by simp [hsk], fun _ => ⟨rfl, rfl⟩, fun h => absurd rfl h.2⟩
      · refine ⟨invoke u x, by simp [hsk], ⟨rfl, rfl⟩,
          by simp [hsk, invoke, hx.1, hx.2], fun _ => ⟨rfl, rfl⟩, fun h => absurd rfl h.2⟩
    | some a =>
      simp only
      obtain ⟨u3, h1, h2, h3, h4⟩ := rebuild_gen u t m specs a false hs hown hkeys (hcb a hc) (fun h => by cases h)
      rw [hx.1, h1]
      simp only [skipEvent_congr h2]
      by_cases hsk : skipEvent u x.changed p old v = true
      · exact ⟨u3, by simp [hsk], h2, by simp [hsk, h3], fun h => by simp_all, fun _ => h4⟩
      · refine ⟨invoke u3 x, by simp [hsk], ⟨h2.1, h2.2⟩,
          by simp [hsk, invoke, h3, hx.1, hx.2, readsOf_congr h2], fun h => by simp_all, fun _ => installed_invoke h4 x⟩

end ParamVerif.Depends
