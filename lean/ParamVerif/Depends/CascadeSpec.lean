/-
C06 specification side for traces (`Cascade.lean`): the property read off the tree of what happened.

A UNIT of change is a statement that is not inside another statement: an assignment made while nothing is
being batched (by the program or by the body of a method), or an outermost `update` / `batch` block with
everything nested in it.  For every unit, every watched method (and decorated function) is invoked, as a
direct consequence of the unit, exactly once if the unit changed one of its dependencies and not at all
otherwise; "changed" is judged per assignment from the values the trace shows (assigned value ≠ value held).
The invocations a unit causes are the `call` nodes inside it that are not inside another `call`; what the
body of an invoked method does consists of units of its own, judged the same way.

Nothing here looks at watchers, queues or flags (the `batch` field of an assignment is ignored).
-/
import ParamVerif.Depends.Cascade
import ParamVerif.Depends.Spec

namespace ParamVerif.Depends

mutual
/-- the invocations directly caused by a statement -/
def T.calls : T → List Name
  | .call m _ => [m]
  | .asg _ _ _ _ ch => T.callsL ch
  | .block _ ch => T.callsL ch
def T.callsL : List T → List Name
  | [] => []
  | t :: rest => t.calls ++ T.callsL rest
end

mutual
/-- the keys a statement changed (not those changed by the methods it caused to run) -/
def T.changed : T → List Key
  | .call _ _ => []
  | .asg k old new _ ch => (if old ≠ new then [k] else []) ++ T.changedL ch
  | .block _ ch => T.changedL ch
def T.changedL : List T → List Key
  | [] => []
  | t :: rest => t.changed ++ T.changedL rest
end

def checkUnit (step : Nat) (ts : List (Name × List Key)) (u : T) : Option String :=
  checkCounts step ts u.changed u.calls

mutual
/-- the units of a trace; `root`: the node is not inside another statement -/
def T.units : Bool → T → List T
  | _, .call _ ch => T.unitsL true ch                 -- what the body of a method does: units of their own
  | root, .asg k old new b ch => (if root then [.asg k old new b ch] else []) ++ T.unitsL false ch
  | root, .block kind ch => (if root then [.block kind ch] else []) ++ T.unitsL false ch
def T.unitsL : Bool → List T → List T
  | _, [] => []
  | root, t :: rest => t.units root ++ T.unitsL root rest
end

/-- the first unit of a trace that called a method too often or not often enough -/
def judgeL (step : Nat) (ts : List (Name × List Key)) (root : Bool) (tr : List T) : Option String :=
  (T.unitsL root tr).findSome? (checkUnit step ts)

/-- the traces of the operations of a program, one per operation -/
def specTraces (ts : List (Name × List Key)) : Nat → List (Bool × List T) → Nat × Option String
  | i, [] => (i, none)
  | i, (ok, tr) :: rest =>
    if !ok then (i, none)
    else
      match judgeL i ts true tr with
      | some r => (i, some r)
      | none => specTraces ts (i + 1) rest

mutual
/-- every invocation in the trace, in the order they started -/
def T.allCalls : T → List Name
  | .call m ch => m :: T.allCallsL ch
  | .asg _ _ _ _ ch => T.allCallsL ch
  | .block _ ch => T.allCallsL ch
def T.allCallsL : List T → List Name
  | [] => []
  | t :: rest => t.allCalls ++ T.allCallsL rest
end

end ParamVerif.Depends
