/-
C10 helper lemmas, part 6: the ghost field `St.last` is what the schedule says (`last_eq_lastOf`):
no step of the ready queue and no completion touches it or the task counter; an assignment sets it
to the plain value or to the id of the task it creates.
-/
import ParamVerif.Async.LemmasWrites

namespace ParamVerif.Async

/-- the ghost and the task counter: only assignments touch them -/
def Same (s s' : St) : Prop := s'.last = s.last ∧ s'.nTasks = s.nTasks

theorem Same.refl (s : St) : Same s s := ⟨rfl, rfl⟩
theorem Same.trans {a b d : St} (h1 : Same a b) (h2 : Same b d) : Same a d :=
  ⟨h2.1.trans h1.1, h2.2.trans h1.2⟩

theorem same_cancelTask (s : St) (t : Nat) : Same s (cancelTask s t) := by
  unfold cancelTask; (repeat' split) <;> exact ⟨rfl, rfl⟩
theorem same_popCancel (s : St) (p : Nat) : Same s (popCancel s p) := ⟨popCancel_last s p, popCancel_nTasks s p⟩
theorem same_plainSet (s : St) (p : Nat) (v : Int) : Same s (plainSet s p v) := by
  unfold plainSet
  simp only []
  split
  · exact ⟨by simp [popCancel_last], by simp [popCancel_nTasks]⟩
  · exact ⟨rfl, rfl⟩
theorem same_scopedUpdate (s : St) (p : Nat) (v : Int) : Same s (scopedUpdate s p v) := by
  rw [scopedUpdate_eq]; exact ⟨rfl, rfl⟩
theorem same_cleanup (s : St) (t p : Nat) : Same s (cleanup s t p) := by
  unfold cleanup; split <;> exact ⟨rfl, rfl⟩
theorem same_endTask (s : St) (t : Nat) (e : Bool) : Same s (endTask s t e) := by
  unfold endTask; split <;> exact ⟨rfl, rfl⟩
theorem same_awaitFut (s : St) (t : Nat) (f : Fid) (pc : Pc) : Same s (awaitFut s t f pc).2 := by
  unfold awaitFut; (repeat' split) <;> exact ⟨rfl, rfl⟩
theorem same_registerTask (c : Cfg) (s : St) (t p : Nat) : Same s (registerTask c s t p) := by
  unfold registerTask
  split
  · exact ⟨rfl, rfl⟩
  · split
    · exact ⟨rfl, rfl⟩
    · simp only []; split
      · exact ⟨(same_cancelTask _ _).1, (same_cancelTask _ _).2⟩
      · exact same_cancelTask _ _
theorem same_end (s : St) (t p : Nat) (e : Bool) : Same s (endTask (cleanup s t p) t e) :=
  (same_cleanup s t p).trans (same_endTask _ t e)

theorem same_genLoop (t p n : Nat) : ∀ (r : Nat) (m : St), Same m (genLoop t p n r m) := by
  intro r
  induction r with
  | zero => intro m; exact same_end m t p false
  | succ r ih =>
    intro m
    simp only [genLoop]
    have ha := same_awaitFut m t (t, n - (r + 1)) (.awaitGen (n - (r + 1)))
    generalize awaitFut m t (t, n - (r + 1)) (.awaitGen (n - (r + 1))) = res at ha ⊢
    obtain ⟨o, m1⟩ := res
    cases o with
    | suspended => exact ha
    | raised => exact ha.trans (same_end m1 t p true)
    | value v => exact ha.trans ((same_scopedUpdate m1 p v).trans (ih _))

theorem same_stepStart (c : Cfg) (s : St) (t : Nat) (x : Task) : Same s (stepStart c s t x) := by
  obtain ⟨xp, xk, xpc, xm⟩ := x
  unfold stepStart
  by_cases hm : xm = true
  · subst hm; simp only [↓reduceIte]; exact ⟨rfl, rfl⟩
  · have hm' : xm = false := by simpa using hm
    subst hm'
    simp only [Bool.false_eq_true, ↓reduceIte]
    by_cases hsc : (c.startCheck && s.refs xp != some t) = true
    · simp only [hsc, ↓reduceIte]; exact ⟨rfl, rfl⟩
    · simp only [hsc, Bool.false_eq_true, ↓reduceIte]
      have h0 : Same s (s.setTask t ⟨xp, xk, .running, false⟩) := ⟨rfl, rfl⟩
      have h1 := h0.trans (same_registerTask c (s.setTask t ⟨xp, xk, .running, false⟩) t xp)
      generalize registerTask c (s.setTask t ⟨xp, xk, .running, false⟩) t xp = s1 at h1 ⊢
      cases xk with
      | agen n => exact h1.trans (same_genLoop t xp n n s1)
      | coro =>
        simp only []
        split
        · have h2 : Same s1 { s1 with syncing := addName s1.syncing xp } := ⟨rfl, rfl⟩
          have ha := same_awaitFut { s1 with syncing := addName s1.syncing xp } t (t, 0) (.awaitCoro s1.syncing)
          generalize awaitFut { s1 with syncing := addName s1.syncing xp } t (t, 0) (.awaitCoro s1.syncing) = res at ha ⊢
          obtain ⟨o, s3⟩ := res
          have h3 := h1.trans (h2.trans ha)
          cases o with
          | suspended => exact h3
          | raised =>
            have h4 : Same s3 { s3 with syncing := s1.syncing } := ⟨rfl, rfl⟩
            exact h3.trans (h4.trans (same_end _ t xp true))
          | value v =>
            have h4 : Same (plainSet s3 xp v) { (plainSet s3 xp v) with syncing := s1.syncing } := ⟨rfl, rfl⟩
            exact h3.trans ((same_plainSet s3 xp v).trans (h4.trans (same_end _ t xp false)))
        · have ha := same_awaitFut s1 t (t, 0) .awaitOut
          generalize awaitFut s1 t (t, 0) .awaitOut = res at ha ⊢
          obtain ⟨o, s3⟩ := res
          have h3 := h1.trans ha
          cases o with
          | suspended => exact h3
          | raised => exact h3.trans (same_end _ t xp true)
          | value v => exact h3.trans ((same_scopedUpdate s3 xp v).trans (same_end _ t xp false))

theorem same_stepWake (s : St) (t : Nat) (x : Task) (f : Fid) : Same s (stepWake s t x f) := by
  unfold stepWake
  split
  · exact Same.refl _
  · simp only []
    split
    · exact Same.refl _
    · have h0 : Same s (s.setTask t { x with pc := .running, mustCancel := false }) := ⟨rfl, rfl⟩
      split
      · have h1 : Same (s.setTask t { x with pc := .running, mustCancel := false })
            { (s.setTask t { x with pc := .running, mustCancel := false }) with syncing := ‹List Nat› } := ⟨rfl, rfl⟩
        exact h0.trans (h1.trans (same_end _ t x.param true))
      · have h2 := same_plainSet (s.setTask t { x with pc := .running, mustCancel := false }) x.param ‹Int›
        have h3 : Same (plainSet (s.setTask t { x with pc := .running, mustCancel := false }) x.param ‹Int›)
            { (plainSet (s.setTask t { x with pc := .running, mustCancel := false }) x.param ‹Int›) with
              syncing := ‹List Nat› } := ⟨rfl, rfl⟩
        exact h0.trans (h2.trans (h3.trans (same_end _ t x.param false)))
      · exact h0.trans (same_end _ t x.param true)
      · exact h0.trans ((same_scopedUpdate _ x.param _).trans (same_end _ t x.param false))
      · exact h0.trans (same_end _ t x.param true)
      · split
        · exact h0.trans ((same_scopedUpdate _ x.param _).trans (same_genLoop t x.param _ _ _))
        · exact Same.refl _
      · exact Same.refl _

theorem same_stepReady (c : Cfg) (s : St) : Same s (stepReady c s) := by
  unfold stepReady
  split
  · exact Same.refl _
  · simp only []
    split
    · exact ⟨rfl, rfl⟩
    · split
      · split
        · exact Same.trans (a := s) ⟨rfl, rfl⟩ (same_stepStart c _ _ _)
        · exact ⟨rfl, rfl⟩
      · exact Same.trans (a := s) ⟨rfl, rfl⟩ (same_stepWake _ _ _ _)

theorem same_drain (c : Cfg) (n : Nat) : ∀ s, Same s (drain c n s) := by
  induction n with
  | zero => intro s; exact Same.refl _
  | succ n ih =>
    intro s; simp only [drain]; split
    · exact Same.refl _
    · exact (same_stepReady c s).trans (ih _)

theorem same_complete (s : St) (f : Fid) (v : Int) : Same s (complete s f v) := by
  unfold complete; (repeat' split) <;> exact ⟨rfl, rfl⟩

/-- the ghost field is what the schedule says: the most recent assignment, tasks numbered in the
order of the asynchronous assignments -/
theorem last_eq_lastOfAux (c : Cfg) (p : Nat) : ∀ (evs : List Event) (s : St),
    (runFrom c s evs).last p = lastOfAux p evs s.nTasks (s.last p) := by
  intro evs
  induction evs with
  | nil => intro s; rfl
  | cons ev rest ih =>
    intro s
    simp only [runFrom, List.foldl_cons]
    have := ih (applyEvent c s ev)
    simp only [runFrom] at this
    rw [this]
    cases ev with
    | tick =>
      have hs := same_drain c (tickFuel s) s
      simp only [applyEvent, lastOfAux, hs.1, hs.2]
    | complete t k v =>
      have hs := same_complete s (t, k) v
      simp only [applyEvent, lastOfAux, hs.1, hs.2]
    | assign q src =>
      cases src with
      | plain v =>
        have hs := same_plainSet s q v
        simp only [applyEvent, assignPlain, lastOfAux, hs.2, hs.1, upd]
        split
        · rename_i hpq; subst hpq; simp
        · rename_i hpq; have : ¬ q = p := fun e => hpq e.symm; simp [this]
      | coro =>
        have hn : (assignAsync c s q .coro).nTasks = s.nTasks + 1 := by
          unfold assignAsync; split <;> simp [spawn, updateRef, popCancel_nTasks]
        have hl : (assignAsync c s q .coro).last = upd s.last q (.task s.nTasks) := by
          unfold assignAsync; split <;> simp [spawn, updateRef, popCancel_last]
        simp only [applyEvent, lastOfAux, hn, hl, upd]
        split
        · rename_i hpq; subst hpq; simp
        · rename_i hpq; have : ¬ q = p := fun e => hpq e.symm; simp [this]
      | agen n =>
        have hn : (assignAsync c s q (.agen n)).nTasks = s.nTasks + 1 := by
          unfold assignAsync; split <;> simp [spawn, updateRef, popCancel_nTasks]
        have hl : (assignAsync c s q (.agen n)).last = upd s.last q (.task s.nTasks) := by
          unfold assignAsync; split <;> simp [spawn, updateRef, popCancel_last]
        simp only [applyEvent, lastOfAux, hn, hl, upd]
        split
        · rename_i hpq; subst hpq; simp
        · rename_i hpq; have : ¬ q = p := fun e => hpq e.symm; simp [this]

theorem last_eq_lastOf (c : Cfg) (p : Nat) (evs : List Event) : (run c evs).last p = lastOf p evs :=
  last_eq_lastOfAux c p evs (St.init 0)

end ParamVerif.Async
