/-
C10 helper lemmas for expression pipelines (Async/Rx.lean): an invariant `RInv s m` — exactly the
evaluations `≥ m` have not started, their start entries sit in the ready queue in order (FIFO), the
current task is evaluation `m - 1`, and once that one has finished the expression holds its result —
preserved by every event and every step of the ready queue.
-/
import ParamVerif.Async.Rx

namespace ParamVerif.Async.Rx

/-- the start entries still in the queue, in queue order -/
def starts (s : St) : List Nat := s.ready.filter fun t => s.pcs t == some .start

structure RInv (s : St) (m : Nat) : Prop where
  pos : 0 < s.nTasks
  mle : m ≤ s.nTasks
  pcs_none : ∀ t, s.nTasks ≤ t → s.pcs t = none
  pcs_some : ∀ t, t < s.nTasks → s.pcs t ≠ none
  ready_lt : ∀ t, t ∈ s.ready → t < s.nTasks
  /-- exactly the tasks `≥ m` have not started, and they are queued in order -/
  started : ∀ t, t < s.nTasks → (s.pcs t = some .start ↔ m ≤ t)
  queue : starts s = List.range' m (s.nTasks - m)
  current : s.currentTask = if m = 0 then none else some (m - 1)
  fresh : ∀ t, s.pcs t = some .start ∨ s.pcs t = none → ∀ w, s.futs t = .pending w → w = none
  waiting : ∀ t, s.pcs t = some .awaiting → s.futs t = .pending (some t) ∨ (∃ v, s.futs t = .done v) ∧ t ∈ s.ready
  waiter : ∀ t u, s.futs t = .pending (some u) → u = t ∧ s.pcs t = some .awaiting
  fin : ∀ t, s.pcs t = some .finished → ∃ v, s.futs t = .done v
  value : 0 < m → s.pcs (m - 1) = some .finished → ∃ v, s.futs (m - 1) = .done v ∧ s.cur = some v
  /-- the expression holds the result of the evaluation `holder`, which has started -/
  held : ∀ t, s.holder = some t → t < m ∧ ∃ v, s.futs t = .done v ∧ s.cur = some v
  unheld : s.holder = none → s.cur = none
  last_holder : 0 < m → s.pcs (m - 1) = some .finished → s.holder = some (m - 1)

theorem rinv_init : RInv St.init 0 := by
  constructor <;> simp [St.init, spawn, starts, upd]
  intro t ht e; omega

theorem filter_upd (pcs : Nat → Option Pc) (t : Nat) (X : Option Pc) (hX : X ≠ some .start) (l : List Nat) :
    l.filter (fun u => upd pcs t X u == some .start) =
      (l.filter (fun u => pcs u == some .start)).filter (fun u => u != t) := by
  rw [List.filter_filter]
  apply List.filter_congr
  intro u _
  by_cases e : u = t <;> simp [upd, e, hX]

theorem filter_ne_range' (a k t : Nat) (h : t < a) : (List.range' a k).filter (fun u => u != t) = List.range' a k := by
  rw [List.filter_eq_self]
  intro u hu
  have := (List.mem_range'_1.1 hu).1
  simp; omega


macro "rgr" : tactic => `(tactic| grind (splits := 12) [upd, apply])

theorem rinv_set (s : St) (m : Nat) (r : Int) (h : RInv s m) : RInv (applyEvent s (.set r)) m := by
  have hmle := h.mle
  have hq : starts (applyEvent s (.set r)) = List.range' m (s.nTasks + 1 - m) := by
    simp only [starts, applyEvent, spawn]
    rw [List.filter_append]
    have h1 : List.filter (fun t => upd s.pcs s.nTasks (some Pc.start) t == some Pc.start) s.ready = starts s := by
      unfold starts
      apply List.filter_congr
      intro t ht
      have := h.ready_lt t ht
      have e : t ≠ s.nTasks := by omega
      simp [upd, e]
    rw [h1, h.queue]
    have : s.nTasks + 1 - m = (s.nTasks - m) + 1 := by omega
    rw [this, List.range'_concat]
    simp [upd]
    omega
  exact
  { pos := by simp [applyEvent, spawn]
    mle := by simp [applyEvent, spawn]; omega
    pcs_none := by have := h.pcs_none; simp only [applyEvent, spawn]; rgr
    pcs_some := by have := h.pcs_some; simp only [applyEvent, spawn]; rgr
    ready_lt := by have := h.ready_lt; simp only [applyEvent, spawn]; rgr
    started := by have := h.started; simp only [applyEvent, spawn]; rgr
    queue := by rw [hq]; simp [applyEvent, spawn]
    current := by have := h.current; simp only [applyEvent, spawn]; rgr
    fresh := by have := h.fresh; have := h.pcs_none; have := h.waiter; simp only [applyEvent, spawn]; rgr
    waiting := by have := h.waiting; have := h.pcs_none; simp only [applyEvent, spawn]; rgr
    waiter := by have := h.waiter; have := h.pcs_none; simp only [applyEvent, spawn]; rgr
    fin := by have := h.fin; have := h.pcs_none; simp only [applyEvent, spawn]; rgr
    value := by have := h.value; have := h.started; simp only [applyEvent, spawn]; rgr
    held := by have := h.held; have := h.current; have := h.started; simp only [applyEvent, spawn]; rgr
    unheld := by have := h.unheld; have := h.current; simp only [applyEvent, spawn]; rgr
    last_holder := by have := h.last_holder; have := h.current; have := h.started; simp only [applyEvent, spawn]; rgr }


theorem starts_congr (s s' : St) (h1 : s'.ready = s.ready) (h2 : s'.pcs = s.pcs) : starts s' = starts s := by
  simp [starts, h1, h2]

theorem rinv_complete (s : St) (m : Nat) (t : Nat) (r : Int) (h : RInv s m) : RInv (applyEvent s (.complete t r)) m := by
  simp only [applyEvent]
  split
  · rename_i w hw
    cases w with
    | none =>
      simp only []
      exact
      { pos := h.pos, mle := h.mle, pcs_none := h.pcs_none, pcs_some := h.pcs_some, ready_lt := h.ready_lt
        started := h.started, queue := h.queue, current := h.current
        fresh := by have := h.fresh; simp only []; rgr
        waiting := by have := h.waiting; have := h.waiter; simp only []; rgr
        waiter := by have := h.waiter; simp only []; rgr
        fin := by have := h.fin; simp only []; rgr
        value := by have := h.value; simp only []; rgr
        held := by have := h.held; have := h.current; have := h.started; simp only [applyEvent, spawn]; rgr
        unheld := by have := h.unheld; have := h.current; simp only [applyEvent, spawn]; rgr
        last_holder := by have := h.last_holder; have := h.current; have := h.started; simp only [applyEvent, spawn]; rgr }
    | some u =>
      have hu := h.waiter t u hw
      obtain ⟨rfl, hpc⟩ := hu
      have hlt : u < s.nTasks := by
        apply Decidable.byContradiction
        intro hn
        have := h.pcs_none u (by omega)
        rw [this] at hpc; cases hpc
      have hq : starts { s with futs := upd s.futs u (.done r), ready := s.ready ++ [u] } = starts s := by
        simp [starts, List.filter_append, hpc]
      simp only []
      exact
      { pos := h.pos, mle := h.mle, pcs_none := h.pcs_none, pcs_some := h.pcs_some
        ready_lt := by have := h.ready_lt; simp only []; rgr
        started := h.started
        queue := by rw [hq]; exact h.queue
        current := h.current
        fresh := by have := h.fresh; simp only []; rgr
        waiting := by have := h.waiting; have := h.waiter; simp only []; rgr
        waiter := by have := h.waiter; simp only []; rgr
        fin := by have := h.fin; simp only []; rgr
        value := by have := h.value; simp only []; rgr
        held := by have := h.held; have := h.current; have := h.started; simp only [applyEvent, spawn]; rgr
        unheld := by have := h.unheld; have := h.current; simp only [applyEvent, spawn]; rgr
        last_holder := by have := h.last_holder; have := h.current; have := h.started; simp only [applyEvent, spawn]; rgr }
  · exact h


theorem rinv_stepReady (s : St) (m : Nat) (h : RInv s m) : ∃ m', RInv (stepReady s) m' := by
  unfold stepReady
  split
  · exact ⟨m, h⟩
  · rename_i t rest hr
    have hlt : t < s.nTasks := h.ready_lt t (by rw [hr]; simp)
    have hmle := h.mle
    simp only []
    -- dropping the head when it is not a start entry keeps the start entries
    have hdrop : s.pcs t ≠ some .start → starts { s with ready := rest } = List.range' m (s.nTasks - m) := by
      intro hne
      have := h.queue
      simp only [starts, hr, List.filter_cons] at this
      have hb : (s.pcs t == some Pc.start) = false := by simpa using hne
      simp only [hb, Bool.false_eq_true, ↓reduceIte] at this
      exact this
    have hrest : ∀ u, u ∈ rest → u ∈ s.ready := by intro u hu; rw [hr]; exact List.mem_cons_of_mem _ hu
    cases hpc : s.pcs t with
    | none => exact absurd hpc (h.pcs_some t hlt)
    | some pc =>
      cases pc with
      | start =>
        simp only []
        -- the head start entry is the oldest task that has not started
        have hq := h.queue
        simp only [starts, hr, List.filter_cons, hpc, beq_self_eq_true, ↓reduceIte] at hq
        have hpos : 0 < s.nTasks - m := by
          cases hk : s.nTasks - m with
          | zero => rw [hk] at hq; simp [List.range'] at hq
          | succ k => omega
        obtain ⟨k, hk⟩ : ∃ k, s.nTasks - m = k + 1 := ⟨s.nTasks - m - 1, by omega⟩
        rw [hk, List.range'_succ] at hq
        have htm : t = m := (List.cons.inj hq).1
        have hq' := (List.cons.inj hq).2
        subst htm
        have hk' : k = s.nTasks - (t + 1) := by omega
        have hstarts : ∀ X : Option Pc, X ≠ some .start →
            List.filter (fun u => upd s.pcs t X u == some Pc.start) rest = List.range' (t + 1) (s.nTasks - (t + 1)) := by
          intro X hX
          rw [filter_upd _ _ _ hX, hq', filter_ne_range' _ _ _ (by omega), hk']
        refine ⟨t + 1, ?_⟩
        cases hf : s.futs t with
        | done v =>
          simp only [apply, ↓reduceIte]
          exact
          { pos := h.pos
            mle := by simp only []; omega
            pcs_none := by have := h.pcs_none; simp only []; rgr
            pcs_some := by have := h.pcs_some; simp only []; rgr
            ready_lt := by have := h.ready_lt; simp only []; rgr
            started := by have := h.started; simp only []; rgr
            queue := by simp only [starts]; exact hstarts _ (by simp)
            current := by simp
            fresh := by have := h.fresh; simp only []; rgr
            waiting := by have := h.waiting; have := h.started; simp only []; rgr
            waiter := by have := h.waiter; simp only []; rgr
            fin := by have := h.fin; simp only []; rgr
            value := by simp [upd, hf]
            held := by have := h.held; have := h.current; have := h.started; simp only [applyEvent, spawn]; rgr
            unheld := by have := h.unheld; have := h.current; simp only [applyEvent, spawn]; rgr
            last_holder := by have := h.last_holder; have := h.current; have := h.started; simp only [applyEvent, spawn]; rgr }
        | pending w =>
          simp only []
          exact
          { pos := h.pos
            mle := by simp only []; omega
            pcs_none := by have := h.pcs_none; simp only []; rgr
            pcs_some := by have := h.pcs_some; simp only []; rgr
            ready_lt := by have := h.ready_lt; simp only []; rgr
            started := by have := h.started; simp only []; rgr
            queue := by simp only [starts]; exact hstarts _ (by simp)
            current := by simp
            fresh := by have := h.fresh; simp only []; rgr
            waiting := by have := h.waiting; have := h.started; simp only []; rgr
            waiter := by have := h.waiter; simp only []; rgr
            fin := by have := h.fin; simp only []; rgr
            value := by simp [upd]
            held := by have := h.held; have := h.current; have := h.started; simp only [applyEvent, spawn]; rgr
            unheld := by have := h.unheld; have := h.current; simp only [applyEvent, spawn]; rgr
            last_holder := by have := h.last_holder; have := h.current; have := h.started; simp only [applyEvent, spawn]; rgr }
      | awaiting =>
        simp only []
        have htm : t < m := by
          apply Decidable.byContradiction
          intro hn
          have := (h.started t hlt).2 (by omega)
          rw [hpc] at this; cases this
        cases hf : s.futs t with
        | done v =>
          simp only []
          have hq2 : List.filter (fun u => upd s.pcs t (some Pc.finished) u == some Pc.start) rest =
              List.range' m (s.nTasks - m) := by
            rw [filter_upd _ _ _ (by simp)]
            have := hdrop (by rw [hpc]; simp)
            simp only [starts] at this
            rw [this, filter_ne_range' _ _ _ htm]
          refine ⟨m, ?_⟩
          unfold apply
          split
          · rename_i hc
            simp only [] at hc
            exact
            { pos := h.pos, mle := h.mle
              pcs_none := by have := h.pcs_none; simp only []; rgr
              pcs_some := by have := h.pcs_some; simp only []; rgr
              ready_lt := by have := h.ready_lt; simp only []; rgr
              started := by have := h.started; simp only []; rgr
              queue := by simp only [starts]; exact hq2
              current := h.current
              fresh := by have := h.fresh; simp only []; rgr
              waiting := by have := h.waiting; simp only []; rgr
              waiter := by have := h.waiter; simp only []; rgr
              fin := by have := h.fin; simp only []; rgr
              value := by have := h.current; simp only []; rgr
              held := by have := h.held; have := h.current; have := h.started; simp only [applyEvent, spawn]; rgr
              unheld := by have := h.unheld; have := h.current; simp only [applyEvent, spawn]; rgr
              last_holder := by have := h.last_holder; have := h.current; have := h.started; simp only [applyEvent, spawn]; rgr }
          · rename_i hc
            simp only [] at hc
            exact
            { pos := h.pos, mle := h.mle
              pcs_none := by have := h.pcs_none; simp only []; rgr
              pcs_some := by have := h.pcs_some; simp only []; rgr
              ready_lt := by have := h.ready_lt; simp only []; rgr
              started := by have := h.started; simp only []; rgr
              queue := by simp only [starts]; exact hq2
              current := h.current
              fresh := by have := h.fresh; simp only []; rgr
              waiting := by have := h.waiting; simp only []; rgr
              waiter := by have := h.waiter; simp only []; rgr
              fin := by have := h.fin; simp only []; rgr
              value := by have := h.current; have := h.value; simp only []; rgr
              held := by have := h.held; have := h.current; have := h.started; simp only [applyEvent, spawn]; rgr
              unheld := by have := h.unheld; have := h.current; simp only [applyEvent, spawn]; rgr
              last_holder := by have := h.last_holder; have := h.current; have := h.started; simp only [applyEvent, spawn]; rgr }
        | pending w =>
          simp only []
          refine ⟨m, ?_⟩
          exact
          { pos := h.pos, mle := h.mle, pcs_none := h.pcs_none, pcs_some := h.pcs_some
            ready_lt := by have := h.ready_lt; simp only []; rgr
            started := h.started
            queue := hdrop (by rw [hpc]; simp)
            current := h.current, fresh := h.fresh
            waiting := by have := h.waiting; simp only []; rgr
            waiter := h.waiter, fin := h.fin, value := h.value, held := h.held, unheld := h.unheld, last_holder := h.last_holder }
      | finished =>
        simp only []
        refine ⟨m, ?_⟩
        exact
        { pos := h.pos, mle := h.mle, pcs_none := h.pcs_none, pcs_some := h.pcs_some
          ready_lt := by have := h.ready_lt; simp only []; rgr
          started := h.started
          queue := hdrop (by rw [hpc]; simp)
          current := h.current, fresh := h.fresh
          waiting := by have := h.waiting; simp only []; rgr
          waiter := h.waiter, fin := h.fin, value := h.value, held := h.held, unheld := h.unheld, last_holder := h.last_holder }


theorem rinv_drain (n : Nat) : ∀ s m, RInv s m → ∃ m', RInv (drain n s) m' := by
  induction n with
  | zero => intro s m h; exact ⟨m, h⟩
  | succ n ih =>
    intro s m h
    simp only [drain]
    split
    · exact ⟨m, h⟩
    · obtain ⟨m1, h1⟩ := rinv_stepReady s m h
      exact ih _ m1 h1

theorem rinv_applyEvent (s : St) (m : Nat) (ev : Event) (h : RInv s m) : ∃ m', RInv (applyEvent s ev) m' := by
  cases ev with
  | set r => exact ⟨m, rinv_set s m r h⟩
  | tick => exact rinv_drain _ s m h
  | complete t r => exact ⟨m, rinv_complete s m t r h⟩

theorem rinv_run (evs : List Event) : ∃ m, RInv (run evs) m := by
  unfold run
  suffices ∀ s m, RInv s m → ∃ m', RInv (evs.foldl applyEvent s) m' from this _ 0 rinv_init
  induction evs with
  | nil => intro s m h; exact ⟨m, h⟩
  | cons ev rest ih =>
    intro s m h
    obtain ⟨m1, h1⟩ := rinv_applyEvent s m ev h
    exact ih _ m1 h1

/-- latest wins, on a state satisfying the invariant: it is enough that the queue is empty and the
MOST RECENT evaluation has completed (older ones may still be pending) -/
theorem rinv_latest_wins (s : St) (m : Nat) (h : RInv s m) (hq : s.ready = []) (v : Int)
    (hd : s.futs (s.nTasks - 1) = .done v) : s.cur = some v ∧ s.holder = some (s.nTasks - 1) := by
  have hpos := h.pos
  have hm : m = s.nTasks := by
    have := h.queue
    simp only [starts, hq, List.filter_nil] at this
    have hmle := h.mle
    cases hk : s.nTasks - m with
    | zero => omega
    | succ k => rw [hk] at this; simp [List.range'] at this
  subst hm
  have hlast : s.nTasks - 1 < s.nTasks := by omega
  have hfin : s.pcs (s.nTasks - 1) = some .finished := by
    cases hp : s.pcs (s.nTasks - 1) with
    | none => exact absurd hp (h.pcs_some _ hlast)
    | some pc =>
      cases pc with
      | finished => rfl
      | start => have := (h.started _ hlast).1 hp; omega
      | awaiting =>
        rcases h.waiting _ hp with hw | ⟨_, hw⟩
        · rw [hd] at hw; cases hw
        · rw [hq] at hw; cases hw
  obtain ⟨v', hv, hc⟩ := h.value hpos hfin
  rw [hd] at hv; cases hv
  refine ⟨hc, ?_⟩
  exact h.last_holder hpos hfin

/-- the evaluation whose result is held never goes back -/
def HLe (a b : Option Nat) : Prop := ∀ t, a = some t → ∃ t', b = some t' ∧ t ≤ t'

theorem HLe.refl (a : Option Nat) : HLe a a := fun t h => ⟨t, h, Nat.le_refl _⟩
theorem HLe.trans {a b d : Option Nat} (h1 : HLe a b) (h2 : HLe b d) : HLe a d := by
  intro t ht
  obtain ⟨t1, e1, l1⟩ := h1 t ht
  obtain ⟨t2, e2, l2⟩ := h2 t1 e1
  exact ⟨t2, e2, Nat.le_trans l1 l2⟩

theorem holder_stepReady (s : St) (m : Nat) (h : RInv s m) : HLe s.holder (stepReady s).holder := by
  have hh := h.held
  have hc := h.current
  have hs := h.started
  have hl := h.ready_lt
  unfold stepReady
  split
  · exact HLe.refl _
  · rename_i t rest hr
    have hlt : t < s.nTasks := hl t (by rw [hr]; simp)
    simp only []
    split
    · rename_i hpc
      have hmt : m ≤ t := (hs t hlt).1 hpc
      split
      · simp only [apply, ↓reduceIte]
        intro t0 h0
        exact ⟨t, rfl, by have := (hh t0 h0).1; omega⟩
      · exact HLe.refl _
    · rename_i hpc
      split
      · unfold apply
        simp only []
        split
        · rename_i hcur
          intro t0 h0
          refine ⟨t, rfl, ?_⟩
          have := (hh t0 h0).1
          simp only [hc] at hcur
          split at hcur
          · cases hcur
          · cases hcur; omega
        · exact HLe.refl _
      · exact HLe.refl _
    · exact HLe.refl _

theorem holder_drain (n : Nat) : ∀ s m, RInv s m → HLe s.holder (drain n s).holder := by
  induction n with
  | zero => intro s m _; exact HLe.refl _
  | succ n ih =>
    intro s m h
    simp only [drain]
    split
    · exact HLe.refl _
    · obtain ⟨m1, h1⟩ := rinv_stepReady s m h
      exact (holder_stepReady s m h).trans (ih _ m1 h1)

theorem holder_applyEvent (s : St) (m : Nat) (ev : Event) (h : RInv s m) : HLe s.holder (applyEvent s ev).holder := by
  cases ev with
  | set r => exact HLe.refl _
  | tick => exact holder_drain _ s m h
  | complete t r =>
    simp only [applyEvent]
    split
    · split <;> exact HLe.refl _
    · exact HLe.refl _

end ParamVerif.Async.Rx
