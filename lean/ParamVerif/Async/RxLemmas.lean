/-
C10 helper lemmas for expression pipelines (Async/Rx.lean): an invariant `RInv nf s m` — exactly the
evaluations `≥ m` have not started, their start entries sit in the ready queue in order (FIFO), the
current task is evaluation `m - 1`, what the expression holds is the completed result of the
awaitable `holder`, and the newest started evaluation has stored every result it has got past —
preserved by every event and every step of the ready queue (`RMid`: the same while one task is inside
`_resolve_async`'s loop).  `holder` never goes back (`HLe`).
-/
import ParamVerif.Async.Rx

namespace ParamVerif.Async.Rx

/-- the start entries still in the queue, in queue order -/
def starts (s : St) : List Nat := s.ready.filter fun t => s.pcs t == some .start

structure RInv (nf : Nat) (s : St) (m : Nat) : Prop where
  pos : 0 < s.nTasks
  mle : m ≤ s.nTasks
  pcs_none : ∀ t, s.nTasks ≤ t → s.pcs t = none
  pcs_some : ∀ t, t < s.nTasks → s.pcs t ≠ none
  ready_lt : ∀ t, t ∈ s.ready → t < s.nTasks
  /-- exactly the tasks `≥ m` have not started, and they are queued in order -/
  started : ∀ t, t < s.nTasks → (s.pcs t = some .start ↔ m ≤ t)
  queue : starts s = List.range' m (s.nTasks - m)
  current : s.currentTask = if m = 0 then none else some (m - 1)
  waiter : ∀ t k u, s.futs (t, k) = .pending (some u) → u = t ∧ s.pcs t = some (.awaiting k)
  waiting : ∀ t k, s.pcs t = some (.awaiting k) → k < nf ∧
      (s.futs (t, k) = .pending (some t) ∨ (∃ v, s.futs (t, k) = .done v) ∧ t ∈ s.ready)
  /-- the expression holds the result of the awaitable `holder`, of an evaluation that has started -/
  held : ∀ t k, s.holder = some (t, k) → t < m ∧ ∃ v, s.futs (t, k) = .done v ∧ s.cur = some v
  unheld : s.holder = none → s.cur = none
  /-- the newest started evaluation has stored every result it has got past -/
  prog : 0 < m → ∀ k, s.pcs (m - 1) = some (.awaiting k) → 0 < k → s.holder = some (m - 1, k - 1)
  value : 0 < m → s.pcs (m - 1) = some .finished → 0 < nf → s.holder = some (m - 1, nf - 1)
  /-- a suspended evaluation has only stored results of awaitables it is past -/
  hold_lt : ∀ t j k, s.holder = some (t, j) → s.pcs t = some (.awaiting k) → j < k

/-- the same while task `t` is inside the loop of `_resolve_async`, about to await its `k`-th
awaitable (its `pcs` entry is stale) -/
structure RMid (nf : Nat) (s : St) (m t k : Nat) : Prop where
  pos : 0 < s.nTasks
  mle : m ≤ s.nTasks
  tlt : t < m
  kle : k ≤ nf
  pcs_none : ∀ u, s.nTasks ≤ u → s.pcs u = none
  pcs_some : ∀ u, u < s.nTasks → s.pcs u ≠ none
  ready_lt : ∀ u, u ∈ s.ready → u < s.nTasks
  started : ∀ u, u < s.nTasks → u ≠ t → (s.pcs u = some .start ↔ m ≤ u)
  queue : (s.ready.filter fun u => s.pcs u == some .start).filter (fun u => u != t) = List.range' m (s.nTasks - m)
  current : s.currentTask = some (m - 1)
  waiter : ∀ u j w, s.futs (u, j) = .pending (some w) → w = u ∧ u ≠ t ∧ s.pcs u = some (.awaiting j)
  waiting : ∀ u j, u ≠ t → s.pcs u = some (.awaiting j) → j < nf ∧
      (s.futs (u, j) = .pending (some u) ∨ (∃ v, s.futs (u, j) = .done v) ∧ u ∈ s.ready)
  held : ∀ u j, s.holder = some (u, j) → u < m ∧ ∃ v, s.futs (u, j) = .done v ∧ s.cur = some v
  unheld : s.holder = none → s.cur = none
  prog : m - 1 ≠ t → ∀ j, s.pcs (m - 1) = some (.awaiting j) → 0 < j → s.holder = some (m - 1, j - 1)
  value : m - 1 ≠ t → s.pcs (m - 1) = some .finished → 0 < nf → s.holder = some (m - 1, nf - 1)
  runprog : t = m - 1 → 0 < k → s.holder = some (t, k - 1)
  hold_lt : ∀ u j i, u ≠ t → s.holder = some (u, j) → s.pcs u = some (.awaiting i) → j < i
  runlt : ∀ j, s.holder = some (t, j) → j < k

theorem rinv_init (nf : Nat) : RInv nf St.init 0 := by
  constructor <;> simp [St.init, spawn, starts, upd]
  intro t ht e; omega

theorem filter_upd (pcs : Nat → Option Pc) (t : Nat) (X : Option Pc) (hX : X ≠ some .start) (l : List Nat) :
    l.filter (fun u => upd pcs t X u == some .start) =
      (l.filter (fun u => pcs u == some .start)).filter (fun u => u != t) := by
  rw [List.filter_filter]
  apply List.filter_congr
  intro u _
  by_cases e : u = t <;> simp [upd, e, hX]

theorem filter_ne_range' (a k t : Nat) (h : t < a) : (List.range' a k).filter (fun u => u != t) = List.range' a k := by
  rw [List.filter_eq_self]
  intro u hu
  have := (List.mem_range'_1.1 hu).1
  simp; omega

macro "rgr" : tactic => `(tactic| grind (splits := 12) [upd])

/-! ### the loop of `_resolve_async` -/

/-- the task leaves the loop: its last step is over -/
theorem rmid_finish (nf : Nat) (s : St) (m t k : Nat) (h : RMid nf s m t k)
    (hv : t = m - 1 → k = nf) : RInv nf { s with pcs := upd s.pcs t (some .finished) } m :=
  have htn : t < s.nTasks := Nat.lt_of_lt_of_le h.tlt h.mle
  { pos := h.pos, mle := h.mle
    pcs_none := by have := h.pcs_none; simp only []; rgr
    pcs_some := by have := h.pcs_some; simp only []; rgr
    ready_lt := h.ready_lt
    started := by
      have hst := h.started; have := h.tlt; simp only []
      intro u hu
      by_cases e : u = t
      · subst e; simp [upd]; omega
      · simp [upd, e]; exact hst u hu e
    queue := by
      simp only [starts]
      rw [filter_upd _ _ _ (by simp)]
      exact h.queue
    current := by have := h.current; have := h.tlt; simp only []; rgr
    waiter := by have := h.waiter; simp only []; rgr
    waiting := by have := h.waiting; simp only []; rgr
    held := h.held, unheld := h.unheld
    prog := by have := h.prog; simp only []; rgr
    value := by
      have hrp := h.runprog; have := h.tlt; simp only []
      intro hm hp hn
      by_cases e : m - 1 = t
      · have hk := hv e.symm
        rw [e]; rw [← hk]; exact hrp e.symm (by omega)
      · exact h.value e (by simpa [upd, e] using hp) hn
    hold_lt := by
      have := h.hold_lt; simp only []
      intro u j i hh hp
      by_cases e : u = t
      · subst e; simp [upd] at hp
      · exact this u j i e hh (by simpa [upd, e] using hp) }

/-- the task suspends on its `k`-th awaitable -/
theorem rmid_suspend (nf : Nat) (s : St) (m t k : Nat) (h : RMid nf s m t k) (hk : k < nf)
    (hf : s.futs (t, k) = .pending none) :
    RInv nf { s with pcs := upd s.pcs t (some (.awaiting k)), futs := upd s.futs (t, k) (.pending (some t)) } m :=
  have htn : t < s.nTasks := Nat.lt_of_lt_of_le h.tlt h.mle
  { pos := h.pos, mle := h.mle
    pcs_none := by have := h.pcs_none; simp only []; rgr
    pcs_some := by have := h.pcs_some; simp only []; rgr
    ready_lt := h.ready_lt
    started := by
      have hst := h.started; have := h.tlt; simp only []
      intro u hu
      by_cases e : u = t
      · subst e; simp [upd]; omega
      · simp [upd, e]; exact hst u hu e
    queue := by
      simp only [starts]
      rw [filter_upd _ _ _ (by simp)]
      exact h.queue
    current := by have := h.current; have := h.tlt; simp only []; rgr
    waiter := by
      have := h.waiter; simp only []
      intro u j w hw
      by_cases e : (u, j) = (t, k)
      · cases e; simp [upd] at hw ⊢; exact hw.symm
      · have e' : ¬ ((u, j) = (t, k)) := e
        simp only [upd, e', if_false] at hw
        have := this u j w hw
        refine ⟨this.1, ?_⟩
        simp [upd, this.2.1, this.2.2]
    waiting := by
      have := h.waiting; simp only []
      intro u j hp
      by_cases e : u = t
      · subst e
        simp [upd] at hp; subst hp
        exact ⟨hk, Or.inl (by simp [upd])⟩
      · simp only [upd, e, if_false] at hp
        have h1 := this u j e hp
        refine ⟨h1.1, ?_⟩
        have e' : ¬ ((u, j) = (t, k)) := by intro e2; cases e2; exact e rfl
        simp only [upd, e', if_false]
        exact h1.2
    held := by
      have := h.held; simp only []
      intro u j hh
      obtain ⟨a, v, b, c⟩ := this u j hh
      refine ⟨a, v, ?_, c⟩
      have e' : ¬ ((u, j) = (t, k)) := by intro e2; cases e2; rw [hf] at b; cases b
      simp only [upd, e', if_false]; exact b
    unheld := h.unheld
    prog := by
      have := h.prog; have := h.runprog; simp only []
      intro hm j hp hj
      by_cases e : m - 1 = t
      · rw [e] at hp ⊢
        simp [upd] at hp; subst hp
        exact h.runprog e.symm hj
      · exact h.prog e j (by simpa [upd, e] using hp) hj
    value := by
      have := h.value; simp only []
      intro hm hp hn
      by_cases e : m - 1 = t
      · rw [e] at hp; simp [upd] at hp
      · exact h.value e (by simpa [upd, e] using hp) hn
    hold_lt := by
      have := h.hold_lt; simp only []
      intro u j i hh hp
      by_cases e : u = t
      · subst e; simp [upd] at hp; subst hp; exact h.runlt j hh
      · exact this u j i e hh (by simpa [upd, e] using hp) }

theorem rinv_loop (nf t m : Nat) : ∀ (r : Nat) (s : St), r ≤ nf → RMid nf s m t (nf - r) → RInv nf (rxLoop t nf r s) m := by
  intro r
  induction r with
  | zero =>
    intro s _ h
    exact rmid_finish nf s m t _ h (fun _ => by omega)
  | succ r ih =>
    intro s hr h
    simp only [rxLoop]
    cases hf : s.futs (t, nf - (r + 1)) with
    | done v =>
      simp only []
      split
      · rename_i hc
        have htm : t = m - 1 := by have := h.current; rw [this] at hc; cases hc; rfl
        apply ih _ (by omega)
        have hk : nf - r = nf - (r + 1) + 1 := by omega
        exact
        { pos := h.pos, mle := h.mle, tlt := h.tlt, kle := by omega
          pcs_none := h.pcs_none, pcs_some := h.pcs_some, ready_lt := h.ready_lt, started := h.started
          queue := h.queue, current := h.current, waiter := h.waiter, waiting := h.waiting
          held := by
            simp only []
            intro u j hh
            cases hh
            exact ⟨h.tlt, v, hf, rfl⟩
          unheld := by simp
          prog := fun e => absurd htm.symm e
          value := fun e => absurd htm.symm e
          runprog := by
            intro _ _
            simp only []
            rw [hk]; simp
          hold_lt := by
            simp only []
            intro u j i hne hh hp
            cases hh; exact absurd rfl hne
          runlt := by
            simp only []
            intro j hh
            cases hh; omega }
      · rename_i hc
        refine rmid_finish nf s m t _ h ?_
        intro e
        exact absurd (by rw [h.current, e]) hc
    | pending w =>
      simp only []
      have hw : w = none := by
        cases w with
        | none => rfl
        | some u => exact absurd rfl (h.waiter t _ u hf).2.1
      subst hw
      exact rmid_suspend nf s m t _ h (by omega) hf

/-! ### events -/

theorem rinv_set (nf : Nat) (s : St) (m : Nat) (h : RInv nf s m) : RInv nf (applyEvent nf s .set) m := by
  have hmle := h.mle
  have hq : starts (applyEvent nf s .set) = List.range' m (s.nTasks + 1 - m) := by
    simp only [starts, applyEvent, spawn]
    rw [List.filter_append]
    have h1 : List.filter (fun t => upd s.pcs s.nTasks (some Pc.start) t == some Pc.start) s.ready = starts s := by
      unfold starts
      apply List.filter_congr
      intro t ht
      have := h.ready_lt t ht
      have e : t ≠ s.nTasks := by omega
      simp [upd, e]
    rw [h1, h.queue]
    have : s.nTasks + 1 - m = (s.nTasks - m) + 1 := by omega
    rw [this, List.range'_concat]
    simp [upd]
    omega
  exact
  { pos := by simp [applyEvent, spawn]
    mle := by simp [applyEvent, spawn]; omega
    pcs_none := by have := h.pcs_none; simp only [applyEvent, spawn]; rgr
    pcs_some := by have := h.pcs_some; simp only [applyEvent, spawn]; rgr
    ready_lt := by have := h.ready_lt; simp only [applyEvent, spawn]; rgr
    started := by have := h.started; simp only [applyEvent, spawn]; rgr
    queue := by rw [hq]; simp [applyEvent, spawn]
    current := by have := h.current; simp only [applyEvent, spawn]; rgr
    waiter := by have := h.waiter; have := h.pcs_none; simp only [applyEvent, spawn]; rgr
    waiting := by have := h.waiting; have := h.pcs_none; simp only [applyEvent, spawn]; rgr
    held := by have := h.held; simp only [applyEvent, spawn]; rgr
    unheld := by have := h.unheld; simp only [applyEvent, spawn]; rgr
    prog := by have := h.prog; have := h.started; simp only [applyEvent, spawn]; rgr
    value := by have := h.value; have := h.started; simp only [applyEvent, spawn]; rgr
    hold_lt := by have := h.hold_lt; have := h.held; have := h.pcs_none; simp only [applyEvent, spawn]; rgr }

theorem rinv_complete (nf : Nat) (s : St) (m t k : Nat) (r : Int) (h : RInv nf s m) :
    RInv nf (applyEvent nf s (.complete t k r)) m := by
  simp only [applyEvent]
  split
  · rename_i w hw
    have hdone : ∀ (rd : List Nat), (∀ u, u ∈ s.ready → u ∈ rd) → (w = some t → t ∈ rd) →
        (rd.filter fun u => s.pcs u == some .start) = List.range' m (s.nTasks - m) →
        (∀ u, u ∈ rd → u < s.nTasks) →
        RInv nf { s with futs := upd s.futs (t, k) (.done r), ready := rd } m := by
      intro rd hsub hin hq hlt
      exact
      { pos := h.pos, mle := h.mle, pcs_none := h.pcs_none, pcs_some := h.pcs_some
        ready_lt := hlt, started := h.started, queue := hq, current := h.current
        waiter := by
          have := h.waiter; simp only []
          intro u j x hx
          by_cases e : (u, j) = (t, k)
          · cases e; simp [upd] at hx
          · have e' : ¬ ((u, j) = (t, k)) := e
            simp only [upd, e', if_false] at hx; exact this u j x hx
        waiting := by
          have hwt := h.waiting; have hwr := h.waiter; simp only []
          intro u j hp
          obtain ⟨a, b⟩ := hwt u j hp
          refine ⟨a, ?_⟩
          by_cases e : (u, j) = (t, k)
          · cases e
            right
            refine ⟨⟨r, by simp [upd]⟩, hin ?_⟩
            rcases b with b | ⟨⟨v, b⟩, _⟩
            · rw [hw] at b; cases b; rfl
            · rw [hw] at b; cases b
          · have e' : ¬ ((u, j) = (t, k)) := e
            simp only [upd, e', if_false]
            rcases b with b | ⟨b, c⟩
            · exact Or.inl b
            · exact Or.inr ⟨b, hsub u c⟩
        held := by
          have := h.held; simp only []
          intro u j hh
          obtain ⟨a, v, b, c⟩ := this u j hh
          refine ⟨a, v, ?_, c⟩
          have e' : ¬ ((u, j) = (t, k)) := by intro e2; cases e2; rw [hw] at b; cases b
          simp only [upd, e', if_false]; exact b
        unheld := h.unheld, prog := h.prog, value := h.value, hold_lt := h.hold_lt }
    cases w with
    | none =>
      simp only []
      exact hdone s.ready (fun _ hu => hu) (by intro e; cases e) h.queue h.ready_lt
    | some u =>
      have hu := h.waiter t k u hw
      obtain ⟨rfl, hpc⟩ := hu
      simp only []
      refine hdone (s.ready ++ [u]) (fun _ hx => List.mem_append_left _ hx) (fun _ => by simp) ?_ ?_
      · have := h.queue
        simp only [starts] at this
        simp [List.filter_append, hpc, this]
      · intro x hx
        rcases List.mem_append.1 hx with hx | hx
        · exact h.ready_lt x hx
        · have : x = u := by simpa using hx
          subst this
          apply Decidable.byContradiction
          intro hn
          have := h.pcs_none x (by omega)
          rw [this] at hpc; cases hpc
  · exact h

theorem rinv_drop (nf : Nat) (s : St) (m t : Nat) (rest : List Nat) (h : RInv nf s m) (hr : s.ready = t :: rest)
    (hns : s.pcs t ≠ some .start)
    (hnw : ∀ k, s.pcs t = some (.awaiting k) → ∀ v, s.futs (t, k) ≠ .done v) :
    RInv nf { s with ready := rest } m :=
  { pos := h.pos, mle := h.mle, pcs_none := h.pcs_none, pcs_some := h.pcs_some
    ready_lt := fun u hu => h.ready_lt u (by rw [hr]; exact List.mem_cons_of_mem _ hu)
    started := h.started
    queue := by
      have := h.queue
      simp only [starts, hr, List.filter_cons] at this
      have hb : (s.pcs t == some Pc.start) = false := by simpa using hns
      simp only [hb, Bool.false_eq_true, ↓reduceIte] at this
      exact this
    current := h.current, waiter := h.waiter
    waiting := by
      intro u j hp
      obtain ⟨a, b⟩ := h.waiting u j hp
      refine ⟨a, ?_⟩
      rcases b with b | ⟨⟨v, b⟩, c⟩
      · exact Or.inl b
      · right
        refine ⟨⟨v, b⟩, ?_⟩
        rw [hr] at c
        rcases List.mem_cons.1 c with c | c
        · subst c; exact absurd b (hnw j hp v)
        · exact c
    held := h.held, unheld := h.unheld, prog := h.prog, value := h.value, hold_lt := h.hold_lt }

theorem rinv_stepReady (nf : Nat) (s : St) (m : Nat) (h : RInv nf s m) : ∃ m', RInv nf (stepReady nf s) m' := by
  unfold stepReady
  split
  · exact ⟨m, h⟩
  · rename_i t rest hr
    have hlt : t < s.nTasks := h.ready_lt t (by rw [hr]; simp)
    have hmle := h.mle
    have hrest : ∀ u, u ∈ s.ready → u ≠ t → u ∈ rest := by
      intro u hu hne
      rw [hr] at hu
      rcases List.mem_cons.1 hu with e | e
      · exact absurd e hne
      · exact e
    simp only []
    cases hpc : s.pcs t with
    | none => exact absurd hpc (h.pcs_some t hlt)
    | some pc =>
      cases pc with
      | start =>
        simp only []
        -- the head start entry is the oldest task that has not started
        have hq := h.queue
        simp only [starts, hr, List.filter_cons, hpc, beq_self_eq_true, ↓reduceIte] at hq
        obtain ⟨k0, hk0⟩ : ∃ k0, s.nTasks - m = k0 + 1 := by
          cases hk : s.nTasks - m with
          | zero => rw [hk] at hq; simp [List.range'] at hq
          | succ k0 => exact ⟨k0, rfl⟩
        rw [hk0, List.range'_succ] at hq
        have htm : t = m := (List.cons.inj hq).1
        have hq' := (List.cons.inj hq).2
        subst htm
        have hk' : k0 = s.nTasks - (t + 1) := by omega
        refine ⟨t + 1, ?_⟩
        apply rinv_loop nf t (t + 1) nf _ (Nat.le_refl _)
        rw [Nat.sub_self]
        exact
        { pos := h.pos, mle := by simp only []; omega, tlt := by omega, kle := Nat.zero_le _
          pcs_none := h.pcs_none, pcs_some := h.pcs_some
          ready_lt := fun u hu => h.ready_lt u (by rw [hr]; exact List.mem_cons_of_mem _ hu)
          started := by
            have := h.started; simp only []
            intro u hu hne
            rw [this u hu]; omega
          queue := by
            simp only []
            rw [hq', filter_ne_range' _ _ _ (by omega), hk']
          current := by simp
          waiter := by
            have := h.waiter; simp only []
            intro u j w hw
            obtain ⟨a, b⟩ := this u j w hw
            refine ⟨a, ?_, b⟩
            intro e; subst e; rw [hpc] at b; cases b
          waiting := by
            simp only []
            intro u j hne hp
            obtain ⟨a, b⟩ := h.waiting u j hp
            refine ⟨a, ?_⟩
            rcases b with b | ⟨b, c⟩
            · exact Or.inl b
            · exact Or.inr ⟨b, hrest u c hne⟩
          held := by
            have := h.held; simp only []
            intro u j hh
            obtain ⟨a, b⟩ := this u j hh
            exact ⟨by omega, b⟩
          unheld := h.unheld
          prog := by intro e; simp at e
          value := by intro e; simp at e
          runprog := by intro _ e; cases e
          hold_lt := fun u j i _ => h.hold_lt u j i
          runlt := by
            intro j hh
            have := (h.held t j hh).1
            omega }
      | awaiting k =>
        simp only []
        have hw := h.waiting t k hpc
        have htm : t < m := by
          apply Decidable.byContradiction
          intro hn
          have := (h.started t hlt).2 (by omega)
          rw [hpc] at this; cases this
        cases hf : s.futs (t, k) with
        | done v =>
          simp only []
          refine ⟨m, ?_⟩
          apply rinv_loop nf t m (nf - k) _ (by omega)
          have hkk : nf - (nf - k) = k := by have := hw.1; omega
          rw [hkk]
          exact
          { pos := h.pos, mle := h.mle, tlt := htm, kle := by have := hw.1; omega
            pcs_none := h.pcs_none, pcs_some := h.pcs_some
            ready_lt := fun u hu => h.ready_lt u (by rw [hr]; exact List.mem_cons_of_mem _ hu)
            started := fun u hu _ => h.started u hu
            queue := by
              have := h.queue
              simp only [starts, hr, List.filter_cons, hpc] at this
              simp only [] at this ⊢
              have hb : ((some (Pc.awaiting k) : Option Pc) == some Pc.start) = false := by simp
              simp only [hb, Bool.false_eq_true, ↓reduceIte] at this
              rw [this, filter_ne_range' _ _ _ htm]
            current := by
              have := h.current
              simp only []
              rw [this]; split
              · omega
              · rfl
            waiter := by
              have := h.waiter; simp only []
              intro u j w hw'
              obtain ⟨a, b⟩ := this u j w hw'
              refine ⟨a, ?_, b⟩
              intro e; subst e
              rw [hpc] at b; cases b
              rw [hf] at hw'; cases hw'
            waiting := by
              simp only []
              intro u j hne hp
              obtain ⟨a, b⟩ := h.waiting u j hp
              refine ⟨a, ?_⟩
              rcases b with b | ⟨b, c⟩
              · exact Or.inl b
              · exact Or.inr ⟨b, hrest u c hne⟩
            held := h.held, unheld := h.unheld
            prog := fun _ => h.prog (by omega)
            value := fun _ => h.value (by omega)
            runprog := by
              intro e hk
              rw [e]
              exact h.prog (by omega) k (by rw [← e]; exact hpc) hk
            hold_lt := fun u j i _ => h.hold_lt u j i
            runlt := fun j hh => h.hold_lt t j k hh hpc }
        | pending w =>
          simp only []
          exact ⟨m, rinv_drop nf s m t rest h hr (by rw [hpc]; simp) (by
            intro j hj v hv
            rw [hpc] at hj; cases hj
            rw [hf] at hv; cases hv)⟩
      | finished =>
        simp only []
        exact ⟨m, rinv_drop nf s m t rest h hr (by rw [hpc]; simp) (by intro j hj; rw [hpc] at hj; cases hj)⟩

theorem rinv_drain (nf : Nat) (n : Nat) : ∀ s m, RInv nf s m → ∃ m', RInv nf (drain nf n s) m' := by
  induction n with
  | zero => intro s m h; exact ⟨m, h⟩
  | succ n ih =>
    intro s m h
    simp only [drain]
    split
    · exact ⟨m, h⟩
    · obtain ⟨m1, h1⟩ := rinv_stepReady nf s m h
      exact ih _ m1 h1

theorem rinv_applyEvent (nf : Nat) (s : St) (m : Nat) (ev : Event) (h : RInv nf s m) :
    ∃ m', RInv nf (applyEvent nf s ev) m' := by
  cases ev with
  | set => exact ⟨m, rinv_set nf s m h⟩
  | tick => exact rinv_drain nf _ s m h
  | complete t k r => exact ⟨m, rinv_complete nf s m t k r h⟩

theorem rinv_run (nf : Nat) (evs : List Event) : ∃ m, RInv nf (run nf evs) m := by
  unfold run
  suffices ∀ s m, RInv nf s m → ∃ m', RInv nf (evs.foldl (applyEvent nf) s) m' from this _ 0 (rinv_init nf)
  induction evs with
  | nil => intro s m h; exact ⟨m, h⟩
  | cons ev rest ih =>
    intro s m h
    obtain ⟨m1, h1⟩ := rinv_applyEvent nf s m ev h
    exact ih _ m1 h1

/-! ### consequences -/

/-- latest wins, on a state satisfying the invariant: the queue is empty and every awaitable of the
MOST RECENT evaluation has completed (older evaluations may still be pending) -/
theorem rinv_latest_wins (nf : Nat) (s : St) (m : Nat) (h : RInv nf s m) (hq : s.ready = []) (hn : 0 < nf)
    (hd : ∀ k, k < nf → ∃ v, s.futs (s.nTasks - 1, k) = .done v) :
    s.holder = some (s.nTasks - 1, nf - 1) ∧ ∃ v, s.futs (s.nTasks - 1, nf - 1) = .done v ∧ s.cur = some v := by
  have hpos := h.pos
  have hm : m = s.nTasks := by
    have := h.queue
    simp only [starts, hq, List.filter_nil] at this
    have hmle := h.mle
    cases hk : s.nTasks - m with
    | zero => omega
    | succ k => rw [hk] at this; simp [List.range'] at this
  subst hm
  have hlast : s.nTasks - 1 < s.nTasks := by omega
  have hfin : s.pcs (s.nTasks - 1) = some .finished := by
    cases hp : s.pcs (s.nTasks - 1) with
    | none => exact absurd hp (h.pcs_some _ hlast)
    | some pc =>
      cases pc with
      | finished => rfl
      | start => have := (h.started _ hlast).1 hp; omega
      | awaiting k =>
        obtain ⟨hk, hw⟩ := h.waiting _ k hp
        rcases hw with hw | ⟨_, hw⟩
        · obtain ⟨v, hv⟩ := hd k hk; rw [hv] at hw; cases hw
        · rw [hq] at hw; cases hw
  have hh := h.value hpos hfin hn
  exact ⟨hh, (h.held _ _ hh).2⟩

/-- order of the awaitables: older evaluation first, then earlier yield -/
def fle (a b : Fid) : Prop := a.1 < b.1 ∨ (a.1 = b.1 ∧ a.2 ≤ b.2)

/-- the awaitable whose result is held never goes back -/
def HLe (a b : Option Fid) : Prop := ∀ f, a = some f → ∃ f', b = some f' ∧ fle f f'

theorem HLe.refl (a : Option Fid) : HLe a a := fun f h => ⟨f, h, Or.inr ⟨rfl, Nat.le_refl _⟩⟩
theorem HLe.trans {a b d : Option Fid} (h1 : HLe a b) (h2 : HLe b d) : HLe a d := by
  intro f hf
  obtain ⟨f1, e1, l1⟩ := h1 f hf
  obtain ⟨f2, e2, l2⟩ := h2 f1 e1
  refine ⟨f2, e2, ?_⟩
  unfold fle at *
  omega

theorem holder_loop (nf t m : Nat) : ∀ (r : Nat) (s : St), r ≤ nf → RMid nf s m t (nf - r) →
    HLe s.holder (rxLoop t nf r s).holder := by
  intro r
  induction r with
  | zero => intro s _ _; exact HLe.refl _
  | succ r ih =>
    intro s hr h
    simp only [rxLoop]
    cases hf : s.futs (t, nf - (r + 1)) with
    | done v =>
      simp only []
      split
      · rename_i hc
        have htm : t = m - 1 := by have := h.current; rw [this] at hc; cases hc; rfl
        have hk : nf - r = nf - (r + 1) + 1 := by omega
        have hmid : RMid nf { s with cur := some v, log := s.log ++ [some v], holder := some (t, nf - (r + 1)) } m t
            (nf - r) :=
          { pos := h.pos, mle := h.mle, tlt := h.tlt, kle := by omega
            pcs_none := h.pcs_none, pcs_some := h.pcs_some, ready_lt := h.ready_lt, started := h.started
            queue := h.queue, current := h.current, waiter := h.waiter, waiting := h.waiting
            held := by
              simp only []
              intro u j hh
              cases hh
              exact ⟨h.tlt, v, hf, rfl⟩
            unheld := by simp
            prog := fun e => absurd htm.symm e
            value := fun e => absurd htm.symm e
            runprog := by intro _ _; simp only []; rw [hk]; simp
            hold_lt := by simp only []; intro u j i hne hh hp; cases hh; exact absurd rfl hne
            runlt := by simp only []; intro j hh; cases hh; omega }
        refine HLe.trans ?_ (ih _ (by omega) hmid)
        intro f hfh
        refine ⟨_, rfl, ?_⟩
        obtain ⟨u, j⟩ := f
        have hu := (h.held u j hfh).1
        by_cases e : u = t
        · subst e
          have := h.runlt j hfh
          exact Or.inr ⟨rfl, by simp only []; omega⟩
        · exact Or.inl (by simp only []; omega)
      · exact HLe.refl _
    | pending w => exact HLe.refl _

/-- entry into the loop at the start of a task -/
theorem rmid_start (nf : Nat) (s : St) (m t : Nat) (rest : List Nat) (h : RInv nf s m) (hr : s.ready = t :: rest)
    (hpc : s.pcs t = some .start) : t = m ∧ RMid nf { s with ready := rest, currentTask := some t } (t + 1) t 0 := by
  have hlt : t < s.nTasks := h.ready_lt t (by rw [hr]; simp)
  have hmle := h.mle
  have hrest : ∀ u, u ∈ s.ready → u ≠ t → u ∈ rest := by
    intro u hu hne
    rw [hr] at hu
    rcases List.mem_cons.1 hu with e | e
    · exact absurd e hne
    · exact e
        -- the head start entry is the oldest task that has not started
  have hq := h.queue
  simp only [starts, hr, List.filter_cons, hpc, beq_self_eq_true, ↓reduceIte] at hq
  obtain ⟨k0, hk0⟩ : ∃ k0, s.nTasks - m = k0 + 1 := by
    cases hk : s.nTasks - m with
    | zero => rw [hk] at hq; simp [List.range'] at hq
    | succ k0 => exact ⟨k0, rfl⟩
  rw [hk0, List.range'_succ] at hq
  have htm : t = m := (List.cons.inj hq).1
  have hq' := (List.cons.inj hq).2
  subst htm
  have hk' : k0 = s.nTasks - (t + 1) := by omega
  refine ⟨rfl, ?_⟩
  exact
  { pos := h.pos, mle := by simp only []; omega, tlt := by omega, kle := Nat.zero_le _
    pcs_none := h.pcs_none, pcs_some := h.pcs_some
    ready_lt := fun u hu => h.ready_lt u (by rw [hr]; exact List.mem_cons_of_mem _ hu)
    started := by
      have := h.started; simp only []
      intro u hu hne
      rw [this u hu]; omega
    queue := by
      simp only []
      rw [hq', filter_ne_range' _ _ _ (by omega), hk']
    current := by simp
    waiter := by
      have := h.waiter; simp only []
      intro u j w hw
      obtain ⟨a, b⟩ := this u j w hw
      refine ⟨a, ?_, b⟩
      intro e; subst e; rw [hpc] at b; cases b
    waiting := by
      simp only []
      intro u j hne hp
      obtain ⟨a, b⟩ := h.waiting u j hp
      refine ⟨a, ?_⟩
      rcases b with b | ⟨b, c⟩
      · exact Or.inl b
      · exact Or.inr ⟨b, hrest u c hne⟩
    held := by
      have := h.held; simp only []
      intro u j hh
      obtain ⟨a, b⟩ := this u j hh
      exact ⟨by omega, b⟩
    unheld := h.unheld
    prog := by intro e; simp at e
    value := by intro e; simp at e
    runprog := by intro _ e; cases e
    hold_lt := fun u j i _ => h.hold_lt u j i
    runlt := by
      intro j hh
      have := (h.held t j hh).1
      omega }

/-- entry into the loop at the wake-up of a task whose awaited future is done -/
theorem rmid_wake (nf : Nat) (s : St) (m t k : Nat) (v : Int) (rest : List Nat) (h : RInv nf s m)
    (hr : s.ready = t :: rest) (hpc : s.pcs t = some (.awaiting k)) (hf : s.futs (t, k) = .done v) :
    RMid nf { s with ready := rest } m t k := by
  have hlt : t < s.nTasks := h.ready_lt t (by rw [hr]; simp)
  have hrest : ∀ u, u ∈ s.ready → u ≠ t → u ∈ rest := by
    intro u hu hne
    rw [hr] at hu
    rcases List.mem_cons.1 hu with e | e
    · exact absurd e hne
    · exact e
  have hw := h.waiting t k hpc
  have htm : t < m := by
    apply Decidable.byContradiction
    intro hn
    have := (h.started t hlt).2 (by omega)
    rw [hpc] at this; cases this
  exact
  { pos := h.pos, mle := h.mle, tlt := htm, kle := by have := hw.1; omega
    pcs_none := h.pcs_none, pcs_some := h.pcs_some
    ready_lt := fun u hu => h.ready_lt u (by rw [hr]; exact List.mem_cons_of_mem _ hu)
    started := fun u hu _ => h.started u hu
    queue := by
      have := h.queue
      simp only [starts, hr, List.filter_cons, hpc] at this
      simp only [] at this ⊢
      have hb : ((some (Pc.awaiting k) : Option Pc) == some Pc.start) = false := by simp
      simp only [hb, Bool.false_eq_true, ↓reduceIte] at this
      rw [this, filter_ne_range' _ _ _ htm]
    current := by
      have := h.current
      simp only []
      rw [this]; split
      · omega
      · rfl
    waiter := by
      have := h.waiter; simp only []
      intro u j w hw'
      obtain ⟨a, b⟩ := this u j w hw'
      refine ⟨a, ?_, b⟩
      intro e; subst e
      rw [hpc] at b; cases b
      rw [hf] at hw'; cases hw'
    waiting := by
      simp only []
      intro u j hne hp
      obtain ⟨a, b⟩ := h.waiting u j hp
      refine ⟨a, ?_⟩
      rcases b with b | ⟨b, c⟩
      · exact Or.inl b
      · exact Or.inr ⟨b, hrest u c hne⟩
    held := h.held, unheld := h.unheld
    prog := fun _ => h.prog (by omega)
    value := fun _ => h.value (by omega)
    runprog := by
      intro e hk
      rw [e]
      exact h.prog (by omega) k (by rw [← e]; exact hpc) hk
    hold_lt := fun u j i _ => h.hold_lt u j i
    runlt := fun j hh => h.hold_lt t j k hh hpc }

theorem holder_stepReady (nf : Nat) (s : St) (m : Nat) (h : RInv nf s m) : HLe s.holder (stepReady nf s).holder := by
  unfold stepReady
  split
  · exact HLe.refl _
  · rename_i t rest hr
    simp only []
    cases hpc : s.pcs t with
    | none => exact HLe.refl _
    | some pc =>
      cases pc with
      | start =>
        simp only []
        have := (rmid_start nf s m t rest h hr hpc).2
        exact holder_loop nf t (t + 1) nf _ (Nat.le_refl _) (by rw [Nat.sub_self]; exact this)
      | awaiting k =>
        simp only []
        cases hf : s.futs (t, k) with
        | done v =>
          simp only []
          have hmid := rmid_wake nf s m t k v rest h hr hpc hf
          have hk := (h.waiting t k hpc).1
          have hkk : nf - (nf - k) = k := by omega
          exact holder_loop nf t m (nf - k) _ (by omega) (by rw [hkk]; exact hmid)
        | pending w => exact HLe.refl _
      | finished => exact HLe.refl _

theorem holder_drain (nf n : Nat) : ∀ s m, RInv nf s m → HLe s.holder (drain nf n s).holder := by
  induction n with
  | zero => intro s m _; exact HLe.refl _
  | succ n ih =>
    intro s m h
    simp only [drain]
    split
    · exact HLe.refl _
    · obtain ⟨m1, h1⟩ := rinv_stepReady nf s m h
      exact (holder_stepReady nf s m h).trans (ih _ m1 h1)

theorem holder_applyEvent (nf : Nat) (s : St) (m : Nat) (ev : Event) (h : RInv nf s m) :
    HLe s.holder (applyEvent nf s ev).holder := by
  cases ev with
  | set => exact HLe.refl _
  | tick => exact holder_drain nf _ s m h
  | complete t k r =>
    simp only [applyEvent]
    split
    · split <;> exact HLe.refl _
    · exact HLe.refl _

end ParamVerif.Async.Rx
