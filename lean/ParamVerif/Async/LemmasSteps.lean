/-
C10 helper lemmas, part 2: every step of the ready queue (`stepReady`, hence `drain` = `tick`)
preserves the invariant.  A step is shown to produce one of the post-states of
Async/LemmasPost.lean; the branches of the model that cannot be taken in a state satisfying the
invariant (a task's own result unlinking its reference, a starting task finding another one
registered, a cancelled future under a live task) are refuted on the way.
-/
import ParamVerif.Async.LemmasPost

namespace ParamVerif.Async

theorem St.ext' (s s' : St) (h1 : s.vals = s'.vals) (h2 : s.refs = s'.refs) (h3 : s.asyncRefs = s'.asyncRefs)
    (h4 : s.syncing = s'.syncing) (h5 : s.nTasks = s'.nTasks) (h6 : s.tasks = s'.tasks) (h7 : s.futs = s'.futs)
    (h8 : s.ready = s'.ready) (h9 : s.log = s'.log) (h10 : s.last = s'.last) : s = s' := by
  cases s; cases s'; simp only at *; subst_vars; rfl

theorem contains_addName (l : List Nat) (p : Nat) : (addName l p).contains p = true := by
  unfold addName; split <;> simp_all

/-- inside the scope of its own name a write is just a write: the unlink branch is not taken -/
theorem plainSet_in_scope (s : St) (p : Nat) (v : Int) (hc : s.syncing.contains p = true) :
    plainSet s p v = { s with vals := upd s.vals p v, log := s.log ++ [(p, v)] } := by
  unfold plainSet
  have hu : ((s.refs p).isSome && !s.syncing.contains p) = false := by rw [hc]; simp
  simp only [hu, Bool.false_eq_true, ↓reduceIte]

theorem scopedUpdate_eq (s : St) (p : Nat) (v : Int) :
    scopedUpdate s p v = { s with vals := upd s.vals p v, log := s.log ++ [(p, v)] } := by
  unfold scopedUpdate
  simp only []
  rw [plainSet_in_scope _ _ _ (by exact contains_addName _ _)]


theorem upd_self {κ α : Type} [DecidableEq κ] (m : κ → α) (k : κ) (v : α) (h : m k = v) : upd m k v = m := by
  funext i; simp only [upd]; split
  · subst_vars; rfl
  · rfl

/-- the state in the middle of a step of the generator task `t`: head of the queue removed, `t`
running and registered, some values already written -/
def midGen (s : St) (t : Nat) (x : Task) (rest : List (Nat × Option Fid)) (vals' : Nat → Int)
    (lg : List (Nat × Int)) : St :=
  { s with ready := rest, tasks := upd s.tasks t (some { x with pc := .running, mustCancel := false }),
           asyncRefs := upd s.asyncRefs x.param (some t), vals := vals', log := lg }

theorem scopedUpdate_midGen (s : St) (t : Nat) (x : Task) (rest : List (Nat × Option Fid)) (vals' : Nat → Int)
    (lg : List (Nat × Int)) (v : Int) :
    scopedUpdate (midGen s t x rest vals' lg) x.param v =
      midGen s t x rest (upd vals' x.param v) (lg ++ [(x.param, v)]) := by
  rw [scopedUpdate_eq]; rfl

theorem syncAfterEnd_not_coro (pc : Pc) (l : List Nat) (h : ∀ sv, pc ≠ .awaitCoro sv) : syncAfterEnd pc l = l := by
  cases pc <;> simp_all [syncAfterEnd]

/-- the invariant holds and the ready queue is exactly `r`: under the invariant a step of the ready
queue removes the head entry and appends nothing (no branch that cancels another task is taken) -/
def InvR (c : Cfg) (s : St) (r : List (Nat × Option Fid)) : Prop := Inv c s none ∧ s.ready = r

theorem invR_of_eq (c : Cfg) (a b : St) (r : List (Nat × Option Fid)) (e : a = b) (h : InvR c a r) : InvR c b r := by
  subst e; exact h

theorem inv_genLoop (c : Cfg) (s : St) (t : Nat) (w : Option Fid) (rest : List (Nat × Option Fid)) (x : Task) (n : Nat)
    (h : Inv c s none) (hr : s.ready = (t, w) :: rest) (ht : s.tasks t = some x) (hl : Live c s t x)
    (hw : ∀ f, waitingOn t x.pc = some f → w = some f) (hst : x.pc = .start → w = none)
    (hk : x.kind = .agen n) :
    ∀ (r : Nat) (vals' : Nat → Int) (lg : List (Nat × Int)), r ≤ n →
      (∀ q, q ≠ x.param → vals' q = s.vals q) →
      (0 < n - r → s.futs (t, n - r - 1) = .done (vals' x.param)) →
      InvR c (genLoop t x.param n r (midGen s t x rest vals' lg)) rest := by
  have hxpc : ∀ sv, x.pc ≠ .awaitCoro sv := by
    intro sv hsv
    have := h.kind_coro t x sv ht hsv
    rw [hk] at this; cases this
  intro r
  induction r with
  | zero =>
    intro vals' lg _ hvq hp
    have key := inv_live_end c s t w rest x vals' lg h hr ht hl hw hst hvq
      (by intro hc; rw [hk] at hc; cases hc)
      (by intro n' hn' hpos
          have : n' = n := by rw [hk] at hn'; cases hn'; rfl
          subst this
          simpa using hp (by simpa using hpos))
    rw [syncAfterEnd_not_coro _ _ hxpc] at key
    have : genLoop t x.param n 0 (midGen s t x rest vals' lg) =
        { s with ready := rest,
                 tasks := upd s.tasks t (some { x with pc := .finished, mustCancel := false }),
                 asyncRefs := upd s.asyncRefs x.param none,
                 syncing := s.syncing, vals := vals', log := lg } := by
      apply St.ext' <;> simp [genLoop, midGen, cleanup, endTask, St.setTask, upd_upd]
    rw [this]; exact ⟨key, rfl⟩
  | succ r ih =>
    intro vals' lg hrn hvq hp
    simp only [genLoop]
    have hfm : (midGen s t x rest vals' lg).futs = s.futs := rfl
    have htm : (midGen s t x rest vals' lg).tasks t = some { x with pc := .running, mustCancel := false } := by
      simp [midGen]
    cases hf : s.futs (t, n - (r + 1)) with
    | done v =>
      simp only [awaitFut, hfm, hf]
      rw [scopedUpdate_midGen]
      apply ih _ _ (by omega)
      · intro q hq; simp [upd, hq, hvq q hq]
      · intro _
        have : n - r - 1 = n - (r + 1) := by omega
        rw [this, hf]; simp
    | cancelled =>
      exfalso
      have h1 := h.fut_cancelled t _ x hf ht hl.1
      exact hl.2 (Or.inr (Or.inl (by simp [waitsCancelled, h1, hf])))
    | pending w0 =>
      simp only [awaitFut, hfm, hf, htm]
      have key := inv_live_susp_gen c s t w rest x vals' lg (n - (r + 1)) n w0 h hr ht hl hw hst hvq hf hk (by omega)
        hp hxpc
      have : ({ (midGen s t x rest vals' lg).setTask t
                  { ({ x with pc := .running, mustCancel := false } : Task) with pc := .awaitGen (n - (r + 1)) } with
                futs := upd s.futs (t, n - (r + 1)) (.pending (some t)) } : St) =
        { s with ready := rest,
                 tasks := upd s.tasks t (some { x with pc := .awaitGen (n - (r + 1)), mustCancel := false }),
                 asyncRefs := upd s.asyncRefs x.param (some t),
                 syncing := s.syncing,
                 futs := upd s.futs (t, n - (r + 1)) (.pending (some t)),
                 vals := vals', log := lg } := by
        apply St.ext' <;> simp [midGen, St.setTask, upd_upd]
      simp only [Bool.false_eq_true, ↓reduceIte]
      rw [this]; exact ⟨key, rfl⟩


/-- removing a queue entry nobody is waiting for -/
theorem inv_drop_head (c : Cfg) (s : St) (e : Nat × Option Fid) (rest : List (Nat × Option Fid))
    (h : Inv c s none) (hr : s.ready = e :: rest)
    (h1 : ∀ t x, s.tasks t = some x → x.pc = .start → e ≠ (t, none))
    (h2 : ∀ t x f, s.tasks t = some x → waitingOn t x.pc = some f → (s.futs f).isPending = false → e ≠ (t, some f)) :
    Inv c { s with ready := rest } none :=
  { h with
    start_queued := by
      intro t x ht hp
      have := h.start_queued t x ht hp
      rw [hr] at this
      rcases List.mem_cons.1 this with e1 | e1
      · exact absurd e1.symm (h1 t x ht hp)
      · exact e1
    wake_queued := by
      intro t x f ht hw hf
      have := h.wake_queued t x f ht hw hf
      rw [hr] at this
      rcases List.mem_cons.1 this with e1 | e1
      · exact absurd e1.symm (h2 t x f ht hw hf)
      · exact e1 }


/-- no coroutine scope is open when a coroutine task that is not inside one is alive -/
theorem syncing_nil_of_coro (c : Cfg) (s : St) (t : Nat) (x : Task) (h : Inv c s none) (ht : s.tasks t = some x)
    (ha : c.awaitInside = true) (hk : x.kind = .coro) (hn : x.pc.terminal = false) (hx : ∀ sv, x.pc ≠ .awaitCoro sv) :
    s.syncing = [] := by
  apply Decidable.byContradiction
  intro hne
  obtain ⟨t', x', sv, h1, h2⟩ := h.scope_open hne
  have hk' := h.kind_coro t' x' sv h1 h2
  have := h.one_coro ha t t' x x' ht h1 hk hk' hn (by rw [h2]; rfl)
  subst this
  rw [ht] at h1; cases h1
  exact hx sv h2

set_option maxHeartbeats 1000000 in
theorem inv_stepStart (c : Cfg) (s : St) (t : Nat) (rest : List (Nat × Option Fid)) (x : Task)
    (h : Inv c s none) (hr : s.ready = (t, none) :: rest) (ht : s.tasks t = some x) (hpc : x.pc = .start) :
    InvR c (stepStart c { s with ready := rest } t x) rest := by
  obtain ⟨xp, xk, xpc, xm⟩ := x
  simp only at hpc; subst hpc
  have hw : ∀ f, waitingOn t Pc.start = some f → (none : Option Fid) = some f := by intro f hf; simp [waitingOn] at hf
  unfold stepStart
  by_cases hm : xm = true
  · -- CancelledError before the first line
    subst hm
    simp only [↓reduceIte]
    have key := inv_dead_end c s t none rest ⟨xp, xk, .start, true⟩ .cancelled h hr ht (Or.inr rfl) (Or.inl rfl) rfl hw
      (fun _ => rfl)
    exact ⟨key, rfl⟩
  · have hm' : xm = false := by simpa using hm
    subst hm'
    simp only [Bool.false_eq_true, ↓reduceIte]
    by_cases hsc : (c.startCheck && s.refs xp != some t) = true
    · -- stale reference (since 0c5ea5c)
      simp only [hsc, ↓reduceIte]
      have hd : Doomed c s t ⟨xp, xk, .start, false⟩ := by
        simp only [Bool.and_eq_true, bne_iff_ne, ne_eq] at hsc
        exact Or.inr (Or.inr ⟨hsc.1, rfl, hsc.2⟩)
      exact ⟨inv_dead_end c s t none rest ⟨xp, xk, .start, false⟩ .finished h hr ht (Or.inl rfl) hd rfl hw (fun _ => rfl), rfl⟩
    · simp only [hsc, Bool.false_eq_true, ↓reduceIte]
      have hl : Live c s t ⟨xp, xk, .start, false⟩ := by
        refine ⟨rfl, ?_⟩
        rintro (hd | hd | ⟨h1, _, h3⟩)
        · cases hd
        · simp [waitsCancelled, waitingOn] at hd
        · apply hsc; simp [h1, h3]
      have hlast := h.live_last t _ ht hl
      have hreg : s.asyncRefs xp = none := by
        cases hq : s.asyncRefs xp with
        | none => rfl
        | some u =>
          have h1 := h.reg xp u
          have h2 := h.reg_some xp u hq
          cases hu : s.tasks u with
          | none => exact absurd hu h2
          | some xu =>
            have h3 := h1 xu hq hu
            rw [hlast] at h3
            have : u = t := by have := h3.2.2.2; cases this; rfl
            subst this
            rw [ht] at hu; cases hu
            exact absurd rfl h3.2.1
      simp only [registerTask, St.setTask, hreg]
      cases xk with
      | coro =>
        by_cases ha : c.awaitInside = true
        · simp only [ha, ↓reduceIte]
          have hsy := syncing_nil_of_coro c s t _ h ht ha rfl rfl (by intro sv; simp)
          cases hf : s.futs (t, 0) with
          | done v =>
            simp only [awaitFut, hf]
            have key := inv_live_end c s t none rest ⟨xp, .coro, .start, false⟩ (upd s.vals xp v) (s.log ++ [(xp, v)])
              h hr ht hl hw (fun _ => rfl) (by intro q hq; simp [upd, hq]) (by intro _; simp [hf]) (by intro n hn; cases hn)
            rw [plainSet_in_scope _ _ _ (by simp [hsy, addName])]
            refine invR_of_eq c _ _ _ ?_ ⟨key, rfl⟩
            apply St.ext' <;> simp [cleanup, endTask, St.setTask, upd_upd, syncAfterEnd, hsy]
          | cancelled =>
            exfalso
            have := h.fut_cancelled t 0 _ hf ht rfl
            simp [waitingOn] at this
          | pending w0 =>
            simp only [awaitFut, hf]
            have key := inv_live_susp_coro_inside c s t none rest ⟨xp, .coro, .start, false⟩ s.vals s.log w0
              h hr ht hl hw (fun _ => rfl) (fun _ _ => rfl) hf rfl ha (by intro sv; simp)
            refine invR_of_eq c _ _ _ ?_ ⟨key, rfl⟩
            apply St.ext' <;> simp [St.setTask, upd_upd, hsy, addName]
        · have ha' : c.awaitInside = false := by simpa using ha
          simp only [ha', Bool.false_eq_true, ↓reduceIte]
          cases hf : s.futs (t, 0) with
          | done v =>
            simp only [awaitFut, hf]
            have key := inv_live_end c s t none rest ⟨xp, .coro, .start, false⟩ (upd s.vals xp v) (s.log ++ [(xp, v)])
              h hr ht hl hw (fun _ => rfl) (by intro q hq; simp [upd, hq]) (by intro _; simp [hf]) (by intro n hn; cases hn)
            rw [scopedUpdate_eq]
            refine invR_of_eq c _ _ _ ?_ ⟨key, rfl⟩
            apply St.ext' <;> simp [cleanup, endTask, St.setTask, upd_upd, syncAfterEnd]
          | cancelled =>
            exfalso
            have := h.fut_cancelled t 0 _ hf ht rfl
            simp [waitingOn] at this
          | pending w0 =>
            simp only [awaitFut, hf]
            have key := inv_live_susp_coro_outside c s t none rest ⟨xp, .coro, .start, false⟩ s.vals s.log w0
              h hr ht hl hw (fun _ => rfl) (fun _ _ => rfl) hf rfl ha' (by intro sv; simp)
            refine invR_of_eq c _ _ _ ?_ ⟨key, rfl⟩
            apply St.ext' <;> simp [St.setTask, upd_upd]
      | agen n =>
        have key := inv_genLoop c s t none rest ⟨xp, .agen n, .start, false⟩ n h hr ht hl hw (fun _ => rfl) rfl n
          s.vals s.log (Nat.le_refl _) (fun _ _ => rfl) (by intro hpos; omega)
        exact key


theorem inv_of_eq (c : Cfg) (a b : St) (e : a = b) (h : Inv c a none) : Inv c b none := by subst e; exact h

set_option maxHeartbeats 1000000 in
theorem inv_stepWake (c : Cfg) (s : St) (t : Nat) (f : Fid) (rest : List (Nat × Option Fid)) (x : Task)
    (h : Inv c s none) (hr : s.ready = (t, some f) :: rest) (ht : s.tasks t = some x) :
    InvR c (stepWake { s with ready := rest } t x f) rest := by
  obtain ⟨xp, xk, xpc, xm⟩ := x
  unfold stepWake
  have hdrop1 : waitingOn t xpc ≠ some f → Inv c { s with ready := rest } none := by
    intro hne
    refine inv_drop_head c s _ rest h hr ?_ ?_
    · intro t' x' _ _ e; cases e
    · intro t' x' f' ht' hw' _ e
      cases e
      rw [ht] at ht'; cases ht'
      exact hne hw'
  by_cases hwf : waitingOn t xpc = some f
  · simp only [hwf, bne_self_eq_false, Bool.false_eq_true, ↓reduceIte]
    have hw : ∀ f', waitingOn t xpc = some f' → some f = some f' := by intro f' hf'; rw [hwf] at hf'; exact hf'
    have hst : xpc = .start → some f = none := by intro e; subst e; simp [waitingOn] at hwf
    have hnt : xpc.terminal = false := by cases xpc <;> simp_all [waitingOn, Pc.terminal]
    have hft : f.1 = t := waitingOn_fst hwf
    -- the dead path: CancelledError is thrown at the await
    have dead : Doomed c s t ⟨xp, xk, xpc, xm⟩ →
        Inv c { s with ready := rest,
                       tasks := upd s.tasks t (some ⟨xp, xk, .cancelled, false⟩),
                       syncing := syncAfterEnd xpc s.syncing } none := by
      intro hd
      exact inv_dead_end c s t (some f) rest ⟨xp, xk, xpc, xm⟩ .cancelled h hr ht (Or.inr rfl) hd hnt hw hst
    have notreg : Doomed c s t ⟨xp, xk, xpc, xm⟩ → s.asyncRefs xp ≠ some t := by
      intro hd hq
      have h3 := h.reg xp t _ hq ht
      exact (h.last_live xp t _ h3.2.2.2 ht).2.1 hd
    by_cases hm : xm = true
    · subst hm
      simp only [↓reduceIte]
      have hd : Doomed c s t ⟨xp, xk, xpc, true⟩ := Or.inl rfl
      have nr := notreg hd
      cases xpc with
      | awaitCoro saved =>
        have hsc := h.scope t _ saved ht rfl
        refine invR_of_eq c _ _ _ ?_ ⟨dead hd, rfl⟩
        apply St.ext' <;> simp [cleanup, endTask, St.setTask, upd_upd, syncAfterEnd, hsc.2.1, nr]
      | awaitOut =>
        refine invR_of_eq c _ _ _ ?_ ⟨dead hd, rfl⟩
        apply St.ext' <;> simp [cleanup, endTask, St.setTask, upd_upd, syncAfterEnd, nr]
      | awaitGen k =>
        refine invR_of_eq c _ _ _ ?_ ⟨dead hd, rfl⟩
        apply St.ext' <;> simp [cleanup, endTask, St.setTask, upd_upd, syncAfterEnd, nr]
      | _ => simp [waitingOn] at hwf
    · have hm' : xm = false := by simpa using hm
      subst hm'
      simp only [Bool.false_eq_true, ↓reduceIte]
      cases hf : s.futs f with
      | pending w0 =>
        simp only []
        refine ⟨inv_drop_head c s _ rest h hr ?_ ?_, rfl⟩
        · intro t' x' _ _ e; cases e
        · intro t' x' f' ht' hw' hp e
          cases e
          rw [hf] at hp; cases hp
      | cancelled =>
        simp only []
        have hd : Doomed c s t ⟨xp, xk, xpc, false⟩ := Or.inr (Or.inl (by simp [waitsCancelled, hwf, hf]))
        have nr := notreg hd
        cases xpc with
        | awaitCoro saved =>
          have hsc := h.scope t _ saved ht rfl
          refine invR_of_eq c _ _ _ ?_ ⟨dead hd, rfl⟩
          apply St.ext' <;> simp [cleanup, endTask, St.setTask, upd_upd, syncAfterEnd, hsc.2.1, nr]
        | awaitOut =>
          refine invR_of_eq c _ _ _ ?_ ⟨dead hd, rfl⟩
          apply St.ext' <;> simp [cleanup, endTask, St.setTask, upd_upd, syncAfterEnd, nr]
        | awaitGen k =>
          refine invR_of_eq c _ _ _ ?_ ⟨dead hd, rfl⟩
          apply St.ext' <;> simp [cleanup, endTask, St.setTask, upd_upd, syncAfterEnd, nr]
        | _ => simp [waitingOn] at hwf
      | done v =>
        simp only []
        have hl : Live c s t ⟨xp, xk, xpc, false⟩ := by
          refine ⟨hnt, ?_⟩
          rintro (hd | hd | ⟨_, h2, _⟩)
          · cases hd
          · simp [waitsCancelled, hwf, hf] at hd
          · exact absurd h2 (by intro e; exact absurd (hst e) (by simp))
        have hreg := h.started_reg t _ ht hl (by intro e; exact absurd (hst e) (by simp))
        simp only at hreg
        cases xpc with
        | awaitCoro saved =>
          have hsc := h.scope t _ saved ht rfl
          have hk := h.kind_coro t _ saved ht rfl
          simp only at hk hsc; subst hk
          have hf0 : f = (t, 0) := by simpa [waitingOn] using hwf.symm
          subst hf0
          have key := inv_live_end c s t (some (t, 0)) rest ⟨xp, .coro, .awaitCoro saved, false⟩ (upd s.vals xp v)
            (s.log ++ [(xp, v)]) h hr ht hl hw hst (by intro q hq; simp [upd, hq]) (by intro _; simp [hf])
            (by intro n hn; cases hn)
          simp only []
          rw [plainSet_in_scope _ _ _ (by simp [St.setTask, hsc.2.2])]
          refine invR_of_eq c _ _ _ ?_ ⟨key, rfl⟩
          apply St.ext' <;> simp [cleanup, endTask, St.setTask, upd_upd, syncAfterEnd, hsc.2.1, hreg]
        | awaitOut =>
          have hk := h.kind_coro' t _ ht rfl
          simp only at hk; subst hk
          have hf0 : f = (t, 0) := by simpa [waitingOn] using hwf.symm
          subst hf0
          have key := inv_live_end c s t (some (t, 0)) rest ⟨xp, .coro, .awaitOut, false⟩ (upd s.vals xp v)
            (s.log ++ [(xp, v)]) h hr ht hl hw hst (by intro q hq; simp [upd, hq]) (by intro _; simp [hf])
            (by intro n hn; cases hn)
          simp only []
          rw [scopedUpdate_eq]
          refine invR_of_eq c _ _ _ ?_ ⟨key, rfl⟩
          apply St.ext' <;> simp [cleanup, endTask, St.setTask, upd_upd, syncAfterEnd, hreg]
        | awaitGen k =>
          have hkg := h.kind_gen t _ k ht rfl
          simp only at hkg
          have hf0 : f = (t, k) := by simpa [waitingOn] using hwf.symm
          subst hf0
          cases xk with
          | coro => exact absurd rfl hkg.1
          | agen n =>
            have hkn := hkg.2 n rfl
            simp only []
            have key := inv_genLoop c s t (some (t, k)) rest ⟨xp, .agen n, .awaitGen k, false⟩ n h hr ht hl hw hst rfl
              (n - (k + 1)) (upd s.vals xp v) (s.log ++ [(xp, v)]) (by omega) (by intro q hq; simp [upd, hq])
              (by intro _
                  have : n - (n - (k + 1)) - 1 = k := by omega
                  rw [this, hf]; simp)
            rw [scopedUpdate_eq]
            refine invR_of_eq c _ _ _ ?_ key
            congr 1
            apply St.ext' <;> simp [midGen, St.setTask, upd_self _ _ _ hreg]
        | _ => simp [waitingOn] at hwf
  · have : (waitingOn t xpc != some f) = true := by simpa using hwf
    simp only [this, ↓reduceIte]
    exact ⟨hdrop1 hwf, rfl⟩


theorem invR_stepReady (c : Cfg) (s : St) (h : Inv c s none) : InvR c (stepReady c s) s.ready.tail := by
  unfold stepReady
  split
  · rename_i hr; exact ⟨h, by rw [hr]; rfl⟩
  · rename_i t w rest hr
    rw [hr]
    simp only [List.tail_cons]
    split
    · rename_i hnone
      refine ⟨inv_drop_head c s _ rest h hr ?_ ?_, rfl⟩
      · intro t' x' ht' _ e; cases e; rw [hnone] at ht'; cases ht'
      · intro t' x' f' ht' _ _ e; cases e; rw [hnone] at ht'; cases ht'
    · rename_i x hx
      cases w with
      | none =>
        simp only []
        split
        · rename_i hpc
          exact inv_stepStart c s t rest x h hr hx hpc
        · rename_i hpc
          refine ⟨inv_drop_head c s _ rest h hr ?_ ?_, rfl⟩
          · intro t' x' ht' hp' e; cases e; rw [hx] at ht'; cases ht'; exact hpc hp'
          · intro t' x' f' _ _ _ e; cases e
      | some f => exact inv_stepWake c s t f rest x h hr hx

theorem inv_stepReady (c : Cfg) (s : St) (h : Inv c s none) : Inv c (stepReady c s) none :=
  (invR_stepReady c s h).1

theorem inv_drain (c : Cfg) (n : Nat) : ∀ s, Inv c s none → Inv c (drain c n s) none := by
  induction n with
  | zero => intro s h; exact h
  | succ n ih =>
    intro s h
    simp only [drain]
    split
    · exact h
    · exact ih _ (inv_stepReady c s h)

/-- the fuel suffices: under the invariant every step shortens the ready queue by one, so `n` steps
empty a queue of length at most `n` -/
theorem drain_empties (c : Cfg) (n : Nat) : ∀ s, Inv c s none → s.ready.length ≤ n → (drain c n s).ready = [] := by
  induction n with
  | zero => intro s _ hl; simp only [drain]; simpa using hl
  | succ n ih =>
    intro s h hl
    simp only [drain]
    split
    · rename_i he; simpa using he
    · have hr := invR_stepReady c s h
      apply ih _ hr.1
      rw [hr.2, List.length_tail]; omega

end ParamVerif.Async
