/-
C10 oracle for the extended schedules (watcher hook, references with a dependency re-evaluated by
`bump`): a decidable check that walks the schedule and the observations only — never the model.

What is read after every event: parameter values, keys of `async_refs`, `syncing`, keys of `refs`,
what the value watcher was told since the previous event (in order), and which `_async_ref` tasks
were scheduled during the event `(task, parameter, reference)` — tasks are numbered in scheduling
order, a reference is named by its first task.

The oracle keeps, per parameter, the most recent assignment (`lat`): a plain value (assigned by the
driver, or by the hook right after a write of the hooked parameter) or a reference.  `bump` does not
change it: it re-evaluates the current references.

  1. every value written to `p` is either the plain value whose turn it is (each plain assignment
     is delivered exactly once, in order) or a completed result of SOME evaluation of `p`'s current
     reference — never a result of a superseded reference, never anything after a plain assignment;
  2. while the most recent assignment to `p` is plain, `p` holds that value and is neither linked
     nor owned by a task (at the end of every event); while it is a reference, `p` stays linked;
  3. after a `tick`, if every awaitable of the NEWEST evaluation of `p`'s current reference has
     completed, `p` holds its last result;
  4. after a `tick` with every awaitable of every task completed, `syncing` and `async_refs` are empty;
  5. `bump` re-evaluates every current asynchronous reference exactly once when one of them depends on
     the source, nothing otherwise — and never a superseded reference; `trigger` of a parameter counts as the plain
     assignment of the value it held, the watcher run by `trigger('c')` as its plain assignment;
  6. a value the parameter rejects (`rej`) is never stored; an evaluation ends at its first rejected
     result (for 3.: the value to hold is the last result BEFORE it, if any; for 4.: its later
     awaitables do not count as pending);
  7. a synchronous reference (`assignSync p y`) counts as the plain assignment of the value it resolves
     to — except that `p` STAYS linked (and still owns no task); a change of the other source never
     re-evaluates it (5.: it is not a `.task` reference); one whose function skips (`assignSkip p`)
     counts as the plain assignment of the value `p` holds, without a delivery: whatever was pending
     on `p` is superseded all the same;
  8. an `_async_ref` task ends with an exception (other than its cancellation) only when a result was
     rejected: the exception is a `ValueError`, and there are at most as many as rejected results.
-/
import ParamVerif.Async.ModelExt
import ParamVerif.Async.Spec

namespace ParamVerif.Async

structure ObsH where
  vals : List Int
  async : List Nat
  sync : List Nat
  refs : List Nat
  log : List (Nat × Int)
  spawns : List (Nat × Nat × Nat)       -- (task, parameter, reference)
  /-- class names of the exceptions `_async_ref` tasks ended with during the event (`CancelledError`
      apart); the model does not produce them, the oracle judges them (8.) -/
  errs : List String := []
  deriving Repr, DecidableEq

def observeH (np : Nat) (sh : StH) (logFrom tasksFrom : Nat) : ObsH :=
  let s := sh.core
  { vals := (List.range np).map s.vals,
    async := (List.range np).filter (fun p => (s.asyncRefs p).isSome),
    sync := sortNat s.syncing,
    refs := (List.range np).filter (fun p => (s.refs p).isSome),
    log := s.log.drop logFrom,
    spawns := (List.range' tasksFrom (s.nTasks - tasksFrom)).filterMap fun t =>
      (s.tasks t).map fun x => (t, x.param, sh.rf t) }

/-- what the oracle remembers -/
structure OSt where
  lat : List (Nat × Last)               -- most recent assignment per parameter (`.task r`: reference r)
  pend : List (Nat × Int)               -- plain assignments whose write has to show up in the log, in order
  tasks : List (Nat × Nat × Nat)        -- every task scheduled so far
  kinds : List (Nat × Kind)             -- reference ↦ kind
  done : List (Fid × Int)               -- completed hand-made futures
  vals : List Int                       -- the values observed after the previous event
  fn : List (Nat × Nat)                 -- parameter ↦ the function object last assigned to it (a reference)
  synced : List Nat := []               -- parameters whose most recent assignment is a synchronous reference
  nerr : Nat := 0                       -- tasks that ended with a `ValueError` so far
  deps : List Nat := []                 -- references whose function depends on the source

def OSt.init : OSt := { lat := [], pend := [], tasks := [], kinds := [], done := [], vals := [], fn := [] }

def OSt.latOf (o : OSt) (p : Nat) : Last :=
  match o.lat.find? (fun e => e.1 = p) with
  | some e => e.2
  | none => .never

def OSt.setLat (o : OSt) (p : Nat) (l : Last) : OSt :=
  { o with lat := (p, l) :: o.lat.filter (fun e => e.1 ≠ p), synced := o.synced.filter (· ≠ p) }

def OSt.doneVal (o : OSt) (f : Fid) : Option Int := (o.done.find? (fun e => e.1 = f)).map (·.2)

def OSt.kindOf (o : OSt) (r : Nat) : Option Kind := (o.kinds.find? (fun e => e.1 = r)).map (·.2)

/-- walk the awaitables of task `t` in order up to the first rejected result:
(has every awaitable it can reach completed?, the last accepted result before the end) -/
def OSt.walk (o : OSt) (rej : Int → Bool) (t : Nat) : Nat → Nat → Option Int → Bool × Option Int
  | 0, _, acc => (true, acc)
  | n + 1, i, acc =>
    match o.doneVal (t, i) with
    | none => (false, acc)
    | some v => if rej v then (true, acc) else o.walk rej t n (i + 1) (some v)

/-- every awaitable task `t` (an evaluation of reference `r`) can reach has completed -/
def OSt.taskDone (o : OSt) (rej : Int → Bool) (t r : Nat) : Bool :=
  match o.kindOf r with
  | some k => (o.walk rej t k.nFuts 0 none).1
  | none => false

/-- one watcher delivery -/
def stepLog (e : Env) (o : OSt) (pv : Nat × Int) : Except String OSt := do
  let (p, v) := pv
  let hook := e.hook
  if e.rej v then throw s!"parameter {p} set to {v}, a value its validation rejects"
  let o1 ← match o.latOf p with
    | .never => throw s!"parameter {p} set to {v} although nothing was assigned to it"
    | .plain w =>
      match o.pend with
      | (q, u) :: rest =>
        if q = p && u = v then pure { o with pend := rest }
        else throw s!"parameter {p} set to {v} while the plain assignment {q} := {u} was due (latest assignment to {p}: plain {w})"
      | [] => throw s!"parameter {p} set to {v} after the plain assignment of {w}: the overridden reference was not cancelled"
    | .task r =>
      let ok := o.tasks.any fun (t, q, r') =>
        q = p && r' = r && match o.kindOf r with
          | some k => (List.range k.nFuts).any fun i => o.doneVal (t, i) = some v
          | none => false
      if ok then pure o
      else throw s!"parameter {p} set to {v}, which is not a completed result of its current reference {r}: a superseded result was applied"
  match hook with
  | some (a, b, w) => if p = a then pure { (o1.setLat b (.plain w)) with pend := o1.pend ++ [(b, w)] } else pure o1
  | none => pure o1

def checkEventH (np : Nat) (e : Env) (o : OSt) (ev : EventH) (obs : ObsH) : Except String OSt := do
  -- the schedule
  let o1 ← match ev with
    | .assign p (.plain v) _ =>
      if obs.spawns != [] then throw "a plain assignment scheduled a task"
      pure { (o.setLat p (.plain v)) with pend := o.pend ++ [(p, v)] }
    | .assign p src dep =>
      match obs.spawns with
      | [(t, q, r)] =>
        if q != p || r != t then throw s!"assignment to {p} scheduled task {t} for parameter {q}, reference {r}"
        let k : Kind := match src with | .agen n => .agen n | _ => .coro
        pure { (o.setLat p (.task t)) with kinds := o.kinds ++ [(t, k)], tasks := o.tasks ++ [(t, q, r)],
                                           fn := (p, t) :: o.fn.filter (fun e => e.1 ≠ p),
                                           deps := if dep then o.deps ++ [t] else o.deps }
      | l => throw s!"an asynchronous assignment scheduled {l.length} tasks"
    | .again p =>
      match o.fn.find? (fun e => e.1 = p), obs.spawns with
      | some (_, r0), [(t, q, r)] =>
        if q != p || r != r0 then throw s!"re-assignment of reference {r0} to {p} scheduled task {t} for parameter {q}, reference {r}"
        pure { (o.setLat p (.task r0)) with tasks := o.tasks ++ [(t, q, r)] }
      | none, [] => pure o
      | _, l => throw s!"re-assigning the same function scheduled {l.length} tasks"
    | .bump =>
      match obs.spawns.find? (fun (_, q, r) => o.latOf q != .task r) with
      | some (t, q, r) => throw s!"task {t} re-evaluates reference {r} of parameter {q}, which is not its current reference"
      | none =>
        let cur := (List.range np).filterMap fun p => match o.latOf p with | .task r => some (p, r) | _ => none
        let want := if cur.any (fun pr => o.deps.contains pr.2) then cur else []
        let got := obs.spawns.map fun (_, q, r) => (q, r)
        if !(got.length == want.length && want.all got.contains) then
          throw s!"the source changed: the current asynchronous references (parameter, reference) {want} have to be re-evaluated once each, re-evaluated: {got}"
        pure { o with tasks := o.tasks ++ obs.spawns }
    | .tick => if obs.spawns != [] then throw "a task was scheduled during a tick" else pure o
    | .trigC =>
      if obs.spawns != [] then throw "trigger scheduled a task"
      match e.thook with
      | some (b, w) => pure { (o.setLat b (.plain w)) with pend := o.pend ++ [(b, w)] }
      | none => pure o
    | .trigP p =>
      if obs.spawns != [] then throw "trigger scheduled a task"
      -- `trigger(p)` re-assigns the value `p` held: a plain assignment of that value
      let v := o.vals[p]?.getD 0
      pure { (o.setLat p (.plain v)) with pend := o.pend ++ [(p, v)] }
    | .assignSkip p =>
      if obs.spawns != [] then throw "a synchronous reference scheduled a task"
      -- no value yet: `p` keeps what it held, linked to the new reference; nothing is delivered
      let o' := o.setLat p (.plain (o.vals[p]?.getD 0))
      pure { o' with synced := p :: o'.synced }
    | .assignSync p y =>
      if obs.spawns != [] then throw "a synchronous reference scheduled a task"
      if e.rej y then pure o
      else
        let o' := o.setLat p (.plain y)
        pure { o' with pend := o.pend ++ [(p, y)], synced := p :: o'.synced }
    | .complete t k v =>
      if obs.spawns != [] then throw "a task was scheduled by a completion"
      pure (if (o.doneVal (t, k)).isSome then o else { o with done := o.done ++ [((t, k), v)] })
  -- the deliveries, in order
  let o2 ← obs.log.foldlM (stepLog e) o1
  if let (q, u) :: _ := o2.pend then throw s!"the plain assignment {q} := {u} was not delivered to the watcher"
  -- the state at the end of the event
  for p in List.range np do
    match o2.latOf p with
    | .never => pure ()
    | .plain w =>
      if obs.vals[p]? != some w then throw s!"parameter {p} holds {obs.vals[p]?.getD 0}, its latest (plain) assignment is {w}"
      if o2.synced.contains p then
        if !obs.refs.contains p then throw s!"parameter {p} lost the link of its synchronous reference (refs)"
      else if obs.refs.contains p then throw s!"parameter {p}: the plain assignment left its reference linked (refs)"
      if obs.async.contains p then throw s!"parameter {p}: the plain assignment left a task registered (async_refs)"
    | .task r =>
      if !obs.refs.contains p then throw s!"parameter {p} lost the link of its current reference {r} (refs)"
      if ev == .tick then
        let newest := (o2.tasks.filter fun (_, q, r') => q = p && r' = r).foldl (fun m (t, _, _) => max m t) r
        match o2.kindOf r with
        | some k =>
          match o2.walk e.rej newest k.nFuts 0 none with
          | (true, some w) =>
            if obs.vals[p]? != some w then
              throw s!"parameter {p} holds {obs.vals[p]?.getD 0} when quiescent, the last accepted result of the newest evaluation (task {newest}) of its current reference is {w}"
          | _ => pure ()
        | none => pure ()
  if let some x := obs.errs.find? (· != "ValueError") then
    throw s!"an _async_ref task ended with {x}"
  let nerr := o2.nerr + obs.errs.length
  if nerr > (o2.done.filter fun d => e.rej d.2).length then
    throw s!"{nerr} tasks ended with ValueError, only {(o2.done.filter fun d => e.rej d.2).length} results were rejected"
  let o2 := { o2 with nerr := nerr }
  if ev == .tick && o2.tasks.all (fun (t, _, r) => o2.taskDone e.rej t r) then
    if obs.sync != [] then throw s!"syncing = {obs.sync} although every awaitable has completed and the loop is idle"
    if obs.async != [] then throw s!"async_refs still has {obs.async} although every awaitable has completed"
  pure { o2 with vals := obs.vals }

/-- (number of events checked, first failure) -/
def specHistoryH (np : Nat) (e : Env) : OSt → List (EventH × ObsH) → Nat → Nat × Option String
  | _, [], n => (n, none)
  | o, (ev, obs) :: rest, n =>
    match checkEventH np e o ev obs with
    | .error m => (n, some s!"event {n} ({repr ev}): {m}")
    | .ok o' => specHistoryH np e o' rest (n + 1)

end ParamVerif.Async
