/-
C10 helper lemmas, part 1: the invariant `Inv` (Async/Inv.lean) holds in every *post-state* a
transition can produce.  Each lemma fixes one explicit post-state (a record update of the
pre-state) and proves the fields of `Inv` one by one, each from the few old fields it needs.
Part 2 (Async/LemmasSteps.lean) shows that every event and every step of the ready queue produces
one of these post-states.
-/
import ParamVerif.Async.Inv

namespace ParamVerif.Async

/-- same state as far as the invariant can tell: functions pointwise, the ready queue as a set -/
structure Sim (s s' : St) : Prop where
  vals : ∀ i, s'.vals i = s.vals i
  refs : ∀ i, s'.refs i = s.refs i
  asyncRefs : ∀ i, s'.asyncRefs i = s.asyncRefs i
  syncing : s'.syncing = s.syncing
  nTasks : s'.nTasks = s.nTasks
  tasks : ∀ i, s'.tasks i = s.tasks i
  futs : ∀ i, s'.futs i = s.futs i
  ready : ∀ e, e ∈ s'.ready ↔ e ∈ s.ready
  last : ∀ i, s'.last i = s.last i

theorem Inv.congr {c : Cfg} {s s' : St} {cur : Option Nat} (hs : Sim s s') (h : Inv c s cur) : Inv c s' cur := by
  obtain ⟨hv, hr, ha, hsy, hn, ht, hf, hre, hl⟩ := hs
  have hv' := funext hv; have hr' := funext hr; have ha' := funext ha
  have ht' := funext ht; have hf' := funext hf; have hl' := funext hl
  cases s; cases s'
  simp only at hv' hr' ha' hsy hn ht' hf' hl' hre
  subst hv' hr' ha' hsy hn ht' hf' hl'
  exact
  { tasks_lt := h.tasks_lt
    futs_fresh := h.futs_fresh
    futs_fresh' := h.futs_fresh'
    running := h.running
    live_last := h.live_last
    refs_last := h.refs_last
    reg := h.reg
    reg_some := h.reg_some
    started_reg := h.started_reg
    last_live := h.last_live
    last_some := h.last_some
    start_queued := fun t x a b => (hre _).2 (h.start_queued t x a b)
    wake_queued := fun t x f a b d => (hre _).2 (h.wake_queued t x f a b d)
    waiter := h.waiter
    scope := h.scope
    scope_open := h.scope_open
    one_coro := h.one_coro
    out_patch := h.out_patch
    kind_coro := h.kind_coro
    kind_coro' := h.kind_coro'
    kind_gen := h.kind_gen
    fut_cancelled := h.fut_cancelled
    val_plain := h.val_plain
    val_coro := h.val_coro
    val_gen := h.val_gen
    val_gen' := h.val_gen' }

/-- a doomed task takes its last step: it ends without writing -/
theorem inv_dead_end (c : Cfg) (s : St) (t : Nat) (w : Option Fid) (rest : List (Nat × Option Fid)) (x : Task)
    (pcEnd : Pc) (h : Inv c s none) (hr : s.ready = (t, w) :: rest) (ht : s.tasks t = some x)
    (hend : pcEnd = .finished ∨ pcEnd = .cancelled) (hd : Doomed c s t x) (hnt : x.pc.terminal = false)
    (hw : ∀ f, waitingOn t x.pc = some f → w = some f)
    (_hst : x.pc = .start → w = none) :
    Inv c { s with ready := rest,
                   tasks := upd s.tasks t (some { x with pc := pcEnd, mustCancel := false }),
                   syncing := syncAfterEnd x.pc s.syncing } none :=
  { tasks_lt := by have := h.tasks_lt; simp only []; gr
    futs_fresh := h.futs_fresh
    futs_fresh' := h.futs_fresh'
    running := by have := h.running; simp only []; gr
    live_last := by have := h.live_last; simp only []; gr
    refs_last := h.refs_last
    reg := by have := h.reg; have := h.last_live; simp only []; gr
    reg_some := by have := h.reg_some; simp only []; gr
    started_reg := by have := h.started_reg; simp only []; gr
    last_live := by have := h.last_live; simp only []; gr
    last_some := by have := h.last_some; simp only []; gr
    start_queued := by have := h.start_queued; simp only []; gr
    wake_queued := by have := h.wake_queued; simp only []; gr
    waiter := by have := h.waiter; simp only []; gr
    scope := by
      have := h.scope; have := h.one_coro; have := h.kind_coro; simp only []
      cases hx : x.pc <;> simp only [syncAfterEnd] <;> gr
    scope_open := by
      simp only []
      intro hne
      have hso := h.scope_open
      cases hx : x.pc <;> simp only [hx, syncAfterEnd] at hne <;> first
        | (exact absurd rfl hne)
        | (obtain ⟨t', x', sv, h1, h2⟩ := hso hne
           refine ⟨t', x', sv, ?_, h2⟩
           have : t' ≠ t := by intro e; subst e; rw [ht] at h1; cases h1; rw [hx] at h2; cases h2
           simp [upd, this, h1])
    one_coro := by have := h.one_coro; simp only []; gr
    out_patch := by have := h.out_patch; simp only []; gr
    kind_coro := by have := h.kind_coro; simp only []; gr
    kind_coro' := by have := h.kind_coro'; simp only []; gr
    kind_gen := by have := h.kind_gen; simp only []; gr
    fut_cancelled := by have := h.fut_cancelled; simp only []; gr
    val_plain := h.val_plain
    val_coro := by have := h.val_coro; have := h.last_live; simp only []; gr
    val_gen := by have := h.val_gen; have := h.last_live; simp only []; gr
    val_gen' := by have := h.val_gen'; have := h.last_live; simp only []; gr }

/-- a live task takes its last step: it may write, then finishes and deregisters -/
theorem inv_live_end (c : Cfg) (s : St) (t : Nat) (w : Option Fid) (rest : List (Nat × Option Fid)) (x : Task)
    (vals' : Nat → Int) (lg : List (Nat × Int))
    (h : Inv c s none) (hr : s.ready = (t, w) :: rest) (ht : s.tasks t = some x)
    (hl : Live c s t x)
    (hw : ∀ f, waitingOn t x.pc = some f → w = some f)
    (_hst : x.pc = .start → w = none)
    (hvq : ∀ q, q ≠ x.param → vals' q = s.vals q)
    (hco : x.kind = .coro → s.futs (t, 0) = .done (vals' x.param))
    (hge : ∀ n, x.kind = .agen n → 0 < n → s.futs (t, n - 1) = .done (vals' x.param)) :
    Inv c { s with ready := rest,
                   tasks := upd s.tasks t (some { x with pc := .finished, mustCancel := false }),
                   asyncRefs := upd s.asyncRefs x.param none,
                   syncing := syncAfterEnd x.pc s.syncing,
                   vals := vals', log := lg } none :=
  have hlast := h.live_last t x ht hl
  { tasks_lt := by have := h.tasks_lt; simp only []; gr
    futs_fresh := h.futs_fresh
    futs_fresh' := h.futs_fresh'
    running := by have := h.running; simp only []; gr
    live_last := by have := h.live_last; simp only []; gr
    refs_last := h.refs_last
    reg := by have := h.reg; simp only []; gr
    reg_some := by have := h.reg_some; simp only []; gr
    started_reg := by have := h.started_reg; have := h.live_last; simp only []; gr
    last_live := by have := h.last_live; simp only []; gr
    last_some := by have := h.last_some; simp only []; gr
    start_queued := by have := h.start_queued; simp only []; gr
    wake_queued := by have := h.wake_queued; simp only []; gr
    waiter := by have := h.waiter; simp only []; gr
    scope := by
      have := h.scope; have := h.one_coro; have := h.kind_coro; simp only []
      cases hx : x.pc <;> simp only [syncAfterEnd] <;> gr
    scope_open := by
      simp only []
      intro hne
      have hso := h.scope_open
      cases hx : x.pc <;> simp only [hx, syncAfterEnd] at hne <;> first
        | (exact absurd rfl hne)
        | (obtain ⟨t', x', sv, h1, h2⟩ := hso hne
           refine ⟨t', x', sv, ?_, h2⟩
           have : t' ≠ t := by intro e; subst e; rw [ht] at h1; cases h1; rw [hx] at h2; cases h2
           simp [upd, this, h1])
    one_coro := by have := h.one_coro; simp only []; gr
    out_patch := by have := h.out_patch; simp only []; gr
    kind_coro := by have := h.kind_coro; simp only []; gr
    kind_coro' := by have := h.kind_coro'; simp only []; gr
    kind_gen := by have := h.kind_gen; simp only []; gr
    fut_cancelled := by have := h.fut_cancelled; simp only []; gr
    val_plain := by have := h.val_plain; simp only []; gr
    val_coro := by have := h.val_coro; have := h.last_live; simp only []; gr
    val_gen := by have := h.val_gen; have := h.last_live; simp only []; gr
    val_gen' := by have := h.val_gen'; have := h.last_live; simp only []; gr }

set_option maxHeartbeats 2000000 in
/-- a live task suspends: coro_inside -/
theorem inv_live_susp_coro_inside (c : Cfg) (s : St) (t : Nat) (w : Option Fid) (rest : List (Nat × Option Fid)) (x : Task)
    (vals' : Nat → Int) (lg : List (Nat × Int))  (w0 : Option Nat)
    (h : Inv c s none) (hr : s.ready = (t, w) :: rest) (ht : s.tasks t = some x)
    (hl : Live c s t x)
    (hw : ∀ f, waitingOn t x.pc = some f → w = some f)
    (hst : x.pc = .start → w = none)
    (hvq : ∀ q, q ≠ x.param → vals' q = s.vals q)
    (hf : s.futs (t, 0) = .pending w0)
    (hk : x.kind = .coro) (ha : c.awaitInside = true) (hxpc : ∀ sv, x.pc ≠ .awaitCoro sv) :
    Inv c { s with ready := rest,
                   tasks := upd s.tasks t (some { x with pc := .awaitCoro [], mustCancel := false }),
                   asyncRefs := upd s.asyncRefs x.param (some t),
                   syncing := [x.param],
                   futs := upd s.futs (t, 0) (.pending (some t)),
                   vals := vals', log := lg } none :=
  have hlast := h.live_last t x ht hl
  have hll := h.last_live _ _ _ hlast ht
  have hsy : c.awaitInside = true → x.kind = .coro → s.syncing = [] := by
    intro ha hk
    apply Decidable.byContradiction
    intro hne
    obtain ⟨t', x', sv, h1, h2⟩ := h.scope_open hne
    have hk' := h.kind_coro t' x' sv h1 h2
    have := h.one_coro ha t t' x x' ht h1 hk hk' hl.1 (by rw [h2]; rfl)
    subst this
    rw [ht] at h1; cases h1
    exact hxpc sv h2
  { tasks_lt := by have := h.tasks_lt; simp only []; gr
    futs_fresh := by have := h.futs_fresh; have := h.tasks_lt; simp only []; gr
    futs_fresh' := by have := h.futs_fresh'; have := h.tasks_lt; simp only []; gr
    running := by have := h.running; simp only []; gr
    live_last := by
      have := h.live_last; simp only []
      intro t' x' ht' hl'
      by_cases e : t' = t
      · subst e; gr
      · gr
    refs_last := h.refs_last
    reg := by
      have := h.reg; simp only []
      intro p' t' x' hr' ht'
      by_cases e : t' = t
      · subst e; gr
      · gr
    reg_some := by have := h.reg_some; simp only []; gr
    started_reg := by
      have := h.started_reg; have := h.live_last; simp only []
      intro t' x' ht' hl' hs'
      by_cases e : t' = t
      · subst e; gr
      · gr
    last_live := by
      have := h.last_live; simp only []
      intro p' t' x' hl' ht'
      by_cases e : t' = t
      · subst e; gr
      · gr
    last_some := by have := h.last_some; simp only []; gr
    start_queued := by have := h.start_queued; simp only []; gr
    wake_queued := by
      have := h.wake_queued; simp only []
      intro t' x' f' ht' hw' hf'
      by_cases e : t' = t
      · subst e; gr
      · gr
    waiter := by
      have := h.waiter; simp only []
      intro t' x' f' w' ht' hw' hf'
      by_cases e : t' = t
      · subst e; gr
      · gr
    scope := by
      have := h.scope; have := h.one_coro; have := h.kind_coro; simp only []
      intro t' x' sv' ht' hp'
      by_cases e : t' = t
      · subst e; gr
      · gr
    scope_open := by
      simp only []
      intro hne
      exact ⟨t, { x with pc := .awaitCoro [], mustCancel := false }, [], by simp [upd], rfl⟩
    one_coro := by have := h.one_coro; simp only []; gr
    out_patch := by have := h.out_patch; simp only []; gr
    kind_coro := by have := h.kind_coro; simp only []; gr
    kind_coro' := by have := h.kind_coro'; simp only []; gr
    kind_gen := by have := h.kind_gen; simp only []; gr
    fut_cancelled := by
      have := h.fut_cancelled; simp only []
      intro t' k' x' hf' ht' hn'
      by_cases e : t' = t
      · subst e; gr
      · gr
    val_plain := by have := h.val_plain; simp only []; gr
    val_coro := by
      have := h.val_coro; have := h.last_live; simp only []
      intro p' t' x' hl' ht' hk' hpc'
      by_cases e : t' = t
      · subst e; gr
      · gr
    val_gen := by
      have := h.val_gen; have := h.last_live; simp only []
      intro p' t' x' n' k' hl' ht' hk' hpc'
      by_cases e : t' = t
      · subst e; gr
      · gr
    val_gen' := by
      have := h.val_gen'; have := h.last_live; simp only []
      intro p' t' x' n' hl' ht' hk' hpc'
      by_cases e : t' = t
      · subst e; gr
      · gr }


set_option maxHeartbeats 2000000 in
/-- a live task suspends: coro_outside -/
theorem inv_live_susp_coro_outside (c : Cfg) (s : St) (t : Nat) (w : Option Fid) (rest : List (Nat × Option Fid)) (x : Task)
    (vals' : Nat → Int) (lg : List (Nat × Int))  (w0 : Option Nat)
    (h : Inv c s none) (hr : s.ready = (t, w) :: rest) (ht : s.tasks t = some x)
    (hl : Live c s t x)
    (hw : ∀ f, waitingOn t x.pc = some f → w = some f)
    (hst : x.pc = .start → w = none)
    (hvq : ∀ q, q ≠ x.param → vals' q = s.vals q)
    (hf : s.futs (t, 0) = .pending w0)
    (hk : x.kind = .coro) (ha : c.awaitInside = false) (hxpc : ∀ sv, x.pc ≠ .awaitCoro sv) :
    Inv c { s with ready := rest,
                   tasks := upd s.tasks t (some { x with pc := .awaitOut, mustCancel := false }),
                   asyncRefs := upd s.asyncRefs x.param (some t),
                   syncing := s.syncing,
                   futs := upd s.futs (t, 0) (.pending (some t)),
                   vals := vals', log := lg } none :=
  have hlast := h.live_last t x ht hl
  have hll := h.last_live _ _ _ hlast ht
  have hsy : c.awaitInside = true → x.kind = .coro → s.syncing = [] := by
    intro ha hk
    apply Decidable.byContradiction
    intro hne
    obtain ⟨t', x', sv, h1, h2⟩ := h.scope_open hne
    have hk' := h.kind_coro t' x' sv h1 h2
    have := h.one_coro ha t t' x x' ht h1 hk hk' hl.1 (by rw [h2]; rfl)
    subst this
    rw [ht] at h1; cases h1
    exact hxpc sv h2
  { tasks_lt := by have := h.tasks_lt; simp only []; gr
    futs_fresh := by have := h.futs_fresh; have := h.tasks_lt; simp only []; gr
    futs_fresh' := by have := h.futs_fresh'; have := h.tasks_lt; simp only []; gr
    running := by have := h.running; simp only []; gr
    live_last := by
      have := h.live_last; simp only []
      intro t' x' ht' hl'
      by_cases e : t' = t
      · subst e; gr
      · gr
    refs_last := h.refs_last
    reg := by
      have := h.reg; simp only []
      intro p' t' x' hr' ht'
      by_cases e : t' = t
      · subst e; gr
      · gr
    reg_some := by have := h.reg_some; simp only []; gr
    started_reg := by
      have := h.started_reg; have := h.live_last; simp only []
      intro t' x' ht' hl' hs'
      by_cases e : t' = t
      · subst e; gr
      · gr
    last_live := by
      have := h.last_live; simp only []
      intro p' t' x' hl' ht'
      by_cases e : t' = t
      · subst e; gr
      · gr
    last_some := by have := h.last_some; simp only []; gr
    start_queued := by have := h.start_queued; simp only []; gr
    wake_queued := by
      have := h.wake_queued; simp only []
      intro t' x' f' ht' hw' hf'
      by_cases e : t' = t
      · subst e; gr
      · gr
    waiter := by
      have := h.waiter; simp only []
      intro t' x' f' w' ht' hw' hf'
      by_cases e : t' = t
      · subst e; gr
      · gr
    scope := by
      have := h.scope; have := h.one_coro; have := h.kind_coro; simp only []
      intro t' x' sv' ht' hp'
      by_cases e : t' = t
      · subst e; gr
      · gr
    scope_open := by
      simp only []
      intro hne
      obtain ⟨t', x', sv, h1, h2⟩ := h.scope_open hne
      refine ⟨t', x', sv, ?_, h2⟩
      have : t' ≠ t := by
        intro e; subst e; rw [ht] at h1; cases h1
        exact hxpc sv h2
      simp [upd, this, h1]
    one_coro := by have := h.one_coro; simp only []; gr
    out_patch := by have := h.out_patch; simp only []; gr
    kind_coro := by have := h.kind_coro; simp only []; gr
    kind_coro' := by have := h.kind_coro'; simp only []; gr
    kind_gen := by have := h.kind_gen; simp only []; gr
    fut_cancelled := by
      have := h.fut_cancelled; simp only []
      intro t' k' x' hf' ht' hn'
      by_cases e : t' = t
      · subst e; gr
      · gr
    val_plain := by have := h.val_plain; simp only []; gr
    val_coro := by
      have := h.val_coro; have := h.last_live; simp only []
      intro p' t' x' hl' ht' hk' hpc'
      by_cases e : t' = t
      · subst e; gr
      · gr
    val_gen := by
      have := h.val_gen; have := h.last_live; simp only []
      intro p' t' x' n' k' hl' ht' hk' hpc'
      by_cases e : t' = t
      · subst e; gr
      · gr
    val_gen' := by
      have := h.val_gen'; have := h.last_live; simp only []
      intro p' t' x' n' hl' ht' hk' hpc'
      by_cases e : t' = t
      · subst e; gr
      · gr }


set_option maxHeartbeats 2000000 in
/-- a live task suspends: gen -/
theorem inv_live_susp_gen (c : Cfg) (s : St) (t : Nat) (w : Option Fid) (rest : List (Nat × Option Fid)) (x : Task)
    (vals' : Nat → Int) (lg : List (Nat × Int)) (k n : Nat) (w0 : Option Nat)
    (h : Inv c s none) (hr : s.ready = (t, w) :: rest) (ht : s.tasks t = some x)
    (hl : Live c s t x)
    (hw : ∀ f, waitingOn t x.pc = some f → w = some f)
    (hst : x.pc = .start → w = none)
    (hvq : ∀ q, q ≠ x.param → vals' q = s.vals q)
    (hf : s.futs (t, k) = .pending w0)
    (hk : x.kind = .agen n) (hkn : k < n) (hprog : 0 < k → s.futs (t, k - 1) = .done (vals' x.param)) (hxpc : ∀ sv, x.pc ≠ .awaitCoro sv) :
    Inv c { s with ready := rest,
                   tasks := upd s.tasks t (some { x with pc := .awaitGen k, mustCancel := false }),
                   asyncRefs := upd s.asyncRefs x.param (some t),
                   syncing := s.syncing,
                   futs := upd s.futs (t, k) (.pending (some t)),
                   vals := vals', log := lg } none :=
  have hlast := h.live_last t x ht hl
  have hll := h.last_live _ _ _ hlast ht
  have hsy : c.awaitInside = true → x.kind = .coro → s.syncing = [] := by
    intro ha hk
    apply Decidable.byContradiction
    intro hne
    obtain ⟨t', x', sv, h1, h2⟩ := h.scope_open hne
    have hk' := h.kind_coro t' x' sv h1 h2
    have := h.one_coro ha t t' x x' ht h1 hk hk' hl.1 (by rw [h2]; rfl)
    subst this
    rw [ht] at h1; cases h1
    exact hxpc sv h2
  { tasks_lt := by have := h.tasks_lt; simp only []; gr
    futs_fresh := by have := h.futs_fresh; have := h.tasks_lt; simp only []; gr
    futs_fresh' := by have := h.futs_fresh'; have := h.tasks_lt; simp only []; gr
    running := by have := h.running; simp only []; gr
    live_last := by
      have := h.live_last; simp only []
      intro t' x' ht' hl'
      by_cases e : t' = t
      · subst e; gr
      · gr
    refs_last := h.refs_last
    reg := by
      have := h.reg; simp only []
      intro p' t' x' hr' ht'
      by_cases e : t' = t
      · subst e; gr
      · gr
    reg_some := by have := h.reg_some; simp only []; gr
    started_reg := by
      have := h.started_reg; have := h.live_last; simp only []
      intro t' x' ht' hl' hs'
      by_cases e : t' = t
      · subst e; gr
      · gr
    last_live := by
      have := h.last_live; simp only []
      intro p' t' x' hl' ht'
      by_cases e : t' = t
      · subst e; gr
      · gr
    last_some := by have := h.last_some; simp only []; gr
    start_queued := by have := h.start_queued; simp only []; gr
    wake_queued := by
      have := h.wake_queued; simp only []
      intro t' x' f' ht' hw' hf'
      by_cases e : t' = t
      · subst e; gr
      · gr
    waiter := by
      have := h.waiter; simp only []
      intro t' x' f' w' ht' hw' hf'
      by_cases e : t' = t
      · subst e; gr
      · gr
    scope := by
      have := h.scope; have := h.one_coro; have := h.kind_coro; simp only []
      intro t' x' sv' ht' hp'
      by_cases e : t' = t
      · subst e; gr
      · gr
    scope_open := by
      simp only []
      intro hne
      obtain ⟨t', x', sv, h1, h2⟩ := h.scope_open hne
      refine ⟨t', x', sv, ?_, h2⟩
      have : t' ≠ t := by
        intro e; subst e; rw [ht] at h1; cases h1
        exact hxpc sv h2
      simp [upd, this, h1]
    one_coro := by have := h.one_coro; simp only []; gr
    out_patch := by have := h.out_patch; simp only []; gr
    kind_coro := by have := h.kind_coro; simp only []; gr
    kind_coro' := by have := h.kind_coro'; simp only []; gr
    kind_gen := by have := h.kind_gen; simp only []; gr
    fut_cancelled := by
      have := h.fut_cancelled; simp only []
      intro t' k' x' hf' ht' hn'
      by_cases e : t' = t
      · subst e; gr
      · gr
    val_plain := by have := h.val_plain; simp only []; gr
    val_coro := by
      have := h.val_coro; have := h.last_live; simp only []
      intro p' t' x' hl' ht' hk' hpc'
      by_cases e : t' = t
      · subst e; gr
      · gr
    val_gen := by
      have := h.val_gen; have := h.last_live; simp only []
      intro p' t' x' n' k' hl' ht' hk' hpc'
      by_cases e : t' = t
      · subst e; gr
      · gr
    val_gen' := by
      have := h.val_gen'; have := h.last_live; simp only []
      intro p' t' x' n' hl' ht' hk' hpc'
      by_cases e : t' = t
      · subst e; gr
      · gr }

/-- nothing registered for `p`: dropping the link leaves no task of `p` able to write
(a task of `p` still at its start is excluded by hypothesis `hD`, or doomed by the start check) -/
theorem inv_clear_none (c : Cfg) (s : St) (p : Nat) (h : Inv c s none)
    (hD : c.startCheck = false → ∀ t x, s.tasks t = some x → x.param = p → x.pc ≠ .start)
    (hn : s.asyncRefs p = none) :
    Inv c { s with refs := upd s.refs p none, last := upd s.last p .never } none :=
  { tasks_lt := h.tasks_lt
    futs_fresh := h.futs_fresh
    futs_fresh' := h.futs_fresh'
    running := h.running
    live_last := by
      have := h.live_last; have := h.started_reg; simp only []
      intro t x ht hl
      by_cases e : x.param = p
      · gr
      · gr
    refs_last := by have := h.refs_last; simp only []; gr
    reg := by have := h.reg; simp only []; gr
    reg_some := h.reg_some
    started_reg := by have := h.started_reg; simp only []; gr
    last_live := by have := h.last_live; simp only []; gr
    last_some := by have := h.last_some; simp only []; gr
    start_queued := h.start_queued
    wake_queued := h.wake_queued
    waiter := h.waiter
    scope := h.scope
    scope_open := h.scope_open
    one_coro := h.one_coro
    out_patch := h.out_patch
    kind_coro := h.kind_coro
    kind_coro' := h.kind_coro'
    kind_gen := h.kind_gen
    fut_cancelled := h.fut_cancelled
    val_plain := by have := h.val_plain; simp only []; gr
    val_coro := by have := h.val_coro; simp only []; gr
    val_gen := by have := h.val_gen; simp only []; gr
    val_gen' := by have := h.val_gen'; simp only []; gr }


/-- the registered task is suspended on a pending future: `cancel()` cancels that future and queues
the wake-up -/
theorem inv_clear_fut (c : Cfg) (s : St) (p u : Nat) (xu : Task) (f : Fid) (w : Option Nat) (h : Inv c s none)
    (_hD : c.startCheck = false → ∀ t x, s.tasks t = some x → x.param = p → x.pc ≠ .start)
    (hu : s.asyncRefs p = some u) (hx : s.tasks u = some xu) (hwf : waitingOn u xu.pc = some f)
    (hf : s.futs f = .pending w) :
    Inv c { s with refs := upd s.refs p none, last := upd s.last p .never, asyncRefs := upd s.asyncRefs p none,
                   futs := upd s.futs f .cancelled, ready := s.ready ++ [(u, some f)] } none :=
  have hreg := h.reg p u xu hu hx
  have hfu := waitingOn_fst hwf
  { tasks_lt := h.tasks_lt
    futs_fresh := by have := h.futs_fresh; have := h.tasks_lt; simp only []; gr
    futs_fresh' := by have := h.futs_fresh'; have := h.tasks_lt; simp only []; gr
    running := h.running
    live_last := by
      have := h.live_last; have := h.started_reg; simp only []
      intro t x ht hl
      by_cases e : x.param = p
      · by_cases e2 : t = u
        · subst e2; gr
        · gr
      · gr
    refs_last := by have := h.refs_last; simp only []; gr
    reg := by have := h.reg; simp only []; gr
    reg_some := by have := h.reg_some; simp only []; gr
    started_reg := by
      have := h.started_reg; have := h.live_last; simp only []
      intro t x ht hl hs
      by_cases e : x.param = p
      · by_cases e2 : t = u
        · subst e2; gr
        · gr
      · gr
    last_live := by
      have := h.last_live; have := h.waiter; simp only []
      intro p' t x hl ht
      by_cases e : p' = p
      · gr
      · have := h.reg; gr
    last_some := by have := h.last_some; simp only []; gr
    start_queued := by have := h.start_queued; simp only []; gr
    wake_queued := by have := h.wake_queued; have := h.waiter; simp only []; gr
    waiter := by have := h.waiter; simp only []; gr
    scope := h.scope
    scope_open := h.scope_open
    one_coro := h.one_coro
    out_patch := h.out_patch
    kind_coro := h.kind_coro
    kind_coro' := h.kind_coro'
    kind_gen := h.kind_gen
    fut_cancelled := by have := h.fut_cancelled; have := h.waiter; simp only []; gr
    val_plain := by have := h.val_plain; simp only []; gr
    val_coro := by have := h.val_coro; simp only []; gr
    val_gen := by have := h.val_gen; simp only []; gr
    val_gen' := by have := h.val_gen'; simp only []; gr }

/-- the registered task is not suspended on a pending future (already woken): `_must_cancel` -/
theorem inv_clear_must (c : Cfg) (s : St) (p u : Nat) (xu : Task) (h : Inv c s none)
    (_hD : c.startCheck = false → ∀ t x, s.tasks t = some x → x.param = p → x.pc ≠ .start)
    (hu : s.asyncRefs p = some u) (hx : s.tasks u = some xu) :
    Inv c { s with refs := upd s.refs p none, last := upd s.last p .never, asyncRefs := upd s.asyncRefs p none,
                   tasks := upd s.tasks u (some { xu with mustCancel := true }) } none :=
  have hreg := h.reg p u xu hu hx
  { tasks_lt := by have := h.tasks_lt; simp only []; gr
    futs_fresh := h.futs_fresh
    futs_fresh' := h.futs_fresh'
    running := by have := h.running; simp only []; gr
    live_last := by
      have := h.live_last; have := h.started_reg; simp only []
      intro t x ht hl
      by_cases e2 : t = u
      · subst e2; gr
      · by_cases e : x.param = p
        · gr
        · gr
    refs_last := by have := h.refs_last; simp only []; gr
    reg := by have := h.reg; simp only []; gr
    reg_some := by have := h.reg_some; simp only []; gr
    started_reg := by
      have := h.started_reg; have := h.live_last; simp only []
      intro t x ht hl hs
      by_cases e2 : t = u
      · subst e2; gr
      · by_cases e : x.param = p
        · gr
        · gr
    last_live := by
      have := h.last_live; simp only []
      intro p' t x hl ht
      by_cases e : p' = p
      · gr
      · have := h.reg; gr
    last_some := by have := h.last_some; simp only []; gr
    start_queued := by have := h.start_queued; simp only []; gr
    wake_queued := by have := h.wake_queued; simp only []; gr
    waiter := by have := h.waiter; simp only []; gr
    scope := by have := h.scope; simp only []; gr
    scope_open := by
      simp only []
      intro hne
      obtain ⟨t', x', sv, h1, h2⟩ := h.scope_open hne
      by_cases e : t' = u
      · subst e; rw [hx] at h1; cases h1
        exact ⟨t', { xu with mustCancel := true }, sv, by simp [upd], h2⟩
      · exact ⟨t', x', sv, by simp [upd, e, h1], h2⟩
    one_coro := by have := h.one_coro; simp only []; gr
    out_patch := by have := h.out_patch; simp only []; gr
    kind_coro := by have := h.kind_coro; simp only []; gr
    kind_coro' := by have := h.kind_coro'; simp only []; gr
    kind_gen := by have := h.kind_gen; simp only []; gr
    fut_cancelled := by have := h.fut_cancelled; simp only []; gr
    val_plain := by have := h.val_plain; simp only []; gr
    val_coro := by have := h.val_coro; simp only []; gr
    val_gen := by have := h.val_gen; simp only []; gr
    val_gen' := by have := h.val_gen'; simp only []; gr }

/-- storing a plain value in a parameter that no task owns -/
theorem inv_set_plain (c : Cfg) (s : St) (p : Nat) (v : Int) (lg : List (Nat × Int)) (h : Inv c s none)
    (hl : ∀ t, s.last p ≠ .task t) :
    Inv c { s with vals := upd s.vals p v, log := lg, last := upd s.last p (.plain v) } none :=
  { tasks_lt := h.tasks_lt
    futs_fresh := h.futs_fresh
    futs_fresh' := h.futs_fresh'
    running := h.running
    live_last := by have := h.live_last; simp only []; gr
    refs_last := by have := h.refs_last; simp only []; gr
    reg := by have := h.reg; simp only []; gr
    reg_some := h.reg_some
    started_reg := by have := h.started_reg; simp only []; gr
    last_live := by have := h.last_live; simp only []; gr
    last_some := by have := h.last_some; simp only []; gr
    start_queued := h.start_queued
    wake_queued := h.wake_queued
    waiter := h.waiter
    scope := h.scope
    scope_open := h.scope_open
    one_coro := h.one_coro
    out_patch := h.out_patch
    kind_coro := h.kind_coro
    kind_coro' := h.kind_coro'
    kind_gen := h.kind_gen
    fut_cancelled := h.fut_cancelled
    val_plain := by have := h.val_plain; simp only []; gr
    val_coro := by have := h.val_coro; simp only []; gr
    val_gen := by have := h.val_gen; simp only []; gr
    val_gen' := by have := h.val_gen'; simp only []; gr }

/-- a new asynchronous assignment to a parameter that no task owns: link installed, task created
and queued -/
theorem inv_spawn (c : Cfg) (s : St) (p : Nat) (k : Kind) (h : Inv c s none)
    (hl : ∀ t, s.last p ≠ .task t)
    (hB : c.awaitInside = true → k = .coro → ∀ t x, s.tasks t = some x → x.kind = .coro → x.pc.terminal = true) :
    Inv c { s with nTasks := s.nTasks + 1,
                   tasks := upd s.tasks s.nTasks (some { param := p, kind := k, pc := .start, mustCancel := false }),
                   ready := s.ready ++ [(s.nTasks, none)],
                   refs := upd s.refs p (some s.nTasks),
                   last := upd s.last p (.task s.nTasks) } none :=
  have hfresh : s.tasks s.nTasks = none := by
    cases hx : s.tasks s.nTasks with
    | none => rfl
    | some x => exact absurd (h.tasks_lt _ _ hx) (Nat.lt_irrefl _)
  have hreg : ∀ q, s.asyncRefs q ≠ some s.nTasks := by
    intro q hq
    exact h.reg_some q _ hq hfresh
  have hlastn : ∀ q, s.last q ≠ .task s.nTasks := by
    intro q hq
    exact h.last_some q _ hq hfresh
  { tasks_lt := by have := h.tasks_lt; simp only []; gr
    futs_fresh := by have := h.futs_fresh; simp only []; gr
    futs_fresh' := by have := h.futs_fresh'; simp only []; gr
    running := by have := h.running; simp only []; gr
    live_last := by
      have := h.live_last; have := h.tasks_lt; simp only []
      intro t x ht hl'
      by_cases e : t = s.nTasks
      · subst e; gr
      · gr
    refs_last := by have := h.refs_last; simp only []; gr
    reg := by have := h.reg; simp only []; gr
    reg_some := by have := h.reg_some; simp only []; gr
    started_reg := by
      have := h.started_reg; simp only []
      intro t x ht hl' hs
      by_cases e : t = s.nTasks
      · subst e; gr
      · gr
    last_live := by
      have := h.last_live; have := h.futs_fresh; simp only []
      intro p' t x hl' ht
      by_cases e : t = s.nTasks
      · subst e; gr
      · gr
    last_some := by have := h.last_some; simp only []; gr
    start_queued := by have := h.start_queued; simp only []; gr
    wake_queued := by have := h.wake_queued; simp only []; gr
    waiter := by have := h.waiter; simp only []; gr
    scope := by have := h.scope; simp only []; gr
    scope_open := by
      simp only []
      intro hne
      obtain ⟨t', x', sv, h1, h2⟩ := h.scope_open hne
      have : t' ≠ s.nTasks := by intro e; rw [e, hfresh] at h1; cases h1
      exact ⟨t', x', sv, by simp [upd, this, h1], h2⟩
    one_coro := by
      have := h.one_coro; simp only []
      intro ha t t' x x' ht ht' hk hk' hn hn'
      by_cases e : t = s.nTasks <;> by_cases e' : t' = s.nTasks
      · gr
      · subst e; gr
      · subst e'; gr
      · gr
    out_patch := by have := h.out_patch; simp only []; gr
    kind_coro := by have := h.kind_coro; simp only []; gr
    kind_coro' := by have := h.kind_coro'; simp only []; gr
    kind_gen := by have := h.kind_gen; simp only []; gr
    fut_cancelled := by have := h.fut_cancelled; have := h.futs_fresh; simp only []; gr
    val_plain := by have := h.val_plain; simp only []; gr
    val_coro := by have := h.val_coro; simp only []; gr
    val_gen := by have := h.val_gen; simp only []; gr
    val_gen' := by have := h.val_gen'; simp only []; gr }

end ParamVerif.Async
