/-
Model of a reactive expression that pipes through a coroutine (C10, second half):
`r = param.rx(v0); e = r.rx.pipe(slow); e.rx.watch(log.append)` where every call of `slow`
returns a coroutine awaiting a hand-made future.

Anchored code (param/reactive.py), AS WRITTEN:
  * `rx._resolve`: when dirty, evaluates the operation; a coroutine result goes to `_lazy_resolve`
    (→ `async_executor(partial(self._resolve_async, obj))`) and the *old* `_current_` is returned;
  * `rx._resolve_async`: `self._current_task = task = asyncio.current_task()` at the START of the
    task; `value = await obj`; the result is stored (and the trigger fired) only
    `if self._current_task is task`;
  * `rx._invalidate_current` (sets `_dirty`), `rx._watch` (the callback receives `_resolve()`'s value).
asyncio as in Async/Model.lean (FIFO ready queue; no task is ever cancelled here).

Events of a schedule: `set r` = `r.rx.value = <new input>` whose evaluation will return `r`;
`tick`; `complete t r` = `fut_t.set_result(r)`.  Evaluation number `t` is the t-th call of `slow`:
number 0 comes from the first read of `e.rx.value`, number i from the i-th `set`.
-/
namespace ParamVerif.Async.Rx

inductive Event
  | set (r : Int)
  | tick
  | complete (t : Nat) (r : Int)
  deriving Repr, DecidableEq

inductive Fut | pending (waiter : Option Nat) | done (v : Int)
  deriving Repr, DecidableEq

inductive Pc | start | awaiting | finished
  deriving Repr, DecidableEq

structure St where
  cur : Option Int                 -- `_current_` (none = Undefined)
  currentTask : Option Nat         -- `_current_task`
  nTasks : Nat                     -- calls of `slow` so far
  pcs : Nat → Option Pc
  futs : Nat → Fut
  ready : List Nat                 -- tasks with a step queued (start or wake-up)
  log : List (Option Int)          -- what the `.rx.watch` callback received
  holder : Option Nat              -- ghost (never read): the evaluation whose result `cur` holds

def upd {α : Type} (m : Nat → α) (k : Nat) (v : α) : Nat → α := fun i => if i = k then v else m i

/-- `_lazy_resolve`: the coroutine of a new evaluation is handed to the executor -/
def spawn (s : St) : St :=
  { s with nTasks := s.nTasks + 1, pcs := upd s.pcs s.nTasks (some .start), ready := s.ready ++ [s.nTasks] }

/-- the object before any event: the harness reads `e.rx.value` once, which evaluates (dirty at
construction) and schedules evaluation 0 -/
def St.init : St :=
  spawn { cur := none, currentTask := none, nTasks := 0, pcs := fun _ => none, futs := fun _ => .pending none,
          ready := [], log := [], holder := none }

/-- the guarded store of `_resolve_async` followed by `_trigger.param.trigger('value')` -/
def apply (s : St) (t : Nat) (v : Int) : St :=
  if s.currentTask = some t then { s with cur := some v, log := s.log ++ [some v], holder := some t } else s

def stepReady (s : St) : St :=
  match s.ready with
  | [] => s
  | t :: rest =>
    let s1 := { s with ready := rest }
    match s1.pcs t with
    | some .start =>
      -- self._current_task = task; value = await obj
      let s2 := { s1 with currentTask := some t }
      match s2.futs t with
      | .done v => apply { s2 with pcs := upd s2.pcs t (some .finished) } t v
      | .pending _ => { s2 with pcs := upd s2.pcs t (some .awaiting), futs := upd s2.futs t (.pending (some t)) }
    | some .awaiting =>
      match s1.futs t with
      | .done v => apply { s1 with pcs := upd s1.pcs t (some .finished) } t v
      | .pending _ => s1
    | _ => s1

def drain : Nat → St → St
  | 0, s => s
  | n + 1, s => if s.ready.isEmpty then s else drain n (stepReady s)

def applyEvent (s : St) : Event → St
  | .set _ =>
    -- input changed: `_invalidate_current`; the watch callback resolves: new evaluation scheduled,
    -- `Skip` → the callback is handed the old `_current_`
    let s1 := spawn s
    { s1 with log := s1.log ++ [s1.cur] }
  | .tick => drain (s.ready.length + 1) s
  | .complete t r =>
    match s.futs t with
    | .pending w =>
      let s1 := { s with futs := upd s.futs t (.done r) }
      match w with
      | some u => { s1 with ready := s1.ready ++ [u] }
      | none => s1
    | .done _ => s

def run (evs : List Event) : St := evs.foldl applyEvent St.init

/-! ### observation and oracle -/

structure Obs where
  value : Option Int
  log : List Int                   -- `Undefined` deliveries are not recorded
  calls : Nat                      -- evaluations whose coroutine has started
  deriving Repr, DecidableEq

def observe (s : St) (logFrom : Nat) : Obs :=
  { value := s.cur, log := (s.log.drop logFrom).filterMap id,
    calls := ((List.range s.nTasks).filter fun t => s.pcs t != some .start).length }

/-- result of evaluation `t`: evaluation 0 belongs to the construction, i+1 to the i-th `set` -/
def resultsOf (evs : List Event) : List Int :=
  evs.filterMap fun | .set r => some r | _ => none

def completedIn (evs : List Event) (t : Nat) : Option Int :=
  evs.findSome? fun | .complete u r => if u = t then some r else none | _ => none

/-- evaluations `0 … n` have all been completed -/
def allCompleted (evs : List Event) : Bool :=
  (List.range ((resultsOf evs).length + 1)).all fun t => (completedIn evs t).isSome

/-- index of the evaluation that produced `v` (results are pairwise distinct in generated cases) -/
def evalOf (evs : List Event) (v : Int) : Option Nat :=
  (List.range ((resultsOf evs).length + 1)).find? fun t => completedIn evs t = some v

def checkStep (pre : List Event) (ev : Event) (prev : Option Int) (o : Obs) : Option String :=
  let evs := pre ++ [ev]
  match o.value with
  | none => if ev = .tick && allCompleted evs then some "expression still Undefined although every evaluation has completed" else none
  | some v =>
    match evalOf evs v with
    | none => some s!"expression holds {v}, which no completed evaluation has produced"
    | some t =>
      let back := match prev.bind (evalOf evs) with
        | some t0 => decide (t < t0)
        | none => false
      if back then some s!"expression went back to the result of the older evaluation {t}"
      else if ev = .tick && allCompleted evs && t != (resultsOf evs).length then
        some s!"expression holds the result of evaluation {t}, the latest is {(resultsOf evs).length}"
      else none

def specHistoryAux : List Event → List (Event × Obs) → Option Int → Nat → Nat × Option String
  | _, [], _, n => (n, none)
  | pre, (ev, o) :: rest, prev, n =>
    match checkStep pre ev prev o with
    | some m => (n, some s!"event {n} ({repr ev}): {m}")
    | none => specHistoryAux (pre ++ [ev]) rest o.value (n + 1)

def specHistory (pre : List Event) (l : List (Event × Obs)) (n : Nat) : Nat × Option String :=
  specHistoryAux pre l none n

def eventLabels (s : St) : Event → List String
  | .set _ => ["rx:set"]
  | .tick => if s.ready.isEmpty then ["rx:tick:idle"] else ["rx:tick"]
  | .complete t _ =>
    match s.futs t with
    | .pending (some _) => [if s.currentTask = some t then "rx:complete:current" else "rx:complete:superseded"]
    | .pending none => ["rx:complete:not-awaited-yet"]
    | .done _ => ["rx:complete:already-done"]

end ParamVerif.Async.Rx
