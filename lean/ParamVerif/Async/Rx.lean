/-
Model of a reactive expression that pipes through a coroutine or an async generator (C10, second
half): `r = param.rx(v0); e = r.rx.pipe(fn); e.rx.watch(log.append)` where every call of `fn`
returns a coroutine awaiting one hand-made future, or an async generator awaiting `nf` of them and
yielding each result.

Anchored code (param/reactive.py), AS WRITTEN:
  * `rx._resolve`: when dirty, evaluates the operation; a coroutine / async generator result goes to
    `_lazy_resolve` (→ `async_executor(partial(self._resolve_async, obj))`) and the *old*
    `_current_` is returned;
  * `rx._resolve_async`: `self._current_task = task = asyncio.current_task()` at the START of the
    task; coroutine: `value = await obj; if self._current_task is task: store, trigger`;
    async generator: `async for val in obj: if self._current_task is not task: break; store, trigger`
    — the test comes after the await and BEFORE the store in both branches, so a coroutine is the
    one-awaitable instance of the loop below;
  * `rx._invalidate_current` (sets `_dirty`), `rx._watch` (the callback receives `_resolve()`'s value).
asyncio as in Async/Model.lean (FIFO ready queue; no task is ever cancelled here).

Events of a schedule: `set` = `r.rx.value = <new input>` (one more evaluation); `tick`;
`complete t k r` = `fut_(t,k).set_result(r)`.  Evaluation number `t` is the t-th call of `fn`:
number 0 comes from the first read of `e.rx.value`, number i from the i-th `set`.  `nf` = number of
awaitables per evaluation (1 for a coroutine function).
-/
namespace ParamVerif.Async.Rx

abbrev Fid := Nat × Nat

inductive Event
  | set
  | tick
  | complete (t k : Nat) (r : Int)
  deriving Repr, DecidableEq

inductive Fut | pending (waiter : Option Nat) | done (v : Int)
  deriving Repr, DecidableEq

inductive Pc | start | awaiting (k : Nat) | finished
  deriving Repr, DecidableEq

structure St where
  cur : Option Int                 -- `_current_` (none = Undefined)
  currentTask : Option Nat         -- `_current_task`
  nTasks : Nat                     -- calls of `fn` so far
  pcs : Nat → Option Pc
  futs : Fid → Fut
  ready : List Nat                 -- tasks with a step queued (start or wake-up)
  log : List (Option Int)          -- what the `.rx.watch` callback received
  holder : Option Fid              -- ghost (never read): the awaitable whose result `cur` holds

def upd {κ α : Type} [DecidableEq κ] (m : κ → α) (k : κ) (v : α) : κ → α := fun i => if i = k then v else m i

/-- `_lazy_resolve`: the awaitable of a new evaluation is handed to the executor -/
def spawn (s : St) : St :=
  { s with nTasks := s.nTasks + 1, pcs := upd s.pcs s.nTasks (some .start), ready := s.ready ++ [s.nTasks] }

/-- the object before any event: the harness reads `e.rx.value` once, which evaluates (dirty at
construction) and schedules evaluation 0 -/
def St.init : St :=
  spawn { cur := none, currentTask := none, nTasks := 0, pcs := fun _ => none, futs := fun _ => .pending none,
          ready := [], log := [], holder := none }

/-- the body of `_resolve_async` from its k-th await on (`r` awaitables to go, `k = nf - r`): a done
future does not suspend; after each await the task tests `_current_task is task` — superseded: it
stops (coroutine: nothing stored; generator: `break`) — and only then stores and triggers -/
def rxLoop (t nf : Nat) : Nat → St → St
  | 0, s => { s with pcs := upd s.pcs t (some .finished) }
  | r + 1, s =>
    match s.futs (t, nf - (r + 1)) with
    | .done v =>
      if s.currentTask = some t then
        rxLoop t nf r { s with cur := some v, log := s.log ++ [some v], holder := some (t, nf - (r + 1)) }
      else { s with pcs := upd s.pcs t (some .finished) }
    | .pending _ =>
      { s with pcs := upd s.pcs t (some (.awaiting (nf - (r + 1)))),
               futs := upd s.futs (t, nf - (r + 1)) (.pending (some t)) }

def stepReady (nf : Nat) (s : St) : St :=
  match s.ready with
  | [] => s
  | t :: rest =>
    let s1 := { s with ready := rest }
    match s1.pcs t with
    | some .start => rxLoop t nf nf { s1 with currentTask := some t }     -- self._current_task = task
    | some (.awaiting k) =>
      match s1.futs (t, k) with
      | .done _ => rxLoop t nf (nf - k) s1
      | .pending _ => s1
    | _ => s1

def drain (nf : Nat) : Nat → St → St
  | 0, s => s
  | n + 1, s => if s.ready.isEmpty then s else drain nf n (stepReady nf s)

def applyEvent (nf : Nat) (s : St) : Event → St
  | .set =>
    -- input changed: `_invalidate_current`; the watch callback resolves: new evaluation scheduled,
    -- `Skip` → the callback is handed the old `_current_`
    let s1 := spawn s
    { s1 with log := s1.log ++ [s1.cur] }
  | .tick => drain nf (s.ready.length + 1) s
  | .complete t k r =>
    match s.futs (t, k) with
    | .pending w =>
      let s1 := { s with futs := upd s.futs (t, k) (.done r) }
      match w with
      | some u => { s1 with ready := s1.ready ++ [u] }
      | none => s1
    | .done _ => s

def run (nf : Nat) (evs : List Event) : St := evs.foldl (applyEvent nf) St.init

/-! ### observation and oracle -/

structure Obs where
  value : Option Int
  log : List Int                   -- `Undefined` deliveries are not recorded
  calls : Nat                      -- evaluations whose awaitable has started
  deriving Repr, DecidableEq

def observe (s : St) (logFrom : Nat) : Obs :=
  { value := s.cur, log := (s.log.drop logFrom).filterMap id,
    calls := ((List.range s.nTasks).filter fun t => s.pcs t != some .start).length }

/-- evaluations requested so far: one for the construction, one per `set` -/
def nEvals (evs : List Event) : Nat := (evs.filter fun e => e == .set).length + 1

def completedIn (evs : List Event) (f : Fid) : Option Int :=
  evs.findSome? fun | .complete t k r => if (t, k) = f then some r else none | _ => none

/-- the awaitable whose completion produced `v` (results are pairwise distinct in generated cases) -/
def sourceOf (nf : Nat) (evs : List Event) (v : Int) : Option Fid :=
  ((List.range (nEvals evs)).flatMap fun t => (List.range nf).map fun k => (t, k)).find? fun f =>
    completedIn evs f = some v

/-- how many awaitables of evaluation `t` have completed, counted from the first without a gap -/
def prefixDone (nf : Nat) (evs : List Event) (t : Nat) : Nat :=
  ((List.range nf).takeWhile fun k => (completedIn evs (t, k)).isSome).length

def lexLt (a b : Fid) : Bool := a.1 < b.1 || (a.1 == b.1 && a.2 < b.2)

/-- what the expression may hold after `ev` (the last event of `evs`), given what it held before:
a completed result; never one that lies before the previous one (older evaluation, or earlier value
of the same generator); after a `tick` — the loop is idle — the last of the results the NEWEST
evaluation has produced so far, if it has produced any -/
def checkStep (nf : Nat) (pre : List Event) (ev : Event) (prev : Option Int) (o : Obs) : Option String :=
  let evs := pre ++ [ev]
  let newest := nEvals evs - 1
  let j := prefixDone nf evs newest
  match o.value with
  | none =>
    if ev = .tick && j > 0 then some s!"expression still Undefined although evaluation {newest} has produced a result"
    else none
  | some v =>
    match sourceOf nf evs v with
    | none => some s!"expression holds {v}, which no completed awaitable has produced"
    | some f =>
      let back := match prev.bind (sourceOf nf evs) with
        | some f0 => lexLt f f0
        | none => false
      if back then some s!"expression went back to the older result {v} of awaitable {f}"
      else if ev = .tick && j > 0 && f != (newest, j - 1) then
        some s!"expression holds the result of awaitable {f} when idle, the newest evaluation {newest} has produced {j} result(s)"
      else none

def specHistoryAux (nf : Nat) : List Event → List (Event × Obs) → Option Int → Nat → Nat × Option String
  | _, [], _, n => (n, none)
  | pre, (ev, o) :: rest, prev, n =>
    match checkStep nf pre ev prev o with
    | some m => (n, some s!"event {n} ({repr ev}): {m}")
    | none => specHistoryAux nf (pre ++ [ev]) rest o.value (n + 1)

def specHistory (nf : Nat) (pre : List Event) (l : List (Event × Obs)) (n : Nat) : Nat × Option String :=
  specHistoryAux nf pre l none n

def eventLabels (nf : Nat) (s : St) : Event → List String
  | .set => [if nf = 1 then "rx:set" else "rx:set:generator"]
  | .tick => if s.ready.isEmpty then ["rx:tick:idle"] else ["rx:tick"]
  | .complete t k _ =>
    match s.futs (t, k) with
    | .pending (some _) =>
      [if s.currentTask = some t then "rx:complete:current" else
         (if k > 0 then "rx:complete:superseded-generator-between-yields" else "rx:complete:superseded")]
    | .pending none => ["rx:complete:not-awaited-yet"]
    | .done _ => ["rx:complete:already-done"]

end ParamVerif.Async.Rx
