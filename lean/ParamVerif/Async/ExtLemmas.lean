/-
The extended model (Async/ModelExt.lean) restricted to schedules without `bump` and run without a
hook and with nothing rejected (`Env.plain`) IS the core model (Async/Model.lean), state by state: `runH_eq_run`.  So the theorems of
Props/C10.lean, stated for the core model, are statements about what the driver replays whenever a
case has no hook and no source change.
-/
import ParamVerif.Async.ModelExt

namespace ParamVerif.Async

theorem writeH_plain (s : St) (p : Nat) (v : Int) : writeH Env.plain s p v = some (plainSet s p v) := rfl

theorem scopedUpdateH_plain (s : St) (p : Nat) (v : Int) :
    scopedUpdateH Env.plain s p v = (true, scopedUpdate s p v) := rfl

theorem genLoopH_plain (t p n : Nat) : ∀ (r : Nat) (s : St), genLoopH Env.plain t p n r s = genLoop t p n r s := by
  intro r
  induction r with
  | zero => intro s; rfl
  | succ r ih =>
    intro s
    simp only [genLoopH, genLoop]
    cases awaitFut s t (t, n - (r + 1)) (Pc.awaitGen (n - (r + 1))) with
    | mk o s1 =>
      cases o with
      | suspended => rfl
      | raised => rfl
      | value v => simp only [scopedUpdateH_plain, ih]

theorem stepStartH_plain (c : Cfg) (s : St) (t : Nat) (x : Task) :
    stepStartH c Env.plain id s t x = stepStart c s t x := by
  unfold stepStartH stepStart
  simp only [id, writeH_plain, scopedUpdateH_plain, genLoopH_plain, Bool.not_true]
  rfl

theorem stepWakeH_plain (s : St) (t : Nat) (x : Task) (f : Fid) : stepWakeH Env.plain s t x f = stepWake s t x f := by
  unfold stepWakeH stepWake
  simp only [writeH_plain, scopedUpdateH_plain, genLoopH_plain, Bool.not_true]
  rfl

theorem stepReadyH_plain (c : Cfg) (s : St) : stepReadyH c Env.plain id s = stepReady c s := by
  unfold stepReadyH stepReady
  simp only [stepStartH_plain, stepWakeH_plain]
  rfl

theorem drainH_plain (c : Cfg) : ∀ (n : Nat) (s : St), drainH c Env.plain id n s = drain c n s := by
  intro n
  induction n with
  | zero => intro s; rfl
  | succ n ih => intro s; simp only [drainH, drain, stepReadyH_plain, ih]

theorem assignPlainH_plain (s : St) (p : Nat) (v : Int) : assignPlainH Env.plain s p v = assignPlain s p v := rfl

/-- a core event as an event of the extended schedule (no dependency) -/
def Event.lift : Event → EventH
  | .assign p src => .assign p src false
  | .tick => .tick
  | .complete t k v => .complete t k v

theorem rf_of_nil (sh : StH) (h : sh.refOf = []) : sh.rf = id := by
  funext t; simp [StH.rf, h]

theorem applyEventH_lift (c : Cfg) (sh : StH) (ev : Event) (h : sh.refOf = []) :
    (applyEventH c Env.plain sh ev.lift).core = applyEvent c sh.core ev ∧ (applyEventH c Env.plain sh ev.lift).refOf = [] := by
  cases ev with
  | tick => simp only [Event.lift, applyEventH, applyEvent, rf_of_nil sh h, drainH_plain]; exact ⟨trivial, h⟩
  | complete t k v => exact ⟨rfl, h⟩
  | assign p src =>
    cases src with
    | plain v => exact ⟨rfl, h⟩
    | coro => exact ⟨rfl, h⟩
    | agen n => exact ⟨rfl, h⟩

/-- without a hook and without source changes the extended model is the core model -/
theorem runH_eq_run (c : Cfg) (evs : List Event) : (runH c Env.plain (evs.map Event.lift)).core = run c evs := by
  unfold runH run runFrom
  suffices ∀ sh : StH, sh.refOf = [] →
      ((evs.map Event.lift).foldl (applyEventH c Env.plain) sh).core = evs.foldl (applyEvent c) sh.core from this _ rfl
  induction evs with
  | nil => intro sh _; rfl
  | cons ev rest ih =>
    intro sh h
    simp only [List.map_cons, List.foldl_cons]
    have := applyEventH_lift c sh ev h
    rw [ih _ this.2, this.1]

end ParamVerif.Async
