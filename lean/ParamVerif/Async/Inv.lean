/-
Helper lemmas for C10: one invariant `Inv` of the asynchronous-reference model, preserved by every
event of a schedule and by every step of the ready queue as long as no *hazard* (Async/Spec.lean)
is met.  The hazards are vacuous for the code in /repo (`Cfg.repo`), so the same induction
gives the unconditional theorems for the code in /repo and the conditional regression theorems for
the pre-fix configuration.
The property theorems are in Props/C10.lean.
-/
import ParamVerif.Async.Spec

namespace ParamVerif.Async

/-! ### vocabulary -/

/-- the task waits on a future that has been cancelled: its wake-up will throw -/
def waitsCancelled (s : St) (t : Nat) (pc : Pc) : Prop :=
  match waitingOn t pc with
  | some f => s.futs f = .cancelled
  | none => False

/-- the task can no longer write: a cancellation is on its way, or (since 0c5ea5c) it will find its
reference replaced when it starts -/
def Doomed (c : Cfg) (s : St) (t : Nat) (x : Task) : Prop :=
  x.mustCancel = true ∨ waitsCancelled s t x.pc ∨
  (c.startCheck = true ∧ x.pc = .start ∧ s.refs x.param ≠ some t)

def Live (c : Cfg) (s : St) (t : Nat) (x : Task) : Prop := x.pc.terminal = false ∧ ¬ Doomed c s t x

/-- `syncing` after a task has left its last step: a coroutine that was suspended inside its scope
restores the (empty) set it saved -/
def syncAfterEnd (pc : Pc) (old : List Nat) : List Nat :=
  match pc with
  | .awaitCoro _ => []
  | _ => old

/-- where a generator task stands: it has consumed the futures below `k`, the parameter holds the
result of the last of them -/
def Progress (s : St) (t p k : Nat) : Prop :=
  0 < k → s.futs (t, k - 1) = .done (s.vals p)

/-- The invariant.  `cur` = the task whose step is being executed (`none` between steps).
(Stated without existential quantifiers wherever possible: friendlier to `grind`.) -/
structure Inv (c : Cfg) (s : St) (cur : Option Nat) : Prop where
  tasks_lt : ∀ t x, s.tasks t = some x → t < s.nTasks
  futs_fresh : ∀ t k, s.nTasks ≤ t → s.futs (t, k) ≠ .cancelled
  futs_fresh' : ∀ t k w, s.nTasks ≤ t → s.futs (t, k) = .pending w → w = none
  running : ∀ t x, s.tasks t = some x → (x.pc = .running ↔ cur = some t)
  /-- a task that can still write belongs to the most recent assignment of its parameter -/
  live_last : ∀ t x, s.tasks t = some x → Live c s t x → s.last x.param = .task t
  /-- the link installed is the one of the most recent assignment -/
  refs_last : ∀ p t, s.refs p = some t ↔ s.last p = .task t
  /-- the registered task is started, unfinished and belongs to the most recent assignment -/
  reg : ∀ p t x, s.asyncRefs p = some t → s.tasks t = some x →
          x.param = p ∧ x.pc ≠ .start ∧ x.pc.terminal = false ∧ s.last p = .task t
  reg_some : ∀ p t, s.asyncRefs p = some t → s.tasks t ≠ none
  /-- a started task that can still write is registered -/
  started_reg : ∀ t x, s.tasks t = some x → Live c s t x → x.pc ≠ .start → s.asyncRefs x.param = some t
  /-- the task of the most recent assignment is never cancelled -/
  last_live : ∀ p t x, s.last p = .task t → s.tasks t = some x → x.param = p ∧ ¬ Doomed c s t x ∧ x.pc ≠ .cancelled
  last_some : ∀ p t, s.last p = .task t → s.tasks t ≠ none
  start_queued : ∀ t x, s.tasks t = some x → x.pc = .start → (t, none) ∈ s.ready
  wake_queued : ∀ t x f, s.tasks t = some x → waitingOn t x.pc = some f → (s.futs f).isPending = false →
          (t, some f) ∈ s.ready
  waiter : ∀ t x f w, s.tasks t = some x → waitingOn t x.pc = some f → s.futs f = .pending w → w = some t
  /-- a coroutine suspended inside its scope: it is the only one, it saved the empty set -/
  scope : ∀ t x saved, s.tasks t = some x → x.pc = .awaitCoro saved →
          c.awaitInside = true ∧ saved = [] ∧ s.syncing = [x.param]
  scope_open : s.syncing ≠ [] → ∃ t x saved, s.tasks t = some x ∧ x.pc = .awaitCoro saved
  one_coro : c.awaitInside = true → ∀ t t' x x', s.tasks t = some x → s.tasks t' = some x' →
          x.kind = .coro → x'.kind = .coro → x.pc.terminal = false → x'.pc.terminal = false → t = t'
  out_patch : ∀ t x, s.tasks t = some x → x.pc = .awaitOut → c.awaitInside = false
  kind_coro : ∀ t x sv, s.tasks t = some x → x.pc = .awaitCoro sv → x.kind = .coro
  kind_coro' : ∀ t x, s.tasks t = some x → x.pc = .awaitOut → x.kind = .coro
  kind_gen : ∀ t x k, s.tasks t = some x → x.pc = .awaitGen k → x.kind ≠ .coro ∧ ∀ n, x.kind = .agen n → k < n
  /-- a cancelled future belongs to a task that waits on it (its wake-up is queued) or has ended -/
  fut_cancelled : ∀ t k x, s.futs (t, k) = .cancelled → s.tasks t = some x → x.pc.terminal = false →
          waitingOn t x.pc = some (t, k)
  val_plain : ∀ p v, s.last p = .plain v → s.vals p = v
  val_coro : ∀ p t x, s.last p = .task t → s.tasks t = some x → x.kind = .coro → x.pc = .finished →
          s.futs (t, 0) = .done (s.vals p)
  val_gen : ∀ p t x n k, s.last p = .task t → s.tasks t = some x → x.kind = .agen n →
          x.pc = .awaitGen k → Progress s t p k
  val_gen' : ∀ p t x n, s.last p = .task t → s.tasks t = some x → x.kind = .agen n →
          x.pc = .finished → Progress s t p n

/-! ### basic facts about the primitives -/

@[simp] theorem upd_same {κ α : Type} [DecidableEq κ] (m : κ → α) (k : κ) (v : α) : upd m k v k = v := by
  simp [upd]

theorem upd_other {κ α : Type} [DecidableEq κ] (m : κ → α) (k i : κ) (v : α) (h : i ≠ k) : upd m k v i = m i := by
  simp [upd, h]

theorem waitingOn_fst {t : Nat} {pc : Pc} {f : Fid} (h : waitingOn t pc = some f) : f.1 = t := by
  cases pc <;> simp [waitingOn] at h <;> (subst h; rfl)

theorem upd_upd {κ α : Type} [DecidableEq κ] (m : κ → α) (k : κ) (a b : α) : upd (upd m k a) k b = upd m k b := by
  funext i; simp [upd]; split <;> rfl

/-- the workhorse: `grind` with the vocabulary unfolded -/
macro "gr" : tactic => `(tactic| grind (splits := 14) [upd, Live, Doomed, waitsCancelled, Fut.isPending, Progress, waitingOn, Pc.terminal, addName, syncAfterEnd, → waitingOn_fst])

theorem upd_apply {κ α : Type} [DecidableEq κ] (m : κ → α) (k i : κ) (v : α) :
    upd m k v i = if i = k then v else m i := rfl


end ParamVerif.Async
