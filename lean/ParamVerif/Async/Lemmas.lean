/-
Helper lemmas for C10, part 4: what the invariant says about a state.  (The invariant is defined in
Async/Inv.lean; Async/LemmasPost.lean, LemmasSteps.lean and LemmasEvents.lean prove that every
hazard-free schedule preserves it.)
-/
import ParamVerif.Async.LemmasEvents

namespace ParamVerif.Async

theorem settled_iff (s : St) (t : Nat) (k : Kind) :
    settled s t k = true ↔ ∀ i, i < k.nFuts → (s.futs (t, i)).isPending = false := by
  simp [settled, List.all_eq_true]

/-- a task that is neither finished nor cancelled has a step queued or waits for a pending future -/
theorem inv_unfinished_pending (c : Cfg) (s : St) (h : Inv c s none) (hq : s.ready = []) (t : Nat) (x : Task)
    (ht : s.tasks t = some x) (hs : settled s t x.kind = true) : x.pc.terminal = true := by
  rw [settled_iff] at hs
  have noq : ∀ e, e ∈ s.ready → False := by intro e he; rw [hq] at he; cases he
  cases hpc : x.pc with
  | finished => rfl
  | cancelled => rfl
  | start => exact (noq _ (h.start_queued t x ht hpc)).elim
  | running => exact absurd ((h.running t x ht).1 hpc) (by simp)
  | awaitCoro sv =>
    have hk := h.kind_coro t x sv ht hpc
    have := hs 0 (by rw [hk]; decide)
    exact (noq _ (h.wake_queued t x (t, 0) ht (by rw [hpc]; rfl) this)).elim
  | awaitOut =>
    have hk := h.kind_coro' t x ht hpc
    have := hs 0 (by rw [hk]; decide)
    exact (noq _ (h.wake_queued t x (t, 0) ht (by rw [hpc]; rfl) this)).elim
  | awaitGen k =>
    have hk := h.kind_gen t x k ht hpc
    cases hkind : x.kind with
    | coro => exact absurd hkind hk.1
    | agen n =>
      have := hs k (by rw [hkind]; exact hk.2 n hkind)
      exact (noq _ (h.wake_queued t x (t, k) ht (by rw [hpc]; rfl) this)).elim

/-- latest wins, on a state satisfying the invariant -/
theorem inv_latest_wins (c : Cfg) (s : St) (h : Inv c s none) (hq : s.ready = []) (p t : Nat) (x : Task)
    (hl : s.last p = .task t) (ht : s.tasks t = some x) (hs : settled s t x.kind = true) (hn : 0 < x.kind.nFuts) :
    s.futs (t, x.kind.nFuts - 1) = .done (s.vals p) := by
  have hterm := inv_unfinished_pending c s h hq t x ht hs
  have hll := h.last_live p t x hl ht
  cases hpc : x.pc with
  | finished =>
    cases hkind : x.kind with
    | coro => simpa [Kind.nFuts] using h.val_coro p t x hl ht hkind hpc
    | agen n =>
      have := h.val_gen' p t x n hl ht hkind hpc
      rw [hkind] at hn
      exact this hn
  | cancelled => exact absurd hpc hll.2.2
  | _ => rw [hpc] at hterm; cases hterm

/-- plain assignment cancels for good, on a state satisfying the invariant -/
theorem inv_plain (c : Cfg) (s : St) (h : Inv c s none) (p : Nat) (v : Int) (hl : s.last p = .plain v) :
    s.vals p = v ∧ s.refs p = none ∧ s.asyncRefs p = none := by
  refine ⟨h.val_plain p v hl, ?_, ?_⟩
  · cases hr : s.refs p with
    | none => rfl
    | some t => have := (h.refs_last p t).1 hr; rw [hl] at this; cases this
  · cases hr : s.asyncRefs p with
    | none => rfl
    | some t =>
      cases ht : s.tasks t with
      | none => exact absurd ht (h.reg_some p t hr)
      | some x => have := (h.reg p t x hr ht).2.2.2; rw [hl] at this; cases this

theorem allSettled_iff (s : St) :
    allSettled s = true ↔ ∀ t, t < s.nTasks → ∀ x, s.tasks t = some x → settled s t x.kind = true := by
  simp only [allSettled, List.all_eq_true, List.mem_range]
  constructor
  · intro h t ht x hx; have := h t ht; rw [hx] at this; exact this
  · intro h t ht
    cases hx : s.tasks t with
    | none => rfl
    | some x => exact h t ht x hx

/-- `syncing` and `async_refs` are empty when nothing is queued and nothing is pending -/
theorem inv_quiescent (c : Cfg) (s : St) (h : Inv c s none) (hq : s.ready = []) (ha : allSettled s = true) :
    s.syncing = [] ∧ ∀ p, s.asyncRefs p = none := by
  rw [allSettled_iff] at ha
  have term : ∀ t x, s.tasks t = some x → x.pc.terminal = true := by
    intro t x ht
    exact inv_unfinished_pending c s h hq t x ht (ha t (h.tasks_lt t x ht) x ht)
  constructor
  · apply Decidable.byContradiction
    intro hne
    obtain ⟨t, x, sv, h1, h2⟩ := h.scope_open hne
    have := term t x h1
    rw [h2] at this; cases this
  · intro p
    cases hr : s.asyncRefs p with
    | none => rfl
    | some t =>
      cases ht : s.tasks t with
      | none => exact absurd ht (h.reg_some p t hr)
      | some x =>
        have := (h.reg p t x hr ht).2.2.1
        rw [term t x ht] at this; cases this


/-- a `tick` empties the ready queue: `tickFuel` is enough -/
theorem tick_empties (c : Cfg) (s : St) (h : Inv c s none) : (applyEvent c s .tick).ready = [] :=
  drain_empties c _ s h (by simp only [tickFuel]; omega)

end ParamVerif.Async
