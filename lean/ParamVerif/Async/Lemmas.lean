/-
Helper lemmas for C10 (the invariant is defined in Async/Inv.lean; its preservation by events and
by steps of the ready queue is proved in Async/LemmasEvents.lean and Async/LemmasSteps.lean).
-/
import ParamVerif.Async.Inv

namespace ParamVerif.Async

end ParamVerif.Async
