/-
C10 specification side, executable: the expected outcome of a schedule as a decidable check on
*observations* (what the harness reads after every event: parameter values, the keys of
`async_refs`, `syncing`, the keys of `refs`, what a value watcher has been told since the previous
event).  The check only looks at the schedule and the observations — never at the model — and is
the oracle the driver evaluates on what the real code did.

  1. every value a parameter is set to comes from its most recent assignment: the plain value at
     the plain assignment itself, or an already completed result of the latest asynchronous
     assignment ("a superseded result is never applied after a newer assignment");
  2. right after a plain assignment the parameter holds that value and is neither linked
     (`refs`) nor owned by a task (`async_refs`); with 1. the reference is cancelled for good;
  3. after a `tick`, a parameter whose latest assignment is asynchronous and has all its
     awaitables completed holds the last result ("latest wins"); a parameter whose latest
     assignment is plain holds that value at every moment;
  4. after a `tick` with every awaitable created so far completed, `syncing` and `async_refs`
     are empty.

Also here: the *hazard* predicates naming the situations in which the code as it was before
commits 08165dc / 0c5ea5c (`Cfg.preFix`) went wrong; they are vacuous for the code in /repo
(`hazard_repo`) and are the hypotheses of the regression theorems about the pre-fix configuration.
-/
import ParamVerif.Async.Model

namespace ParamVerif.Async

/-- what is observed after an event -/
structure Obs where
  vals : List Int              -- per parameter
  async : List Nat             -- sorted keys of async_refs
  sync : List Nat              -- sorted syncing
  refs : List Nat              -- sorted keys of refs
  log : List (Nat × Int)       -- watcher calls since the previous observation
  deriving Repr, DecidableEq

def sortNat (l : List Nat) : List Nat := l.mergeSort (fun a b => decide (a ≤ b))

def observe (np : Nat) (s : St) (logFrom : Nat) : Obs :=
  { vals := (List.range np).map s.vals,
    async := (List.range np).filter (fun p => (s.asyncRefs p).isSome),
    sync := sortNat s.syncing,
    refs := (List.range np).filter (fun p => (s.refs p).isSome),
    log := s.log.drop logFrom }

/-! ### the schedule read on its own -/

def Event.isAsync : Event → Bool
  | .assign _ .coro => true
  | .assign _ (.agen _) => true
  | _ => false

/-- kinds of the tasks, by task id = position among the asynchronous assignments -/
def kindsOf (evs : List Event) : List Kind :=
  evs.filterMap fun
    | .assign _ .coro => some .coro
    | .assign _ (.agen n) => some (.agen n)
    | _ => none

def Kind.nFuts : Kind → Nat
  | .coro => 1
  | .agen n => n

/-- most recent assignment to `p`, task ids counted from `n` -/
def lastOfAux (p : Nat) : List Event → Nat → Last → Last
  | [], _, acc => acc
  | .assign q (.plain v) :: es, n, acc => lastOfAux p es n (if q = p then .plain v else acc)
  | .assign q _ :: es, n, acc => lastOfAux p es (n + 1) (if q = p then .task n else acc)
  | _ :: es, n, acc => lastOfAux p es n acc

def lastOf (p : Nat) (evs : List Event) : Last := lastOfAux p evs 0 .never

/-- the value the hand-made future was completed with (the first `complete` counts) -/
def firstComplete (evs : List Event) (f : Fid) : Option Int :=
  evs.findSome? fun
    | .complete t k v => if (t, k) = f then some v else none
    | _ => none

/-- every awaitable of task `t` has been completed -/
def allDone (evs : List Event) (t : Nat) (k : Kind) : Bool :=
  (List.range k.nFuts).all fun i => (firstComplete evs (t, i)).isSome

/-- every awaitable created so far has been completed -/
def allCompleted (evs : List Event) : Bool :=
  (kindsOf evs).zipIdx.all fun (k, t) => allDone evs t k

/-- the value `p` has to hold once the awaitables of its latest assignment have completed -/
def expected (p : Nat) (evs : List Event) : Option Int :=
  match lastOf p evs with
  | .never => none
  | .plain v => some v
  | .task t =>
    match (kindsOf evs)[t]? with
    | some k => if k.nFuts = 0 || !allDone evs t k then none else firstComplete evs (t, k.nFuts - 1)
    | none => none

/-! ### the oracle -/

/-- is `v` a legitimate value to store in `p` during `ev`, the last event of `evs`? -/
def writeBad (evs : List Event) (ev : Event) (p : Nat) (v : Int) : Option String :=
  match lastOf p evs with
  | .never => some s!"parameter {p} set to {v} although nothing was assigned to it"
  | .plain w =>
    if ev = .assign p (.plain w) && v = w then none
    else some s!"parameter {p} set to {v} after the plain assignment of {w}: the overridden reference was not cancelled"
  | .task t =>
    match (kindsOf evs)[t]? with
    | some k =>
      if (List.range k.nFuts).any (fun i => firstComplete evs (t, i) = some v) then none
      else some s!"parameter {p} set to {v}, which is not a completed result of its latest assignment (task {t}): a superseded result was applied"
    | none => some "internal: task id out of range"

def checkStep (np : Nat) (pre : List Event) (ev : Event) (o : Obs) : Option String :=
  let evs := pre ++ [ev]
  match o.log.findSome? (fun pv => writeBad evs ev pv.1 pv.2) with
  | some m => some m
  | none =>
    let plainBad : Option String :=
      match ev with
      | .assign p (.plain v) =>
        if o.vals[p]? != some v then some s!"parameter {p} does not hold the plain value {v} just assigned"
        else if o.refs.contains p then some s!"plain assignment to parameter {p} left its reference linked (refs)"
        else if o.async.contains p then some s!"plain assignment to parameter {p} left a task registered (async_refs)"
        else none
      | _ => none
    match plainBad with
    | some m => some m
    | none =>
      let valBad := (List.range np).findSome? fun p =>
        match lastOf p evs with
        | .plain w => if o.vals[p]? != some w then some s!"parameter {p} holds {o.vals[p]?.getD 0}, its latest (plain) assignment is {w}" else none
        | _ =>
          if ev = .tick then
            match expected p evs with
            | some w => if o.vals[p]? != some w then
                some s!"parameter {p} holds {o.vals[p]?.getD 0} when quiescent, the result of its latest assignment is {w}" else none
            | none => none
          else none
      match valBad with
      | some m => some m
      | none =>
        if ev = .tick && allCompleted evs then
          if o.sync != [] then some s!"syncing = {o.sync} although every awaitable has completed and the loop is idle"
          else if o.async != [] then some s!"async_refs still has {o.async} although every awaitable has completed"
          else none
        else none

/-- (number of events checked, first failure) -/
def specHistory (np : Nat) : List Event → List (Event × Obs) → Nat → Nat × Option String
  | _, [], n => (n, none)
  | pre, (ev, o) :: rest, n =>
    match checkStep np pre ev o with
    | some m => (n, some s!"event {n} ({repr ev}): {m}")
    | none => specHistory np (pre ++ [ev]) rest (n + 1)

/-! ### vocabulary of the theorems (decidable, so that witnesses can be checked by evaluation) -/

def Fut.isPending : Fut → Bool
  | .pending _ => true
  | _ => false

/-- none of the awaitables of task `t` (of kind `k`) is still pending -/
def settled (s : St) (t : Nat) (k : Kind) : Bool :=
  (List.range k.nFuts).all fun i => !(s.futs (t, i)).isPending

/-- no awaitable of any task is still pending -/
def allSettled (s : St) : Bool :=
  (List.range s.nTasks).all fun t =>
    match s.tasks t with
    | some x => settled s t x.kind
    | none => true

/-- the value `v` stored in `p` during `ev` comes from `p`'s most recent assignment: the plain
value just assigned, or a completed result of the latest asynchronous assignment -/
def fromLatest (s : St) (ev : Event) (p : Nat) (v : Int) : Bool :=
  decide (ev = .assign p (.plain v)) ||
  match s.last p with
  | .task t =>
    match s.tasks t with
    | some x => (List.range x.kind.nFuts).any fun k => decide (s.futs (t, k) = .done v)
    | none => false
  | _ => false

/-! ### hazards: where the code as written goes wrong -/

def Pc.terminal : Pc → Bool
  | .finished => true
  | .cancelled => true
  | _ => false

def anyTask (s : St) (f : Nat → Task → Bool) : Bool :=
  (List.range s.nTasks).any fun t => match s.tasks t with | some x => f t x | none => false

/-- (a) a plain value assigned while the name is in `syncing` — a coroutine is suspended inside its
`_syncing` scope (or the name is stuck there): the setter skips the unlink -/
def hazA (c : Cfg) (s : St) : Event → Bool
  | .assign p (.plain _) => c.awaitInside && s.syncing.contains p
  | _ => false

/-- (b) a coroutine assigned while another coroutine task is unfinished: their `_syncing` scopes
overlap and each restores the whole set it saved -/
def hazB (c : Cfg) (s : St) : Event → Bool
  | .assign _ .coro => c.awaitInside && anyTask s fun _ x => x.kind = .coro && !x.pc.terminal
  | _ => false

/-- (c, d) an assignment to a parameter whose previous asynchronous assignment has been scheduled
but whose task has not started yet: nothing is registered, so nothing is cancelled -/
def hazD (c : Cfg) (s : St) : Event → Bool
  | .assign p _ => !c.startCheck && anyTask s fun _ x => x.param = p && x.pc = .start
  | _ => false

def hazard (c : Cfg) (s : St) (ev : Event) : Bool := hazA c s ev || hazB c s ev || hazD c s ev

def hazardNames (c : Cfg) (s : St) (ev : Event) : List String :=
  (if hazA c s ev then ["plain-assignment-while-coroutine-suspended"] else []) ++
  (if hazB c s ev then ["overlapping-coroutine-refs-corrupt-syncing"] else []) ++
  (if hazD c s ev then
    [match ev with
     | .assign _ (.plain _) => "plain-assignment-before-task-start"
     | _ => "async-reassignment-before-task-start"] else [])

/-- no event of the schedule meets a hazard (evaluated on the model run) -/
def hazardFreeFrom (c : Cfg) : St → List Event → Bool
  | _, [] => true
  | s, ev :: rest => !hazard c s ev && hazardFreeFrom c (applyEvent c s ev) rest

def HazardFree (c : Cfg) (evs : List Event) : Prop := hazardFreeFrom c (St.init 0) evs = true

end ParamVerif.Async
