/-
C10 helper lemmas, part 5: what gets written.  Independently of the invariant, every step of the
ready queue keeps a *frame* (`Fr`: the ghost, the kind and parameter of every task, which futures
are done and with what value) and appends to the watcher log only results of done futures of the
task that takes the step, and only if that task is live (`fx_stepStart`, `fx_stepWake`).  With the
invariant a live task belongs to the most recent assignment of its parameter, so every value
stored during an event is *justified* (`writes_applyEvent`).
-/
import ParamVerif.Async.Lemmas

namespace ParamVerif.Async

/-- what no step of the ready queue changes: the ghost, the kind and parameter of the tasks,
which futures are done and with what value -/
structure Fr (s s' : St) : Prop where
  last : s'.last = s.last
  kinds : ∀ t x, s.tasks t = some x → ∃ x', s'.tasks t = some x' ∧ x'.kind = x.kind ∧ x'.param = x.param
  done : ∀ f v, s'.futs f = .done v ↔ s.futs f = .done v

theorem Fr.refl (s : St) : Fr s s := ⟨rfl, fun _ x h => ⟨x, h, rfl, rfl⟩, fun _ _ => Iff.rfl⟩

theorem Fr.trans {a b d : St} (h1 : Fr a b) (h2 : Fr b d) : Fr a d := by
  refine ⟨h2.last.trans h1.last, ?_, fun f v => (h2.done f v).trans (h1.done f v)⟩
  intro t x hx
  obtain ⟨x', hx', k1, p1⟩ := h1.kinds t x hx
  obtain ⟨x'', hx'', k2, p2⟩ := h2.kinds t x' hx'
  exact ⟨x'', hx'', k2.trans k1, p2.trans p1⟩

/-- a state that differs only in components the frame does not look at -/
theorem Fr.of_eq {s s' : St} (h1 : s'.last = s.last) (h2 : s'.tasks = s.tasks) (h3 : s'.futs = s.futs) : Fr s s' :=
  ⟨h1, fun t x h => ⟨x, by rw [h2]; exact h, rfl, rfl⟩, fun f v => by rw [h3]⟩

theorem fr_setTask (s : St) (t : Nat) (y : Task)
    (hk : ∀ x, s.tasks t = some x → y.kind = x.kind ∧ y.param = x.param) : Fr s (s.setTask t y) := by
  refine ⟨rfl, ?_, fun _ _ => Iff.rfl⟩
  intro t' x hx
  by_cases e : t' = t
  · subst e; exact ⟨y, by simp [St.setTask, upd], (hk x hx).1, (hk x hx).2⟩
  · exact ⟨x, by simp [St.setTask, upd, e, hx], rfl, rfl⟩

theorem fr_cancelTask (s : St) (t : Nat) : Fr s (cancelTask s t) ∧ (cancelTask s t).log = s.log := by
  unfold cancelTask
  split
  · exact ⟨Fr.refl _, rfl⟩
  · rename_i x hx
    split
    · exact ⟨Fr.refl _, rfl⟩
    · exact ⟨Fr.refl _, rfl⟩
    · split
      · split
        · rename_i f _ w hf
          refine ⟨⟨rfl, fun t x h => ⟨x, h, rfl, rfl⟩, ?_⟩, rfl⟩
          intro f' v
          simp only [upd]
          split
          · subst_vars; simp [hf]
          · exact Iff.rfl
        · exact ⟨fr_setTask s t _ (by intro x' hx'; rw [hx] at hx'; cases hx'; exact ⟨rfl, rfl⟩), rfl⟩
      · exact ⟨fr_setTask s t _ (by intro x' hx'; rw [hx] at hx'; cases hx'; exact ⟨rfl, rfl⟩), rfl⟩

theorem fr_popCancel (s : St) (p : Nat) : Fr s (popCancel s p) ∧ (popCancel s p).log = s.log := by
  unfold popCancel
  split
  · rename_i t _
    have := fr_cancelTask { s with asyncRefs := upd s.asyncRefs p none } t
    have a : Fr s { s with asyncRefs := upd s.asyncRefs p none } := Fr.of_eq rfl rfl rfl
    exact ⟨a.trans this.1, this.2⟩
  · exact ⟨Fr.refl _, rfl⟩

theorem fr_plainSet (s : St) (p : Nat) (v : Int) : Fr s (plainSet s p v) ∧ (plainSet s p v).log = s.log ++ [(p, v)] := by
  unfold plainSet
  simp only []
  split
  · have := fr_popCancel { s with vals := upd s.vals p v, refs := upd s.refs p none } p
    have a : Fr s { s with vals := upd s.vals p v, refs := upd s.refs p none } := Fr.of_eq rfl rfl rfl
    refine ⟨a.trans (this.1.trans (Fr.of_eq rfl rfl rfl)), ?_⟩
    simp [this.2]
  · exact ⟨Fr.of_eq rfl rfl rfl, rfl⟩

theorem fr_scopedUpdate (s : St) (p : Nat) (v : Int) :
    Fr s (scopedUpdate s p v) ∧ (scopedUpdate s p v).log = s.log ++ [(p, v)] := by
  rw [scopedUpdate_eq]; exact ⟨Fr.of_eq rfl rfl rfl, rfl⟩

theorem fr_cleanup (s : St) (t p : Nat) : Fr s (cleanup s t p) ∧ (cleanup s t p).log = s.log := by
  unfold cleanup; split
  · exact ⟨Fr.of_eq rfl rfl rfl, rfl⟩
  · exact ⟨Fr.refl _, rfl⟩

theorem fr_endTask (s : St) (t : Nat) (e : Bool) : Fr s (endTask s t e) ∧ (endTask s t e).log = s.log := by
  unfold endTask; split
  · exact ⟨Fr.refl _, rfl⟩
  · rename_i x hx
    exact ⟨fr_setTask s t _ (by intro x' hx'; rw [hx] at hx'; cases hx'; exact ⟨rfl, rfl⟩), rfl⟩

theorem fr_awaitFut (s : St) (t : Nat) (f : Fid) (pc : Pc) :
    Fr s (awaitFut s t f pc).2 ∧ (awaitFut s t f pc).2.log = s.log ∧
    (∀ v, (awaitFut s t f pc).1 = .value v → s.futs f = .done v) := by
  unfold awaitFut
  split
  · rename_i v hf; exact ⟨Fr.refl _, rfl, by intro v' h; cases h; exact hf⟩
  · exact ⟨Fr.refl _, rfl, by intro v' h; cases h⟩
  · rename_i w hf
    have hd : ∀ (g : Fut), (∀ v, g ≠ .done v) → ∀ f' v, upd s.futs f g f' = .done v ↔ s.futs f' = .done v := by
      intro g hg f' v
      simp only [upd]; split
      · subst_vars; simp [hf]; exact hg v
      · exact Iff.rfl
    split
    · exact ⟨Fr.refl _, rfl, by intro v' h; cases h⟩
    · rename_i x hx
      split
      · refine ⟨?_, rfl, by intro v' h; cases h⟩
        have h1 := fr_setTask s t { x with pc := pc, mustCancel := false }
          (by intro x' hx'; rw [hx] at hx'; cases hx'; exact ⟨rfl, rfl⟩)
        refine h1.trans ⟨rfl, fun t x h => ⟨x, h, rfl, rfl⟩, ?_⟩
        exact hd _ (by intro v h; cases h)
      · refine ⟨?_, rfl, by intro v' h; cases h⟩
        have h1 := fr_setTask s t { x with pc := pc }
          (by intro x' hx'; rw [hx] at hx'; cases hx'; exact ⟨rfl, rfl⟩)
        refine h1.trans ⟨rfl, fun t x h => ⟨x, h, rfl, rfl⟩, ?_⟩
        exact hd _ (by intro v h; cases h)


/-- what a step of task `t` (parameter `p`, `n` awaitables) makes of a state: the frame is kept and
every value appended to the log is the result of a done future of `t`, stored in `p` -/
def StepFx (s s' : St) (t p n : Nat) : Prop :=
  Fr s s' ∧ ∃ l, s'.log = s.log ++ l ∧ ∀ pv ∈ l, pv.1 = p ∧ ∃ k, k < n ∧ s.futs (t, k) = .done pv.2

theorem StepFx.silent {s s' : St} {t p n : Nat} (h : Fr s s') (hl : s'.log = s.log) : StepFx s s' t p n :=
  ⟨h, [], by simp [hl], by intro pv hpv; cases hpv⟩

theorem StepFx.trans {a b d : St} {t p n : Nat} (h1 : StepFx a b t p n) (h2 : StepFx b d t p n) : StepFx a d t p n := by
  obtain ⟨f1, l1, e1, w1⟩ := h1
  obtain ⟨f2, l2, e2, w2⟩ := h2
  refine ⟨f1.trans f2, l1 ++ l2, by rw [e2, e1, List.append_assoc], ?_⟩
  intro pv hpv
  rcases List.mem_append.1 hpv with h | h
  · exact w1 pv h
  · obtain ⟨hp, k, hk, hf⟩ := w2 pv h
    exact ⟨hp, k, hk, (f1.done _ _).1 hf⟩

theorem StepFx.write {s : St} {t p n k : Nat} {v : Int} (hk : k < n) (hf : s.futs (t, k) = .done v) :
    StepFx s (scopedUpdate s p v) t p n := by
  have := fr_scopedUpdate s p v
  refine ⟨this.1, [(p, v)], this.2, ?_⟩
  intro pv hpv
  cases List.mem_singleton.1 hpv
  exact ⟨rfl, k, hk, hf⟩

theorem fx_end (s : St) (t p n : Nat) (e : Bool) : StepFx s (endTask (cleanup s t p) t e) t p n := by
  have h1 := fr_cleanup s t p
  have h2 := fr_endTask (cleanup s t p) t e
  exact StepFx.silent (h1.1.trans h2.1) (by rw [h2.2, h1.2])

theorem fx_genLoop (t p n : Nat) : ∀ (r : Nat) (m : St), r ≤ n → StepFx m (genLoop t p n r m) t p n := by
  intro r
  induction r with
  | zero => intro m _; exact fx_end m t p n false
  | succ r ih =>
    intro m hr
    simp only [genLoop]
    have ha := fr_awaitFut m t (t, n - (r + 1)) (.awaitGen (n - (r + 1)))
    generalize awaitFut m t (t, n - (r + 1)) (.awaitGen (n - (r + 1))) = res at ha
    obtain ⟨o, m1⟩ := res
    simp only at ha
    have fa : StepFx m m1 t p n := StepFx.silent ha.1 ha.2.1
    cases o with
    | suspended => exact fa
    | raised => exact fa.trans (fx_end m1 t p n true)
    | value v =>
      have hf := ha.2.2 v rfl
      have hw : StepFx m1 (scopedUpdate m1 p v) t p n :=
        StepFx.write (k := n - (r + 1)) (by omega) ((ha.1.done _ _).2 hf)
      exact fa.trans (hw.trans (ih _ (by omega)))


theorem StepFx.of_eq {s s' : St} {t p n : Nat} (h1 : s'.last = s.last) (h2 : s'.tasks = s.tasks)
    (h3 : s'.futs = s.futs) (h4 : s'.log = s.log) : StepFx s s' t p n :=
  StepFx.silent (Fr.of_eq h1 h2 h3) h4

theorem StepFx.writeP {s : St} {t p n k : Nat} {v : Int} (hk : k < n) (hf : s.futs (t, k) = .done v) :
    StepFx s (plainSet s p v) t p n := by
  have := fr_plainSet s p v
  refine ⟨this.1, [(p, v)], this.2, ?_⟩
  intro pv hpv
  cases List.mem_singleton.1 hpv
  exact ⟨rfl, k, hk, hf⟩

/-- the registration prologue of `_async_ref` writes nothing -/
theorem fx_register (c : Cfg) (s : St) (t p n : Nat) : StepFx s (registerTask c s t p) t p n := by
  unfold registerTask
  split
  · exact StepFx.of_eq rfl rfl rfl rfl
  · split
    · exact StepFx.silent (Fr.refl _) rfl
    · rename_i u _ _
      have hc := fr_cancelTask s u
      have h1 : StepFx s (cancelTask s u) t p n := StepFx.silent hc.1 hc.2
      simp only []
      split
      · exact h1.trans (StepFx.of_eq rfl rfl rfl rfl)
      · exact h1

theorem Live_frame (c : Cfg) (s s' : St) (t : Nat) (x : Task) (h1 : s'.futs = s.futs) (h2 : s'.refs = s.refs) :
    Live c s' t x ↔ Live c s t x := by
  simp only [Live, Doomed, waitsCancelled, h1, h2]

/-- first step of a task: frame, and it writes only if the task is live -/
theorem fx_stepStart (c : Cfg) (s : St) (t : Nat) (x : Task) (hx : s.tasks t = some x) (hpc : x.pc = .start) :
    StepFx s (stepStart c s t x) t x.param x.kind.nFuts ∧
    (¬ Live c s t x → (stepStart c s t x).log = s.log) := by
  obtain ⟨xp, xk, xpc, xm⟩ := x
  simp only at hpc; subst hpc
  have hset : ∀ y : Task, y.kind = xk → y.param = xp → StepFx s (s.setTask t y) t xp (Kind.nFuts xk) := by
    intro y h1 h2
    exact StepFx.silent (fr_setTask s t y (by intro x' hx'; rw [hx] at hx'; cases hx'; exact ⟨h1, h2⟩)) rfl
  unfold stepStart
  by_cases hm : xm = true
  · subst hm
    simp only [↓reduceIte]
    exact ⟨hset _ rfl rfl, fun _ => rfl⟩
  · have hm' : xm = false := by simpa using hm
    subst hm'
    simp only [Bool.false_eq_true, ↓reduceIte]
    by_cases hsc : (c.startCheck && s.refs xp != some t) = true
    · simp only [hsc, ↓reduceIte]
      exact ⟨hset _ rfl rfl, fun _ => rfl⟩
    · simp only [hsc, Bool.false_eq_true, ↓reduceIte]
      have hl : Live c s t ⟨xp, xk, .start, false⟩ := by
        refine ⟨rfl, ?_⟩
        rintro (hd | hd | ⟨h1, _, h3⟩)
        · cases hd
        · simp [waitsCancelled, waitingOn] at hd
        · apply hsc; simp [h1, h3]
      refine ⟨?_, fun hn => absurd hl hn⟩
      have h0 := hset ⟨xp, xk, .running, false⟩ rfl rfl
      have h1 := fx_register c (s.setTask t ⟨xp, xk, .running, false⟩) t xp (Kind.nFuts xk)
      have h01 := h0.trans h1
      generalize registerTask c (s.setTask t ⟨xp, xk, .running, false⟩) t xp = s1 at h01
      cases xk with
      | agen n => exact h01.trans (fx_genLoop t xp n n s1 (Nat.le_refl _))
      | coro =>
        simp only []
        split
        · -- await inside the scope
          have h2 : StepFx s1 { s1 with syncing := addName s1.syncing xp } t xp 1 := StepFx.of_eq rfl rfl rfl rfl
          have ha := fr_awaitFut { s1 with syncing := addName s1.syncing xp } t (t, 0) (.awaitCoro s1.syncing)
          generalize awaitFut { s1 with syncing := addName s1.syncing xp } t (t, 0) (.awaitCoro s1.syncing) = res at ha
          obtain ⟨o, s3⟩ := res
          simp only at ha
          have h3 : StepFx { s1 with syncing := addName s1.syncing xp } s3 t xp 1 := StepFx.silent ha.1 ha.2.1
          have h03 := h01.trans (h2.trans h3)
          cases o with
          | suspended => exact h03
          | raised =>
            have h4 : StepFx s3 { s3 with syncing := s1.syncing } t xp 1 := StepFx.of_eq rfl rfl rfl rfl
            exact h03.trans (h4.trans (fx_end _ t xp 1 true))
          | value v =>
            have hf := ha.2.2 v rfl
            have h4 : StepFx s3 (plainSet s3 xp v) t xp 1 :=
              StepFx.writeP (k := 0) (by decide) ((ha.1.done _ _).2 hf)
            have h5 : StepFx (plainSet s3 xp v) { (plainSet s3 xp v) with syncing := s1.syncing } t xp 1 :=
              StepFx.of_eq rfl rfl rfl rfl
            exact h03.trans (h4.trans (h5.trans (fx_end _ t xp 1 false)))
        · -- await before the scope (since 08165dc)
          have ha := fr_awaitFut s1 t (t, 0) .awaitOut
          generalize awaitFut s1 t (t, 0) .awaitOut = res at ha
          obtain ⟨o, s3⟩ := res
          simp only at ha
          have h3 : StepFx s1 s3 t xp 1 := StepFx.silent ha.1 ha.2.1
          have h03 := h01.trans h3
          cases o with
          | suspended => exact h03
          | raised => exact h03.trans (fx_end _ t xp 1 true)
          | value v =>
            have hf := ha.2.2 v rfl
            have h4 : StepFx s3 (scopedUpdate s3 xp v) t xp 1 :=
              StepFx.write (k := 0) (by decide) ((ha.1.done _ _).2 hf)
            exact h03.trans (h4.trans (fx_end _ t xp 1 false))


/-- wake-up of a task: frame, and it writes only if the task is live -/
theorem fx_stepWake (c : Cfg) (s : St) (t : Nat) (x : Task) (f : Fid) (hx : s.tasks t = some x)
    (hk1 : ∀ sv, x.pc = .awaitCoro sv → x.kind = .coro) (hk2 : x.pc = .awaitOut → x.kind = .coro)
    (hk3 : ∀ k, x.pc = .awaitGen k → ∀ n, x.kind = .agen n → k < n) :
    StepFx s (stepWake s t x f) t x.param x.kind.nFuts ∧
    (¬ Live c s t x → (stepWake s t x f).log = s.log) := by
  obtain ⟨xp, xk, xpc, xm⟩ := x
  simp only at hk1 hk2 hk3
  have hset : ∀ y : Task, y.kind = xk → y.param = xp → StepFx s (s.setTask t y) t xp (Kind.nFuts xk) := by
    intro y h1 h2
    exact StepFx.silent (fr_setTask s t y (by intro x' hx'; rw [hx] at hx'; cases hx'; exact ⟨h1, h2⟩)) rfl
  have hrefl : StepFx s s t xp (Kind.nFuts xk) := StepFx.silent (Fr.refl _) rfl
  unfold stepWake
  by_cases hwf : waitingOn t xpc = some f
  · simp only [hwf, bne_self_eq_false, Bool.false_eq_true, ↓reduceIte]
    have h0 := hset ⟨xp, xk, .running, false⟩ rfl rfl
    have hnt : xpc.terminal = false := by cases xpc <;> simp_all [waitingOn, Pc.terminal]
    have hns : xpc ≠ .start := by intro e; subst e; simp [waitingOn] at hwf
    -- the throwing paths write nothing
    have dead : ∀ (sv : List Nat) (b : Bool),
        StepFx s (endTask (cleanup { (s.setTask t ⟨xp, xk, .running, false⟩) with syncing := sv } t xp) t b) t xp
          (Kind.nFuts xk) ∧
        (endTask (cleanup { (s.setTask t ⟨xp, xk, .running, false⟩) with syncing := sv } t xp) t b).log = s.log := by
      intro sv b
      have h1 : StepFx (s.setTask t ⟨xp, xk, .running, false⟩)
          { (s.setTask t ⟨xp, xk, .running, false⟩) with syncing := sv } t xp (Kind.nFuts xk) :=
        StepFx.of_eq rfl rfl rfl rfl
      refine ⟨h0.trans (h1.trans (fx_end _ t xp _ b)), ?_⟩
      rw [(fr_endTask _ t b).2, (fr_cleanup _ t xp).2]; rfl
    have dead' : ∀ (b : Bool),
        StepFx s (endTask (cleanup (s.setTask t ⟨xp, xk, .running, false⟩) t xp) t b) t xp (Kind.nFuts xk) ∧
        (endTask (cleanup (s.setTask t ⟨xp, xk, .running, false⟩) t xp) t b).log = s.log := by
      intro b
      refine ⟨h0.trans (fx_end _ t xp _ b), ?_⟩
      rw [(fr_endTask _ t b).2, (fr_cleanup _ t xp).2]; rfl
    by_cases hm : xm = true
    · subst hm
      simp only [↓reduceIte]
      cases xpc with
      | awaitCoro sv => exact ⟨(dead sv true).1, fun _ => (dead sv true).2⟩
      | awaitOut => exact ⟨(dead' true).1, fun _ => (dead' true).2⟩
      | awaitGen k => exact ⟨(dead' true).1, fun _ => (dead' true).2⟩
      | _ => simp [waitingOn] at hwf
    · have hm' : xm = false := by simpa using hm
      subst hm'
      simp only [Bool.false_eq_true, ↓reduceIte]
      cases hf : s.futs f with
      | pending w0 => exact ⟨hrefl, fun _ => rfl⟩
      | cancelled =>
        simp only []
        cases xpc with
        | awaitCoro sv => exact ⟨(dead sv true).1, fun _ => (dead sv true).2⟩
        | awaitOut => exact ⟨(dead' true).1, fun _ => (dead' true).2⟩
        | awaitGen k => exact ⟨(dead' true).1, fun _ => (dead' true).2⟩
        | _ => simp [waitingOn] at hwf
      | done v =>
        simp only []
        have hl : Live c s t ⟨xp, xk, xpc, false⟩ := by
          refine ⟨hnt, ?_⟩
          rintro (hd | hd | ⟨_, h2, _⟩)
          · cases hd
          · simp [waitsCancelled, hwf, hf] at hd
          · exact hns h2
        refine ⟨?_, fun hn => absurd hl hn⟩
        cases xpc with
        | awaitCoro sv =>
          have hk := hk1 sv rfl; subst hk
          have hf0 : f = (t, 0) := by simpa [waitingOn] using hwf.symm
          subst hf0
          have h1 : StepFx (s.setTask t ⟨xp, .coro, .running, false⟩)
              (plainSet (s.setTask t ⟨xp, .coro, .running, false⟩) xp v) t xp 1 :=
            StepFx.writeP (k := 0) (by decide) hf
          have h2 : StepFx (plainSet (s.setTask t ⟨xp, .coro, .running, false⟩) xp v)
              { (plainSet (s.setTask t ⟨xp, .coro, .running, false⟩) xp v) with syncing := sv } t xp 1 :=
            StepFx.of_eq rfl rfl rfl rfl
          exact h0.trans (h1.trans (h2.trans (fx_end _ t xp 1 false)))
        | awaitOut =>
          have hk := hk2 rfl; subst hk
          have hf0 : f = (t, 0) := by simpa [waitingOn] using hwf.symm
          subst hf0
          have h1 : StepFx (s.setTask t ⟨xp, .coro, .running, false⟩)
              (scopedUpdate (s.setTask t ⟨xp, .coro, .running, false⟩) xp v) t xp 1 :=
            StepFx.write (k := 0) (by decide) hf
          exact h0.trans (h1.trans (fx_end _ t xp 1 false))
        | awaitGen k =>
          have hf0 : f = (t, k) := by simpa [waitingOn] using hwf.symm
          subst hf0
          cases xk with
          | coro => exact hrefl
          | agen n =>
            have hkn := hk3 k rfl n rfl
            simp only []
            have h1 : StepFx (s.setTask t ⟨xp, .agen n, .running, false⟩)
                (scopedUpdate (s.setTask t ⟨xp, .agen n, .running, false⟩) xp v) t xp n :=
              StepFx.write (k := k) hkn hf
            exact h0.trans (h1.trans (fx_genLoop t xp n _ _ (by omega)))
        | _ => simp [waitingOn] at hwf
  · have : (waitingOn t xpc != some f) = true := by simpa using hwf
    simp only [this, ↓reduceIte]
    exact ⟨hrefl, fun _ => trivial⟩


/-- `v` is a completed result of the most recent (asynchronous) assignment to `p` -/
def Justified (s : St) (p : Nat) (v : Int) : Prop :=
  ∃ t x k, s.last p = .task t ∧ s.tasks t = some x ∧ k < x.kind.nFuts ∧ s.futs (t, k) = .done v

theorem Justified.frame {s s' : St} {p : Nat} {v : Int} (h : Fr s s') : Justified s p v → Justified s' p v := by
  rintro ⟨t, x, k, h1, h2, h3, h4⟩
  obtain ⟨x', hx', hk, _⟩ := h.kinds t x h2
  exact ⟨t, x', k, by rw [h.last]; exact h1, hx', by rw [hk]; exact h3, (h.done _ _).2 h4⟩

/-- every step of the ready queue keeps the frame and appends only justified values -/
theorem writes_stepReady (c : Cfg) (s : St) (h : Inv c s none) :
    Fr s (stepReady c s) ∧ ∃ l, (stepReady c s).log = s.log ++ l ∧ ∀ pv ∈ l, Justified s pv.1 pv.2 := by
  have silent : ∀ s', Fr s s' → s'.log = s.log →
      Fr s s' ∧ ∃ l, s'.log = s.log ++ l ∧ ∀ pv ∈ l, Justified s pv.1 pv.2 := by
    intro s' h1 h2
    exact ⟨h1, [], by simp [h2], by intro pv hpv; cases hpv⟩
  -- from the step-level description to justified values
  have lift : ∀ (rest : List (Nat × Option Fid)) (t : Nat) (x : Task) (s' : St), s.tasks t = some x →
      StepFx { s with ready := rest } s' t x.param x.kind.nFuts →
      (¬ Live c { s with ready := rest } t x → s'.log = s.log) →
      Fr s s' ∧ ∃ l, s'.log = s.log ++ l ∧ ∀ pv ∈ l, Justified s pv.1 pv.2 := by
    intro rest t x s' hx hfx hlive
    obtain ⟨hfr, l, hl, hw⟩ := hfx
    have hfr' : Fr s s' := (Fr.of_eq (s := s) (s' := { s with ready := rest }) rfl rfl rfl).trans hfr
    refine ⟨hfr', l, hl, ?_⟩
    intro pv hpv
    have hlv : Live c s t x := by
      apply Classical.byContradiction
      intro hn
      have := hlive (fun hl' => hn ((Live_frame c s { s with ready := rest } t x rfl rfl).1 hl'))
      rw [hl] at this
      have : l = [] := by simpa using this
      rw [this] at hpv; cases hpv
    obtain ⟨hp, k, hk, hf⟩ := hw pv hpv
    exact ⟨t, x, k, by rw [hp]; exact h.live_last t x hx hlv, hx, hk, hf⟩
  unfold stepReady
  split
  · exact silent _ (Fr.refl _) rfl
  · rename_i t w rest hr
    simp only []
    split
    · exact silent _ (Fr.of_eq rfl rfl rfl) rfl
    · rename_i x hx
      cases w with
      | none =>
        simp only []
        split
        · rename_i hpc
          have := fx_stepStart c { s with ready := rest } t x hx hpc
          exact lift rest t x _ hx this.1 this.2
        · exact silent _ (Fr.of_eq rfl rfl rfl) rfl
      | some f =>
        have := fx_stepWake c { s with ready := rest } t x f hx (fun sv hp => h.kind_coro t x sv hx hp)
          (fun hp => h.kind_coro' t x hx hp) (fun k hp n hn => (h.kind_gen t x k hx hp).2 n hn)
        exact lift rest t x _ hx this.1 this.2

theorem writes_drain (c : Cfg) (n : Nat) : ∀ s, Inv c s none →
    Fr s (drain c n s) ∧ ∃ l, (drain c n s).log = s.log ++ l ∧ ∀ pv ∈ l, Justified (drain c n s) pv.1 pv.2 := by
  induction n with
  | zero => intro s _; exact ⟨Fr.refl _, [], by simp [drain], by intro pv hpv; cases hpv⟩
  | succ n ih =>
    intro s h
    simp only [drain]
    split
    · exact ⟨Fr.refl _, [], by simp, by intro pv hpv; cases hpv⟩
    · obtain ⟨f1, l1, e1, w1⟩ := writes_stepReady c s h
      obtain ⟨f2, l2, e2, w2⟩ := ih _ (inv_stepReady c s h)
      refine ⟨f1.trans f2, l1 ++ l2, by rw [e2, e1, List.append_assoc], ?_⟩
      intro pv hpv
      rcases List.mem_append.1 hpv with hm | hm
      · exact ((w1 pv hm).frame f1).frame f2
      · exact w2 pv hm

theorem fromLatest_of_justified (s : St) (ev : Event) (p : Nat) (v : Int) (h : Justified s p v) :
    fromLatest s ev p v = true := by
  obtain ⟨t, x, k, h1, h2, h3, h4⟩ := h
  simp only [fromLatest, h1, h2, Bool.or_eq_true, decide_eq_true_eq, List.any_eq_true, List.mem_range]
  exact Or.inr ⟨k, h3, h4⟩

theorem assignAsync_log (c : Cfg) (s : St) (p : Nat) (k : Kind) : (assignAsync c s p k).log = s.log := by
  unfold assignAsync
  split <;> simp [spawn, updateRef, popCancel_log]

theorem assignPlain_log (s : St) (p : Nat) (v : Int) : (assignPlain s p v).log = s.log ++ [(p, v)] := by
  simp [assignPlain, (fr_plainSet s p v).2]

theorem complete_log (s : St) (f : Fid) (v : Int) : (complete s f v).log = s.log := by
  unfold complete; (repeat' split) <;> rfl

/-- every value stored during an event comes from the parameter's most recent assignment -/
theorem writes_applyEvent (c : Cfg) (s : St) (ev : Event) (h : Inv c s none) (p : Nat) (v : Int)
    (hm : (p, v) ∈ (applyEvent c s ev).log.drop s.log.length) : fromLatest (applyEvent c s ev) ev p v = true := by
  cases ev with
  | tick =>
    obtain ⟨_, l, hl, hw⟩ := writes_drain c (tickFuel s) s h
    simp only [applyEvent] at hm ⊢
    rw [hl, List.drop_left] at hm
    exact fromLatest_of_justified _ _ p v (hw (p, v) hm)
  | complete t k v' =>
    simp only [applyEvent, complete_log, List.drop_length] at hm
    cases hm
  | assign q src =>
    cases src with
    | coro => simp only [applyEvent, assignAsync_log, List.drop_length] at hm; cases hm
    | agen n => simp only [applyEvent, assignAsync_log, List.drop_length] at hm; cases hm
    | plain w =>
      simp only [applyEvent, assignPlain_log, List.drop_left, List.mem_singleton, Prod.mk.injEq] at hm
      obtain ⟨rfl, rfl⟩ := hm
      simp [fromLatest]

theorem hazardFreeFrom_append (c : Cfg) : ∀ (evs : List Event) (s : St) (ev : Event),
    hazardFreeFrom c s (evs ++ [ev]) = true → hazardFreeFrom c s evs = true := by
  intro evs
  induction evs with
  | nil => intro _ _ _; rfl
  | cons e rest ih =>
    intro s ev h
    simp only [List.cons_append, hazardFreeFrom, Bool.and_eq_true] at h ⊢
    exact ⟨h.1, ih _ ev h.2⟩

theorem run_append (c : Cfg) (evs : List Event) (ev : Event) : run c (evs ++ [ev]) = applyEvent c (run c evs) ev := by
  simp [run, runFrom, List.foldl_append]

end ParamVerif.Async
