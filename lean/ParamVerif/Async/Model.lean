/-
Model of param's asynchronous references on ONE Parameterized instance, driven by an asyncio
event loop (C10).

Anchored code (param/parameterized.py unless said otherwise), all AS WRITTEN:
  * `Parameter.__set__`, the `allow_refs` branch: `syncing = name in obj.syncing`, `_resolve_ref`,
    `_update_ref` for a reference, the unlink branch guarded by `name in refs and not syncing`
    (drops the link and cancels the registered task), the early return for async references;
  * `Parameters._resolve_ref` (installs the link with `_update_ref`, then schedules `_async_ref`
    through `async_executor`), `Parameters._update_ref` (cancels the registered task, installs the link),
    `Parameters._async_ref` (returns at once when `refs[name]` is no longer the reference it was
    scheduled for; cancels a registered other task and registers itself; awaits the coroutine BEFORE
    entering `with _syncing((name,))`; `finally` removes its own registration),
    `_syncing` (saves the whole set and puts the saved set back);
    before commits 08165dc / 0c5ea5c (`Cfg.preFix`): the task was scheduled before the link was
    installed, there was no such early return, a task registered itself *only if none was
    registered*, and a coroutine was awaited INSIDE the `_syncing` scope;
  * `param/_utils.py async_executor` on a running loop: `asyncio.ensure_future` = `create_task`.

asyncio facts the model reproduces (trusted, DESIGN.md section 3): one FIFO ready queue
(`call_soon`); `create_task` runs the first step of the coroutine at a later loop iteration;
`Future.set_result` schedules the waiting task's wake-up; `Task.cancel()` on a task suspended on a
pending future cancels that future and schedules the wake-up, which *then* throws `CancelledError`
at the `await` — so `finally` blocks, including `_syncing`'s restore, run at that later iteration;
`cancel()` on a task that is running, not yet started, or already woken sets `_must_cancel`, which
turns the next step into a `CancelledError` (a started coroutine that does not suspend again simply
finishes); awaiting a future that is already done does not suspend.

A schedule is a list of `Event`s performed by a driver coroutine: assignments, `tick` (yield to the
loop until the ready queue is empty) and completions of hand-made futures.  The k-th future of the
t-th asynchronous assignment has the id `(t, k)`, so futures are never shared between assignments.

`Cfg` selects between the code in /repo (`Cfg.repo`: since commits 08165dc and 0c5ea5c) and the
code before those two fixes (`Cfg.preFix`, kept as a regression configuration: the witness schedules
of the four defects found there); each flag is one hunk of the fixes, and the harness reads the
flags from the source of `_async_ref` on every run.  Ghost field `last` (never read by a transition)
records the most recent assignment per parameter.

No Mathlib, no imports: loaded by the driver.
-/
namespace ParamVerif.Async

/-- `(t, k)`: the k-th hand-made future of the t-th asynchronous assignment -/
abbrev Fid := Nat × Nat

/-- what is assigned -/
inductive Src
  | coro                 -- `async def f(): return await fut_(t,0)`
  | agen (n : Nat)       -- `async def g(): for k in range(n): yield await fut_(t,k)`
  | plain (v : Int)
  deriving Repr, DecidableEq

inductive Event
  | assign (p : Nat) (src : Src)
  | tick                                   -- `await asyncio.sleep(0)` until the ready queue is empty
  | complete (t k : Nat) (v : Int)         -- `if not fut.done(): fut.set_result(v)`
  deriving Repr, DecidableEq

/-- which variant of the anchored code is modelled; one flag per hunk of the fixes 08165dc / 0c5ea5c -/
structure Cfg where
  /-- `_async_ref` awaits a coroutine inside `with _syncing(...)` (before 08165dc) / before entering it (now) -/
  awaitInside : Bool
  /-- (since 0c5ea5c) `_resolve_ref` installs the link before scheduling and `_async_ref` returns at
      once when `refs[name]` is no longer the reference it was scheduled for -/
  startCheck : Bool
  /-- (since 0c5ea5c) `_async_ref` registers itself also after cancelling a registered older task -/
  registerAlways : Bool
  deriving Repr, DecidableEq

/-- the code in /repo -/
def Cfg.repo : Cfg := { awaitInside := false, startCheck := true, registerAlways := true }
/-- the code before commits 08165dc and 0c5ea5c -/
def Cfg.preFix : Cfg := { awaitInside := true, startCheck := false, registerAlways := false }

inductive Fut
  | pending (waiter : Option Nat)          -- the task whose wake-up is the future's done-callback
  | done (v : Int)
  | cancelled
  deriving Repr, DecidableEq

/-- where the coroutine `_async_ref` of a task stands -/
inductive Pc
  | start                                  -- task created, first step not run yet
  | running                                -- inside a step (only while that step is being computed)
  | awaitCoro (saved : List Nat)           -- at `await awaitable` inside `with _syncing`; `saved` = the set to restore
  | awaitOut                               -- (now) at `value = await awaitable`, no scope entered
  | awaitGen (k : Nat)                     -- in `async for`, the generator awaits its k-th future
  | finished
  | cancelled
  deriving Repr, DecidableEq

inductive Kind | coro | agen (n : Nat)
  deriving Repr, DecidableEq

structure Task where
  param : Nat
  kind : Kind
  pc : Pc
  mustCancel : Bool                        -- asyncio `Task._must_cancel`
  deriving Repr, DecidableEq

/-- ghost: the most recent assignment to a parameter -/
inductive Last | never | plain (v : Int) | task (t : Nat)
  deriving Repr, DecidableEq

structure St where
  vals : Nat → Int                         -- `values[name]`
  refs : Nat → Option Nat                  -- `refs[name]` = the reference installed (named by its task id)
  asyncRefs : Nat → Option Nat             -- `async_refs[name]` = the registered task
  syncing : List Nat                       -- `syncing` (a set; insertion order kept, compared sorted)
  nTasks : Nat
  tasks : Nat → Option Task
  futs : Fid → Fut
  ready : List (Nat × Option Fid)          -- loop._ready: (task, none) = first step, (task, some f) = wake-up by f
  log : List (Nat × Int)                   -- what a value watcher (onlychanged=False) has seen
  last : Nat → Last                        -- ghost

def St.init (v0 : Int) : St :=
  { vals := fun _ => v0, refs := fun _ => none, asyncRefs := fun _ => none, syncing := [], nTasks := 0,
    tasks := fun _ => none, futs := fun _ => .pending none, ready := [], log := [], last := fun _ => .never }

def upd {κ α : Type} [DecidableEq κ] (m : κ → α) (k : κ) (v : α) : κ → α := fun i => if i = k then v else m i

def St.setTask (s : St) (t : Nat) (x : Task) : St := { s with tasks := upd s.tasks t (some x) }

/-- the future a suspended task waits on (`Task._fut_waiter`) -/
def waitingOn (t : Nat) : Pc → Option Fid
  | .awaitCoro _ => some (t, 0)
  | .awaitOut => some (t, 0)
  | .awaitGen k => some (t, k)
  | _ => none

/-- `set(old) | {p}` -/
def addName (l : List Nat) (p : Nat) : List Nat := if l.contains p then l else l ++ [p]

/-- src: asyncio `Task.cancel()`.  Done: no effect.  Suspended on a pending future: the future is
cancelled, which schedules the wake-up.  Otherwise (not started, running, or already woken):
`_must_cancel`. -/
def cancelTask (s : St) (t : Nat) : St :=
  match s.tasks t with
  | none => s
  | some x =>
    match x.pc with
    | .finished => s
    | .cancelled => s
    | pc =>
      match waitingOn t pc with
      | some f =>
        match s.futs f with
        | .pending _ => { s with futs := upd s.futs f .cancelled, ready := s.ready ++ [(t, some f)] }
        | _ => s.setTask t { x with mustCancel := true }
      | none => s.setTask t { x with mustCancel := true }

/-- `async_refs.pop(name).cancel()` when the name is registered -/
def popCancel (s : St) (p : Nat) : St :=
  match s.asyncRefs p with
  | some t => cancelTask { s with asyncRefs := upd s.asyncRefs p none } t
  | none => s

/-- src: `Parameter.__set__` with a value that is not a reference (the driver's plain assignment,
and `self_.update({pname: result})` inside `_async_ref`): `_resolve_ref` finds no reference; the
link is dropped — and its task cancelled — iff `name in refs and not syncing`; the value is stored,
then the deferred unlink runs, then the watcher is called. -/
def plainSet (s : St) (p : Nat) (v : Int) : St :=
  let unlink := (s.refs p).isSome && !s.syncing.contains p
  let s1 := { s with vals := upd s.vals p v }
  let s2 := if unlink then popCancel { s1 with refs := upd s1.refs p none } p else s1
  { s2 with log := s2.log ++ [(p, v)] }

/-- `with _syncing(obj, (p,)): obj.param.update({p: v})` entered and left within one step:
`old = syncing; syncing = set(old) | {p}; …; finally: syncing = old` -/
def scopedUpdate (s : St) (p : Nat) (v : Int) : St :=
  let saved := s.syncing
  let s1 := plainSet { s with syncing := addName saved p } p v
  { s1 with syncing := saved }

/-- the `finally` of `_async_ref`: `if async_refs.get(pname) is current_task: del async_refs[pname]` -/
def cleanup (s : St) (t p : Nat) : St :=
  if s.asyncRefs p = some t then { s with asyncRefs := upd s.asyncRefs p none } else s

/-- the coroutine returns (or `exc`: `CancelledError` leaves it); with `_must_cancel` still set the
task ends cancelled as well -/
def endTask (s : St) (t : Nat) (exc : Bool) : St :=
  match s.tasks t with
  | none => s
  | some x => s.setTask t { x with pc := if exc || x.mustCancel then .cancelled else .finished, mustCancel := false }

inductive Aw | suspended | value (v : Int) | raised
  deriving Repr, DecidableEq

/-- `await fut` in task `t`; `pc` = where the task stands if it has to suspend.  A done future
does not suspend.  On suspension asyncio registers the wake-up, and with `_must_cancel` set cancels
the future at once (`Task.__step`: `if self._must_cancel: if self._fut_waiter.cancel(): …`). -/
def awaitFut (s : St) (t : Nat) (f : Fid) (pc : Pc) : Aw × St :=
  match s.futs f with
  | .done v => (.value v, s)
  | .cancelled => (.raised, s)
  | .pending _ =>
    match s.tasks t with
    | none => (.suspended, s)
    | some x =>
      if x.mustCancel then
        (.suspended, { (s.setTask t { x with pc := pc, mustCancel := false }) with
                        futs := upd s.futs f .cancelled, ready := s.ready ++ [(t, some f)] })
      else
        (.suspended, { (s.setTask t { x with pc := pc }) with futs := upd s.futs f (.pending (some t)) })

/-- `async for new_obj in awaitable: with _syncing(...): update` with `r` items still to come out of
`n`; the `__anext__` await is outside the scope.  Exhaustion and `CancelledError` both reach the
`finally`. -/
def genLoop (t p n : Nat) : Nat → St → St
  | 0, s => endTask (cleanup s t p) t false
  | r + 1, s =>
    match awaitFut s t (t, n - (r + 1)) (.awaitGen (n - (r + 1))) with
    | (.suspended, s1) => s1
    | (.raised, s1) => endTask (cleanup s1 t p) t true
    | (.value v, s1) => genLoop t p n r (scopedUpdate s1 p v)

/-- the prologue of `_async_ref`: `running_task = async_refs.get(pname)`; register if `None`, else —
unless it is this very task — cancel the registered one (and, since 0c5ea5c, register all the same) -/
def registerTask (c : Cfg) (s0 : St) (t p : Nat) : St :=
  match s0.asyncRefs p with
  | none => { s0 with asyncRefs := upd s0.asyncRefs p (some t) }
  | some u =>
    if u = t then s0 else
      let s' := cancelTask s0 u
      if c.registerAlways then { s' with asyncRefs := upd s'.asyncRefs p (some t) } else s'

/-- first step of the task: src `Parameters._async_ref` from the top -/
def stepStart (c : Cfg) (s : St) (t : Nat) (x : Task) : St :=
  if x.mustCancel then
    -- CancelledError is thrown into a coroutine that has not started: no line of it runs
    s.setTask t { x with pc := .cancelled, mustCancel := false }
  else if c.startCheck && s.refs x.param != some t then
    -- (now) the reference was replaced or removed before this task got to run
    s.setTask t { x with pc := .finished }
  else
    let p := x.param
    let s0 := s.setTask t { x with pc := .running }
    let s1 := registerTask c s0 t p
    match x.kind with
    | .coro =>
      if c.awaitInside then
        -- with _syncing(obj, (pname,)): obj.param.update({pname: await awaitable})
        let saved := s1.syncing
        match awaitFut { s1 with syncing := addName saved p } t (t, 0) (.awaitCoro saved) with
        | (.suspended, s3) => s3
        | (.raised, s3) => endTask (cleanup { s3 with syncing := saved } t p) t true
        | (.value v, s3) => endTask (cleanup { (plainSet s3 p v) with syncing := saved } t p) t false
      else
        -- (now) value = await awaitable; with _syncing(...): update
        match awaitFut s1 t (t, 0) .awaitOut with
        | (.suspended, s3) => s3
        | (.raised, s3) => endTask (cleanup s3 t p) t true
        | (.value v, s3) => endTask (cleanup (scopedUpdate s3 p v) t p) t false
    | .agen n => genLoop t p n n s1

/-- wake-up of a suspended task by its future: `Task.__wakeup` → `__step`: `CancelledError` when
`_must_cancel` is set or the future was cancelled, else the future's result is sent in -/
def stepWake (s : St) (t : Nat) (x : Task) (f : Fid) : St :=
  if waitingOn t x.pc != some f then s          -- a wake-up is only ever queued for the awaited future
  else
    let p := x.param
    let res : Option (Option Int) :=
      if x.mustCancel then some none
      else match s.futs f with
        | .done v => some (some v)
        | .cancelled => some none
        | .pending _ => none
    match res with
    | none => s                                  -- done-callbacks run only for a done future
    | some r =>
      let s0 := s.setTask t { x with pc := .running, mustCancel := false }
      match x.pc, r with
      | .awaitCoro saved, none => endTask (cleanup { s0 with syncing := saved } t p) t true
      | .awaitCoro saved, some v => endTask (cleanup { (plainSet s0 p v) with syncing := saved } t p) t false
      | .awaitOut, none => endTask (cleanup s0 t p) t true
      | .awaitOut, some v => endTask (cleanup (scopedUpdate s0 p v) t p) t false
      | .awaitGen _, none => endTask (cleanup s0 t p) t true
      | .awaitGen k, some v =>
        match x.kind with
        | .agen n => genLoop t p n (n - (k + 1)) (scopedUpdate s0 p v)
        | .coro => s
      | _, _ => s

/-- run the handle at the head of the ready queue -/
def stepReady (c : Cfg) (s : St) : St :=
  match s.ready with
  | [] => s
  | (t, w) :: rest =>
    let s1 := { s with ready := rest }
    match s1.tasks t with
    | none => s1
    | some x =>
      match w with
      | none => if x.pc = .start then stepStart c s1 t x else s1
      | some f => stepWake s1 t x f

def drain (c : Cfg) : Nat → St → St
  | 0, s => s
  | n + 1, s => if s.ready.isEmpty then s else drain c n (stepReady c s)

/-- enough for every handle queued now plus one cancellation wake-up per task -/
def tickFuel (s : St) : Nat := s.ready.length + s.nTasks + 1

/-- src: `Parameters._update_ref`: cancel the registered task, install the link -/
def updateRef (s : St) (p t : Nat) : St :=
  let s1 := popCancel s p
  { s1 with refs := upd s1.refs p (some t) }

/-- src: `async_executor(partial(_async_ref, name, awaitable))` on a running loop -/
def spawn (s : St) (p : Nat) (k : Kind) : St :=
  { s with nTasks := s.nTasks + 1, tasks := upd s.tasks s.nTasks (some { param := p, kind := k, pc := .start, mustCancel := false }),
           ready := s.ready ++ [(s.nTasks, none)] }

/-- `obj.p = <coroutine function | async generator function>`: `_resolve_ref` schedules the task,
then `_update_ref`; no value is stored and no event sent.  (since 0c5ea5c the link is installed first) -/
def assignAsync (c : Cfg) (s : St) (p : Nat) (k : Kind) : St :=
  let t := s.nTasks
  let s1 := if c.startCheck then spawn (updateRef s p t) p k else updateRef (spawn s p k) p t
  { s1 with last := upd s1.last p (.task t) }

def assignPlain (s : St) (p : Nat) (v : Int) : St :=
  let s1 := plainSet s p v
  { s1 with last := upd s1.last p (.plain v) }

/-- `if not fut.done(): fut.set_result(v)` -/
def complete (s : St) (f : Fid) (v : Int) : St :=
  match s.futs f with
  | .pending w =>
    let s1 := { s with futs := upd s.futs f (.done v) }
    match w with
    | some t => { s1 with ready := s1.ready ++ [(t, some f)] }
    | none => s1
  | _ => s

def applyEvent (c : Cfg) (s : St) : Event → St
  | .assign p .coro => assignAsync c s p .coro
  | .assign p (.agen n) => assignAsync c s p (.agen n)
  | .assign p (.plain v) => assignPlain s p v
  | .tick => drain c (tickFuel s) s
  | .complete t k v => complete s (t, k) v

def runFrom (c : Cfg) (s : St) (evs : List Event) : St := evs.foldl (applyEvent c) s

def run (c : Cfg) (evs : List Event) : St := runFrom c (St.init 0) evs

end ParamVerif.Async
