/-
The C10 model (Async/Model.lean) extended by two things the schedules of the harness can do, AS
WRITTEN in param/parameterized.py:

  * a **watcher hook** — `obj.param.watch(lambda e: setattr(obj, b, w), [a])`: whenever parameter `a`
    is written (by the driver or by `self_.update({a: result})` inside `_async_ref`, i.e. while the
    `_syncing((a,))` scope is open), the callback assigns the plain value `w` to parameter `b` of the
    same object.  That nested `Parameter.__set__` evaluates `syncing = b in obj.syncing` with the
    set as it is at that moment and drops `b`'s link / cancels `b`'s task exactly like a plain
    assignment made by the driver;
  * **references with a dependency** — `param.bind(async_fn, src.param.x)`: the event `bump` changes
    `src.x`; the watcher installed by `_setup_refs` calls `Parameters._sync_refs`, which — as soon as
    one current reference depends on the source — re-evaluates EVERY asynchronous reference of the
    object (`… and not is_async: continue`) in the order of the `refs` dict and schedules
    `_async_ref(pname, new_awaitable, ref)` for each, WITHOUT going through `_update_ref`: the new
    task passes the still-current check (same `ref`), finds the older task registered, cancels it
    and registers itself; the older task's `finally` must leave that registration alone;
  * **the same function object assigned again** (`again p`): Python's still-current check is object
    identity, so every task ever scheduled for that function passes it again;
  * **`obj.param.trigger`** — of a third parameter whose watcher assigns a plain value to a linked
    parameter (`trigC`), and of a linked parameter itself (`trigP`: `trigger` re-assigns the current
    value, which `__set__` treats like any plain value);
  * **rejected results** — an awaitable may complete with a value the parameter's `_validate`
    rejects (`Env.rej`): `self_.update` raises inside the task, nothing is stored, no event is sent,
    the `_syncing` scope is left through its `finally`, `_async_ref`'s `finally` removes the
    registration and the task ends with the exception (the link in `refs` stays);
  * **a synchronous reference on the same object** (`assignSync p y`: `obj.p = other.param.x`, `other`
    a second source object whose `x` holds `y`): `_resolve_ref` resolves it at once, the value is
    stored, `_update_ref` cancels `p`'s registered task and links `p` — to a reference no task
    belongs to; `_sync_refs` (run by `bump`, a change of the FIRST source) must step over it
    (`if not any(dep.owner is e.obj and dep.name == e.name …) and not is_async: continue`) and go on to
    the asynchronous references behind it in the `refs` dict;
  * **a synchronous reference that yields no value yet** (`assignSkip p`: its function raises
    `param.Skip`): nothing is stored and no event is sent, but the assignment still supersedes what was
    there — `_update_ref` cancels `p`'s registered task and replaces the link.

Every function below is the function of the same name in Model.lean with the write replaced by
`writeH` (write, then the hook) and the still-current check made on the reference id of the task
(`rf t`; a task created by an assignment is its own reference, `rf t = t`).  With no hook, nothing
rejected and no `bump` in the schedule the two models coincide step by step (`runH_eq_run`,
Async/ExtLemmas.lean);
the theorems of Props/C10.lean are about that fragment, the extension is tied to the code by the
correspondence run and judged by the oracle only.

No Mathlib: loaded by the driver.
-/
import ParamVerif.Async.Model

namespace ParamVerif.Async

/-- `(a, b, w)`: on every write of `a`, assign the plain value `w` to `b` -/
abbrev Hook := Option (Nat × Nat × Int)

/-- what a run is parametrised by: the watcher hook, and which values the parameters REJECT
(`Parameter._validate` raises `ValueError`; the harness uses parameters that reject negative numbers) -/
structure Env where
  hook : Hook
  rej : Int → Bool
  /-- `(b, w)`: a watcher on a third, ordinary parameter `c` assigns the plain value `w` to `b`; it
      runs when the driver calls `obj.param.trigger('c')` -/
  thook : Option (Nat × Int) := none

/-- src: `Parameter.__set__` with a plain value: `_validate(val)` comes before the store and before
the deferred unlink, so a rejected value changes nothing (`none`); otherwise store, unlink, then the
watcher callbacks: the hook's nested plain assignment (ghost: it is the most recent assignment to `b`) -/
def writeH (e : Env) (s : St) (p : Nat) (v : Int) : Option St :=
  if e.rej v then none
  else
    let s1 := plainSet s p v
    match e.hook with
    | some (a, b, w) =>
      if p = a then
        let s2 := plainSet s1 b w
        some { s2 with last := upd s2.last b (.plain w) }
      else some s1
    | none => some s1

/-- `with _syncing(obj, (p,)): obj.param.update({p: v})`: the scope is left through its `finally`
also when the write raises; `false` = the `ValueError` goes on -/
def scopedUpdateH (e : Env) (s : St) (p : Nat) (v : Int) : Bool × St :=
  let saved := s.syncing
  match writeH e { s with syncing := addName saved p } p v with
  | some s1 => (true, { s1 with syncing := saved })
  | none => (false, s)

def genLoopH (e : Env) (t p n : Nat) : Nat → St → St
  | 0, s => endTask (cleanup s t p) t false
  | r + 1, s =>
    match awaitFut s t (t, n - (r + 1)) (.awaitGen (n - (r + 1))) with
    | (.suspended, s1) => s1
    | (.raised, s1) => endTask (cleanup s1 t p) t true
    | (.value v, s1) =>
      match scopedUpdateH e s1 p v with
      | (true, s2) => genLoopH e t p n r s2
      | (false, s2) => endTask (cleanup s2 t p) t true      -- the exception leaves `_async_ref` through its `finally`

/-- `rf t`: the reference the task `t` was scheduled for -/
def stepStartH (c : Cfg) (e : Env) (rf : Nat → Nat) (s : St) (t : Nat) (x : Task) : St :=
  if x.mustCancel then
    s.setTask t { x with pc := .cancelled, mustCancel := false }
  else if c.startCheck && s.refs x.param != some (rf t) then
    s.setTask t { x with pc := .finished }
  else
    let p := x.param
    let s0 := s.setTask t { x with pc := .running }
    let s1 := registerTask c s0 t p
    match x.kind with
    | .coro =>
      if c.awaitInside then
        let saved := s1.syncing
        match awaitFut { s1 with syncing := addName saved p } t (t, 0) (.awaitCoro saved) with
        | (.suspended, s3) => s3
        | (.raised, s3) => endTask (cleanup { s3 with syncing := saved } t p) t true
        | (.value v, s3) =>
          match writeH e s3 p v with
          | some s4 => endTask (cleanup { s4 with syncing := saved } t p) t false
          | none => endTask (cleanup { s3 with syncing := saved } t p) t true
      else
        match awaitFut s1 t (t, 0) .awaitOut with
        | (.suspended, s3) => s3
        | (.raised, s3) => endTask (cleanup s3 t p) t true
        | (.value v, s3) =>
          match scopedUpdateH e s3 p v with
          | (ok, s4) => endTask (cleanup s4 t p) t (!ok)
    | .agen n => genLoopH e t p n n s1

def stepWakeH (e : Env) (s : St) (t : Nat) (x : Task) (f : Fid) : St :=
  if waitingOn t x.pc != some f then s
  else
    let p := x.param
    let res : Option (Option Int) :=
      if x.mustCancel then some none
      else match s.futs f with
        | .done v => some (some v)
        | .cancelled => some none
        | .pending _ => none
    match res with
    | none => s
    | some r =>
      let s0 := s.setTask t { x with pc := .running, mustCancel := false }
      match x.pc, r with
      | .awaitCoro saved, none => endTask (cleanup { s0 with syncing := saved } t p) t true
      | .awaitCoro saved, some v =>
        match writeH e s0 p v with
        | some s4 => endTask (cleanup { s4 with syncing := saved } t p) t false
        | none => endTask (cleanup { s0 with syncing := saved } t p) t true
      | .awaitOut, none => endTask (cleanup s0 t p) t true
      | .awaitOut, some v =>
        match scopedUpdateH e s0 p v with
        | (ok, s4) => endTask (cleanup s4 t p) t (!ok)
      | .awaitGen _, none => endTask (cleanup s0 t p) t true
      | .awaitGen k, some v =>
        match x.kind with
        | .agen n =>
          match scopedUpdateH e s0 p v with
          | (true, s4) => genLoopH e t p n (n - (k + 1)) s4
          | (false, s4) => endTask (cleanup s4 t p) t true
        | .coro => s
      | _, _ => s

def stepReadyH (c : Cfg) (e : Env) (rf : Nat → Nat) (s : St) : St :=
  match s.ready with
  | [] => s
  | (t, w) :: rest =>
    let s1 := { s with ready := rest }
    match s1.tasks t with
    | none => s1
    | some x =>
      match w with
      | none => if x.pc = .start then stepStartH c e rf s1 t x else s1
      | some f => stepWakeH e s1 t x f

def drainH (c : Cfg) (e : Env) (rf : Nat → Nat) : Nat → St → St
  | 0, s => s
  | n + 1, s => if s.ready.isEmpty then s else drainH c e rf n (stepReadyH c e rf s)

/-- the driver's plain values are valid ones -/
def assignPlainH (e : Env) (s : St) (p : Nat) (v : Int) : St :=
  match writeH e s p v with
  | some s1 => { s1 with last := upd s1.last p (.plain v) }
  | none => s

/-- what `refs[p]` holds while `p` is linked to the synchronous reference: no task is ever numbered so -/
def syncRef : Nat := 1000000

/-- src: `Parameter.__set__` with a synchronous reference whose current value is `y`: `_resolve_ref`
returns `(ref, deps, y, False)`; `_validate(y)`, store, `relink()` = `_update_ref(name, ref)` (pops and
cancels the registered task, installs the link), then the watchers -/
def assignSyncH (e : Env) (s : St) (p : Nat) (y : Int) : St :=
  if e.rej y then s
  else
    let s1 := updateRef { s with vals := upd s.vals p y } p syncRef
    let s2 := { s1 with log := s1.log ++ [(p, y)], last := upd s1.last p (.plain y) }
    match e.hook with
    | some (a, b, w) =>
      if p = a then
        let s3 := plainSet s2 b w
        { s3 with last := upd s3.last b (.plain w) }
      else s2
    | none => s2

/-! ### the extended state and schedule -/

structure StH where
  core : St
  /-- insertion order of the keys of the `refs` dict; keys that have been deleted since are filtered
      out when the order is read -/
  order : List Nat
  /-- references (named by the id of their first task) whose function depends on the source -/
  deps : List Nat
  /-- tasks created by `_sync_refs` or by re-assigning the same function object, with the reference
      they were scheduled for -/
  refOf : List (Nat × Nat)
  /-- per parameter, the function object last assigned to it (named by the id of its first task) -/
  fn : List (Nat × Nat) := []

def StH.rf (sh : StH) (t : Nat) : Nat :=
  match sh.refOf.find? (fun e => e.1 = t) with
  | some e => e.2
  | none => t

/-- `list(refs)` -/
def StH.keys (sh : StH) : List Nat := sh.order.filter fun p => (sh.core.refs p).isSome

inductive EventH
  | assign (p : Nat) (src : Src) (dep : Bool)    -- `dep`: `param.bind(fn, src.param.x)` instead of `fn`
  | tick
  | complete (t k : Nat) (v : Int)
  | bump                                         -- `src.x = <new value>`
  | again (p : Nat)                              -- `obj.p = <the SAME function object as last time>`
  | trigC                                        -- `obj.param.trigger('c')`: runs the watcher of `Env.thook`
  | trigP (p : Nat)                              -- `obj.param.trigger(p)` on a (possibly linked) parameter
  | assignSync (p : Nat) (y : Int)               -- `obj.p = other.param.x` (a synchronous reference; `other.x == y`)
  | assignSkip (p : Nat)                         -- `obj.p = param.bind(f, other.param.x)`, `f` raising `param.Skip`
  deriving Repr, DecidableEq

/-- `async_executor(partial(_async_ref, pname, new_awaitable, ref))` from `_sync_refs` -/
def spawnRef (sh : StH) (p r : Nat) : StH :=
  match sh.core.tasks r with
  | none => sh
  | some xr =>
    let s := sh.core
    { sh with
      core := { s with nTasks := s.nTasks + 1,
                       tasks := upd s.tasks s.nTasks (some { param := p, kind := xr.kind, pc := .start, mustCancel := false }),
                       ready := s.ready ++ [(s.nTasks, none)] },
      refOf := sh.refOf ++ [(s.nTasks, r)] }

/-- src: `Parameters._sync_refs`, called by the watcher on the source parameter — which exists iff
some current reference depends on it -/
def bumpH (sh : StH) : StH :=
  let keys := sh.keys
  if keys.any (fun p => match sh.core.refs p with | some r => sh.deps.contains r | none => false) then
    keys.foldl (fun acc p => match acc.core.refs p with | some r => spawnRef acc p r | none => acc) sh
  else sh

def applyEventH (c : Cfg) (e : Env) (sh : StH) : EventH → StH
  | .assign p (.plain v) _ => { sh with core := assignPlainH e sh.core p v }
  | .assign p src dep =>
    let k : Kind := match src with | .agen n => .agen n | _ => .coro
    let t := sh.core.nTasks
    let keys := sh.keys
    { core := assignAsync c sh.core p k,
      order := if keys.contains p then keys else keys ++ [p],
      deps := if dep then sh.deps ++ [t] else sh.deps,
      refOf := sh.refOf,
      fn := (p, t) :: sh.fn.filter (fun e => e.1 ≠ p) }
  -- the reference is the same OBJECT as before: `_update_ref` installs it again, a new task is
  -- scheduled for it — and tasks scheduled for it earlier pass `refs.get(pname) is not ref` again
  | .again p =>
    match sh.fn.find? (fun e => e.1 = p) with
    | none => sh
    | some (_, r) =>
      match sh.core.tasks r with
      | none => sh
      | some xr =>
        let s := sh.core
        let t := s.nTasks
        let keys := sh.keys
        let s1 := if c.startCheck then spawn (updateRef s p r) p xr.kind else updateRef (spawn s p xr.kind) p r
        { sh with core := { s1 with last := upd s1.last p (.task r) },
                  order := if keys.contains p then keys else keys ++ [p],
                  refOf := sh.refOf ++ [(t, r)] }
  | .tick => { sh with core := drainH c e sh.rf (tickFuel sh.core) sh.core }
  | .complete t k v => { sh with core := complete sh.core (t, k) v }
  | .bump => bumpH sh
  -- src: `Parameters.trigger`: `_TRIGGER = True; self_.update({name: current value})`.  `__set__` does not
  -- look at `_TRIGGER`: a plain assignment made by a watcher that `trigger` runs is a plain assignment,
  | .trigC =>
    match e.thook with
    | some (b, w) => { sh with core := assignPlainH e sh.core b w }
    | none => sh
  -- and triggering a linked parameter re-assigns its current value — a plain value: the link is dropped
  | .trigP p => { sh with core := assignPlainH e sh.core p (sh.core.vals p) }
  -- `bumpH` steps over the parameter: `spawnRef` finds no task named `syncRef`
  -- src: `_resolve_ref` returns `(ref, deps, Undefined, False)`; `__set__`: `if is_async or val is Undefined:
  -- if relink is not None and not is_async: relink(); return` — no value, no event, but `_update_ref` cancels the
  -- registered task and installs the link; the parameter keeps the value it holds
  | .assignSkip p =>
    let keys := sh.keys
    let s1 := updateRef sh.core p syncRef
    { sh with core := { s1 with last := upd s1.last p (.plain (s1.vals p)) },
              order := if keys.contains p then keys else keys ++ [p] }
  | .assignSync p y =>
    let keys := sh.keys
    { sh with core := assignSyncH e sh.core p y,
              order := if e.rej y || keys.contains p then keys else keys ++ [p] }

def StH.init (v0 : Int) : StH := { core := St.init v0, order := [], deps := [], refOf := [], fn := [] }

def runH (c : Cfg) (e : Env) (evs : List EventH) : StH := evs.foldl (applyEventH c e) (StH.init 0)

/-- no hook, nothing rejected: the fragment the theorems are about -/
def Env.plain : Env := { hook := none, rej := fun _ => false, thook := none }

end ParamVerif.Async
