/-
C10, the watcher hook lifted into the invariant proof (code in /repo: `awaitInside = false`,
`startCheck = true`).  A watcher on parameter `a` that assigns the plain value `w` to parameter
`b ≠ a` fires inside every write of `a` — in particular inside `self_.update({a: result})` of a task,
while the `_syncing((a,))` scope is open.  Seen from the state before the step, that nested
assignment does to the rest of the state exactly what the driver's plain assignment `b = w` does
(`plainSet_mid`, `scopedUpdateH_midGen`): the hooked step is the core step taken from the state in
which `b = w` has already been assigned.  Since a plain assignment preserves the invariant without
any side condition for this configuration (`inv_assignPlain_repo`), so does every hooked step, and
every schedule run with the hook (`inv_runH`).  No `bump`, nothing rejected.
-/
import ParamVerif.Async.LemmasGhost
import ParamVerif.Async.ExtLemmas

namespace ParamVerif.Async

theorem upd_comm {κ α : Type} [DecidableEq κ] (m : κ → α) (k k' : κ) (x y : α) (h : k ≠ k') :
    upd (upd m k x) k' y = upd (upd m k' y) k x := by
  funext i; simp only [upd]; split <;> split <;> simp_all

/-- the state in the middle of a step of task `t` (parameter `a`), seen from the state `s` before
the step: queue head removed, `t`'s record replaced, `a`'s registration / syncing / values / log
changed.  A plain assignment to ANOTHER parameter `b` made there (by a watcher) does to the rest of
the state exactly what it does to `s` itself. -/
theorem plainSet_mid (s : St) (t a b : Nat) (w : Int) (hd : Nat × Option Fid) (rest : List (Nat × Option Fid))
    (R : Task) (A : Option Nat) (sy : List Nat) (vs : Nat → Int) (lg : List (Nat × Int))
    (hr : s.ready = hd :: rest) (hab : a ≠ b) (hsy : sy.contains b = false) (hs : s.syncing.contains b = false)
    (hu : ∀ u, s.asyncRefs b = some u → u ≠ t) :
    plainSet { s with ready := rest, tasks := upd s.tasks t (some R), asyncRefs := upd s.asyncRefs a A,
                      syncing := sy, vals := vs, log := lg } b w =
    { (plainSet s b w) with ready := (plainSet s b w).ready.tail,
                            tasks := upd (plainSet s b w).tasks t (some R),
                            asyncRefs := upd (plainSet s b w).asyncRefs a A,
                            syncing := sy, vals := upd vs b w, log := lg ++ [(b, w)] } := by
  have hba : b ≠ a := fun e => hab e.symm
  unfold plainSet
  simp only [hsy, hs, Bool.not_false, Bool.and_true]
  cases hrb : s.refs b with
  | none =>
    simp only [Option.isSome_none, Bool.false_eq_true, ↓reduceIte]
    apply St.ext' <;> simp [hr]
  | some r0 =>
    simp only [Option.isSome_some, ↓reduceIte]
    unfold popCancel
    simp only [upd_other _ _ _ _ hba]
    cases hq : s.asyncRefs b with
    | none =>
      simp only []
      apply St.ext' <;> simp [hr, upd_comm _ _ _ _ _ hab]
    | some u =>
      have hut := hu u hq
      simp only []
      unfold cancelTask
      simp only [upd_other _ _ _ _ hut]
      cases htu : s.tasks u with
      | none =>
        simp only []
        apply St.ext' <;> simp [hr, upd_comm _ _ _ _ _ hab]
      | some xu =>
        simp only []
        cases hpc : xu.pc <;> simp only [waitingOn] <;> (try split) <;>
          (apply St.ext' <;> simp [hr, St.setTask, upd_comm _ _ _ _ _ hab, upd_comm _ _ _ _ _ hut])

/-- the environment of the lifted theorems: a watcher on `a` assigning `w` to `b`, nothing rejected -/
def Env.hooked (a b : Nat) (w : Int) : Env := { hook := some (a, b, w), rej := fun _ => false }

theorem plainSet_last (s : St) (p : Nat) (v : Int) : (plainSet s p v).last = s.last := (same_plainSet s p v).1

/-- the hooked write with the scope of `a` freshly opened on an empty `syncing` -/
theorem scopedUpdateH_eq (M : St) (a b : Nat) (w v : Int) (hM : M.syncing = []) :
    scopedUpdateH (Env.hooked a b w) M a v =
      (true, { (plainSet { M with syncing := [a], vals := upd M.vals a v, log := M.log ++ [(a, v)] } b w) with
                 syncing := [], last := upd M.last b (.plain w) }) := by
  unfold scopedUpdateH writeH
  simp only [Env.hooked, Bool.false_eq_true, ↓reduceIte, hM, addName, List.contains_nil, List.nil_append]
  rw [plainSet_in_scope { M with syncing := [a] } a v (by simp)]
  simp only [plainSet_last]

/-- the hooked write in the middle of a generator step = the same write in the middle of the same
step taken from the state in which the watcher's plain assignment has already happened -/
theorem scopedUpdateH_midGen (c : Cfg) (s : St) (t a b : Nat) (w v : Int) (hd : Nat × Option Fid)
    (rest : List (Nat × Option Fid)) (x : Task) (vals' : Nat → Int) (lg : List (Nat × Int))
    (h : Inv c s none) (hca : c.awaitInside = false) (hr : s.ready = hd :: rest) (ht : s.tasks t = some x)
    (hxa : x.param = a) (hab : a ≠ b) :
    scopedUpdateH (Env.hooked a b w) (midGen s t x rest vals' lg) a v =
      (true, midGen (assignPlain s b w) t x (assignPlain s b w).ready.tail (upd (upd vals' a v) b w)
               (lg ++ [(a, v)] ++ [(b, w)])) := by
  have hsy := syncing_nil_of_patch c s h hca
  have hu : ∀ u, s.asyncRefs b = some u → u ≠ t := by
    intro u hq e
    subst e
    have := (h.reg b u x hq ht).1
    exact hab (hxa.symm.trans this)
  rw [scopedUpdateH_eq _ _ _ _ _ (by simpa [midGen] using hsy)]
  simp only [midGen, hxa]
  rw [plainSet_mid s t a b w hd rest _ (some t) [a] _ _ hr hab (by simp; exact fun e => hab e.symm) (by simp [hsy]) hu]
  congr 1
  apply St.ext' <;> simp [assignPlain, hxa, plainSet_last, popCancel_syncing, hsy]
  simp [plainSet]; split <;> simp [popCancel_syncing, hsy]

/-! ### what a plain assignment to `b` leaves alone -/

theorem cancelTask_frame_other (s : St) (u : Nat) :
    (∀ i, i ≠ u → (cancelTask s u).tasks i = s.tasks i) ∧
    (∀ f : Fid, f.1 ≠ u → (cancelTask s u).futs f = s.futs f) ∧
    (∃ ext, (cancelTask s u).ready = s.ready ++ ext) := by
  unfold cancelTask
  split
  · exact ⟨fun _ _ => rfl, fun _ _ => rfl, [], by simp⟩
  · rename_i x hx
    have hset : ∀ y : Task, (∀ i, i ≠ u → (s.setTask u y).tasks i = s.tasks i) ∧
        (∀ f : Fid, f.1 ≠ u → (s.setTask u y).futs f = s.futs f) ∧ (∃ ext, (s.setTask u y).ready = s.ready ++ ext) :=
      fun y => ⟨fun i hi => by simp [St.setTask, upd, hi], fun _ _ => rfl, [], by simp [St.setTask]⟩
    split
    · exact ⟨fun _ _ => rfl, fun _ _ => rfl, [], by simp⟩
    · exact ⟨fun _ _ => rfl, fun _ _ => rfl, [], by simp⟩
    · split
      · rename_i f hf
        split
        · refine ⟨fun _ _ => rfl, ?_, _, rfl⟩
          intro g hg
          have := waitingOn_fst hf
          have : g ≠ f := by intro e; subst e; exact hg this
          simp [upd, this]
        · exact hset _
      · exact hset _

theorem assignPlain_frame_other (s : St) (b : Nat) (w : Int) (t a : Nat) (hab : a ≠ b)
    (hu : ∀ u, s.asyncRefs b = some u → u ≠ t) :
    (assignPlain s b w).tasks t = s.tasks t ∧ (∀ k, (assignPlain s b w).futs (t, k) = s.futs (t, k)) ∧
    (∃ ext, (assignPlain s b w).ready = s.ready ++ ext) ∧ (assignPlain s b w).refs a = s.refs a ∧
    (assignPlain s b w).vals = upd s.vals b w := by
  unfold assignPlain plainSet
  simp only []
  split
  · unfold popCancel
    simp only []
    cases hq : s.asyncRefs b with
    | none => refine ⟨?_, ?_, ⟨[], ?_⟩, ?_, ?_⟩ <;> simp [upd, hab]
    | some u =>
      simp only []
      have hut := hu u hq
      have hf := cancelTask_frame_other
        { s with vals := upd s.vals b w, refs := upd s.refs b none, asyncRefs := upd s.asyncRefs b none } u
      refine ⟨hf.1 t (fun e => hut e.symm), fun k => hf.2.1 (t, k) (fun e => hut e.symm), hf.2.2, ?_, ?_⟩
      · have := (fr_cancelTask { s with vals := upd s.vals b w, refs := upd s.refs b none,
                                         asyncRefs := upd s.asyncRefs b none } u)
        have hr : (cancelTask { s with vals := upd s.vals b w, refs := upd s.refs b none,
                                        asyncRefs := upd s.asyncRefs b none } u).refs = upd s.refs b none := by
          unfold cancelTask; (repeat' split) <;> rfl
        rw [hr]; simp [upd, hab]
      · unfold cancelTask; (repeat' split) <;> rfl
  · exact ⟨rfl, fun _ => rfl, ⟨[], by simp⟩, rfl, rfl⟩

theorem live_assignPlain_other (c : Cfg) (s : St) (b : Nat) (w : Int) (t : Nat) (x : Task) (hab : x.param ≠ b)
    (hu : ∀ u, s.asyncRefs b = some u → u ≠ t) (hl : Live c s t x) : Live c (assignPlain s b w) t x := by
  have hf := assignPlain_frame_other s b w t x.param hab hu
  refine ⟨hl.1, ?_⟩
  rintro (hd | hd | ⟨h1, h2, h3⟩)
  · exact hl.2 (Or.inl hd)
  · apply hl.2; refine Or.inr (Or.inl ?_)
    unfold waitsCancelled at hd ⊢
    cases hw : waitingOn t x.pc with
    | none => simp [hw] at hd
    | some f =>
      simp only [hw] at hd ⊢
      have hft := waitingOn_fst hw
      have : f = (t, f.2) := by rw [← hft]
      rw [this, hf.2.1] at hd
      rw [this]; exact hd
  · exact hl.2 (Or.inr (Or.inr ⟨h1, h2, by rw [← hf.2.2.2.1]; exact h3⟩))

/-- no hazard for the code in /repo -/
theorem inv_assignPlain_repo (c : Cfg) (hca : c.awaitInside = false) (hcs : c.startCheck = true) (s : St)
    (b : Nat) (w : Int) (h : Inv c s none) : Inv c (assignPlain s b w) none :=
  inv_assignPlain c s b w h (by intro e; rw [hca] at e; cases e) (by intro e; rw [hcs] at e; cases e)

/-- a generator step under the hook: after every write the watcher's plain assignment to `b` has
happened in the base state, and the step goes on from there -/
theorem inv_genLoopH (c : Cfg) (hca : c.awaitInside = false) (hcs : c.startCheck = true) (t a b : Nat) (w : Int)
    (hab : a ≠ b) (n : Nat) (w0 : Option Fid) :
    ∀ (r : Nat) (s : St) (rest : List (Nat × Option Fid)) (x : Task) (vals' : Nat → Int)
      (lg : List (Nat × Int)), Inv c s none → s.ready = (t, w0) :: rest → s.tasks t = some x → x.param = a →
      Live c s t x → (∀ f, waitingOn t x.pc = some f → w0 = some f) → (x.pc = .start → w0 = none) →
      x.kind = .agen n → r ≤ n → (∀ q, q ≠ a → vals' q = s.vals q) →
      (0 < n - r → s.futs (t, n - r - 1) = .done (vals' a)) →
      Inv c (genLoopH (Env.hooked a b w) t a n r (midGen s t x rest vals' lg)) none := by
  intro r
  induction r with
  | zero =>
    intro s rest x vals' lg h hr ht hxa hl hw hst hk hrn hvq hp
    have := inv_genLoop c s t w0 rest x n h hr ht hl hw hst hk 0 vals' lg hrn (by rw [hxa]; exact hvq)
      (by rw [hxa]; exact hp)
    rw [hxa] at this
    exact this.1
  | succ r ih =>
    intro s rest x vals' lg h hr ht hxa hl hw hst hk hrn hvq hp
    have core := inv_genLoop c s t w0 rest x n h hr ht hl hw hst hk (r + 1) vals' lg hrn (by rw [hxa]; exact hvq)
      (by rw [hxa]; exact hp)
    rw [hxa] at core
    have hfm : (midGen s t x rest vals' lg).futs = s.futs := rfl
    cases hf : s.futs (t, n - (r + 1)) with
    | done v =>
      simp only [genLoopH, awaitFut, hfm, hf]
      rw [scopedUpdateH_midGen c s t a b w v (t, w0) rest x vals' lg h hca hr ht hxa hab]
      simp only []
      have hu : ∀ u, s.asyncRefs b = some u → u ≠ t := by
        intro u hq e
        subst e
        exact hab (hxa.symm.trans (h.reg b u x hq ht).1)
      have hfr := assignPlain_frame_other s b w t a hab hu
      obtain ⟨ext, hext⟩ := hfr.2.2.1
      have hr' : (assignPlain s b w).ready = (t, w0) :: (assignPlain s b w).ready.tail := by
        rw [hext, hr]; rfl
      apply ih (assignPlain s b w) _ x _ _ (inv_assignPlain_repo c hca hcs s b w h) hr'
        (by rw [hfr.1]; exact ht) hxa (live_assignPlain_other c s b w t x (by rw [hxa]; exact hab) hu hl) hw hst hk
        (by omega)
      · intro q hq
        rw [hfr.2.2.2.2]
        simp only [upd]
        split
        · rfl
        · simp [hq, hvq q hq]
      · intro _
        rw [hfr.2.1]
        have : n - r - 1 = n - (r + 1) := by omega
        rw [this, hf]
        simp [upd, hab]
    | cancelled =>
      have : genLoopH (Env.hooked a b w) t a n (r + 1) (midGen s t x rest vals' lg) =
          genLoop t a n (r + 1) (midGen s t x rest vals' lg) := by
        simp only [genLoopH, genLoop, awaitFut, hfm, hf]
      rw [this]; exact core.1
    | pending w1 =>
      have htm : (midGen s t x rest vals' lg).tasks t = some { x with pc := .running, mustCancel := false } := by
        simp [midGen]
      have : genLoopH (Env.hooked a b w) t a n (r + 1) (midGen s t x rest vals' lg) =
          genLoop t a n (r + 1) (midGen s t x rest vals' lg) := by
        simp only [genLoopH, genLoop, awaitFut, hfm, hf, htm, Bool.false_eq_true, ↓reduceIte]
      rw [this]; exact core.1

/-! ### steps of tasks of other parameters are not affected by the hook -/

theorem writeH_other (a b : Nat) (w : Int) (s : St) (p : Nat) (v : Int) (hp : p ≠ a) :
    writeH (Env.hooked a b w) s p v = some (plainSet s p v) := by
  simp [writeH, Env.hooked, hp]

theorem scopedUpdateH_other (a b : Nat) (w : Int) (s : St) (p : Nat) (v : Int) (hp : p ≠ a) :
    scopedUpdateH (Env.hooked a b w) s p v = (true, scopedUpdate s p v) := by
  simp only [scopedUpdateH, writeH_other a b w _ p v hp, scopedUpdate]

theorem genLoopH_other (a b : Nat) (w : Int) (t p n : Nat) (hp : p ≠ a) :
    ∀ (r : Nat) (s : St), genLoopH (Env.hooked a b w) t p n r s = genLoop t p n r s := by
  intro r
  induction r with
  | zero => intro s; rfl
  | succ r ih =>
    intro s
    simp only [genLoopH, genLoop]
    cases awaitFut s t (t, n - (r + 1)) (Pc.awaitGen (n - (r + 1))) with
    | mk o s1 =>
      cases o with
      | suspended => rfl
      | raised => rfl
      | value v => simp only [scopedUpdateH_other a b w _ p v hp, ih]

theorem stepStartH_other (c : Cfg) (a b : Nat) (w : Int) (s : St) (t : Nat) (x : Task) (hp : x.param ≠ a) :
    stepStartH c (Env.hooked a b w) id s t x = stepStart c s t x := by
  unfold stepStartH stepStart
  simp only [id, writeH_other a b w _ _ _ hp, scopedUpdateH_other a b w _ _ _ hp, genLoopH_other a b w _ _ _ hp,
    Bool.not_true]
  rfl

theorem stepWakeH_other (a b : Nat) (w : Int) (s : St) (t : Nat) (x : Task) (f : Fid) (hp : x.param ≠ a) :
    stepWakeH (Env.hooked a b w) s t x f = stepWake s t x f := by
  unfold stepWakeH stepWake
  simp only [writeH_other a b w _ _ _ hp, scopedUpdateH_other a b w _ _ _ hp, genLoopH_other a b w _ _ _ hp,
    Bool.not_true]
  rfl

/-- a live task that is not inside a scope ends its step after its writes -/
theorem inv_end_midGen (c : Cfg) (s : St) (t : Nat) (w0 : Option Fid) (rest : List (Nat × Option Fid)) (x : Task)
    (V : Nat → Int) (L : List (Nat × Int)) (h : Inv c s none) (hr : s.ready = (t, w0) :: rest)
    (ht : s.tasks t = some x) (hl : Live c s t x) (hw : ∀ f, waitingOn t x.pc = some f → w0 = some f)
    (hst : x.pc = .start → w0 = none) (hvq : ∀ q, q ≠ x.param → V q = s.vals q)
    (hco : x.kind = .coro → s.futs (t, 0) = .done (V x.param))
    (hge : ∀ n, x.kind = .agen n → 0 < n → s.futs (t, n - 1) = .done (V x.param))
    (hxpc : ∀ sv, x.pc ≠ .awaitCoro sv) :
    Inv c (endTask (cleanup (midGen s t x rest V L) t x.param) t false) none := by
  have key := inv_live_end c s t w0 rest x V L h hr ht hl hw hst hvq hco hge
  rw [syncAfterEnd_not_coro _ _ hxpc] at key
  refine inv_of_eq c _ _ ?_ key
  apply St.ext' <;> simp [midGen, cleanup, endTask, St.setTask, upd_upd]

/-- the state after the registration prologue of a live starting task is the mid-state -/
theorem start_mid (c : Cfg) (s : St) (t : Nat) (rest : List (Nat × Option Fid)) (xp : Nat) (xk : Kind)
    (hreg : s.asyncRefs xp = none) :
    registerTask c (({ s with ready := rest } : St).setTask t ⟨xp, xk, .running, false⟩) t xp =
      midGen s t ⟨xp, xk, .start, false⟩ rest s.vals s.log := by
  simp only [registerTask, St.setTask, hreg, midGen]

set_option maxHeartbeats 1000000 in
theorem inv_stepStartH (c : Cfg) (hca : c.awaitInside = false) (hcs : c.startCheck = true) (a b : Nat) (w : Int)
    (hab : a ≠ b) (s : St) (t : Nat) (rest : List (Nat × Option Fid)) (x : Task)
    (h : Inv c s none) (hr : s.ready = (t, none) :: rest) (ht : s.tasks t = some x) (hpc : x.pc = .start) :
    Inv c (stepStartH c (Env.hooked a b w) id { s with ready := rest } t x) none := by
  by_cases hp : x.param = a
  · obtain ⟨xp, xk, xpc, xm⟩ := x
    simp only at hpc hp; subst hpc; subst hp
    have core := (inv_stepStart c s t rest ⟨xp, xk, .start, xm⟩ h hr ht rfl).1
    have hw : ∀ f, waitingOn t Pc.start = some f → (none : Option Fid) = some f := by
      intro f hf; simp [waitingOn] at hf
    by_cases hm : xm = true
    · have : stepStartH c (Env.hooked xp b w) id { s with ready := rest } t ⟨xp, xk, .start, xm⟩ =
          stepStart c { s with ready := rest } t ⟨xp, xk, .start, xm⟩ := by
        simp only [stepStartH, stepStart, hm, ↓reduceIte]
      rw [this]; exact core
    · have hm' : xm = false := by simpa using hm
      subst hm'
      by_cases hsc : (c.startCheck && s.refs xp != some t) = true
      · have : stepStartH c (Env.hooked xp b w) id { s with ready := rest } t ⟨xp, xk, .start, false⟩ =
            stepStart c { s with ready := rest } t ⟨xp, xk, .start, false⟩ := by
          simp only [stepStartH, stepStart, id, hsc, Bool.false_eq_true, ↓reduceIte]
        rw [this]; exact core
      · have hl : Live c s t ⟨xp, xk, .start, false⟩ := by
          refine ⟨rfl, ?_⟩
          rintro (hd | hd | ⟨h1, _, h3⟩)
          · cases hd
          · simp [waitsCancelled, waitingOn] at hd
          · apply hsc; simp [h1, h3]
        have hlast := h.live_last t _ ht hl
        have hreg : s.asyncRefs xp = none := by
          cases hq : s.asyncRefs xp with
          | none => rfl
          | some u =>
            cases hu : s.tasks u with
            | none => exact absurd hu (h.reg_some xp u hq)
            | some xu =>
              have h3 := h.reg xp u xu hq hu
              rw [hlast] at h3
              have : u = t := by have := h3.2.2.2; cases this; rfl
              subst this
              rw [ht] at hu; cases hu
              exact absurd rfl h3.2.1
        unfold stepStartH
        simp only [id, hsc, Bool.false_eq_true, ↓reduceIte, hca]
        rw [start_mid c s t rest xp xk hreg]
        cases xk with
        | agen n =>
          exact inv_genLoopH c hca hcs t xp b w hab n none n s rest _ s.vals s.log h hr ht rfl hl hw (fun _ => rfl) rfl
            (Nat.le_refl _) (fun _ _ => rfl) (by intro hpos; omega)
        | coro =>
          simp only []
          have hfm : (midGen s t ⟨xp, .coro, .start, false⟩ rest s.vals s.log).futs = s.futs := rfl
          cases hf : s.futs (t, 0) with
          | done v =>
            simp only [awaitFut, hfm, hf]
            rw [scopedUpdateH_midGen c s t xp b w v (t, none) rest _ s.vals s.log h hca hr ht rfl hab]
            simp only [Bool.not_true]
            have hu : ∀ u, s.asyncRefs b = some u → u ≠ t := by
              intro u hq e; subst e; exact hab (h.reg b u _ hq ht).1
            have hfr := assignPlain_frame_other s b w t xp hab hu
            obtain ⟨ext, hext⟩ := hfr.2.2.1
            have hr' : (assignPlain s b w).ready = (t, none) :: (assignPlain s b w).ready.tail := by
              rw [hext, hr]; rfl
            refine inv_end_midGen c (assignPlain s b w) t none _ ⟨xp, .coro, .start, false⟩ _ _
              (inv_assignPlain_repo c hca hcs s b w h) hr' (by rw [hfr.1]; exact ht)
              (live_assignPlain_other c s b w t _ hab hu hl) hw (fun _ => rfl) ?_ ?_ ?_ (by intro sv; simp)
            · intro q hq
              rw [hfr.2.2.2.2]; simp only [upd]; split
              · rfl
              · simp [hq]
            · intro _; rw [hfr.2.1, hf]; simp [upd, hab]
            · intro n hn; cases hn
          | cancelled =>
            exfalso
            have := h.fut_cancelled t 0 _ hf ht rfl
            simp [waitingOn] at this
          | pending w1 =>
            have htm : (midGen s t ⟨xp, .coro, .start, false⟩ rest s.vals s.log).tasks t =
                some ⟨xp, .coro, .running, false⟩ := by simp [midGen]
            have : stepStart c { s with ready := rest } t ⟨xp, .coro, .start, false⟩ =
                (awaitFut (midGen s t ⟨xp, .coro, .start, false⟩ rest s.vals s.log) t (t, 0) .awaitOut).2 := by
              unfold stepStart
              simp only [hsc, Bool.false_eq_true, ↓reduceIte, hca]
              rw [start_mid c s t rest xp .coro hreg]
              simp only [awaitFut, hfm, hf, htm, Bool.false_eq_true, ↓reduceIte]
            simp only [awaitFut, hfm, hf, htm, Bool.false_eq_true, ↓reduceIte] at this ⊢
            rw [← this]; exact core
  · rw [stepStartH_other c a b w _ t x hp]
    exact (inv_stepStart c s t rest x h hr ht hpc).1

/-- the state at the resumption of a live suspended task is the mid-state -/
theorem wake_mid (s : St) (t : Nat) (rest : List (Nat × Option Fid)) (x : Task) (hm : x.mustCancel = false)
    (hreg : s.asyncRefs x.param = some t) :
    (({ s with ready := rest } : St).setTask t { x with pc := .running, mustCancel := false }) =
      midGen s t x rest s.vals s.log := by
  apply St.ext' <;> simp [midGen, St.setTask, upd_self _ _ _ hreg]

set_option maxHeartbeats 1000000 in
theorem inv_stepWakeH (c : Cfg) (hca : c.awaitInside = false) (hcs : c.startCheck = true) (a b : Nat) (w : Int)
    (hab : a ≠ b) (s : St) (t : Nat) (f : Fid) (rest : List (Nat × Option Fid)) (x : Task)
    (h : Inv c s none) (hr : s.ready = (t, some f) :: rest) (ht : s.tasks t = some x) :
    Inv c (stepWakeH (Env.hooked a b w) { s with ready := rest } t x f) none := by
  have core := (inv_stepWake c s t f rest x h hr ht).1
  by_cases hp : x.param = a
  · -- unless the step writes, it is the core step
    by_cases hwr : waitingOn t x.pc = some f ∧ x.mustCancel = false ∧ ∃ v, s.futs f = .done v
    · obtain ⟨hwf, hm, v, hf⟩ := hwr
      have hw : ∀ f', waitingOn t x.pc = some f' → some f = some f' := by intro f' hf'; rw [hwf] at hf'; exact hf'
      have hst : x.pc = .start → some f = none := by intro e; rw [e] at hwf; simp [waitingOn] at hwf
      have hnt : x.pc.terminal = false := by cases hx : x.pc <;> simp_all [waitingOn, Pc.terminal]
      have hl : Live c s t x := by
        refine ⟨hnt, ?_⟩
        rintro (hd | hd | ⟨_, h2, _⟩)
        · rw [hm] at hd; cases hd
        · simp [waitsCancelled, hwf, hf] at hd
        · exact absurd (hst h2) (by simp)
      have hreg := h.started_reg t x ht hl (by intro e; exact absurd (hst e) (by simp))
      have hu : ∀ u, s.asyncRefs b = some u → u ≠ t := by
        intro u hq e; subst e; exact hab (hp.symm.trans (h.reg b u x hq ht).1)
      have hfr := assignPlain_frame_other s b w t a hab hu
      obtain ⟨ext, hext⟩ := hfr.2.2.1
      have hr' : (assignPlain s b w).ready = (t, some f) :: (assignPlain s b w).ready.tail := by
        rw [hext, hr]; rfl
      have hB := inv_assignPlain_repo c hca hcs s b w h
      have hlB := live_assignPlain_other c s b w t x (by rw [hp]; exact hab) hu hl
      unfold stepWakeH
      simp only [hwf, bne_self_eq_false, Bool.false_eq_true, ↓reduceIte, hm, hf]
      rw [wake_mid s t rest x hm hreg]
      cases hpc : x.pc with
      | awaitCoro sv => have := (h.scope t x sv ht hpc).1; rw [hca] at this; cases this
      | awaitOut =>
        have hk := h.kind_coro' t x ht hpc
        have hf0 : f = (t, 0) := by rw [hpc] at hwf; simpa [waitingOn] using hwf.symm
        subst hf0
        simp only [hp]
        rw [scopedUpdateH_midGen c s t a b w v (t, some (t, 0)) rest x s.vals s.log h hca hr ht hp hab]
        simp only [Bool.not_true]
        have := inv_end_midGen c (assignPlain s b w) t (some (t, 0)) _ x (upd (upd s.vals a v) b w)
          (s.log ++ [(a, v)] ++ [(b, w)]) hB hr' (by rw [hfr.1]; exact ht) hlB hw hst
          (by intro q hq
              rw [hfr.2.2.2.2]; simp only [upd]; split
              · rfl
              · rw [hp] at hq; simp [hq])
          (by intro _; rw [hfr.2.1, hf, hp]; simp [upd, hab])
          (by intro n hn; rw [hk] at hn; cases hn)
          (by intro sv; rw [hpc]; simp)
        rw [hp] at this; exact this
      | awaitGen k =>
        have hkg := h.kind_gen t x k ht hpc
        have hf0 : f = (t, k) := by rw [hpc] at hwf; simpa [waitingOn] using hwf.symm
        subst hf0
        cases hkind : x.kind with
        | coro => exact absurd hkind hkg.1
        | agen n =>
          have hkn := hkg.2 n hkind
          simp only [hp]
          rw [scopedUpdateH_midGen c s t a b w v (t, some (t, k)) rest x s.vals s.log h hca hr ht hp hab]
          simp only []
          exact inv_genLoopH c hca hcs t a b w hab n (some (t, k)) (n - (k + 1)) (assignPlain s b w) _ x _ _ hB hr'
            (by rw [hfr.1]; exact ht) hp hlB hw hst hkind (by omega)
            (by intro q hq
                rw [hfr.2.2.2.2]; simp only [upd]; split
                · rfl
                · simp [hq])
            (by intro _
                have : n - (n - (k + 1)) - 1 = k := by omega
                rw [this, hfr.2.1, hf]; simp [upd, hab])
      | start => rw [hpc] at hwf; simp [waitingOn] at hwf
      | running => rw [hpc] at hwf; simp [waitingOn] at hwf
      | finished => rw [hpc] at hwf; simp [waitingOn] at hwf
      | cancelled => rw [hpc] at hwf; simp [waitingOn] at hwf
    · have : stepWakeH (Env.hooked a b w) { s with ready := rest } t x f = stepWake { s with ready := rest } t x f := by
        unfold stepWakeH stepWake
        by_cases hwf : waitingOn t x.pc = some f
        · simp only [hwf, bne_self_eq_false, Bool.false_eq_true, ↓reduceIte]
          by_cases hm : x.mustCancel = true
          · simp only [hm, ↓reduceIte]
            cases x.pc <;> rfl
          · have hm' : x.mustCancel = false := by simpa using hm
            simp only [hm', Bool.false_eq_true, ↓reduceIte]
            cases hf : s.futs f with
            | done v => exact absurd ⟨hwf, hm', v, hf⟩ hwr
            | cancelled => simp only []; cases x.pc <;> rfl
            | pending w1 => rfl
        · have : (waitingOn t x.pc != some f) = true := by simpa using hwf
          simp only [this, ↓reduceIte]
      rw [this]; exact core
  · rw [stepWakeH_other a b w _ t x f hp]; exact core

theorem inv_stepReadyH (c : Cfg) (hca : c.awaitInside = false) (hcs : c.startCheck = true) (a b : Nat) (w : Int)
    (hab : a ≠ b) (s : St) (h : Inv c s none) : Inv c (stepReadyH c (Env.hooked a b w) id s) none := by
  unfold stepReadyH
  split
  · exact h
  · rename_i t w0 rest hr
    simp only []
    split
    · rename_i hnone
      refine inv_drop_head c s _ rest h hr ?_ ?_
      · intro t' x' ht' _ e; cases e; rw [hnone] at ht'; cases ht'
      · intro t' x' f' ht' _ _ e; cases e; rw [hnone] at ht'; cases ht'
    · rename_i x hx
      cases w0 with
      | none =>
        simp only []
        split
        · rename_i hpc
          exact inv_stepStartH c hca hcs a b w hab s t rest x h hr hx hpc
        · rename_i hpc
          refine inv_drop_head c s _ rest h hr ?_ ?_
          · intro t' x' ht' hp' e; cases e; rw [hx] at ht'; cases ht'; exact hpc hp'
          · intro t' x' f' _ _ _ e; cases e
      | some f => exact inv_stepWakeH c hca hcs a b w hab s t f rest x h hr hx

theorem inv_drainH (c : Cfg) (hca : c.awaitInside = false) (hcs : c.startCheck = true) (a b : Nat) (w : Int)
    (hab : a ≠ b) (n : Nat) : ∀ s, Inv c s none → Inv c (drainH c (Env.hooked a b w) id n s) none := by
  induction n with
  | zero => intro s h; exact h
  | succ n ih =>
    intro s h
    simp only [drainH]
    split
    · exact h
    · exact ih _ (inv_stepReadyH c hca hcs a b w hab s h)

theorem cancelTask_last_frame (s : St) (t : Nat) (L : Nat → Last) :
    cancelTask { s with last := L } t = { cancelTask s t with last := L } := by
  unfold cancelTask
  simp only []
  split
  · rfl
  · split
    · rfl
    · rfl
    · split
      · split <;> rfl
      · rfl

theorem plainSet_last_frame (s : St) (p : Nat) (v : Int) (L : Nat → Last) :
    plainSet { s with last := L } p v = { plainSet s p v with last := L } := by
  unfold plainSet popCancel
  simp only []
  split
  · split
    · exact congrArg (fun z : St => { z with log := z.log ++ [(p, v)] })
        (cancelTask_last_frame { s with vals := upd s.vals p v, refs := upd s.refs p none,
                                          asyncRefs := upd s.asyncRefs p none } _ L)
    · rfl
  · rfl

/-- a driver assignment to the hooked parameter is two plain assignments -/
theorem assignPlainH_hooked (a b : Nat) (w : Int) (hab : a ≠ b) (s : St) (v : Int) :
    assignPlainH (Env.hooked a b w) s a v = assignPlain (assignPlain s a v) b w := by
  have e := plainSet_last_frame (plainSet s a v) b w (upd (plainSet s a v).last a (.plain v))
  unfold assignPlainH writeH
  simp only [Env.hooked, Bool.false_eq_true, ↓reduceIte]
  show _ = ({ (plainSet { (plainSet s a v) with last := upd (plainSet s a v).last a (.plain v) } b w) with
              last := upd (plainSet { (plainSet s a v) with last := upd (plainSet s a v).last a (.plain v) } b w).last
                b (.plain w) } : St)
  rw [e]
  apply St.ext' <;> simp [upd_comm _ _ _ _ _ hab, plainSet_last]

theorem assignPlainH_other (a b : Nat) (w : Int) (s : St) (p : Nat) (v : Int) (hp : p ≠ a) :
    assignPlainH (Env.hooked a b w) s p v = assignPlain s p v := by
  simp only [assignPlainH, writeH_other a b w s p v hp, assignPlain]

/-- every schedule of assignments, ticks and completions, run with the watcher hook, keeps the
invariant (code in /repo: both fixes present) -/
theorem inv_runH (c : Cfg) (hca : c.awaitInside = false) (hcs : c.startCheck = true) (a b : Nat) (w : Int)
    (hab : a ≠ b) (evs : List Event) : Inv c (runH c (Env.hooked a b w) (evs.map Event.lift)).core none := by
  unfold runH
  suffices ∀ sh : StH, sh.refOf = [] → Inv c sh.core none →
      Inv c ((evs.map Event.lift).foldl (applyEventH c (Env.hooked a b w)) sh).core none from
    this _ rfl (inv_init c 0)
  induction evs with
  | nil => intro sh _ h; exact h
  | cons ev rest ih =>
    intro sh hrf h
    simp only [List.map_cons, List.foldl_cons]
    have hrf' : (applyEventH c (Env.hooked a b w) sh ev.lift).refOf = [] := by
      cases ev with
      | tick => exact hrf
      | complete t k v => exact hrf
      | assign p src => cases src <;> exact hrf
    apply ih _ hrf'
    cases ev with
    | tick =>
      simp only [Event.lift, applyEventH, rf_of_nil sh hrf]
      exact inv_drainH c hca hcs a b w hab _ _ h
    | complete t k v => exact inv_complete c sh.core (t, k) v h
    | assign p src =>
      cases src with
      | plain v =>
        simp only [Event.lift, applyEventH]
        by_cases hp : p = a
        · subst hp
          rw [assignPlainH_hooked p b w hab]
          exact inv_assignPlain_repo c hca hcs _ b w (inv_assignPlain_repo c hca hcs _ p v h)
        · rw [assignPlainH_other a b w _ p v hp]
          exact inv_assignPlain_repo c hca hcs _ p v h
      | coro =>
        exact inv_assignAsync c sh.core p .coro h (by intro e; rw [hca] at e; cases e) (by intro e; rw [hcs] at e; cases e)
      | agen n =>
        exact inv_assignAsync c sh.core p (.agen n) h (by intro _ hk; cases hk) (by intro e; rw [hcs] at e; cases e)

#print axioms inv_runH

end ParamVerif.Async
