/-
C10 helper lemmas, part 3: every event of a schedule preserves the invariant as long as it meets no
hazard (Async/Spec.lean), hence every hazard-free schedule does (`inv_run`); the code in /repo
`Cfg.repo` meets no hazard at all (`hazardFree_repo`).

An assignment is decomposed into "supersede whatever owns the parameter" (`clearP`: the registered
task is cancelled, the link and the ghost are cleared) followed by "store the plain value" or
"create the task and install the link"; the model performs these in a different order, which the
invariant cannot tell apart (`Sim`, `Inv.congr`).
-/
import ParamVerif.Async.LemmasSteps

namespace ParamVerif.Async

/-- a hand-made future completes: it is done, its waiter (if any) is queued -/
theorem inv_complete_post (c : Cfg) (s : St) (f : Fid) (v : Int) (w : Option Nat) (extra : List (Nat × Option Fid))
    (h : Inv c s none) (hf : s.futs f = .pending w)
    (he : ∀ u, w = some u → (u, some f) ∈ extra) :
    Inv c { s with futs := upd s.futs f (.done v), ready := s.ready ++ extra } none :=
  { tasks_lt := h.tasks_lt
    futs_fresh := by have := h.futs_fresh; simp only []; gr
    futs_fresh' := by have := h.futs_fresh'; simp only []; gr
    running := h.running
    live_last := by have := h.live_last; simp only []; gr
    refs_last := h.refs_last
    reg := h.reg
    reg_some := h.reg_some
    started_reg := by have := h.started_reg; simp only []; gr
    last_live := by have := h.last_live; simp only []; gr
    last_some := h.last_some
    start_queued := by have := h.start_queued; simp only []; gr
    wake_queued := by have := h.wake_queued; have := h.waiter; simp only []; gr
    waiter := by have := h.waiter; simp only []; gr
    scope := h.scope
    scope_open := h.scope_open
    one_coro := h.one_coro
    out_patch := h.out_patch
    kind_coro := h.kind_coro
    kind_coro' := h.kind_coro'
    kind_gen := h.kind_gen
    fut_cancelled := by have := h.fut_cancelled; simp only []; gr
    val_plain := h.val_plain
    val_coro := by have := h.val_coro; simp only []; gr
    val_gen := by have := h.val_gen; simp only []; gr
    val_gen' := by have := h.val_gen'; simp only []; gr }

theorem inv_complete (c : Cfg) (s : St) (f : Fid) (v : Int) (h : Inv c s none) : Inv c (complete s f v) none := by
  unfold complete
  split
  · rename_i w hw
    cases w with
    | none =>
      have := inv_complete_post c s f v none [] h hw (by intro u hu; cases hu)
      simpa using this
    | some u =>
      exact inv_complete_post c s f v (some u) [(u, some f)] h hw (by intro u' hu; cases hu; simp)
  · exact h


/-! ### assignments: supersede whatever owns the parameter, then install the new value / task -/

/-- `async_refs.pop(p).cancel()` if registered; the link and the ghost are cleared -/
def clearP (s : St) (p : Nat) : St :=
  { popCancel s p with refs := upd s.refs p none, last := upd s.last p .never }

theorem inv_clear (c : Cfg) (s : St) (p : Nat) (h : Inv c s none)
    (hD : c.startCheck = false → ∀ t x, s.tasks t = some x → x.param = p → x.pc ≠ .start) :
    Inv c (clearP s p) none := by
  unfold clearP popCancel
  cases hq : s.asyncRefs p with
  | none => exact inv_clear_none c s p h hD hq
  | some u =>
    simp only []
    cases hu : s.tasks u with
    | none => exact absurd hu (h.reg_some p u hq)
    | some xu =>
      have hreg := h.reg p u xu hq hu
      unfold cancelTask
      simp only [hu]
      cases hpc : xu.pc with
      | finished => rw [hpc] at hreg; exact absurd hreg.2.2.1 (by simp [Pc.terminal])
      | cancelled => rw [hpc] at hreg; exact absurd hreg.2.2.1 (by simp [Pc.terminal])
      | start => rw [hpc] at hreg; exact absurd rfl hreg.2.1
      | running => exact absurd ((h.running u xu hu).1 hpc) (by simp)
      | awaitCoro sv =>
        simp only [waitingOn]
        cases hf : s.futs (u, 0) with
        | pending w =>
          refine inv_of_eq c _ _ ?_ (inv_clear_fut c s p u xu (u, 0) w h hD hq hu (by simp [hpc, waitingOn]) hf)
          apply St.ext' <;> simp
        | _ =>
          refine inv_of_eq c _ _ ?_ (inv_clear_must c s p u xu h hD hq hu)
          apply St.ext' <;> simp [St.setTask, hpc]
      | awaitOut =>
        simp only [waitingOn]
        cases hf : s.futs (u, 0) with
        | pending w =>
          refine inv_of_eq c _ _ ?_ (inv_clear_fut c s p u xu (u, 0) w h hD hq hu (by simp [hpc, waitingOn]) hf)
          apply St.ext' <;> simp
        | _ =>
          refine inv_of_eq c _ _ ?_ (inv_clear_must c s p u xu h hD hq hu)
          apply St.ext' <;> simp [St.setTask, hpc]
      | awaitGen k =>
        simp only [waitingOn]
        cases hf : s.futs (u, k) with
        | pending w =>
          refine inv_of_eq c _ _ ?_ (inv_clear_fut c s p u xu (u, k) w h hD hq hu (by simp [hpc, waitingOn]) hf)
          apply St.ext' <;> simp
        | _ =>
          refine inv_of_eq c _ _ ?_ (inv_clear_must c s p u xu h hD hq hu)
          apply St.ext' <;> simp [St.setTask, hpc]


theorem cancelTask_frame (s : St) (t : Nat) (a : Nat → Int) (b : Nat → Option Nat) :
    cancelTask { s with vals := a, refs := b } t = { cancelTask s t with vals := a, refs := b } := by
  unfold cancelTask
  simp only []
  split
  · rfl
  · split
    · rfl
    · rfl
    · split
      · split <;> rfl
      · rfl

theorem popCancel_frame (s : St) (p : Nat) (a : Nat → Int) (b : Nat → Option Nat) :
    popCancel { s with vals := a, refs := b } p = { popCancel s p with vals := a, refs := b } := by
  unfold popCancel
  simp only []
  split
  · exact cancelTask_frame { s with asyncRefs := upd s.asyncRefs p none } _ a b
  · rfl

theorem popCancel_vals (s : St) (p : Nat) : (popCancel s p).vals = s.vals := by
  unfold popCancel cancelTask; (repeat' split) <;> rfl
theorem popCancel_refs (s : St) (p : Nat) : (popCancel s p).refs = s.refs := by
  unfold popCancel cancelTask; (repeat' split) <;> rfl
theorem popCancel_last (s : St) (p : Nat) : (popCancel s p).last = s.last := by
  unfold popCancel cancelTask; (repeat' split) <;> rfl
theorem popCancel_log (s : St) (p : Nat) : (popCancel s p).log = s.log := by
  unfold popCancel cancelTask; (repeat' split) <;> rfl
theorem popCancel_syncing (s : St) (p : Nat) : (popCancel s p).syncing = s.syncing := by
  unfold popCancel cancelTask; (repeat' split) <;> rfl
theorem popCancel_nTasks (s : St) (p : Nat) : (popCancel s p).nTasks = s.nTasks := by
  unfold popCancel cancelTask; (repeat' split) <;> rfl

theorem syncing_nil_of_patch (c : Cfg) (s : St) (h : Inv c s none) (ha : c.awaitInside = false) : s.syncing = [] := by
  apply Decidable.byContradiction
  intro hne
  obtain ⟨t', x', sv, h1, h2⟩ := h.scope_open hne
  have := (h.scope t' x' sv h1 h2).1
  rw [ha] at this; cases this

theorem inv_assignPlain (c : Cfg) (s : St) (p : Nat) (v : Int) (h : Inv c s none)
    (hA : c.awaitInside = true → s.syncing.contains p = false)
    (hD : c.startCheck = false → ∀ t x, s.tasks t = some x → x.param = p → x.pc ≠ .start) :
    Inv c (assignPlain s p v) none := by
  have hcont : s.syncing.contains p = false := by
    cases ha : c.awaitInside with
    | true => exact hA ha
    | false => rw [syncing_nil_of_patch c s h ha]; rfl
  unfold assignPlain plainSet
  simp only [hcont, Bool.not_false, Bool.and_true]
  cases hr : s.refs p with
  | none =>
    simp only [Option.isSome_none, Bool.false_eq_true, ↓reduceIte]
    have hl : ∀ t, s.last p ≠ .task t := by
      intro t ht
      have := (h.refs_last p t).2 ht
      rw [hr] at this; cases this
    exact inv_set_plain c s p v _ h hl
  | some t0 =>
    simp only [Option.isSome_some, ↓reduceIte]
    rw [popCancel_frame]
    have hc := inv_clear c s p h hD
    have hl : ∀ t, (clearP s p).last p ≠ .task t := by intro t; simp [clearP, upd]
    have key := inv_set_plain c (clearP s p) p v (s.log ++ [(p, v)]) hc hl
    refine Inv.congr ?_ key
    constructor <;> simp [clearP, popCancel_vals, popCancel_last, popCancel_log, upd]
    intro i; split <;> rfl


theorem Sim.refl (s : St) : Sim s s := by constructor <;> intros <;> rfl

/-- cancelling the registered task and creating a new one commute (up to the order of the queue) -/
theorem popCancel_spawn (s : St) (p q : Nat) (k : Kind) (hlt : ∀ u, s.asyncRefs q = some u → u ≠ s.nTasks) :
    Sim (spawn (popCancel s q) p k) (popCancel (spawn s p k) q) := by
  unfold popCancel
  cases hq : s.asyncRefs q with
  | none => simp only [spawn, hq]; exact Sim.refl _
  | some u =>
    have hne := hlt u hq
    simp only [spawn, hq]
    unfold cancelTask
    simp only [upd, hne, ↓reduceIte]
    cases hu : s.tasks u with
    | none => simp only []; exact Sim.refl _
    | some xu =>
      simp only []
      cases hpc : xu.pc <;> simp only [waitingOn] <;> first
        | exact Sim.refl _
        | (constructor <;> simp [St.setTask, upd] <;> grind)
        | (split <;> (constructor <;> simp [St.setTask, upd] <;> grind))


theorem Sim.trans {a b d : St} (h1 : Sim a b) (h2 : Sim b d) : Sim a d := by
  obtain ⟨a1, a2, a3, a4, a5, a6, a7, a8, a9⟩ := h1
  obtain ⟨b1, b2, b3, b4, b5, b6, b7, b8, b9⟩ := h2
  constructor
  · intro i; rw [b1, a1]
  · intro i; rw [b2, a2]
  · intro i; rw [b3, a3]
  · rw [b4, a4]
  · rw [b5, a5]
  · intro i; rw [b6, a6]
  · intro i; rw [b7, a7]
  · intro e; rw [b8, a8]
  · intro i; rw [b9, a9]

theorem cancelTask_tasks (s : St) (t i : Nat) (x : Task) (h : (cancelTask s t).tasks i = some x) :
    ∃ x0, s.tasks i = some x0 ∧ x0.kind = x.kind ∧ x0.pc = x.pc ∧ x0.param = x.param := by
  have must : ∀ xt, s.tasks t = some xt → (s.setTask t { xt with mustCancel := true }).tasks i = some x →
      ∃ x0, s.tasks i = some x0 ∧ x0.kind = x.kind ∧ x0.pc = x.pc ∧ x0.param = x.param := by
    intro xt hxt h
    simp only [St.setTask, upd] at h
    split at h
    · cases h; subst_vars; exact ⟨xt, hxt, rfl, rfl, rfl⟩
    · exact ⟨x, h, rfl, rfl, rfl⟩
  unfold cancelTask at h
  split at h
  · exact ⟨x, h, rfl, rfl, rfl⟩
  · rename_i xt hxt
    split at h
    · exact ⟨x, h, rfl, rfl, rfl⟩
    · exact ⟨x, h, rfl, rfl, rfl⟩
    · split at h
      · split at h
        · exact ⟨x, h, rfl, rfl, rfl⟩
        · exact must xt hxt h
      · exact must xt hxt h

/-- the tasks after `popCancel` are the tasks before, up to the `_must_cancel` flag -/
theorem popCancel_tasks (s : St) (p i : Nat) (x : Task) (h : (popCancel s p).tasks i = some x) :
    ∃ x0, s.tasks i = some x0 ∧ x0.kind = x.kind ∧ x0.pc = x.pc ∧ x0.param = x.param := by
  unfold popCancel at h
  split at h
  · exact cancelTask_tasks { s with asyncRefs := upd s.asyncRefs p none } _ _ _ h
  · exact ⟨x, h, rfl, rfl, rfl⟩

theorem inv_assignAsync (c : Cfg) (s : St) (p : Nat) (k : Kind) (h : Inv c s none)
    (hB : c.awaitInside = true → k = .coro → ∀ t x, s.tasks t = some x → x.kind = .coro → x.pc.terminal = true)
    (hD : c.startCheck = false → ∀ t x, s.tasks t = some x → x.param = p → x.pc ≠ .start) :
    Inv c (assignAsync c s p k) none := by
  have hc := inv_clear c s p h hD
  have hl : ∀ t, (clearP s p).last p ≠ .task t := by intro t; simp [clearP, upd]
  have hB' : c.awaitInside = true → k = .coro → ∀ t x, (clearP s p).tasks t = some x → x.kind = .coro →
      x.pc.terminal = true := by
    intro ha hk t x ht hkx
    obtain ⟨x0, h1, h2, h3, _⟩ := popCancel_tasks s p t x ht
    rw [← h3]; exact hB ha hk t x0 h1 (by rw [h2]; exact hkx)
  have key := inv_spawn c (clearP s p) p k hc hl hB'
  have hlt : ∀ u, s.asyncRefs p = some u → u ≠ s.nTasks := by
    intro u hu e
    cases hx : s.tasks u with
    | none => exact h.reg_some p u hu hx
    | some x => have := h.tasks_lt u x hx; omega
  refine Inv.congr ?_ key
  unfold assignAsync
  cases hs : c.startCheck with
  | true =>
    simp only [↓reduceIte]
    constructor <;>
      simp [clearP, spawn, updateRef, popCancel_vals, popCancel_refs, popCancel_last, popCancel_nTasks,
        popCancel_syncing, upd] <;> (try intro i; split <;> rfl)
  | false =>
    simp only [Bool.false_eq_true, ↓reduceIte]
    have hsim := popCancel_spawn s p p k hlt
    obtain ⟨a1, a2, a3, a4, a5, a6, a7, a8, a9⟩ := hsim
    constructor
    · intro i; simp only [updateRef]; rw [a1]; simp [clearP, spawn, popCancel_vals]
    · intro i; simp only [updateRef]; simp [clearP, spawn, upd, popCancel_nTasks, popCancel_refs]; split <;> rfl
    · intro i; simp only [updateRef]; rw [a3]; simp [clearP, spawn]
    · simp only [updateRef]; rw [a4]; simp [clearP, spawn]
    · simp only [updateRef]; rw [a5]; simp [clearP, spawn]
    · intro i; simp only [updateRef]; rw [a6]; simp [clearP, spawn]
    · intro i; simp only [updateRef]; rw [a7]; simp [clearP, spawn]
    · intro e; simp only [updateRef]; rw [a8]; simp [clearP, spawn]
    · intro i; simp only [updateRef]; simp [clearP, spawn, upd, popCancel_last, popCancel_nTasks]; split <;> rfl


/-! ### whole schedules -/

theorem anyTask_false (s : St) (f : Nat → Task → Bool) (h : anyTask s f = false) (t : Nat) (x : Task)
    (ht : s.tasks t = some x) (hlt : t < s.nTasks) : f t x = false := by
  unfold anyTask at h
  rw [List.any_eq_false] at h
  have := h t (List.mem_range.2 hlt)
  simp only [ht] at this
  simpa using this

theorem inv_init (c : Cfg) (v0 : Int) : Inv c (St.init v0) none := by
  constructor <;> simp [St.init]

theorem inv_applyEvent (c : Cfg) (s : St) (ev : Event) (h : Inv c s none) (hz : hazard c s ev = false) :
    Inv c (applyEvent c s ev) none := by
  simp only [hazard, Bool.or_eq_false_iff] at hz
  obtain ⟨⟨hA, hB⟩, hD⟩ := hz
  have hD' : ∀ p src, ev = .assign p src → c.startCheck = false →
      ∀ t x, s.tasks t = some x → x.param = p → x.pc ≠ .start := by
    intro p src he hs t x ht hp hpc
    subst he
    simp only [hazD, hs, Bool.not_false, Bool.true_and] at hD
    have := anyTask_false s _ hD t x ht (h.tasks_lt t x ht)
    simp [hp, hpc] at this
  have hB' : ∀ p, ev = .assign p .coro → c.awaitInside = true →
      ∀ t x, s.tasks t = some x → x.kind = .coro → x.pc.terminal = true := by
    intro p he ha t x ht hk
    subst he
    simp only [hazB, ha, Bool.true_and] at hB
    have := anyTask_false s _ hB t x ht (h.tasks_lt t x ht)
    simpa [hk] using this
  cases ev with
  | tick => exact inv_drain c _ s h
  | complete t k v => exact inv_complete c s (t, k) v h
  | assign p src =>
    cases src with
    | plain v =>
      refine inv_assignPlain c s p v h ?_ (hD' p _ rfl)
      intro ha
      simpa [hazA, ha] using hA
    | coro => exact inv_assignAsync c s p .coro h (fun ha _ => hB' p rfl ha) (hD' p _ rfl)
    | agen n => exact inv_assignAsync c s p (.agen n) h (fun _ hk => by cases hk) (hD' p _ rfl)

theorem inv_runFrom (c : Cfg) : ∀ (evs : List Event) (s : St), Inv c s none → hazardFreeFrom c s evs = true →
    Inv c (runFrom c s evs) none := by
  intro evs
  induction evs with
  | nil => intro s h _; exact h
  | cons ev rest ih =>
    intro s h hz
    simp only [hazardFreeFrom, Bool.and_eq_true, Bool.not_eq_true'] at hz
    exact ih _ (inv_applyEvent c s ev h hz.1) hz.2

theorem inv_run (c : Cfg) (evs : List Event) (hz : HazardFree c evs) : Inv c (run c evs) none :=
  inv_runFrom c evs _ (inv_init c 0) hz

/-- the code in /repo meets no hazard, whatever the schedule -/
theorem hazard_repo (s : St) (ev : Event) : hazard Cfg.repo s ev = false := by
  cases ev with
  | assign p src => cases src <;> simp [hazard, hazA, hazB, hazD, Cfg.repo]
  | _ => simp [hazard, hazA, hazB, hazD]

theorem hazardFree_repo (evs : List Event) : HazardFree Cfg.repo evs := by
  unfold HazardFree
  generalize St.init 0 = s
  induction evs generalizing s with
  | nil => rfl
  | cons ev rest ih => simp [hazardFreeFrom, hazard_repo, ih]


end ParamVerif.Async
